//go:build verif

// C14 harness: the REAL rangetask.Runner, DeleteRangeTask, tikv.ResolveLocksForRange / GCResolveLockPhase and
// KVStore.CheckVisibility over a mocktikv cluster, on op lines shared with the Lean model driver (cgv-c14).
//
// Ops (one case = "# case n", "reset", set-up ops, one action op):
//
//	reset                                          fresh single-region cluster + KVStore
//	layout <k,k,..|->                              split the key space at these keys now
//	split <idx> <key>                              schedule a split: for run right before the idx-th PD ScanRegions
//	                                               load, for del right before the idx-th DeleteRange RPC (stale
//	                                               region cache), for gc right after the idx-th successful ScanLock
//	put <key> <val> <startTs> <commitTs>           committed version
//	txn <ts> <kind> <cts> <primary> <keys> <locked> kind committed|rolledback|pending|pess: prewrite (or pessimistic-lock)
//	                                               the keys, finish all but <locked> (commit at cts / rollback)
//	run <s> <e> <regionsPerTask> <workers> <fail|-> Runner with a recording handler (the fail-th handler call fails)
//	del <s> <e> <workers>                          DeleteRangeTask, then store content
//	gc <pure|shim|phase> <sp> <limit> <rpt> <workers> lock-resolution phase of GC, then the store-level audit
//	vis <get|bget|iter> <sp> <ageSec> <ts> <key>   snapshot read with the txn safe point cache set to sp
//	runc <s> <e> <rpt> <workers> <before|inh|between> <i>   chk-complete: the CALLER's context is cancelled before the
//	                                               run / inside the i-th handler call, which returns nil (a further
//	                                               sub-range is queued behind the busy workers, or all are in handlers)
//	                                               / while every worker waits for its next pull; RunOnRange returned
//	                                               nil => the handler ran over the WHOLE range, else FAIL success-with-gap
//	gcc <sp> <j>                                   the same at GC level: resolve-locks phase (128 regions per sub-range,
//	                                               one worker), context cancelled right after the j-th ScanLock; nil => audit
//
// gc modes: pure = StoreProbe.GCResolveLockPhase on the unmodified mock; shim = Runner + tikv.ResolveLocksForRange
// with the given scan limit, over an RPC wrapper that (a) applies StartKey/EndKey/Limit of ScanLock to the mock's
// answer and (b) hands the batched TxnInfos of ResolveLock to the mock's own MVCCStore.BatchResolveLock (the mock's
// RPC handler ignored both before /repo a713e36; it honours the TxnInfos form now); phase = GCResolveLockPhase over the same wrapper.
package main

import (
	"bytes"
	"context"
	"errors"
	"fmt"
	"math"
	"os"
	"runtime/debug"
	"sort"
	"strconv"
	"strings"
	"sync"
	"sync/atomic"
	"time"

	"github.com/pingcap/failpoint"
	"github.com/pingcap/kvproto/pkg/kvrpcpb"
	tikverr "github.com/tikv/client-go/v2/error"
	"github.com/tikv/client-go/v2/internal/mockstore/mocktikv"
	"github.com/tikv/client-go/v2/kv"
	"github.com/tikv/client-go/v2/tikv"
	"github.com/tikv/client-go/v2/tikvrpc"
	"github.com/tikv/client-go/v2/txnkv/rangetask"
	"github.com/tikv/client-go/v2/util"
	"github.com/tikv/client-go/v2/verifx/vx"
	pd "github.com/tikv/pd/client"
	"github.com/tikv/pd/client/clients/router"
	"github.com/tikv/pd/client/opt"
	"github.com/tikv/pd/client/pkg/caller"
)

type txnSpec struct {
	ts, cts uint64
	kind    string
	primary []byte
	keys    [][]byte
	locked  [][]byte
}
type putSpec struct {
	key, val []byte
	sts, cts uint64
}
type splitSpec struct {
	idx  int
	key  []byte
	done bool
}
type scanRec struct {
	lo, hi []byte
	n      int
}

type env struct {
	rpc     *mocktikv.RPCClient
	cluster *mocktikv.Cluster
	mvcc    mocktikv.MVCCStore
	store   *tikv.KVStore

	mu        sync.Mutex
	splits    []*splitSpec
	armPD     bool
	pdLoads   int
	loadHook  func(idx int) // called at the start of the idx-th armed PD load
	scanHook  func(idx int) // called after the idx-th successful armed ScanLock
	armScan   bool
	shim      bool
	scanOK    int
	scanCalls int
	scans     []scanRec
	pure      bool            // the last gc ran on the unmodified mock
	acked     map[uint64]bool // transactions named in a batched ResolveLock request that the store acknowledged
	recDel    bool
	delCalls  int
	delReqs   []kv.KeyRange

	puts []putSpec
	txns []txnSpec
}

// ---------------------------------------------------------------- wrappers

type pdWrap struct {
	pd.Client
	e *env
}

func (p *pdWrap) ScanRegions(ctx context.Context, key, endKey []byte, limit int, opts ...opt.GetRegionOption) ([]*router.Region, error) {
	p.e.mu.Lock()
	var hook func(int)
	idx := -1
	if p.e.armPD {
		idx = p.e.pdLoads
		p.e.pdLoads++
		for _, s := range p.e.splits {
			if !s.done && s.idx <= idx {
				s.done = true
				p.e.doSplit(s.key)
			}
		}
		hook = p.e.loadHook
	}
	p.e.mu.Unlock()
	if hook != nil {
		hook(idx) // may block (cancellation scenarios): called without the lock
	}
	return p.Client.ScanRegions(ctx, key, endKey, limit, opts...)
}

// WithCallerComponent must keep the wrapper (the region cache and the store call it on the client they are given)
func (p *pdWrap) WithCallerComponent(c caller.Component) pd.Client {
	return &pdWrap{Client: p.Client.WithCallerComponent(c), e: p.e}
}

type rpcWrap struct {
	tikv.Client
	e *env
}

func inRange(k, s, e []byte) bool {
	return bytes.Compare(s, k) <= 0 && (len(e) == 0 || bytes.Compare(k, e) < 0)
}

func (c *rpcWrap) SendRequest(ctx context.Context, addr string, req *tikvrpc.Request, timeout time.Duration) (*tikvrpc.Response, error) {
	e := c.e
	switch req.Type {
	case tikvrpc.CmdScanLock:
		e.mu.Lock()
		e.scanCalls++
		over := e.scanCalls > 20000
		e.mu.Unlock()
		if over {
			return nil, errors.New("verif: ScanLock watchdog (the loop does not advance)")
		}
		r := req.ScanLock()
		start, end, limit := append([]byte{}, r.StartKey...), append([]byte{}, r.EndKey...), int(r.Limit)
		resp, err := c.Client.SendRequest(ctx, addr, req, timeout)
		if err != nil || !e.shim {
			return resp, err
		}
		sr, ok := resp.Resp.(*kvrpcpb.ScanLockResponse)
		if !ok || sr.RegionError != nil || sr.Error != nil {
			return resp, err
		}
		var out []*kvrpcpb.LockInfo
		for _, l := range sr.Locks {
			if inRange(l.Key, start, end) && (limit == 0 || len(out) < limit) {
				out = append(out, l)
			}
		}
		sr.Locks = out
		e.mu.Lock()
		if e.armScan {
			idx := e.scanOK
			e.scanOK++
			e.scans = append(e.scans, scanRec{start, end, len(out)})
			for _, s := range e.splits {
				if !s.done && s.idx <= idx {
					s.done = true
					e.doSplit(s.key)
				}
			}
			if h := e.scanHook; h != nil {
				e.mu.Unlock()
				h(idx) // may block (cancellation scenario)
				return resp, nil
			}
		}
		e.mu.Unlock()
		return resp, nil
	case tikvrpc.CmdResolveLock:
		r := req.ResolveLock()
		resp, err := c.Client.SendRequest(ctx, addr, req, timeout)
		if err != nil || len(r.TxnInfos) == 0 {
			return resp, err
		}
		rr, ok := resp.Resp.(*kvrpcpb.ResolveLockResponse)
		if !ok || rr.RegionError != nil || rr.Error != nil {
			return resp, err
		}
		e.mu.Lock()
		for _, ti := range r.TxnInfos {
			e.acked[ti.Txn] = true
		}
		e.mu.Unlock()
		if !e.shim {
			return resp, err
		}
		region, _ := e.cluster.GetRegion(req.Context.RegionId)
		if region == nil {
			return nil, errors.New("verif: region vanished")
		}
		infos := map[uint64]uint64{}
		for _, ti := range r.TxnInfos {
			infos[ti.Txn] = ti.Status
		}
		if err := e.mvcc.BatchResolveLock(mocktikv.MvccKey(region.StartKey).Raw(), mocktikv.MvccKey(region.EndKey).Raw(), infos); err != nil {
			return nil, err
		}
		return resp, nil
	case tikvrpc.CmdDeleteRange:
		r := req.DeleteRange()
		kr := kv.KeyRange{StartKey: append([]byte{}, r.StartKey...), EndKey: append([]byte{}, r.EndKey...)}
		e.mu.Lock()
		if e.recDel {
			idx := e.delCalls
			e.delCalls++
			for _, s := range e.splits {
				if !s.done && s.idx <= idx {
					s.done = true
					e.doSplit(s.key)
				}
			}
		}
		e.mu.Unlock()
		resp, err := c.Client.SendRequest(ctx, addr, req, timeout)
		if err == nil {
			if dr, ok := resp.Resp.(*kvrpcpb.DeleteRangeResponse); ok && dr.RegionError == nil && dr.Error == "" {
				e.mu.Lock()
				if e.recDel {
					e.delReqs = append(e.delReqs, kr)
				}
				e.mu.Unlock()
			}
		}
		return resp, err
	}
	return c.Client.SendRequest(ctx, addr, req, timeout)
}

// ---------------------------------------------------------------- environment

func newEnv() *env {
	rpc, cluster, pdc, err := mocktikv.NewTiKVAndPDClient("", nil)
	if err != nil {
		panic(err)
	}
	mocktikv.BootstrapWithSingleStore(cluster)
	e := &env{rpc: rpc, cluster: cluster, mvcc: rpc.MvccStore}
	// the PD wrapper goes below the codec client (NewKVStore insists on a *CodecPDClient on top)
	store, err := tikv.NewTestTiKVStore(rpc, &pdWrap{Client: pdc, e: e},
		func(c tikv.Client) tikv.Client { return &rpcWrap{Client: c, e: e} }, nil, 0)
	if err != nil {
		panic(err)
	}
	e.store = store
	return e
}

func (e *env) close() {
	if e != nil && e.store != nil {
		e.store.Close()
	}
}

// doSplit splits the region containing key at key (no-op for the empty key and for an existing boundary).
func (e *env) doSplit(key []byte) {
	if len(key) == 0 {
		return
	}
	mk := mocktikv.NewMvccKey(key)
	r, _, _, _ := e.cluster.GetRegionByKey(mk)
	if r == nil || bytes.Equal(r.StartKey, mk) {
		return
	}
	ids := e.cluster.AllocIDs(2)
	e.cluster.Split(r.Id, ids[0], key, []uint64{ids[1]}, ids[1])
	if e.armPD || e.armScan || e.recDel {
		count("split-fired-during-action")
	}
}

func must(errs []error) {
	for _, err := range errs {
		if err != nil {
			panic(fmt.Sprintf("set-up failed: %v", err))
		}
	}
}

func (e *env) put(p putSpec) {
	must(e.mvcc.Prewrite(&kvrpcpb.PrewriteRequest{
		Mutations:    []*kvrpcpb.Mutation{{Op: kvrpcpb.Op_Put, Key: p.key, Value: p.val}},
		PrimaryLock:  p.key,
		StartVersion: p.sts, LockTtl: 1,
	}))
	must([]error{e.mvcc.Commit([][]byte{p.key}, p.sts, p.cts)})
	e.puts = append(e.puts, p)
}

func txnVal(ts uint64) []byte { return []byte("t" + strconv.FormatUint(ts, 10)) }

func contains(ks [][]byte, k []byte) bool {
	for _, x := range ks {
		if bytes.Equal(x, k) {
			return true
		}
	}
	return false
}

func (e *env) txn(t txnSpec) {
	var finish [][]byte
	for _, k := range t.keys {
		if !contains(t.locked, k) {
			finish = append(finish, k)
		}
	}
	switch t.kind {
	case "pess":
		var muts []*kvrpcpb.Mutation
		for _, k := range t.locked {
			muts = append(muts, &kvrpcpb.Mutation{Op: kvrpcpb.Op_PessimisticLock, Key: k})
		}
		resp := e.mvcc.PessimisticLock(&kvrpcpb.PessimisticLockRequest{Mutations: muts, PrimaryLock: t.primary,
			StartVersion: t.ts, ForUpdateTs: t.ts, LockTtl: 1})
		for _, ke := range resp.Errors {
			if ke != nil {
				panic("set-up failed: pessimistic lock")
			}
		}
	default:
		var muts []*kvrpcpb.Mutation
		pre := t.keys
		if t.kind == "pending" {
			pre = t.locked
		}
		for _, k := range pre {
			muts = append(muts, &kvrpcpb.Mutation{Op: kvrpcpb.Op_Put, Key: k, Value: txnVal(t.ts)})
		}
		if len(muts) > 0 {
			must(e.mvcc.Prewrite(&kvrpcpb.PrewriteRequest{Mutations: muts, PrimaryLock: t.primary, StartVersion: t.ts, LockTtl: 1}))
		}
		if len(finish) > 0 {
			switch t.kind {
			case "committed":
				must([]error{e.mvcc.Commit(finish, t.ts, t.cts)})
			case "rolledback":
				must([]error{e.mvcc.Rollback(finish, t.ts)})
			}
		}
	}
	e.txns = append(e.txns, t)
}

// ---------------------------------------------------------------- formatting

func rangeStr(r kv.KeyRange) string { return vx.Hex(r.StartKey) + ":" + vx.Hex(r.EndKey) }
func joinOr(sep string, l []string) string {
	if len(l) == 0 {
		return "-"
	}
	return strings.Join(l, sep)
}
func rangesStr(rs []kv.KeyRange) string {
	var out []string
	for _, r := range rs {
		out = append(out, rangeStr(r))
	}
	return joinOr(",", out)
}
func keysStr(ks [][]byte) string {
	var out []string
	for _, k := range ks {
		out = append(out, vx.Hex(k))
	}
	return joinOr(",", out)
}
func sortRanges(rs []kv.KeyRange) {
	sort.SliceStable(rs, func(i, j int) bool { return bytes.Compare(rs[i].StartKey, rs[j].StartKey) < 0 })
}

// partitionOK is the property oracle on the implementation's own output: after sorting by start key the
// sub-ranges are consecutive, non-empty, start at s, end at e (empty e = unbounded), i.e. exactly cover [s,e).
func partitionOK(s, e []byte, rs []kv.KeyRange) string {
	if len(e) != 0 && bytes.Compare(s, e) >= 0 {
		if len(rs) != 0 {
			return "handler-called-on-empty-range"
		}
		return ""
	}
	if len(rs) == 0 {
		return "no-sub-range"
	}
	cur := s
	for i, r := range rs {
		if !bytes.Equal(r.StartKey, cur) {
			if bytes.Compare(r.StartKey, cur) < 0 {
				return "overlap"
			}
			return "gap"
		}
		last := i == len(rs)-1
		if last {
			if !bytes.Equal(r.EndKey, e) {
				return "last-end-differs"
			}
			if len(e) != 0 && bytes.Compare(r.StartKey, e) >= 0 {
				return "empty-sub-range"
			}
		} else {
			if len(r.EndKey) == 0 {
				return "unbounded-before-last"
			}
			if bytes.Compare(r.StartKey, r.EndKey) >= 0 {
				return "empty-sub-range"
			}
			cur = r.EndKey
		}
	}
	return ""
}

// subChainOK: sub-ranges handled before a failure: inside [s,e), non-empty, pairwise non-overlapping
func subChainOK(s, e []byte, rs []kv.KeyRange) string {
	for i, r := range rs {
		if bytes.Compare(r.StartKey, s) < 0 {
			return "outside"
		}
		if len(e) != 0 && (len(r.EndKey) == 0 || bytes.Compare(r.EndKey, e) > 0) {
			return "outside"
		}
		if len(r.EndKey) != 0 && bytes.Compare(r.StartKey, r.EndKey) >= 0 {
			return "empty-sub-range"
		}
		if i+1 < len(rs) && (len(r.EndKey) == 0 || bytes.Compare(r.EndKey, rs[i+1].StartKey) > 0) {
			return "overlap"
		}
	}
	return ""
}

// ---------------------------------------------------------------- actions

func (e *env) arm(pdArm, scanArm, shim, recDel bool) {
	e.mu.Lock()
	e.armPD, e.pdLoads = pdArm, 0
	e.armScan, e.scanOK, e.scans, e.scanCalls = scanArm, 0, nil, 0
	e.shim, e.recDel, e.delReqs, e.delCalls = shim, recDel, nil, 0
	if scanArm || e.acked == nil {
		e.acked = map[uint64]bool{}
	}
	e.mu.Unlock()
}

func (e *env) opRun(s, en []byte, rpt, workers, fail int) string {
	var mu sync.Mutex
	var got []kv.KeyRange
	var calls int32
	handler := func(ctx context.Context, r kv.KeyRange) (rangetask.TaskStat, error) {
		n := int(atomic.AddInt32(&calls, 1)) - 1
		mu.Lock()
		got = append(got, kv.KeyRange{StartKey: append([]byte{}, r.StartKey...), EndKey: append([]byte{}, r.EndKey...)})
		mu.Unlock()
		if n == fail {
			return rangetask.TaskStat{FailedRegions: 1}, errors.New("injected handler failure")
		}
		return rangetask.TaskStat{CompletedRegions: 1}, nil
	}
	runner := rangetask.NewRangeTaskRunner("verif-c14", e.store, workers, handler)
	runner.SetRegionsPerTask(rpt)
	e.arm(true, false, false, false)
	err := runner.RunOnRange(context.Background(), s, en)
	e.arm(false, false, false, false)
	sortRanges(got)
	failed := fail >= 0 && int(atomic.LoadInt32(&calls)) > fail
	if len(got) > 1 {
		count("run:several-sub-ranges")
	}
	if failed {
		count("run:handler-failed")
		if err == nil {
			return "FAIL failure-not-reported " + rangesStr(got)
		}
		if w := subChainOK(s, en, got); w != "" {
			return "FAIL handled-" + w + " " + rangesStr(got)
		}
		if workers == 1 {
			return "err " + rangesStr(got)
		}
		return "err *"
	}
	if err != nil {
		return "FAIL spurious-error " + rangesStr(got)
	}
	if w := partitionOK(s, en, got); w != "" {
		return "FAIL partition " + w + " " + rangesStr(got)
	}
	return "ok " + rangesStr(got)
}

// ---- cancellation of the CALLER's context while the range task runs

// cancelRun is one RunOnRange under a cancellation scenario; it returns the result class and the handled sub-ranges.
//   before  : the context is cancelled before RunOnRange is called
//   inh i   : the i-th handler call (and every later one) is held until the producer is known to have queued a
//             further sub-range behind the busy workers (or until every sub-range is in a handler), then the
//             caller's context is cancelled and the handlers return nil without looking at it
//   between i: the producer is kept slower than the workers (each region load waits until everything pushed so far
//             was handled); the context is cancelled during load i+1, i.e. while every worker waits for its next pull
func (e *env) cancelRun(s, en []byte, rpt, workers int, mode string, i, total int) (string, []kv.KeyRange) {
	ctx, cancel := context.WithCancel(context.Background())
	defer cancel()
	var mu sync.Mutex
	var got []kv.KeyRange
	var started, blocked, done int32
	gate := make(chan struct{})
	var once sync.Once
	timedOut := int32(0)
	waitFor := func(cond func() bool) {
		t0 := time.Now()
		for !cond() {
			if time.Since(t0) > 10*time.Second { // never reached on a run that makes progress
				atomic.StoreInt32(&timedOut, 1)
				return
			}
			time.Sleep(20 * time.Microsecond)
		}
	}
	loads := func() int { e.mu.Lock(); defer e.mu.Unlock(); return e.pdLoads }
	handler := func(_ context.Context, r kv.KeyRange) (rangetask.TaskStat, error) {
		n := int(atomic.AddInt32(&started, 1)) - 1
		mu.Lock()
		got = append(got, kv.KeyRange{StartKey: append([]byte{}, r.StartKey...), EndKey: append([]byte{}, r.EndKey...)})
		mu.Unlock()
		defer atomic.AddInt32(&done, 1)
		if mode == "inh" && n >= i {
			atomic.AddInt32(&blocked, 1)
			if n == i {
				inflight := total - i
				if inflight > workers {
					inflight = workers
				}
				waitFor(func() bool {
					if int(atomic.LoadInt32(&blocked)) < inflight {
						return false
					}
					// every remaining sub-range is in a handler, or a sub-range is queued behind the busy workers
					return total-i <= workers || loads() >= i+workers+2
				})
				once.Do(func() { cancel(); close(gate) })
			}
			<-gate
		}
		return rangetask.TaskStat{CompletedRegions: 1}, nil
	}
	e.arm(true, false, false, false)
	if mode == "between" {
		e.mu.Lock()
		e.loadHook = func(idx int) {
			if idx > i+1 {
				return // after the cancellation nothing is held back any more
			}
			waitFor(func() bool { return int(atomic.LoadInt32(&done)) >= idx })
			if idx == i+1 {
				cancel()
			}
		}
		e.mu.Unlock()
	}
	if mode == "before" {
		cancel()
	}
	runner := rangetask.NewRangeTaskRunner("verif-c14-cancel", e.store, workers, handler)
	runner.SetRegionsPerTask(rpt)
	err := runner.RunOnRange(ctx, s, en)
	e.mu.Lock()
	e.loadHook = nil
	e.mu.Unlock()
	e.arm(false, false, false, false)
	sortRanges(got)
	switch {
	case atomic.LoadInt32(&timedOut) != 0:
		return "harness-timeout", got
	case err != nil:
		return "err", got
	case partitionOK(s, en, got) == "":
		return "nil-complete", got
	}
	return "nil-gap", got
}

// opRunC: `runc <s> <e> <rpt> <workers> <before|inh|between> <i>` — property op chk-complete:
// RunOnRange returned nil  =>  the handler ran over sub-ranges whose union is the whole requested range.
func (e *env) opRunC(s, en []byte, rpt, workers int, mode string, i int) string {
	// a run without cancellation tells how many sub-ranges there are
	cls, all := e.cancelRun(s, en, rpt, workers, "none", 0, 0)
	if cls != "nil-complete" {
		return "FAIL uncancelled-run " + cls
	}
	total := len(all)
	reps := 1
	switch mode {
	case "inh":
		if i >= total || !(total-i <= workers || total >= i+workers+2) {
			return "skip"
		}
	case "before", "between":
		reps = 24 // the outcome depends on which ready case the producer's select takes
	default:
		return "bad-op"
	}
	seen := map[string]bool{}
	for r := 0; r < reps; r++ {
		cls, got := e.cancelRun(s, en, rpt, workers, mode, i, total)
		count("runc:" + mode + ":" + cls)
		if cls == "harness-timeout" {
			return "FAIL harness-timeout"
		}
		if cls == "nil-gap" {
			return "FAIL success-with-gap " + rangesStr(got)
		}
		seen[cls] = true
	}
	var cs []string
	for c := range seen {
		cs = append(cs, c)
	}
	sort.Strings(cs)
	return "ok " + strings.Join(cs, ",")
}

// opGCC: `gcc <sp> <j>` — the resolve-locks phase of GC (regionsPerTask 128, one worker) with the caller's context
// cancelled right after the j-th successful ScanLock, once the producer has queued the next sub-range and is blocked
// on the one after it. chk-complete at GC level: GC returned nil  =>  audit (no lock <= safe point left, …).
func (e *env) opGCC(sp uint64, j int) string {
	rpt := 128
	regions := len(e.cluster.GetAllRegions())
	total := (regions + rpt - 1) / rpt
	cur := j / rpt // below the scan limit every region costs one ScanLock
	if j >= regions || cur+3 > total {
		return "skip"
	}
	ctx, cancel := context.WithCancel(context.Background())
	defer cancel()
	timedOut := int32(0)
	e.arm(true, true, true, false)
	e.mu.Lock()
	e.scanHook = func(idx int) {
		if idx != j {
			return
		}
		t0 := time.Now()
		for {
			e.mu.Lock()
			l := e.pdLoads
			e.mu.Unlock()
			if l >= cur+3 {
				break
			}
			if time.Since(t0) > 10*time.Second {
				atomic.StoreInt32(&timedOut, 1)
				break
			}
			time.Sleep(20 * time.Microsecond)
		}
		cancel()
	}
	e.mu.Unlock()
	err := tikv.StoreProbe{KVStore: e.store}.GCResolveLockPhase(ctx, sp, 1)
	e.mu.Lock()
	e.scanHook = nil
	e.mu.Unlock()
	e.arm(false, false, false, false)
	if atomic.LoadInt32(&timedOut) != 0 {
		return "FAIL harness-timeout"
	}
	if err != nil {
		count("gcc:err")
		return "ok err"
	}
	count("gcc:nil")
	if a := e.audit(sp); a != "" {
		return a
	}
	return "ok nil-complete"
}

func (e *env) liveKeys() [][]byte {
	var out [][]byte
	for _, p := range e.mvcc.Scan(nil, nil, 1<<30, 1<<62, kvrpcpb.IsolationLevel_RC, nil) {
		out = append(out, p.Key)
	}
	return out
}

func (e *env) opDel(s, en []byte, workers int) string {
	static := len(e.splits) == 0
	task := rangetask.NewDeleteRangeTask(e.store, s, en, workers)
	e.arm(false, false, false, true)
	err := task.Execute(context.Background())
	e.mu.Lock()
	reqs := append([]kv.KeyRange{}, e.delReqs...)
	e.mu.Unlock()
	e.arm(false, false, false, false)
	if err != nil {
		return "FAIL delete-range-error"
	}
	// reference: a plain map of the keys that were put
	ref := map[string]bool{}
	for _, p := range e.puts {
		if !inRange(p.key, s, en) || (len(en) != 0 && bytes.Compare(s, en) >= 0) {
			ref[string(p.key)] = true
		}
	}
	var want []string
	for k := range ref {
		want = append(want, k)
	}
	sort.Strings(want)
	left := e.liveKeys()
	same := len(left) == len(want)
	for i := 0; same && i < len(left); i++ {
		same = string(left[i]) == want[i]
	}
	if !same {
		return "FAIL delete-range left " + keysStr(left)
	}
	var np []putSpec
	for _, p := range e.puts {
		if ref[string(p.key)] {
			np = append(np, p)
		}
	}
	e.puts = np
	rq := "*"
	if static {
		sortRanges(reqs)
		rq = rangesStr(reqs)
	}
	return "ok keys=" + keysStr(left) + " reqs=" + rq
}

type taskRec struct {
	r       kv.KeyRange
	regions int
}

func (e *env) opGC(mode string, sp uint64, limit, rpt, workers int) string {
	ctx := context.Background()
	var err error
	var tasks []taskRec
	probe := tikv.StoreProbe{KVStore: e.store}
	switch mode {
	case "pure":
		e.pure = true
		e.arm(false, false, false, false)
		e.mu.Lock()
		e.acked = map[uint64]bool{}
		e.mu.Unlock()
		err = probe.GCResolveLockPhase(ctx, sp, workers)
	case "phase":
		e.arm(false, true, true, false)
		err = probe.GCResolveLockPhase(ctx, sp, workers)
		tasks = []taskRec{{kv.KeyRange{StartKey: []byte{}, EndKey: []byte{}}, -1}}
	case "shim":
		var mu sync.Mutex
		resolver := tikv.NewRegionLockResolver("verif-c14", e.store)
		handler := func(ctx context.Context, r kv.KeyRange) (rangetask.TaskStat, error) {
			st, err := tikv.ResolveLocksForRange(ctx, resolver, sp, r.StartKey, r.EndKey, tikv.NewGcResolveLockMaxBackoffer, uint32(limit))
			mu.Lock()
			tasks = append(tasks, taskRec{kv.KeyRange{StartKey: append([]byte{}, r.StartKey...), EndKey: append([]byte{}, r.EndKey...)}, st.CompletedRegions})
			mu.Unlock()
			return st, err
		}
		runner := rangetask.NewRangeTaskRunner("verif-c14-gc", e.store, workers, handler)
		runner.SetRegionsPerTask(rpt)
		e.arm(false, true, true, false)
		err = runner.RunOnRange(ctx, []byte(""), []byte(""))
	default:
		return "bad-op"
	}
	e.mu.Lock()
	scans := append([]scanRec{}, e.scans...)
	e.mu.Unlock()
	e.arm(false, false, false, false)
	if err != nil {
		return "FAIL gc-error " + errClass(err)
	}
	if a := e.audit(sp); a != "" {
		return a
	}
	var left []string
	locks, _ := e.mvcc.ScanLock(nil, nil, math.MaxUint64)
	for _, l := range locks {
		left = append(left, vx.Hex(l.Key)+":"+strconv.FormatUint(l.LockVersion, 10))
	}
	if mode == "pure" {
		return "ok left=" + joinOr(",", left)
	}
	sort.SliceStable(tasks, func(i, j int) bool { return bytes.Compare(tasks[i].r.StartKey, tasks[j].r.StartKey) < 0 })
	for i, s := range scans {
		if mode == "shim" && s.n >= limit {
			count("gc:scan-hit-limit")
		}
		if i > 0 && bytes.Equal(scans[i-1].lo, s.lo) && len(tasks) == 1 {
			count("gc:rescan-from-same-key")
		}
	}
	if len(tasks) > 1 {
		count("gc:several-tasks")
	}
	var ts []string
	for _, t := range tasks {
		var ss []string
		for _, s := range scans {
			if inRange(s.lo, t.r.StartKey, t.r.EndKey) {
				ss = append(ss, vx.Hex(s.lo)+":"+vx.Hex(s.hi)+":"+strconv.Itoa(s.n))
			}
		}
		reg := "*"
		if t.regions >= 0 {
			reg = strconv.Itoa(t.regions)
		}
		ts = append(ts, rangeStr(t.r)+"["+strings.Join(ss, ";")+"]r"+reg)
	}
	shown := joinOr("|", ts)
	if workers != 1 && len(tasks) > 1 {
		shown = "*" // schedule dependent (see Driver/C14.lean)
	}
	return "ok tasks=" + shown + " left=" + joinOr(",", left)
}

func errClass(err error) string {
	s := err.Error()
	switch {
	case strings.Contains(s, "watchdog"):
		return "scan-loop-does-not-advance"
	case strings.Contains(s, "canceled"):
		return "canceled"
	}
	return "other"
}

type ver struct {
	cts uint64
	val []byte
}

// audit: store-level check of the property text after a successful lock-resolution phase to safe point sp.
func (e *env) audit(sp uint64) string {
	// 1. no lock with start ts <= sp remains anywhere
	locks, err := e.mvcc.ScanLock(nil, nil, sp)
	if err != nil {
		return "FAIL audit-scan-error"
	}
	if len(locks) > 0 {
		var ls []string
		ackedOnly := e.pure // the classification is about the unmodified mock only
		e.mu.Lock()
		for _, l := range locks {
			ls = append(ls, vx.Hex(l.Key)+":"+strconv.FormatUint(l.LockVersion, 10))
			// a non-primary lock whose transaction was named in a batched ResolveLock the store answered with success
			if bytes.Equal(l.Key, l.PrimaryLock) || !e.acked[l.LockVersion] {
				ackedOnly = false
			}
		}
		e.mu.Unlock()
		if ackedOnly {
			return "FAIL lock-remains-after-acked-batched-resolve " + strings.Join(ls, ",")
		}
		return "FAIL lock-remains " + strings.Join(ls, ",")
	}
	// 2. locks above the safe point are untouched
	want := map[string]uint64{}
	for _, t := range e.txns {
		if t.ts > sp {
			for _, k := range t.locked {
				want[string(k)] = t.ts
			}
		}
	}
	all, _ := e.mvcc.ScanLock(nil, nil, math.MaxUint64)
	if len(all) != len(want) {
		return "FAIL lock-above-safepoint-changed"
	}
	for _, l := range all {
		if want[string(l.Key)] != l.LockVersion {
			return "FAIL lock-above-safepoint-changed"
		}
	}
	// 3. every committed transaction fully committed at its commit ts, nothing else visible: reads at ts >= sp
	ref := map[string][]ver{}
	keys := map[string]bool{}
	probes := map[uint64]bool{sp: true, sp + 1: true, 1 << 61: true}
	addProbe := func(cts uint64) {
		if cts >= sp {
			probes[cts] = true
		}
		if cts > 0 && cts-1 >= sp {
			probes[cts-1] = true
		}
	}
	for _, p := range e.puts {
		ref[string(p.key)] = append(ref[string(p.key)], ver{p.cts, p.val})
		keys[string(p.key)] = true
		addProbe(p.cts)
	}
	for _, t := range e.txns {
		for _, k := range t.keys {
			keys[string(k)] = true
			// a committed transaction above the safe point keeps its leftover locks: those keys stay invisible
			if t.kind == "committed" && (t.ts <= sp || !contains(t.locked, k)) {
				ref[string(k)] = append(ref[string(k)], ver{t.cts, txnVal(t.ts)})
			}
		}
		for _, k := range t.locked {
			keys[string(k)] = true
		}
		if t.kind == "committed" {
			addProbe(t.cts)
		}
	}
	var ks []string
	for k := range keys {
		ks = append(ks, k)
	}
	sort.Strings(ks)
	var ps []uint64
	for p := range probes {
		ps = append(ps, p)
	}
	sort.Slice(ps, func(i, j int) bool { return ps[i] < ps[j] })
	for _, k := range ks {
		for _, ts := range ps {
			var wantV []byte
			var best uint64
			for _, v := range ref[k] {
				if v.cts <= ts && v.cts >= best {
					best, wantV = v.cts, v.val
				}
			}
			got, err := e.mvcc.Get([]byte(k), ts, kvrpcpb.IsolationLevel_RC, nil)
			if err != nil {
				return "FAIL outcome-read-error " + vx.Hex([]byte(k)) + "@" + strconv.FormatUint(ts, 10)
			}
			if !bytes.Equal(got, wantV) {
				return "FAIL outcome-changed " + vx.Hex([]byte(k)) + "@" + strconv.FormatUint(ts, 10) + " got=" + vx.Hex(got) + " want=" + vx.Hex(wantV)
			}
		}
	}
	// 4. every other transaction <= sp is rolled back on every key: a late commit must be refused
	for _, t := range e.txns {
		if t.kind == "committed" || t.ts > sp {
			continue
		}
		for _, k := range t.keys {
			if err := e.mvcc.Commit([][]byte{k}, t.ts, 1<<60); err == nil {
				return "FAIL not-rolled-back " + vx.Hex(k) + ":" + strconv.FormatUint(t.ts, 10)
			}
		}
	}
	return ""
}

const freshBelowSec = 60 // ages used by the generator are <= 60 (fresh) or >= 120 (stale); the bound itself is 90 s

func (e *env) opVis(method string, sp uint64, age int, ts uint64, key []byte) string {
	ctx := context.Background()
	e.store.UpdateTxnSafePointCache(sp, time.Now().Add(-time.Duration(age)*time.Second))
	snap := e.store.GetSnapshot(ts)
	var res string
	var err error
	switch method {
	case "get":
		var v kv.ValueEntry
		v, err = snap.Get(ctx, key)
		if err == nil {
			res = vx.Hex(v.Value)
		}
	case "bget":
		var m map[string]kv.ValueEntry
		m, err = snap.BatchGet(ctx, [][]byte{key})
		if err == nil {
			if v, ok := m[string(key)]; ok {
				res = vx.Hex(v.Value)
			} else {
				res = "none"
			}
		}
	case "iter":
		it, err1 := snap.Iter(key, nil)
		err = err1
		if err == nil {
			if it.Valid() {
				res = vx.Hex(it.Key()) + "=" + vx.Hex(it.Value())
			} else {
				res = "none"
			}
			it.Close()
		}
	default:
		return "bad-op"
	}
	var aborted *tikverr.ErrTxnAbortedByGC
	var stale *tikverr.ErrPDServerTimeout
	out := ""
	switch {
	case err == nil:
		out = "ok " + res
	case tikverr.IsErrNotFound(err):
		out = "ok none"
	case errors.As(err, &aborted):
		out = "aborted"
	case errors.As(err, &stale):
		out = "stale"
	default:
		return "FAIL read-error"
	}
	// property oracle on the implementation's own answer
	if ts < sp && strings.HasPrefix(out, "ok") {
		return "FAIL served-below-safepoint " + out
	}
	if ts >= sp && age <= freshBelowSec && !strings.HasPrefix(out, "ok") {
		return "FAIL refused-at-or-above-safepoint " + out
	}
	if ts < sp && age <= freshBelowSec && out != "aborted" {
		return "FAIL wrong-refusal " + out
	}
	return out
}

// ---------------------------------------------------------------- op execution

var cur *env

// count records a generator / coverage statistic (set in main)
var count = func(string) {}

func parseCsv(s string) ([][]byte, bool) {
	if s == "-" {
		return nil, true
	}
	var out [][]byte
	for _, p := range strings.Split(s, ",") {
		b, ok := vx.UnHex(p)
		if !ok {
			return nil, false
		}
		out = append(out, b)
	}
	return out, true
}

// guard is vx.Guard plus an optional stack trace (VERIF_DEBUG=1) for debugging the harness itself
func guard(f func() string) (out string) {
	defer func() {
		if e := recover(); e != nil {
			if os.Getenv("VERIF_DEBUG") != "" {
				fmt.Fprintf(os.Stderr, "panic: %v\n%s\n", e, debug.Stack())
			}
			out = "panic"
		}
	}()
	return f()
}

func exec(line string) string {
	return guard(func() string {
		w := strings.Fields(line)
		if len(w) == 0 {
			return "bad-op"
		}
		if w[0] == "reset" && len(w) == 1 {
			cur.close()
			cur = newEnv()
			return "ok"
		}
		if cur == nil {
			cur = newEnv()
		}
		e := cur
		u := func(s string) uint64 { v, _ := strconv.ParseUint(s, 10, 64); return v }
		n := func(s string) int { v, _ := strconv.Atoi(s); return v }
		switch {
		case w[0] == "layout" && len(w) == 2:
			ks, ok := parseCsv(w[1])
			if !ok {
				return "bad-op"
			}
			for _, k := range ks {
				e.doSplit(k)
			}
			return "ok"
		case w[0] == "split" && len(w) == 3:
			k, ok := vx.UnHex(w[2])
			if !ok {
				return "bad-op"
			}
			e.splits = append(e.splits, &splitSpec{idx: n(w[1]), key: k})
			return "ok"
		case w[0] == "put" && len(w) == 5:
			k, ok1 := vx.UnHex(w[1])
			v, ok2 := vx.UnHex(w[2])
			if !ok1 || !ok2 {
				return "bad-op"
			}
			e.put(putSpec{k, v, u(w[3]), u(w[4])})
			return "ok"
		case w[0] == "txn" && len(w) == 7:
			p, ok1 := vx.UnHex(w[4])
			ks, ok2 := parseCsv(w[5])
			ls, ok3 := parseCsv(w[6])
			if !ok1 || !ok2 || !ok3 {
				return "bad-op"
			}
			e.txn(txnSpec{ts: u(w[1]), kind: w[2], cts: u(w[3]), primary: p, keys: ks, locked: ls})
			return "ok"
		case w[0] == "run" && len(w) == 6:
			s, ok1 := vx.UnHex(w[1])
			en, ok2 := vx.UnHex(w[2])
			if !ok1 || !ok2 {
				return "bad-op"
			}
			fail := -1
			if w[5] != "-" {
				fail = n(w[5])
			}
			return e.opRun(s, en, n(w[3]), n(w[4]), fail)
		case w[0] == "runc" && len(w) == 7:
			s, ok1 := vx.UnHex(w[1])
			en, ok2 := vx.UnHex(w[2])
			if !ok1 || !ok2 {
				return "bad-op"
			}
			return e.opRunC(s, en, n(w[3]), n(w[4]), w[5], n(w[6]))
		case w[0] == "gcc" && len(w) == 3:
			return e.opGCC(u(w[1]), n(w[2]))
		case w[0] == "del" && len(w) == 4:
			s, ok1 := vx.UnHex(w[1])
			en, ok2 := vx.UnHex(w[2])
			if !ok1 || !ok2 {
				return "bad-op"
			}
			return e.opDel(s, en, n(w[3]))
		case w[0] == "gc" && len(w) == 6:
			return e.opGC(w[1], u(w[2]), n(w[3]), n(w[4]), n(w[5]))
		case w[0] == "vis" && len(w) == 6:
			k, ok := vx.UnHex(w[5])
			if !ok {
				return "bad-op"
			}
			return e.opVis(w[1], u(w[2]), n(w[3]), u(w[4]), k)
		}
		return "bad-op"
	})
}

// ---------------------------------------------------------------- generation

type gen struct {
	r   *vx.Rand
	run *vx.Run
	n   int
}

func (g *gen) do(op string) {
	g.run.Count(strings.Fields(op)[0])
	g.run.Emit(op, exec(op))
}
func (g *gen) begin(kind string) {
	g.n++
	g.run.Comment(fmt.Sprintf("case %d %s", g.n, kind))
	g.run.Count("case:" + kind)
	g.do("reset")
}

var alpha = []byte{0x00, 0x01, 0x61, 0x62, 0x6d, 0x7a, 0xfe, 0xff}

// key: short keys over a small alphabet so that prefixes, neighbours and boundary hits are frequent
func (g *gen) key() []byte {
	n := 1 + g.r.Intn(3)
	b := make([]byte, n)
	for i := range b {
		b[i] = alpha[g.r.Intn(len(alpha))]
	}
	return b
}
func (g *gen) distinctKeys(n int) [][]byte {
	seen := map[string]bool{}
	var out [][]byte
	for tries := 0; len(out) < n && tries < 20*n+20; tries++ {
		k := g.key()
		if !seen[string(k)] {
			seen[string(k)] = true
			out = append(out, k)
		}
	}
	sort.Slice(out, func(i, j int) bool { return bytes.Compare(out[i], out[j]) < 0 })
	return out
}

// bound: a range bound: empty, an existing key, a neighbour of one, or a fresh key
func (g *gen) bound(pool [][]byte, emptyPct int) []byte {
	if g.r.Chance(emptyPct) {
		return nil
	}
	if len(pool) > 0 && g.r.Chance(60) {
		k := append([]byte{}, pool[g.r.Intn(len(pool))]...)
		switch g.r.Intn(4) {
		case 0:
			k = append(k, 0)
		case 1:
			if len(k) > 1 {
				k = k[:len(k)-1]
			}
		}
		return k
	}
	return g.key()
}

func (g *gen) layout(maxRegions int) [][]byte {
	ks := g.distinctKeys(g.r.Intn(maxRegions))
	g.do("layout " + keysStr(ks))
	return ks
}

func (g *gen) caseRun() {
	g.begin("run")
	lay := g.layout(12)
	nsplit := 0
	if g.r.Chance(50) {
		nsplit = 1 + g.r.Intn(3)
	}
	for i := 0; i < nsplit; i++ {
		g.do(fmt.Sprintf("split %d %s", g.r.Intn(5), vx.Hex(g.key())))
	}
	for i := 0; i < 1+g.r.Intn(3); i++ {
		s, e := g.bound(lay, 25), g.bound(lay, 35)
		if g.r.Chance(80) && len(e) != 0 && bytes.Compare(s, e) > 0 {
			s, e = e, s
		}
		rpt := 1 + g.r.Intn(4)
		if g.r.Chance(10) {
			rpt = 128
		}
		workers := 1 + g.r.Intn(8)
		fail := "-"
		if g.r.Chance(30) {
			fail = strconv.Itoa(g.r.Intn(6))
			if g.r.Chance(50) {
				workers = 1
			}
		}
		g.do(fmt.Sprintf("run %s %s %d %d %s", vx.Hex(s), vx.Hex(e), rpt, workers, fail))
		if nsplit > 0 {
			break // scheduled splits are consumed by the first run
		}
	}
}

// caseCancel: the caller's context is cancelled inside the i-th handler call (unnoticed by the handler) — for every i
// of a run with several sub-ranges. On its own cases `racy`: before the run / between two pulls; there the outcome
// depends on the producer's select (known finding), so they are kept apart from the strict ops.
func (g *gen) caseCancel(racy bool) {
	if racy {
		g.begin("runc-racy")
	} else {
		g.begin("runc")
	}
	lay := g.layout(14)
	s, e := g.bound(lay, 50), g.bound(lay, 50)
	if len(e) != 0 && bytes.Compare(s, e) > 0 {
		s, e = e, s
	}
	rpt := 1 + g.r.Intn(2)
	workers := 1 + g.r.Intn(4)
	n := len(lay)/rpt + 2
	if racy {
		g.do(fmt.Sprintf("runc %s %s %d %d before 0", vx.Hex(s), vx.Hex(e), rpt, workers))
		g.do(fmt.Sprintf("runc %s %s %d %d between %d", vx.Hex(s), vx.Hex(e), rpt, workers, g.r.Intn(n)))
		return
	}
	for i := 0; i < n; i++ {
		g.do(fmt.Sprintf("runc %s %s %d %d inh %d", vx.Hex(s), vx.Hex(e), rpt, workers, i))
	}
}

// caseGCCancel: GC's resolve-locks phase over more than 2*128 regions, context cancelled after a chosen ScanLock
func (g *gen) caseGCCancel() {
	g.begin("gcc")
	nreg := 260 + g.r.Intn(150)
	var ks [][]byte
	for i := 0; i < nreg; i++ {
		ks = append(ks, []byte(fmt.Sprintf("k%03d", i)))
	}
	g.do("layout " + keysStr(ks))
	sp := uint64(20 + g.r.Intn(20))
	ts := uint64(5)
	for t := 0; t < 2+g.r.Intn(3); t++ {
		var keys [][]byte
		seen := map[int]bool{}
		for len(keys) < 2+g.r.Intn(3) {
			r := g.r.Intn(nreg)
			if !seen[r] {
				seen[r] = true
				keys = append(keys, []byte(fmt.Sprintf("k%03dx%d", r, t)))
			}
		}
		sort.Slice(keys, func(a, b int) bool { return bytes.Compare(keys[a], keys[b]) < 0 })
		ts += uint64(1 + g.r.Intn(3))
		g.do(fmt.Sprintf("txn %d pending 0 %s %s %s", ts, vx.Hex(keys[g.r.Intn(len(keys))]), keysStr(keys), keysStr(keys)))
	}
	j := 127 // the last region of the first sub-range: the handler returns without looking at the context again
	if g.r.Chance(35) {
		j = g.r.Intn(128)
	}
	g.do(fmt.Sprintf("gcc %d %d", sp, j))
}

func (g *gen) caseDel() {
	g.begin("del")
	lay := g.layout(10)
	keys := g.distinctKeys(3 + g.r.Intn(14))
	for i, k := range keys {
		g.do(fmt.Sprintf("put %s %s %d %d", vx.Hex(k), vx.Hex([]byte{byte(i + 1)}), 1, 2))
		if g.r.Chance(20) { // a second version
			g.do(fmt.Sprintf("put %s %s %d %d", vx.Hex(k), vx.Hex([]byte{0xee, byte(i)}), 3, 4))
		}
	}
	if g.r.Chance(40) {
		for i := 0; i < 1+g.r.Intn(2); i++ {
			g.do(fmt.Sprintf("split %d %s", g.r.Intn(3), vx.Hex(g.key())))
		}
	}
	pool := append(append([][]byte{}, lay...), keys...)
	s, e := g.bound(pool, 20), g.bound(pool, 30)
	if g.r.Chance(85) && len(e) != 0 && bytes.Compare(s, e) > 0 {
		s, e = e, s
	}
	g.do(fmt.Sprintf("del %s %s %d", vx.Hex(s), vx.Hex(e), 1+g.r.Intn(8)))
}

// population: transactions over distinct keys; returns the number of leftover locks
func (g *gen) population(keys [][]byte, sp uint64, pureFriendly bool) {
	kinds := []string{"committed", "rolledback", "pending", "pess", "pending", "committed"}
	i := 0
	ts := uint64(5)
	for i < len(keys) {
		n := 1 + g.r.Intn(4)
		if i+n > len(keys) {
			n = len(keys) - i
		}
		ks := append([][]byte{}, keys[i:i+n]...)
		i += n
		g.r.Intn(2)
		// shuffle so that the primary is not always the smallest key
		for a := len(ks) - 1; a > 0; a-- {
			b := g.r.Intn(a + 1)
			ks[a], ks[b] = ks[b], ks[a]
		}
		kind := kinds[g.r.Intn(len(kinds))]
		ts += uint64(1 + g.r.Intn(3))
		if g.r.Chance(15) {
			ts = sp + 1 + uint64(g.r.Intn(5)) // a transaction above the safe point: must stay untouched
			if kind == "committed" || kind == "rolledback" {
				kind = "pending"
			}
		}
		primary := ks[0]
		var locked [][]byte
		cts := uint64(0)
		switch kind {
		case "committed":
			cts = ts + 1 + uint64(g.r.Intn(int(sp)+4))
			for _, k := range ks[1:] {
				if g.r.Chance(70) {
					locked = append(locked, k)
				}
			}
		case "rolledback":
			for _, k := range ks[1:] {
				if g.r.Chance(70) {
					locked = append(locked, k)
				}
			}
		case "pending":
			for j, k := range ks {
				if j > 0 || g.r.Chance(80) { // sometimes the primary itself was never prewritten
					locked = append(locked, k)
				}
			}
		case "pess":
			locked = ks
		}
		if len(locked) == 0 && kind != "committed" && kind != "rolledback" {
			locked = ks
		}
		sorted := func(x [][]byte) [][]byte {
			y := append([][]byte{}, x...)
			sort.Slice(y, func(a, b int) bool { return bytes.Compare(y[a], y[b]) < 0 })
			return y
		}
		g.do(fmt.Sprintf("txn %d %s %d %s %s %s", ts, kind, cts, vx.Hex(primary), keysStr(sorted(ks)), keysStr(sorted(locked))))
	}
}

func (g *gen) caseGC(mode string) {
	g.begin("gc-" + mode)
	lay := g.layout(7)
	sp := uint64(20 + g.r.Intn(30))
	nkeys := 4 + g.r.Intn(20)
	keys := g.distinctKeys(nkeys)
	// some old committed data under the transactions' keys
	for i, k := range keys {
		if g.r.Chance(30) {
			g.do(fmt.Sprintf("put %s %s %d %d", vx.Hex(k), vx.Hex([]byte{0xd0, byte(i)}), 1, 2))
		}
	}
	g.population(keys, sp, mode == "pure")
	limit := 1 + g.r.Intn(5)
	rpt := 1 + g.r.Intn(3)
	workers := 1 + g.r.Intn(8)
	if mode == "shim" && g.r.Chance(50) {
		// splits during the scan: one task (so that scan indices are determined), any worker count
		rpt = 128
		pool := append(append([][]byte{}, lay...), keys...)
		for i := 0; i < 1+g.r.Intn(3); i++ {
			k := g.bound(pool, 0)
			if len(k) == 0 {
				continue
			}
			g.do(fmt.Sprintf("split %d %s", g.r.Intn(6), vx.Hex(k)))
		}
	}
	if mode != "shim" {
		limit, rpt = 1024, 128
	}
	g.do(fmt.Sprintf("gc %s %d %d %d %d", mode, sp, limit, rpt, workers))
}

func (g *gen) caseVis() {
	g.begin("vis")
	g.layout(4)
	keys := g.distinctKeys(2 + g.r.Intn(4))
	for i, k := range keys {
		g.do(fmt.Sprintf("put %s %s %d %d", vx.Hex(k), vx.Hex([]byte{0xa0, byte(i)}), 1, 2+uint64(g.r.Intn(4))))
	}
	methods := []string{"get", "bget", "iter"}
	ages := []int{0, 1, 30, 60, 120, 500}
	for i := 0; i < 6; i++ {
		sp := uint64(10 + g.r.Intn(40))
		var ts uint64
		switch g.r.Intn(4) {
		case 0:
			ts = sp - 1
		case 1:
			ts = sp
		case 2:
			ts = sp + 1
		default:
			ts = uint64(3 + g.r.Intn(70))
		}
		k := keys[g.r.Intn(len(keys))]
		if g.r.Chance(20) {
			k = g.key()
		}
		g.do(fmt.Sprintf("vis %s %d %d %d %s", methods[g.r.Intn(3)], sp, ages[g.r.Intn(len(ages))], ts, vx.Hex(k)))
	}
}

func main() {
	run := vx.Start()
	defer run.Finish()
	util.EnableFailpoints()
	failpoint.Enable("tikvclient/fastBackoffBySkipSleep", "return(true)")
	failpoint.Enable("tikvclient/noBuiltInTxnSafePointUpdater", "return(true)")
	defer cur.close()
	if run.Replay != "" {
		for _, l := range run.ReplayLines() {
			if strings.HasPrefix(l, "#") {
				run.Comment(strings.TrimSpace(l[1:]))
				continue
			}
			run.Emit(l, exec(l))
		}
		return
	}
	count = run.Count
	g := &gen{r: vx.NewRand(run.Seed), run: run}
	nRun, nDel, nGC, nVis, nPhase := 300, 120, 250, 40, 20
	nCancel, nRacy, nGCC := 40, 3, 6
	if run.Thorough() {
		nRun, nDel, nGC, nVis, nPhase = 9000, 3000, 8000, 600, 300
		nCancel, nRacy, nGCC = 600, 12, 60
	}
	for i := 0; i < nRun; i++ {
		g.caseRun()
	}
	for i := 0; i < nCancel; i++ {
		g.caseCancel(false)
	}
	for i := 0; i < nRacy; i++ {
		g.caseCancel(true)
	}
	for i := 0; i < nGCC; i++ {
		g.caseGCCancel()
	}
	for i := 0; i < nDel; i++ {
		g.caseDel()
	}
	for i := 0; i < nGC; i++ {
		g.caseGC("shim")
	}
	for i := 0; i < nPhase; i++ {
		g.caseGC("phase")
	}
	for i := 0; i < nVis; i++ {
		g.caseVis()
	}
	// the unmodified mock last (S6, fixed in /repo a713e36: its ResolveLock handler ignored the batched TxnInfos)
	g.begin("gc-pure-minimal")
	g.do("txn 10 pending 0 61 61,62 61,62")
	g.do("gc pure 20 1024 128 1")
	g.caseGC("pure")
}
