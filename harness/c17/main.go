//go:build verif

// C17 harness: runs /repo/internal/latch on op lines shared with the Lean model driver (cgv-c17).
//
// Every op line is executed on the real Latches through the export accessors; the result line is the raw
// result plus a canonical dump of all locks and slot queues (correspondence).  Independently the harness keeps
// the specification of the property text (`spec`: per key one holder, the greatest published commit ts and a
// FIFO of requesters) and a holder table built from what the implementation *returned*; `chk` prints the
// verdict of those oracles for the ops executed since the previous `chk` (property op).
package main

import (
	"bytes"
	"fmt"
	"math/bits"
	"os"
	osexec "os/exec"
	"runtime"
	"sort"
	"strconv"
	"strings"
	"sync"
	"sync/atomic"
	"time"

	"github.com/tikv/client-go/v2/internal/latch"
	"github.com/tikv/client-go/v2/oracle"
	"github.com/tikv/client-go/v2/verifx/vx"
)

const (
	phAcquiring = iota
	phWaiting
	phWoken
	phAcquired
	phReleasing
	phDone
)

// ---------------------------------------------------------------- the specification (property text)

type spec struct {
	keys   [][]string // hex, sorted
	start  []uint64
	commit []uint64
	phase  []int
	acq    []int
	stale  []bool
	holder map[string]int
	pub    map[string]uint64
	waitq  map[string][]int
}

func newSpec() *spec {
	return &spec{holder: map[string]int{}, pub: map[string]uint64{}, waitq: map[string][]int{}}
}

func (sp *spec) clone() *spec {
	c := &spec{keys: sp.keys, start: sp.start,
		commit: append([]uint64{}, sp.commit...), phase: append([]int{}, sp.phase...),
		acq: append([]int{}, sp.acq...), stale: append([]bool{}, sp.stale...),
		holder: map[string]int{}, pub: map[string]uint64{}, waitq: map[string][]int{}}
	for k, v := range sp.holder {
		c.holder[k] = v
	}
	for k, v := range sp.pub {
		c.pub[k] = v
	}
	for k, v := range sp.waitq {
		c.waitq[k] = append([]int{}, v...)
	}
	return c
}

func (sp *spec) add(start uint64, keys []string) int {
	ks := append([]string{}, keys...)
	sort.Strings(ks) // lower-case hex of whole bytes: string order = bytes.Compare order
	sp.keys = append(sp.keys, ks)
	sp.start = append(sp.start, start)
	sp.commit = append(sp.commit, 0)
	ph := phAcquiring
	if len(ks) == 0 {
		ph = phAcquired
	}
	sp.phase = append(sp.phase, ph)
	sp.acq = append(sp.acq, 0)
	sp.stale = append(sp.stale, false)
	return len(sp.keys) - 1
}

func (sp *spec) canAcquire(l int) bool {
	return l >= 0 && l < len(sp.phase) && (sp.phase[l] == phAcquiring || sp.phase[l] == phWoken)
}

// expectA: the result the property text demands for the next acquire step of l.
// forgot: the only reason for "stale" is a publication that a recycle may have forgotten; alt is the answer then.
func (sp *spec) expectA(l int) (want string, forgot bool, alt string) {
	if sp.stale[l] {
		return "stale", false, ""
	}
	if sp.acq[l] >= len(sp.keys[l]) {
		return "success", false, ""
	}
	k := sp.keys[l][sp.acq[l]]
	alt = "locked"
	if _, held := sp.holder[k]; !held {
		alt = "success"
	}
	if p, ok := sp.pub[k]; ok && p > sp.start[l] {
		return "stale", true, alt
	}
	return alt, false, ""
}

func (sp *spec) applyA(l int, res string) {
	if sp.stale[l] {
		sp.phase[l] = phAcquired
		return
	}
	if sp.acq[l] >= len(sp.keys[l]) {
		sp.phase[l] = phAcquired
		return
	}
	k := sp.keys[l][sp.acq[l]]
	switch res {
	case "success":
		sp.holder[k] = l
		sp.acq[l]++
		if sp.acq[l] == len(sp.keys[l]) {
			sp.phase[l] = phAcquired
		} else {
			sp.phase[l] = phAcquiring
		}
	case "locked":
		sp.waitq[k] = append(sp.waitq[k], l)
		sp.phase[l] = phWaiting
	default:
		sp.stale[l] = true
		sp.phase[l] = phAcquired
	}
}

// acquire at method granularity on the specification alone (used to enumerate schedules)
func (sp *spec) acquireAll(l int) string {
	for {
		want, _, _ := sp.expectA(l)
		sp.applyA(l, want)
		if want != "success" || sp.phase[l] != phAcquiring {
			return want
		}
	}
}

func (sp *spec) unlock(l int, commit uint64) {
	sp.commit[l] = commit
	if sp.acq[l] == 0 {
		sp.phase[l] = phDone
	} else {
		sp.phase[l] = phReleasing
	}
}

// expectR: who must be woken by the next releaseSlot of l, and whether flagged stale.
// lenient: stale only because of an older publication (could have been forgotten by recycle).
func (sp *spec) expectR(l int) (wake int, wstale bool, lenient bool) {
	k := sp.keys[l][sp.acq[l]-1]
	m := sp.commit[l]
	if p, ok := sp.pub[k]; ok && p > m {
		m = p
	}
	q := sp.waitq[k]
	if len(q) == 0 {
		return -1, false, false
	}
	w := q[0]
	if m > sp.start[w] {
		return w, true, !(sp.commit[l] > sp.start[w])
	}
	return w, false, false
}

func (sp *spec) applyR(l int, wake int, wstale bool) {
	k := sp.keys[l][sp.acq[l]-1]
	sp.acq[l]--
	if p, ok := sp.pub[k]; !ok || sp.commit[l] > p {
		sp.pub[k] = sp.commit[l]
	}
	delete(sp.holder, k)
	if wake >= 0 && wake < len(sp.phase) {
		for key, q := range sp.waitq {
			for i, x := range q {
				if x == wake {
					sp.waitq[key] = append(append([]int{}, q[:i]...), q[i+1:]...)
					break
				}
			}
		}
		sp.phase[wake] = phWoken
		if wstale {
			sp.stale[wake] = true
			sp.holder[k] = wake
			sp.acq[wake]++
		}
	}
	if sp.acq[l] == 0 {
		sp.phase[l] = phDone
	} else {
		sp.phase[l] = phReleasing
	}
}

func (sp *spec) releaseAll(l int, commit uint64) {
	sp.unlock(l, commit)
	for sp.phase[l] == phReleasing {
		w, st, _ := sp.expectR(l)
		sp.applyR(l, w, st)
	}
}

// ---------------------------------------------------------------- the implementation under the op lines

type H struct {
	lat      *latch.Latches
	nslots   int
	expireMs uint64
	shift    uint
	locks    []*latch.Lock
	ids      map[*latch.Lock]int
	sp       *spec
	obs      map[string]int // key -> lock that the implementation reported as successful holder
	pubs     map[string][]*pubRec
	maxTS    uint64
	verdict  []string
}

func tsShift() uint { return uint(bits.TrailingZeros64(oracle.ComposeTS(1, 0))) }

func (h *H) name(l *latch.Lock) string {
	if id, ok := h.ids[l]; ok {
		return strconv.Itoa(id)
	}
	return "?"
}

func (h *H) dump() string {
	var ls []string
	for i, l := range h.locks {
		_, _, acq, stale := latch.VerifLockState(l)
		s := 0
		if stale {
			s = 1
		}
		ls = append(ls, fmt.Sprintf("L%d:%d:%d", i, acq, s))
	}
	var ss []string
	for i := 0; i < h.nslots; i++ {
		ss = append(ss, latch.VerifDumpSlot(h.lat, i, h.name))
	}
	return strings.Join(ls, ",") + " | " + strings.Join(ss, " | ")
}

func (h *H) fail(f string, a ...any) { h.verdict = append(h.verdict, fmt.Sprintf(f, a...)) }

func (h *H) seeTS(ts uint64) {
	if ts > h.maxTS {
		h.maxTS = ts
	}
}

// Every (key, commitTS) the harness released, and whether a recycle could legitimately have dropped the node that
// remembers it: a node is dropped only by a recycle whose timestamp T satisfies physical(T) >= physical(maxCommitTS)
// + expireDuration, and maxCommitTS >= commitTS; the recycle timestamps are the start ts of the lock in every
// acquireSlot and the argument of every recycle op, all of which pass through recycleTS after the publication.
type pubRec struct {
	c           uint64
	forgettable bool
}

func (h *H) recordPub(k string, c uint64) {
	if c > 0 {
		h.pubs[k] = append(h.pubs[k], &pubRec{c: c})
	}
}

func (h *H) recycleTS(t uint64) {
	h.seeTS(t)
	for _, l := range h.pubs {
		for _, p := range l {
			if t>>h.shift >= p.c>>h.shift+h.expireMs {
				p.forgettable = true
			}
		}
	}
}

// mustStale: a commit ts above `start` was published on k and no recycle since could have expired it
// ("published within expireDuration"): the property text demands stale.
func (h *H) mustStale(k string, start uint64) (uint64, bool) {
	for _, p := range h.pubs[k] {
		if p.c > start && !p.forgettable {
			return p.c, true
		}
	}
	return 0, false
}

func (h *H) anyForgettable() bool {
	for _, l := range h.pubs {
		for _, p := range l {
			if p.forgettable {
				return true
			}
		}
	}
	return false
}

func (h *H) implState(l int) (acq int, n int, stale bool) {
	keys, _, a, st := latch.VerifLockState(h.locks[l])
	return a, len(keys), st
}

// observed holder table: what the implementation told its callers
func (h *H) observeReturn(l int) {
	acq, n, stale := h.implState(l)
	if stale || acq != n {
		return
	}
	for _, k := range h.sp.keys[l] {
		if o, ok := h.obs[k]; ok && o != l {
			h.fail("excl key=%s held by L%d and L%d", k, o, l)
		}
		h.obs[k] = l
	}
}
func (h *H) observeUnlock(l int) {
	for k, o := range h.obs {
		if o == l {
			delete(h.obs, k)
		}
	}
}

// one step of acquire on the implementation + comparison with the specification
func (h *H) astep(l int) string {
	lock := h.locks[l]
	h.recycleTS(h.sp.start[l]) // acquireSlot may recycle with the lock's start ts
	want, forgot, alt := h.sp.expectA(l)
	var res string
	if lock.IsStale() {
		res = "stale"
	} else {
		res = latch.VerifAcquireSlot(h.lat, lock)
	}
	if res != want {
		c, must := uint64(0), false
		if forgot {
			c, must = h.mustStale(h.sp.keys[l][h.sp.acq[l]], h.sp.start[l])
		}
		if must {
			h.fail("stale-missed L%d key=%s got=%s although commit ts %d > start ts %d was published on this key within expireDuration",
				l, h.sp.keys[l][h.sp.acq[l]], res, c, h.sp.start[l])
		} else if !(forgot && res == alt) {
			h.fail("acquire L%d want=%s got=%s", l, want, res)
		}
	}
	if res == "stale" && !h.sp.stale[l] && !forgot {
		h.fail("stale-unsound L%d", l)
	}
	h.sp.applyA(l, res)
	if _, _, st := h.implState(l); st != h.sp.stale[l] {
		h.fail("isStale L%d want=%v got=%v", l, h.sp.stale[l], st)
	}
	return res
}

func (h *H) rstep(l int) int {
	wake, wstale, len2 := h.sp.expectR(l)
	relKey := h.sp.keys[l][h.sp.acq[l]-1]
	h.recordPub(relKey, h.sp.commit[l])
	nl := latch.VerifReleaseSlot(h.lat, h.locks[l])
	got := -1
	gstale := false
	if nl != nil {
		if id, ok := h.ids[nl]; ok {
			got = id
			gstale = nl.IsStale()
		} else {
			got = -2
		}
	}
	if got != wake {
		h.fail("release L%d wake want=%d got=%d", l, wake, got)
	} else if wake >= 0 && gstale != wstale {
		if c, must := h.mustStale(relKey, h.sp.start[wake]); must && !gstale {
			h.fail("stale-missed L%d key=%s woken unflagged although commit ts %d > start ts %d was published on this key within expireDuration",
				wake, relKey, c, h.sp.start[wake])
		} else if !(len2 && !gstale) {
			h.fail("release L%d wakes L%d stale want=%v got=%v", l, wake, wstale, gstale)
		}
	}
	h.sp.applyR(l, got, gstale)
	return got
}

func atoi(s string) (int, bool) {
	v, err := strconv.Atoi(s)
	return v, err == nil && v >= 0
}
func atou(s string) (uint64, bool) {
	v, err := strconv.ParseUint(s, 10, 64)
	return v, err == nil
}

func (h *H) lockOK(w []string) (int, bool) {
	if len(w) < 2 {
		return 0, false
	}
	l, ok := atoi(w[1])
	return l, ok
}

var cur *H

var lastOp atomic.Value
var progress atomic.Uint64

// exec runs one op line. When the specification oracle or the holder table objects to what the implementation
// just did, the objection is put in front of the raw result ("FAIL ... ; <raw>"): the line is then a concrete
// failing input by itself (the following `chk` would report the same, but a case is cut at its first bad line).
func exec(line string) string {
	lastOp.Store(line)
	defer progress.Add(1)
	if f := strings.Fields(line); len(f) > 0 && isClientOp(f[0]) {
		res := vx.Guard(func() string { _, r := cexec(line); return r })
		if ccur != nil && len(ccur.verdict) > 0 && !strings.HasPrefix(line, "chk") && res != "panic" {
			res = "FAIL " + strings.Join(ccur.verdict, " / ") + " ; " + res
			ccur.verdict = nil
		}
		return res
	}
	out := exec1(line)
	if cur != nil && len(cur.verdict) > 0 && !strings.HasPrefix(line, "chk") && !strings.HasPrefix(out, "panic") {
		out = "FAIL " + strings.Join(cur.verdict, " / ") + " ; " + out
		cur.verdict = nil
	}
	return out
}

func exec1(line string) string {
	return vx.Guard(func() string {
		w := strings.Fields(line)
		if len(w) == 0 {
			return "bad-op"
		}
		if w[0] == "stress" {
			return stress(w)
		}
		if w[0] == "reset" {
			if len(w) < 5 {
				return "bad-op"
			}
			n, ok := atoi(w[1])
			if !ok || n == 0 {
				return "bad-op"
			}
			h := &H{lat: latch.NewLatches(uint(n)), ids: map[*latch.Lock]int{}, sp: newSpec(), obs: map[string]int{}, pubs: map[string][]*pubRec{}}
			h.nslots = latch.VerifNumSlots(h.lat)
			h.expireMs = uint64(latch.VerifExpireMillis())
			h.shift = tsShift()
			// the line must describe the real code: slot count, constants, slot of every key
			if h.nslots != n || w[2] != strconv.Itoa(latch.VerifListCount()) || w[3] != strconv.FormatUint(h.expireMs, 10) || w[4] != strconv.Itoa(int(h.shift)) {
				return "reset-mismatch"
			}
			for _, t := range w[5:] {
				p := strings.Split(t, ":")
				if len(p) != 2 {
					return "bad-op"
				}
				k, ok := vx.UnHex(p[0])
				if !ok || strconv.Itoa(latch.VerifSlotID(h.lat, k)) != p[1] {
					return "reset-mismatch"
				}
			}
			cur = h
			return "ok"
		}
		h := cur
		if h == nil {
			return "no-reset"
		}
		switch w[0] {
		case "lock":
			if len(w) < 3 {
				return "bad-op"
			}
			id, ok1 := atoi(w[1])
			ts, ok2 := atou(w[2])
			if !ok1 || !ok2 {
				return "bad-op"
			}
			if id != len(h.locks) {
				return "illegal"
			}
			var keys [][]byte
			var hk []string
			for _, t := range w[3:] {
				k, ok := vx.UnHex(t)
				if !ok {
					return "bad-op"
				}
				keys = append(keys, k)
				hk = append(hk, vx.Hex(k))
			}
			h.seeTS(ts)
			lk := latch.VerifGenLock(h.lat, ts, keys)
			h.locks = append(h.locks, lk)
			h.ids[lk] = id
			h.sp.add(ts, hk)
			ks, slots, _, _ := latch.VerifLockState(lk)
			var a, b []string
			for i := range ks {
				a = append(a, vx.Hex(ks[i]))
				b = append(b, strconv.Itoa(slots[i]))
			}
			if strings.Join(a, ",") != strings.Join(h.sp.keys[id], ",") {
				h.fail("genLock L%d keys not sorted", id)
			}
			return "ok " + strings.Join(a, ",") + " " + strings.Join(b, ",")
		case "astep", "acquire":
			l, ok := h.lockOK(w)
			if !ok || len(w) != 2 {
				return "bad-op"
			}
			if !h.sp.canAcquire(l) {
				return "illegal"
			}
			var res string
			if w[0] == "astep" {
				res = h.astep(l)
			} else {
				// the loop of Latches.acquire, compared step by step with the specification through the
				// implementation's own loop: predict with a copy of the specification, then run the real method
				h.recycleTS(h.sp.start[l])
				pre := h.sp.clone()
				want := pre.acquireAll(l)
				res = latch.VerifAcquire(h.lat, h.locks[l])
				if res != want && !h.anyForgettable() {
					h.fail("acquire L%d want=%s got=%s", l, want, res)
				}
				if res == want {
					h.sp = pre
				} else {
					h.resync(l, res)
				}
				if _, _, st := h.implState(l); st != h.sp.stale[l] {
					h.fail("isStale L%d want=%v got=%v", l, h.sp.stale[l], st)
				}
				if res == "stale" && !h.stalePossible(l) {
					h.fail("stale-unsound L%d", l)
				}
			}
			if res == "success" || res == "stale" {
				h.observeReturn(l)
			}
			return res + " ; " + h.dump()
		case "unlock":
			l, ok := h.lockOK(w)
			if !ok || len(w) != 3 {
				return "bad-op"
			}
			c, ok := atou(w[2])
			if !ok {
				return "bad-op"
			}
			if l >= len(h.locks) || h.sp.phase[l] != phAcquired {
				return "illegal"
			}
			h.seeTS(c)
			h.observeUnlock(l)
			h.locks[l].SetCommitTS(c)
			h.sp.unlock(l, c)
			return "ok ; " + h.dump()
		case "rstep":
			l, ok := h.lockOK(w)
			if !ok || len(w) != 2 {
				return "bad-op"
			}
			if l >= len(h.locks) || h.sp.phase[l] != phReleasing {
				return "illegal"
			}
			got := h.rstep(l)
			s := "-"
			if got >= 0 {
				s = strconv.Itoa(got)
			} else if got == -2 {
				s = "?"
			}
			return "wake=" + s + " ; " + h.dump()
		case "release":
			l, ok := h.lockOK(w)
			if !ok || len(w) != 3 {
				return "bad-op"
			}
			c, ok := atou(w[2])
			if !ok {
				return "bad-op"
			}
			if l >= len(h.locks) || h.sp.phase[l] != phAcquired {
				return "illegal"
			}
			h.seeTS(c)
			h.observeUnlock(l)
			h.locks[l].SetCommitTS(c)
			for _, k := range h.sp.keys[l][:h.sp.acq[l]] {
				h.recordPub(k, c)
			}
			// predicted wake-up list
			pre := h.sp.clone()
			pre.unlock(l, c)
			var wantWake []string
			lenientUsed := false
			for pre.phase[l] == phReleasing {
				wk, st, len2 := pre.expectR(l)
				lenientUsed = lenientUsed || len2
				pre.applyR(l, wk, st)
				if wk >= 0 {
					wantWake = append(wantWake, fmt.Sprintf("%d:%v", wk, st))
				}
			}
			wl := latch.VerifRelease(h.lat, h.locks[l])
			var gotWake, ids []string
			for _, x := range wl {
				gotWake = append(gotWake, fmt.Sprintf("%s:%v", h.name(x), x.IsStale()))
				ids = append(ids, h.name(x))
			}
			if strings.Join(gotWake, ",") != strings.Join(wantWake, ",") {
				if !(lenientUsed && h.anyForgettable()) {
					h.fail("release L%d wake want=[%s] got=[%s]", l, strings.Join(wantWake, ","), strings.Join(gotWake, ","))
				}
				h.resyncRelease(l, c, wl)
			} else {
				h.sp = pre
			}
			return "wake=[" + strings.Join(ids, ",") + "] ; " + h.dump()
		case "recycle":
			if len(w) != 2 {
				return "bad-op"
			}
			ts, ok := atou(w[1])
			if !ok {
				return "bad-op"
			}
			h.recycleTS(ts)
			latch.VerifRecycle(h.lat, ts)
			return "ok ; " + h.dump()
		case "recycleslot":
			if len(w) != 3 {
				return "bad-op"
			}
			i, ok1 := atoi(w[1])
			ts, ok2 := atou(w[2])
			if !ok1 || !ok2 {
				return "bad-op"
			}
			h.recycleTS(ts)
			if i < h.nslots { // the model's slot map is total; the array is not
				latch.VerifRecycleSlot(h.lat, i, ts)
			}
			return "ok ; " + h.dump()
		case "chk":
			if len(h.verdict) == 0 {
				return "ok"
			}
			v := "FAIL " + strings.Join(h.verdict, " / ")
			h.verdict = nil
			return v
		}
		return "bad-op"
	})
}

// stalePossible: some key of l up to the one it is trying has a publication above its start ts (soundness)
func (h *H) stalePossible(l int) bool {
	for _, k := range h.sp.keys[l] {
		if p, ok := h.sp.pub[k]; ok && p > h.sp.start[l] {
			return true
		}
	}
	return false
}

// resync (lenient cases only matter): bring the specification's bookkeeping in line with what the
// implementation's acquire loop did, reading the lock's progress.
func (h *H) resync(l int, res string) {
	acq, _, _ := h.implState(l)
	for h.sp.acq[l] < acq && h.sp.canAcquire(l) {
		h.sp.applyA(l, "success")
	}
	if h.sp.canAcquire(l) {
		h.sp.applyA(l, res)
	}
}

func (h *H) resyncRelease(l int, c uint64, wl []*latch.Lock) {
	h.sp.unlock(l, c)
	byKey := map[string]*latch.Lock{}
	for _, x := range wl {
		id, ok := h.ids[x]
		if !ok {
			continue
		}
		a := h.sp.acq[id]
		if a < len(h.sp.keys[id]) {
			byKey[h.sp.keys[id][a]] = x
		}
	}
	for h.sp.phase[l] == phReleasing {
		k := h.sp.keys[l][h.sp.acq[l]-1]
		if x, ok := byKey[k]; ok {
			h.sp.applyR(l, h.ids[x], x.IsStale())
		} else {
			h.sp.applyR(l, -1, false)
		}
	}
}

// ---------------------------------------------------------------- (b) stress through the scheduler goroutine

// stress <round> <seed> <goroutines> <txns per goroutine> <pool> <size> <jump>
// The scheduler goroutine cannot be guarded by recover from here: the round runs in a child process
// (this binary with C17_STRESS_OP set), so a panic in LatchesScheduler.run becomes a FAIL line with its input.
func stress(w []string) string {
	if len(w) != 8 {
		return "bad-op"
	}
	cmd := osexec.Command(os.Args[0])
	cmd.Env = append(os.Environ(), "C17_STRESS_OP="+strings.Join(w, " "))
	var stdout, stderr bytes.Buffer
	cmd.Stdout, cmd.Stderr = &stdout, &stderr
	if err := cmd.Run(); err != nil {
		why := "exit"
		for _, l := range strings.Split(stderr.String(), "\n") {
			if strings.HasPrefix(l, "panic:") || strings.HasPrefix(l, "fatal error:") {
				why = strings.Join(strings.Fields(l), "-")
				break
			}
		}
		return "FAIL stress: process died: " + why
	}
	return strings.TrimSpace(stdout.String())
}

func stressInProc(w []string) string {
	if len(w) != 8 {
		return "bad-op"
	}
	var a [7]uint64
	for i := range a {
		v, ok := atou(w[i+1])
		if !ok {
			return "bad-op"
		}
		a[i] = v
	}
	seed, ng, nt, pool, size, jump := a[1], int(a[2]), int(a[3]), int(a[4]), uint(a[5]), a[6]
	sch := latch.NewScheduler(size)
	defer sch.Close()
	var tso atomic.Uint64
	tso.Store(oracle.ComposeTS(1_700_000_000_000, 0))
	var mu sync.Mutex
	holder := map[string]int{}
	maxCommit := map[string]uint64{}
	var bad atomic.Value
	var wg sync.WaitGroup
	next := func(r *vx.Rand) uint64 {
		if jump > 0 && r.Intn(50) == 0 {
			return tso.Add(oracle.ComposeTS(int64(jump*1000*uint64(1+r.Intn(3))), 0))
		}
		return tso.Add(1)
	}
	for g := 0; g < ng; g++ {
		wg.Add(1)
		go func(g int) {
			defer wg.Done()
			defer func() {
				if e := recover(); e != nil {
					bad.Store(fmt.Sprintf("panic in goroutine %d", g))
				}
			}()
			r := vx.NewRand(seed*1000 + uint64(g))
			for t := 0; t < nt; t++ {
				id := g*nt + t + 1
				nk := 1 + r.Intn(3)
				if nk > pool {
					nk = pool
				}
				seen := map[int]bool{}
				var keys [][]byte
				var hk []string
				for len(keys) < nk {
					x := r.Intn(pool)
					if seen[x] {
						continue
					}
					seen[x] = true
					k := []byte(fmt.Sprintf("k%d", x))
					keys = append(keys, k)
					hk = append(hk, string(k))
				}
				start := next(r)
				lock := sch.Lock(start, keys)
				if lock.IsStale() {
					mu.Lock()
					ok := false
					for _, k := range hk {
						if maxCommit[k] > start {
							ok = true
						}
					}
					mu.Unlock()
					if !ok {
						bad.Store(fmt.Sprintf("stale-unsound txn %d start %d", id, start))
					}
					sch.UnLock(lock)
					continue
				}
				mu.Lock()
				for _, k := range hk {
					if o, held := holder[k]; held {
						bad.Store(fmt.Sprintf("excl key %s txn %d and %d", k, o, id))
					}
					holder[k] = id
				}
				mu.Unlock()
				for i := r.Intn(3); i > 0; i-- {
					runtime.Gosched()
				}
				mu.Lock()
				commit := uint64(0)
				if r.Intn(10) != 0 { // one in ten fails to commit
					commit = next(r)
				}
				for _, k := range hk {
					delete(holder, k)
					if commit > maxCommit[k] {
						maxCommit[k] = commit
					}
				}
				mu.Unlock()
				lock.SetCommitTS(commit)
				sch.UnLock(lock)
			}
		}(g)
	}
	done := make(chan struct{})
	go func() { wg.Wait(); close(done) }()
	select {
	case <-done:
	case <-time.After(30 * time.Second):
		return "FAIL stress: requests did not return within 30s (lost wake-up or deadlock)"
	}
	if b := bad.Load(); b != nil {
		return "FAIL stress: " + b.(string)
	}
	return "ok"
}

// ---------------------------------------------------------------- generation

var poolKeys = []string{"6b31", "6b32", "6b33", "6b34", "6b35", "6b36", "6b37", "6b38"}

type gen struct {
	run    *vx.Run
	caseNo int
	lc     int
	exp    uint64
	shift  uint
}

func (g *gen) emit(op string) string {
	r := exec(op)
	g.run.Emit(op, r)
	return r
}

func (g *gen) begin(size int, pool []string, tag string) {
	g.caseNo++
	g.run.Comment(fmt.Sprintf("case %d %s", g.caseNo, tag))
	lat := latch.NewLatches(uint(size))
	var t []string
	for _, k := range pool {
		b, _ := vx.UnHex(k)
		t = append(t, k+":"+strconv.Itoa(latch.VerifSlotID(lat, b)))
	}
	g.emit(fmt.Sprintf("reset %d %d %d %d %s", latch.VerifNumSlots(lat), g.lc, g.exp, g.shift, strings.Join(t, " ")))
}

type txn struct {
	keys   []string
	start  uint64
	commit uint64
}

// all maximal schedules of acquire/release at method granularity, enumerated on the specification
func schedules(txns []txn, limit int) (out [][]string, truncated bool) {
	sp := newSpec()
	for _, t := range txns {
		sp.add(t.start, t.keys)
	}
	var rec func(sp *spec, prefix []string)
	rec = func(sp *spec, prefix []string) {
		if len(out) >= limit {
			truncated = true
			return
		}
		any := false
		for i := range txns {
			var op string
			s2 := sp
			switch {
			case sp.canAcquire(i):
				op = fmt.Sprintf("acquire %d", i)
				s2 = sp.clone()
				s2.acquireAll(i)
			case sp.phase[i] == phAcquired:
				c := txns[i].commit
				if sp.stale[i] {
					c = 0
				}
				op = fmt.Sprintf("release %d %d", i, c)
				s2 = sp.clone()
				s2.releaseAll(i, c)
			default:
				continue
			}
			any = true
			rec(s2, append(append([]string{}, prefix...), op))
		}
		if !any {
			out = append(out, prefix)
		}
	}
	rec(sp, nil)
	return
}

func (g *gen) runConfig(size int, txns []txn, tag string, limit int) {
	scheds, trunc := schedules(txns, limit)
	if trunc {
		g.run.Count("config-truncated")
	}
	g.run.Count(fmt.Sprintf("config:%dtxn", len(txns)))
	for _, sc := range scheds {
		g.begin(size, poolKeys[:5], tag)
		for i, t := range txns {
			g.emit(fmt.Sprintf("lock %d %d %s", i, t.start, strings.Join(t.keys, " ")))
		}
		for _, op := range sc {
			r := g.emit(op)
			g.run.Count("A:" + strings.Fields(op)[0] + ":" + strings.Fields(r)[0])
			g.emit("chk")
		}
		g.run.Count("schedule")
	}
}

func subset(r *vx.Rand, pool []string, maxN int) []string {
	n := 1 + r.Intn(maxN)
	if n > len(pool) {
		n = len(pool)
	}
	idx := map[int]bool{}
	var out []string
	for len(out) < n {
		x := r.Intn(len(pool))
		if idx[x] {
			continue
		}
		idx[x] = true
		out = append(out, pool[x])
	}
	return out
}

func randTxns(r *vx.Rand, n int) []txn {
	// few keys and a narrow band of timestamps: conflicts, ties (commit == other start) and all orders are frequent
	pool := poolKeys[:2+r.Intn(4)]
	var out []txn
	for i := 0; i < n; i++ {
		s := uint64(1 + r.Intn(2*n))
		c := s + uint64(r.Intn(4))
		if r.Intn(8) == 0 {
			c = 0 // did not commit
		}
		out = append(out, txn{keys: subset(r, pool, 3), start: s, commit: c})
	}
	return out
}

// random walk over slot-granularity and method-granularity steps, new arrivals and recycles
// mode 0: small timestamps (nothing can expire); 1: minute-scale monotone clock with recycling; 2 ("skew"): one slot
// for all 8 keys (>= latchListCount colliding keys), start/commit/recycle timestamps drawn independently from a
// 6-minute window, so commits are often physically ahead of a later recycle timestamp or of a requester's start ts,
// unlocks happen out of commit-ts order and recycles run in between.
func (g *gen) walk(r *vx.Rand, mode int) {
	big := mode >= 1
	skew := mode == 2
	size := []int{1, 2, 2, 4}[r.Intn(4)]
	pool := poolKeys[:3+r.Intn(6)]
	tag := "walk"
	if big {
		tag = "walk-recycle"
		size = []int{1, 1, 2}[r.Intn(3)]
		pool = poolKeys
	}
	if skew {
		tag = "walk-skew"
		size = 1
	}
	g.begin(size, pool, tag)
	h := cur
	minute := oracle.ComposeTS(60_000, 0)
	ms := oracle.ComposeTS(1, 0)
	clock := uint64(1)
	if big {
		clock = 10 * minute
	}
	window := func() uint64 { // anywhere in [10min, 16min], millisecond granularity, sometimes on a minute boundary
		if r.Intn(3) == 0 {
			return 10*minute + minute*uint64(r.Intn(7)) + uint64(r.Intn(2))
		}
		return 10*minute + ms*uint64(r.Intn(360_001)) + uint64(r.Intn(3))
	}
	tick := func() uint64 {
		if skew {
			clock = window()
			return clock
		}
		if big {
			switch r.Intn(4) {
			case 0:
				clock += minute * uint64(1+r.Intn(3))
			case 1:
				clock += uint64(r.Intn(3))
			default:
				clock += minute / 4
			}
		} else if r.Intn(3) > 0 {
			clock++
		}
		return clock
	}
	oldTS := func() uint64 { // a start ts possibly in the past: stale requests
		if skew {
			return window()
		}
		if big {
			return clock - minute*uint64(r.Intn(4))
		}
		if d := uint64(r.Intn(4)); d < clock {
			return clock - d
		}
		return clock
	}
	maxLocks := 2 + r.Intn(5)
	maxSteps := 80
	if skew {
		maxLocks = 4 + r.Intn(5)
		maxSteps = 120
	}
	steps := 0
	for steps < maxSteps {
		steps++
		sp := h.sp
		var ops []string
		if len(sp.phase) < maxLocks {
			ops = append(ops, "new", "new")
		}
		for l, ph := range sp.phase {
			switch ph {
			case phAcquiring, phWoken:
				ops = append(ops, fmt.Sprintf("astep %d", l), fmt.Sprintf("astep %d", l))
				if !big {
					ops = append(ops, fmt.Sprintf("acquire %d", l))
				}
			case phAcquired:
				c := tick()
				if sp.stale[l] || r.Intn(6) == 0 {
					c = 0
				}
				ops = append(ops, fmt.Sprintf("unlock %d %d", l, c))
				if !big {
					ops = append(ops, fmt.Sprintf("release %d %d", l, c))
				}
			case phReleasing:
				ops = append(ops, fmt.Sprintf("rstep %d", l), fmt.Sprintf("rstep %d", l))
			}
		}
		if big && r.Intn(map[bool]int{false: 6, true: 3}[skew]) == 0 {
			if r.Bool() {
				ops = append(ops, fmt.Sprintf("recycle %d", tick()))
			} else {
				ops = append(ops, fmt.Sprintf("recycleslot %d %d", r.Intn(h.nslots), tick()))
			}
		}
		if len(ops) == 0 {
			break
		}
		op := ops[r.Intn(len(ops))]
		if op == "new" {
			tick()
			op = fmt.Sprintf("lock %d %d %s", len(sp.phase), oldTS(), strings.Join(subset(r, pool, 3), " "))
		}
		res := g.emit(op)
		g.run.Count("B:" + strings.Fields(op)[0] + ":" + strings.Fields(res)[0])
		g.emit("chk")
	}
	g.run.Count(tag)
}

func main() {
	if op := os.Getenv("C17_STRESS_OP"); op != "" {
		fmt.Println(stressInProc(strings.Fields(op)))
		return
	}
	run := vx.Start()
	defer run.Finish()
	// an op that does not come back is a finding of its own (lost wake-ups cannot block here, but a broken loop could)
	go func() {
		seen := uint64(0)
		for {
			time.Sleep(60 * time.Second)
			p := progress.Load()
			if p == seen {
				op, _ := lastOp.Load().(string)
				run.Emit("# hang", "# hang")
				run.Emit(op, "FAIL op did not return")
				run.Finish()
				os.Exit(0)
			}
			seen = p
		}
	}()
	do := func(l string) {
		if strings.HasPrefix(l, "#") {
			run.Comment(strings.TrimSpace(l[1:]))
		} else {
			run.Emit(l, exec(l))
		}
	}
	if run.Replay != "" {
		leakAfter = 300 * time.Millisecond
		hardLimit = 4 * time.Second // replays (shrinking) may leave a Commit queued behind a lock nobody releases
		for _, l := range run.ReplayLines() {
			do(l)
		}
		return
	}
	r := vx.NewRand(vx.NewRand(run.Seed).U64()) // decorrelate neighbouring seeds (splitmix streams of seed and seed+1 overlap)
	g := &gen{run: run, lc: latch.VerifListCount(), exp: uint64(latch.VerifExpireMillis()), shift: tsShift()}

	// (a1) two transactions: fixed key-set shapes x all start/commit orders over 1..4 (ties included) x slot counts
	shapes := [][2][]string{
		{{"6b31"}, {"6b31"}},
		{{"6b31", "6b32"}, {"6b32", "6b33"}},
		{{"6b31", "6b32", "6b33"}, {"6b33", "6b32", "6b31"}},
		{{"6b31", "6b33"}, {"6b32"}},
		{{"6b32", "6b34"}, {"6b34", "6b31", "6b35"}},
		{{"6b35", "6b31"}, {"6b31"}},
	}
	for _, sh := range shapes {
		for _, size := range []int{1, 2} {
			for s1 := uint64(1); s1 <= 3; s1++ {
				for c1 := s1; c1 <= 4; c1++ {
					for s2 := uint64(1); s2 <= 3; s2++ {
						for c2 := s2; c2 <= 4; c2++ {
							g.runConfig(size, []txn{{sh[0], s1, c1}, {sh[1], s2, c2}}, "two", 100)
						}
					}
				}
			}
		}
	}
	// (a2) three (and, thorough, four) transactions: seeded configurations, all interleavings of each
	n3, n4 := 300, 2
	if run.Thorough() {
		n3, n4 = 1500, 15
	}
	for i := 0; i < n3; i++ {
		g.runConfig([]int{1, 2, 2, 4}[r.Intn(4)], randTxns(r, 3), "three", 2000)
	}
	for i := 0; i < n4; i++ {
		g.runConfig([]int{1, 2, 2}[r.Intn(3)], randTxns(r, 4), "four", 6000)
	}
	// (a3) slot-granularity random walks (the model's atomic steps), with and without recycling
	nw := 5000
	if run.Thorough() {
		nw = 20000
	}
	for i := 0; i < nw; i++ {
		mode := 0
		if i%3 == 0 {
			mode = 1 + (i/3)%2
		}
		g.walk(r.Fork(), mode)
	}
	// (c) the scheduler driven through the real KVTxn.Commit
	nc := 40
	if run.Thorough() {
		nc = 300
	}
	for i := 0; i < nc; i++ {
		g.clientCase(r.Fork())
	}
	ccur.close()
	// (b) the real scheduler goroutine
	ns := 30
	if run.Thorough() {
		ns = 300
	}
	g.caseNo++
	run.Comment(fmt.Sprintf("case %d stress", g.caseNo))
	for i := 0; i < ns; i++ {
		jump := 0
		if i%3 == 2 {
			jump = 70
		}
		op := fmt.Sprintf("stress %d %d %d %d %d %d %d", i, r.U64()%1000000, 4+r.Intn(12), 30+r.Intn(100), 2+r.Intn(7), []int{1, 2, 4, 16}[r.Intn(4)], jump)
		res := g.emit(op)
		run.Count("stress:" + strings.Fields(res)[0])
	}
}
