//go:build verif

// C17, client level: the latch scheduler driven through the real KVTxn.Commit (mock store, txn local latches enabled,
// optimistic non-pipelined transactions).  Timestamps are the real ones of the mock PD; they are written into the op
// lines after the fact (the model only compares them), a replay ignores the recorded values and keeps their order.
package main

import (
	"context"
	"errors"
	"fmt"
	"strconv"
	"strings"
	"time"

	tikverr "github.com/tikv/client-go/v2/error"
	"github.com/tikv/client-go/v2/internal/latch"
	"github.com/tikv/client-go/v2/testutils"
	"github.com/tikv/client-go/v2/tikv"
	"github.com/tikv/client-go/v2/txnkv/transaction"
	"github.com/tikv/client-go/v2/verifx/vx"
)

type cres struct {
	err      error
	commitTS uint64
}

type C struct {
	store    *tikv.KVStore
	lat      *latch.Latches
	n        int // ids handed out (transactions and harness locks share one numbering, as in the model)
	txns     map[int]*transaction.KVTxn
	keys     map[int][]string
	hlocks   map[int]*latch.Lock
	inflight map[int]chan cres
	done     map[int]cres
	verdict  []string
	dead     bool // a Commit hangs: the rest of the case is skipped
}

var ccur *C

// generous limit for a Commit that is neither finished nor provably stuck on a leaked latch
var hardLimit = 60 * time.Second

// how long a queued Commit with a dead owner in front of it is watched before it is reported
var leakAfter = 1000 * time.Millisecond

func (c *C) close() {
	if c == nil || c.store == nil {
		return
	}
	st := c.store
	c.store = nil
	fin := make(chan struct{})
	go func() { defer func() { recover(); close(fin) }(); st.Close() }()
	select {
	case <-fin:
	case <-time.After(5 * time.Second):
	}
}

func classify(r cres) string {
	if r.err == nil {
		return "ok"
	}
	var lc *tikverr.ErrWriteConflictInLatch
	if errors.As(r.err, &lc) {
		return "conflict"
	}
	return "failed"
}

// leaked: Commit of t is QUEUED in a waiting list although nobody who could own the key it waits for is alive
// (no harness lock outstanding, no other Commit in flight).  t acquires in sorted order, so it owns only keys below
// the one it is queued on; the greatest key of its write set that has an owner is therefore owned by a lock whose
// transaction has already returned.
func (c *C) leaked(t int) (string, bool) {
	if len(c.hlocks) > 0 {
		return "", false
	}
	for o := range c.inflight {
		if o != t {
			return "", false
		}
	}
	if latch.VerifWaitingTotal(c.lat) == 0 {
		return "", false // not queued: the commit itself is slow
	}
	held := map[string]bool{}
	for _, k := range latch.VerifHeldKeys(c.lat) {
		held[k] = true
	}
	ks := append([]string{}, c.keys[t]...)
	sortStr(ks)
	for i := len(ks) - 1; i >= 0; i-- {
		if held[ks[i]] {
			return ks[i], true
		}
	}
	return "", false
}

func sortStr(a []string) {
	for i := 1; i < len(a); i++ {
		for j := i; j > 0 && a[j] < a[j-1]; j-- {
			a[j], a[j-1] = a[j-1], a[j]
		}
	}
}

// await: the Commit of t returns, or it hangs on a leaked latch (reported after 1.5 s of no progress, only when the
// export shows a dead owner), or - neither - a generous deadline passes.
func (c *C) await(t int) string {
	ch := c.inflight[t]
	t0 := time.Now()
	tick := time.NewTicker(50 * time.Millisecond)
	defer tick.Stop()
	for {
		select {
		case r := <-ch:
			delete(c.inflight, t)
			c.done[t] = r
			return classify(r)
		case <-tick.C:
			el := time.Since(t0)
			if el > leakAfter {
				if k, ok := c.leaked(t); ok {
					c.verdict = append(c.verdict, fmt.Sprintf("latch-leak %s: Commit of T%d does not return although no live transaction holds the key", k, t))
					c.dead = true
					return "queued"
				}
			}
			if el > hardLimit {
				c.dead = true
				if latch.VerifWaitingTotal(c.lat) > 0 {
					return "queued"
				}
				return "timeout"
			}
		}
	}
}

func (c *C) start(t int) {
	txn := c.txns[t]
	ch := make(chan cres, 1)
	c.inflight[t] = ch
	go func() {
		ctx, cancel := context.WithTimeout(context.Background(), 120*time.Second)
		defer cancel()
		err := txn.Commit(ctx)
		ts := uint64(0)
		if err == nil {
			ts = txn.CommitTS()
		}
		ch <- cres{err, ts}
	}()
}

func (c *C) now() uint64 {
	ts, err := c.store.CurrentTimestamp("global")
	if err != nil {
		panic(err)
	}
	return ts
}

// cexec executes a client-level op. For ops whose line carries an observed timestamp the (possibly rewritten) op line is
// returned as well: in generation mode the generator passes "?" and emits the returned line.
func cexec(line string) (string, string) {
	w := strings.Fields(line)
	if w[0] == "creset" {
		if len(w) < 5 {
			return line, "bad-op"
		}
		n, ok := atoi(w[1])
		if !ok || n == 0 {
			return line, "bad-op"
		}
		ccur.close()
		cur = nil
		client, cluster, pdClient, err := testutils.NewMockTiKV("", nil)
		if err != nil {
			return line, "setup-failed"
		}
		testutils.BootstrapWithSingleStore(cluster)
		store, err := tikv.NewTestTiKVStore(client, pdClient, nil, nil, uint(n))
		if err != nil || !store.IsLatchEnabled() {
			return line, "setup-failed"
		}
		c := &C{store: store, lat: latch.VerifLatchesOf(store.TxnLatches()), txns: map[int]*transaction.KVTxn{},
			keys: map[int][]string{}, hlocks: map[int]*latch.Lock{}, inflight: map[int]chan cres{}, done: map[int]cres{}}
		if latch.VerifNumSlots(c.lat) != n || w[2] != strconv.Itoa(latch.VerifListCount()) ||
			w[3] != strconv.FormatInt(latch.VerifExpireMillis(), 10) || w[4] != strconv.Itoa(int(tsShift())) {
			c.close()
			return line, "reset-mismatch"
		}
		for _, t := range w[5:] {
			p := strings.Split(t, ":")
			k, ok := vx.UnHex(p[0])
			if len(p) != 2 || !ok || strconv.Itoa(latch.VerifSlotID(c.lat, k)) != p[1] {
				c.close()
				return line, "reset-mismatch"
			}
		}
		ccur = c
		return line, "ok"
	}
	c := ccur
	if c == nil || c.store == nil {
		return line, "no-reset"
	}
	if c.dead && !strings.HasPrefix(w[0], "chk-progress") {
		return line, "skipped"
	}
	id := func() (int, bool) {
		if len(w) < 2 {
			return 0, false
		}
		return atoi(w[1])
	}
	switch w[0] {
	case "tbegin", "hlock":
		t, ok := id()
		if !ok || len(w) < 4 {
			return line, "bad-op"
		}
		if t != c.n {
			return line, "illegal"
		}
		var keys [][]byte
		var hk []string
		for _, x := range w[3:] {
			k, ok := vx.UnHex(x)
			if !ok {
				return line, "bad-op"
			}
			keys = append(keys, k)
			hk = append(hk, vx.Hex(k))
		}
		c.n++
		c.keys[t] = hk
		if w[0] == "tbegin" {
			txn, err := c.store.Begin()
			if err != nil {
				return line, "setup-failed"
			}
			for _, k := range keys {
				if err := txn.Set(k, []byte(fmt.Sprintf("v%d", t))); err != nil {
					return line, "setup-failed"
				}
			}
			c.txns[t] = txn
			w[2] = strconv.FormatUint(txn.StartTS(), 10)
			return strings.Join(w, " "), "ok"
		}
		// hlock: must not block (the generator only takes free keys); guard with a deadline all the same
		ts := c.now()
		w[2] = strconv.FormatUint(ts, 10)
		got := make(chan *latch.Lock, 1)
		go func() { got <- c.store.TxnLatches().Lock(ts, keys) }()
		select {
		case lk := <-got:
			c.hlocks[t] = lk
			if lk.IsStale() {
				return strings.Join(w, " "), "stale"
			}
			return strings.Join(w, " "), "success"
		case <-time.After(3 * time.Second):
			return strings.Join(w, " "), "locked"
		}
	case "tcommit":
		t, ok := id()
		if !ok || len(w) != 3 || c.txns[t] == nil || c.inflight[t] != nil {
			return line, "illegal"
		}
		if _, fin := c.done[t]; fin {
			return line, "illegal"
		}
		c.start(t)
		res := c.await(t)
		w[2] = strconv.FormatUint(c.done[t].commitTS, 10)
		return strings.Join(w, " "), res
	case "tasync":
		t, ok := id()
		if !ok || len(w) != 2 || c.txns[t] == nil || c.inflight[t] != nil {
			return line, "illegal"
		}
		// one background Commit at a time and no other requester: whoever is queued is this Commit
		c.start(t)
		t0 := time.Now()
		for time.Since(t0) < 30*time.Second {
			if latch.VerifWaitingTotal(c.lat) > 0 {
				return line, "queued"
			}
			select {
			case r := <-c.inflight[t]:
				c.inflight[t] <- r // leave it for twait
				return line, "notqueued"
			default:
			}
			time.Sleep(time.Millisecond)
		}
		return line, "notqueued"
	case "hunlock":
		t, ok := id()
		if !ok || len(w) != 3 || c.hlocks[t] == nil {
			return line, "illegal"
		}
		cts := uint64(0)
		if w[2] != "0" {
			cts = c.now()
		}
		lk := c.hlocks[t]
		delete(c.hlocks, t)
		lk.SetCommitTS(cts)
		c.store.TxnLatches().UnLock(lk)
		w[2] = strconv.FormatUint(cts, 10)
		return strings.Join(w, " "), "ok"
	case "twait":
		t, ok := id()
		if !ok || len(w) != 3 || c.inflight[t] == nil {
			return line, "illegal"
		}
		res := c.await(t)
		w[2] = strconv.FormatUint(c.done[t].commitTS, 10)
		return strings.Join(w, " "), res
	case "chk-progress":
		if len(c.verdict) == 0 {
			return line, "ok"
		}
		v := "FAIL " + strings.Join(c.verdict, " / ")
		c.verdict = nil
		return line, v
	case "chk-free":
		if len(c.hlocks) > 0 || len(c.inflight) > 0 {
			return line, "illegal" // only meaningful when every transaction of the case has finished
		}
		t0 := time.Now()
		for {
			held := latch.VerifHeldKeys(c.lat)
			wt := latch.VerifWaitingTotal(c.lat)
			if len(held) == 0 && wt == 0 {
				return line, "ok"
			}
			if time.Since(t0) > 3*time.Second { // the scheduler goroutine releases asynchronously; 3 s of no release = held for good
				if len(held) > 0 {
					return line, "FAIL latch-held key=" + held[0] + " although every transaction has finished"
				}
				return line, fmt.Sprintf("FAIL waiting=%d although every transaction has finished", wt)
			}
			time.Sleep(5 * time.Millisecond)
		}
	}
	return line, "bad-op"
}

func isClientOp(op string) bool {
	switch op {
	case "creset", "tbegin", "hlock", "tcommit", "tasync", "hunlock", "twait", "chk-progress", "chk-free":
		return true
	}
	return false
}

// ---------------------------------------------------------------- generation

var clientKeys = []string{"636b31", "636b32", "636b33", "636b34"} // ck1..ck4

func (g *gen) cemit(op string) string {
	lastOp.Store(op)
	line, res := "", ""
	res = vx.Guard(func() string {
		var r string
		line, r = cexec(op)
		return r
	})
	if line == "" {
		line = op
	}
	if ccur != nil && len(ccur.verdict) > 0 && !strings.HasPrefix(op, "chk") && res != "panic" {
		res = "FAIL " + strings.Join(ccur.verdict, " / ") + " ; " + res
		ccur.verdict = nil
	}
	progress.Add(1)
	g.run.Emit(line, res)
	return res
}

// one case: rounds of (i) a transaction that goes stale on a key that is not its smallest, (ii) a queued waiter that is
// handed the key as stale, (iii) a queued waiter that proceeds, (iv) plain commits; then a follower on every key.
func (g *gen) clientCase(r *vx.Rand) {
	size := []int{1, 2, 4, 8096}[r.Intn(4)]
	pool := clientKeys[:2+r.Intn(3)]
	g.caseNo++
	g.run.Comment(fmt.Sprintf("case %d client", g.caseNo))
	lat := latch.NewLatches(uint(size))
	var tbl []string
	for _, k := range pool {
		b, _ := vx.UnHex(k)
		tbl = append(tbl, k+":"+strconv.Itoa(latch.VerifSlotID(lat, b)))
	}
	if g.cemit(fmt.Sprintf("creset %d %d %d %d %s", latch.VerifNumSlots(lat), g.lc, g.exp, g.shift, strings.Join(tbl, " "))) != "ok" {
		return
	}
	id := 0
	next := func() int { id++; return id - 1 }
	follower := func(k string) bool {
		t := next()
		g.cemit(fmt.Sprintf("tbegin %d ? %s", t, k))
		res := g.cemit(fmt.Sprintf("tcommit %d ?", t))
		g.cemit("chk-progress")
		g.run.Count("C:follower:" + strings.Fields(res)[0])
		return strings.HasPrefix(res, "ok") || strings.HasPrefix(res, "conflict") || strings.HasPrefix(res, "failed")
	}
	alive := true
	rounds := 2 + r.Intn(3)
	for i := 0; i < rounds && alive; i++ {
		shape := r.Intn(4)
		g.run.Count(fmt.Sprintf("C:shape%d", shape))
		switch shape {
		case 0: // stale on a key that is not the smallest: the loser starts first, the winner commits a larger key
			ks := subset(r, pool, 3)
			if len(ks) < 2 {
				ks = pool[:2]
			}
			ks = append([]string{}, ks...)
			sortStr(ks)
			conflict := ks[1+r.Intn(len(ks)-1)]
			loser, winner := next(), next()
			g.cemit(fmt.Sprintf("tbegin %d ? %s", loser, strings.Join(ks, " ")))
			g.cemit(fmt.Sprintf("tbegin %d ? %s", winner, conflict))
			res := g.cemit(fmt.Sprintf("tcommit %d ?", winner))
			alive = strings.HasPrefix(res, "ok") || strings.HasPrefix(res, "conflict") || strings.HasPrefix(res, "failed")
			if alive {
				res = g.cemit(fmt.Sprintf("tcommit %d ?", loser))
				g.run.Count("C:loser:" + strings.Fields(res)[0])
				alive = strings.HasPrefix(res, "ok") || strings.HasPrefix(res, "conflict") || strings.HasPrefix(res, "failed")
			}
		case 1, 2: // a waiter queued behind the harness' own lock; released with a commit ts (stale hand-over) or with 0
			ks := append([]string{}, subset(r, pool, 3)...)
			sortStr(ks)
			q := ks[r.Intn(len(ks))]
			x := next()
			g.cemit(fmt.Sprintf("tbegin %d ? %s", x, strings.Join(ks, " ")))
			h := next()
			if g.cemit(fmt.Sprintf("hlock %d ? %s", h, q)) != "success" {
				alive = false
				break
			}
			qd := g.cemit(fmt.Sprintf("tasync %d", x))
			c := "1"
			if shape == 2 {
				c = "0"
			}
			g.cemit(fmt.Sprintf("hunlock %d %s", h, c))
			res := g.cemit(fmt.Sprintf("twait %d ?", x))
			g.run.Count("C:waiter:" + qd + ":" + strings.Fields(res)[0])
			alive = strings.HasPrefix(res, "ok") || strings.HasPrefix(res, "conflict") || strings.HasPrefix(res, "failed")
		default:
			t := next()
			g.cemit(fmt.Sprintf("tbegin %d ? %s", t, strings.Join(subset(r, pool, 3), " ")))
			res := g.cemit(fmt.Sprintf("tcommit %d ?", t))
			alive = strings.HasPrefix(res, "ok") || strings.HasPrefix(res, "conflict") || strings.HasPrefix(res, "failed")
		}
		g.cemit("chk-progress")
		if alive && r.Intn(3) == 0 {
			alive = follower(pool[r.Intn(len(pool))])
		}
	}
	for _, k := range pool {
		if !alive {
			break
		}
		alive = follower(k)
	}
	if alive {
		g.cemit("chk-free")
	}
	g.run.Count("client-case")
}
