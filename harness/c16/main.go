//go:build verif

// C16 harness: pipelined transactions.
//
// World "bare": the REAL unionstore.PipelinedMemDB with a scripted flush function (its completion is decided by the op
// lines: `flushdone`, or the `late` completion of an op that has to wait for the running flush) and a harness-side
// remote buffer behind bufferBatchGetter.
//
// World "txn": a REAL pipelined KVTxn (tikv.WithPipelinedTxn) on a mocktikv cluster.  mocktikv does not implement the
// Flush / BufferBatchGet / BroadcastTxnStatus RPCs and cannot commit keys it never locked, so a full pipelined
// transaction cannot run against the mock.  The harness therefore wraps the RPC client: Flush, BufferBatchGet, Commit,
// TxnHeartBeat and BroadcastTxnStatus are answered by the harness (Flush answers are scripted like in the bare world),
// ResolveLock is recorded and forwarded to the mock (region epoch checks stay real).  Everything on the client side is
// the real code: the flush callback of InitPipelinedMemDB (closed check, pipelinedStart/End, primary), Commit/Rollback,
// commitFlushedMutations, resolveFlushedLocks, RunOnRange and the resolve handler.
//
// Both worlds execute the same op lines as the Lean driver cgv-c16.
package main

import (
	"bytes"
	"context"
	stderrors "errors"
	"fmt"
	"os"
	"sort"
	"strconv"
	"strings"
	"sync"
	"sync/atomic"
	"time"

	"github.com/pingcap/errors"
	"github.com/pingcap/failpoint"
	"github.com/golang/protobuf/proto" //nolint:staticcheck
	"github.com/pingcap/kvproto/pkg/errorpb"
	"github.com/pingcap/kvproto/pkg/kvrpcpb"
	"github.com/pingcap/log"
	tikverr "github.com/tikv/client-go/v2/error"
	"github.com/tikv/client-go/v2/internal/mockstore/mocktikv"
	"github.com/tikv/client-go/v2/internal/unionstore"
	"github.com/tikv/client-go/v2/kv"
	"github.com/tikv/client-go/v2/testutils"
	"github.com/tikv/client-go/v2/tikv"
	"github.com/tikv/client-go/v2/tikvrpc"
	"github.com/tikv/client-go/v2/util"
	"github.com/tikv/client-go/v2/util/async"
	"github.com/tikv/client-go/v2/util/codec"
	"github.com/tikv/client-go/v2/verifx/vx"
	"go.uber.org/zap"
	"go.uber.org/zap/zapcore"
)

const watchdog = 20 * time.Second

// completion of a flush function: ok, or a failure of a given KIND: a plain error, or (exist) an error chain that
// contains *tikverr.ErrKeyExist for key existKey — the one kind handleAlreadyExistErr special-cases.
type completion struct {
	ok       bool
	applied  int
	exist    bool
	existKey []byte
	stale    bool // answer for a Flush request of a flush that has already failed: fail it, count nothing
}

type kvPair struct{ k, v []byte }

type call struct {
	gen  uint64
	muts []kvPair
}

type pendingRPC struct {
	req   *kvrpcpb.FlushRequest
	reply chan completion
}

type resolveRec struct {
	region        uint64
	startVer, cmt uint64
}

// ---------------------------------------------------------------------------------------------- log capture

type txnLog struct {
	done       chan struct{}
	once       sync.Once
	mu         sync.Mutex
	start, end string
	haveRange  bool
}

var (
	logMu   sync.Mutex
	txnLogs = map[uint64]*txnLog{}
)

func logOf(ts uint64) *txnLog {
	logMu.Lock()
	defer logMu.Unlock()
	l := txnLogs[ts]
	if l == nil {
		l = &txnLog{done: make(chan struct{})}
		txnLogs[ts] = l
	}
	return l
}

type capCore struct{ with []zapcore.Field }

func (c *capCore) Enabled(zapcore.Level) bool { return true }
func (c *capCore) With(f []zapcore.Field) zapcore.Core {
	return &capCore{with: append(append([]zapcore.Field{}, c.with...), f...)}
}
func (c *capCore) Check(e zapcore.Entry, ce *zapcore.CheckedEntry) *zapcore.CheckedEntry {
	return ce.AddCore(e, c)
}
func (c *capCore) Sync() error { return nil }
func (c *capCore) Write(e zapcore.Entry, fields []zapcore.Field) error {
	all := append(append([]zapcore.Field{}, c.with...), fields...)
	str := func(key string) (string, bool) {
		for _, f := range all {
			if f.Key == key && f.Type == zapcore.StringType {
				return f.String, true
			}
		}
		return "", false
	}
	u64 := func(key string) (uint64, bool) {
		for _, f := range all {
			if f.Key == key && (f.Type == zapcore.Uint64Type || f.Type == zapcore.Int64Type) {
				return uint64(f.Integer), true
			}
		}
		return 0, false
	}
	switch {
	case e.Message == "range task started" || strings.HasPrefix(e.Message, "empty range task executed"):
		// identifier "pipelined-dml-<status>-<startTS>" is logged under key "name"
		name, _ := str("name")
		i := strings.LastIndex(name, "-")
		if !strings.HasPrefix(name, "pipelined-dml-") || i < 0 {
			return nil
		}
		ts, err := strconv.ParseUint(name[i+1:], 10, 64)
		if err != nil {
			return nil
		}
		l := logOf(ts)
		s, _ := str("startKey")
		en, _ := str("endKey")
		l.mu.Lock()
		l.start, l.end, l.haveRange = strings.ToLower(s), strings.ToLower(en), true
		l.mu.Unlock()
	case strings.HasPrefix(e.Message, "[pipelined dml] resolve flushed locks"):
		if ts, ok := u64("startTS"); ok {
			l := logOf(ts)
			l.once.Do(func() { close(l.done) })
		}
	}
	return nil
}

// ---------------------------------------------------------------------------------------------- environment

type env struct {
	mode string
	p    *unionstore.PipelinedMemDB
	dead bool

	// txn world
	store   *tikv.KVStore
	txn     *tikv.KVTxn
	cluster *testutils.MockCluster
	over    bool // Commit / Rollback was called

	mu          sync.Mutex
	remote      map[string][]byte
	calls       []call
	inflight    int32
	maxInflight int32
	resolves    []resolveRec
	commitKeys  [][]byte
	rpcMuts     map[uint64]map[string][]byte // generation -> mutations seen in Flush requests
	deadGens    map[uint64]bool              // generations whose flush function has returned an error

	// reads at the store (txn world)
	txnTS     uint64   // start ts of the pipelined transaction (0 while the committed data is being loaded)
	bufErrs   []string // region errors armed for the next BufferBatchGet requests: notleader | busy
	bufReads  int      // BufferBatchGet requests seen
	snapReads []string // plain Get / BatchGet requests at the transaction's start ts (a buffer read that lost its tier)

	// a split the store performs when the first ResolveLock for the region holding this key arrives (mock cluster
	// only: the range task has been cut on the old layout and the client's cache is stale)
	armedSplit []byte

	// commit point (txn world): what happens to the successive Commit requests for the primary (x: executed, answer
	// lost; n: lost before execution; k: definite key error; o: executed and answered; the last entry repeats)
	commitScript     string
	commitAttempts   int
	lastAttemptLost  bool
	primaryCommitted bool   // store tier: the primary is committed
	commitAnswer     string // "", "nil", "undetermined", "other"

	entered chan struct{}
	release chan completion
	rpcs    chan *pendingRPC
	held    []*pendingRPC
	auto    atomic.Pointer[completion]
	running bool

	lockKeys map[string]bool
	resolved *resolved

	// shadow specification (the property's own oracle, independent of the buffer under test)
	cur, pending         map[string][]byte
	curSaved, pendSaved  []map[string][]byte
	expected             []map[string][]byte
	handles              []int
	failed, unreported   bool
}

type resolved struct {
	rangeEnd string
	commit  bool
	regions map[uint64]bool
	primary []byte
}

func cloneMap(m map[string][]byte) map[string][]byte {
	c := make(map[string][]byte, len(m))
	for k, v := range m {
		c[k] = v
	}
	return c
}

func hexPairs(ps []kvPair) string {
	if len(ps) == 0 {
		return "-"
	}
	var sb strings.Builder
	for i, p := range ps {
		if i > 0 {
			sb.WriteByte(',')
		}
		sb.WriteString(vx.Hex(p.k) + "=" + vx.Hex(p.v))
	}
	return sb.String()
}

func sortedPairs(m map[string][]byte) []kvPair {
	ps := make([]kvPair, 0, len(m))
	for k, v := range m {
		ps = append(ps, kvPair{[]byte(k), v})
	}
	sort.Slice(ps, func(i, j int) bool { return bytes.Compare(ps[i].k, ps[j].k) < 0 })
	return ps
}

func dump(m *unionstore.MemDB) []kvPair {
	var out []kvPair
	if m == nil {
		return out
	}
	for it := m.IterWithFlags(nil, nil); it.Valid(); it.Next() {
		if !it.HasValue() {
			continue
		}
		out = append(out, kvPair{append([]byte{}, it.Key()...), append([]byte{}, it.Value()...)})
	}
	return out
}

func (e *env) applyRemote(ms []kvPair) {
	e.mu.Lock()
	for _, m := range ms {
		e.remote[string(m.k)] = m.v
	}
	e.mu.Unlock()
}

// bufferBatchGetter of the bare world: like the store's buffer tier, a delete record comes back as an entry whose value
// protobuf turned into nil.
func (e *env) bareGetter(_ context.Context, keys [][]byte) (map[string]kv.ValueEntry, error) {
	e.mu.Lock()
	defer e.mu.Unlock()
	m := map[string]kv.ValueEntry{}
	for _, k := range keys {
		if v, ok := e.remote[string(k)]; ok {
			if len(v) == 0 {
				m[string(k)] = kv.NewValueEntry(nil, 0)
			} else {
				m[string(k)] = kv.NewValueEntry(append([]byte{}, v...), 0)
			}
		}
	}
	return m, nil
}

func (e *env) bareFlush(gen uint64, m *unionstore.MemDB) error {
	n := atomic.AddInt32(&e.inflight, 1)
	e.mu.Lock()
	if n > e.maxInflight {
		e.maxInflight = n
	}
	ms := dump(m)
	e.calls = append(e.calls, call{gen, ms})
	e.mu.Unlock()
	e.entered <- struct{}{}
	c := <-e.release
	if c.ok {
		e.applyRemote(ms)
	} else {
		n := c.applied
		if n > len(ms) {
			n = len(ms)
		}
		e.applyRemote(ms[:n])
	}
	atomic.AddInt32(&e.inflight, -1)
	if c.ok {
		return nil
	}
	if c.exist {
		return errors.WithStack(&tikverr.ErrKeyExist{AlreadyExist: &kvrpcpb.AlreadyExist{Key: c.existKey}})
	}
	return fmt.Errorf("scripted flush failure")
}

// errOut renders the error returned by Flush / FlushWait: the kinds the code distinguishes
func errOut(err error) string {
	var ke *tikverr.ErrKeyExist
	if stderrors.As(err, &ke) {
		v := "none"
		if ke.Value != nil {
			v = vx.Hex(ke.Value)
		}
		return "err exist " + vx.Hex(ke.GetKey()) + " " + v
	}
	return "err flush"
}

func setThresholds(minKeys, minSize, force int, f func()) {
	names := []string{"pipelinedMemDBMinFlushKeys", "pipelinedMemDBMinFlushSize", "pipelinedMemDBForceFlushSizeThreshold"}
	vals := []int{minKeys, minSize, force}
	for i, n := range names {
		if vals[i] >= 0 {
			if err := failpoint.Enable("tikvclient/"+n, fmt.Sprintf("return(%d)", vals[i])); err != nil {
				panic(err)
			}
		}
	}
	f()
	for i, n := range names {
		if vals[i] >= 0 {
			failpoint.Disable("tikvclient/" + n)
		}
	}
}

func newEnv(mode string, minKeys, minSize, force int, splits [][]byte, committed []kvPair) *env {
	e := &env{mode: mode, remote: map[string][]byte{}, cur: map[string][]byte{}, pending: map[string][]byte{},
		entered: make(chan struct{}, 4), release: make(chan completion, 1), rpcs: make(chan *pendingRPC, 256),
		lockKeys: map[string]bool{}, rpcMuts: map[uint64]map[string][]byte{}, deadGens: map[uint64]bool{}}
	if mode == "bare" {
		setThresholds(minKeys, minSize, force, func() {
			e.p = unionstore.NewPipelinedMemDB(e.bareGetter, e.bareFlush)
		})
		return e
	}
	client, cluster, pdClient, err := testutils.NewMockTiKV("", nil)
	if err != nil {
		panic(err)
	}
	if len(splits) == 0 {
		testutils.BootstrapWithSingleStore(cluster)
	} else {
		testutils.BootstrapWithMultiRegions(cluster, splits...)
	}
	store, err := tikv.NewTestTiKVStore(client, pdClient, func(c tikv.Client) tikv.Client { return &hijack{Client: c, e: e} }, nil, 0)
	if err != nil {
		panic(err)
	}
	e.store, e.cluster = store, cluster
	// committed data the transaction's snapshot sees: one ordinary transaction per key (a primary only: committed
	// synchronously), before the pipelined transaction takes its start ts
	for _, c := range committed {
		t, err := store.Begin()
		if err != nil {
			panic(err)
		}
		if err = t.Set(c.k, c.v); err != nil {
			panic(err)
		}
		if err = t.Commit(context.Background()); err != nil {
			panic(err)
		}
	}
	setThresholds(minKeys, minSize, force, func() {
		e.txn, err = store.Begin(tikv.WithPipelinedTxn(4, 2, 0))
	})
	if err != nil {
		panic(err)
	}
	e.p = e.txn.GetMemBuffer().(*unionstore.PipelinedMemDB)
	e.mu.Lock()
	e.txnTS = e.txn.StartTS()
	e.mu.Unlock()
	return e
}

// regionErrorFor asks the mock store what it thinks of the request's region context and keys (stale epoch after a split,
// key outside the region, …) by sending it a plain BatchGet with the same context; only the region error is used.
func (h *hijack) regionErrorFor(ctx context.Context, addr string, req *tikvrpc.Request, keys [][]byte, version uint64, timeout time.Duration) *errorpb.Error {
	probe := tikvrpc.NewRequest(tikvrpc.CmdBatchGet, &kvrpcpb.BatchGetRequest{Keys: keys, Version: version}, *proto.Clone(&req.Context).(*kvrpcpb.Context))
	resp, err := h.Client.SendRequest(ctx, addr, probe, timeout)
	if err != nil || resp == nil {
		return nil
	}
	re, _ := resp.GetRegionError()
	return re
}

// ---------------------------------------------------------------------------------------------- RPC hijack (txn world)

type hijack struct {
	tikv.Client
	e *env
}

func (h *hijack) SendRequestAsync(ctx context.Context, addr string, req *tikvrpc.Request, cb async.Callback[*tikvrpc.Response]) {
	go func() { cb.Schedule(h.SendRequest(ctx, addr, req, 0)) }()
}

func (h *hijack) SendRequest(ctx context.Context, addr string, req *tikvrpc.Request, timeout time.Duration) (*tikvrpc.Response, error) {
	e := h.e
	switch req.Type {
	case tikvrpc.CmdFlush:
		fr := req.Flush()
		conflict := func() (*tikvrpc.Response, error) {
			return &tikvrpc.Response{Resp: &kvrpcpb.FlushResponse{Errors: []*kvrpcpb.KeyError{{
				Conflict: &kvrpcpb.WriteConflict{StartTs: fr.StartTs, ConflictTs: fr.StartTs + 1, ConflictCommitTs: fr.StartTs + 2, Key: fr.Mutations[0].Key},
			}}}}, nil
		}
		// a batch of a flush that has already failed (the batch executor does not wait for the other batches after the
		// first error): the request is late, fail it without counting it
		e.mu.Lock()
		late := e.deadGens[fr.Generation]
		e.mu.Unlock()
		if late {
			return conflict()
		}
		n := atomic.AddInt32(&e.inflight, 1)
		e.mu.Lock()
		if n > e.maxInflight {
			e.maxInflight = n
		}
		g := e.rpcMuts[fr.Generation]
		if g == nil {
			g = map[string][]byte{}
			e.rpcMuts[fr.Generation] = g
		}
		for _, m := range fr.Mutations {
			g[string(m.Key)] = m.Value
		}
		e.mu.Unlock()
		var c completion
		if a := e.auto.Load(); a != nil {
			c = *a
		} else {
			p := &pendingRPC{req: fr, reply: make(chan completion, 1)}
			e.rpcs <- p
			select {
			case c = <-p.reply:
			case <-ctx.Done():
				atomic.AddInt32(&e.inflight, -1)
				return nil, ctx.Err()
			}
		}
		atomic.AddInt32(&e.inflight, -1)
		if c.stale {
			return conflict()
		}
		if !c.ok {
			e.mu.Lock()
			e.unreportedFromRPC()
			e.mu.Unlock()
			if c.exist {
				return &tikvrpc.Response{Resp: &kvrpcpb.FlushResponse{Errors: []*kvrpcpb.KeyError{{
					AlreadyExist: &kvrpcpb.AlreadyExist{Key: c.existKey},
				}}}}, nil
			}
			return &tikvrpc.Response{Resp: &kvrpcpb.FlushResponse{Errors: []*kvrpcpb.KeyError{{
				Conflict: &kvrpcpb.WriteConflict{StartTs: fr.StartTs, ConflictTs: fr.StartTs + 1, ConflictCommitTs: fr.StartTs + 2, Key: fr.Mutations[0].Key},
			}}}}, nil
		}
		ms := make([]kvPair, 0, len(fr.Mutations))
		for _, m := range fr.Mutations {
			ms = append(ms, kvPair{m.Key, m.Value})
		}
		e.applyRemote(ms)
		return &tikvrpc.Response{Resp: &kvrpcpb.FlushResponse{}}, nil
	case tikvrpc.CmdGet, tikvrpc.CmdBatchGet:
		// the harness reads through the pipelined buffer only: a plain snapshot read at the transaction's start ts is a
		// buffer read that lost its tier on the way.  The mock answers it from committed data only.
		var ver uint64
		if req.Type == tikvrpc.CmdGet {
			ver = req.Get().Version
		} else {
			ver = req.BatchGet().Version
		}
		e.mu.Lock()
		if e.txnTS != 0 && ver == e.txnTS {
			e.snapReads = append(e.snapReads, req.Type.String())
		}
		e.mu.Unlock()
		return h.Client.SendRequest(ctx, addr, req, timeout)
	case tikvrpc.CmdBufferBatchGet:
		br := req.BufferBatchGet()
		e.mu.Lock()
		e.bufReads++
		armed := ""
		if len(e.bufErrs) > 0 {
			armed, e.bufErrs = e.bufErrs[0], e.bufErrs[1:]
		}
		e.mu.Unlock()
		switch armed {
		case "notleader":
			atomic.AddInt64(&bufNotLeader, 1)
			meta, leader := e.cluster.GetRegion(req.Context.GetRegionId())
			nl := &errorpb.NotLeader{RegionId: req.Context.GetRegionId()}
			if meta != nil {
				for _, p := range meta.Peers {
					if p.Id == leader {
						nl.Leader = p
					}
				}
			}
			return &tikvrpc.Response{Resp: &kvrpcpb.BufferBatchGetResponse{RegionError: &errorpb.Error{Message: "scripted", NotLeader: nl}}}, nil
		case "busy":
			atomic.AddInt64(&bufBusy, 1)
			return &tikvrpc.Response{Resp: &kvrpcpb.BufferBatchGetResponse{RegionError: &errorpb.Error{Message: "scripted", ServerIsBusy: &errorpb.ServerIsBusy{Reason: "scripted"}}}}, nil
		}
		if re := h.regionErrorFor(ctx, addr, req, br.Keys, br.Version, timeout); re != nil {
			if re.GetEpochNotMatch() != nil {
				atomic.AddInt64(&bufEpoch, 1)
			} else {
				atomic.AddInt64(&bufOtherRegionErr, 1)
			}
			return &tikvrpc.Response{Resp: &kvrpcpb.BufferBatchGetResponse{RegionError: re}}, nil
		}
		atomic.AddInt64(&bufOK, 1)
		resp := &kvrpcpb.BufferBatchGetResponse{}
		e.mu.Lock()
		for _, k := range br.Keys {
			if v, ok := e.remote[string(k)]; ok {
				p := &kvrpcpb.KvPair{Key: k}
				if len(v) > 0 {
					p.Value = append([]byte{}, v...)
				}
				resp.Pairs = append(resp.Pairs, p)
			}
		}
		e.mu.Unlock()
		return &tikvrpc.Response{Resp: resp}, nil
	case tikvrpc.CmdCommit:
		e.mu.Lock()
		if e.txnTS == 0 || req.Commit().StartVersion != e.txnTS {
			// not the pipelined transaction (the committed data is being loaded): the mock commits it
			e.mu.Unlock()
			return h.Client.SendRequest(ctx, addr, req, timeout)
		}
		defer e.mu.Unlock()
		sc := e.commitScript
		if sc == "" {
			sc = "o"
		}
		i := e.commitAttempts
		if i >= len(sc) {
			i = len(sc) - 1
		}
		e.commitAttempts++
		act := sc[i]
		if e.commitAttempts == 1 {
			e.commitKeys = append(e.commitKeys, req.Commit().Keys...)
		}
		switch act {
		case 'x':
			e.primaryCommitted = true
			e.lastAttemptLost = true
			return nil, errors.New("scripted: commit executed, answer lost")
		case 'n':
			e.lastAttemptLost = true
			return nil, errors.New("scripted: commit request lost")
		case 'k':
			e.lastAttemptLost = false
			if e.primaryCommitted {
				return &tikvrpc.Response{Resp: &kvrpcpb.CommitResponse{}}, nil
			}
			return &tikvrpc.Response{Resp: &kvrpcpb.CommitResponse{Error: &kvrpcpb.KeyError{Abort: "scripted abort"}}}, nil
		}
		e.lastAttemptLost = false
		e.primaryCommitted = true
		return &tikvrpc.Response{Resp: &kvrpcpb.CommitResponse{}}, nil
	case tikvrpc.CmdTxnHeartBeat:
		return &tikvrpc.Response{Resp: &kvrpcpb.TxnHeartBeatResponse{LockTtl: req.TxnHeartBeat().AdviseLockTtl}}, nil
	case tikvrpc.CmdBroadcastTxnStatus:
		return &tikvrpc.Response{Resp: &kvrpcpb.BroadcastTxnStatusResponse{}}, nil
	case tikvrpc.CmdResolveLock:
		rl := req.ResolveLock()
		e.mu.Lock()
		if k := e.armedSplit; k != nil {
			if meta, _ := e.cluster.GetRegion(req.Context.GetRegionId()); meta != nil {
				mk := mocktikv.NewMvccKey(k)
				in := bytes.Compare(meta.StartKey, mk) < 0 && (len(meta.EndKey) == 0 || bytes.Compare(mk, meta.EndKey) < 0)
				if in {
					e.armedSplit = nil
					ids := e.cluster.AllocIDs(1 + len(meta.Peers))
					e.cluster.Split(meta.Id, ids[0], k, ids[1:], ids[1])
				}
			}
		}
		e.mu.Unlock()
		resp, err := h.Client.SendRequest(ctx, addr, req, timeout)
		if err == nil && resp != nil {
			if re, _ := resp.GetRegionError(); re == nil {
				e.mu.Lock()
				e.resolves = append(e.resolves, resolveRec{req.Context.GetRegionId(), rl.StartVersion, rl.CommitVersion})
				e.mu.Unlock()
			}
		}
		return resp, err
	}
	return h.Client.SendRequest(ctx, addr, req, timeout)
}

// called with e.mu held
func (e *env) unreportedFromRPC() { e.unreported = true }

// ---------------------------------------------------------------------------------------------- flush control

// guarded runs f with a watchdog; a call that never returns is a deadlock of the code under test
func (e *env) guarded(f func()) bool {
	done := make(chan struct{})
	var pv any
	go func() {
		defer func() {
			pv = recover()
			close(done)
		}()
		f()
	}()
	select {
	case <-done:
		if pv != nil {
			panic(pv)
		}
		return true
	case <-time.After(watchdog):
		e.dead = true
		return false
	}
}

func (e *env) waitNotFlushing() bool {
	dl := time.Now().Add(watchdog)
	for e.p.OnFlushing() {
		if time.Now().After(dl) {
			e.dead = true
			return false
		}
		time.Sleep(10 * time.Microsecond)
	}
	return true
}

// after Flush returned true: wait until the flush function has been entered (bare) / sent its first request or returned (txn)
func (e *env) waitStarted() (rpc bool, ok bool) {
	if e.mode == "bare" {
		select {
		case <-e.entered:
			e.running = true
			return false, true
		case <-time.After(watchdog):
			e.dead = true
			return false, false
		}
	}
	dl := time.Now().Add(watchdog)
	take := func() bool {
		for {
			select {
			case r := <-e.rpcs:
				e.mu.Lock()
				late := e.deadGens[r.req.Generation]
				e.mu.Unlock()
				if late {
					r.reply <- completion{stale: true}
					continue
				}
				e.held = append(e.held, r)
				e.running = true
				return true
			default:
				return false
			}
		}
	}
	for {
		if take() {
			return true, true
		}
		if !e.p.OnFlushing() {
			if take() {
				return true, true
			}
			e.running = false
			return false, true
		}
		if time.Now().After(dl) {
			e.dead = true
			return false, false
		}
		time.Sleep(10 * time.Microsecond)
	}
}

// make the running flush function return with completion c, and wait until the goroutine has published the result
func (e *env) releaseFlush(c completion) bool {
	if !e.running {
		return true
	}
	e.running = false
	if e.mode == "bare" {
		if !c.ok {
			e.unreported = true
		}
		e.release <- c
		return e.waitNotFlushing()
	}
	gen := e.p.VerifGeneration()
	for _, r := range e.held {
		r.reply <- c
	}
	e.held = nil
	dl := time.Now().Add(watchdog)
	for e.p.OnFlushing() {
		select {
		case r := <-e.rpcs:
			r.reply <- c
		default:
			time.Sleep(10 * time.Microsecond)
		}
		if time.Now().After(dl) {
			e.dead = true
			return false
		}
	}
	if !c.ok {
		// the flush function has returned its error; requests of its other batches may still arrive
		e.mu.Lock()
		e.deadGens[gen] = true
		e.mu.Unlock()
	}
	return true
}

func (e *env) noteFlushErr() {
	e.mu.Lock()
	e.failed = true
	e.unreported = false
	e.mu.Unlock()
}

func (e *env) isUnreported() bool {
	e.mu.Lock()
	defer e.mu.Unlock()
	return e.unreported
}

// the part of `flush` shared with commit: returns "false" | "err staging" | "err flush" | "true <gen> <muts>[ rpc]"
func (e *env) doFlush(force bool, late completion) string {
	will := (force || e.p.VerifNeedFlush()) && e.p.VerifHasFlushing() && !e.p.VerifIsStaging()
	if will && e.running {
		if !e.releaseFlush(late) {
			return "panic deadlock"
		}
	}
	var ok bool
	var err error
	if !e.guarded(func() { ok, err = e.p.Flush(force) }) {
		return "panic deadlock"
	}
	if err != nil {
		if strings.Contains(err.Error(), "stages unreleased") {
			return "err staging"
		}
		e.noteFlushErr()
		return errOut(err)
	}
	if !ok {
		return "false"
	}
	// property: a failed flush is reported — Flush must not start the next flush over a failure nobody was told about
	swallowed := e.isUnreported()
	out := e.afterTriggered()
	if swallowed && !strings.HasPrefix(out, "panic") {
		return "FAIL flush-error-swallowed"
	}
	return out
}

func (e *env) afterTriggered() string {
	e.expected = append(e.expected, e.pending)
	e.pending = map[string][]byte{}
	rpc, ok := e.waitStarted()
	if !ok {
		return "panic deadlock"
	}
	if e.mode == "bare" {
		e.mu.Lock()
		c := e.calls[len(e.calls)-1]
		e.mu.Unlock()
		return fmt.Sprintf("true %d %s", c.gen, hexPairs(c.muts))
	}
	gen := e.p.VerifGeneration()
	ms := dump(e.p.VerifFlushing())
	out := fmt.Sprintf("true %d %s", gen, hexPairs(ms))
	if rpc {
		for _, m := range ms {
			e.lockKeys[string(m.k)] = true
		}
		out += " rpc"
	}
	return out
}

func (e *env) doFlushWait(late completion) string {
	if e.running {
		if !e.releaseFlush(late) {
			return "panic deadlock"
		}
	}
	var err error
	had := e.p.VerifHasFlushing()
	if !e.guarded(func() { err = e.p.FlushWait() }) {
		return "panic deadlock"
	}
	if err != nil {
		e.noteFlushErr()
		return errOut(err)
	}
	// property: a failed flush is reported — FlushWait must not return nil over a failure nobody was told about
	if had && e.isUnreported() {
		return "FAIL flush-error-swallowed"
	}
	return "ok"
}

// ---------------------------------------------------------------------------------------------- ops

func parseCompletion(r, a string) (completion, bool) {
	n, err := strconv.Atoi(a)
	if err != nil || n < 0 {
		return completion{}, false
	}
	if strings.HasPrefix(r, "exist:") {
		k, ok := vx.UnHex(r[6:])
		return completion{ok: false, applied: n, exist: true, existKey: k}, ok
	}
	if r != "ok" && r != "err" {
		return completion{}, false
	}
	return completion{ok: r == "ok", applied: n}, true
}

func eqVal(a []byte, aok bool, b []byte, bok bool) bool {
	return aok == bok && (!aok || bytes.Equal(a, b))
}

func optHex(v []byte, ok bool) string {
	if !ok {
		return "none"
	}
	return vx.Hex(v)
}

func (e *env) get(k []byte) ([]byte, bool, error) {
	v, err := e.p.Get(context.Background(), k)
	if err != nil {
		if tikverr.IsErrNotFound(err) {
			return nil, false, nil
		}
		return nil, false, err
	}
	return v.Value, true, nil
}

func (e *env) regionRange(id uint64) (lo, hi []byte, ok bool) {
	meta, _ := e.cluster.GetRegion(id)
	if meta == nil {
		return nil, nil, false
	}
	dec := func(b []byte) []byte {
		if len(b) == 0 {
			return nil
		}
		_, raw, err := codec.DecodeBytes(b, nil)
		if err != nil {
			return b
		}
		return raw
	}
	return dec(meta.StartKey), dec(meta.EndKey), true
}

// after Commit/Rollback returned: wait for the asynchronous resolveFlushedLocks and describe what it did
func (e *env) describeResolve(commit bool) string {
	ts := e.txn.StartTS()
	l := logOf(ts)
	select {
	case <-l.done:
	case <-time.After(watchdog):
		return "FAIL resolve-not-finished"
	}
	l.mu.Lock()
	rs, re, have := l.start, l.end, l.haveRange
	l.mu.Unlock()
	if !have {
		rs, re = "?", "?"
	}
	if rs == "" {
		rs = "-"
	}
	if re == "" {
		re = "-"
	}
	e.mu.Lock()
	recs := append([]resolveRec{}, e.resolves...)
	cks := append([][]byte{}, e.commitKeys...)
	e.mu.Unlock()
	res := &resolved{commit: commit, regions: map[uint64]bool{}}
	type rr struct{ lo, hi []byte }
	var regs []rr
	for _, r := range recs {
		if r.startVer != ts || (commit && r.cmt == 0) || (!commit && r.cmt != 0) {
			return "FAIL resolve-version"
		}
		if res.regions[r.region] {
			continue
		}
		res.regions[r.region] = true
		lo, hi, ok := e.regionRange(r.region)
		if !ok {
			return "FAIL resolve-unknown-region"
		}
		regs = append(regs, rr{lo, hi})
	}
	sort.Slice(regs, func(i, j int) bool { return bytes.Compare(regs[i].lo, regs[j].lo) < 0 })
	var sb strings.Builder
	for i, r := range regs {
		if i > 0 {
			sb.WriteByte(',')
		}
		h := "inf"
		if len(r.hi) > 0 {
			h = vx.Hex(r.hi)
		}
		sb.WriteString(vx.Hex(r.lo) + ":" + h)
	}
	regions := sb.String()
	if regions == "" {
		regions = "-"
	}
	e.resolved = res
	res.rangeEnd = re
	out := fmt.Sprintf("ok range %s %s regions %s", rs, re, regions)
	if commit {
		if len(cks) != 1 {
			return "FAIL commit-keys"
		}
		res.primary = cks[0]
		out += " primary " + vx.Hex(cks[0])
	}
	return out
}

func classify(err error) string {
	switch {
	case err == nil:
		return "nil"
	case tikverr.IsErrorUndetermined(err):
		return "undetermined"
	}
	return "other"
}

// the property at the commit point: the caller must not be told a definite failure for a committed transaction, nor
// success for one that is not committed
func (e *env) chkAnswer() string {
	e.mu.Lock()
	defer e.mu.Unlock()
	switch {
	case e.commitAnswer == "other" && e.primaryCommitted:
		return "FAIL answer-contradicts-outcome"
	case e.commitAnswer == "nil" && !e.primaryCommitted:
		return "FAIL answer-nil-not-committed"
	}
	return "ok"
}

func (e *env) commit(l1, l2 completion, script string) (opName string, out string) {
	if e.mode == "bare" {
		r := e.doFlush(true, l1)
		switch {
		case strings.HasPrefix(r, "true"):
			w := e.doFlushWait(l2)
			if w == "ok" {
				if e.isUnreported() {
					return "commit", "FAIL lost-flush-error"
				}
				return "commit", "ok"
			}
			if strings.HasPrefix(w, "err ") {
				return "commit", "err wait"
			}
			return "commit", w
		default:
			if strings.HasPrefix(r, "err exist") {
				r = "err flush"
			}
			return "commit", r
		}
	}
	if e.over {
		return "commit", "bad-op"
	}
	if !e.p.Dirty() {
		e.over = true
		if err := e.txn.Commit(context.Background()); err != nil {
			return "commit-clean", "err"
		}
		return "commit-clean", "ok"
	}
	staging := e.p.VerifIsStaging()
	if e.p.VerifHasFlushing() && !staging && e.running {
		if !e.releaseFlush(l1) {
			return "commit", "panic deadlock"
		}
	}
	e.auto.Store(&l2)
	e.mu.Lock()
	e.commitScript = script
	e.mu.Unlock()
	genBefore := e.p.VerifGeneration()
	pendingBefore := e.pending
	var err error
	e.over = true
	if !e.guarded(func() { err = e.txn.Commit(context.Background()) }) {
		return "commit", "panic deadlock"
	}
	e.auto.Store(nil)
	e.mu.Lock()
	e.commitAnswer = classify(err)
	attempts, lastLost := e.commitAttempts, e.lastAttemptLost
	e.mu.Unlock()
	if os.Getenv("VERIF_C16_DEBUG") != "" && err != nil {
		fmt.Fprintf(os.Stderr, "Commit returned: %v (class %s, attempts %d)\n", err, classify(err), attempts)
	}
	started := e.p.VerifGeneration() != genBefore
	if started {
		e.expected = append(e.expected, pendingBefore)
		e.pending = map[string][]byte{}
		if g := e.rpcMuts[e.p.VerifGeneration()]; g != nil {
			for k := range g {
				e.lockKeys[k] = true
			}
		}
	}
	if err != nil && attempts > 0 {
		// the error comes from the commit point
		if undet := classify(err) == "undetermined"; undet || lastLost {
			label := "err commit lost"
			if undet {
				label = "err commit undetermined"
			}
			// the undetermined flag is set: execute() must not clean up; give a wrongly started cleanup a moment to show
			l := logOf(e.txn.StartTS())
			select {
			case <-l.done:
				r := e.describeResolve(false)
				if strings.HasPrefix(r, "ok ") {
					r = r[3:]
				}
				return "commit", label + " cleanup " + r
			case <-time.After(100 * time.Millisecond):
			}
			return "commit", label
		}
		kind := "err commit keyerr"
		if ps, pe, _ := e.txn.VerifPipelinedRange(); len(ps) != 0 && len(pe) != 0 {
			r := e.describeResolve(false)
			if !strings.HasPrefix(r, "ok ") {
				return "commit", r
			}
			kind += " cleanup " + r[3:]
		}
		return "commit", kind
	}
	if err != nil {
		msg := err.Error()
		kind := ""
		switch {
		case strings.Contains(msg, "stages unreleased"):
			kind = "err staging"
		case strings.Contains(msg, "unexpected empty pipelinedStart"):
			return "commit", "err empty-range"
		case !started:
			e.noteFlushErr()
			kind = "err flush"
		default:
			e.noteFlushErr()
			kind = "err wait"
		}
		// the commit did not happen: execute()'s deferred cleanup rolls the flushed locks back (asynchronously)
		if ps, pe, _ := e.txn.VerifPipelinedRange(); len(ps) != 0 && len(pe) != 0 {
			r := e.describeResolve(false)
			if !strings.HasPrefix(r, "ok ") {
				return "commit", r
			}
			kind += " cleanup " + r[3:]
		}
		return "commit", kind
	}
	if e.isUnreported() {
		return "commit", "FAIL lost-flush-error"
	}
	return "commit", e.describeResolve(true)
}

func (e *env) rollback(l completion) string {
	if e.mode != "txn" || e.over {
		return "bad-op"
	}
	if e.running {
		if !e.releaseFlush(l) {
			return "panic deadlock"
		}
	}
	e.over = true
	var err error
	if !e.guarded(func() { err = e.txn.Rollback() }) {
		return "panic deadlock"
	}
	if err != nil {
		return "err"
	}
	e.mu.Lock()
	e.unreported = false
	e.mu.Unlock()
	s, en, _ := e.txn.VerifPipelinedRange()
	if len(s) == 0 || len(en) == 0 {
		e.resolved = &resolved{regions: map[uint64]bool{}}
		return "ok norange"
	}
	return e.describeResolve(false)
}

// every key sent to the store in a Flush request lies in [pipelinedStart, pipelinedEnd) as the real committer holds them
func (e *env) chkRange() string {
	if e.mode != "txn" {
		return "ok"
	}
	ps, pe, _ := e.txn.VerifPipelinedRange()
	var bad []string
	for k := range e.lockKeys {
		if !(bytes.Compare(ps, []byte(k)) <= 0 && bytes.Compare([]byte(k), pe) < 0) {
			bad = append(bad, vx.Hex([]byte(k)))
		}
	}
	if len(bad) == 0 {
		return "ok"
	}
	sort.Strings(bad)
	return fmt.Sprintf("FAIL outside-range %s %s %s", vx.Hex(ps), vx.Hex(pe), strings.Join(bad, ","))
}

func (e *env) chkCovered() string {
	if e.resolved == nil {
		return "ok"
	}
	var bad [][]byte
	for k := range e.lockKeys {
		if e.resolved.commit && bytes.Equal([]byte(k), e.resolved.primary) {
			continue
		}
		meta, _, _, _ := e.cluster.GetRegionByKey(mocktikv.NewMvccKey([]byte(k)))
		if meta == nil || !e.resolved.regions[meta.Id] {
			bad = append(bad, []byte(k))
		}
	}
	if len(bad) == 0 {
		return "ok"
	}
	sort.Slice(bad, func(i, j int) bool { return bytes.Compare(bad[i], bad[j]) < 0 })
	hs := make([]string, len(bad))
	for i, b := range bad {
		hs[i] = vx.Hex(b)
	}
	if len(hs) == 1 && hs[0] == e.resolved.rangeEnd {
		// the one failure the range logic is suspected of (DESIGN S7): exactly the range end key is left out
		return "FAIL unresolved-range-end " + hs[0]
	}
	return "FAIL unresolved " + strings.Join(hs, ",")
}

func (e *env) chkFlush() string {
	e.mu.Lock()
	defer e.mu.Unlock()
	if e.maxInflight > 1 && e.mode == "bare" {
		return "FAIL two-in-flight"
	}
	if e.mode == "bare" {
		if len(e.calls) != len(e.expected) {
			return "FAIL flush-count"
		}
		for i, c := range e.calls {
			if c.gen != uint64(i+1) {
				return "FAIL generations"
			}
			if hexPairs(c.muts) != hexPairs(sortedPairs(e.expected[i])) {
				return "FAIL flush-content"
			}
		}
		return "ok"
	}
	// txn world: what reached the store in Flush requests, per generation
	if uint64(len(e.expected)) != e.p.VerifGeneration() {
		return "FAIL flush-count"
	}
	for g, ms := range e.rpcMuts {
		if g == 0 || g > uint64(len(e.expected)) {
			return "FAIL generations"
		}
		want := e.expected[g-1]
		for k, v := range ms {
			w, ok := want[k]
			if !ok || !bytes.Equal(w, v) {
				return "FAIL flush-content"
			}
		}
	}
	return "ok"
}

var cur *env

// how the BufferBatchGet requests were answered (evidence: every retry path of batchGetSingleRegion is taken)
var bufOK, bufEpoch, bufOtherRegionErr, bufNotLeader, bufBusy int64

func exec(op string) (string, string) {
	w := strings.Fields(op)
	if len(w) == 0 {
		return op, "bad-op"
	}
	if (w[0] == "commit" || w[0] == "commit-clean") && len(w) == 6 {
		w = append(w, "o") // the primary Commit request is executed and answered
	}
	res := vx.Guard(func() string { return exec1(w) })
	return strings.Join(w, " "), res
}

func keysOf(ws []string) ([][]byte, bool) {
	var ks [][]byte
	for _, s := range ws {
		k, ok := vx.UnHex(s)
		if !ok {
			return nil, false
		}
		ks = append(ks, k)
	}
	return ks, true
}

func exec1(w []string) string {
	if w[0] == "reset" || w[0] == "reset-default" {
		var mk, ms, fs = -1, -1, -1
		var splits [][]byte
		var committed []kvPair
		mode := ""
		if w[0] == "reset" {
			if len(w) < 5 {
				return "bad-op"
			}
			mode = w[1]
			var err1, err2, err3 error
			mk, err1 = strconv.Atoi(w[2])
			ms, err2 = strconv.Atoi(w[3])
			fs, err3 = strconv.Atoi(w[4])
			var spTok []string
			for _, t := range w[5:] {
				if strings.HasPrefix(t, "c:") {
					// committed data: c:<key>=<value>
					kv := strings.SplitN(t[2:], "=", 2)
					if len(kv) != 2 {
						return "bad-op"
					}
					k, ok1 := vx.UnHex(kv[0])
					v, ok2 := vx.UnHex(kv[1])
					if !ok1 || !ok2 || len(v) == 0 {
						return "bad-op"
					}
					committed = append(committed, kvPair{k, v})
					continue
				}
				spTok = append(spTok, t)
			}
			sp, ok := keysOf(spTok)
			if err1 != nil || err2 != nil || err3 != nil || !ok {
				return "bad-op"
			}
			splits = sp
		} else {
			if len(w) != 2 {
				return "bad-op"
			}
			mode = w[1]
		}
		if mode != "bare" && mode != "txn" {
			return "bad-op"
		}
		if cur != nil && cur.running {
			// let the goroutine of the previous case end
			cur.releaseFlush(completion{ok: true})
		}
		cur = newEnv(mode, mk, ms, fs, splits, committed)
		return "ok"
	}
	e := cur
	if e == nil {
		return "bad-op"
	}
	if e.dead {
		return "panic deadlock"
	}
	if e.over && w[0] != "chk-covered" && w[0] != "chk-flush" && w[0] != "chk-range" && w[0] != "chk-answer" && w[0] != "chk-tier" {
		return "bad-op"
	}
	switch w[0] {
	case "set":
		if len(w) != 3 {
			return "bad-op"
		}
		k, ok1 := vx.UnHex(w[1])
		v, ok2 := vx.UnHex(w[2])
		if !ok1 || !ok2 {
			return "bad-op"
		}
		if err := e.p.Set(k, v); err != nil {
			if err == tikverr.ErrCannotSetNilValue {
				return "err nilvalue"
			}
			return "err other"
		}
		e.cur[string(k)] = v
		e.pending[string(k)] = v
		return "ok"
	case "del":
		if len(w) != 2 {
			return "bad-op"
		}
		k, ok := vx.UnHex(w[1])
		if !ok {
			return "bad-op"
		}
		if err := e.p.Delete(k); err != nil {
			return "err other"
		}
		e.cur[string(k)] = []byte{}
		e.pending[string(k)] = []byte{}
		return "ok"
	case "get":
		if len(w) != 2 {
			return "bad-op"
		}
		k, ok := vx.UnHex(w[1])
		if !ok {
			return "bad-op"
		}
		v, found, err := e.get(k)
		if err != nil {
			return "err other"
		}
		if !found {
			return "notfound"
		}
		return "ok " + vx.Hex(v)
	case "bget", "chk-bget":
		ks, ok := keysOf(w[1:])
		if !ok {
			return "bad-op"
		}
		m, err := e.p.BatchGet(context.Background(), ks)
		if err != nil {
			return "err other"
		}
		if w[0] == "bget" {
			mm := map[string][]byte{}
			for k, v := range m {
				mm[k] = v.Value
			}
			return "ok " + hexPairs(sortedPairs(mm))
		}
		if e.failed {
			return "ok"
		}
		for _, k := range ks {
			got, gok := m[string(k)]
			want, wok := e.cur[string(k)]
			if !eqVal(got.Value, gok, want, wok) {
				return fmt.Sprintf("FAIL bget %s got %s want %s", vx.Hex(k), optHex(got.Value, gok), optHex(want, wok))
			}
		}
		return "ok"
	case "chk-read":
		if len(w) != 2 {
			return "bad-op"
		}
		k, ok := vx.UnHex(w[1])
		if !ok {
			return "bad-op"
		}
		if e.failed {
			return "ok"
		}
		got, gok, err := e.get(k)
		if err != nil {
			return "FAIL read-error"
		}
		want, wok := e.cur[string(k)]
		if !eqVal(got, gok, want, wok) {
			return fmt.Sprintf("FAIL read %s got %s want %s", vx.Hex(k), optHex(got, gok), optHex(want, wok))
		}
		return "ok"
	case "flush":
		if len(w) != 5 || (w[1] != "0" && w[1] != "1") {
			return "bad-op"
		}
		late, ok := parseCompletion(w[3], w[4])
		if !ok {
			return "bad-op"
		}
		w[2] = strconv.FormatUint(e.p.VerifMutableMem(), 10) // Mem() is an input of the model: always the observed value
		return e.doFlush(w[1] == "1", late)
	case "flushdone":
		if len(w) != 3 {
			return "bad-op"
		}
		c, ok := parseCompletion(w[1], w[2])
		if !ok {
			return "bad-op"
		}
		if !e.running {
			return "noflush"
		}
		if !e.releaseFlush(c) {
			return "panic deadlock"
		}
		return "ok"
	case "flushwait":
		if len(w) != 3 {
			return "bad-op"
		}
		c, ok := parseCompletion(w[1], w[2])
		if !ok {
			return "bad-op"
		}
		return e.doFlushWait(c)
	case "stage":
		h := e.p.Staging()
		e.handles = append(e.handles, h)
		e.curSaved = append(e.curSaved, cloneMap(e.cur))
		e.pendSaved = append(e.pendSaved, cloneMap(e.pending))
		return "h " + strconv.Itoa(h)
	case "release":
		h := 0
		if n := len(e.handles); n > 0 {
			h = e.handles[n-1]
			e.handles = e.handles[:n-1]
			e.curSaved = e.curSaved[:n-1]
			e.pendSaved = e.pendSaved[:n-1]
		}
		e.p.Release(h)
		return "ok"
	case "cleanup":
		h := 0
		if n := len(e.handles); n > 0 {
			h = e.handles[n-1]
			e.handles = e.handles[:n-1]
			e.cur, e.curSaved = e.curSaved[n-1], e.curSaved[:n-1]
			e.pending, e.pendSaved = e.pendSaved[n-1], e.pendSaved[:n-1]
		}
		e.p.Cleanup(h)
		return "ok"
	case "commit", "commit-clean":
		if len(w) != 7 || w[6] == "" || strings.Trim(w[6], "xnko") != "" {
			return "bad-op"
		}
		l1, ok1 := parseCompletion(w[2], w[3])
		l2, ok2 := parseCompletion(w[4], w[5])
		if !ok1 || !ok2 {
			return "bad-op"
		}
		w[1] = strconv.FormatUint(e.p.VerifMutableMem(), 10)
		name, out := e.commit(l1, l2, w[6])
		w[0] = name
		// how many attempts the request sender makes is an input of the model: the op carries what happened to the
		// attempts that were made
		e.mu.Lock()
		if n := e.commitAttempts; n > 0 {
			sc := []byte{}
			for i := 0; i < n; i++ {
				j := i
				if j >= len(w[6]) {
					j = len(w[6]) - 1
				}
				sc = append(sc, w[6][j])
			}
			w[6] = string(sc)
		}
		e.mu.Unlock()
		return out
	case "rollback":
		if len(w) != 3 {
			return "bad-op"
		}
		l, ok := parseCompletion(w[1], w[2])
		if !ok {
			return "bad-op"
		}
		return e.rollback(l)
	case "chk-flush":
		return e.chkFlush()
	case "chk-covered":
		return e.chkCovered()
	case "chk-range":
		return e.chkRange()
	case "split":
		// split the region that holds the key at the key, in the mock cluster only: the client's region cache goes stale
		if len(w) != 2 {
			return "bad-op"
		}
		k, ok := vx.UnHex(w[1])
		if !ok || len(k) == 0 {
			return "bad-op"
		}
		if e.mode != "txn" {
			return "ok"
		}
		meta, leader, _, _ := e.cluster.GetRegionByKey(mocktikv.NewMvccKey(k))
		if meta == nil || leader == nil {
			return "bad-op"
		}
		if bytes.Equal(meta.StartKey, mocktikv.NewMvccKey(k)) {
			return "ok" // already a region border
		}
		ids := e.cluster.AllocIDs(1 + len(meta.Peers))
		e.cluster.Split(meta.Id, ids[0], k, ids[1:], ids[1])
		return "ok"
	case "splitonresolve":
		if len(w) != 2 {
			return "bad-op"
		}
		k, ok := vx.UnHex(w[1])
		if !ok || len(k) == 0 {
			return "bad-op"
		}
		if e.mode == "txn" {
			e.mu.Lock()
			e.armedSplit = k
			e.mu.Unlock()
		}
		return "ok"
	case "buferr":
		if len(w) != 2 || (w[1] != "notleader" && w[1] != "busy") {
			return "bad-op"
		}
		if e.mode == "txn" {
			e.mu.Lock()
			e.bufErrs = append(e.bufErrs, w[1])
			e.mu.Unlock()
		}
		return "ok"
	case "chk-tier":
		// every read of the harness goes through the pipelined buffer: none may reach the store as a snapshot read
		e.mu.Lock()
		defer e.mu.Unlock()
		if len(e.snapReads) > 0 {
			return fmt.Sprintf("FAIL tier-dropped %s x%d", e.snapReads[0], len(e.snapReads))
		}
		return "ok"
	case "chk-answer":
		if e.mode != "txn" {
			return "ok"
		}
		return e.chkAnswer()
	}
	return "bad-op"
}

// ---------------------------------------------------------------------------------------------- generation

var keyPool = [][]byte{{0x61}, {0x62}, {0x62, 0x00}, {0x63}, {0x6d}, {0x6d, 0x01}, {0x74}, {0x7a}, {0x7a, 0xff}}

type gen struct {
	r    *vx.Rand
	run  *vx.Run
	keys [][]byte
}

func (g *gen) key() string { return vx.Hex(g.keys[g.r.Intn(len(g.keys))]) }
func (g *gen) val() string {
	n := 1 + g.r.Intn(3)
	b := make([]byte, n)
	for i := range b {
		b[i] = byte(1 + g.r.Intn(255))
	}
	return vx.Hex(b)
}
func (g *gen) comp(errPct int) string {
	if g.r.Chance(errPct) {
		if g.r.Chance(45) {
			// a key of the case's key set: sometimes in the flushed batch, sometimes not
			return fmt.Sprintf("exist:%s %d", g.key(), g.r.Intn(4))
		}
		return fmt.Sprintf("err %d", g.r.Intn(4))
	}
	return "ok 0"
}
func (g *gen) do(op string) string {
	o, res := exec(op)
	g.run.Count(strings.Fields(o)[0])
	if strings.HasPrefix(res, "FAIL") {
		g.run.Count("FAIL")
	}
	g.run.Emit(o, res)
	return res
}

func (g *gen) pickKeys() {
	n := 3 + g.r.Intn(5)
	perm := make([]int, len(keyPool))
	for i := range perm {
		perm[i] = i
	}
	for i := len(perm) - 1; i > 0; i-- {
		j := g.r.Intn(i + 1)
		perm[i], perm[j] = perm[j], perm[i]
	}
	g.keys = nil
	for _, i := range perm[:n] {
		g.keys = append(g.keys, keyPool[i])
	}
}

func (g *gen) thresholds() string {
	switch g.r.Intn(7) {
	case 0:
		return "0 0 1000000000" // flush whenever nothing is in flight
	case 1:
		return "3 0 1000000000" // flush at >= 3 keys when nothing is in flight
	case 2:
		return "2 0 1" // always above the force threshold: Flush(false) waits for the running flush
	case 3:
		return fmt.Sprintf("%d %d %d", g.r.Intn(4), g.r.Intn(40000), 20000+g.r.Intn(60000))
	case 4:
		return fmt.Sprintf("%d %d %d", 1+g.r.Intn(3), g.r.Intn(3), g.r.Intn(3))
	case 5:
		return "4 1 1000000000"
	}
	return ""
}

func (g *gen) reset(mode string, splits string) {
	t := g.thresholds()
	if t == "" && splits == "" {
		g.do("reset-default " + mode)
		return
	}
	if t == "" {
		t = "10000 16777216 134217728"
	}
	g.do(strings.TrimSpace("reset " + mode + " " + t + " " + splits))
}

func (g *gen) bareCase(n int, nops int) {
	g.run.Comment(fmt.Sprintf("case %d bare", n))
	g.pickKeys()
	g.reset("bare", "")
	errPct := []int{0, 0, 10, 30}[g.r.Intn(4)]
	staging := g.r.Chance(40)
	depth := 0
	for i := 0; i < nops; i++ {
		x := g.r.Intn(100)
		switch {
		case x < 28:
			g.do("set " + g.key() + " " + g.val())
		case x < 36:
			g.do("del " + g.key())
		case x < 38:
			g.do("set " + g.key() + " -")
		case x < 46:
			g.do("get " + g.key())
		case x < 52:
			ks := []string{}
			for j := 0; j < 1+g.r.Intn(4); j++ {
				ks = append(ks, g.key())
			}
			if g.r.Bool() {
				g.do("bget " + strings.Join(ks, " "))
			} else {
				g.do("chk-bget " + strings.Join(ks, " "))
			}
		case x < 62:
			g.do("flush 0 0 " + g.comp(errPct))
		case x < 68:
			g.do("flush 1 0 " + g.comp(errPct))
		case x < 76:
			g.do("flushdone " + g.comp(errPct))
		case x < 79:
			g.do("flushwait " + g.comp(errPct))
		case x < 91:
			g.do("chk-read " + g.key())
		default:
			if !staging {
				g.do("chk-read " + g.key())
				continue
			}
			switch y := g.r.Intn(4); {
			case y == 0 && depth < 3:
				g.do("stage")
				depth++
			case y == 1:
				g.do("release")
				if depth > 0 {
					depth--
				}
			case y == 2:
				g.do("cleanup")
				if depth > 0 {
					depth--
				}
			default:
				g.do("chk-read " + g.key())
			}
		}
	}
	for depth > 0 {
		if g.r.Bool() {
			g.do("release")
		} else {
			g.do("cleanup")
		}
		depth--
	}
	for _, k := range g.keys {
		g.do("chk-read " + vx.Hex(k))
	}
	g.do("chk-flush")
	g.do("commit 0 " + g.comp(errPct) + " " + g.comp(errPct))
	g.do("chk-flush")
	for _, k := range g.keys {
		g.do("chk-read " + vx.Hex(k))
	}
}

func (g *gen) txnCase(n int) {
	g.run.Comment(fmt.Sprintf("case %d txn", n))
	g.pickKeys()
	// region layout: split keys taken from the key pool (so that flushed keys sit exactly on region starts) and between
	var sp []string
	cands := [][]byte{{0x61}, {0x62}, {0x62, 0x00}, {0x63}, {0x64}, {0x6d}, {0x6d, 0x01}, {0x70}, {0x74}, {0x7a}, {0x7a, 0xff}, {0x7b}}
	for _, c := range cands {
		if g.r.Chance(35) {
			sp = append(sp, vx.Hex(c))
		}
	}
	g.reset("txn", strings.Join(sp, " "))
	errPct := []int{0, 0, 0, 15}[g.r.Intn(4)]
	rounds := 1 + g.r.Intn(3)
	for r := 0; r < rounds; r++ {
		nw := 1 + g.r.Intn(4)
		if g.r.Chance(25) {
			nw = 1
		}
		for i := 0; i < nw; i++ {
			if g.r.Chance(80) {
				g.do("set " + g.key() + " " + g.val())
			} else {
				g.do("del " + g.key())
			}
		}
		if g.r.Chance(30) {
			g.do("chk-read " + g.key())
		}
		g.do(fmt.Sprintf("flush %d 0 %s", g.r.Intn(2), g.compTxn(errPct)))
		if g.r.Chance(50) {
			g.do("chk-bget " + g.key() + " " + g.key())
		}
		if g.r.Chance(70) {
			g.do("flushdone " + g.compTxn(errPct))
		}
		if g.r.Chance(50) {
			g.do("chk-read " + g.key())
		}
		if g.r.Chance(20) {
			g.do("flushwait " + g.compTxn(errPct))
		}
		g.do("chk-range")
	}
	for _, k := range g.keys {
		g.do("chk-read " + vx.Hex(k))
	}
	if g.r.Bool() {
		g.do("commit 0 " + g.compTxn(errPct) + " " + g.compTxn(errPct) + " " + g.commitScript())
	} else {
		g.do("rollback " + g.compTxn(errPct))
	}
	g.do("chk-answer")
	g.do("chk-flush")
	g.do("chk-covered")
}

// several flushes whose smallest keys ascend / descend / interleave, region borders between those keys, and the three
// ways a pipelined transaction ends: commit, rollback, failed commit (cleanup)
func (g *gen) txnRangeCase(n int) {
	g.run.Comment(fmt.Sprintf("case %d txnrange", n))
	ladder := [][]byte{{0x61}, {0x62}, {0x62, 0x00}, {0x63}, {0x64}, {0x6d}, {0x6d, 0x01}, {0x70}, {0x74}, {0x7a}, {0x7a, 0xff}, {0x7b}}
	nf := 2 + g.r.Intn(3)
	// the smallest key of each flush: nf distinct rungs, kept sorted first
	var mins []int
	used := map[int]bool{}
	for len(mins) < nf {
		i := g.r.Intn(len(ladder) - 1)
		if !used[i] {
			used[i] = true
			mins = append(mins, i)
		}
	}
	sort.Ints(mins)
	sorted := append([]int{}, mins...)
	switch g.r.Intn(3) {
	case 0: // ascending
	case 1: // descending
		for i, j := 0, len(mins)-1; i < j; i, j = i+1, j-1 {
			mins[i], mins[j] = mins[j], mins[i]
		}
	default: // interleaved
		for i := len(mins) - 1; i > 0; i-- {
			j := g.r.Intn(i + 1)
			mins[i], mins[j] = mins[j], mins[i]
		}
	}
	// region borders: between consecutive smallest keys (a rung above the lower one, up to the higher one), plus a few more
	spl := map[int]bool{}
	for i := 0; i+1 < len(sorted); i++ {
		if g.r.Chance(75) {
			lo, hi := sorted[i]+1, sorted[i+1]
			spl[lo+g.r.Intn(hi-lo+1)] = true
		}
	}
	for i := range ladder {
		if g.r.Chance(12) {
			spl[i] = true
		}
	}
	var sp []string
	for i := range ladder {
		if spl[i] {
			sp = append(sp, vx.Hex(ladder[i]))
		}
	}
	g.do(strings.TrimSpace("reset txn 10000 16777216 134217728 " + strings.Join(sp, " ")))
	g.keys = ladder
	for _, m := range mins {
		g.do("set " + vx.Hex(ladder[m]) + " " + g.val())
		for j := 0; j < g.r.Intn(3); j++ {
			k := m + 1 + g.r.Intn(len(ladder)-m-1)
			if g.r.Chance(80) {
				g.do("set " + vx.Hex(ladder[k]) + " " + g.val())
			} else {
				g.do("del " + vx.Hex(ladder[k]))
			}
		}
		g.do("flush 1 0 ok 0")
		if g.r.Chance(80) {
			g.do("flushdone ok 0")
		}
		g.do("chk-range")
	}
	if g.r.Chance(60) {
		// a region holding flushed keys shrinks after the range task was cut: a rung above the smallest flushed key
		lo := sorted[0]
		g.do("splitonresolve " + vx.Hex(ladder[lo+1+g.r.Intn(len(ladder)-lo-1)]))
	}
	switch g.r.Intn(3) {
	case 0:
		g.do("commit 0 ok 0 ok 0 " + g.commitScript())
	case 1:
		g.do("rollback ok 0")
	default:
		// failed commit: the commit-time flush is rejected, execute() cleans the flushed locks up
		g.do("set " + g.key() + " " + g.val())
		g.do("commit 0 ok 0 err 0")
	}
	g.do("chk-answer")
	g.do("chk-flush")
	g.do("chk-range")
	g.do("chk-covered")
}

// buffer reads after the region was split behind the client's back / with NotLeader and ServerIsBusy answers: the writes
// are fully flushed (store tier only), committed data lies under some of them, and the read must keep the buffer tier on
// every retry path of batchGetSingleRegion
func (g *gen) txnTierCase(n int) {
	g.run.Comment(fmt.Sprintf("case %d txntier", n))
	ladder := [][]byte{{0x61}, {0x62}, {0x62, 0x00}, {0x63}, {0x64}, {0x6d}, {0x6d, 0x01}, {0x70}, {0x74}, {0x7a}, {0x7a, 0xff}, {0x7b}}
	g.keys = ladder
	// a few initial region borders and committed values under about half of the keys
	var toks []string
	border := map[int]bool{}
	for i := range ladder {
		if g.r.Chance(15) {
			border[i] = true
			toks = append(toks, vx.Hex(ladder[i]))
		}
	}
	for i := range ladder {
		if g.r.Chance(50) {
			toks = append(toks, "c:"+vx.Hex(ladder[i])+"="+g.val())
		}
	}
	g.do(strings.TrimSpace("reset txn 10000 16777216 134217728 " + strings.Join(toks, " ")))
	rounds := 1 + g.r.Intn(2)
	for r := 0; r < rounds; r++ {
		// write (deletes of committed keys included) and flush completely
		var written []int
		for j := 0; j < 3+g.r.Intn(4); j++ {
			i := g.r.Intn(len(ladder))
			written = append(written, i)
			if g.r.Chance(65) {
				g.do("set " + vx.Hex(ladder[i]) + " " + g.val())
			} else {
				g.do("del " + vx.Hex(ladder[i]))
			}
		}
		g.do("flush 1 0 ok 0")
		g.do("flushdone ok 0")
		g.do("flushwait ok 0")
		sort.Ints(written)
		// a border between two flushed keys that share a region
		for t := 0; t < 1+g.r.Intn(2); t++ {
			a := written[g.r.Intn(len(written))]
			b := written[g.r.Intn(len(written))]
			if a > b {
				a, b = b, a
			}
			if a == b {
				continue
			}
			at := a + 1 + g.r.Intn(b-a)
			g.do("split " + vx.Hex(ladder[at]))
		}
		for t := 0; t < g.r.Intn(3); t++ {
			g.do("buferr " + []string{"notleader", "busy"}[g.r.Intn(2)])
		}
		var ks []string
		for _, i := range written {
			ks = append(ks, vx.Hex(ladder[i]))
		}
		if g.r.Chance(30) {
			ks = append(ks, g.key())
		}
		if g.r.Chance(25) {
			g.do("chk-read " + ks[g.r.Intn(len(ks))])
		}
		g.do("chk-bget " + strings.Join(ks, " "))
		g.do("chk-tier")
		for _, k := range ks {
			g.do("chk-read " + k)
		}
		if g.r.Chance(40) {
			g.do("buferr " + []string{"notleader", "busy"}[g.r.Intn(2)])
			g.do("chk-read " + g.key())
		}
		g.do("chk-tier")
	}
	if g.r.Chance(40) {
		g.do("splitonresolve " + vx.Hex(ladder[1+g.r.Intn(len(ladder)-1)]))
	}
	if g.r.Bool() {
		g.do("commit 0 ok 0 ok 0 o")
	} else {
		g.do("rollback ok 0")
	}
	g.do("chk-answer")
	g.do("chk-flush")
	g.do("chk-range")
	g.do("chk-covered")
	g.do("chk-tier")
}

// what happens to the Commit request(s) for the primary: mostly answered; sometimes executed with the answer lost, lost
// before execution, or refused with a definite key error (later entries matter only if the request sender retries)
func (g *gen) commitScript() string {
	if g.r.Chance(70) {
		return "o"
	}
	return []string{"x", "n", "k", "xo", "xx", "nk", "nn", "no", "xk"}[g.r.Intn(9)]
}

func (g *gen) compTxn(errPct int) string {
	if g.r.Chance(errPct) {
		if g.r.Chance(40) {
			return "exist:" + g.key() + " 0"
		}
		return "err 0"
	}
	return "ok 0"
}

func main() {
	run := vx.Start()
	defer run.Finish()
	defer func() {
		run.Stats["rpc:bufferbatchget:answered"] = int(atomic.LoadInt64(&bufOK))
		run.Stats["rpc:bufferbatchget:epoch-not-match"] = int(atomic.LoadInt64(&bufEpoch))
		run.Stats["rpc:bufferbatchget:other-region-error"] = int(atomic.LoadInt64(&bufOtherRegionErr))
		run.Stats["rpc:bufferbatchget:not-leader"] = int(atomic.LoadInt64(&bufNotLeader))
		run.Stats["rpc:bufferbatchget:server-is-busy"] = int(atomic.LoadInt64(&bufBusy))
	}()
	util.EnableFailpoints()
	// retries after a lost Commit answer back off without sleeping (the budget is still counted)
	if err := failpoint.Enable("tikvclient/fastBackoffBySkipSleep", "return"); err != nil {
		panic(err)
	}
	lg := zap.New(&capCore{})
	log.ReplaceGlobals(lg, &log.ZapProperties{Core: &capCore{}, Level: zap.NewAtomicLevelAt(zapcore.DebugLevel)})
	if run.Replay != "" {
		for _, l := range run.ReplayLines() {
			if strings.HasPrefix(l, "#") {
				run.Comment(strings.TrimSpace(l[1:]))
				continue
			}
			o, res := exec(l)
			run.Emit(o, res)
		}
		return
	}
	// Fork: vx.NewRand(seed).U64() streams of neighbouring seeds are the same stream shifted by one draw
	// (state = (seed+n)*golden + c), so the generator state is taken from the first output instead of the seed.
	g := &gen{r: vx.NewRand(run.Seed).Fork(), run: run}
	nBare, nOps, nTxn := 500, 45, 120
	if run.Thorough() {
		nBare, nOps, nTxn = 6000, 70, 1500
	}
	n := 0
	for i := 0; i < nBare; i++ {
		n++
		g.bareCase(n, nOps/2+g.r.Intn(nOps))
	}
	for i := 0; i < nTxn; i++ {
		n++
		switch i % 3 {
		case 0:
			g.txnCase(n)
		case 1:
			g.txnRangeCase(n)
		default:
			g.txnTierCase(n)
		}
	}
}
