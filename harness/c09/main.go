//go:build verif

// C09 harness: drives the REAL locate.RegionCache over mocktikv.Cluster + its mock PD client (through CodecPDClient)
// on op lines shared with the Lean model driver (cgv-c09).  Stateful: `reset` restores the initial state.
package main

import (
	"bytes"
	"context"
	"fmt"
	"os"
	"sort"
	"strconv"
	"strings"
	"time"

	"github.com/pingcap/kvproto/pkg/metapb"
	"github.com/pingcap/log"
	"github.com/tikv/client-go/v2/config"
	"github.com/tikv/client-go/v2/config/retry"
	"github.com/tikv/client-go/v2/internal/apicodec"
	"github.com/tikv/client-go/v2/internal/locate"
	"github.com/tikv/client-go/v2/internal/mockstore/mocktikv"
	"github.com/tikv/client-go/v2/kv"
	"github.com/tikv/client-go/v2/verifx/vx"
	pd "github.com/tikv/pd/client"
	"github.com/tikv/pd/client/clients/router"
	"github.com/tikv/pd/client/opt"
	"github.com/tikv/pd/client/pkg/caller"
	"go.uber.org/zap/zapcore"
)

const nStores = 5

// ---------------------------------------------------------------- PD side

// switchPD forwards to the mock PD client of the cluster that currently answers (live or a stale replay of a
// prefix of the topology history).  BatchScanRegions is answered from the cluster's own ScanRegions per range
// (the mock's BatchScanRegions skips a later range whose end is unbounded and miscounts the limit).
type switchPD struct {
	pd.Client
	cluster *mocktikv.Cluster
	calls   int // region queries answered (GetRegion, GetPrevRegion, GetRegionByID, ScanRegions, BatchScanRegions)
}

func (s *switchPD) GetRegion(ctx context.Context, key []byte, opts ...opt.GetRegionOption) (*router.Region, error) {
	s.calls++
	return s.Client.GetRegion(ctx, key, opts...)
}
func (s *switchPD) GetPrevRegion(ctx context.Context, key []byte, opts ...opt.GetRegionOption) (*router.Region, error) {
	s.calls++
	return s.Client.GetPrevRegion(ctx, key, opts...)
}
func (s *switchPD) GetRegionByID(ctx context.Context, id uint64, opts ...opt.GetRegionOption) (*router.Region, error) {
	s.calls++
	return s.Client.GetRegionByID(ctx, id, opts...)
}
func (s *switchPD) ScanRegions(ctx context.Context, a, b []byte, limit int, opts ...opt.GetRegionOption) ([]*router.Region, error) {
	s.calls++
	return s.Client.ScanRegions(ctx, a, b, limit, opts...)
}

func (s *switchPD) WithCallerComponent(caller.Component) pd.Client { return s }

func (s *switchPD) BatchScanRegions(ctx context.Context, ranges []router.KeyRange, limit int, opts ...opt.GetRegionOption) ([]*router.Region, error) {
	s.calls++
	var out []*router.Region
	for _, kr := range ranges {
		for _, r := range s.cluster.ScanRegions(kr.StartKey, kr.EndKey, 0, opts...) {
			if limit > 0 && len(out) >= limit {
				continue
			}
			if n := len(out); n > 0 && out[n-1].Meta.Id == r.Meta.Id {
				continue
			}
			out = append(out, r)
		}
	}
	return out, nil
}

type region struct {
	id, ver, conf uint64
	start, end    []byte
	leader        uint64
	peers         []uint64
}

func (r region) key() string { return fmtR(r.id, r.start, r.end, r.ver, r.conf) }

func fmtR(id uint64, start, end []byte, ver, conf uint64) string {
	return fmt.Sprintf("%d:%s:%s:%d:%d", id, vx.Hex(start), vx.Hex(end), ver, conf)
}

func contains(start, end, k []byte) bool {
	return bytes.Compare(start, k) <= 0 && (bytes.Compare(k, end) < 0 || len(end) == 0)
}
func containsByEnd(start, end, k []byte) bool {
	if len(k) == 0 {
		return len(end) == 0
	}
	return bytes.Compare(start, k) < 0 && (bytes.Compare(k, end) <= 0 || len(end) == 0)
}

func peerID(rid, store uint64) uint64 { return rid*16 + store }

func newCluster() *mocktikv.Cluster {
	c := mocktikv.NewCluster(nil)
	for s := uint64(1); s <= nStores; s++ {
		c.AddStore(s, fmt.Sprintf("store%d", s))
	}
	c.Bootstrap(1, []uint64{1, 2, 3}, []uint64{peerID(1, 1), peerID(1, 2), peerID(1, 3)}, peerID(1, 1))
	return c
}

func raw(enc []byte) []byte {
	if len(enc) == 0 {
		return nil
	}
	return mocktikv.MvccKey(enc).Raw()
}

func getRegion(c *mocktikv.Cluster, id uint64) (region, bool) {
	meta, leaderPeer := c.GetRegion(id)
	if meta == nil {
		return region{}, false
	}
	r := region{id: meta.Id, ver: meta.GetRegionEpoch().GetVersion(), conf: meta.GetRegionEpoch().GetConfVer(),
		start: raw(meta.StartKey), end: raw(meta.EndKey)}
	for _, p := range meta.Peers {
		r.peers = append(r.peers, p.StoreId)
		if p.Id == leaderPeer {
			r.leader = p.StoreId
		}
	}
	return r, true
}

func pdState(c *mocktikv.Cluster) []region {
	var out []region
	for _, x := range c.GetAllRegions() {
		r, _ := getRegion(c, x.Meta.Id)
		out = append(out, r)
	}
	sort.Slice(out, func(i, j int) bool { return bytes.Compare(out[i].start, out[j].start) < 0 })
	return out
}

func joinU(a []uint64) string {
	s := make([]string, len(a))
	for i, v := range a {
		s[i] = strconv.FormatUint(v, 10)
	}
	return strings.Join(s, ",")
}

func fmtPD(rs []region) string {
	var out []string
	for _, r := range rs {
		out = append(out, fmt.Sprintf("%s:%d:%s", r.key(), r.leader, joinU(r.peers)))
	}
	return strings.Join(out, " ")
}

func hasU(a []uint64, v uint64) bool {
	for _, x := range a {
		if x == v {
			return true
		}
	}
	return false
}

// applyTopo validates and applies one topology op to a cluster (same rules as the model driver's `topo`).
func applyTopo(c *mocktikv.Cluster, w []string) bool {
	num := func(s string) (uint64, bool) {
		v, err := strconv.ParseUint(s, 10, 64)
		return v, err == nil
	}
	switch {
	case w[0] == "split" && len(w) == 4:
		rid, ok1 := num(w[1])
		nrid, ok2 := num(w[2])
		key, ok3 := vx.UnHex(w[3])
		if !ok1 || !ok2 || !ok3 {
			return false
		}
		p, ok := getRegion(c, rid)
		if !ok || nrid == 0 {
			return false
		}
		if _, exists := getRegion(c, nrid); exists {
			return false
		}
		if !contains(p.start, p.end, key) || bytes.Equal(key, p.start) {
			return false
		}
		var peerIDs []uint64
		for _, s := range p.peers {
			peerIDs = append(peerIDs, peerID(nrid, s))
		}
		c.Split(rid, nrid, key, peerIDs, peerIDs[0])
		return true
	case w[0] == "merge" && len(w) == 3:
		a, ok1 := num(w[1])
		b, ok2 := num(w[2])
		if !ok1 || !ok2 || a == b {
			return false
		}
		pa, oka := getRegion(c, a)
		pb, okb := getRegion(c, b)
		if !oka || !okb || len(pa.end) == 0 || !bytes.Equal(pa.end, pb.start) {
			return false
		}
		c.Merge(a, b)
		return true
	case w[0] == "leader" && len(w) == 3:
		rid, ok1 := num(w[1])
		store, ok2 := num(w[2])
		p, ok := getRegion(c, rid)
		if !ok1 || !ok2 || !ok || !hasU(p.peers, store) {
			return false
		}
		c.ChangeLeader(rid, peerID(rid, store))
		return true
	case w[0] == "addpeer" && len(w) == 3:
		rid, ok1 := num(w[1])
		store, ok2 := num(w[2])
		p, ok := getRegion(c, rid)
		if !ok1 || !ok2 || !ok || hasU(p.peers, store) || store == 0 || store > nStores {
			return false
		}
		c.AddPeer(rid, store, peerID(rid, store))
		return true
	case w[0] == "rmpeer" && len(w) == 3:
		rid, ok1 := num(w[1])
		store, ok2 := num(w[2])
		p, ok := getRegion(c, rid)
		if !ok1 || !ok2 || !ok || !hasU(p.peers, store) || len(p.peers) < 2 {
			return false
		}
		c.RemovePeer(rid, peerID(rid, store))
		if p.leader == store {
			for _, s := range p.peers {
				if s != store {
					c.ChangeLeader(rid, peerID(rid, s))
					break
				}
			}
		}
		return true
	}
	return false
}

// ---------------------------------------------------------------- world

type world struct {
	topoOps [][]string
	live    *mocktikv.Cluster
	hist    [][]region
	spd     *switchPD
	cache   *locate.RegionCache
	bo      func() *retry.Backoffer
	extra   map[string]bool // descriptions delivered by stores in `epochraw`
}

var restoreCfg func()

func (w *world) setView(c *mocktikv.Cluster) {
	w.spd.cluster = c
	w.spd.Client = mocktikv.NewPDClient(c)
}

func (w *world) newCache() {
	if w.cache != nil {
		w.cache.Close()
	}
	w.cache = locate.NewRegionCache(locate.NewCodecPDClient(apicodec.ModeTxn, w.spd), locate.RegionCacheNoHealthTick)
}

func newWorld(old *world) *world {
	if old != nil && old.cache != nil {
		old.cache.Close()
	}
	w := &world{live: newCluster(), spd: &switchPD{}, extra: map[string]bool{}}
	w.hist = [][]region{pdState(w.live)}
	w.setView(w.live)
	w.bo = func() *retry.Backoffer { return retry.NewNoopBackoff(context.Background()) }
	w.newCache()
	return w
}

type entry = locate.VerifEntry

func (w *world) dump() ([]entry, [][3]uint64, bool) {
	s, l, ok := w.cache.VerifDump()
	sort.Slice(l, func(i, j int) bool { return l[i][0] < l[j][0] })
	return s, l, ok
}

func b01(b bool) string {
	if b {
		return "1"
	}
	return "0"
}

func (w *world) fmtDump() string {
	s, l, ok := w.dump()
	var es, ls []string
	for _, e := range s {
		es = append(es, fmt.Sprintf("%s:%s:%s:%s:%d:%s", fmtR(e.ID, e.Start, e.End, e.Ver, e.ConfVer), b01(e.Valid), b01(e.Reload), b01(e.DelayedOnly), e.Leader, joinU(e.Peers)))
	}
	for _, x := range l {
		ls = append(ls, fmt.Sprintf("%d:%d:%d", x[0], x[1], x[2]))
	}
	out := "sorted " + strings.Join(es, " ") + " | latest " + strings.Join(ls, " ")
	if !ok {
		out += " | regions-map-differs"
	}
	return out
}

func ekey(e entry) string { return fmtR(e.ID, e.Start, e.End, e.Ver, e.ConfVer) }

// noRegress: same oracle as the model driver, on the implementation's own index before/after the op.
func noRegress(before, after []entry) bool {
	bset := map[string]bool{}
	for _, e := range before {
		bset[ekey(e)] = true
	}
	aset := map[string]bool{}
	for _, e := range after {
		aset[ekey(e)] = true
	}
	var news, gone []entry
	for _, n := range after {
		if !bset[ekey(n)] {
			news = append(news, n)
		}
	}
	for _, e := range before {
		if !aset[ekey(e)] {
			gone = append(gone, e)
		}
	}
	for _, e := range before {
		for _, n := range news {
			if n.ID == e.ID && !(n.Ver >= e.Ver && n.ConfVer >= e.ConfVer) {
				return false
			}
		}
	}
	for _, e := range gone {
		ok := false
		for _, n := range after {
			if bytes.Compare(n.Start, e.Start) <= 0 && (len(n.End) == 0 || bytes.Compare(e.Start, n.End) < 0) && n.Ver >= e.Ver {
				ok = true
			}
		}
		if !ok {
			return false
		}
	}
	return true
}

func (w *world) known(key string) bool {
	if w.extra[key] {
		return true
	}
	for _, st := range w.hist {
		for _, r := range st {
			if r.key() == key {
				return true
			}
		}
	}
	return false
}

type loc struct {
	id, ver, conf uint64
	start, end    []byte
}

func mkLoc(l *locate.KeyLocation) loc {
	return loc{l.Region.GetID(), l.Region.GetVer(), l.Region.GetConfVer(), l.StartKey, l.EndKey}
}
func (l loc) key() string { return fmtR(l.id, l.start, l.end, l.ver, l.conf) }

// coverFrom: the locations, taken in order, cover [cur, end) without a gap; returns the index to continue from and,
// on failure, the first key that is not covered.
func coverFrom(ls []loc, i int, cur, end []byte) (int, []byte, bool) {
	for ; i < len(ls); i++ {
		l := ls[i]
		if contains(l.start, l.end, cur) {
			if len(l.end) == 0 {
				return i, nil, true
			}
			if len(end) != 0 && bytes.Compare(end, l.end) <= 0 {
				return i, nil, true
			}
			cur = l.end
		}
	}
	return i, cur, false
}

// coverRanges returns "" when every range is covered, else the kind of gap: `gap-in-cached-unbounded-tail` when the
// first uncovered key lies in a region that was cached (valid, no reload flag) with an unbounded end before the
// call, `gap` otherwise.
func coverRanges(ls []loc, ranges []kv.KeyRange, before []entry) string {
	i := 0
	for _, kr := range ranges {
		var ok bool
		var miss []byte
		i, miss, ok = coverFrom(ls, i, kr.StartKey, kr.EndKey)
		if !ok {
			for _, e := range before {
				if e.Valid && !e.Reload && len(e.End) == 0 && contains(e.Start, e.End, miss) {
					return "gap-in-cached-unbounded-tail"
				}
			}
			return "gap"
		}
	}
	return ""
}

type check struct {
	ok   bool
	what string
}

func gapCheck(kind string) check { return check{kind == "", kind} }

func verdict(cs ...check) string {
	var f []string
	for _, c := range cs {
		if !c.ok {
			f = append(f, c.what)
		}
	}
	if len(f) == 0 {
		return "ok"
	}
	return "FAIL " + strings.Join(f, ",")
}

func fmtLocs(ls []loc) string {
	s := make([]string, len(ls))
	for i, l := range ls {
		s[i] = l.key()
	}
	return strings.Join(s, " ")
}

func (w *world) allKnown(ls []loc) bool {
	for _, l := range ls {
		if !w.known(l.key()) {
			return false
		}
	}
	return true
}

func (w *world) exec(line string) string {
	return vx.Guard(func() string {
		f := strings.Fields(line)
		if len(f) == 0 {
			return "bad-op"
		}
		num := func(s string) (uint64, bool) {
			v, err := strconv.ParseUint(s, 10, 64)
			return v, err == nil
		}
		before, beforeLatest, _ := w.dump()
		regress := func() check {
			after, _, _ := w.dump()
			return check{noRegress(before, after), "regress"}
		}
		latest := func() check {
			after, afterLatest, _ := w.dump()
			for _, e := range after {
				newest := true
				for _, x := range after {
					if x.ID == e.ID && (x.Ver > e.Ver || (x.Ver == e.Ver && x.ConfVer > e.ConfVer)) {
						newest = false
					}
				}
				if !newest {
					continue
				}
				ok := false
				for _, y := range afterLatest {
					if y[0] == e.ID && y[1] >= e.Ver && y[2] >= e.ConfVer {
						ok = true
					}
				}
				if !ok {
					return check{false, fmt.Sprintf("latest-index-missing:%d", e.ID)}
				}
			}
			return check{true, ""}
		}
		_ = beforeLatest
		switch {
		case f[0] == "newcache" && len(f) == 1:
			w.newCache()
			return "ok"
		case f[0] == "pdview" && len(f) == 2:
			if f[1] == "live" {
				w.setView(w.live)
				return "ok"
			}
			k, ok := num(f[1])
			if !ok || int(k) >= len(w.hist) {
				return "bad-op"
			}
			c := newCluster()
			for _, op := range w.topoOps[:k] {
				applyTopo(c, op)
			}
			w.setView(c)
			return "ok"
		case f[0] == "dump" && len(f) == 1:
			return w.fmtDump()
		case f[0] == "pd" && len(f) == 1:
			return fmtPD(pdState(w.spd.cluster))
		case f[0] == "gc" && len(f) == 1:
			w.cache.VerifGCRound()
			return "ok"
		case f[0] == "loc" && len(f) == 2:
			k, ok := vx.UnHex(f[1])
			if !ok {
				return "bad-op"
			}
			l, err := w.cache.LocateKey(w.bo(), k)
			if err != nil {
				return "err"
			}
			x := mkLoc(l)
			return verdict(check{contains(x.start, x.end, k), "not-contained"}, check{w.known(x.key()), "unknown-region"}, regress(), latest()) + " " + x.key()
		case f[0] == "locend" && len(f) == 2:
			k, ok := vx.UnHex(f[1])
			if !ok {
				return "bad-op"
			}
			l, err := w.cache.LocateEndKey(w.bo(), k)
			if err != nil {
				return "err"
			}
			x := mkLoc(l)
			return verdict(check{containsByEnd(x.start, x.end, k), "not-contained"}, check{w.known(x.key()), "unknown-region"}, regress(), latest()) + " " + x.key()
		case f[0] == "locid" && len(f) == 2:
			id, ok := num(f[1])
			if !ok {
				return "bad-op"
			}
			l, err := w.cache.LocateRegionByID(w.bo(), id)
			if err != nil {
				return "err"
			}
			x := mkLoc(l)
			return verdict(check{x.id == id, "wrong-id"}, check{w.known(x.key()), "unknown-region"}, regress(), latest()) + " " + x.key()
		case f[0] == "range" && len(f) == 3:
			a, ok1 := vx.UnHex(f[1])
			b, ok2 := vx.UnHex(f[2])
			if !ok1 || !ok2 {
				return "bad-op"
			}
			res, err := w.cache.LocateKeyRange(w.bo(), a, b)
			if err != nil {
				return "err"
			}
			var ls []loc
			for _, l := range res {
				ls = append(ls, mkLoc(l))
			}
			return verdict(gapCheck(coverRanges(ls, []kv.KeyRange{{StartKey: a, EndKey: b}}, before)), check{w.allKnown(ls), "unknown-region"}, regress(), latest()) + " " + fmtLocs(ls)
		case f[0] == "batch" && len(f) >= 2:
			var ranges []kv.KeyRange
			for _, t := range f[1:] {
				p := strings.Split(t, ":")
				if len(p) != 2 {
					return "bad-op"
				}
				a, ok1 := vx.UnHex(p[0])
				b, ok2 := vx.UnHex(p[1])
				if !ok1 || !ok2 {
					return "bad-op"
				}
				ranges = append(ranges, kv.KeyRange{StartKey: a, EndKey: b})
			}
			in := make([]kv.KeyRange, len(ranges))
			copy(in, ranges)
			res, err := w.cache.BatchLocateKeyRanges(w.bo(), in)
			if err != nil {
				return "err"
			}
			var ls []loc
			for _, l := range res {
				ls = append(ls, mkLoc(l))
			}
			return verdict(gapCheck(coverRanges(ls, ranges, before)), check{w.allKnown(ls), "unknown-region"}, regress(), latest()) + " " + fmtLocs(ls)
		case f[0] == "group" && len(f) >= 2:
			var keys [][]byte
			for _, t := range f[1:] {
				k, ok := vx.UnHex(t)
				if !ok {
					return "bad-op"
				}
				keys = append(keys, k)
			}
			groups, first, err := w.cache.GroupKeysByRegion(w.bo(), keys, nil)
			if err != nil {
				return "err"
			}
			type g struct {
				name, keys string
			}
			var gs []g
			good, allKnown, total := true, true, 0
			desc := map[locate.RegionVerID]*region{}
			for v, ks := range groups {
				var hs []string
				for _, k := range ks {
					hs = append(hs, vx.Hex(k))
				}
				total += len(ks)
				gs = append(gs, g{fmt.Sprintf("%d:%d:%d", v.GetID(), v.GetVer(), v.GetConfVer()), strings.Join(hs, ",")})
				// the description the VerID stands for: the cached one, else the one PD had with this epoch
				if e, ok := w.cache.VerifCached(v); ok {
					desc[v] = &region{id: e.ID, ver: e.Ver, conf: e.ConfVer, start: e.Start, end: e.End}
				}
				for _, st := range w.hist {
					for i := range st {
						if desc[v] == nil && st[i].id == v.GetID() && st[i].ver == v.GetVer() && st[i].conf == v.GetConfVer() {
							desc[v] = &st[i]
						}
					}
				}
				if desc[v] == nil || !w.known(desc[v].key()) {
					allKnown = false
				}
			}
			for _, k := range keys {
				n := 0
				for v, ks := range groups {
					for _, x := range ks {
						if bytes.Equal(x, k) {
							n++
							if d := desc[v]; d == nil || !contains(d.start, d.end, k) {
								good = false
							}
						}
					}
				}
				if n != 1 {
					good = false
				}
			}
			if total != len(keys) {
				good = false
			}
			sort.Slice(gs, func(i, j int) bool { return gs[i].name < gs[j].name })
			var out []string
			for _, x := range gs {
				out = append(out, x.name+"="+x.keys)
			}
			return verdict(check{good, "bad-grouping"}, check{allKnown, "unknown-region"}, regress(), latest()) +
				fmt.Sprintf(" first=%d:%d:%d ", first.GetID(), first.GetVer(), first.GetConfVer()) + strings.Join(out, " ")
		case f[0] == "listids" && len(f) == 3:
			a, ok1 := vx.UnHex(f[1])
			b, ok2 := vx.UnHex(f[2])
			if !ok1 || !ok2 {
				return "bad-op"
			}
			// ListRegionIDsInKeyRange returns ids only (correspondence with the model's walk + no-regression)
			ids, err := w.cache.ListRegionIDsInKeyRange(w.bo(), a, b)
			if err != nil {
				return "err"
			}
			var out []string
			for _, id := range ids {
				out = append(out, strconv.FormatUint(id, 10))
			}
			return verdict(regress(), latest()) + " " + strings.Join(out, " ")
		case f[0] == "conv" && len(f) == 3:
			k, ok := vx.UnHex(f[1])
			if !ok || (f[2] != "inval" && f[2] != "reload" && f[2] != "epochnm") {
				return "bad-op"
			}
			// the stores' truth and PD are the LIVE cluster for the whole op
			savedCluster := w.spd.cluster
			w.setView(w.live)
			defer w.setView(savedCluster)
			live := pdState(w.live)
			var cur region
			for _, r := range live {
				if contains(r.start, r.end, k) {
					cur = r
				}
			}
			failed, accepted := 0, false
			for i := 0; i < 3 && !accepted; i++ {
				l, err := w.cache.LocateKey(w.bo(), k)
				if err != nil {
					failed++
					continue
				}
				x := mkLoc(l)
				if x.key() == cur.key() {
					accepted = true
					break
				}
				switch f[2] {
				case "inval":
					w.cache.InvalidateCachedRegion(l.Region)
				case "reload":
					w.cache.VerifSetNeedReload(l.Region)
				default:
					var metas []*metapb.Region
					for _, r := range live {
						if (len(x.end) == 0 || bytes.Compare(r.start, x.end) < 0) && (len(r.end) == 0 || bytes.Compare(x.start, r.end) < 0) {
							m := &metapb.Region{Id: r.id, StartKey: r.start, EndKey: r.end,
								RegionEpoch: &metapb.RegionEpoch{ConfVer: r.conf, Version: r.ver}}
							for _, s := range r.peers {
								m.Peers = append(m.Peers, &metapb.Peer{Id: peerID(r.id, s), StoreId: s})
							}
							metas = append(metas, m)
						}
					}
					w.cache.VerifEpochNotMatch(w.bo(), l.Region, metas)
				}
				failed++
			}
			if !accepted {
				return "FAIL not-converged"
			}
			calls := w.spd.calls
			l2, err := w.cache.LocateKey(w.bo(), k)
			settled := err == nil && mkLoc(l2).key() == cur.key() && w.spd.calls == calls
			return verdict(check{settled, "not-settled"}, check{failed <= 1, "too-many-attempts"}, regress(), latest()) + fmt.Sprintf(" %d", failed)
		case (f[0] == "expire" || f[0] == "delayreload") && len(f) == 2:
			id, ok := num(f[1])
			if !ok {
				return "bad-op"
			}
			v, ok := w.cache.VerifLatest(id)
			if !ok {
				return "none"
			}
			if f[0] == "expire" {
				w.cache.VerifExpire(v)
			} else {
				w.cache.VerifSetDelayedReload(v)
			}
			return "ok"
		case f[0] == "sendfail" && len(f) == 3:
			id, ok := num(f[1])
			if !ok {
				return "bad-op"
			}
			v, ok := w.cache.VerifLatest(id)
			if !ok {
				return "none"
			}
			w.cache.VerifSendFail(w.bo(), v, f[2] == "1")
			return "ok"
		case (f[0] == "inval" || f[0] == "needreload") && len(f) == 2:
			id, ok := num(f[1])
			if !ok {
				return "bad-op"
			}
			v, ok := w.cache.VerifLatest(id)
			if !ok {
				return "none"
			}
			if f[0] == "inval" {
				w.cache.InvalidateCachedRegion(v)
			} else {
				w.cache.VerifSetNeedReload(v)
			}
			return "ok"
		case f[0] == "updleader" && len(f) == 3:
			id, ok1 := num(f[1])
			store, ok2 := num(f[2])
			if !ok1 || !ok2 {
				return "bad-op"
			}
			v, ok := w.cache.VerifLatest(id)
			if !ok {
				return "none"
			}
			w.cache.UpdateLeader(v, &metapb.Peer{Id: peerID(id, store), StoreId: store}, 0)
			return "ok"
		case f[0] == "epochraw" && len(f) >= 3:
			id, ok := num(f[1])
			if !ok {
				return "bad-op"
			}
			var metas []*metapb.Region
			var keys []string
			for _, t := range f[2:] {
				p := strings.Split(t, ":")
				if len(p) != 5 {
					return "bad-op"
				}
				rid, ok1 := num(p[0])
				a, ok2 := vx.UnHex(p[1])
				b, ok3 := vx.UnHex(p[2])
				ver, ok4 := num(p[3])
				conf, ok5 := num(p[4])
				if !(ok1 && ok2 && ok3 && ok4 && ok5) {
					return "bad-op"
				}
				m := &metapb.Region{Id: rid, StartKey: a, EndKey: b, RegionEpoch: &metapb.RegionEpoch{ConfVer: conf, Version: ver}}
				for s := uint64(1); s <= 3; s++ {
					m.Peers = append(m.Peers, &metapb.Peer{Id: peerID(rid, s), StoreId: s})
				}
				metas = append(metas, m)
				keys = append(keys, fmtR(rid, a, b, ver, conf))
			}
			v, ok := w.cache.VerifLatest(id)
			if !ok {
				return "none"
			}
			if _, ok := w.cache.VerifCached(v); !ok {
				return "none"
			}
			_, retry, err := w.cache.VerifEpochNotMatch(w.bo(), v, metas)
			if retry || err != nil {
				return "retry"
			}
			for _, k := range keys {
				w.extra[k] = true
			}
			return verdict(regress(), latest())
		case f[0] == "epochnm" && len(f) == 2:
			id, ok := num(f[1])
			if !ok {
				return "bad-op"
			}
			v, ok := w.cache.VerifLatest(id)
			if !ok {
				return "none"
			}
			e, ok := w.cache.VerifCached(v)
			if !ok {
				return "none"
			}
			var cur []*metapb.Region
			for _, r := range pdState(w.live) {
				if (len(e.End) == 0 || bytes.Compare(r.start, e.End) < 0) && (len(r.end) == 0 || bytes.Compare(e.Start, r.end) < 0) {
					m := &metapb.Region{Id: r.id, StartKey: r.start, EndKey: r.end,
						RegionEpoch: &metapb.RegionEpoch{ConfVer: r.conf, Version: r.ver}}
					for _, s := range r.peers {
						m.Peers = append(m.Peers, &metapb.Peer{Id: peerID(r.id, s), StoreId: s})
					}
					cur = append(cur, m)
				}
			}
			_, retry, err := w.cache.VerifEpochNotMatch(w.bo(), v, cur)
			if retry || err != nil {
				return "retry"
			}
			return verdict(regress(), latest())
		}
		// topology
		if applyTopo(w.live, f) {
			w.topoOps = append(w.topoOps, f)
			st := pdState(w.live)
			w.hist = append(w.hist, st)
			return "ok " + fmtPD(st)
		}
		return "bad-op"
	})
}

// ---------------------------------------------------------------- generation

var baseKeys = [][]byte{
	{'a'}, {'c'}, {'c', 0}, {'g'}, {'g', 0}, {'g', 0xff}, {'h'}, {'m'}, {'n'}, {'n', 'a'}, {'t'}, {'t', 0}, {'u'}, {'z'}, {0}, {0xff}, {0xff, 0xff},
}

type gen struct {
	r      *vx.Rand
	run    *vx.Run
	w      *world
	nextID uint64
	nTopo  int
}

func (g *gen) key() []byte {
	if g.r.Chance(85) {
		return baseKeys[g.r.Intn(len(baseKeys))]
	}
	n := 1 + g.r.Intn(3)
	b := make([]byte, n)
	for i := range b {
		b[i] = byte('a' + g.r.Intn(26))
	}
	return b
}

// execTimed runs one op with a watchdog: a lookup that does not return is reported as `FAIL hang`; the runaway
// goroutine cannot be stopped, so the streams are flushed and the process ends after this line.
func execTimed(run *vx.Run, w *world, op string) string {
	ch := make(chan string, 1)
	go func() { ch <- w.exec(op) }()
	select {
	case out := <-ch:
		return out
	case <-time.After(5 * time.Second):
		run.Emit(op, "FAIL hang")
		run.Finish()
		os.Exit(0)
	}
	return ""
}

func (g *gen) do(op string) string {
	g.run.Count(strings.Fields(op)[0])
	out := execTimed(g.run, g.w, op)
	g.run.Emit(op, out)
	if strings.HasPrefix(out, "FAIL") {
		g.run.Count("impl-FAIL:" + strings.Fields(op)[0])
	}
	if out == "err" {
		g.run.Count("err:" + strings.Fields(op)[0])
	}
	return out
}

func (g *gen) liveIDs() []uint64 {
	var ids []uint64
	for _, r := range pdState(g.w.live) {
		ids = append(ids, r.id)
	}
	return ids
}

func (g *gen) topoOp() {
	st := pdState(g.w.live)
	pick := st[g.r.Intn(len(st))]
	var out string
	switch x := g.r.Intn(100); {
	case x < 45 || len(st) < 2:
		out = g.do(fmt.Sprintf("split %d %d %s", pick.id, g.nextID, vx.Hex(g.key())))
		g.nextID++
	case x < 65:
		i := g.r.Intn(len(st) - 1)
		out = g.do(fmt.Sprintf("merge %d %d", st[i].id, st[i+1].id))
	case x < 78:
		out = g.do(fmt.Sprintf("leader %d %d", pick.id, pick.peers[g.r.Intn(len(pick.peers))]))
	case x < 90:
		out = g.do(fmt.Sprintf("addpeer %d %d", pick.id, 1+g.r.Intn(nStores)))
	default:
		out = g.do(fmt.Sprintf("rmpeer %d %d", pick.id, pick.peers[g.r.Intn(len(pick.peers))]))
	}
	if strings.HasPrefix(out, "ok") {
		g.nTopo++
	}
}

func (g *gen) sortedPoints(n int) [][]byte {
	m := map[string]bool{}
	var ps [][]byte
	for tries := 0; len(ps) < n && tries < 50; tries++ {
		k := g.key()
		if !m[string(k)] {
			m[string(k)] = true
			ps = append(ps, k)
		}
	}
	sort.Slice(ps, func(i, j int) bool { return bytes.Compare(ps[i], ps[j]) < 0 })
	return ps
}

func (g *gen) ranges() string {
	n := 1 + g.r.Intn(4)
	ps := g.sortedPoints(2 * n)
	var out []string
	i := 0
	for len(out) < n && i < len(ps) {
		start := ps[i]
		if len(out) == 0 && g.r.Chance(15) {
			start = nil
		}
		var end []byte
		if i+1 < len(ps) {
			end = ps[i+1]
		}
		last := i+2 >= len(ps) || len(out) == n-1
		if last && g.r.Chance(35) {
			end = nil
		}
		if end == nil && !last {
			break
		}
		out = append(out, vx.Hex(start)+":"+vx.Hex(end))
		if end == nil {
			break
		}
		if g.r.Chance(30) {
			i++ // adjacent: next range starts at this end
		} else {
			i += 2
		}
	}
	if len(out) == 0 {
		out = append(out, vx.Hex(ps[0])+":-")
	}
	return strings.Join(out, " ")
}

func (g *gen) lookupOp() {
	switch x := g.r.Intn(108); {
	case x >= 100:
		g.do("conv " + vx.Hex(g.key()) + " " + []string{"inval", "reload", "epochnm"}[g.r.Intn(3)])
	case x < 22:
		g.do("loc " + vx.Hex(g.key()))
	case x < 34:
		k := g.key()
		if g.r.Chance(20) {
			k = nil // the point at +inf (reverse scan without upper bound)
		}
		g.do("locend " + vx.Hex(k))
	case x < 42:
		ids := g.liveIDs()
		id := ids[g.r.Intn(len(ids))]
		if g.r.Chance(15) {
			id = uint64(1 + g.r.Intn(int(g.nextID)))
		}
		g.do(fmt.Sprintf("locid %d", id))
	case x < 57:
		ps := g.sortedPoints(2)
		a, b := ps[0], ps[1]
		if g.r.Chance(15) {
			a = nil
		}
		if g.r.Chance(25) {
			b = nil
		}
		g.do("range " + vx.Hex(a) + " " + vx.Hex(b))
	case x < 80:
		g.do("batch " + g.ranges())
	case x < 92:
		ps := g.sortedPoints(1 + g.r.Intn(6))
		if g.r.Chance(30) {
			for i := range ps {
				j := g.r.Intn(i + 1)
				ps[i], ps[j] = ps[j], ps[i]
			}
		}
		var hs []string
		for _, p := range ps {
			hs = append(hs, vx.Hex(p))
		}
		g.do("group " + strings.Join(hs, " "))
	default:
		ps := g.sortedPoints(2)
		g.do("listids " + vx.Hex(ps[0]) + " " + vx.Hex(ps[1]))
	}
}

func (g *gen) cacheOp() {
	ids := g.liveIDs()
	id := ids[g.r.Intn(len(ids))]
	if g.r.Chance(20) {
		id = uint64(1 + g.r.Intn(int(g.nextID)))
	}
	switch x := g.r.Intn(120); {
	case x >= 100 && x < 107:
		g.do(fmt.Sprintf("expire %d", id))
	case x >= 107 && x < 112:
		g.do(fmt.Sprintf("delayreload %d", id))
	case x >= 112:
		g.do(fmt.Sprintf("sendfail %d %d", id, g.r.Intn(2)))
	case x < 35:
		g.do(fmt.Sprintf("inval %d", id))
	case x < 55:
		g.do(fmt.Sprintf("needreload %d", id))
	case x < 65:
		g.do("gc")
	case x < 70:
		g.do("newcache")
	case x < 85:
		g.do(fmt.Sprintf("epochnm %d", id))
	default:
		g.do(fmt.Sprintf("updleader %d %d", id, 1+g.r.Intn(nStores)))
	}
}

// holeScenario: a layout of 3..6 regions, the cache warmed over the whole key space, then one or two MIDDLE regions
// get the need-reload flag or are invalidated (what TTL expiry looks like to the lookups), then batch / range lookups
// spanning them (one range, several ranges, ranges starting inside the flagged region).  The cache scan of
// BatchLocateKeyRanges drops flagged regions after the B-tree walk, so its per-region contiguity check matters here.
func (g *gen) holeScenario() {
	k := 3 + g.r.Intn(4)
	pts := g.sortedPoints(k - 1)
	lastID := uint64(1)
	for _, p := range pts {
		if len(p) == 0 {
			continue
		}
		out := g.do(fmt.Sprintf("split %d %d %s", lastID, g.nextID, vx.Hex(p)))
		if strings.HasPrefix(out, "ok") {
			g.nTopo++
			lastID = g.nextID
		}
		g.nextID++
	}
	st := pdState(g.w.live)
	if len(st) < 3 {
		return
	}
	// warm the whole span
	if g.r.Bool() {
		g.do("range - -")
	} else {
		g.do("batch -:-")
	}
	// flag middle regions
	nflag := 1 + g.r.Intn(2)
	for i := 0; i < nflag; i++ {
		m := st[1+g.r.Intn(len(st)-2)]
		switch g.r.Intn(3) {
		case 0:
			g.do(fmt.Sprintf("inval %d", m.id))
		default:
			g.do(fmt.Sprintf("needreload %d", m.id))
		}
	}
	if g.r.Chance(30) {
		g.do("pdview 0") // PD answers with the unsplit key space while the flagged regions are reloaded
	}
	g.do("dump")
	inside := func(r region) []byte {
		if g.r.Bool() {
			k := append(append([]byte{}, r.start...), 0)
			if contains(r.start, r.end, k) {
				return k
			}
		}
		return r.start
	}
	for q := 0; q < 3; q++ {
		// points inside distinct regions, ascending
		var ps [][]byte
		for _, r := range st {
			if g.r.Chance(70) {
				ps = append(ps, inside(r))
			}
		}
		if len(ps) < 2 {
			ps = [][]byte{inside(st[0]), inside(st[len(st)-1])}
		}
		endOf := func(i int) string {
			if i+1 < len(ps) {
				return vx.Hex(ps[i+1])
			}
			return "-"
		}
		switch g.r.Intn(3) {
		case 0: // one range over everything chosen
			end := "-"
			if g.r.Bool() {
				end = vx.Hex(ps[len(ps)-1])
				if len(ps[len(ps)-1]) == 0 {
					end = "-"
				}
			}
			g.do("batch " + vx.Hex(ps[0]) + ":" + end)
		case 1: // adjacent ranges, each from one chosen point to the next
			var rs []string
			for i := range ps {
				if i+1 == len(ps) && g.r.Bool() {
					break
				}
				rs = append(rs, vx.Hex(ps[i])+":"+endOf(i))
			}
			if len(rs) == 0 {
				rs = append(rs, vx.Hex(ps[0])+":-")
			}
			g.do("batch " + strings.Join(rs, " "))
		default:
			end := "-"
			if g.r.Bool() && len(ps[len(ps)-1]) != 0 {
				end = vx.Hex(ps[len(ps)-1])
			}
			g.do("range " + vx.Hex(ps[0]) + " " + end)
		}
		g.do("dump")
		if g.r.Chance(50) {
			m := st[1+g.r.Intn(len(st)-2)]
			g.do(fmt.Sprintf("needreload %d", m.id))
		}
	}
	g.do("pdview live")
}

func (g *gen) perm4() []int {
	p := []int{0, 1, 2, 3}
	for i := 3; i > 0; i-- {
		j := g.r.Intn(i + 1)
		p[i], p[j] = p[j], p[i]
	}
	return p
}

// boundaryScenario: every boundary key of a 3..6 region layout is looked up by key, by END key, and as the end/start of
// range and batch requests, with the region that ENDS at the boundary (and sometimes the one that starts there) in each
// cache state: warm, need-reload (set directly or by OnSendFail with scheduleReload), delayed-reload ready, invalidated,
// TTL run out, missing (GC'd after invalidation).  By end key the answer must satisfy start < k <= end.
func (g *gen) boundaryScenario() {
	k := 3 + g.r.Intn(4)
	pts := g.sortedPoints(k - 1)
	lastID := uint64(1)
	for _, p := range pts {
		if len(p) == 0 {
			continue
		}
		out := g.do(fmt.Sprintf("split %d %d %s", lastID, g.nextID, vx.Hex(p)))
		if strings.HasPrefix(out, "ok") {
			g.nTopo++
			lastID = g.nextID
		}
		g.nextID++
	}
	st := pdState(g.w.live)
	if len(st) < 3 {
		return
	}
	states := []string{"warm", "needreload", "sendfail", "delayreload", "inval", "expire", "missing"}
	setState := func(id uint64, state string) {
		switch state {
		case "warm":
		case "sendfail":
			g.do(fmt.Sprintf("sendfail %d 1", id))
		case "missing":
			g.do(fmt.Sprintf("inval %d", id))
			g.do("gc")
		default:
			g.do(fmt.Sprintf("%s %d", state, id))
		}
	}
	for i := 0; i+1 < len(st); i++ {
		b := st[i].end // boundary between st[i] and st[i+1]
		g.do("range - -") // (re)warm the whole span
		setState(st[i].id, states[g.r.Intn(len(states))])
		if g.r.Chance(35) {
			setState(st[i+1].id, states[g.r.Intn(len(states))])
		}
		if g.r.Chance(25) {
			g.do("pdview 0")
		}
		for _, q := range g.perm4() {
			switch q {
			case 0:
				g.do("locend " + vx.Hex(b))
			case 1:
				g.do("loc " + vx.Hex(b))
			case 2:
				g.do("range " + vx.Hex(st[i].start) + " " + vx.Hex(b))
			default:
				end := "-"
				if len(st[i+1].end) > 0 {
					end = vx.Hex(st[i+1].end)
				}
				g.do("batch " + vx.Hex(st[i].start) + ":" + vx.Hex(b) + " " + vx.Hex(b) + ":" + end)
			}
			if g.r.Chance(40) {
				g.do("dump")
			}
		}
		g.do("pdview live")
	}
	g.do("locend -")
	g.do("dump")
	// a stale PD answer (the parent before the last m-1 splits) over children that are all dead in the cache
	// (invalidated or TTL run out): the newer dead entries must still not be replaced by the older description
	if g.nTopo >= 2 && g.r.Chance(70) {
		st = pdState(g.w.live)
		m := 2 + g.r.Intn(2)
		if m > len(st) || m-1 > g.nTopo {
			m = 2
		}
		dead := st[len(st)-m:]
		if g.r.Chance(60) {
			// the parent's id lives on in the left-most child: with that child absent from the cache, latestVersions
			// knows nothing about the stale description's id and only the intersecting newer entries can refuse it
			g.do("newcache")
			dead = st[len(st)-m+1:]
			for _, r := range dead {
				g.do("loc " + vx.Hex(r.start))
			}
		} else {
			g.do("range - -")
		}
		for _, r := range dead {
			if g.r.Bool() {
				g.do(fmt.Sprintf("inval %d", r.id))
			} else {
				g.do(fmt.Sprintf("expire %d", r.id))
			}
		}
		g.do(fmt.Sprintf("pdview %d", g.nTopo-(m-1)))
		first := st[len(st)-m]
		for q := 0; q < 3; q++ {
			r := st[len(st)-1-g.r.Intn(m)]
			switch g.r.Intn(4) {
			case 0:
				g.do("loc " + vx.Hex(r.start))
			case 1:
				if len(r.end) > 0 {
					g.do("locend " + vx.Hex(r.end))
				} else {
					g.do("locend -")
				}
			case 2:
				g.do("range " + vx.Hex(first.start) + " -")
			default:
				g.do(fmt.Sprintf("locid %d", r.id))
			}
			g.do("dump")
		}
		g.do("pdview live")
		// back on the live view: every child span must still be answered by regions that contain what was asked
		for _, r := range st[len(st)-m:] {
			end := "-"
			if len(r.end) > 0 {
				end = vx.Hex(r.end)
			}
			g.do("loc " + vx.Hex(r.start))
			g.do("locend " + end)
			g.do("range " + vx.Hex(r.start) + " " + end)
		}
		g.do("batch " + vx.Hex(first.start) + ":" + vx.Hex(st[len(st)-1].start) + " " + vx.Hex(st[len(st)-1].start) + ":-")
		g.do("dump")
	}
}

// rightDeriveScenario: a store reports a split in which the SURVIVING id keeps the right half (its start key moves) and a
// new id takes the left half — something mocktikv's Split (id stays on the left) cannot produce, so the report is fed
// to OnRegionEpochNotMatch directly (`epochraw`), in both orders [derived, sibling] / [sibling, derived].  With the
// derived region inserted first, the pre-split entry of the same id lingers at the old start key until the sibling's
// insert evicts it; the by-id index (latestVersions) must keep naming the derived version.  Followed by by-id / by-key
// lookups, invalidation and stale PD answers (PD still describes the unsplit region, possibly with an older conf
// version).  The case ends here: the cache is now ahead of PD, which the other ops do not expect.
func (g *gen) rightDeriveScenario() {
	for i, k := 0, g.r.Intn(3); i < k; i++ {
		st := pdState(g.w.live)
		pick := st[g.r.Intn(len(st))]
		if strings.HasPrefix(g.do(fmt.Sprintf("split %d %d %s", pick.id, g.nextID, vx.Hex(g.key()))), "ok") {
			g.nTopo++
		}
		g.nextID++
	}
	st := pdState(g.w.live)
	x := st[g.r.Intn(len(st))]
	var m []byte
	for tries := 0; tries < 40 && m == nil; tries++ {
		k := g.key()
		if contains(x.start, x.end, k) && !bytes.Equal(k, x.start) {
			m = k
		}
	}
	if m == nil {
		return
	}
	if g.r.Chance(30) {
		g.do(fmt.Sprintf("addpeer %d %d", x.id, 4+g.r.Intn(2))) // PD's description gets a newer conf version first
		g.do("pdview " + strconv.Itoa(g.nTopo))
		x2, _ := getRegion(g.w.live, x.id)
		g.do("loc " + vx.Hex(x.start)) // cached with the older conf version
		g.do("pdview live")
		x = x2
		_ = x2
	}
	g.do("loc " + vx.Hex(x.start))
	g.do("dump")
	sib := g.nextID
	g.nextID++
	derived := fmtR(x.id, m, x.end, x.ver+1, x.conf)
	sibling := fmtR(sib, x.start, m, x.ver+1, x.conf)
	if g.r.Chance(65) {
		g.do(fmt.Sprintf("epochraw %d %s %s", x.id, derived, sibling))
	} else {
		g.do(fmt.Sprintf("epochraw %d %s %s", x.id, sibling, derived))
	}
	g.do("dump")
	for q := 0; q < 5; q++ {
		switch g.r.Intn(6) {
		case 0:
			g.do(fmt.Sprintf("locid %d", x.id))
		case 1:
			g.do("loc " + vx.Hex(m))
		case 2:
			g.do("loc " + vx.Hex(x.start))
		case 3:
			g.do(fmt.Sprintf("inval %d", x.id))
		case 4:
			g.do(fmt.Sprintf("needreload %d", x.id))
		default:
			g.do("locend " + vx.Hex(m))
		}
		g.do("dump")
	}
}

// hugeBatch: more request ranges than one PD request takes (16 * defaultRegionsPerBatch), so step 2 of
// BatchLocateKeyRanges sends a prefix of the uncached ranges per round and rangesAfterKey carries the rest over.
func (g *gen) hugeBatch() {
	n := 2100 + g.r.Intn(500)
	var rs []string
	for i := 0; i < n; i++ {
		a, b := byte(0x61+i/100), byte(i%100)
		rs = append(rs, vx.Hex([]byte{a, b})+":"+vx.Hex([]byte{a, b, 0x80}))
	}
	if g.r.Bool() {
		rs[len(rs)-1] = rs[len(rs)-1][:4] + ":-"
	}
	g.do("batch " + strings.Join(rs, " "))
	g.do("dump")
}

func (g *gen) oneCase(n int, nops int) {
	g.run.Comment(fmt.Sprintf("case %d", n))
	g.w = newWorld(g.w)
	g.run.Emit("reset", "ok")
	g.nextID = 2
	g.nTopo = 0
	if n%12 == 5 {
		g.run.Count("family:right-derive")
		g.rightDeriveScenario()
		return
	}
	shape := g.r.Intn(3)
	family := g.r.Intn(3) == 0
	if family {
		if g.r.Bool() {
			g.run.Count("family:hole")
			g.holeScenario()
		} else {
			g.run.Count("family:boundary")
			g.boundaryScenario()
		}
		nops /= 2
	}
	// initial partition
	for i, k := 0, g.r.Intn(6); i < k && !family; i++ {
		st := pdState(g.w.live)
		pick := st[g.r.Intn(len(st))]
		out := g.do(fmt.Sprintf("split %d %d %s", pick.id, g.nextID, vx.Hex(g.key())))
		g.nextID++
		if strings.HasPrefix(out, "ok") {
			g.nTopo++
		}
	}
	if shape == 1 && g.r.Chance(60) {
		// LocateEndKey("") against a cold, warm, invalidated and reload-marked last region
		st := pdState(g.w.live)
		last := st[len(st)-1]
		g.do("locend -")
		g.do("dump")
		g.do("locend -")
		if g.r.Bool() {
			g.do(fmt.Sprintf("inval %d", last.id))
		} else {
			g.do(fmt.Sprintf("needreload %d", last.id))
		}
		g.do("locend -")
		g.do("dump")
	}
	if shape == 0 {
		// partially warm cache: locate a few region starts, then queries
		for _, r := range pdState(g.w.live) {
			if g.r.Chance(50) {
				g.do("loc " + vx.Hex(r.start))
			}
		}
	}
	if n%150 == 7 {
		g.run.Count("family:huge-batch")
		if g.r.Bool() {
			g.do("loc " + vx.Hex(g.key())) // a partially warm cache
		}
		g.hugeBatch()
	}
	for i := 0; i < nops; i++ {
		switch x := g.r.Intn(100); {
		case x < 62:
			g.lookupOp()
		case x < 78:
			g.topoOp()
		case x < 90:
			g.cacheOp()
		default:
			if g.r.Chance(40) || g.nTopo == 0 {
				g.do("pdview live")
			} else {
				g.do(fmt.Sprintf("pdview %d", g.r.Intn(g.nTopo+1)))
			}
		}
		if g.r.Chance(60) {
			g.do("dump")
		}
	}
	g.do("dump")
}

func main() {
	run := vx.Start()
	defer run.Finish()
	log.SetLevel(zapcore.FatalLevel)
	restoreCfg = config.UpdateGlobal(func(c *config.Config) { c.RegionsRefreshInterval = 300000000 })
	defer restoreCfg()
	if run.Replay != "" {
		w := newWorld(nil)
		for _, l := range run.ReplayLines() {
			if strings.HasPrefix(l, "#") {
				run.Comment(strings.TrimSpace(l[1:]))
				continue
			}
			if strings.TrimSpace(l) == "reset" {
				w = newWorld(w)
				run.Emit(l, "ok")
				continue
			}
			run.Emit(l, execTimed(run, w, l))
		}
		return
	}
	g := &gen{r: vx.NewRand(run.Seed), run: run}
	cases, nops := 300, 24
	if run.Thorough() {
		cases, nops = 5000, 40
	}
	for n := 0; n < cases; n++ {
		g.oneCase(n, nops)
	}
	if g.w != nil && g.w.cache != nil {
		g.w.cache.Close()
	}
}
