//go:build verif

package codec

// VerifDecodeBytesDesc exposes decodeBytes(reverse=true), reachable code without an exported wrapper in this tree.
func VerifDecodeBytesDesc(b []byte) ([]byte, []byte, error) { return decodeBytes(b, nil, true) }
