//go:build verif

package retry

// Add-only accessors for the C20 harness (read-only views of unexported fields).

// VerifBudget returns (maxSleep, totalSleep, excludedSleep).
func VerifBudget(b *Backoffer) (int, int, int) { return b.maxSleep, b.totalSleep, b.excludedSleep }

// VerifConfigNames returns the names of b.configs in order.
func VerifConfigNames(b *Backoffer) []string {
	out := make([]string, 0, len(b.configs))
	for _, c := range b.configs {
		out = append(out, c.name)
	}
	return out
}

// VerifParent returns b.parent.
func VerifParent(b *Backoffer) *Backoffer { return b.parent }

// VerifCfg returns the literals of a Config.
func VerifCfg(c *Config) (name string, base, cap, jitter int, err error) {
	return c.name, c.fnCfg.base, c.fnCfg.cap, c.fnCfg.jitter, c.err
}

// VerifSleepExcluded reads isSleepExcluded[name].
func VerifSleepExcluded(name string) (int, bool) {
	v, ok := isSleepExcluded[name]
	return v, ok
}

// VerifSleepExcludedMax returns the largest limit of isSleepExcluded (0 if empty).
func VerifSleepExcludedMax() int {
	m := 0
	for _, v := range isSleepExcluded {
		if v > m {
			m = v
		}
	}
	return m
}
