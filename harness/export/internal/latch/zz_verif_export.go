//go:build verif

package latch

import (
	"encoding/hex"
	"strconv"
	"strings"
	"time"
)

// Add-only accessors for the C17 harness. Identifiers used: Latches.slots, latch.{queue,count,waiting},
// node.{key,maxCommitTS,value,next}, Lock.{keys,requiredSlots,acquiredCount,isStale}, genLock, acquire,
// acquireSlot, release, releaseSlot, recycle, latch.recycle, slotID, acquireSuccess/Locked/Stale,
// latchListCount, expireDuration.

func verifRes(r acquireResult) string {
	switch r {
	case acquireSuccess:
		return "success"
	case acquireLocked:
		return "locked"
	case acquireStale:
		return "stale"
	}
	return "unknown"
}

func VerifGenLock(l *Latches, startTS uint64, keys [][]byte) *Lock { return l.genLock(startTS, keys) }
func VerifAcquire(l *Latches, lock *Lock) string                  { return verifRes(l.acquire(lock)) }
func VerifAcquireSlot(l *Latches, lock *Lock) string              { return verifRes(l.acquireSlot(lock)) }
func VerifRelease(l *Latches, lock *Lock) []*Lock                 { return l.release(lock, nil) }
func VerifReleaseSlot(l *Latches, lock *Lock) *Lock               { return l.releaseSlot(lock) }
func VerifRecycle(l *Latches, ts uint64)                          { l.recycle(ts) }
func VerifRecycleSlot(l *Latches, i int, ts uint64) {
	lt := &l.slots[i]
	lt.Lock()
	lt.recycle(ts)
	lt.Unlock()
}
func VerifSlotID(l *Latches, key []byte) int { return l.slotID(key) }
func VerifNumSlots(l *Latches) int           { return len(l.slots) }
func VerifListCount() int                    { return latchListCount }
func VerifExpireMillis() int64               { return int64(expireDuration / time.Millisecond) }
func VerifLatchesOf(s *LatchesScheduler) *Latches { return s.latches }

// VerifLockState: sorted keys, required slots, acquiredCount, isStale.
func VerifLockState(lock *Lock) ([][]byte, []int, int, bool) {
	return lock.keys, lock.requiredSlots, lock.acquiredCount, lock.isStale
}

func verifHex(b []byte) string {
	if len(b) == 0 {
		return "-"
	}
	return hex.EncodeToString(b)
}

// VerifDumpSlot renders slot i as "i:q=[key:maxCommitTS:holder;...];c=count;w=[ids]" (queue order = list order).
func VerifDumpSlot(l *Latches, i int, name func(*Lock) string) string {
	lt := &l.slots[i]
	lt.Lock()
	defer lt.Unlock()
	var q []string
	for n := lt.queue; n != nil; n = n.next {
		h := "-"
		if n.value != nil {
			h = name(n.value)
		}
		q = append(q, verifHex(n.key)+":"+strconv.FormatUint(n.maxCommitTS, 10)+":"+h)
	}
	var w []string
	for _, lk := range lt.waiting {
		w = append(w, name(lk))
	}
	return strconv.Itoa(i) + ":q=[" + strings.Join(q, ";") + "];c=" + strconv.Itoa(lt.count) + ";w=[" + strings.Join(w, ",") + "]"
}

// VerifHeldKeys: hex keys of all nodes that currently have an owner (node.value != nil), in slot/list order.
func VerifHeldKeys(l *Latches) []string {
	var out []string
	for i := range l.slots {
		lt := &l.slots[i]
		lt.Lock()
		for n := lt.queue; n != nil; n = n.next {
			if n.value != nil {
				out = append(out, verifHex(n.key))
			}
		}
		lt.Unlock()
	}
	return out
}

// VerifWaitingTotal: number of locks queued in all waiting lists.
func VerifWaitingTotal(l *Latches) int {
	n := 0
	for i := range l.slots {
		lt := &l.slots[i]
		lt.Lock()
		n += len(lt.waiting)
		lt.Unlock()
	}
	return n
}
