//go:build verif

package art

import (
	"encoding/hex"
	"fmt"
	"strings"

	"github.com/tikv/client-go/v2/internal/unionstore/arena"
)

// VerifPosition returns the current end of the value log WITHOUT the side effect of Checkpoint()
// (which remembers the checkpoint it hands out); used by the C08 harness for its own bookkeeping.
func (t *ART) VerifPosition() *arena.MemDBCheckpoint {
	cp := t.checkpoint()
	return &cp
}

// VerifNode drives one inner node of the radix tree directly (addChild / findChild / replaceChild with growth
// 4 -> 16 -> 48 -> 256) for the node-container model (Model/ArtNode.lean). Children are leaves whose 2-byte key is an id.
type VerifNode struct {
	t  *ART
	an artNode
}

func VerifNewNode() *VerifNode {
	t := New()
	an, _ := t.newNode4()
	return &VerifNode{t: t, an: an}
}

func (v *VerifNode) leaf(id uint16) artNode {
	n, _ := v.t.newLeaf([]byte{byte(id >> 8), byte(id)})
	return n
}

func (v *VerifNode) idOf(n artNode) int {
	k := n.asLeaf(&v.t.allocator).GetKey()
	return int(k[0])<<8 | int(k[1])
}

func (v *VerifNode) Add(c byte, id uint16) { v.an.addChild(&v.t.allocator, c, false, v.leaf(id)) }

func (v *VerifNode) Find(c byte) (int, bool) {
	_, ch := v.an.findChild(&v.t.allocator, c, false)
	if ch.addr.IsNull() {
		return 0, false
	}
	return v.idOf(ch), true
}

func (v *VerifNode) Replace(c byte, id uint16) { v.an.replaceChild(&v.t.allocator, c, v.leaf(id)) }

func (v *VerifNode) Kind() int {
	switch v.an.kind {
	case typeNode4:
		return 4
	case typeNode16:
		return 16
	case typeNode48:
		return 48
	case typeNode256:
		return 256
	}
	return 0
}

// Num is nodeBase.nodeNum (a uint8: it wraps for a node256 with 256 children).
func (v *VerifNode) Num() int { return int(v.an.asNode(&v.t.allocator).nodeNum) }

// Children enumerates the children with the iterator's own code (baseIter.next / prev from the node as root).
func (v *VerifNode) Children(reverse bool) []int {
	it := &baseIter{allocator: &v.t.allocator}
	it.seekToFirst(v.an, reverse)
	var out []int
	for i := 0; i < 300; i++ {
		var n artNode
		if reverse {
			n = it.prev()
		} else {
			n = it.next()
		}
		if n.addr.IsNull() {
			break
		}
		out = append(out, v.idOf(n))
	}
	return out
}

// VerifDump prints the tree canonically: N<kind>(<prefixLen>,<valid in-node prefix bytes>,<in-place leaf key|~>)[<byte>:<child> …]
// for inner nodes and L(<key>) for leaves (hex, "-" = empty), the format of Model/ArtTree.lean dumpT.
func (t *ART) VerifDump() string {
	if t.root.addr.IsNull() {
		return "N4(0,-,~)[]"
	}
	var sb strings.Builder
	t.verifDump(&sb, t.root)
	return sb.String()
}

func verifHex(b []byte) string {
	if len(b) == 0 {
		return "-"
	}
	return hex.EncodeToString(b)
}

func (t *ART) verifDump(sb *strings.Builder, an artNode) {
	a := &t.allocator
	if an.kind == typeLeaf {
		sb.WriteString("L(" + verifHex(an.asLeaf(a).GetKey()) + ")")
		return
	}
	nb := an.asNode(a)
	kind := map[nodeKind]int{typeNode4: 4, typeNode16: 16, typeNode48: 48, typeNode256: 256}[an.kind]
	inp := "~"
	if !nb.inplaceLeaf.addr.IsNull() {
		inp = verifHex(nb.inplaceLeaf.asLeaf(a).GetKey())
	}
	fmt.Fprintf(sb, "N%d(%d,%s,%s)[", kind, nb.prefixLen, verifHex(nb.prefix[:min(nb.prefixLen, maxInNodePrefixLen)]), inp)
	emit := func(c byte, ch artNode) {
		sb.WriteString(verifHex([]byte{c}) + ":")
		t.verifDump(sb, ch)
		sb.WriteString(" ")
	}
	switch an.kind {
	case typeNode4:
		n := an.asNode4(a)
		for i := 0; i < int(n.nodeNum); i++ {
			emit(n.keys[i], n.children[i])
		}
	case typeNode16:
		n := an.asNode16(a)
		for i := 0; i < int(n.nodeNum); i++ {
			emit(n.keys[i], n.children[i])
		}
	case typeNode48:
		n := an.asNode48(a)
		for c := 0; c < 256; c++ {
			if n.present[c>>n48s]&(1<<(uint(c)%n48m)) != 0 {
				emit(byte(c), n.children[n.keys[c]])
			}
		}
	case typeNode256:
		n := an.asNode256(a)
		for c := 0; c < 256; c++ {
			if n.present[c>>n48s]&(1<<(uint(c)%n48m)) != 0 {
				emit(byte(c), n.children[c])
			}
		}
	}
	sb.WriteString("]")
}

// VerifSearch is ART.search without the lastTraversedNode cache.
func (t *ART) VerifSearch(key []byte) bool {
	addr, _ := t.search(key)
	return !addr.IsNull()
}

// VerifKeys walks all leaves (deleted or not) with the iterator's own code from the root.
func (t *ART) VerifKeys(reverse bool) [][]byte {
	if t.root.addr.IsNull() {
		return nil
	}
	it := &baseIter{allocator: &t.allocator}
	it.seekToFirst(t.root, reverse)
	var out [][]byte
	for i := 0; i < 1000000; i++ {
		var n artNode
		if reverse {
			n = it.prev()
		} else {
			n = it.next()
		}
		if n.addr.IsNull() {
			break
		}
		out = append(out, append([]byte{}, n.asLeaf(&t.allocator).GetKey()...))
	}
	return out
}
