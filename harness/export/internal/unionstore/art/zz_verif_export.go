//go:build verif

package art

import "github.com/tikv/client-go/v2/internal/unionstore/arena"

// VerifPosition returns the current end of the value log WITHOUT the side effect of Checkpoint()
// (which remembers the checkpoint it hands out); used by the C08 harness for its own bookkeeping.
func (t *ART) VerifPosition() *arena.MemDBCheckpoint {
	cp := t.checkpoint()
	return &cp
}
