//go:build verif

package unionstore

// C16 accessors (add-only): observe the mutable / flushing buffers of a PipelinedMemDB.

// VerifMutableMem is p.memDB.Mem(), the size needFlush compares with the thresholds.
func (p *PipelinedMemDB) VerifMutableMem() uint64 { return p.memDB.Mem() }

// VerifMutableLen is p.memDB.Len().
func (p *PipelinedMemDB) VerifMutableLen() int { return p.memDB.Len() }

// VerifNeedFlush evaluates the real needFlush on the current state.
func (p *PipelinedMemDB) VerifNeedFlush() bool { return p.needFlush() }

// VerifHasFlushing reports p.flushingMemDB != nil.
func (p *PipelinedMemDB) VerifHasFlushing() bool { return p.flushingMemDB != nil }

// VerifFlushing returns p.flushingMemDB (nil when there is none).
func (p *PipelinedMemDB) VerifFlushing() *MemDB { return p.flushingMemDB }

// VerifGeneration returns p.generation.
func (p *PipelinedMemDB) VerifGeneration() uint64 { return p.generation }

// VerifIsStaging reports p.memDB.IsStaging().
func (p *PipelinedMemDB) VerifIsStaging() bool { return p.memDB.IsStaging() }
