//go:build verif

package unionstore

// Add-only accessors for the verification harness (C08): the two MemBuffer implementations with custom limits.
// newArtDBWithContext / newRbtDBWithContext are unexported in this tree.

// VerifNewART returns the radix-tree buffer (the default MemDB) with the given entry / buffer size limits.
func VerifNewART(entryLimit, bufferLimit uint64) *artDBWithContext {
	db := newArtDBWithContext()
	db.SetEntrySizeLimit(entryLimit, bufferLimit)
	return db
}

// VerifNewRBT returns the red-black-tree buffer with the given entry / buffer size limits.
func VerifNewRBT(entryLimit, bufferLimit uint64) *rbtDBWithContext {
	db := newRbtDBWithContext()
	db.SetEntrySizeLimit(entryLimit, bufferLimit)
	return db
}
