//go:build verif

package rbt

import "github.com/tikv/client-go/v2/internal/unionstore/arena"

// VerifPosition returns the current end of the value log WITHOUT the side effect of Checkpoint()
// (which remembers the checkpoint it hands out); used by the C08 harness for its own bookkeeping.
func (db *RBT) VerifPosition() *arena.MemDBCheckpoint {
	cp := db.vlog.Checkpoint()
	return &cp
}

// VerifCheck walks the whole tree (deleted nodes included) and checks the classic red-black invariants on the real
// structure: the root is black, no red node has a red child, every root-to-nil path has the same number of black
// nodes, parent links are consistent, and the in-order key sequence is strictly ascending. It returns "" (all hold) or
// the first violation, and the in-order keys.
func (db *RBT) VerifCheck() (string, [][]byte) {
	var keys [][]byte
	bad := ""
	fail := func(s string) {
		if bad == "" {
			bad = s
		}
	}
	root := db.getNode(db.root)
	if root.isNull() {
		return "", nil
	}
	if root.isRed() {
		fail("red-root")
	}
	if !root.up.IsNull() {
		fail("root-has-parent")
	}
	var walk func(x MemdbNodeAddr, depth int) int
	walk = func(x MemdbNodeAddr, depth int) int {
		if x.isNull() {
			return 1
		}
		if depth > 200 {
			fail("too-deep")
			return 0
		}
		l, r := x.getLeft(db), x.getRight(db)
		if x.isRed() && ((!l.isNull() && l.isRed()) || (!r.isNull() && r.isRed())) {
			fail("red-red")
		}
		if !l.isNull() && l.up != x.addr {
			fail("parent-link")
		}
		if !r.isNull() && r.up != x.addr {
			fail("parent-link")
		}
		hl := walk(l, depth+1)
		keys = append(keys, append([]byte{}, x.getKey()...))
		hr := walk(r, depth+1)
		if hl != hr {
			fail("black-height")
		}
		if x.isBlack() {
			return hl + 1
		}
		return hl
	}
	walk(root, 0)
	for i := 1; i < len(keys); i++ {
		if string(keys[i-1]) >= string(keys[i]) {
			fail("bst-order")
		}
	}
	return bad, keys
}
