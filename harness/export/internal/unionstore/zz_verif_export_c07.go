//go:build verif

package unionstore

// add-only accessors for the C07 harness (the RBT buffer has no exported constructor)

// VerifC07NewRBT returns the red-black-tree write buffer behind the MemBuffer interface.
func VerifC07NewRBT() MemBuffer { return newRbtDBWithContext() }

// VerifC07NewART returns the ART write buffer (same as NewMemDB) behind the MemBuffer interface.
func VerifC07NewART() MemBuffer { return newArtDBWithContext() }
