//go:build verif

package client

// Add-only accessors for the C18 harness (verification build only).  Nothing here replaces source code: the
// functions below construct the same objects connPool.Init constructs and call the unexported functions of
// client_batch.go / conn_batch.go so that the harness can drive the send loop's body op by op.

import (
	"context"
	"sort"
	"strconv"
	"sync"
	"sync/atomic"
	"time"

	"github.com/pingcap/kvproto/pkg/tikvpb"
	dto "github.com/prometheus/client_model/go"
	"github.com/tikv/client-go/v2/config"
	"github.com/tikv/client-go/v2/tikvrpc"
	"google.golang.org/grpc"
)

const (
	VerifForwardKey = forwardMetadataKey
	VerifConnIdxKey = batchConnIdxMetadataKey
)

// VerifBatch is a batchConn with its batchCommandsClients, built like connPool.Init does, but WITHOUT the
// batchSendLoop goroutine: the harness calls the loop's steps itself.
type VerifBatch struct {
	a       *batchConn
	target  string
	idle    uint32
	entries map[*tikvpb.BatchCommandsRequest_Request]*batchCommandsEntry
}

func VerifNewBatch(target string, conns []*grpc.ClientConn, maxBatch uint, limit int64, dialTimeout time.Duration) *VerifBatch {
	v := &VerifBatch{target: target, entries: map[*tikvpb.BatchCommandsRequest_Request]*batchCommandsEntry{}}
	a := newBatchConn(uint(len(conns)), maxBatch, &v.idle)
	a.initMetrics(target)
	cfg := config.GetGlobalConfig()
	for i, conn := range conns {
		connIdx := strconv.Itoa(i)
		batchClient := &batchCommandsClient{
			target:           target,
			connIdx:          connIdx,
			conn:             conn,
			forwardedClients: make(map[string]*batchCommandsStream),
			batched:          sync.Map{},
			epoch:            0,
			closed:           0,
			tikvClientCfg:    cfg.TiKVClient,
			tikvLoad:         &a.tikvTransportLayerLoad,
			dialTimeout:      dialTimeout,
			tryLock:          tryLock{sync.NewCond(new(sync.Mutex)), false},
			eventListener:    new(atomic.Pointer[ClientEventListener]),
			metrics:          initBatchCommandsClientMetrics(target, connIdx),
		}
		batchClient.maxConcurrencyRequestLimit.Store(limit)
		a.batchCommandsClients = append(a.batchCommandsClients, batchClient)
	}
	v.a = a
	return v
}

// VerifSend is sendBatchRequest on this batchConn.
func (v *VerifBatch) VerifSend(ctx context.Context, fwd string, req *tikvpb.BatchCommandsRequest_Request, timeout time.Duration, pri uint64) (*tikvrpc.Response, error) {
	return sendBatchRequest(ctx, v.target, fwd, v.a, nil, req, timeout, pri)
}

func (v *VerifBatch) ChLen() int { return len(v.a.batchCommandsCh) }
func (v *VerifBatch) ChCap() int { return cap(v.a.batchCommandsCh) }

// Fetch is fetchAllPendingRequests (blocks when the channel is empty: the caller checks ChLen first).
func (v *VerifBatch) Fetch(max int) { v.a.fetchAllPendingRequests(max) }

// Heap returns the priority queue's slice (heap array order), each entry identified by its request pointer.
func (v *VerifBatch) Heap() []*tikvpb.BatchCommandsRequest_Request {
	ps := v.a.reqBuilder.entries.ps
	out := make([]*tikvpb.BatchCommandsRequest_Request, 0, len(ps))
	for _, it := range ps {
		e := it.(*batchCommandsEntry)
		v.entries[e.req] = e
		out = append(out, e.req)
	}
	return out
}

func (v *VerifBatch) BuilderReset() { v.a.reqBuilder.reset() }

type VerifGroup struct {
	Fwd  string
	Ids  []uint64
	Reqs []*tikvpb.BatchCommandsRequest_Request
}

// Flush is getClientAndSend; it returns the groups the builder holds afterwards (empty if nothing was built).
func (v *VerifBatch) Flush() []VerifGroup {
	v.a.getClientAndSend()
	var out []VerifGroup
	b := v.a.reqBuilder
	grp := func(f string, g *batchCommandsRequestGroup) {
		if len(g.req.RequestIds) == 0 {
			return
		}
		vg := VerifGroup{Fwd: f, Ids: append([]uint64{}, g.req.RequestIds...)}
		for _, e := range g.entries {
			vg.Reqs = append(vg.Reqs, e.req)
		}
		out = append(out, vg)
	}
	grp("", &b.directGroup)
	for f, g := range b.forwardingGroups {
		grp(f, g)
	}
	sort.Slice(out, func(i, j int) bool { return out[i].Fwd < out[j].Fwd })
	return out
}

func (v *VerifBatch) Index() uint32   { return v.a.index }
func (v *VerifBatch) IdAlloc() uint64 { return v.a.reqBuilder.idAlloc }

func (v *VerifBatch) Table(cid int) []uint64 {
	var ids []uint64
	v.a.batchCommandsClients[cid].batched.Range(func(k, _ interface{}) bool {
		ids = append(ids, k.(uint64))
		return true
	})
	sort.Slice(ids, func(i, j int) bool { return ids[i] < ids[j] })
	return ids
}

// TableHost returns, for every pending request id of a client, the forwarded host of its entry.
func (v *VerifBatch) TableHost(cid int) map[uint64]string {
	out := map[uint64]string{}
	v.a.batchCommandsClients[cid].batched.Range(func(k, e interface{}) bool {
		out[k.(uint64)] = e.(*batchCommandsEntry).forwardedHost
		return true
	})
	return out
}

func (v *VerifBatch) Epoch(cid int) uint64 { return atomic.LoadUint64(&v.a.batchCommandsClients[cid].epoch) }

func (v *VerifBatch) LockRecreate(cid int, on bool) {
	if on {
		v.a.batchCommandsClients[cid].lockForRecreate()
	} else {
		v.a.batchCommandsClients[cid].unlockForRecreate()
	}
}

func (v *VerifBatch) SetLimit(cid int, n int64) {
	v.a.batchCommandsClients[cid].maxConcurrencyRequestLimit.Store(n)
}

func (v *VerifBatch) NClients() int { return len(v.a.batchCommandsClients) }

// Outdated reads the outdated-response counters (direct + forwarded) of a client.
func (v *VerifBatch) Outdated(cid int) float64 {
	m := v.a.batchCommandsClients[cid].metrics
	var d dto.Metric
	total := 0.0
	if err := m.outdatedResponseCounter(false).Write(&d); err == nil {
		total += d.GetCounter().GetValue()
	}
	var d2 dto.Metric
	if err := m.outdatedResponseCounter(true).Write(&d2); err == nil {
		total += d2.GetCounter().GetValue()
	}
	return total
}

// Ready: the entry's completion channel has been written or closed (the caller must leave its select).
func (v *VerifBatch) Ready(req *tikvpb.BatchCommandsRequest_Request) bool {
	e, ok := v.entries[req]
	if !ok {
		return false
	}
	// recvAfterReqArriveNS is stamped by batchRecvLoop right before it hands the response over (the caller may
	// already have drained res again)
	return len(e.res) > 0 || e.err != nil || (e.recvAfterReqArriveNS.Load() > 0 && atomic.LoadInt32(&e.canceled) == 0)
}

func (v *VerifBatch) Close() { v.a.Close() }

// RunSendLoop starts the REAL batchSendLoop on this batchConn (basic batch policy, no wait strategy).
func (v *VerifBatch) RunSendLoop(maxBatch uint) {
	cfg := config.GetGlobalConfig().TiKVClient
	cfg.MaxBatchSize = maxBatch
	cfg.MaxBatchWaitTime = 0
	cfg.BatchPolicy = config.BatchPolicyBasic
	go v.a.batchSendLoop(cfg)
}

// PushNil puts a nil entry into batchCommandsCh: fetchAllPendingRequests returns on it without pushing anything.
func (v *VerifBatch) PushNil() { v.a.batchCommandsCh <- nil }

// DrainNil removes nil sentinels left in batchCommandsCh; returns the number of NON-nil entries it had to put back.
func (v *VerifBatch) DrainNil() int {
	var keep []*batchCommandsEntry
	for {
		select {
		case e := <-v.a.batchCommandsCh:
			if e != nil {
				keep = append(keep, e)
			}
			continue
		default:
		}
		break
	}
	for _, e := range keep {
		v.a.batchCommandsCh <- e
	}
	return len(keep)
}

// RegisterChannel records the entries waiting in batchCommandsCh (request pointer -> entry) without changing the
// channel's content or order.  Only called while no loop is consuming the channel.
func (v *VerifBatch) RegisterChannel() {
	n := len(v.a.batchCommandsCh)
	tmp := make([]*batchCommandsEntry, 0, n)
	for i := 0; i < n; i++ {
		e := <-v.a.batchCommandsCh
		if e != nil {
			v.entries[e.req] = e
		}
		tmp = append(tmp, e)
	}
	for _, e := range tmp {
		v.a.batchCommandsCh <- e
	}
}

// ReqOf returns the request pointer of the entry registered in batched under this id (nil if none).
func (v *VerifBatch) ReqOf(cid int, id uint64) *tikvpb.BatchCommandsRequest_Request {
	if e, ok := v.a.batchCommandsClients[cid].batched.Load(id); ok {
		return e.(*batchCommandsEntry).req
	}
	return nil
}

func VerifPanicCount() int64 { return atomic.LoadInt64(&BatchSendLoopPanicCounter) }
