//go:build verif

package mocktikv

import (
	"context"
	"fmt"
	"strings"

	"github.com/pingcap/goleveldb/leveldb/util"
	"github.com/pingcap/kvproto/pkg/errorpb"
	"github.com/tikv/client-go/v2/tikvrpc"
)

// VerifDumpKey renders the lock and all version records of one key in the canonical form shared with the
// Lean model: L(startTS,primary,value,op,ttl,forUpdateTS,txnSize,minCommitTS) W(type,startTS,commitTS,value),…
func VerifDumpKey(store MVCCStore, key []byte, hexf func([]byte) string) string {
	mvcc := store.(*MVCCLevelDB)
	mvcc.mu.RLock()
	defer mvcc.mu.RUnlock()
	iter := newIterator(mvcc.getDB(""), &util.Range{Start: mvccEncode(key, lockVer)})
	defer iter.Release()
	l := "L-"
	dec1 := lockDecoder{expectKey: key}
	if ok, _ := dec1.Decode(iter); ok {
		k := dec1.lock
		l = fmt.Sprintf("L(%d,%s,%s,%d,%d,%d,%d,%d)", k.startTS, hexf(k.primary), hexf(k.value), int(k.op), k.ttl, k.forUpdateTS, k.txnSize, k.minCommitTS)
	}
	var ws []string
	dec2 := valueDecoder{expectKey: key}
	for iter.Valid() {
		ok, err := dec2.Decode(iter)
		if err != nil || !ok {
			break
		}
		v := dec2.value
		ws = append(ws, fmt.Sprintf("W(%d,%d,%d,%s)", int(v.valueType), v.startTS, v.commitTS, hexf(v.value)))
	}
	if len(ws) == 0 {
		return l + " -"
	}
	return l + " " + strings.Join(ws, ",")
}

// VerifRolledBackFields exposes the (unexported) fields of ErrAlreadyRollbacked.
func VerifRolledBackFields(e *ErrAlreadyRollbacked) (uint64, []byte) { return e.startTS, e.key }

// VerifSessionCheck runs the checks RPCClient.SendRequest performs before it executes a KV command — context cancelled,
// store of the address, peer/store match, region exists, leader, epoch, request size — and returns the region error (if
// any) and the raw key range of the addressed region.  The hub's Lean-store client (profile `full`) uses it so that
// region errors, splits and leader moves behave exactly as with the mock.
func VerifSessionCheck(c *RPCClient, ctx context.Context, addr string, req *tikvrpc.Request) (regionErr *errorpb.Error, rawStart, rawEnd []byte, err error) {
	tikvrpc.AttachContext(req, req.Context)
	session, err := c.checkArgs(ctx, addr)
	if err != nil {
		return nil, nil, nil, err
	}
	size := 0
	if m, ok := req.Req.(interface{ Size() int }); ok {
		size = m.Size()
	}
	if e := session.checkRequest(&req.Context, size); e != nil {
		return e, nil, nil, nil
	}
	return nil, MvccKey(session.startKey).Raw(), MvccKey(session.endKey).Raw(), nil
}
