//go:build verif

package apicodec

// VerifEncodeRange exposes codecV2.encodeRange (the reverse flag has no exported wrapper).
func VerifEncodeRange(c Codec, start, end []byte, reverse bool) ([]byte, []byte) {
	return c.(*codecV2).encodeRange(start, end, reverse)
}

// VerifBounds returns codecV2.prefix and codecV2.endKey.
func VerifBounds(c Codec) ([]byte, []byte) {
	v := c.(*codecV2)
	return v.prefix, v.endKey
}
