//go:build verif

package locate

import (
	"context"
	"errors"
	"sync/atomic"
	"time"

	"github.com/pingcap/kvproto/pkg/metapb"
	"github.com/tikv/client-go/v2/config/retry"
)

// VerifEntry is one item of the ordered index as the C09 harness sees it.
type VerifEntry struct {
	ID, Ver, ConfVer uint64
	Start, End       []byte
	Valid            bool // TTL not run out (an invalidated region has ttl = expiredTTL)
	Reload           bool // syncFlags has needReloadOnAccess or needDelayedReloadReady
	DelayedOnly      bool // needDelayedReloadReady without needReloadOnAccess
	Leader           uint64
	Peers            []uint64
}

func verifEntry(r *Region) VerifEntry {
	e := VerifEntry{ID: r.GetID(), Ver: r.meta.GetRegionEpoch().GetVersion(), ConfVer: r.meta.GetRegionEpoch().GetConfVer(),
		Start: r.StartKey(), End: r.EndKey(),
		Valid:  atomic.LoadInt64(&r.ttl) >= time.Now().Unix(),
		Reload: r.checkSyncFlags(needReloadOnAccess | needDelayedReloadReady),
		DelayedOnly: r.checkSyncFlags(needDelayedReloadReady) && !r.checkSyncFlags(needReloadOnAccess),
		Leader: r.GetLeaderStoreID()}
	for _, p := range r.meta.Peers {
		e.Peers = append(e.Peers, p.StoreId)
	}
	return e
}

// VerifDump returns the B-tree content in key order, latestVersions as (id, ver, confVer), and whether mu.regions
// is exactly the map VerID -> the object held by the B-tree.
func (c *RegionCache) VerifDump() (sorted []VerifEntry, latest [][3]uint64, regionsMapOK bool) {
	c.mu.RLock()
	defer c.mu.RUnlock()
	regionsMapOK = true
	n := 0
	seen := map[RegionVerID]bool{}
	c.mu.sorted.b.Ascend(func(item *btreeItem) bool {
		r := item.cachedRegion
		sorted = append(sorted, verifEntry(r))
		n++
		if seen[r.VerID()] || c.mu.regions[r.VerID()] != r {
			regionsMapOK = false
		}
		seen[r.VerID()] = true
		return true
	})
	if len(c.mu.regions) != n {
		regionsMapOK = false
	}
	for id, v := range c.mu.latestVersions {
		latest = append(latest, [3]uint64{id, v.ver, v.confVer})
	}
	return
}

// VerifLatest is mu.latestVersions[id].
func (c *RegionCache) VerifLatest(id uint64) (RegionVerID, bool) {
	c.mu.RLock()
	defer c.mu.RUnlock()
	v, ok := c.mu.latestVersions[id]
	return v, ok
}

// VerifCached returns the cached description for a VerID (mu.regions).
func (c *RegionCache) VerifCached(v RegionVerID) (VerifEntry, bool) {
	r := c.GetCachedRegionWithRLock(v)
	if r == nil {
		return VerifEntry{}, false
	}
	return verifEntry(r), true
}

// VerifSetNeedReload marks the cached region as the store-failure paths do.
func (c *RegionCache) VerifSetNeedReload(v RegionVerID) bool {
	r := c.GetCachedRegionWithRLock(v)
	if r == nil {
		return false
	}
	r.setSyncFlags(needReloadOnAccess)
	return true
}

// VerifGCRound runs one complete round of the background cache GC synchronously.
func (c *RegionCache) VerifGCRound() {
	c.gcRoundFunc(1<<16)(context.Background(), time.Now())
}

// VerifEpochNotMatch calls OnRegionEpochNotMatch with the context a request to the region's work store would carry.
func (c *RegionCache) VerifEpochNotMatch(bo *retry.Backoffer, v RegionVerID, current []*metapb.Region) (found bool, retry bool, err error) {
	r := c.GetCachedRegionWithRLock(v)
	if r == nil {
		return false, false, nil
	}
	store, peer, aidx, _ := r.WorkStorePeer(r.getStore())
	ctx := &RPCContext{Region: v, Meta: r.meta, Peer: peer, AccessIdx: aidx, Store: store}
	retry, err = c.OnRegionEpochNotMatch(bo, ctx, current)
	return true, retry, err
}

// VerifExpire lets the TTL of the cached region run out (without the invalidation marker).
func (c *RegionCache) VerifExpire(v RegionVerID) bool {
	r := c.GetCachedRegionWithRLock(v)
	if r == nil {
		return false
	}
	atomic.StoreInt64(&r.ttl, time.Now().Unix()-1000)
	return true
}

// VerifSetDelayedReload marks the region the way the GC round does after needDelayedReloadPending.
func (c *RegionCache) VerifSetDelayedReload(v RegionVerID) bool {
	r := c.GetCachedRegionWithRLock(v)
	if r == nil {
		return false
	}
	r.setSyncFlags(needDelayedReloadReady)
	return true
}

// VerifSendFail calls OnSendFail with the context a request to the region's work peer would carry.
func (c *RegionCache) VerifSendFail(bo *retry.Backoffer, v RegionVerID, scheduleReload bool) bool {
	r := c.GetCachedRegionWithRLock(v)
	if r == nil {
		return false
	}
	store, peer, aidx, _ := r.WorkStorePeer(r.getStore())
	ctx := &RPCContext{Region: v, Meta: r.meta, Peer: peer, AccessIdx: aidx, Store: store, AccessMode: tiKVOnly}
	c.OnSendFail(bo, ctx, scheduleReload, errors.New("verif: send fail"))
	return true
}

// VerifRepSnap / VerifSelSnap: a read-only picture of the sender's current replica selector (C10 selector tie).
type VerifRepSnap struct {
	PeerID, StoreID                                        uint64
	Attempts                                               int
	Deadline, DataNotReady, NotLeader, ServerBusy, Suspect bool
	Live                                                   int
	Slow, EpochStale, LabelMatch, Learner, Over            bool
}

type VerifSelSnap struct {
	Reps                                []VerifRepSnap
	LeaderIdx                           int
	ReadType                            int
	IsStaleRead, IsReadOnly             bool
	LeaderOnly, PreferLeader, HasLabels bool
	SelAttempts                         int
	BusyThreshold                       bool
	InvalidatedForRetry, RegionValid    bool
	LeaderBusyCount                     int
	LeaderBusyPeer                      uint64
	LeaderBusyProbed                    bool
	Target, Proxy                       int // replica index, -1 = none
}

// VerifSelectorSnapshot reports the selector's state; `threshold` is the busy threshold the request started with.
func (s *RegionRequestSender) VerifSelectorSnapshot(threshold time.Duration) *VerifSelSnap {
	sel := s.replicaSelector
	if sel == nil {
		return nil
	}
	out := &VerifSelSnap{
		LeaderIdx: int(sel.region.getStore().workTiKVIdx), ReadType: int(sel.replicaReadType),
		IsStaleRead: sel.isStaleRead, IsReadOnly: sel.isReadOnlyReq,
		LeaderOnly: sel.option.leaderOnly, PreferLeader: sel.option.preferLeader, HasLabels: len(sel.option.labels) > 0,
		SelAttempts: sel.attempts, BusyThreshold: sel.busyThreshold > 0,
		InvalidatedForRetry: sel.regionInvalidatedForRetry, RegionValid: sel.region.isValid(),
		LeaderBusyCount: sel.leaderBusyCount, LeaderBusyPeer: sel.leaderBusyPeerID, LeaderBusyProbed: sel.leaderBusyProbed,
		Target: -1, Proxy: -1,
	}
	for i, r := range sel.replicas {
		out.Reps = append(out.Reps, VerifRepSnap{
			PeerID: r.peer.GetId(), StoreID: r.store.storeID, Attempts: r.attempts,
			Deadline: r.hasFlag(deadlineErrUsingConfTimeoutFlag), DataNotReady: r.hasFlag(dataIsNotReadyFlag),
			NotLeader: r.hasFlag(notLeaderFlag), ServerBusy: r.hasFlag(serverIsBusyFlag), Suspect: r.hasFlag(suspectNotLeaderFlag),
			Live: int(r.store.getLivenessState()), Slow: r.store.healthStatus.IsSlow(), EpochStale: r.isEpochStale(),
			LabelMatch: r.store.IsStoreMatch(sel.option.stores) && r.store.IsLabelsMatch(sel.option.labels),
			Learner:    r.peer.GetRole() == metapb.PeerRole_Learner,
			Over:       threshold > 0 && r.store.EstimatedWaitTime() > threshold,
		})
		if r == sel.target {
			out.Target = i
		}
		if r == sel.proxy {
			out.Proxy = i
		}
	}
	return out
}
