//go:build verif

// Add-only accessors for the verification harnesses (C10). Nothing here replaces source.
package locate

import (
	"context"
	"sync/atomic"
)

// VerifSetRandIntn replaces the tie-breaking random source of the replica selector (returns a restore func).
func VerifSetRandIntn(f func(int) int) func() {
	old := randIntn
	randIntn = f
	return func() { randIntn = old }
}

// VerifInjectLiveness installs a liveness oracle: f(storeID) -> 0 reachable, 1 unreachable, 2 unknown.
func VerifInjectLiveness(c *RegionCache, f func(storeID uint64) int) {
	c.stores.setMockRequestLiveness(func(ctx context.Context, s *Store) livenessState {
		return livenessState(f(s.storeID))
	})
}

// VerifSetStoreLiveness sets the cached liveness state of a store (as the health-check loop would).
func VerifSetStoreLiveness(c *RegionCache, storeID uint64, l int) bool {
	s, ok := c.stores.get(storeID)
	if !ok {
		return false
	}
	atomic.StoreUint32(&s.livenessState, uint32(l))
	return true
}

// VerifMarkStoreSlow marks a store slow exactly as a ServerIsBusy reply does.
func VerifMarkStoreSlow(c *RegionCache, storeID uint64) bool {
	s, ok := c.stores.get(storeID)
	if !ok {
		return false
	}
	s.healthStatus.markAlreadySlow()
	return true
}

// VerifSetEnableForwarding switches forwarding of the region cache.
func VerifSetEnableForwarding(c *RegionCache, on bool) { c.enableForwarding = on }

// VerifReplicaAttempts reports the per-replica attempt counters of the sender's current selector
// (nil when no selector was built), in replica order, together with the peer ids.
func (s *RegionRequestSender) VerifReplicaAttempts() (peers []uint64, attempts []int) {
	if s.replicaSelector == nil {
		return nil, nil
	}
	for _, r := range s.replicaSelector.replicas {
		peers = append(peers, r.peer.GetId())
		attempts = append(attempts, r.attempts)
	}
	return
}

// VerifMaxReplicaAttempt exposes the constant (also regenerated into the Lean model by tools/facts).
func VerifMaxReplicaAttempt() int { return maxReplicaAttempt }
