//go:build verif

package rawkv

import (
	"context"

	"github.com/pingcap/kvproto/pkg/kvrpcpb"
	"github.com/tikv/client-go/v2/internal/client"
	"github.com/tikv/client-go/v2/internal/locate"
	pd "github.com/tikv/pd/client"
)

// VerifNewClient assembles a raw client from a codec PD client and an RPC client, as NewClientWithOpts does.
func VerifNewClient(api kvrpcpb.APIVersion, pdCli pd.Client, rpc client.Client) *Client {
	return &Client{
		apiVersion:  api,
		clusterID:   pdCli.GetClusterID(context.Background()),
		regionCache: locate.NewRegionCache(pdCli),
		pdClient:    pdCli,
		rpcClient:   rpc,
	}
}
