//go:build verif

package tikv

import "github.com/tikv/client-go/v2/internal/apicodec"

// VerifNewCodecClient builds the exported CodecClient wrapper around a client with the given codec.
func VerifNewCodecClient(c Client, codec apicodec.Codec) *CodecClient {
	return &CodecClient{Client: c, codec: codec}
}
