//go:build verif

package tikv

import (
	"reflect"

	"github.com/tikv/client-go/v2/internal/apicodec"
)

// VerifNewCodecClient builds the exported CodecClient wrapper around a client with the given codec.
func VerifNewCodecClient(c Client, codec apicodec.Codec) *CodecClient {
	return &CodecClient{Client: c, codec: codec}
}

// VerifWGCount reads the counter of the store's background WaitGroup (high 32 bits of sync.WaitGroup.state) without
// waiting on it: the hub's Quiesce compares it with the value right after NewKVStore (the two permanent updater
// goroutines) to know that every spawned background task (secondary commit, cleanup, async pessimistic rollback) is done.
// Returns -1 if the runtime's WaitGroup layout is not the expected one (the caller then falls back to settling).
func VerifWGCount(s *KVStore) int {
	st := reflect.ValueOf(&s.wg).Elem().FieldByName("state")
	if !st.IsValid() {
		return -1
	}
	v := st.FieldByName("v")
	if !v.IsValid() || v.Kind() != reflect.Uint64 {
		return -1
	}
	return int(v.Uint() >> 32)
}
