//go:build verif

package transaction

import (
	"sort"
	"time"
)

// C06 (bookkeeping correspondence) accessors, add-only: the client-side lock bookkeeping of a KVTxn as the Lean model
// Model/AggLock.lean holds it.  Nothing here is called by the code under verification.

// VerifAggEntry is one tempLockBufferEntry.
type VerifAggEntry struct {
	Key    string
	HasRV  bool
	HasCE  bool
	Exists bool
	LWC    uint64
}

// VerifFlagged is a membuffer key with the flag `locked`.
type VerifFlagged struct {
	Key         string
	ValueExists bool
}

// VerifLockBook is a snapshot of the bookkeeping.
type VerifLockBook struct {
	Valid         bool
	InAgg         bool
	Current       []VerifAggEntry
	LastRetry     []VerifAggEntry
	Flagged       []VerifFlagged
	PNE           []string
	NeedChk       []string
	LockedCnt     int
	Primary       []byte
	AAssigned     bool
	ALastAssigned bool
	APrimary      []byte
	ALastPrimary  []byte
}

func verifEntries(m map[string]tempLockBufferEntry) []VerifAggEntry {
	out := make([]VerifAggEntry, 0, len(m))
	for k, e := range m {
		out = append(out, VerifAggEntry{Key: k, HasRV: e.HasReturnValue, HasCE: e.HasCheckExistence, Exists: e.Value.Exists, LWC: e.Value.LockedWithConflictTS})
	}
	sort.Slice(out, func(i, j int) bool { return out[i].Key < out[j].Key })
	return out
}

// VerifLockBook reads currentLockedKeys, lastRetryUnnecessaryLocks, lockedCnt, the key flags of the membuffer and the
// primary-key bookkeeping.
func (txn *KVTxn) VerifLockBook() VerifLockBook {
	txn.mu.Lock()
	defer txn.mu.Unlock()
	b := VerifLockBook{Valid: txn.valid, LockedCnt: txn.lockedCnt}
	if c := txn.aggressiveLockingContext; c != nil {
		b.InAgg = true
		b.Current = verifEntries(c.currentLockedKeys)
		b.LastRetry = verifEntries(c.lastRetryUnnecessaryLocks)
		b.AAssigned, b.ALastAssigned = c.assignedPrimaryKey, c.lastAssignedPrimaryKey
		b.APrimary, b.ALastPrimary = c.primaryKey, c.lastPrimaryKey
	}
	if txn.committer != nil {
		b.Primary = txn.committer.primaryKey
	}
	buf := txn.GetMemBuffer().GetMemDB()
	var err error
	for it := buf.IterWithFlags(nil, nil); it.Valid(); err = it.Next() {
		_ = err
		f := it.Flags()
		k := string(it.Key())
		if f.HasLocked() {
			b.Flagged = append(b.Flagged, VerifFlagged{Key: k, ValueExists: f.HasLockedValueExists()})
		}
		if f.HasPresumeKeyNotExists() {
			b.PNE = append(b.PNE, k)
		}
		if f.HasNeedCheckExists() {
			b.NeedChk = append(b.NeedChk, k)
		}
	}
	return b
}

// VerifMayExpire evaluates mayAggressiveLockingLastLockedKeysExpire (false outside aggressive locking).
func (txn *KVTxn) VerifMayExpire() bool {
	if txn.aggressiveLockingContext == nil {
		return false
	}
	return txn.mayAggressiveLockingLastLockedKeysExpire()
}

// VerifBackdateLastAttempt moves lastAttemptStartTime into the past: the passage of time between two attempts of a
// statement, without waiting for it.
func (txn *KVTxn) VerifBackdateLastAttempt(d time.Duration) {
	if c := txn.aggressiveLockingContext; c != nil {
		c.lastAttemptStartTime = c.lastAttemptStartTime.Add(-d)
	}
}
