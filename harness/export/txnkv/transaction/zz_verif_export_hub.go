//go:build verif

package transaction

// VerifUndeterminedErr returns the RPC error the committer recorded as the reason for an undetermined result (nil = none):
// diagnostics of the hub harness only.
func VerifUndeterminedErr(txn *KVTxn) error {
	if txn == nil || txn.committer == nil {
		return nil
	}
	return txn.committer.getUndeterminedErr()
}
