//go:build verif

package transaction

// C16 accessors (add-only): the key range a pipelined transaction hands to resolveFlushedLocks, and its primary.

// VerifPipelinedRange returns pipelinedCommitInfo.pipelinedStart / pipelinedEnd and the primary key.
func (txn *KVTxn) VerifPipelinedRange() (start, end, primary []byte) {
	if txn.committer == nil {
		return nil, nil, nil
	}
	return txn.committer.pipelinedCommitInfo.pipelinedStart, txn.committer.pipelinedCommitInfo.pipelinedEnd, txn.committer.primaryKey
}
