//go:build verif

package oracles

import (
	"time"

	"github.com/tikv/client-go/v2/oracle"
	pd "github.com/tikv/pd/client"
)

// VerifNewEmptyPdOracle builds a pdOracle exactly like NewPdOracle (NoUpdateTS) but without the seeding
// GetTimestamp call, so that the "scope unknown" branches and the first LoadOrStore are reachable.
func VerifNewEmptyPdOracle(c pd.Client, interval time.Duration) oracle.Oracle {
	o := &pdOracle{
		c:    c.WithCallerComponent("oracle"),
		quit: make(chan struct{}),
	}
	o.adaptiveUpdateIntervalState.shrinkIntervalCh = make(chan time.Duration, 1)
	o.lastTSUpdateInterval.Store(int64(interval))
	o.adaptiveLastTSUpdateInterval.Store(int64(interval))
	o.adaptiveUpdateIntervalState.lastTick = time.Now()
	return o
}

func verifStateName(s adaptiveUpdateTSIntervalState) string {
	if s == adaptiveUpdateTSIntervalStateNone {
		return "none"
	}
	return s.String()
}

// VerifNextUpdateInterval runs pdOracle.nextUpdateInterval on a fresh oracle whose fields are set to the given values
// and returns the state and interval it stored (the returned interval must equal the stored one).
func VerifNextUpdateInterval(prev string, conf, cur time.Duration, lastShortMs int64, lastTick, now time.Time, required time.Duration) (string, time.Duration, bool) {
	o := &pdOracle{}
	o.lastTSUpdateInterval.Store(int64(conf))
	o.adaptiveLastTSUpdateInterval.Store(int64(cur))
	o.adaptiveUpdateIntervalState.lastShortStalenessReadTime.Store(lastShortMs)
	o.adaptiveUpdateIntervalState.lastTick = lastTick
	for _, s := range []adaptiveUpdateTSIntervalState{adaptiveUpdateTSIntervalStateNone, adaptiveUpdateTSIntervalStateNormal,
		adaptiveUpdateTSIntervalStateAdapting, adaptiveUpdateTSIntervalStateRecovering, adaptiveUpdateTSIntervalStateUnadjustable} {
		if verifStateName(s) == prev {
			o.adaptiveUpdateIntervalState.state = s
		}
	}
	r := o.nextUpdateInterval(now, required)
	stored := time.Duration(o.adaptiveLastTSUpdateInterval.Load())
	return verifStateName(o.adaptiveUpdateIntervalState.state), r, r == stored
}

// VerifSetConfigured runs SetLowResolutionTimestampUpdateInterval on (configured, adaptive) and returns the new pair.
func VerifSetConfigured(conf, cur, newInterval time.Duration) (time.Duration, time.Duration, error) {
	o := &pdOracle{}
	o.lastTSUpdateInterval.Store(int64(conf))
	o.adaptiveLastTSUpdateInterval.Store(int64(cur))
	err := o.SetLowResolutionTimestampUpdateInterval(newInterval)
	return time.Duration(o.lastTSUpdateInterval.Load()), time.Duration(o.adaptiveLastTSUpdateInterval.Load()), err
}
