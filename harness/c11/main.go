//go:build verif

// C11 harness: the REAL rawkv.Client over mocktikv under random region layouts; topology changes are injected
// between calls (`topo` ops) and inside calls (the RPC client is wrapped: before the n-th request of a call a
// split / merge / leader change is performed).  Every call is compared with the Lean model (cgv-c11) AND with a
// plain sorted-map reference kept here.  The op line of a call carries the injection plan (`inj`, input of this
// harness) and the observed per-request layouts / batch outcomes (`obs`, input of the model).
package main

import (
	"bytes"
	"context"
	"errors"
	"fmt"
	"os"
	"runtime"
	"sort"
	"strconv"
	"strings"
	"sync"
	"time"

	"github.com/pingcap/failpoint"
	"github.com/pingcap/log"
	"go.uber.org/zap"
	"github.com/pingcap/kvproto/pkg/kvrpcpb"
	"github.com/pingcap/kvproto/pkg/metapb"
	"github.com/tikv/client-go/v2/config/retry"
	"github.com/tikv/client-go/v2/internal/client"
	"github.com/tikv/client-go/v2/kv"
	"github.com/tikv/client-go/v2/internal/locate"
	"github.com/tikv/client-go/v2/internal/mockstore/mocktikv"
	"github.com/tikv/client-go/v2/rawkv"
	"github.com/tikv/client-go/v2/tikvrpc"
	"github.com/tikv/client-go/v2/util"
	"github.com/tikv/client-go/v2/verifx/vx"
)

// ---------------------------------------------------------------------------------------------- environment

const rawCF = "CF_DEFAULT"

// defaultMockfix: since the fixes C11-1..5 (mocktikv: RawBatchGet omits missing keys, RawScan honours key_only,
// RawCompareAndSwap on a missing key / previous_not_exist, TiKV-like Split/Merge epochs, RawBatchDelete returns the
// region error) the RPC wrapper repairs nothing by default.  `C11_MOCKFIX=on` (or a `mockfix on` op line) switches the
// old repairs back on, to run this harness against a tree without those fixes.
var defaultMockfix = os.Getenv("C11_MOCKFIX") == "on"

type bounds struct{ s, e string }

type rec struct {
	cmd       tikvrpc.CmdType
	gid, pgid uint64
	keys      [][]byte
	vlens     []int
	start     []byte
	end       []byte
	limit     uint32
	regionErr bool
	layout    []string
	bel       bounds
	belOK     bool
	stale     bool
}

type injection struct {
	n    int    // sequential calls: before the n-th request of the call
	fk   string // batch calls: before the j-th request whose first key is fk
	j    int
	byFK bool
	kind string
	arg  []byte
	done bool
}

type env struct {
	mu       sync.Mutex
	mvcc     mocktikv.MVCCStore
	cluster  *mocktikv.Cluster
	cli      *rawkv.Client
	ref      map[string][]byte
	epochs   map[[3]uint64]bounds
	mockfix  bool
	inCall   bool
	n        int
	fkCount  map[string]int
	injs     []*injection
	recs     []rec
	run      *vx.Run
	rootGid  uint64
	noteS12  int
	injected int
}

type rpcWrap struct {
	client.Client
	h *env
}

func gids() (uint64, uint64) {
	buf := make([]byte, 1<<16)
	n := runtime.Stack(buf, false)
	s := string(buf[:n])
	var g, p uint64
	fmt.Sscanf(s, "goroutine %d ", &g)
	if i := strings.LastIndex(s, " in goroutine "); i >= 0 {
		fmt.Sscanf(s[i:], " in goroutine %d", &p)
	}
	return g, p
}

func (h *env) reset() {
	if h.cli != nil {
		h.cli.Close()
	}
	h.mvcc = mocktikv.MustNewMVCCStore()
	h.cluster = mocktikv.NewCluster(h.mvcc)
	mocktikv.BootstrapWithMultiStores(h.cluster, 2)
	pdCli := mocktikv.NewPDClient(h.cluster)
	h.cli = &rawkv.Client{}
	p := rawkv.ClientProbe{Client: h.cli}
	p.SetRegionCache(locate.NewRegionCache(pdCli))
	p.SetPDClient(pdCli)
	p.SetRPCClient(&rpcWrap{Client: mocktikv.NewRPCClient(h.cluster, h.mvcc, nil), h: h})
	h.cli.SetAtomicForCAS(true)
	// mocktikv's RawChecksum handler always reads column family "CF_DEFAULT" while its raw handlers map the empty
	// column family to "test_cf"; like rawkv_test.TestRawChecksum the client therefore works in "CF_DEFAULT".
	h.cli.SetColumnFamily(rawCF)
	if raw, ok := h.mvcc.(mocktikv.RawKV); ok && defaultMockfix { // before fix C11-1, RawBatchGet on a column family without any put panicked
		raw.RawPut(rawCF, []byte("init"), []byte{1})
		raw.RawDelete(rawCF, []byte("init"))
	}
	h.ref = map[string][]byte{}
	h.epochs = map[[3]uint64]bounds{}
	h.mockfix = defaultMockfix
	h.noteEpochs()
}

func (h *env) noteEpochs() {
	for _, r := range h.cluster.GetAllRegions() {
		m := r.Meta
		h.epochs[[3]uint64{m.Id, m.RegionEpoch.GetVersion(), m.RegionEpoch.GetConfVer()}] = bounds{string(m.StartKey), string(m.EndKey)}
	}
}

func (h *env) layout() []string {
	var out []string
	for _, r := range h.cluster.GetAllRegions() {
		if len(r.Meta.StartKey) > 0 {
			out = append(out, string(r.Meta.StartKey))
		}
	}
	sort.Strings(out)
	return out
}

func (h *env) isCurrent(ctx *kvrpcpb.Context) bool {
	for _, r := range h.cluster.GetAllRegions() {
		m := r.Meta
		if m.Id == ctx.GetRegionId() {
			return m.RegionEpoch.GetVersion() == ctx.GetRegionEpoch().GetVersion() && m.RegionEpoch.GetConfVer() == ctx.GetRegionEpoch().GetConfVer()
		}
	}
	return false
}

// topology changes (all through here so that every (region, epoch) -> bounds is known)
func (h *env) topo(kind string, key []byte) {
	defer h.noteEpochs()
	region, leader, _, _ := h.cluster.GetRegionByKey(key)
	if region == nil {
		return
	}
	switch kind {
	case "split":
		if len(key) == 0 || bytes.Equal(region.StartKey, key) {
			return
		}
		newID := h.cluster.AllocID()
		peerIDs := h.cluster.AllocIDs(len(region.Peers))
		lead := peerIDs[0]
		for i, p := range region.Peers { // keep the leader on the same store
			if leader != nil && p.GetId() == leader.GetId() {
				lead = peerIDs[i]
			}
		}
		h.cluster.SplitRaw(region.Id, newID, key, peerIDs, lead)
		if h.mockfix {
			if parent, _ := h.cluster.GetRegion(region.Id); parent != nil {
				h.raiseVersion(newID, parent.RegionEpoch.GetVersion())
			}
		}
	case "merge":
		if len(region.EndKey) == 0 {
			return
		}
		next, _, _, _ := h.cluster.GetRegionByKey(region.EndKey)
		if next == nil || next.Id == region.Id {
			return
		}
		h.cluster.Merge(region.Id, next.Id)
		if h.mockfix {
			want := region.RegionEpoch.GetVersion()
			if v := next.RegionEpoch.GetVersion(); v > want {
				want = v
			}
			h.raiseVersion(region.Id, want+1)
		}
	case "sendfail":
		// "a request of somebody else failed on the region's store": the store epoch is bumped (RegionCache.OnSendFail),
		// so every region cached with the old store epoch is refused by the request sender, which answers the next
		// request WITHOUT an RPC with a pseudo region error (tikvrpc.GenRegionErrorResp) that the caller must treat
		// like a real one (back off, locate again, retry).
		rc := rawkv.ClientProbe{Client: h.cli}.GetRegionCache()
		bo := retry.NewBackofferWithVars(context.Background(), 5000, nil)
		loc, err := rc.LocateKey(bo, key)
		if err != nil {
			return
		}
		rpcCtx, err := rc.GetTiKVRPCContext(bo, loc.Region, kv.ReplicaReadLeader, 0)
		if err == nil && rpcCtx != nil {
			rc.OnSendFail(bo, rpcCtx, false, errors.New("injected send failure"))
		}
	case "leader":
		var other *metapb.Peer
		for _, p := range region.Peers {
			if leader == nil || p.GetId() != leader.GetId() {
				other = p
			}
		}
		if other != nil {
			h.cluster.ChangeLeader(region.Id, other.GetId())
		}
	}
}

// raiseVersion: TiKV gives both halves of a split the version parent+1 and a merged region max(source,target)+1;
// mocktikv's Split starts the new region at version 1 and its Merge only adds 1 to the target, so a current region
// can be OLDER than a stale cached neighbour and the client's stale-region guard (region_cache.go:
// removeIntersecting) rejects it on every reload (the call then spins until the back-off budget is used up).
// With `mockfix on` the version is raised to the realistic one by split+merge cycles of that region (each adds
// 2), invisible to the client.
func (h *env) raiseVersion(id uint64, want uint64) {
	for guard := 0; guard < 200; guard++ {
		cur, leader := h.cluster.GetRegion(id)
		if cur == nil || cur.RegionEpoch.GetVersion() >= want {
			return
		}
		mid := append(append([]byte{}, cur.StartKey...), 0)
		if len(cur.EndKey) > 0 && bytes.Compare(mid, cur.EndKey) >= 0 {
			return
		}
		tmp := h.cluster.AllocID()
		peerIDs := h.cluster.AllocIDs(len(cur.Peers))
		lead := peerIDs[0]
		for i, p := range cur.Peers {
			if p.GetId() == leader {
				lead = peerIDs[i]
			}
		}
		h.cluster.SplitRaw(cur.Id, tmp, mid, peerIDs, lead)
		h.cluster.Merge(cur.Id, tmp)
	}
}

func (w *rpcWrap) SendRequest(ctx context.Context, addr string, req *tikvrpc.Request, timeout time.Duration) (*tikvrpc.Response, error) {
	h := w.h
	h.mu.Lock()
	defer h.mu.Unlock()
	if !h.inCall {
		return w.Client.SendRequest(ctx, addr, req, timeout)
	}
	r := rec{cmd: req.Type}
	r.gid, r.pgid = gids()
	switch req.Type {
	case tikvrpc.CmdRawBatchGet:
		r.keys = req.RawBatchGet().Keys
	case tikvrpc.CmdRawBatchDelete:
		r.keys = req.RawBatchDelete().Keys
	case tikvrpc.CmdRawBatchPut:
		for _, p := range req.RawBatchPut().Pairs {
			r.keys = append(r.keys, p.Key)
			r.vlens = append(r.vlens, len(p.Value))
		}
	case tikvrpc.CmdRawScan:
		q := req.RawScan()
		r.start, r.end, r.limit = q.StartKey, q.EndKey, q.Limit
	case tikvrpc.CmdRawDeleteRange:
		q := req.RawDeleteRange()
		r.start, r.end = q.StartKey, q.EndKey
	case tikvrpc.CmdRawChecksum:
		q := req.RawChecksum()
		if len(q.Ranges) == 1 {
			r.start, r.end = q.Ranges[0].StartKey, q.Ranges[0].EndKey
		}
	}
	h.n++
	fk := ""
	if len(r.keys) > 0 {
		fk = string(r.keys[0])
	}
	h.fkCount[fk]++
	for _, in := range h.injs {
		if in.done {
			continue
		}
		if (!in.byFK && in.n == h.n) || (in.byFK && len(r.keys) > 0 && in.fk == fk && in.j == h.fkCount[fk]) {
			in.done = true
			h.topo(in.kind, in.arg)
			h.injected++
		}
	}
	c := &req.Context
	if b, ok := h.epochs[[3]uint64{c.GetRegionId(), c.GetRegionEpoch().GetVersion(), c.GetRegionEpoch().GetConfVer()}]; ok {
		r.bel, r.belOK = b, true
	}
	r.stale = !h.isCurrent(c)
	r.layout = h.layout()

	var resp *tikvrpc.Response
	var err error
	if h.mockfix && req.Type == tikvrpc.CmdRawCompareAndSwap {
		resp, err = w.fixedCAS(ctx, addr, req, timeout)
	} else {
		resp, err = w.Client.SendRequest(ctx, addr, req, timeout)
	}
	if err == nil && resp != nil {
		re, e2 := resp.GetRegionError()
		r.regionErr = e2 == nil && re != nil
		if !r.regionErr && r.stale && req.Type == tikvrpc.CmdRawBatchDelete {
			h.noteS12++ // S12: the mock serves a RawBatchDelete although the region epoch is stale
		}
		if h.mockfix && !r.regionErr {
			h.fixResponse(req, resp)
		}
	}
	h.recs = append(h.recs, r)
	if os.Getenv("C11_DEBUG") != "" {
		fmt.Fprintf(os.Stderr, "RPC %v region=%d ver=%d start=%q keys=%q regionErr=%v layout=%q\n", req.Type, c.GetRegionId(), c.GetRegionEpoch().GetVersion(), r.start, r.keys, r.regionErr, r.layout)
	}
	return resp, err
}

// fixResponse repairs, when `mockfix on`, the documented deviations of mocktikv's raw handlers from a correct
// store, so that the CLIENT is exercised over a correct store (the deviations themselves are exercised, and
// reported, by the `mockfix off` cases):
//   - RawBatchGet answers a pair with a nil value for every missing key (TiKV omits missing keys);
//   - RawScan ignores key_only.
func (h *env) fixResponse(req *tikvrpc.Request, resp *tikvrpc.Response) {
	switch req.Type {
	case tikvrpc.CmdRawBatchGet:
		raw, ok1 := h.mvcc.(mocktikv.RawKV)
		if r, ok := resp.Resp.(*kvrpcpb.RawBatchGetResponse); ok && ok1 {
			out := r.Pairs[:0:0]
			for _, p := range r.Pairs {
				// (a deleted key comes back from the mock's RawBatchGet as an empty non-nil value, a never written one as nil)
				if raw.RawGet(req.RawBatchGet().Cf, p.Key) != nil {
					out = append(out, p)
				}
			}
			r.Pairs = out
		}
	case tikvrpc.CmdRawScan:
		if r, ok := resp.Resp.(*kvrpcpb.RawScanResponse); ok && req.RawScan().KeyOnly {
			for _, p := range r.Kvs {
				p.Value = nil
			}
		}
	}
}

// fixedCAS (mockfix on): mocktikv's RawCompareAndSwap returns an error for a missing key and ignores
// previous_not_exist; a correct compare-and-swap is performed with the mock's RawGet / RawPut under the same
// request context (so region errors are still produced by the mock).
func (w *rpcWrap) fixedCAS(ctx context.Context, addr string, req *tikvrpc.Request, timeout time.Duration) (*tikvrpc.Response, error) {
	q := req.RawCompareAndSwap()
	g := tikvrpc.NewRequest(tikvrpc.CmdRawGet, &kvrpcpb.RawGetRequest{Key: q.Key, Cf: q.Cf})
	g.Context = req.Context
	gr, err := w.Client.SendRequest(ctx, addr, g, timeout)
	if err != nil {
		return nil, err
	}
	if re, _ := gr.GetRegionError(); re != nil {
		return &tikvrpc.Response{Resp: &kvrpcpb.RawCASResponse{RegionError: re}}, nil
	}
	cur := gr.Resp.(*kvrpcpb.RawGetResponse)
	found := !cur.NotFound
	match := (q.PreviousNotExist && !found) || (!q.PreviousNotExist && found && bytes.Equal(cur.Value, q.PreviousValue))
	if match {
		p := tikvrpc.NewRequest(tikvrpc.CmdRawPut, &kvrpcpb.RawPutRequest{Key: q.Key, Value: q.Value, Cf: q.Cf})
		p.Context = req.Context
		pr, err := w.Client.SendRequest(ctx, addr, p, timeout)
		if err != nil {
			return nil, err
		}
		if re, _ := pr.GetRegionError(); re != nil {
			return &tikvrpc.Response{Resp: &kvrpcpb.RawCASResponse{RegionError: re}}, nil
		}
	}
	return &tikvrpc.Response{Resp: &kvrpcpb.RawCASResponse{Succeed: match, PreviousNotExist: !found, PreviousValue: cur.Value}}, nil
}

// ---------------------------------------------------------------------------------------------- tokens

func parseVal(s string) ([]byte, bool) {
	if strings.HasPrefix(s, "r") {
		parts := strings.Split(s[1:], "x")
		if len(parts) != 2 {
			return nil, false
		}
		n, err := strconv.Atoi(parts[0])
		b, ok := vx.UnHex(parts[1])
		if err != nil || !ok || len(b) != 1 || n < 0 {
			return nil, false
		}
		return bytes.Repeat(b, n), true
	}
	return vx.UnHex(s)
}

func parseKeys(s string) ([][]byte, bool) {
	if s == "." {
		return nil, true
	}
	var out [][]byte
	for _, t := range strings.Split(s, ",") {
		b, ok := vx.UnHex(t)
		if !ok {
			return nil, false
		}
		out = append(out, b)
	}
	return out, true
}

func joinOr(l []string, sep string) string {
	if len(l) == 0 {
		return "."
	}
	return strings.Join(l, sep)
}

func showOpt(v []byte) string {
	if v == nil {
		return "nil"
	}
	return vx.Hex(v)
}

func showKVs(ks, vs [][]byte) string {
	var l []string
	for i := range ks {
		l = append(l, vx.Hex(ks[i])+"="+vx.Hex(vs[i]))
	}
	return joinOr(l, ",")
}

func layoutTok(l []string) string {
	var sb strings.Builder
	for _, s := range l {
		sb.WriteString("," + vx.Hex([]byte(s)))
	}
	return sb.String()
}

func verdict(ok bool, what, body string) string {
	if ok {
		if body == "" {
			return "ok"
		}
		return "ok " + body
	}
	if body == "" {
		return "FAIL " + what
	}
	return "FAIL " + what + " " + body
}

// ---------------------------------------------------------------------------------------------- observation

func (h *env) seqObs() string {
	var l []string
	for _, r := range h.recs {
		if r.regionErr {
			l = append(l, "e")
		} else {
			l = append(l, "o"+layoutTok(r.layout))
		}
	}
	return joinOr(l, ";")
}

func (h *env) seqTrace() string {
	var l []string
	for _, r := range h.recs {
		if !r.regionErr {
			l = append(l, fmt.Sprintf("%s:%s:%d", vx.Hex(r.start), vx.Hex(r.end), r.limit))
		}
	}
	return joinOr(l, ",")
}

func inBounds(b bounds, k []byte) bool {
	return string(k) >= b.s && (b.e == "" || string(k) < b.e)
}

type batchObs struct {
	keys  [][]byte
	vlens []int
	bel   bounds
	ok    bool
	gid   uint64
}

type batchTree struct {
	entries []string    // model script, depth-first
	all     []*batchObs // every batch (sent, or failed before anything was sent)
}

// descendants' keys of a goroutine that never sent a request itself
func (h *env) phantomKeys(p uint64) (ks [][]byte, vl []int) {
	for _, r := range h.recs {
		if r.pgid == p {
			ks = append(ks, r.keys...)
			vl = append(vl, r.vlens...)
		}
	}
	return
}

// batchScript rebuilds the invocation tree of sendBatchReq / sendBatchPut from the recorded requests:
// every batch runs in its own goroutine (created by the goroutine that runs the invocation), a failed batch
// re-groups in its own goroutine.  A batch can fail without any request being sent (pseudo region error: the
// cached region was invalidated by a concurrent batch); such a goroutine is known only as the creator of its
// sub-batches and gets the bounds [min key, max key ++ 00) inside its (unknown) cached region.
// Entries are emitted depth-first, batches in the model's order (regions by first appearance in the key list,
// chunks in request order).
func (h *env) batchScript(node uint64, keys [][]byte, vlenOf map[string]int, t *batchTree, assigned map[uint64]bool) bool {
	byG := map[uint64]*batchObs{}
	var order []uint64
	hasRec := map[uint64]bool{}
	for _, r := range h.recs {
		hasRec[r.gid] = true
	}
	for _, r := range h.recs {
		if r.pgid != node {
			continue
		}
		b, ok := byG[r.gid]
		if !ok {
			b = &batchObs{gid: r.gid}
			byG[r.gid] = b
			order = append(order, r.gid)
		}
		if !r.belOK {
			return false
		}
		b.keys, b.vlens, b.bel, b.ok = r.keys, r.vlens, r.bel, !r.regionErr // the last attempt decides
	}
	// keys not covered by a sent batch belong to batches that failed before sending
	uncovered := map[string]bool{}
	for _, k := range keys {
		cov := false
		for _, g := range order {
			if inBounds(byG[g].bel, k) {
				cov = true
			}
		}
		if !cov {
			uncovered[string(k)] = true
		}
	}
	if len(uncovered) > 0 {
		var cands []uint64
		seen := map[uint64]bool{}
		for _, r := range h.recs {
			if !hasRec[r.pgid] && r.pgid != h.rootGid && !assigned[r.pgid] && !seen[r.pgid] {
				seen[r.pgid] = true
				cands = append(cands, r.pgid)
			}
		}
		for _, p := range cands {
			pk, _ := h.phantomKeys(p)
			if len(pk) == 0 {
				continue
			}
			all := true
			lo, hi := string(pk[0]), string(pk[0])
			set := map[string]bool{}
			for _, k := range pk {
				if !uncovered[string(k)] {
					all = false
				}
				set[string(k)] = true
				if string(k) < lo {
					lo = string(k)
				}
				if string(k) > hi {
					hi = string(k)
				}
			}
			if !all {
				continue
			}
			assigned[p] = true
			b := &batchObs{gid: p, ok: false, bel: bounds{lo, hi + "\x00"}}
			for _, k := range keys {
				if set[string(k)] {
					b.keys = append(b.keys, k)
					b.vlens = append(b.vlens, vlenOf[string(k)])
					delete(uncovered, string(k))
				}
			}
			byG[p] = b
			order = append(order, p)
		}
		if len(uncovered) > 0 {
			return false
		}
	}
	// layout: all bounds
	set := map[string]bool{}
	for _, g := range order {
		b := byG[g]
		if b.bel.s != "" {
			set[b.bel.s] = true
		}
		if b.bel.e != "" {
			set[b.bel.e] = true
		}
	}
	var lay []string
	for s := range set {
		lay = append(lay, s)
	}
	sort.Strings(lay)
	// order the batches
	used := map[uint64]bool{}
	var seq []*batchObs
	seenRegion := map[bounds]bool{}
	for _, k := range keys {
		var reg *bounds
		for _, g := range order {
			if inBounds(byG[g].bel, k) {
				reg = &byG[g].bel
				break
			}
		}
		if reg == nil {
			return false
		}
		if seenRegion[*reg] {
			continue
		}
		seenRegion[*reg] = true
		var rem [][]byte
		for _, k2 := range keys {
			if inBounds(*reg, k2) {
				rem = append(rem, k2)
			}
		}
		for len(rem) > 0 {
			// candidates that are prefixes of each other consist of identical items: the builders fill every chunk
			// but the last one of a group to the same length, so the longest candidate comes first
			var best *batchObs
			for _, g := range order {
				b := byG[g]
				if used[g] || b.bel != *reg || len(b.keys) > len(rem) || len(b.keys) == 0 {
					continue
				}
				eq := true
				for i := range b.keys {
					if !bytes.Equal(b.keys[i], rem[i]) {
						eq = false
						break
					}
				}
				if eq && (best == nil || len(b.keys) > len(best.keys)) {
					best = b
				}
			}
			if best == nil {
				return false
			}
			used[best.gid] = true
			seq = append(seq, best)
			rem = rem[len(best.keys):]
		}
	}
	if len(seq) != len(order) {
		return false
	}
	outs := ""
	for _, b := range seq {
		if b.ok {
			outs += "o"
		} else {
			outs += "e"
		}
	}
	if outs == "" {
		outs = "."
	}
	t.entries = append(t.entries, outs+"/"+layoutTok(lay))
	for _, b := range seq {
		t.all = append(t.all, b)
		if !b.ok {
			if !h.batchScript(b.gid, b.keys, vlenOf, t, assigned) {
				return false
			}
		}
	}
	return true
}

// batchObserve returns the model's script token and the canonical list of batches ("?" if the tree could not be rebuilt)
func (h *env) batchObserve(keys [][]byte, vals [][]byte, withLen bool) (string, string) {
	vlenOf := map[string]int{}
	for i := range vals {
		vlenOf[string(keys[i])] = len(vals[i]) // the last value of a key wins, as in sendBatchPut
	}
	t := &batchTree{}
	if !h.batchScript(h.rootGid, keys, vlenOf, t, map[uint64]bool{}) {
		if os.Getenv("C11_DEBUG2") != "" {
			fmt.Fprintf(os.Stderr, "RECONSTRUCT FAIL root=%d keys=%q\n", h.rootGid, keys)
			for _, r := range h.recs {
				fmt.Fprintf(os.Stderr, "   gid=%d pgid=%d keys=%q bel=%q belOK=%v err=%v\n", r.gid, r.pgid, r.keys, r.bel, r.belOK, r.regionErr)
			}
		}
		return "?", ""
	}
	n := 0
	for _, b := range t.all {
		if hasRecFor(h.recs, b.gid) {
			n++
		}
	}
	gs := map[uint64]bool{}
	for _, r := range h.recs {
		gs[r.gid] = true
	}
	if n != len(gs) { // every goroutine that sent something must be in the tree
		return "?", ""
	}
	var l []string
	for _, b := range t.all {
		var ks []string
		for i, k := range b.keys {
			if withLen {
				ks = append(ks, fmt.Sprintf("%s:%d", vx.Hex(k), b.vlens[i]))
			} else {
				ks = append(ks, vx.Hex(k))
			}
		}
		e := strings.Join(ks, "+")
		if !b.ok {
			e += "!"
		}
		l = append(l, e)
	}
	sort.Strings(l)
	return strings.Join(t.entries, ";"), joinOr(l, ",")
}

func hasRecFor(recs []rec, g uint64) bool {
	for _, r := range recs {
		if r.gid == g {
			return true
		}
	}
	return false
}

// ---------------------------------------------------------------------------------------------- reference map

func (h *env) refKeys() []string {
	ks := make([]string, 0, len(h.ref))
	for k := range h.ref {
		ks = append(ks, k)
	}
	sort.Strings(ks)
	return ks
}

func (h *env) refGet(k []byte) []byte {
	v, ok := h.ref[string(k)]
	if !ok {
		return nil
	}
	return v
}

// refRange: pairs with lo <= k < hi (hi empty = unbounded), ascending
func (h *env) refRange(lo, hi []byte) (ks, vs [][]byte) {
	for _, k := range h.refKeys() {
		if k >= string(lo) && (len(hi) == 0 || k < string(hi)) {
			ks = append(ks, []byte(k))
			vs = append(vs, h.ref[k])
		}
	}
	return
}

// stateOK: the store content (read directly from the mock's engine, not through the client) equals the reference
func (h *env) stateOK() bool {
	raw, ok := h.mvcc.(mocktikv.RawKV)
	if !ok {
		return false
	}
	pairs := raw.RawScan(rawCF, nil, nil, 1<<30)
	ks := h.refKeys()
	if len(pairs) != len(ks) {
		return false
	}
	for i, p := range pairs {
		if string(p.Key) != ks[i] || !bytes.Equal(p.Value, h.ref[ks[i]]) {
			return false
		}
	}
	return true
}

func eqOpt(a, b []byte) bool { return (a == nil) == (b == nil) && bytes.Equal(a, b) }

func kvEq(ks, vs, wk, wv [][]byte) bool {
	if len(ks) != len(wk) || len(vs) != len(wv) || len(ks) != len(vs) {
		return false
	}
	for i := range ks {
		if !bytes.Equal(ks[i], wk[i]) || !bytes.Equal(vs[i], wv[i]) || vs[i] == nil {
			return false
		}
	}
	return true
}

// ---------------------------------------------------------------------------------------------- exec

func parseInj(s string, batch bool) ([]*injection, bool) {
	if s == "." {
		return nil, true
	}
	var out []*injection
	for _, t := range strings.Split(s, ",") {
		p := strings.Split(t, ":")
		if len(p) != 3 {
			return nil, false
		}
		arg, ok := vx.UnHex(p[2])
		if !ok || (p[1] != "split" && p[1] != "merge" && p[1] != "leader" && p[1] != "sendfail") {
			return nil, false
		}
		in := &injection{kind: p[1], arg: arg}
		if strings.HasPrefix(p[0], "k") {
			q := strings.Split(p[0][1:], "#")
			if len(q) != 2 {
				return nil, false
			}
			fk, ok := vx.UnHex(q[0])
			j, err := strconv.Atoi(q[1])
			if !ok || err != nil {
				return nil, false
			}
			in.byFK, in.fk, in.j = true, string(fk), j
		} else {
			n, err := strconv.Atoi(p[0])
			if err != nil {
				return nil, false
			}
			in.n = n
		}
		out = append(out, in)
	}
	_ = batch
	return out, true
}

func nilIfEmpty(b []byte) []byte {
	if len(b) == 0 {
		return nil
	}
	return b
}

// exec runs one op line (without its `obs` part) and returns (result line, observed script token or "")
func (h *env) exec(line string) (res string, obs string) {
	defer func() {
		if e := recover(); e != nil {
			h.inCall = false
			res = "panic"
		}
	}()
	w := strings.Fields(line)
	if len(w) == 0 {
		return "bad-op", ""
	}
	switch {
	case w[0] == "reset" && len(w) == 1:
		h.reset()
		return "ok", ""
	case w[0] == "topo" && len(w) == 3:
		k, ok := vx.UnHex(w[2])
		if !ok {
			return "bad-op", ""
		}
		h.topo(w[1], k)
		return "ok", ""
	case w[0] == "mockfix" && len(w) == 2:
		h.mockfix = w[1] == "on"
		return "ok", ""
	}
	if len(w) < 3 || w[len(w)-2] != "inj" {
		return "bad-op", ""
	}
	op := w[:len(w)-2]
	isBatch := op[0] == "bget" || op[0] == "bput" || op[0] == "bdel"
	injs, ok := parseInj(w[len(w)-1], isBatch)
	if !ok {
		return "bad-op", ""
	}
	ctx, cancelCtx := context.WithTimeout(context.Background(), 3*time.Second)
	defer cancelCtx()
	begin := func() {
		h.mu.Lock()
		h.inCall, h.n, h.fkCount, h.injs, h.recs = true, 0, map[string]int{}, injs, nil
		h.rootGid, _ = gids()
		h.mu.Unlock()
	}
	end := func() {
		h.mu.Lock()
		h.inCall = false
		h.mu.Unlock()
	}
	errRes := func(err error) string {
		if strings.Contains(err.Error(), "leveldb: not found") {
			return "FAIL err notfound"
		}
		if os.Getenv("C11_DEBUG") != "" {
			fmt.Fprintf(os.Stderr, "error: %+v\n", err)
		}
		if strings.Contains(err.Error(), "region unavailable") || strings.Contains(err.Error(), "context deadline exceeded") || strings.Contains(err.Error(), "epoch_not_match") {
			return "FAIL err region-unavailable" // back-off budget (or the harness' 3 s deadline) used up without progress
		}
		return "FAIL err other"
	}
	switch {
	case op[0] == "put" && len(op) == 4:
		k, ok1 := vx.UnHex(op[1])
		v, ok2 := parseVal(op[2])
		ttl, e3 := strconv.ParseUint(op[3], 10, 64)
		if !ok1 || !ok2 || e3 != nil {
			return "bad-op", ""
		}
		begin()
		err := h.cli.PutWithTTL(ctx, k, v, ttl)
		end()
		if err != nil {
			return errRes(err), h.seqObs()
		}
		h.ref[string(k)] = v
		return verdict(h.stateOK(), "state", ""), h.seqObs()
	case op[0] == "del" && len(op) == 2:
		k, ok1 := vx.UnHex(op[1])
		if !ok1 {
			return "bad-op", ""
		}
		begin()
		err := h.cli.Delete(ctx, k)
		end()
		if err != nil {
			return errRes(err), h.seqObs()
		}
		delete(h.ref, string(k))
		return verdict(h.stateOK(), "state", ""), h.seqObs()
	case op[0] == "get" && len(op) == 2:
		k, ok1 := vx.UnHex(op[1])
		if !ok1 {
			return "bad-op", ""
		}
		begin()
		v, err := h.cli.Get(ctx, k)
		end()
		if err != nil {
			return errRes(err), h.seqObs()
		}
		return verdict(eqOpt(v, h.refGet(k)), "get", showOpt(v)), h.seqObs()
	case op[0] == "cas" && len(op) == 4:
		k, ok1 := vx.UnHex(op[1])
		var prev []byte
		ok2 := true
		if op[2] != "nil" {
			prev, ok2 = parseVal(op[2])
		}
		nv, ok3 := parseVal(op[3])
		if !ok1 || !ok2 || !ok3 {
			return "bad-op", ""
		}
		begin()
		cur, swapped, err := h.cli.CompareAndSwap(ctx, k, prev, nv)
		end()
		if err != nil {
			return errRes(err), h.seqObs()
		}
		want := h.refGet(k)
		wantSwap := eqOpt(want, prev)
		if wantSwap {
			h.ref[string(k)] = nv
		}
		return verdict(eqOpt(cur, want) && swapped == wantSwap && h.stateOK(), "cas", fmt.Sprintf("%s %v", showOpt(cur), swapped)), h.seqObs()
	case op[0] == "bget" && len(op) == 2:
		ks, ok1 := parseKeys(op[1])
		if !ok1 {
			return "bad-op", ""
		}
		begin()
		vals, err := h.cli.BatchGet(ctx, ks)
		end()
		obs, trace := h.batchObserve(ks, nil, false)
		if err != nil {
			return errRes(err), obs
		}
		good := len(vals) == len(ks)
		var l []string
		missingAsEmpty := false
		for i, v := range vals {
			l = append(l, showOpt(v))
			if i < len(ks) && !eqOpt(v, h.refGet(ks[i])) {
				good = false
				if h.refGet(ks[i]) == nil && v != nil && len(v) == 0 {
					missingAsEmpty = true
				}
			}
		}
		what := "bget"
		if missingAsEmpty {
			what = "bget missing-key-returned-as-empty-value"
		}
		if obs == "?" && good {
			return "unobserved", obs
		}
		return verdict(good, what, joinOr(l, ",")+" rpc "+trace), obs
	case op[0] == "bput" && len(op) == 2:
		var ks, vs [][]byte
		if op[1] != "." {
			for _, t := range strings.Split(op[1], ",") {
				p := strings.Split(t, "=")
				if len(p) != 2 {
					return "bad-op", ""
				}
				k, ok1 := vx.UnHex(p[0])
				v, ok2 := parseVal(p[1])
				if !ok1 || !ok2 {
					return "bad-op", ""
				}
				ks, vs = append(ks, k), append(vs, v)
			}
		}
		begin()
		err := h.cli.BatchPut(ctx, ks, vs)
		end()
		obs, trace := h.batchObserve(ks, vs, true)
		if err != nil {
			return errRes(err), obs
		}
		for i := range ks {
			h.ref[string(ks[i])] = vs[i]
		}
		if obs == "?" && h.stateOK() {
			return "unobserved", obs
		}
		return verdict(h.stateOK(), "state", "rpc "+trace), obs
	case op[0] == "bdel" && len(op) == 2:
		ks, ok1 := parseKeys(op[1])
		if !ok1 {
			return "bad-op", ""
		}
		begin()
		err := h.cli.BatchDelete(ctx, ks)
		end()
		obs, trace := h.batchObserve(ks, nil, false)
		if err != nil {
			return errRes(err), obs
		}
		for _, k := range ks {
			delete(h.ref, string(k))
		}
		if obs == "?" && h.stateOK() {
			return "unobserved", obs
		}
		return verdict(h.stateOK(), "state", "rpc "+trace), obs
	case (op[0] == "scan" || op[0] == "rscan") && len(op) == 5:
		s, ok1 := vx.UnHex(op[1])
		e, ok2 := vx.UnHex(op[2])
		limit, e3 := strconv.Atoi(op[3])
		if !ok1 || !ok2 || e3 != nil {
			return "bad-op", ""
		}
		ko := op[4] == "1"
		var opts []rawkv.RawOption
		if ko {
			opts = append(opts, rawkv.ScanKeyOnly())
		}
		var ks, vs [][]byte
		var err error
		begin()
		if op[0] == "scan" {
			ks, vs, err = h.cli.Scan(ctx, nilIfEmpty(s), nilIfEmpty(e), limit, opts...)
		} else {
			ks, vs, err = h.cli.ReverseScan(ctx, nilIfEmpty(s), nilIfEmpty(e), limit, opts...)
		}
		end()
		if err != nil {
			return errRes(err), h.seqObs()
		}
		var wk, wv [][]byte
		if op[0] == "scan" {
			wk, wv = h.refRange(s, e)
		} else {
			// keys in [e, s), descending; an empty upper bound selects nothing (documented: no scan from +inf)
			if len(s) > 0 {
				wk, wv = h.refRange(e, s)
			}
			for i, j := 0, len(wk)-1; i < j; i, j = i+1, j-1 {
				wk[i], wk[j] = wk[j], wk[i]
				wv[i], wv[j] = wv[j], wv[i]
			}
		}
		if len(wk) > limit {
			wk, wv = wk[:limit], wv[:limit]
		}
		if ko {
			for i := range wv {
				wv[i] = []byte{}
			}
		}
		what := op[0]
		if ko && len(ks) == len(wk) {
			what += " key-only-returned-values"
		}
		return verdict(kvEq(ks, vs, wk, wv), what, showKVs(ks, vs)+" rpc "+h.seqTrace()), h.seqObs()
	case op[0] == "delrange" && len(op) == 3:
		s, ok1 := vx.UnHex(op[1])
		e, ok2 := vx.UnHex(op[2])
		if !ok1 || !ok2 {
			return "bad-op", ""
		}
		begin()
		err := h.cli.DeleteRange(ctx, nilIfEmpty(s), nilIfEmpty(e))
		end()
		if err != nil {
			return errRes(err), h.seqObs()
		}
		wk, _ := h.refRange(s, e)
		for _, k := range wk {
			delete(h.ref, string(k))
		}
		return verdict(h.stateOK(), "state", "rpc "+h.seqTrace()), h.seqObs()
	case op[0] == "checksum" && len(op) == 3:
		s, ok1 := vx.UnHex(op[1])
		e, ok2 := vx.UnHex(op[2])
		if !ok1 || !ok2 {
			return "bad-op", ""
		}
		begin()
		cs, err := h.cli.Checksum(ctx, nilIfEmpty(s), nilIfEmpty(e))
		end()
		if err != nil {
			return errRes(err), h.seqObs()
		}
		wk, wv := h.refRange(s, e)
		var crc, total uint64
		for i := range wk {
			crc ^= crc64ecma(append(append([]byte{}, wk[i]...), wv[i]...))
			total += uint64(len(wk[i]) + len(wv[i]))
		}
		good := cs.Crc64Xor == crc && cs.TotalKvs == uint64(len(wk)) && cs.TotalBytes == total
		return verdict(good, "checksum", fmt.Sprintf("%d %d %d rpc %s", cs.Crc64Xor, cs.TotalKvs, cs.TotalBytes, h.seqTrace())), h.seqObs()
	}
	return "bad-op", ""
}

// crc64ecma: the reference's own bitwise CRC-64/ECMA (reflected, init and final xor all-ones), independent of hash/crc64
func crc64ecma(data []byte) uint64 {
	crc := ^uint64(0)
	for _, b := range data {
		crc ^= uint64(b)
		for i := 0; i < 8; i++ {
			if crc&1 == 1 {
				crc = (crc >> 1) ^ 0xC96C5795D7870F42
			} else {
				crc >>= 1
			}
		}
	}
	return ^crc
}

// ---------------------------------------------------------------------------------------------- generation

var pool = []string{"", "a", "b", "c", "ca", "cb", "cc", "d", "m", "ma", "mb", "n", "x", "y", "z", "zz"}

func (h *env) do(line string) {
	run := h.run
	base := line
	if i := strings.Index(line, " obs "); i >= 0 {
		base = line[:i]
	}
	t0 := time.Now()
	res, obs := h.exec(base)
	if d := time.Since(t0); d > 300*time.Millisecond && os.Getenv("C11_SLOW") != "" {
		fmt.Fprintf(os.Stderr, "SLOW %v %.200s -> %.80s\n", d, base, res)
	}
	w := strings.Fields(base)
	if len(w) > 0 {
		run.Count("op:" + w[0])
	}
	if strings.HasPrefix(res, "FAIL err") {
		run.Count("result:err")
	}
	full := base
	if len(w) >= 3 && w[len(w)-2] == "inj" {
		if obs == "" {
			obs = "."
		}
		full = base + " obs " + obs
		if w[len(w)-1] != "." {
			run.Count("calls_with_injection")
		}
		if strings.Contains(obs, "e") {
			run.Count("calls_with_region_error")
		}
		if obs == "?" {
			run.Count("batch_calls_unobserved")
		}
	}
	run.Emit(full, res)
}

func key(r *vx.Rand) []byte {
	if r.Chance(8) {
		return []byte{byte('a' + r.Intn(26)), byte('a' + r.Intn(3))}
	}
	return []byte(pool[r.Intn(len(pool))])
}
func nonEmptyKey(r *vx.Rand) []byte {
	for {
		if k := key(r); len(k) > 0 {
			return k
		}
	}
}
func val(r *vx.Rand) string {
	switch r.Intn(6) {
	case 0:
		return "-"
	case 1:
		return fmt.Sprintf("r%dx%02x", 1+r.Intn(40), 0x30+r.Intn(10))
	}
	b := make([]byte, 1+r.Intn(3))
	for i := range b {
		b[i] = byte(r.U64())
	}
	return vx.Hex(b)
}
func kind(r *vx.Rand) string {
	return []string{"split", "split", "merge", "leader", "sendfail", "sendfail"}[r.Intn(6)]
}

func seqInj(r *vx.Rand) string {
	if r.Chance(45) {
		return "."
	}
	var l []string
	for i := 0; i < 1+r.Intn(3); i++ {
		l = append(l, fmt.Sprintf("%d:%s:%s", 1+r.Intn(5), kind(r), vx.Hex(nonEmptyKey(r))))
	}
	return strings.Join(l, ",")
}
func batchInj(r *vx.Rand, ks [][]byte) string {
	if r.Chance(45) || len(ks) == 0 {
		return "."
	}
	var l []string
	for i := 0; i < 1+r.Intn(3); i++ {
		l = append(l, fmt.Sprintf("k%s#%d:%s:%s", vx.Hex(ks[r.Intn(len(ks))]), 1+r.Intn(2), kind(r), vx.Hex(nonEmptyKey(r))))
	}
	return strings.Join(l, ",")
}
func limit(r *vx.Rand) int {
	return []int{0, 1, 1, 2, 2, 3, 4, 5, 100}[r.Intn(9)]
}

func (h *env) genCase(r *vx.Rand, nOps int) {
	h.do("reset")
	nSplit := r.Intn(5)
	for i := 0; i < nSplit; i++ {
		h.do("topo split " + vx.Hex(nonEmptyKey(r)))
	}
	for i := 0; i < nOps; i++ {
		switch c := r.Intn(100); {
		case c < 10:
			h.do(fmt.Sprintf("topo %s %s", kind(r), vx.Hex(nonEmptyKey(r))))
		case c < 24:
			h.do(fmt.Sprintf("put %s %s %d inj %s", vx.Hex(key(r)), val(r), r.Intn(2)*r.Intn(100), seqInj(r)))
		case c < 30:
			h.do(fmt.Sprintf("get %s inj %s", vx.Hex(key(r)), seqInj(r)))
		case c < 34:
			h.do(fmt.Sprintf("del %s inj %s", vx.Hex(key(r)), seqInj(r)))
		case c < 39:
			prev := "nil"
			k := key(r)
			if r.Chance(70) {
				if v := h.refGet(k); v != nil && r.Chance(70) {
					prev = vx.Hex(v)
				} else {
					prev = val(r)
				}
			}
			h.do(fmt.Sprintf("cas %s %s %s inj %s", vx.Hex(k), prev, val(r), seqInj(r)))
		case c < 50:
			var ks [][]byte
			var l []string
			for j := r.Intn(9); j > 0; j-- {
				k := key(r)
				ks = append(ks, k)
				l = append(l, vx.Hex(k)+"="+val(r))
			}
			h.do(fmt.Sprintf("bput %s inj %s", joinOr(l, ","), batchInj(r, ks)))
		case c < 60:
			var ks [][]byte
			var l []string
			for j := r.Intn(9); j > 0; j-- {
				k := key(r)
				ks = append(ks, k)
				l = append(l, vx.Hex(k))
			}
			h.do(fmt.Sprintf("bget %s inj %s", joinOr(l, ","), batchInj(r, ks)))
		case c < 65:
			var ks [][]byte
			var l []string
			for j := r.Intn(6); j > 0; j-- {
				k := key(r)
				ks = append(ks, k)
				l = append(l, vx.Hex(k))
			}
			h.do(fmt.Sprintf("bdel %s inj %s", joinOr(l, ","), batchInj(r, ks)))
		case c < 77:
			h.do(fmt.Sprintf("scan %s %s %d %d inj %s", vx.Hex(key(r)), vx.Hex(key(r)), limit(r), r.Intn(4)/3, seqInj(r)))
		case c < 87:
			h.do(fmt.Sprintf("rscan %s %s %d %d inj %s", vx.Hex(key(r)), vx.Hex(key(r)), limit(r), r.Intn(4)/3, seqInj(r)))
		case c < 94:
			h.do(fmt.Sprintf("delrange %s %s inj %s", vx.Hex(key(r)), vx.Hex(key(r)), seqInj(r)))
		default:
			h.do(fmt.Sprintf("checksum %s %s inj %s", vx.Hex(key(r)), vx.Hex(key(r)), seqInj(r)))
		}
	}
	// closing reads: a limit below the number of pairs (the scan must stop inside some region), then everything
	h.do(fmt.Sprintf("scan - - %d 0 inj .", 1+r.Intn(4)))
	h.do(fmt.Sprintf("rscan 7b - %d 0 inj .", 1+r.Intn(4)))
	h.do("scan - - 100 0 inj .")
	h.do("checksum - - inj .")
}

// bigCase: batches beyond rawBatchPairCount keys / rawBatchPutSize bytes per region (chunking), with duplicates
func (h *env) bigCase(r *vx.Rand) {
	h.do("reset")
	h.do("topo split " + vx.Hex([]byte("m")))
	if r.Bool() {
		h.do("topo split " + vx.Hex([]byte("c")))
	}
	var l, kl []string
	var ks [][]byte
	for j := 0; j < 6; j++ {
		k := nonEmptyKey(r)
		ks = append(ks, k)
		l = append(l, fmt.Sprintf("%s=r%dx%02x", vx.Hex(k), 5000+r.Intn(6000), 0x41+j))
	}
	h.do(fmt.Sprintf("bput %s inj %s", strings.Join(l, ","), batchInj(r, ks)))
	ks = nil
	n := 500 + r.Intn(700)
	for j := 0; j < n; j++ {
		k := nonEmptyKey(r)
		ks = append(ks, k)
		kl = append(kl, vx.Hex(k))
	}
	h.do(fmt.Sprintf("bget %s inj %s", strings.Join(kl, ","), batchInj(r, ks[:8])))
	h.do(fmt.Sprintf("bdel %s inj %s", strings.Join(kl[:n/2+200], ","), batchInj(r, ks[:8])))
	h.do("scan - - 100 1 inj .")
}

// quirkCases: the raw mock (mockfix off) on its deviations: raw handlers (4 cases) and the epoch of a merged region
func (h *env) quirkCases(caseNo *int) {
	cases := [][]string{
		{"put 6b 01 0 inj .", "bget 6b,6c inj ."},
		{"put 6b 01 0 inj .", "scan - - 10 1 inj ."},
		{"cas 6b nil 01 inj ."},
		{"put 6b - 0 inj .", "cas 6b nil 02 inj ."},
		{"topo split 62", "topo split 79", "topo split 64", "delrange 6361 79 inj .", "rscan 7a 6361 2 0 inj 1:merge:63,1:merge:61"},
	}
	for _, c := range cases {
		*caseNo++
		h.run.Comment(fmt.Sprintf("case %d", *caseNo))
		h.do("reset")
		h.do("mockfix off")
		for _, l := range c {
			h.do(l)
		}
	}
}

func main() {
	run := vx.Start()
	defer run.Finish()
	if os.Getenv("C11_DEBUG") == "" {
		log.ReplaceGlobals(zap.NewNop(), nil)
	}
	// // mocktikv logs errors with stacks; results are canonical lines only
	util.EnableFailpoints()
	failpoint.Enable("tikvclient/fastBackoffBySkipSleep", "return(true)")
	h := &env{run: run}
	h.reset()
	defer func() {
		run.Stats["note:s12_stale_batch_delete_served"] = h.noteS12
		run.Stats["topology_changes_injected_inside_calls"] = h.injected
	}()
	if run.Replay != "" {
		for _, l := range run.ReplayLines() {
			if strings.HasPrefix(l, "#") {
				run.Comment(strings.TrimSpace(l[1:]))
				continue
			}
			h.do(l)
		}
		return
	}
	r := vx.NewRand(run.Seed*0x2545F4914F6CDD1D + 99) // (vx seeds k and k+1 are one step apart in the same splitmix sequence)
	caseNo := 0
	h.quirkCases(&caseNo)
	nCases, nOps, nBig := 90, 22, 2
	if run.Thorough() {
		nCases, nOps, nBig = 6000, 40, 80
	}
	for i := 0; i < nBig; i++ {
		caseNo++
		run.Comment(fmt.Sprintf("case %d", caseNo))
		h.bigCase(r)
	}
	for i := 0; i < nCases; i++ {
		caseNo++
		run.Comment(fmt.Sprintf("case %d", caseNo))
		h.genCase(r, 4+r.Intn(nOps))
	}
}
