//go:build verif

// C20 harness: drives the real config/retry Backoffer API on op lines shared with the Lean model driver (cgv-c20).
//
// Sleeping is virtualised with the failpoint tikvclient/fastBackoffBySkipSleep.  The jitter is not controlled: the
// closure's own debug log line ("backoff": base, sleep, attempts) is captured through the global zap logger and the
// observed pre-truncation sleep is written into the op line (`bo id cfg max <sleep> <errk>`), where the model
// checks it against its allowed interval.  The same holds for the error class returned on exhaustion (Go picks the
// longest sleeper in map iteration order).
package main

import (
	"context"
	stderrors "errors"
	"fmt"
	"sort"
	"strconv"
	"strings"
	"sync/atomic"

	"github.com/pingcap/failpoint"
	"github.com/pingcap/log"
	"github.com/pkg/errors"
	"github.com/tikv/client-go/v2/config/retry"
	tikverr "github.com/tikv/client-go/v2/error"
	"github.com/tikv/client-go/v2/kv"
	"github.com/tikv/client-go/v2/util"
	"github.com/tikv/client-go/v2/verifx/vx"
	"go.uber.org/zap"
	"go.uber.org/zap/zapcore"
)

// ---------------------------------------------------------------- log capture

type capture struct {
	got          bool
	base, sleep  int
	attempts     int
	exceededWarn bool
}

var cap0 capture

type capCore struct{}

func (capCore) Enabled(zapcore.Level) bool        { return true }
func (c capCore) With([]zapcore.Field) zapcore.Core { return c }
func (c capCore) Check(e zapcore.Entry, ce *zapcore.CheckedEntry) *zapcore.CheckedEntry {
	if e.Message == "backoff" || strings.Contains(e.Message, "is exceeded, errors:") {
		return ce.AddCore(e, c)
	}
	return ce
}
func (capCore) Write(e zapcore.Entry, fs []zapcore.Field) error {
	if e.Message != "backoff" {
		cap0.exceededWarn = true
		return nil
	}
	cap0.got = true
	for _, f := range fs {
		switch f.Key {
		case "base":
			cap0.base = int(f.Integer)
		case "sleep":
			cap0.sleep = int(f.Integer)
		case "attempts":
			cap0.attempts = int(f.Integer)
		}
	}
	return nil
}
func (capCore) Sync() error { return nil }

// ---------------------------------------------------------------- configs

type cfgInfo struct {
	ident  string
	cfg    *retry.Config
	name   string
	base   int
	cap    int
	jitter int
	err    error
	errK   string
}

var tableVars = []*retry.Config{
	retry.BoTiKVRPC, retry.BoTiFlashRPC, retry.BoTxnLock, retry.BoPDRPC, retry.BoRegionMiss, retry.BoRegionScheduling,
	retry.BoTiKVServerBusy, retry.BoTiKVDiskFull, retry.BoRegionRecoveryInProgress, retry.BoTiFlashServerBusy,
	retry.BoTxnNotFound, retry.BoStaleCmd, retry.BoMaxTsNotSynced, retry.BoCommitTSLag, retry.BoMaxRegionNotInitialized,
	retry.BoIsWitness, retry.BoTxnLockFast,
}

var tableCfgs []*cfgInfo

func sameErr(a, b error) bool {
	return fmt.Sprintf("%T|%v", a, a) == fmt.Sprintf("%T|%v", b, b)
}

func initTable() {
	for _, c := range tableVars {
		name, base, cp, jit, err := retry.VerifCfg(c)
		ci := &cfgInfo{ident: name, cfg: c, name: name, base: base, cap: cp, jitter: jit, err: err, errK: name}
		for _, o := range tableCfgs {
			if sameErr(o.err, err) {
				ci.errK = o.errK
				break
			}
		}
		tableCfgs = append(tableCfgs, ci)
	}
}

var callerErr = stderrors.New("verif caller error")

// ---------------------------------------------------------------- world

type bo struct {
	b       *retry.Backoffer
	cancel  context.CancelFunc // of the context created together with this back-offer (nil for clones)
	killed  *uint32            // flag of the Variables created together with this back-offer
	noop    bool
	parent  int  // harness' own record of Fork (-1: none); Clone copies the record of its source
	tainted bool // ghost, same rule as the model, computed from the implementation's maxSleep values
	retired bool
	// the harness' OWN ledger of the sleeps it observed on this back-offer (ms; closure's logged sleep cut by the
	// per-call maximum), as the property defines the accounting: since creation / the last Reset, split by
	// excluded / ordinary kind, inherited on Clone/Fork, replaced by the fork's on a merge.  Budget verdicts are judged
	// on this ledger, never on GetTotalSleep; the implementation's counters are cross-checked against it.
	ledNon, ledExcl int
	ledMS, ledTimes map[string]int // per kind, cumulative (Reset keeps them, like backoffSleepMS / backoffTimes)
}

type snap struct {
	ledNon, ledExcl        int // the harness ledger at the time of the snapshot
	max, total, excl, errs int
	ms, times              map[string]int
	cfgs                   []string
	done                   bool
	kill                   uint32
}

type lastRec struct {
	kind     string // bo clone fork merge
	id, id2  int
	cfg      *cfgInfo
	m        int
	res      string // slept killed cancelled noop exceeded other | created | merged ignored
	real     int
	cut      bool // the per-call maximum cut the sleep
	obsBase  int  // base / attempts of the closure as logged by the code
	obsAtt   int
	errK     string
	ledger   string // result of ledgerCheck right after the op ("" = consistent)
	pre      snap // of id
	pre2     snap // of id2 (merge: forked)
	post     snap // of id
	child    snap // clone/fork: the new back-offer
	hasChild bool
}

type world struct {
	bs      []*bo
	customs []*cfgInfo
	last    *lastRec
}

var w = &world{}

func (w *world) allCfgs() []*cfgInfo { return append(append([]*cfgInfo{}, tableCfgs...), w.customs...) }

func (w *world) findCfg(ident string) *cfgInfo {
	for _, c := range w.customs {
		if c.ident == ident {
			return c
		}
	}
	for _, c := range tableCfgs {
		if c.ident == ident {
			return c
		}
	}
	return nil
}

func (w *world) live(id int) *bo {
	if id < 0 || id >= len(w.bs) || w.bs[id].retired {
		return nil
	}
	return w.bs[id]
}

func copyMap(m map[string]int) map[string]int {
	o := map[string]int{}
	for k, v := range m {
		o[k] = v
	}
	return o
}

func takeSnap(x *bo) snap {
	mx, tot, ex := retry.VerifBudget(x.b)
	s := snap{max: mx, total: tot, excl: ex, errs: x.b.ErrorsNum(), ms: copyMap(x.b.GetBackoffSleepMS()),
		times: copyMap(x.b.GetBackoffTimes()), cfgs: retry.VerifConfigNames(x.b), done: x.b.GetCtx().Err() != nil,
		ledNon: x.ledNon, ledExcl: x.ledExcl}
	if v := x.b.GetVars(); v != nil && v.Killed != nil {
		s.kill = atomic.LoadUint32(v.Killed)
	}
	return s
}

func showMap(m map[string]int) string {
	if len(m) == 0 {
		return "-"
	}
	keys := make([]string, 0, len(m))
	for k := range m {
		keys = append(keys, k)
	}
	sort.Strings(keys)
	parts := make([]string, 0, len(keys))
	for _, k := range keys {
		parts = append(parts, k+":"+strconv.Itoa(m[k]))
	}
	return strings.Join(parts, ",")
}

func showList(l []string) string {
	if len(l) == 0 {
		return "-"
	}
	return strings.Join(l, ",")
}

func (s snap) acct() string {
	return fmt.Sprintf("%d %d %d %d %s %s %s", s.max, s.total, s.excl, s.errs, showMap(s.ms), showMap(s.times), showList(s.cfgs))
}

func b2s(b bool) string {
	if b {
		return "1"
	}
	return "0"
}

func (w *world) idOf(p *retry.Backoffer) string {
	if p == nil {
		return "-"
	}
	for i, x := range w.bs {
		if x.b == p {
			return strconv.Itoa(i)
		}
	}
	return "?"
}

func errClass(w *world, err error) string {
	c := errors.Cause(err)
	if c == callerErr {
		return "caller"
	}
	if k, ok := c.(tikverr.ErrQueryInterruptedWithSignal); ok {
		return "killed:" + strconv.Itoa(int(k.Signal))
	}
	for _, ci := range w.allCfgs() {
		if sameErr(ci.err, c) {
			return ci.errK
		}
	}
	return "other"
}

// budgetExceeded: is the budget used up according to the harness ledger (not the implementation's counters)?
func budgetExceeded(s snap, name string) bool {
	ex := false
	if l, ok := retry.VerifSleepExcluded(name); ok {
		ex = s.ledExcl >= l && s.ledExcl >= s.max
	}
	return s.max > 0 && (s.ledNon >= s.max || ex)
}

// ledgerCheck cross-checks the implementation's counters against the harness ledger ("" = consistent).
func ledgerCheck(x *bo) string {
	s := takeSnap(x)
	switch {
	case s.total != x.ledNon+x.ledExcl:
		return fmt.Sprintf("FAIL accounting-ledger total=%d observed=%d", s.total, x.ledNon+x.ledExcl)
	case s.excl != x.ledExcl:
		return fmt.Sprintf("FAIL accounting-ledger excluded=%d observed=%d", s.excl, x.ledExcl)
	case showMap(s.ms) != showMap(x.ledMS):
		return "FAIL accounting-ledger sleepMS=" + showMap(s.ms) + " observed=" + showMap(x.ledMS)
	case showMap(s.times) != showMap(x.ledTimes):
		return "FAIL accounting-ledger times=" + showMap(s.times) + " observed=" + showMap(x.ledTimes)
	}
	return ""
}

func (x *bo) inheritLedger(src *bo) {
	x.ledNon, x.ledExcl = src.ledNon, src.ledExcl
	x.ledMS, x.ledTimes = copyMap(src.ledMS), copyMap(src.ledTimes)
}

// wantLongest: error classes the property text allows on exhaustion, computed from the implementation's own
// GetBackoffSleepMS and isSleepExcluded.
func (w *world) wantLongest(s snap) []string {
	longest := 0
	for n, v := range s.ms {
		if _, ok := retry.VerifSleepExcluded(n); !ok && v > longest {
			longest = v
		}
	}
	if longest <= 0 {
		return []string{"caller"}
	}
	var out []string
	for n, v := range s.ms {
		if _, ok := retry.VerifSleepExcluded(n); !ok && v == longest {
			for _, ci := range w.allCfgs() {
				if ci.name == n {
					out = append(out, ci.errK)
				}
			}
		}
	}
	sort.Strings(out)
	ded := out[:0]
	for i, x := range out {
		if i == 0 || x != out[i-1] {
			ded = append(ded, x)
		}
	}
	return ded
}

func (w *world) capBound(name string) int {
	m := 0
	for _, ci := range w.allCfgs() {
		if ci.name == name && ci.cap > m {
			m = ci.cap
		}
	}
	return m
}

func (w *world) singleName(name string) bool {
	n := 0
	for _, ci := range w.allCfgs() {
		if ci.name == name {
			n++
		}
	}
	return n == 1
}

func contains(l []string, s string) bool {
	for _, x := range l {
		if x == s {
			return true
		}
	}
	return false
}

func withAdd(m map[string]int, k string, d int) map[string]int {
	o := copyMap(m)
	o[k] += d
	return o
}

// verdict: the property's oracle evaluated on the implementation's own observable values and the harness ledger.
func (w *world) verdict(l *lastRec) string {
	if v := w.verdict1(l); v != "ok" {
		return v
	}
	if l.ledger != "" {
		return l.ledger
	}
	return "ok"
}

func (w *world) verdict1(l *lastRec) string {
	switch l.kind {
	case "bo":
		b, b2 := l.pre, l.post
		same := b.acct() == b2.acct()
		switch l.res {
		case "cancelled":
			if !b.done {
				return "FAIL spurious-cancel"
			}
			if !same {
				return "FAIL state-changed-after-cancel"
			}
			return "ok"
		case "noop":
			if b.done {
				return "FAIL not-stopped-by-cancel"
			}
			if !same {
				return "FAIL state-changed"
			}
			return "ok"
		case "exceeded":
			if b.done {
				return "FAIL not-stopped-by-cancel"
			}
			if !budgetExceeded(b, l.cfg.name) {
				return "FAIL spurious-exceeded"
			}
			if !same {
				return "FAIL state-changed"
			}
			if want := w.wantLongest(b); !contains(want, l.errK) {
				return "FAIL longest got " + l.errK + " want " + showList(want)
			}
			return "ok"
		case "slept", "killed":
			exd := 0
			if _, ok := retry.VerifSleepExcluded(l.cfg.name); ok {
				exd = l.real
			}
			if b.done {
				return "FAIL not-stopped-by-cancel"
			}
			if l.real < 0 {
				return "FAIL negative-sleep " + strconv.Itoa(l.real)
			}
			if budgetExceeded(b, l.cfg.name) {
				return "FAIL slept-over-budget"
			}
			if l.m >= 0 && l.real > l.m {
				return "FAIL per-call-max"
			}
			if l.real > w.capBound(l.cfg.name) {
				return "FAIL over-cap"
			}
			if l.cfg.jitter == retry.EqualJitter && !l.cut && w.singleName(l.cfg.name) {
				// EqualJitter never sleeps less than half of the exponential step (the closure's own base/attempts)
				v := l.cfg.cap
				if l.obsAtt < 40 && l.obsBase<<uint(l.obsAtt) < v {
					v = l.obsBase << uint(l.obsAtt)
				}
				if l.real < v/2 {
					return "FAIL below-equal-jitter-floor"
				}
			}
			if !(b2.max == b.max && b2.total == b.total+l.real && b2.excl == b.excl+exd && b2.errs == b.errs+1 &&
				showMap(b2.ms) == showMap(withAdd(b.ms, l.cfg.name, l.real)) &&
				showMap(b2.times) == showMap(withAdd(b.times, l.cfg.name, 1))) {
				return "FAIL accounting"
			}
			if b.kill != 0 && l.res != "killed" {
				return "FAIL kill-not-reported"
			}
			if b.kill == 0 && l.res == "killed" {
				return "FAIL spurious-kill"
			}
			return "ok"
		}
		return "ok"
	case "clone", "fork":
		if l.res != "created" {
			return "ok"
		}
		if !l.hasChild {
			return "FAIL no-child"
		}
		if l.child.acct() != l.pre.acct() {
			return "FAIL fork-mismatch"
		}
		if l.post.acct() != l.pre.acct() {
			return "FAIL parent-changed"
		}
		return "ok"
	case "merge":
		b, fb, b2 := l.pre, l.pre2, l.post
		switch l.res {
		case "merged":
			if b2.total == fb.total && b2.excl == fb.excl && b2.errs == fb.errs && showMap(b2.ms) == showMap(fb.ms) &&
				showMap(b2.times) == showMap(fb.times) && b2.max == b.max && showList(b2.cfgs) == showList(fb.cfgs) {
				return "ok"
			}
			return "FAIL merge-not-exact"
		case "ignored":
			if b2.acct() == b.acct() {
				return "ok"
			}
			return "FAIL non-descendant-merged"
		}
		return "ok"
	}
	return "ok"
}

func atoi(s string) (int, bool) {
	v, err := strconv.ParseInt(s, 10, 64)
	return int(v), err == nil
}

func (w *world) newBo(b *retry.Backoffer, cancel context.CancelFunc, killed *uint32, parent int) int {
	w.bs = append(w.bs, &bo{b: b, cancel: cancel, killed: killed, parent: parent})
	return len(w.bs) - 1
}

// isAncestor: the harness' own record of the Fork relation (Clone copies the record of its source).
func (w *world) isAncestor(t, f int) bool {
	for p := w.bs[f].parent; p >= 0; p = w.bs[p].parent {
		if p == t {
			return true
		}
	}
	return false
}

// exec runs one op line on the real code; returns the op line (observation tokens filled in) and the result.
func exec(line string) (string, string) {
	op := line
	res := vx.Guard(func() string {
		f := strings.Fields(line)
		if len(f) == 0 {
			return "bad-op"
		}
		switch {
		case f[0] == "reset" && len(f) == 1:
			for _, x := range w.bs {
				if x.cancel != nil {
					x.cancel()
				}
			}
			w = &world{}
			return "ok"
		case f[0] == "defcfg" && len(f) == 6:
			base, ok1 := atoi(f[3])
			cp, ok2 := atoi(f[4])
			jit, ok3 := atoi(f[5])
			if !ok1 || !ok2 || !ok3 || w.findCfg(f[1]) != nil {
				return "bad-op"
			}
			e := stderrors.New("verif custom error " + f[1])
			c := retry.NewConfig(f[2], nil, retry.NewBackoffFnCfg(base, cp, jit), e)
			w.customs = append(w.customs, &cfgInfo{ident: f[1], cfg: c, name: f[2], base: base, cap: cp, jitter: jit, err: e, errK: f[1]})
			return "ok"
		case f[0] == "table" && len(f) == 1:
			var parts []string
			for _, c := range tableCfgs {
				ex := "-"
				if l, ok := retry.VerifSleepExcluded(c.name); ok {
					ex = strconv.Itoa(l)
				}
				parts = append(parts, fmt.Sprintf("%s:%d:%d:%d:%s:%s", c.name, c.base, c.cap, c.jitter, ex, c.errK))
			}
			return strings.Join(parts, " ")
		case f[0] == "new" && len(f) >= 2:
			ctx, cancel := context.WithCancel(context.Background())
			switch {
			case f[1] == "plain" && len(f) == 3:
				n, ok := atoi(f[2])
				if !ok {
					cancel()
					return "bad-op"
				}
				return "created " + strconv.Itoa(w.newBo(retry.NewBackoffer(ctx, n), cancel, nil, -1))
			case f[1] == "nil" && len(f) == 3:
				n, ok := atoi(f[2])
				if !ok {
					cancel()
					return "bad-op"
				}
				return "created " + strconv.Itoa(w.newBo(retry.NewBackofferWithVars(ctx, n, nil), cancel, nil, -1))
			case f[1] == "vars" && len(f) == 5:
				n, ok1 := atoi(f[2])
				lf, ok2 := atoi(f[3])
				wt, ok3 := atoi(f[4])
				if !ok1 || !ok2 || !ok3 {
					cancel()
					return "bad-op"
				}
				killed := new(uint32)
				vars := &kv.Variables{BackoffLockFast: lf, BackOffWeight: wt, Killed: killed}
				return "created " + strconv.Itoa(w.newBo(retry.NewBackofferWithVars(ctx, n, vars), cancel, killed, -1))
			case f[1] == "noop" && len(f) == 2:
				id := w.newBo(retry.NewNoopBackoff(ctx), cancel, nil, -1)
				w.bs[id].noop = true
				return "created " + strconv.Itoa(id)
			}
			cancel()
			return "bad-op"
		case f[0] == "bo" && len(f) == 6:
			id, ok1 := atoi(f[1])
			ci := w.findCfg(f[2])
			m, ok2 := atoi(f[3])
			if !ok1 || !ok2 || ci == nil {
				return "bad-op"
			}
			x := w.live(id)
			if x == nil {
				return "bad"
			}
			l := &lastRec{kind: "bo", id: id, cfg: ci, m: m, pre: takeSnap(x)}
			cap0 = capture{}
			var err error
			switch {
			case m == -1 && id%2 == 0:
				err = x.b.Backoff(ci.cfg, callerErr)
			case ci.cfg == retry.BoTxnLockFast && id%2 == 1:
				err = x.b.BackoffWithMaxSleepTxnLockFast(m, callerErr)
			default:
				err = x.b.BackoffWithCfgAndMaxSleep(ci.cfg, m, callerErr)
			}
			l.post = takeSnap(x)
			// the sleep as observed: the closure's logged sleep, cut by the per-call maximum (not the counters' delta)
			l.real = 0
			if cap0.got {
				l.real = cap0.sleep
				if m >= 0 && l.real > m {
					l.real = m
				}
				if _, ok := retry.VerifSleepExcluded(ci.name); ok {
					x.ledExcl += l.real
				} else {
					x.ledNon += l.real
				}
				if x.ledMS == nil {
					x.ledMS, x.ledTimes = map[string]int{}, map[string]int{}
				}
				x.ledMS[ci.name] += l.real
				x.ledTimes[ci.name]++
			}
			l.ledger = ledgerCheck(x)
			l.cut = cap0.got && m >= 0 && cap0.sleep > m
			l.obsBase, l.obsAtt = cap0.base, cap0.attempts
			sleepTok, errTok := 0, "-"
			var out string
			switch {
			case err == nil && cap0.got:
				l.res = "slept"
				sleepTok = cap0.sleep
				out = fmt.Sprintf("slept %d base %d att %d", l.real, cap0.base, cap0.attempts)
			case err == nil:
				l.res = "other"
				out = "nil-without-sleep"
			case cap0.got:
				sleepTok = cap0.sleep
				k := errClass(w, err)
				if strings.HasPrefix(k, "killed:") {
					l.res = "killed"
					out = fmt.Sprintf("killed %s %d base %d att %d", k[7:], l.real, cap0.base, cap0.attempts)
				} else {
					l.res = "other"
					out = "error-after-sleep " + k
				}
			case cap0.exceededWarn:
				l.res = "exceeded"
				l.errK = errClass(w, err)
				errTok = l.errK
				out = "exceeded " + l.errK
			default:
				k := errClass(w, err)
				switch {
				case k != "caller":
					l.res = "other"
					out = "error-without-sleep " + k
				case l.pre.done:
					l.res = "cancelled"
					out = "cancelled"
				case x.noop:
					l.res = "noop"
					out = "noop"
				default:
					l.res = "other"
					out = "caller-error-without-reason"
				}
			}
			w.last = l
			op = fmt.Sprintf("bo %d %s %d %d %s", id, f[2], m, sleepTok, errTok)
			return out
		case (f[0] == "clone" || f[0] == "fork") && len(f) == 2:
			id, ok := atoi(f[1])
			if !ok {
				return "bad-op"
			}
			x := w.live(id)
			if x == nil {
				return "bad"
			}
			l := &lastRec{kind: f[0], id: id, pre: takeSnap(x)}
			var c int
			if f[0] == "clone" {
				c = w.newBo(x.b.Clone(), nil, nil, x.parent)
			} else {
				nb, cancel := x.b.Fork()
				c = w.newBo(nb, cancel, nil, id)
			}
			w.bs[c].tainted = x.tainted
			w.bs[c].inheritLedger(x)
			l.ledger = ledgerCheck(w.bs[c])
			l.post = takeSnap(x)
			l.child = takeSnap(w.bs[c])
			l.hasChild = true
			l.res = "created"
			w.last = l
			return "created " + strconv.Itoa(c)
		case f[0] == "merge" && len(f) == 3:
			t, ok1 := atoi(f[1])
			fo, ok2 := atoi(f[2])
			if !ok1 || !ok2 {
				return "bad-op"
			}
			x, y := w.live(t), w.live(fo)
			if x == nil || y == nil {
				return "bad"
			}
			l := &lastRec{kind: "merge", id: t, id2: fo, pre: takeSnap(x), pre2: takeSnap(y)}
			x.b.UpdateUsingForked(y.b)
			l.post = takeSnap(x)
			if w.isAncestor(t, fo) {
				l.res = "merged"
				x.tainted = y.tainted || l.pre2.max <= 0 || l.pre2.max > l.pre.max
				x.inheritLedger(y)
				y.retired = true
			} else {
				l.res = "ignored"
			}
			l.ledger = ledgerCheck(x)
			w.last = l
			return l.res
		case f[0] == "rst" && len(f) == 2:
			id, ok := atoi(f[1])
			if !ok {
				return "bad-op"
			}
			x := w.live(id)
			if x == nil {
				return "bad"
			}
			x.b.Reset()
			x.tainted = false
			x.ledNon, x.ledExcl = 0, 0
			return "done"
		case f[0] == "rstmax" && len(f) == 3:
			id, ok1 := atoi(f[1])
			n, ok2 := atoi(f[2])
			if !ok1 || !ok2 {
				return "bad-op"
			}
			x := w.live(id)
			if x == nil {
				return "bad"
			}
			x.b.ResetMaxSleep(n)
			x.tainted = false
			x.ledNon, x.ledExcl = 0, 0
			return "done"
		case f[0] == "cancel" && len(f) == 2:
			id, ok := atoi(f[1])
			if !ok {
				return "bad-op"
			}
			if id < 0 || id >= len(w.bs) || w.bs[id].cancel == nil {
				return "bad"
			}
			w.bs[id].cancel()
			return "done"
		case f[0] == "kill" && len(f) == 3:
			id, ok1 := atoi(f[1])
			sig, ok2 := atoi(f[2])
			if !ok1 || !ok2 || sig < 0 {
				return "bad-op"
			}
			if id < 0 || id >= len(w.bs) || w.bs[id].killed == nil {
				return "bad"
			}
			atomic.StoreUint32(w.bs[id].killed, uint32(sig))
			return "done"
		case f[0] == "st" && len(f) == 2:
			id, ok := atoi(f[1])
			if !ok {
				return "bad-op"
			}
			if id < 0 || id >= len(w.bs) {
				return "bad"
			}
			x := w.bs[id]
			if x.retired {
				return "retired"
			}
			s := takeSnap(x)
			return fmt.Sprintf("max=%d total=%d excl=%d errs=%d taint=%s ms=%s times=%s cfgs=%s par=%s", s.max, s.total, s.excl,
				s.errs, b2s(x.tainted), showMap(s.ms), showMap(s.times), showList(s.cfgs), w.idOf(retry.VerifParent(x.b)))
		case f[0] == "types" && len(f) == 2:
			id, ok := atoi(f[1])
			if !ok {
				return "bad-op"
			}
			x := w.live(id)
			if x == nil {
				return "bad"
			}
			return showList(x.b.GetTypes())
		case f[0] == "p-last" && len(f) == 1:
			if w.last == nil {
				return "ok"
			}
			return w.verdict(w.last)
		case f[0] == "p-budget" && len(f) == 3:
			id, ok1 := atoi(f[1])
			mx, ok2 := atoi(f[2])
			if !ok1 || !ok2 {
				return "bad-op"
			}
			x := w.live(id)
			if x == nil {
				return "bad"
			}
			s := takeSnap(x)
			if lc := ledgerCheck(x); lc != "" {
				return lc
			}
			if x.tainted || s.max <= 0 {
				return "ok"
			}
			// judged on the sleeps the harness observed, not on GetTotalSleep
			if !(x.ledNon < s.max+mx) {
				return fmt.Sprintf("FAIL budget slept=%d excluded-slept=%d max=%d", x.ledNon, x.ledExcl, s.max)
			}
			lim := retry.VerifSleepExcludedMax()
			if s.max > lim {
				lim = s.max
			}
			if !(x.ledExcl < lim+mx) {
				return fmt.Sprintf("FAIL excluded-budget excluded-slept=%d max=%d", x.ledExcl, s.max)
			}
			return "ok"
		}
		return "bad-op"
	})
	return op, res
}

// ---------------------------------------------------------------- generation

var budgets = []int{0, -1, -100, 1, 5, 20, 100, 100, 500, 500, 2000, 20000, 40000, 1073741823, 1073741824, 715827882, 715827883}
var weights = []int{1, 2, 2, 3, 10, -1, 1000}
var lockFasts = []int{0, 1, 2, 10, 10, 100}
var perCall = []int{-1, -1, -1, -1, -1, -1, 0, 1, 2, 5, 50, 1000, 100000, -2}

type gen struct {
	r      *vx.Rand
	run    *vx.Run
	maxCap int // largest cap of any config used so far in this case (for p-budget)
	idents []string
}

func (g *gen) do(line string) string {
	op, res := exec(line)
	f := strings.Fields(op)
	g.run.Count("op:" + f[0])
	if f[0] == "bo" {
		g.run.Count("bo:" + strings.Fields(res)[0])
		g.run.Count("cfg:" + f[2])
		if l := w.last; l != nil && l.kind == "bo" && l.res == "exceeded" {
			if l.pre.ledNon >= l.pre.max {
				g.run.Count("exceeded:budget")
			} else {
				g.run.Count("exceeded:excluded-limit")
			}
		}
	}
	if f[0] == "merge" {
		g.run.Count("merge:" + res)
		if l := w.last; res == "merged" && w.bs[l.id].tainted {
			g.run.Count("merge:tainting")
		}
	}
	if strings.HasPrefix(res, "FAIL") {
		g.run.Count("FAIL")
	}
	g.run.Emit(op, res)
	return res
}

func (g *gen) liveIDs() []int {
	var out []int
	for i, x := range w.bs {
		if !x.retired {
			out = append(out, i)
		}
	}
	return out
}

func (g *gen) newRoot() {
	b := budgets[g.r.Intn(len(budgets))]
	switch g.r.Intn(10) {
	case 0:
		g.do(fmt.Sprintf("new plain %d", b))
	case 1:
		g.do(fmt.Sprintf("new nil %d", b))
	case 2:
		if g.r.Chance(30) {
			g.do("new noop")
			return
		}
		fallthrough
	default:
		g.do(fmt.Sprintf("new vars %d %d %d", b, lockFasts[g.r.Intn(len(lockFasts))], weights[g.r.Intn(len(weights))]))
	}
}

func (g *gen) defCustoms() {
	n := g.r.Intn(4)
	for i := 0; i < n; i++ {
		ident := "x" + strconv.Itoa(i)
		name := ident
		switch g.r.Intn(6) {
		case 0: // aliases a table name: shares fn closure, exclusion and longest-sleeper lookup with it
			name = tableCfgs[g.r.Intn(len(tableCfgs))].name
		case 1:
			name = "TXNLOCKFAST" // EqualFold
		case 2:
			name = "tikvServerBusy" // excluded by name
		}
		jit := 1 + g.r.Intn(4)
		base := []int{-5, 0, 1, 2, 3, 7, 100, 300000}[g.r.Intn(8)]
		cp := []int{2, 3, 10, 64, 1000, 5000, 1000000}[g.r.Intn(7)]
		if lo := max(base, 100); jit == 4 && cp < lo {
			cp = lo // DecorrJitter with cap < base (base may be vars.BackoffLockFast <= 100) makes rand.Intn panic on the second call
		}
		if g.r.Chance(5) {
			jit = 9 // unknown jitter: sleep 0
		}
		g.do(fmt.Sprintf("defcfg %s %s %d %d %d", ident, name, base, cp, jit))
		g.idents = append(g.idents, ident)
	}
}

func (g *gen) pickCfg(focus []string) string {
	if len(focus) > 0 && g.r.Chance(75) {
		return focus[g.r.Intn(len(focus))]
	}
	if len(g.idents) > 0 && g.r.Chance(25) {
		return g.idents[g.r.Intn(len(g.idents))]
	}
	return tableCfgs[g.r.Intn(len(tableCfgs))].ident
}

func (g *gen) oneCase(n int, maxLen int) {
	g.run.Comment("case " + strconv.Itoa(n))
	g.do("reset")
	g.maxCap = 0
	g.idents = nil
	if n == 0 {
		g.do("table")
	}
	if g.r.Chance(40) {
		g.defCustoms()
	}
	g.newRoot()
	if g.r.Chance(30) {
		g.newRoot()
	}
	// a case concentrates on a few kinds so that budgets get exhausted
	var focus []string
	for i := g.r.Intn(4); i > 0; i-- {
		focus = append(focus, g.pickCfg(nil))
	}
	length := 5 + g.r.Intn(maxLen-4)
	for i := 0; i < length; i++ {
		live := g.liveIDs()
		if len(live) == 0 {
			g.newRoot()
			continue
		}
		id := live[g.r.Intn(len(live))]
		if g.r.Chance(60) { // prefer the youngest back-offers
			id = live[len(live)-1-g.r.Intn(min(3, len(live)))]
		}
		judged := false
		switch k := g.r.Intn(100); {
		case k < 58:
			ident := g.pickCfg(focus)
			ci := w.findCfg(ident)
			if w.bs[id].b.GetVars() == nil && strings.EqualFold(ci.name, "txnLockFast") && !w.bs[id].noop {
				continue // nil vars dereference in createBackoffFn (not generated)
			}
			if ci.cap > g.maxCap {
				g.maxCap = ci.cap
			}
			g.do(fmt.Sprintf("bo %d %s %d 0 -", id, ident, perCall[g.r.Intn(len(perCall))]))
			judged = true
		case k < 63:
			if w.bs[id].noop {
				continue
			}
			g.do(fmt.Sprintf("clone %d", id))
			judged = true
		case k < 70:
			if w.bs[id].noop {
				continue
			}
			g.do(fmt.Sprintf("fork %d", id))
			judged = true
		case k < 76:
			t := live[g.r.Intn(len(live))]
			if g.r.Chance(70) { // an ancestor of id, if there is one
				var anc []int
				for p := w.bs[id].parent; p >= 0; p = w.bs[p].parent {
					if !w.bs[p].retired {
						anc = append(anc, p)
					}
				}
				if len(anc) > 0 {
					t = anc[g.r.Intn(len(anc))]
				}
			}
			g.do(fmt.Sprintf("merge %d %d", t, id))
			judged = true
		case k < 79:
			g.do(fmt.Sprintf("rst %d", id))
		case k < 82:
			nb := budgets[g.r.Intn(len(budgets))]
			if w.bs[id].b.GetVars() == nil && nb > 0 {
				continue // nil vars dereference in withVars (not generated)
			}
			g.do(fmt.Sprintf("rstmax %d %d", id, nb))
		case k < 84:
			g.do(fmt.Sprintf("cancel %d", g.r.Intn(len(w.bs))))
		case k < 86:
			g.do(fmt.Sprintf("kill %d %d", g.r.Intn(len(w.bs)), []int{0, 1, 2, 7}[g.r.Intn(4)]))
		case k < 92:
			g.do(fmt.Sprintf("st %d", g.r.Intn(len(w.bs))))
		case k < 94:
			g.do(fmt.Sprintf("types %d", id))
		case k < 99:
			g.do(fmt.Sprintf("p-budget %d %d", id, g.maxCap))
		default:
			g.newRoot()
		}
		if judged {
			g.do("p-last")
		}
	}
	for _, id := range g.liveIDs() {
		g.do(fmt.Sprintf("st %d", id))
		g.do(fmt.Sprintf("p-budget %d %d", id, g.maxCap))
	}
}

// forkJoinCase mirrors how the client uses Fork/Clone/UpdateUsingForked (snapshot batch get, rawkv batches, lock
// resolver): the parent forks, the children (clones of the fork, or nested forks) back off, the last child is merged
// back and the parent goes on backing off until its budget is exhausted.
func (g *gen) forkJoinCase(n int, maxLen int) {
	g.run.Comment("case " + strconv.Itoa(n))
	g.do("reset")
	g.maxCap = 0
	g.idents = nil
	budget := []int{1, 20, 100, 500, 2000, 20000}[g.r.Intn(6)]
	if g.r.Bool() {
		g.do(fmt.Sprintf("new vars %d 10 %d", budget, []int{1, 2, 3}[g.r.Intn(3)]))
	} else {
		g.do(fmt.Sprintf("new plain %d", budget))
	}
	bo := func(id int, ident string) string {
		if ci := w.findCfg(ident); ci.cap > g.maxCap {
			g.maxCap = ci.cap
		}
		res := g.do(fmt.Sprintf("bo %d %s %d 0 -", id, ident, perCall[g.r.Intn(len(perCall))]))
		g.do("p-last")
		return res
	}
	kinds := []string{g.pickCfg(nil), g.pickCfg(nil), g.pickCfg(nil)}
	for i := g.r.Intn(3); i > 0; i-- {
		bo(0, kinds[g.r.Intn(2)])
	}
	rounds := 1 + g.r.Intn(3)
	steps := 0
	for rd := 0; rd < rounds && steps < maxLen; rd++ {
		g.do("fork 0")
		g.do("p-last")
		fk := len(w.bs) - 1
		lastChild := fk
		for c := 1 + g.r.Intn(3); c > 0; c-- {
			child := fk
			switch g.r.Intn(3) {
			case 0:
				g.do(fmt.Sprintf("clone %d", fk))
				g.do("p-last")
				child = len(w.bs) - 1
			case 1:
				g.do(fmt.Sprintf("fork %d", fk))
				g.do("p-last")
				child = len(w.bs) - 1
			}
			for i := 1 + g.r.Intn(6); i > 0; i-- {
				steps++
				if strings.HasPrefix(bo(child, kinds[g.r.Intn(3)]), "exceeded") {
					break
				}
			}
			lastChild = child
		}
		g.do(fmt.Sprintf("merge 0 %d", lastChild))
		g.do("p-last")
		g.do("st 0")
		g.do(fmt.Sprintf("p-budget 0 %d", g.maxCap))
		for i := g.r.Intn(8); i > 0; i-- {
			steps++
			if strings.HasPrefix(bo(0, kinds[g.r.Intn(3)]), "exceeded") {
				break
			}
		}
	}
	for i := 0; i < 30 && steps < maxLen; i++ {
		steps++
		if strings.HasPrefix(bo(0, kinds[g.r.Intn(3)]), "exceeded") {
			break
		}
	}
	g.do("st 0")
	g.do(fmt.Sprintf("p-budget 0 %d", g.maxCap))
}

// excludedCase drives the excluded kind (isSleepExcluded) to its own limit: with the real config (<= 10 s per sleep,
// thorough tier) or with a custom config that carries the excluded *name* and sleeps 300 s at once.
func (g *gen) excludedCase(n int, real bool) {
	g.run.Comment("case " + strconv.Itoa(n))
	g.do("reset")
	g.idents = nil
	ident := "tikvServerBusy"
	g.maxCap = 10000
	if !real {
		g.do("defcfg x0 tikvServerBusy 300000 1000000 1")
		ident = "x0"
		g.maxCap = 1000000
	}
	g.do(fmt.Sprintf("new vars %d 10 %d", []int{100, 2000, 20000, 400000}[g.r.Intn(4)], 1+g.r.Intn(2)))
	for i := 0; i < 200; i++ {
		if g.r.Chance(10) {
			g.do("bo 0 regionMiss -1 0 -")
			g.do("p-last")
		}
		res := g.do(fmt.Sprintf("bo 0 %s -1 0 -", ident))
		g.do("p-last")
		if i%10 == 0 {
			g.do(fmt.Sprintf("p-budget 0 %d", g.maxCap))
		}
		if strings.HasPrefix(res, "exceeded") {
			break
		}
	}
	g.do("st 0")
	g.do(fmt.Sprintf("p-budget 0 %d", g.maxCap))
}

// longRunCase: up to `steps` back-offs of ONE kind on ONE back-offer without Reset, with a budget that cannot stop the
// run earlier (huge, or switched off), so that the closure's attempt counter goes far beyond the point where base*2^n
// leaves the 64-bit range; every step is judged (p-last: sleep within [0, cap] / the jitter interval, accounting = Σ of
// the observed sleeps, exhaustion exactly when the ledger says) and p-budget runs every few steps.
func (g *gen) longRunCase(n int, ident string, custom string, steps int) {
	g.run.Comment("case " + strconv.Itoa(n))
	g.do("reset")
	g.idents = nil
	if custom != "" {
		g.do(custom)
	}
	ci := w.findCfg(ident)
	g.maxCap = ci.cap
	switch g.r.Intn(4) {
	case 0:
		g.do("new plain 1073741824")
	case 1:
		g.do("new vars 1073741823 10 2")
	case 2:
		g.do("new vars 0 100 1") // budget check switched off
	default:
		g.do("new nil 1073741823")
	}
	for i := 0; i < steps; i++ {
		m := -1
		if g.r.Chance(10) {
			m = []int{0, 5, 100000}[g.r.Intn(3)]
		}
		res := g.do(fmt.Sprintf("bo 0 %s %d 0 -", ident, m))
		v := g.do("p-last")
		if i%8 == 7 {
			g.do(fmt.Sprintf("p-budget 0 %d", g.maxCap))
		}
		if res == "panic" || strings.HasPrefix(v, "FAIL") || strings.HasPrefix(res, "exceeded") {
			break
		}
	}
	g.do("st 0")
	g.do(fmt.Sprintf("p-budget 0 %d", g.maxCap))
}

// interleaveCase: a parent builds a history of h cheap back-offs (h = 0..13, so the Go slices of the history have spare
// capacity for most h), then is cloned / forked one to three times (children of children included); from then on the
// live back-offers take turns, each backing off on its OWN kind (kinds that do not occur in the history and differ
// between the participants), until each of them has found its budget exhausted.  Every call is followed by p-last, so
// every exhaustion of every participant is judged: the reported error must be the error of the kind that slept longest
// on THAT back-offer.  Whatever a sibling does to state that should have been copied shows up here.
func (g *gen) interleaveCase(n int) {
	g.run.Comment("case " + strconv.Itoa(n))
	g.do("reset")
	g.idents = nil
	g.maxCap = 10000
	budget := []int{10, 20, 50, 150, 400}[g.r.Intn(5)]
	switch g.r.Intn(3) {
	case 0:
		g.do(fmt.Sprintf("new plain %d", budget))
	case 1:
		g.do(fmt.Sprintf("new vars %d 10 1", budget))
	default:
		g.do(fmt.Sprintf("new vars %d 10 2", budget))
	}
	// history: cheap kinds, each sleep cut to <= 1 ms so that the budget survives
	cheap := []string{"regionMiss", "regionScheduling", "txnNotFound", "staleCommand", "maxTsNotSynced", "commitTSLag", "regionNotInitialized"}
	hk := cheap[:1+g.r.Intn(3)]
	h := g.r.Intn(14)
	if h > budget/2 {
		h = budget / 2
	}
	for i := 0; i < h; i++ {
		g.do(fmt.Sprintf("bo 0 %s %d 0 -", hk[g.r.Intn(len(hk))], g.r.Intn(2)))
		g.do("p-last")
	}
	// participants
	parts := []int{0}
	for c := 1 + g.r.Intn(3); c > 0; c-- {
		src := parts[g.r.Intn(len(parts))]
		if g.r.Chance(65) {
			g.do(fmt.Sprintf("clone %d", src))
		} else {
			g.do(fmt.Sprintf("fork %d", src))
		}
		g.do("p-last")
		parts = append(parts, len(w.bs)-1)
	}
	// one own kind per participant, none of them in the history
	heavy := []string{"tikvRPC", "tiflashRPC", "txnLock", "pdRPC", "tikvDiskFull", "regionRecoveryInProgress", "isWitness", "tiflashServerBusy", "txnLockFast"}
	for i := len(heavy) - 1; i > 0; i-- {
		j := g.r.Intn(i + 1)
		heavy[i], heavy[j] = heavy[j], heavy[i]
	}
	kind := map[int]string{}
	for i, p := range parts {
		kind[p] = heavy[i%len(heavy)]
	}
	if g.r.Chance(30) { // the parent keeps to a cheap kind and so stays alive longer
		kind[0] = cheap[len(cheap)-1-g.r.Intn(3)]
	}
	done := map[int]bool{}
	for round := 0; round < 12 && len(done) < len(parts); round++ {
		order := append([]int{}, parts...)
		if g.r.Bool() { // children first, then the parent; or any order
			for i := len(order) - 1; i > 0; i-- {
				j := g.r.Intn(i + 1)
				order[i], order[j] = order[j], order[i]
			}
		} else {
			order = append(order[1:], order[0])
		}
		for _, p := range order {
			if done[p] {
				continue
			}
			res := g.do(fmt.Sprintf("bo %d %s -1 0 -", p, kind[p]))
			g.do("p-last")
			if !strings.HasPrefix(res, "slept") {
				done[p] = true
			}
		}
	}
	for _, p := range parts {
		g.do(fmt.Sprintf("st %d", p))
		g.do(fmt.Sprintf("p-budget %d %d", p, g.maxCap))
	}
}

// resetCase: excluded-kind back-offs, then Reset / ResetMaxSleep, then ordinary back-offs until the budget is exhausted
// (on the reset back-offer itself or on a clone / fork of it): the stage after the reset must start from zero in BOTH
// counters.
func (g *gen) resetCase(n int) {
	g.run.Comment("case " + strconv.Itoa(n))
	g.do("reset")
	g.idents = nil
	g.maxCap = 10000
	budget := []int{100, 200, 500, 2000}[g.r.Intn(4)]
	switch g.r.Intn(3) {
	case 0:
		g.do(fmt.Sprintf("new plain %d", budget))
	case 1:
		g.do(fmt.Sprintf("new nil %d", budget))
	default:
		g.do(fmt.Sprintf("new vars %d 10 %d", budget, 1+g.r.Intn(2)))
	}
	id := 0
	ordinary := []string{"regionMiss", "txnLock", "tikvRPC", "pdRPC", "staleCommand", "txnLockFast"}
	bo := func(ident string) string {
		if ci := w.findCfg(ident); ci.cap > g.maxCap {
			g.maxCap = ci.cap
		}
		res := g.do(fmt.Sprintf("bo %d %s %d 0 -", id, ident, []int{-1, -1, -1, 100000}[g.r.Intn(4)]))
		g.do("p-last")
		return res
	}
	stages := 1 + g.r.Intn(2)
	for st := 0; st < stages; st++ {
		for i := 1 + g.r.Intn(4); i > 0; i-- {
			bo("tikvServerBusy")
			if g.r.Chance(25) {
				bo(ordinary[g.r.Intn(len(ordinary))])
			}
		}
		g.do(fmt.Sprintf("p-budget %d %d", id, g.maxCap))
		if g.r.Bool() {
			g.do(fmt.Sprintf("rst %d", id))
		} else {
			g.do(fmt.Sprintf("rstmax %d %d", id, []int{100, 200, 500}[g.r.Intn(3)]))
		}
		g.do(fmt.Sprintf("st %d", id))
		g.do(fmt.Sprintf("p-budget %d %d", id, g.maxCap))
		switch g.r.Intn(4) {
		case 0:
			g.do(fmt.Sprintf("clone %d", id))
			g.do("p-last")
			id = len(w.bs) - 1
		case 1:
			g.do(fmt.Sprintf("fork %d", id))
			g.do("p-last")
			id = len(w.bs) - 1
		}
		kind := ordinary[g.r.Intn(len(ordinary))]
		for i := 0; i < 60; i++ {
			k := kind
			if g.r.Chance(20) {
				k = ordinary[g.r.Intn(len(ordinary))]
			}
			res := bo(k)
			if i%4 == 3 {
				g.do(fmt.Sprintf("p-budget %d %d", id, g.maxCap))
			}
			if strings.HasPrefix(res, "exceeded") {
				break
			}
		}
		g.do(fmt.Sprintf("st %d", id))
		g.do(fmt.Sprintf("p-budget %d %d", id, g.maxCap))
	}
}

func main() {
	util.EnableFailpoints()
	if err := failpoint.Enable("tikvclient/fastBackoffBySkipSleep", "return"); err != nil {
		panic(err)
	}
	log.ReplaceGlobals(zap.New(capCore{}), &log.ZapProperties{})
	initTable()
	run := vx.Start()
	defer run.Finish()
	if run.Replay != "" {
		for _, l := range run.ReplayLines() {
			if strings.HasPrefix(l, "#") {
				run.Comment(strings.TrimSpace(l[1:]))
				continue
			}
			op, res := exec(l)
			run.Emit(op, res)
		}
		return
	}
	g := &gen{r: vx.NewRand(run.Seed), run: run}
	cases, maxLen := 500, 40
	if run.Thorough() {
		cases, maxLen = 600, 400
	}
	// long same-kind runs: every row of the table (the `table` op ties the rows to the regenerated facts), plus the two
	// jitter kinds no row uses
	longSteps := 80
	if run.Thorough() {
		longSteps = 130
	}
	for i, ci := range tableCfgs {
		g.longRunCase(cases+i, ci.ident, "", longSteps)
	}
	g.longRunCase(cases+len(tableCfgs), "x0", "defcfg x0 x0 2 5000 2", longSteps)
	g.longRunCase(cases+len(tableCfgs)+1, "x0", "defcfg x0 x0 2 5000 4", longSteps)
	for n := 0; n < cases; n++ {
		l := maxLen
		if n%3 == 0 {
			l = 12 // many short cases too
		}
		if n%4 == 1 {
			g.forkJoinCase(n, l)
			continue
		}
		if n%10 == 3 {
			g.resetCase(n)
			continue
		}
		if n%10 == 7 || n%20 == 11 {
			g.interleaveCase(n)
			continue
		}
		if n%50 == 2 {
			g.excludedCase(n, run.Thorough() && n%100 == 2)
			continue
		}
		g.oneCase(n, l)
	}
}
