//go:build verif

// Package vx: shared helpers for the verification harnesses (seeded PRNG, hex tokens, op/impl streams).
package vx

import (
	"bufio"
	"encoding/hex"
	"flag"
	"fmt"
	"os"
	"strings"
)

// Rand is splitmix64: every random choice of a run derives from VERIF_SEED through one state.
type Rand struct{ s uint64 }

func NewRand(seed uint64) *Rand {
	// the state of splitmix64 advances by a constant per draw: derive the initial state by mixing the seed,
	// otherwise seed and seed+1 yield the same stream shifted by one draw
	z := seed + 0x1234567
	z = (z ^ (z >> 30)) * 0xBF58476D1CE4E5B9
	z = (z ^ (z >> 27)) * 0x94D049BB133111EB
	return &Rand{s: z ^ (z >> 31)}
}

func (r *Rand) U64() uint64 {
	r.s += 0x9E3779B97F4A7C15
	z := r.s
	z = (z ^ (z >> 30)) * 0xBF58476D1CE4E5B9
	z = (z ^ (z >> 27)) * 0x94D049BB133111EB
	return z ^ (z >> 31)
}
func (r *Rand) Intn(n int) int {
	if n <= 0 {
		return 0
	}
	return int(r.U64() % uint64(n))
}
func (r *Rand) Bool() bool       { return r.U64()&1 == 1 }
func (r *Rand) Chance(p int) bool { return r.Intn(100) < p }
func (r *Rand) Fork() *Rand      { return &Rand{s: r.U64()} }

// Hex renders a byte string as one token ("-" for the empty string).
func Hex(b []byte) string {
	if len(b) == 0 {
		return "-"
	}
	return hex.EncodeToString(b)
}

func UnHex(s string) ([]byte, bool) {
	if s == "-" {
		return []byte{}, true
	}
	b, err := hex.DecodeString(s)
	return b, err == nil
}

// Run is the common command line of every harness.
type Run struct {
	Seed     uint64
	Tier     string
	Replay   string
	opsW     *bufio.Writer
	implW    *bufio.Writer
	opsF     *os.File
	implF    *os.File
	N        int
	Stats    map[string]int
	statsOut string
}

func Start() *Run {
	seed := flag.Uint64("seed", 1, "seed")
	tier := flag.String("tier", "quick", "quick|thorough")
	ops := flag.String("ops", "", "write op lines here")
	impl := flag.String("impl", "", "write implementation result lines here")
	replay := flag.String("replay", "", "read op lines from this file instead of generating")
	stats := flag.String("stats", "", "write generator statistics (JSON) here")
	flag.Parse()
	r := &Run{Seed: *seed, Tier: *tier, Replay: *replay, Stats: map[string]int{}, statsOut: *stats}
	var err error
	if *ops != "" {
		r.opsF, err = os.Create(*ops)
		if err != nil {
			panic(err)
		}
		r.opsW = bufio.NewWriterSize(r.opsF, 1<<20)
	}
	if *impl != "" {
		r.implF, err = os.Create(*impl)
		if err != nil {
			panic(err)
		}
		r.implW = bufio.NewWriterSize(r.implF, 1<<20)
	}
	return r
}

func (r *Run) Thorough() bool { return r.Tier == "thorough" }

// Emit records one op line and the implementation's canonical result for it.
func (r *Run) Emit(op, impl string) {
	r.N++
	if r.opsW != nil {
		r.opsW.WriteString(op)
		r.opsW.WriteByte('\n')
	}
	if r.implW != nil {
		r.implW.WriteString(strings.ReplaceAll(impl, "\n", " "))
		r.implW.WriteByte('\n')
	}
}

// Comment lines (starting with '#') are echoed by the model driver; they delimit cases.
func (r *Run) Comment(c string) { r.Emit("# "+c, "# "+c) }

func (r *Run) Count(k string) { r.Stats[k]++ }

// ReplayLines returns the op lines of the replay file (comments included).
func (r *Run) ReplayLines() []string {
	data, err := os.ReadFile(r.Replay)
	if err != nil {
		panic(err)
	}
	var out []string
	for _, l := range strings.Split(string(data), "\n") {
		l = strings.TrimSpace(l)
		if l != "" {
			out = append(out, l)
		}
	}
	return out
}

func (r *Run) Finish() {
	if r.opsW != nil {
		r.opsW.Flush()
		r.opsF.Close()
	}
	if r.implW != nil {
		r.implW.Flush()
		r.implF.Close()
	}
	if r.statsOut != "" {
		f, err := os.Create(r.statsOut)
		if err == nil {
			fmt.Fprint(f, "{")
			first := true
			keys := make([]string, 0, len(r.Stats))
			for k := range r.Stats {
				keys = append(keys, k)
			}
			sortStrings(keys)
			for _, k := range keys {
				if !first {
					fmt.Fprint(f, ",")
				}
				first = false
				fmt.Fprintf(f, "%q:%d", k, r.Stats[k])
			}
			fmt.Fprint(f, "}\n")
			f.Close()
		}
	}
}

func sortStrings(a []string) {
	for i := 1; i < len(a); i++ {
		for j := i; j > 0 && a[j] < a[j-1]; j-- {
			a[j], a[j-1] = a[j-1], a[j]
		}
	}
}

// Guard runs f and canonicalises a panic as "panic".
func Guard(f func() string) (out string) {
	defer func() {
		if e := recover(); e != nil {
			out = "panic"
		}
	}()
	return f()
}
