//go:build verif

// C07 harness: read-your-writes / merge iteration / savepoints through the REAL KVUnionStore
// (ART and RBT buffers over a fake sorted snapshot) and the REAL KVTxn (ART buffer over a KVSnapshot of a
// single-region mocktikv store).  Op lines are shared with the Lean model driver (cgv-c07).
package main

import (
	"bytes"
	"context"
	"sort"
	"strconv"
	"strings"

	"github.com/pingcap/log"
	tikverr "github.com/tikv/client-go/v2/error"
	"github.com/tikv/client-go/v2/internal/unionstore"
	"github.com/tikv/client-go/v2/kv"
	"github.com/tikv/client-go/v2/testutils"
	"github.com/tikv/client-go/v2/tikv"
	"github.com/tikv/client-go/v2/txnkv/transaction"
	"github.com/tikv/client-go/v2/verifx/vx"
	"go.uber.org/zap/zapcore"
)

type pair struct{ k, v []byte }

// ---------------------------------------------------------------- fake snapshot (arbitrary sorted content)

type fakeSnap struct{ kvs []pair } // strictly ascending keys

func (s *fakeSnap) find(k []byte) int {
	return sort.Search(len(s.kvs), func(i int) bool { return bytes.Compare(s.kvs[i].k, k) >= 0 })
}

func (s *fakeSnap) Get(_ context.Context, k []byte, _ ...kv.GetOption) (kv.ValueEntry, error) {
	i := s.find(k)
	if i < len(s.kvs) && bytes.Equal(s.kvs[i].k, k) {
		return kv.NewValueEntry(s.kvs[i].v, 0), nil
	}
	return kv.ValueEntry{}, tikverr.ErrNotExist
}

func (s *fakeSnap) BatchGet(ctx context.Context, keys [][]byte, _ ...kv.BatchGetOption) (map[string]kv.ValueEntry, error) {
	m := make(map[string]kv.ValueEntry, len(keys))
	for _, k := range keys {
		v, err := s.Get(ctx, k)
		if err != nil || v.IsValueEmpty() { // like KVSnapshot.BatchGet: absent keys have no entry
			continue
		}
		m[string(k)] = v
	}
	return m, nil
}

type sliceIter struct {
	kvs []pair
	i   int
}

func (it *sliceIter) Valid() bool   { return it.i < len(it.kvs) }
func (it *sliceIter) Key() []byte   { return it.kvs[it.i].k }
func (it *sliceIter) Value() []byte { return it.kvs[it.i].v }
func (it *sliceIter) Next() error   { it.i++; return nil }
func (it *sliceIter) Close()        {}

func (s *fakeSnap) Iter(k []byte, upper []byte) (unionstore.Iterator, error) {
	var out []pair
	for _, p := range s.kvs {
		if bytes.Compare(p.k, k) >= 0 && (len(upper) == 0 || bytes.Compare(p.k, upper) < 0) {
			out = append(out, p)
		}
	}
	return &sliceIter{kvs: out}, nil
}

func (s *fakeSnap) IterReverse(k, lower []byte) (unionstore.Iterator, error) {
	var out []pair
	for i := len(s.kvs) - 1; i >= 0; i-- {
		p := s.kvs[i]
		if (len(k) == 0 || bytes.Compare(p.k, k) < 0) && bytes.Compare(p.k, lower) >= 0 {
			out = append(out, p)
		}
	}
	return &sliceIter{kvs: out}, nil
}

// ---------------------------------------------------------------- environment of one case

type view struct {
	list string            // canonical forward listing
	gets map[string]string // key -> canonical get result, for every key of the universe at recording time
}

type env struct {
	mode    string // us-art | us-rbt | txn
	content map[string][]byte
	sealed  bool

	buf  unionstore.MemBuffer
	us   *unionstore.KVUnionStore
	snap *fakeSnap
	txn  *transaction.KVTxn

	universe   map[string]struct{}
	stageViews []view
	cps        []*unionstore.MemDBCheckpoint
	cpViews    []view
}

var (
	cur      *env
	store    *tikv.KVStore
	prevKeys [][]byte // content left in the mock store by the previous txn-mode case
)

func newEnv(mode string) *env {
	return &env{mode: mode, content: map[string][]byte{}, universe: map[string]struct{}{}}
}

var storeUses int

// mockStore: one mocktikv store serves a batch of cases (every case overwrites / deletes the previous content
// through a committed transaction); it is replaced regularly because its scans walk over all dead versions
func mockStore() *tikv.KVStore {
	storeUses++
	if store != nil && storeUses%16 == 0 {
		_ = store.Close()
		store, prevKeys = nil, nil
	}
	if store != nil {
		return store
	}
	client, cluster, pdClient, err := testutils.NewMockTiKV("", nil)
	if err != nil {
		panic(err)
	}
	testutils.BootstrapWithSingleStore(cluster)
	s, err := tikv.NewTestTiKVStore(client, pdClient, nil, nil, 0)
	if err != nil {
		panic(err)
	}
	store = s
	return s
}

// seal freezes the snapshot content and builds the object under test.
func (e *env) seal() {
	if e.sealed {
		return
	}
	e.sealed = true
	keys := make([]string, 0, len(e.content))
	for k := range e.content {
		keys = append(keys, k)
	}
	sort.Strings(keys)
	switch e.mode {
	case "txn":
		s := mockStore()
		w, err := s.Begin()
		if err != nil {
			panic(err)
		}
		n := 0
		for _, k := range prevKeys {
			if _, ok := e.content[string(k)]; !ok {
				if err := w.Delete(k); err != nil {
					panic(err)
				}
				n++
			}
		}
		prevKeys = prevKeys[:0]
		for _, k := range keys {
			if err := w.Set([]byte(k), e.content[k]); err != nil {
				panic(err)
			}
			prevKeys = append(prevKeys, []byte(k))
			n++
		}
		if n > 0 {
			if err := w.Commit(context.Background()); err != nil {
				panic(err)
			}
		} else {
			_ = w.Rollback()
		}
		t, err := s.Begin()
		if err != nil {
			panic(err)
		}
		e.txn = t
		e.buf = t.GetMemBuffer()
	default:
		e.snap = &fakeSnap{}
		for _, k := range keys {
			e.snap.kvs = append(e.snap.kvs, pair{[]byte(k), e.content[k]})
		}
		if e.mode == "us-rbt" {
			e.buf = unionstore.VerifC07NewRBT()
		} else {
			e.buf = unionstore.VerifC07NewART()
		}
		e.us = unionstore.NewUnionStore(e.buf, e.snap)
	}
}

func (e *env) set(k, v []byte) error {
	if e.txn != nil {
		return e.txn.Set(k, v)
	}
	return e.us.GetMemBuffer().Set(k, v)
}

func (e *env) del(k []byte) error {
	if e.txn != nil {
		return e.txn.Delete(k)
	}
	return e.us.GetMemBuffer().Delete(k)
}

// get returns "val <hex>" | "notfound" | "err"
func (e *env) get(k []byte) string {
	var v kv.ValueEntry
	var err error
	if e.txn != nil {
		v, err = e.txn.Get(context.Background(), k)
	} else {
		v, err = e.us.Get(context.Background(), k)
	}
	if tikverr.IsErrNotFound(err) {
		return "notfound"
	}
	if err != nil {
		return "err"
	}
	return "val " + vx.Hex(v.Value)
}

func (e *env) bget(keys [][]byte) (map[string][]byte, bool) {
	var m map[string]kv.ValueEntry
	var err error
	if e.txn != nil {
		m, err = e.txn.BatchGet(context.Background(), keys)
	} else {
		m, err = transaction.NewBufferBatchGetter(e.buf, e.snap).BatchGet(context.Background(), keys)
	}
	if err != nil {
		return nil, false
	}
	out := make(map[string][]byte, len(m))
	for k, v := range m {
		out[k] = v.Value
	}
	return out, true
}

const iterCap = 4096

// scan returns the emitted pairs; ok=false on an iterator error or when the iterator does not stop
func (e *env) scan(a, b []byte, reverse bool) ([]pair, string) {
	var it unionstore.Iterator
	var err error
	switch {
	case e.txn != nil && !reverse:
		it, err = e.txn.Iter(a, b)
	case e.txn != nil:
		it, err = e.txn.IterReverse(a, b)
	case !reverse:
		it, err = e.us.Iter(a, b)
	default:
		it, err = e.us.IterReverse(a, b)
	}
	if err != nil {
		return nil, "err"
	}
	defer it.Close()
	var out []pair
	for it.Valid() {
		if len(out) >= iterCap {
			return out, "overrun"
		}
		out = append(out, pair{append([]byte{}, it.Key()...), append([]byte{}, it.Value()...)})
		if err := it.Next(); err != nil {
			return out, "err"
		}
	}
	return out, ""
}

func listing(ps []pair, flag string) string {
	var sb strings.Builder
	sb.WriteString("kvs")
	for _, p := range ps {
		sb.WriteByte(' ')
		sb.WriteString(vx.Hex(p.k))
		sb.WriteByte(':')
		sb.WriteString(vx.Hex(p.v))
	}
	if flag != "" {
		sb.WriteString(" !" + flag)
	}
	return sb.String()
}

func mapListing(m map[string][]byte) string {
	keys := make([]string, 0, len(m))
	for k := range m {
		keys = append(keys, k)
	}
	sort.Strings(keys)
	ps := make([]pair, 0, len(keys))
	for _, k := range keys {
		ps = append(ps, pair{[]byte(k), m[k]})
	}
	return listing(ps, "")
}

func inRange(k, lo, hi []byte) bool {
	return bytes.Compare(k, lo) >= 0 && (len(hi) == 0 || bytes.Compare(k, hi) < 0)
}

func (e *env) sortedUniverse() [][]byte {
	keys := make([]string, 0, len(e.universe))
	for k := range e.universe {
		keys = append(keys, k)
	}
	sort.Strings(keys)
	out := make([][]byte, len(keys))
	for i, k := range keys {
		out[i] = []byte(k)
	}
	return out
}

func (e *env) record() view {
	ps, flag := e.scan(nil, nil, false)
	v := view{list: listing(ps, flag), gets: map[string]string{}}
	for _, k := range e.sortedUniverse() {
		v.gets[string(k)] = e.get(k)
	}
	return v
}

// sameView: the current view equals the recorded one (keys that joined the universe later were absent then)
func (e *env) sameView(old view) string {
	now := e.record()
	if now.list != old.list {
		return "FAIL view-differs iter was[" + old.list + "] now[" + now.list + "]"
	}
	for k, g := range now.gets {
		was, ok := old.gets[k]
		if !ok {
			was = "notfound"
		}
		if was != g {
			return "FAIL view-differs get " + vx.Hex([]byte(k)) + " was[" + was + "] now[" + g + "]"
		}
	}
	return "ok"
}

// the property oracle for reads, evaluated on the implementation's own answers
func (e *env) pview(lo, hi []byte) string {
	f, ff := e.scan(lo, hi, false)
	r, rf := e.scan(hi, lo, true)
	if ff != "" || rf != "" {
		return "FAIL iterator " + ff + rf
	}
	for i := range f {
		if i > 0 && bytes.Compare(f[i-1].k, f[i].k) >= 0 {
			return "FAIL forward-not-strictly-ascending at " + vx.Hex(f[i].k)
		}
		if !inRange(f[i].k, lo, hi) {
			return "FAIL forward-out-of-bounds " + vx.Hex(f[i].k)
		}
	}
	for i := range r {
		if i > 0 && bytes.Compare(r[i-1].k, r[i].k) <= 0 {
			return "FAIL reverse-not-strictly-descending at " + vx.Hex(r[i].k)
		}
		if !inRange(r[i].k, lo, hi) {
			return "FAIL reverse-out-of-bounds " + vx.Hex(r[i].k)
		}
	}
	if len(f) != len(r) {
		return "FAIL forward-reverse-differ " + listing(f, "") + " / " + listing(r, "")
	}
	for i := range f {
		o := r[len(r)-1-i]
		if !bytes.Equal(f[i].k, o.k) || !bytes.Equal(f[i].v, o.v) {
			return "FAIL forward-reverse-differ at " + vx.Hex(f[i].k)
		}
	}
	emitted := map[string][]byte{}
	for _, p := range f {
		emitted[string(p.k)] = p.v
		e.universe[string(p.k)] = struct{}{}
	}
	var inKeys [][]byte
	for _, k := range e.sortedUniverse() {
		g := e.get(k)
		v, ok := emitted[string(k)]
		if !inRange(k, lo, hi) {
			continue
		}
		inKeys = append(inKeys, k)
		if ok && g != "val "+vx.Hex(v) {
			return "FAIL iter-vs-get " + vx.Hex(k) + " iter=" + vx.Hex(v) + " get=" + g
		}
		if !ok && g != "notfound" {
			return "FAIL key-skipped " + vx.Hex(k) + " get=" + g
		}
	}
	m, ok := e.bget(inKeys)
	if !ok {
		return "FAIL batchget-error"
	}
	if mapListing(m) != listing(f, "") {
		return "FAIL iter-vs-batchget " + listing(f, "") + " / " + mapListing(m)
	}
	return "ok"
}

func (e *env) pbget(keys [][]byte) string {
	m, ok := e.bget(keys)
	if !ok {
		return "FAIL batchget-error"
	}
	seen := map[string]bool{}
	for _, k := range keys {
		seen[string(k)] = true
		g := e.get(k)
		v, in := m[string(k)]
		if in && g != "val "+vx.Hex(v) {
			return "FAIL batchget-vs-get " + vx.Hex(k) + " batch=" + vx.Hex(v) + " get=" + g
		}
		if !in && g != "notfound" {
			return "FAIL batchget-missing " + vx.Hex(k) + " get=" + g
		}
	}
	for k := range m {
		if !seen[k] {
			return "FAIL batchget-extra-key " + vx.Hex([]byte(k))
		}
	}
	return "ok"
}

// ---------------------------------------------------------------- op execution

func refused(f func()) (r bool) {
	defer func() {
		if recover() != nil {
			r = true
		}
	}()
	f()
	return false
}

func bound(tok string) ([]byte, bool) {
	if tok == "nil" {
		return nil, true
	}
	return vx.UnHex(tok)
}

func unhexAll(ws []string) ([][]byte, bool) {
	out := make([][]byte, len(ws))
	for i, w := range ws {
		b, ok := vx.UnHex(w)
		if !ok {
			return nil, false
		}
		out[i] = b
	}
	return out, true
}

func (e *env) dropSavepoints() { e.cps, e.cpViews = nil, nil }

func exec(line string) string {
	return vx.Guard(func() string {
		w := strings.Fields(line)
		if len(w) == 0 {
			return "bad-op"
		}
		if w[0] == "reset" && len(w) == 2 {
			switch w[1] {
			case "us-art", "us-rbt", "txn":
				cur = newEnv(w[1])
				return "ok"
			}
			return "bad-op"
		}
		if cur == nil {
			cur = newEnv("us-art")
		}
		e := cur
		if w[0] == "sput" && len(w) == 3 {
			k, ok1 := vx.UnHex(w[1])
			v, ok2 := vx.UnHex(w[2])
			if !ok1 || !ok2 || len(v) == 0 || e.sealed {
				return "bad-op"
			}
			e.content[string(k)] = v
			e.universe[string(k)] = struct{}{}
			return "ok"
		}
		e.seal()
		switch {
		case w[0] == "set" && len(w) == 3:
			k, ok1 := vx.UnHex(w[1])
			v, ok2 := vx.UnHex(w[2])
			if !ok1 || !ok2 {
				return "bad-op"
			}
			e.universe[string(k)] = struct{}{}
			if err := e.set(k, v); err != nil {
				if err == tikverr.ErrCannotSetNilValue {
					return "err nil-value"
				}
				return "err other"
			}
			return "ok"
		case w[0] == "del" && len(w) == 2:
			k, ok := vx.UnHex(w[1])
			if !ok {
				return "bad-op"
			}
			e.universe[string(k)] = struct{}{}
			if err := e.del(k); err != nil {
				return "err other"
			}
			return "ok"
		case w[0] == "get" && len(w) == 2:
			k, ok := vx.UnHex(w[1])
			if !ok {
				return "bad-op"
			}
			return e.get(k)
		case w[0] == "bget":
			keys, ok := unhexAll(w[1:])
			if !ok {
				return "bad-op"
			}
			m, ok := e.bget(keys)
			if !ok {
				return "err"
			}
			return mapListing(m)
		case (w[0] == "iter" || w[0] == "iterrev") && len(w) == 3:
			a, ok1 := bound(w[1])
			b, ok2 := bound(w[2])
			if !ok1 || !ok2 {
				return "bad-op"
			}
			ps, flag := e.scan(a, b, w[0] == "iterrev")
			return listing(ps, flag)
		case w[0] == "staging" && len(w) == 1:
			v := e.record()
			h := e.buf.Staging()
			e.stageViews = append(e.stageViews, v)
			e.dropSavepoints()
			return "h " + strconv.Itoa(h)
		case (w[0] == "release" || w[0] == "cleanup" || w[0] == "prelease" || w[0] == "pcleanup") && len(w) == 2:
			h, err := strconv.Atoi(w[1])
			if err != nil || h < 0 || h > 1000 {
				return "bad-op"
			}
			depth := len(e.stageViews)
			prop := w[0][0] == 'p'
			if prop && (h != depth || h == 0) {
				return "bad-op" // property forms are only defined for the innermost live handle
			}
			// a handle that is not the innermost live one is refused by a panic before anything is touched
			// ("should never happen in production"): that is the documented answer, not a crash of the harness
			if h != 0 && ((w[0] == "release" && h != depth) || (w[0] == "cleanup" && h < depth)) {
				if refused(func() {
					if w[0] == "release" {
						e.buf.Release(h)
					} else {
						e.buf.Cleanup(h)
					}
				}) {
					return "refused"
				}
				return "FAIL stale-handle-accepted"
			}
			switch w[0] {
			case "release":
				e.buf.Release(h)
			case "cleanup":
				e.buf.Cleanup(h)
			case "prelease":
				before := e.record()
				e.buf.Release(h)
				e.stageViews = e.stageViews[:depth-1]
				e.dropSavepoints()
				return e.sameView(before)
			case "pcleanup":
				at := e.stageViews[depth-1]
				e.buf.Cleanup(h)
				e.stageViews = e.stageViews[:depth-1]
				e.dropSavepoints()
				return e.sameView(at)
			}
			if h == depth && h != 0 {
				e.stageViews = e.stageViews[:depth-1]
				e.dropSavepoints()
			}
			return "ok"
		case w[0] == "cp" && len(w) == 1:
			v := e.record()
			e.cps = append(e.cps, e.buf.Checkpoint())
			e.cpViews = append(e.cpViews, v)
			return "cp " + strconv.Itoa(len(e.cps)-1)
		case (w[0] == "revert" || w[0] == "prevert") && len(w) == 2:
			i, err := strconv.Atoi(w[1])
			if err != nil {
				return "bad-op"
			}
			if i < 0 || i >= len(e.cps) {
				return "bad-cp"
			}
			e.buf.RevertToCheckpoint(e.cps[i])
			at := e.cpViews[i]
			e.cps, e.cpViews = e.cps[:i+1], e.cpViews[:i+1]
			if w[0] == "prevert" {
				return e.sameView(at)
			}
			return "ok"
		case w[0] == "pview" && len(w) == 3:
			a, ok1 := bound(w[1])
			b, ok2 := bound(w[2])
			if !ok1 || !ok2 {
				return "bad-op"
			}
			return e.pview(a, b)
		case w[0] == "pbget":
			keys, ok := unhexAll(w[1:])
			if !ok {
				return "bad-op"
			}
			return e.pbget(keys)
		}
		return "bad-op"
	})
}

// ---------------------------------------------------------------- generation

var alpha = []byte{0x00, 0x01, 0x61, 0x62, 0xfe, 0xff}

type gen struct {
	r    *vx.Rand
	run  *vx.Run
	pool [][]byte
	// shadow bookkeeping (only what the generator needs to stay inside the op preconditions)
	mode    string
	depth   int
	cps     int
	tainted []bool // cp i has seen a same-length overwrite of a buffered value after it (S10 pattern, owned by C08)
}

func (g *gen) randKey() []byte {
	n := g.r.Intn(4)
	b := make([]byte, n)
	for i := range b {
		b[i] = alpha[g.r.Intn(len(alpha))]
	}
	return b
}

func (g *gen) related(k []byte) []byte {
	c := append([]byte{}, k...)
	switch g.r.Intn(6) {
	case 0:
		return append(c, 0x00)
	case 1:
		return append(c, 0xff)
	case 2:
		if len(c) > 0 {
			return c[:len(c)-1]
		}
	case 3:
		if len(c) > 0 {
			c[len(c)-1]++
			return c
		}
	case 4:
		if len(c) > 0 {
			c[len(c)-1]--
			return c
		}
	case 5:
		return append(c, alpha[g.r.Intn(len(alpha))])
	}
	return append(c, 0x01)
}

func (g *gen) makePool(thorough bool) {
	g.pool = nil
	n := 3 + g.r.Intn(6)
	if thorough {
		n += g.r.Intn(8)
	}
	var pfx []byte
	switch g.r.Intn(5) {
	case 0: // longer than the 20-byte in-node prefix of the ART
		pfx = bytes.Repeat([]byte{0x70}, 21+g.r.Intn(3))
	case 1:
		pfx = []byte{0xff, 0xff}
	case 2:
		pfx = []byte{0x00}
	}
	seen := map[string]bool{}
	for len(g.pool) < n {
		var k []byte
		if len(g.pool) > 0 && g.r.Chance(55) {
			k = g.related(g.pool[g.r.Intn(len(g.pool))])
		} else {
			k = append(append([]byte{}, pfx...), g.randKey()...)
		}
		if len(k) > 40 || seen[string(k)] {
			if g.r.Chance(20) {
				n-- // tiny alphabets can run out of fresh keys
			}
			continue
		}
		seen[string(k)] = true
		g.pool = append(g.pool, k)
	}
}

func (g *gen) key() []byte {
	if g.r.Chance(6) {
		return g.related(g.pool[g.r.Intn(len(g.pool))])
	}
	return g.pool[g.r.Intn(len(g.pool))]
}

func (g *gen) val() []byte {
	n := 1 + g.r.Intn(3)
	b := make([]byte, n)
	for i := range b {
		b[i] = byte(g.r.U64())
	}
	return b
}

// boundTok: nil / empty / an existing key / just after or before one / unrelated
func (g *gen) boundTok() string {
	switch g.r.Intn(10) {
	case 0:
		return "nil"
	case 1:
		return "-"
	case 2, 3, 4:
		return vx.Hex(g.pool[g.r.Intn(len(g.pool))])
	case 5, 6, 7:
		return vx.Hex(g.related(g.pool[g.r.Intn(len(g.pool))]))
	}
	return vx.Hex(g.randKey())
}

func (g *gen) rangeToks() (string, string) {
	lo, hi := g.boundTok(), g.boundTok()
	if g.r.Chance(25) {
		lo = []string{"nil", "-"}[g.r.Intn(2)]
	}
	if g.r.Chance(25) {
		hi = []string{"nil", "-"}[g.r.Intn(2)]
	}
	// mostly lo <= hi, sometimes deliberately inverted
	a, _ := bound(lo)
	b, _ := bound(hi)
	if len(b) != 0 && bytes.Compare(a, b) > 0 && g.r.Chance(75) {
		lo, hi = hi, lo
	}
	if g.mode == "us-rbt" && hi == "-" {
		// the RBT forward iterator treats an empty NON-nil upper bound as "below every key" (ART and the
		// snapshots: unbounded); the RBT is not reachable from KVTxn, the difference is left to C08
		hi = "nil"
		g.run.Count("rbt-empty-non-nil-upper-avoided")
	}
	return lo, hi
}

func (g *gen) keyList() string {
	n := 1 + g.r.Intn(5)
	var ws []string
	for i := 0; i < n; i++ {
		ws = append(ws, vx.Hex(g.key()))
	}
	if g.r.Chance(25) && len(ws) > 0 { // duplicated key in one batch
		ws = append(ws, ws[g.r.Intn(len(ws))])
	}
	return strings.Join(ws, " ")
}

func (g *gen) do(op string) string {
	g.run.Count(strings.Fields(op)[0])
	out := exec(op)
	g.run.Emit(op, out)
	return out
}

func (g *gen) oneCase(n int, mode string, nOps int, thorough bool) {
	g.run.Comment("case " + strconv.Itoa(n) + " " + mode)
	g.run.Count("mode:" + mode)
	g.makePool(thorough)
	g.mode, g.depth, g.cps, g.tainted = mode, 0, 0, nil
	g.do("reset " + mode)
	for _, k := range g.pool {
		if g.r.Chance(55) {
			g.do("sput " + vx.Hex(k) + " " + vx.Hex(g.val()))
		}
	}
	for i := 0; i < nOps; i++ {
		x := g.r.Intn(100)
		switch {
		case x < 24:
			k, v := g.key(), g.val()
			if g.r.Chance(2) {
				v = nil // ErrCannotSetNilValue
			}
			if g.cps > 0 && len(v) > 0 {
				// S10 (RevertToCheckpoint does not undo a same-length in-place overwrite) belongs to C08:
				// keep the pattern out of `revert` by changing the length or by retiring the checkpoints
				if old, err := cur.buf.GetLocal(context.Background(), k); err == nil && len(old) == len(v) {
					if g.r.Chance(60) {
						v = append(v, byte(g.r.U64()))
						g.run.Count("s10-avoided:length-changed")
					} else {
						for j := range g.tainted {
							g.tainted[j] = true
						}
						g.run.Count("s10-avoided:checkpoint-retired")
					}
				}
			}
			g.do("set " + vx.Hex(k) + " " + vx.Hex(v))
		case x < 38:
			g.do("del " + vx.Hex(g.key()))
		case x < 46:
			g.do("get " + vx.Hex(g.key()))
		case x < 51:
			g.do("bget " + g.keyList())
		case x < 55:
			g.do("pbget " + g.keyList())
		case x < 61:
			lo, hi := g.rangeToks()
			g.do("iter " + lo + " " + hi)
		case x < 67:
			lo, hi := g.rangeToks()
			g.do("iterrev " + hi + " " + lo)
		case x < 77:
			lo, hi := g.rangeToks()
			g.do("pview " + lo + " " + hi)
		case x < 83:
			if g.depth < 4 {
				g.do("staging")
				g.depth++
				g.cps, g.tainted = 0, nil
			}
		case x < 91:
			if g.depth == 0 && !g.r.Chance(12) {
				break
			}
			if g.depth == 0 || g.r.Chance(4) {
				// invalid handles: 0 is a no-op, too large is a no-op for cleanup, anything else panics
				h := []int{0, g.depth + 1, g.depth - 1}[g.r.Intn(3)]
				if h >= 0 {
					g.do([]string{"release ", "cleanup "}[g.r.Intn(2)] + strconv.Itoa(h))
				}
				break
			}
			op := []string{"release ", "cleanup ", "prelease ", "pcleanup ", "pcleanup "}[g.r.Intn(5)]
			g.do(op + strconv.Itoa(g.depth))
			g.depth--
			g.cps, g.tainted = 0, nil
		case x < 95:
			if g.cps < 4 {
				g.do("cp")
				g.cps++
				g.tainted = append(g.tainted, false)
			}
		default:
			if g.cps == 0 {
				if g.r.Chance(10) {
					g.do("revert 0") // bad-cp
				}
				break
			}
			i := g.r.Intn(g.cps)
			if g.tainted[i] {
				g.run.Count("s10-avoided:revert-suppressed")
				break
			}
			g.do([]string{"revert ", "prevert ", "prevert "}[g.r.Intn(3)] + strconv.Itoa(i))
			g.cps = i + 1
			g.tainted = g.tainted[:i+1]
		}
	}
	g.do("pview nil nil")
}

func main() {
	log.SetLevel(zapcore.ErrorLevel) // union_iter warns on every tombstone without a snapshot record
	run := vx.Start()
	defer run.Finish()
	if run.Replay != "" {
		for _, l := range run.ReplayLines() {
			if strings.HasPrefix(l, "#") {
				run.Comment(strings.TrimSpace(l[1:]))
				continue
			}
			run.Emit(l, exec(l))
		}
		return
	}
	g := &gen{r: vx.NewRand(run.Seed), run: run}
	nCases, nOps := 5000, 30
	if run.Thorough() {
		nCases, nOps = 40000, 60
	}
	modes := []string{"us-art", "us-rbt", "txn"}
	for n := 0; n < nCases; n++ {
		ops := nOps/2 + g.r.Intn(nOps)
		if run.Thorough() && g.r.Chance(3) {
			ops = 400 + g.r.Intn(1600)
		}
		g.oneCase(n, modes[n%3], ops, run.Thorough())
	}
}
