//go:build verif

package main

import (
	"fmt"
	"sort"
	"strings"

	"github.com/tikv/client-go/v2/verifx/vx"
)

// directed corpus: the known leak first, then its variants and the paths a random walk meets rarely
var directed = [][]string{
	// attempt 1 locks a key without value, retry, attempt 2 locks it with LockOnlyIfExists: in no set, lock stays
	{"reset v=-", "start", "ts", "lock 1 -", "retry", "ts", "lock 1 re", "done", "commit", "chk-noleak"},
	{"reset v=2", "start", "ts", "lock 1 n", "retry", "ts", "lock 1 ren", "cancel", "rollback", "chk-noleak"},
	// the same through the expiry branch: attempt 1 already knows the key does not exist, but the locks may have expired
	{"reset v=-", "start", "ts", "lock 1 r", "retry", "age", "ts", "lock 1 re", "done", "rollback", "chk-noleak"},
	// sibling: the re-request of a key of the previous attempt fails with key exists (single key: no rollback)
	{"reset v=1", "start", "ts", "lock 1 -", "retry", "ts", "pne 1", "lock 1 r", "done", "rollback", "chk-noleak"},
	{"reset v=1", "start", "ts", "lock 1 c", "retry", "ts", "pne 1", "lock 1 r", "chk-noleak", "done", "commit", "chk-noleak"},
	// benign neighbours: skipped on retry; re-requested and found; lock-only-if-exists on an existing key
	{"reset v=1", "start", "ts", "lock 1 r", "retry", "ts", "lock 1 r", "done", "commit", "chk-noleak"},
	{"reset v=1", "start", "ts", "lock 1 -", "retry", "ts", "lock 1 re", "done", "commit", "chk-noleak"},
	{"reset v=-", "start", "ts", "lock 1 r", "retry", "ts", "lock 1 re", "done", "commit", "chk-noleak"},
	{"reset v=1", "start", "ts", "lock 1 -", "retry", "ts", "lock 2 -", "retry", "ts", "lock 2 c", "done", "rollback", "chk-noleak"},
	// locked with conflict, then the retry at a later for-update ts
	{"reset v=1", "start", "ts", "put 1", "lock 1 -", "retry", "ts", "lock 1 r", "done", "commit", "chk-noleak"},
	{"reset v=1", "start", "ts", "put 1", "lock 1 r", "retry", "ts", "lock 2 -", "cancel", "commit", "chk-noleak"},
	// a call with several keys leaves aggressive locking
	{"reset v=1,2", "start", "ts", "lock 1 -", "lock 2,3 r", "chk-noleak", "rollback", "chk-noleak"},
	{"reset v=1,2", "start", "ts", "lock 1 -", "retry", "ts", "lock 1,2 -", "commit", "chk-noleak"},
	// plain calls: write conflict on several keys, key exists, lock-only-if-exists without a value
	{"reset v=1,2", "ts", "put 2", "lock 1,2,3 -", "chk-noleak", "ts", "lock 1,3 rc", "commit", "chk-noleak"},
	{"reset v=1", "ts", "pne 1", "lock 1 -", "pne 2", "lock 2 -", "rollback", "chk-noleak"},
	{"reset v=1", "ts", "lock 1 -", "lock 1,2 re", "rollback", "chk-noleak"},
	{"reset v=1", "ts", "lock 2 re", "lock 2,1 e", "lock 1,2 re", "commit", "chk-noleak"},
	// dead lock / time-out against a contender, plain and inside aggressive locking
	{"reset v=1,2", "olock 2", "ts", "lock 1 -", "olock 1", "lock 2 -", "chk-noleak", "lock 3 -", "rollback", "chk-noleak"},
	{"reset v=1,2", "olock 2", "start", "ts", "lock 1 -", "olock 1", "lock 2 n", "retry", "ts", "lock 1 -", "orel", "lock 2 -", "done", "commit", "chk-noleak"},
	{"reset v=1", "olock 1", "start", "ts", "lock 2 -", "lock 1 n", "retry", "ts", "lock 2 r", "lock 1 -", "cancel", "rollback", "chk-noleak"},
	// protocol misuse the code answers with a panic
	{"reset v=-", "retry", "start", "start", "ts", "lock 1 -", "done", "done", "cancel", "rollback", "chk-noleak"},
}

type gen struct {
	r  *runner
	rd *vx.Rand
	n  int // keys 1..n
	// what the previous attempt / statement touched (to aim later calls at the same keys)
	recent []int
	calls  int // lock calls of the current attempt
}

func (g *gen) emit(line string) string { return g.r.do(line) }

func (g *gen) count(k string) { g.r.run.Count(k) }

func (g *gen) key() int { return 1 + g.rd.Intn(g.n) }

func (g *gen) aimedKey() int {
	if len(g.recent) > 0 && g.rd.Chance(65) {
		return g.recent[g.rd.Intn(len(g.recent))]
	}
	return g.key()
}

func (g *gen) opts() string {
	o := ""
	if g.rd.Chance(40) {
		o += "r"
	}
	if g.rd.Chance(30) {
		o += "c"
	}
	if g.rd.Chance(22) {
		o += "e"
		if !strings.Contains(o, "r") && g.rd.Chance(92) {
			o = "r" + o
		}
	}
	if g.rd.Chance(50) {
		o += "n"
	}
	if o == "" {
		o = "-"
	}
	return o
}

// env: what a third party / the contender / the statement itself may do before a lock call
func (g *gen) env(inAgg bool) {
	x := g.rd.Intn(100)
	switch {
	case x < 18:
		g.emit(fmt.Sprintf("put %d", g.aimedKey()))
	case x < 26:
		g.emit(fmt.Sprintf("del %d", g.aimedKey()))
	case x < 36:
		g.emit(fmt.Sprintf("olock %d", g.aimedKey()))
	case x < 41:
		g.emit("orel")
	case x < 53:
		g.emit(fmt.Sprintf("pne %d", g.aimedKey()))
	}
}

func (g *gen) lockCall(multiPct int) {
	var ids []int
	if g.rd.Chance(multiPct) {
		k := 2 + g.rd.Intn(2)
		for i := 0; i < k; i++ {
			if g.rd.Chance(50) {
				ids = append(ids, g.aimedKey())
			} else {
				ids = append(ids, g.key())
			}
		}
	} else {
		ids = []int{g.aimedKey()}
	}
	g.lockOn(ids, g.opts())
}

func (g *gen) lockOn(ids []int, o string) {
	res := g.emit(fmt.Sprintf("lock %s %s", listStr(ids), o))
	g.calls++
	g.noteLock(ids, o, res)
	for _, id := range ids {
		seen := false
		for _, x := range g.recent {
			seen = seen || x == id
		}
		if !seen {
			g.recent = append(g.recent, id)
		}
	}
}

// noteLock: the input distribution of the lock calls (kind of the call, options, what the store answered)
func (g *gen) noteLock(ids []int, o, res string) {
	f := strings.Fields(res)
	if len(f) == 0 {
		return
	}
	kind := "plain"
	if len(ids) > 1 {
		kind = "plain-multi"
	}
	b := g.r.w.txn.VerifLockBook()
	if b.InAgg {
		kind = "agg"
	}
	g.count("lock:" + kind)
	g.count("lock-result:" + f[0])
	so := []byte(strings.ReplaceAll(o, "-", ""))
	sort.Slice(so, func(i, j int) bool { return so[i] < so[j] })
	g.count("lock-opts:" + string(so))
	g.r.w.mu.Lock()
	if len(g.r.w.req) == 0 {
		g.count("lock-request:none")
	} else {
		g.count("lock-request:sent")
	}
	for _, a := range g.r.w.ans {
		switch {
		case a.lwc != 0:
			g.count("answer:locked-with-conflict")
		case a.acq:
			g.count("answer:locked")
		case !a.exist:
			g.count("answer:not-found-not-locked")
		default:
			g.count("answer:not-acquired")
		}
	}
	g.r.w.mu.Unlock()
}

func (g *gen) inAgg() bool { return g.r.w.txn.VerifLockBook().InAgg }

func (g *gen) plainStatement() {
	g.count("statement:plain")
	g.emit("ts")
	n := 1 + g.rd.Intn(2)
	for i := 0; i < n && !g.r.w.closed; i++ {
		if g.rd.Chance(45) {
			g.env(false)
		}
		g.lockCall(45)
	}
}

func (g *gen) aggStatement() {
	g.count("statement:aggressive")
	g.emit("start")
	attempts := 1 + g.rd.Intn(4)
	done := 0
	for a := 1; a <= attempts; a++ {
		done = a
		g.emit("ts")
		g.calls = 0
		n := 1 + g.rd.Intn(2)
		for i := 0; i < n; i++ {
			if g.rd.Chance(40) {
				g.env(true)
			}
			g.lockCall(10)
		}
		if !g.inAgg() && !g.rd.Chance(6) {
			// a call with several keys left aggressive locking: the statement goes on as a plain one
			g.count("agg-left-by-multi-key-call")
			break
		}
		if a < attempts {
			g.emit("retry")
			if g.rd.Chance(15) {
				g.emit("age")
			}
		}
	}
	g.count(fmt.Sprintf("attempts:%d", done))
	b := g.r.w.txn.VerifLockBook()
	x := g.rd.Intn(100)
	switch {
	case !b.InAgg && x >= 6:
		g.count("agg-end:already-left")
	case x < 55 || (x >= 80 && len(b.Current) > 0):
		g.emit("done")
		g.count("agg-end:done")
	case x < 80:
		g.emit("cancel")
		g.count("agg-end:cancel")
	default:
		// the transaction ends inside aggressive locking (allowed while the current attempt holds nothing)
		g.count("agg-end:by-transaction-end")
	}
}

func (g *gen) randomCase() {
	g.n = 2 + g.rd.Intn(4)
	var vals []int
	for id := 1; id <= g.n; id++ {
		if g.rd.Chance(55) {
			vals = append(vals, id)
		}
	}
	g.recent = nil
	g.emit("reset v=" + listStr(vals))
	if g.rd.Chance(20) {
		g.emit(fmt.Sprintf("olock %d", g.key()))
	}
	shape := g.rd.Intn(100)
	switch {
	case shape < 7 && g.n >= 2:
		// dead lock: the contender holds k2 and has waited for k1, which this transaction holds, when it asks for k2
		g.count("case:deadlock")
		k1 := g.key()
		k2 := 1 + (k1+g.rd.Intn(g.n-1))%g.n
		g.emit(fmt.Sprintf("olock %d", k2))
		agg := g.rd.Bool()
		if agg {
			g.emit("start")
		}
		g.emit("ts")
		g.recent = []int{k1, k2}
		g.lockOn([]int{k1}, g.opts())
		g.emit(fmt.Sprintf("olock %d", k1))
		g.lockOn([]int{k2}, g.opts())
		if agg && g.inAgg() {
			if g.rd.Chance(60) {
				g.emit("retry")
				g.emit("ts")
				g.lockCall(5)
				if g.rd.Bool() {
					g.emit("orel")
				}
				g.lockCall(5)
			}
			g.safeToGoOn()
		} else if g.rd.Bool() {
			g.plainStatement()
		}
	case shape < 55:
		g.count("case:agg")
		if g.rd.Chance(30) {
			g.plainStatement()
		}
		g.aggStatement()
		if g.rd.Chance(30) && g.safeToGoOn() {
			g.plainStatement()
		}
	case shape < 75:
		g.count("case:two-agg")
		g.aggStatement()
		if g.safeToGoOn() {
			if g.rd.Chance(25) {
				g.emit("chk-noleak")
			}
			g.aggStatement()
		}
	default:
		g.count("case:plain")
		k := 1 + g.rd.Intn(3)
		for i := 0; i < k; i++ {
			g.plainStatement()
			if g.rd.Chance(20) {
				g.emit("chk-noleak")
			}
		}
	}
	b := g.r.w.txn.VerifLockBook()
	if b.InAgg && len(b.Current) > 0 {
		// Commit / Rollback inside a stage that holds keys is API misuse (error + closed transaction, locks stay): finish it
		g.emit("done")
	}
	if g.rd.Bool() {
		g.emit("commit")
		g.count("end:commit")
	} else {
		g.emit("rollback")
		g.count("end:rollback")
	}
	g.emit("chk-noleak")
}

// safeToGoOn: a new statement is only started outside aggressive locking (StartAggressiveLocking panics otherwise)
func (g *gen) safeToGoOn() bool {
	b := g.r.w.txn.VerifLockBook()
	if b.InAgg {
		if len(b.Current) > 0 || g.rd.Bool() {
			g.emit("done")
		} else {
			g.emit("cancel")
		}
	}
	return true
}

func generate(r *runner) {
	root := vx.NewRand(r.run.Seed)
	for i, c := range directed {
		r.beginCase(fmt.Sprintf("directed-%d", i+1))
		for _, l := range c {
			r.do(l)
		}
		r.run.Count("case:directed")
	}
	n := 700
	if r.run.Thorough() {
		n = 7000
	}
	for i := 0; i < n; i++ {
		g := &gen{r: r, rd: root.Fork()}
		r.beginCase("random")
		g.randomCase()
	}
}
