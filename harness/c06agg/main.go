//go:build verif

// C06 harness, client-side lock bookkeeping: drives the REAL pessimistic KVTxn (LockKeys, Start/Retry/Cancel/Done
// AggressiveLocking, Commit, Rollback) on mocktikv through op sequences and prints, after every op, the bookkeeping the
// Lean model Model/AggLock.lean predicts: currentLockedKeys, lastRetryUnnecessaryLocks, the membuffer keys flagged
// locked, lockedCnt, the primary-key bookkeeping (all read through the add-only accessor VerifLockBook), the keys of
// the PessimisticLock / PessimisticRollback / Commit requests the op sent (recorded at the RPC client) and the keys on
// which the mock store holds a lock of the transaction (lock scan after the background rollbacks have drained).
//
// The op line carries what the environment answered (for-update ts, mayAggressiveLockingLastLockedKeysExpire, the
// error class of the call, per key: did the request place the lock, existence, locked-with-conflict ts), so the model
// replays the line deterministically (lean/Driver/C06Agg.lean).  `chk-noleak` is the property op, computed on both
// sides: locks the store holds that the client no longer tracks (all of them once the transaction is over).
package main

import (
	"context"
	"fmt"
	"math"
	"runtime"
	"sort"
	"strconv"
	"strings"
	"sync"
	"sync/atomic"
	"time"

	"github.com/pingcap/errors"
	"github.com/pingcap/kvproto/pkg/kvrpcpb"
	"github.com/pingcap/log"
	tikverr "github.com/tikv/client-go/v2/error"
	"github.com/tikv/client-go/v2/internal/mockstore/mocktikv"
	"github.com/tikv/client-go/v2/kv"
	"github.com/tikv/client-go/v2/tikv"
	"github.com/tikv/client-go/v2/tikvrpc"
	"github.com/tikv/client-go/v2/txnkv/transaction"
	"github.com/tikv/client-go/v2/util/async"
	"github.com/tikv/client-go/v2/verifx/vx"
	pd "github.com/tikv/pd/client"
	"github.com/tikv/pd/client/clients/tso"
	"github.com/tikv/pd/client/pkg/caller"
	"go.uber.org/zap"
	"go.uber.org/zap/zapcore"
)

const (
	tsBase   = uint64(1000) << 18 // virtual clock: physical part fixed at 1000 ms, the logical part counts
	opBudget = 20 * time.Second
)

// ---------------------------------------------------------------------------------------------- virtual PD

type vpd struct {
	pd.Client
	n atomic.Uint64
}

type vfut struct{ p *vpd }

func (p *vpd) next() (int64, int64, error) { return 1000, int64(p.n.Add(1)), nil }

func (f *vfut) Wait() (int64, int64, error)                             { return f.p.next() }
func (p *vpd) GetTS(context.Context) (int64, int64, error)              { return p.next() }
func (p *vpd) GetTSAsync(context.Context) tso.TSFuture                  { return &vfut{p} }
func (p *vpd) GetLocalTS(context.Context, string) (int64, int64, error) { return p.next() }
func (p *vpd) GetLocalTSAsync(context.Context, string) tso.TSFuture     { return &vfut{p} }
func (p *vpd) WithCallerComponent(caller.Component) pd.Client           { return p }
func (p *vpd) Close()                                                   {}
func (p *vpd) GetTSWithinKeyspace(context.Context, uint32) (int64, int64, error) {
	return p.next()
}
func (p *vpd) GetTSWithinKeyspaceAsync(context.Context, uint32) tso.TSFuture { return &vfut{p} }
func (p *vpd) GetLocalTSWithinKeyspace(context.Context, string, uint32) (int64, int64, error) {
	return p.next()
}
func (p *vpd) GetLocalTSWithinKeyspaceAsync(context.Context, string, uint32) tso.TSFuture {
	return &vfut{p}
}

// ---------------------------------------------------------------------------------------------- world

type keyAns struct {
	acq   bool
	exist bool
	lwc   uint64
}

type world struct {
	run     *vx.Run
	rpc     *mocktikv.RPCClient
	mvcc    mocktikv.MVCCStore
	store   *tikv.KVStore
	baseWG  int
	txn     *transaction.KVTxn
	startTS uint64
	closed  bool
	fu      uint64 // the statement's for-update ts (`ts` refreshes it)
	other   *transaction.KVTxn
	nkeys   int

	mu       sync.Mutex
	inflight int
	req      map[int]bool
	rb       map[int]bool
	cm       map[int]bool
	ans      map[int]keyAns
}

func keyOf(id int) []byte { return []byte(fmt.Sprintf("k%02d", id)) }

func idOf(k []byte) int {
	if len(k) == 3 && k[0] == 'k' {
		if n, err := strconv.Atoi(string(k[1:])); err == nil {
			return n
		}
	}
	return -1
}

type hijack struct {
	tikv.Client
	w *world
}

func (h *hijack) SendRequestAsync(ctx context.Context, addr string, req *tikvrpc.Request, cb async.Callback[*tikvrpc.Response]) {
	go func() { cb.Schedule(h.SendRequest(ctx, addr, req, 0)) }()
}

// held returns the ids of the keys on which the store holds a lock of the transaction.
func (w *world) held() map[int]bool {
	locks, _ := w.mvcc.ScanLock(nil, nil, math.MaxUint64)
	out := map[int]bool{}
	for _, l := range locks {
		if l.LockVersion == w.startTS {
			out[idOf(l.Key)] = true
		}
	}
	return out
}

func (h *hijack) SendRequest(ctx context.Context, addr string, req *tikvrpc.Request, timeout time.Duration) (*tikvrpc.Response, error) {
	w := h.w
	mine := false
	switch req.Type {
	case tikvrpc.CmdPessimisticLock:
		mine = req.PessimisticLock().StartVersion == w.startTS
	case tikvrpc.CmdPessimisticRollback:
		mine = req.PessimisticRollback().StartVersion == w.startTS
	case tikvrpc.CmdCommit:
		mine = req.Commit().StartVersion == w.startTS
	}
	if !mine || w.startTS == 0 {
		return h.Client.SendRequest(ctx, addr, req, timeout)
	}
	w.mu.Lock()
	w.inflight++
	w.mu.Unlock()
	defer func() {
		w.mu.Lock()
		w.inflight--
		w.mu.Unlock()
	}()
	switch req.Type {
	case tikvrpc.CmdPessimisticLock:
		r := req.PessimisticLock()
		// DoneAggressiveLocking inside a LockKeys call (a call with several keys) releases the previous attempt's locks in
		// the background; let that rollback reach the store before the call's own request (the other order ends in the same
		// store state: the request then refreshes the lock's for_update_ts and the late rollback does nothing)
		for i := 0; i < 200000 && tikv.VerifWGCount(w.store) > w.baseWG; i++ {
			runtime.Gosched()
		}
		before := w.held()
		resp, err := h.Client.SendRequest(ctx, addr, req, timeout)
		after := w.held()
		w.mu.Lock()
		var lr *kvrpcpb.PessimisticLockResponse
		if err == nil && resp != nil && resp.Resp != nil {
			lr, _ = resp.Resp.(*kvrpcpb.PessimisticLockResponse)
		}
		for i, m := range r.Mutations {
			id := idOf(m.Key)
			w.req[id] = true
			a := keyAns{exist: true}
			if old, ok := w.ans[id]; ok {
				a.acq = old.acq
			}
			if after[id] && !before[id] {
				a.acq = true
			}
			if lr != nil && len(lr.Errors) == 0 {
				if r.WakeUpMode == kvrpcpb.PessimisticLockWakeUpMode_WakeUpModeNormal {
					if len(lr.NotFounds) == len(r.Mutations) {
						a.exist = !lr.NotFounds[i]
					}
				} else if i < len(lr.Results) {
					res := lr.Results[i]
					switch res.Type {
					case kvrpcpb.PessimisticLockKeyResultType_LockResultNormal:
						if r.ReturnValues || r.CheckExistence {
							a.exist = res.Existence
						}
					case kvrpcpb.PessimisticLockKeyResultType_LockResultLockedWithConflict:
						a.exist = res.Existence
						a.lwc = res.LockedWithConflictTs
					}
				}
			}
			w.ans[id] = a
		}
		w.mu.Unlock()
		return resp, err
	case tikvrpc.CmdPessimisticRollback:
		w.mu.Lock()
		for _, k := range req.PessimisticRollback().Keys {
			w.rb[idOf(k)] = true
		}
		w.mu.Unlock()
	case tikvrpc.CmdCommit:
		w.mu.Lock()
		for _, k := range req.Commit().Keys {
			w.cm[idOf(k)] = true
		}
		w.mu.Unlock()
	}
	return h.Client.SendRequest(ctx, addr, req, timeout)
}

func newWorld(run *vx.Run, vals []int) *world {
	rpc, cluster, pdc, err := mocktikv.NewTiKVAndPDClient("", nil)
	if err != nil {
		panic(err)
	}
	mocktikv.BootstrapWithSingleStore(cluster)
	w := &world{run: run, rpc: rpc, mvcc: rpc.MvccStore}
	store, err := tikv.NewTestTiKVStore(rpc, &vpd{Client: pdc}, func(c tikv.Client) tikv.Client { return &hijack{Client: c, w: w} }, nil, 0)
	if err != nil {
		panic(err)
	}
	w.store = store
	w.baseWG = tikv.VerifWGCount(store)
	w.clearRec()
	for _, id := range vals {
		w.third(id, false)
	}
	txn, err := store.Begin()
	if err != nil {
		panic(err)
	}
	txn.SetPessimistic(true)
	w.txn, w.startTS = txn, txn.StartTS()
	w.refreshTS()
	return w
}

func (w *world) clearRec() {
	w.mu.Lock()
	w.req, w.rb, w.cm, w.ans = map[int]bool{}, map[int]bool{}, map[int]bool{}, map[int]keyAns{}
	w.mu.Unlock()
}

func (w *world) refreshTS() {
	ts, err := w.store.CurrentTimestamp("global")
	if err != nil {
		panic(err)
	}
	w.fu = ts
}

// third: a third party commits a value (or a delete) on the key, unless somebody holds a lock on it.
func (w *world) third(id int, del bool) string {
	locks, _ := w.mvcc.ScanLock(nil, nil, math.MaxUint64)
	for _, l := range locks {
		if idOf(l.Key) == id {
			return "skipped-locked"
		}
	}
	t, err := w.store.Begin()
	if err != nil {
		return "err"
	}
	if del {
		err = t.Delete(keyOf(id))
	} else {
		err = t.Set(keyOf(id), []byte(fmt.Sprintf("v%d", t.StartTS()-tsBase)))
	}
	if err == nil {
		err = t.Commit(context.Background())
	}
	if err != nil {
		return "err"
	}
	return "ok"
}

// drain waits until no request of the transaction is in flight and the store's background tasks (async pessimistic
// rollbacks, secondary commits) are done.
func (w *world) drain() bool {
	deadline := time.Now().Add(opBudget)
	stable := 0
	for spins := 0; ; spins++ {
		w.mu.Lock()
		infl := w.inflight
		w.mu.Unlock()
		n := tikv.VerifWGCount(w.store)
		if infl == 0 && (n < 0 || n == w.baseWG) {
			stable++
			if stable >= 2 {
				return true
			}
		} else {
			stable = 0
		}
		if spins%64 == 63 {
			if time.Now().After(deadline) {
				return false
			}
			time.Sleep(50 * time.Microsecond)
		} else {
			runtime.Gosched()
		}
	}
}

func (w *world) close() {
	if w.txn != nil && !w.closed {
		vx.Guard(func() string { w.txn.Rollback(); return "" })
	}
	if w.other != nil {
		w.other.Rollback()
		w.other = nil
	}
	w.drain()
	w.store.Close()
}

// ---------------------------------------------------------------------------------------------- rendering

func idsStr(m map[int]bool) string {
	ids := make([]int, 0, len(m))
	for id := range m {
		ids = append(ids, id)
	}
	sort.Ints(ids)
	if len(ids) == 0 {
		return "-"
	}
	s := make([]string, len(ids))
	for i, id := range ids {
		s[i] = strconv.Itoa(id)
	}
	return strings.Join(s, ",")
}

func listStr(ids []int) string {
	if len(ids) == 0 {
		return "-"
	}
	s := make([]string, len(ids))
	for i, id := range ids {
		s[i] = strconv.Itoa(id)
	}
	return strings.Join(s, ",")
}

func keysStr(ks []string) string {
	m := map[int]bool{}
	for _, k := range ks {
		m[idOf([]byte(k))] = true
	}
	return idsStr(m)
}

func optKey(k []byte) string {
	if len(k) == 0 {
		return "-"
	}
	return strconv.Itoa(idOf(k))
}

func b01(b bool) string {
	if b {
		return "1"
	}
	return "0"
}

func pm(b bool) string {
	if b {
		return "+"
	}
	return "-"
}

func rel(ts uint64) uint64 {
	if ts >= tsBase {
		return ts - tsBase
	}
	return ts
}

func entriesStr(es []transaction.VerifAggEntry) string {
	if len(es) == 0 {
		return "-"
	}
	s := make([]string, len(es))
	for i, e := range es {
		r, c := "-", "-"
		if e.HasRV {
			r = "r"
		}
		if e.HasCE {
			c = "c"
		}
		s[i] = fmt.Sprintf("%d:%s%s%s%d", idOf([]byte(e.Key)), r, c, pm(e.Exists), rel(e.LWC))
	}
	return strings.Join(s, ",")
}

func (w *world) tracked(b transaction.VerifLockBook) map[int]bool {
	m := map[int]bool{}
	for _, e := range b.Current {
		m[idOf([]byte(e.Key))] = true
	}
	for _, e := range b.LastRetry {
		m[idOf([]byte(e.Key))] = true
	}
	for _, f := range b.Flagged {
		m[idOf([]byte(f.Key))] = true
	}
	return m
}

// state renders the bookkeeping after an op exactly like stateStr of the Lean driver.
func (w *world) state(res string) string {
	b := w.txn.VerifLockBook()
	fl := "-"
	if len(b.Flagged) > 0 {
		s := make([]string, len(b.Flagged))
		for i, f := range b.Flagged {
			s[i] = fmt.Sprintf("%d%s", idOf([]byte(f.Key)), pm(f.ValueExists))
		}
		fl = strings.Join(s, ",")
	}
	w.mu.Lock()
	req, rb, cm := idsStr(w.req), idsStr(w.rb), idsStr(w.cm)
	w.mu.Unlock()
	return fmt.Sprintf("%s agg=%s cur=%s last=%s flg=%s cnt=%d pri=%s ap=%s%s:%s:%s pne=%s chk=%s req=%s rb=%s cm=%s st=%s",
		res, b01(b.InAgg), entriesStr(b.Current), entriesStr(b.LastRetry), fl, b.LockedCnt, optKey(b.Primary),
		b01(b.AAssigned), b01(b.ALastAssigned), optKey(b.APrimary), optKey(b.ALastPrimary),
		keysStr(b.PNE), keysStr(b.NeedChk), req, rb, cm, idsStr(w.held()))
}

func classify(err error) string {
	if err == nil {
		return "-"
	}
	c := errors.Cause(err)
	switch {
	case tikverr.IsErrWriteConflict(err):
		return "wc"
	case tikverr.IsErrKeyExist(err):
		return "ke"
	case c == tikverr.ErrLockWaitTimeout || c == tikverr.ErrLockAcquireFailAndNoWaitSet:
		return "to"
	}
	if _, ok := c.(*tikverr.ErrDeadlock); ok {
		return "dl"
	}
	if _, ok := c.(*tikverr.ErrLockOnlyIfExistsNoReturnValue); ok {
		return "loie-norv"
	}
	if _, ok := c.(*tikverr.ErrLockOnlyIfExistsNoPrimaryKey); ok {
		return "loie-noprimary"
	}
	m := err.Error()
	switch {
	case strings.Contains(m, "Retrying aggressive locking with ForUpdateTS"):
		return "agg-sanity"
	case strings.Contains(m, "returns LockedWithConflictTS"):
		return "lwc-sanity"
	case strings.Contains(m, "aggressive locking is pending"):
		return "pending"
	}
	return "other"
}

// ---------------------------------------------------------------------------------------------- ops

func parseIDs(s string) ([]int, bool) {
	if s == "-" {
		return nil, true
	}
	var out []int
	for _, p := range strings.Split(s, ",") {
		n, err := strconv.Atoi(p)
		if err != nil || n < 0 || n > 99 {
			return nil, false
		}
		out = append(out, n)
	}
	return out, true
}

// guard runs f; the panics with which the code refuses a call out of protocol (StartAggressiveLocking inside a stage,
// Retry/Cancel/Done outside) are an expected answer (`refused`), any other panic is a failure (`panic`).
func guard(f func() string) (out string) {
	defer func() {
		if e := recover(); e != nil {
			out = "panic"
			if s, ok := e.(string); ok && strings.HasPrefix(s, "Trying to ") && strings.Contains(s, "aggressive locking") {
				out = "refused"
			}
		}
	}()
	return f()
}

// exec runs one op (the words of an op line; observed answers of an earlier run are ignored) and returns the op line with
// the answers observed now and the implementation's result line.
func (w *world) exec(ws []string) (string, string) {
	bad := strings.Join(ws, " ")
	simple := func(f func() string) (string, string) {
		if w.closed {
			return ws[0], w.state("closed")
		}
		w.clearRec()
		res := guard(f)
		if !w.drain() {
			return ws[0], "FAIL hang"
		}
		return ws[0], w.state(res)
	}
	errRes := func(err error) string {
		if err == nil {
			return "ok"
		}
		return "err:" + classify(err)
	}
	switch ws[0] {
	case "start":
		return simple(func() string { w.txn.StartAggressiveLocking(); return "ok" })
	case "retry":
		return simple(func() string { w.txn.RetryAggressiveLocking(context.Background()); return "ok" })
	case "cancel":
		return simple(func() string { w.txn.CancelAggressiveLocking(context.Background()); return "ok" })
	case "done":
		return simple(func() string { w.txn.DoneAggressiveLocking(context.Background()); return "ok" })
	case "rollback":
		return simple(func() string {
			err := w.txn.Rollback()
			w.closed = true
			return errRes(err)
		})
	case "commit":
		return simple(func() string {
			err := w.txn.Commit(context.Background())
			w.closed = true
			return errRes(err)
		})
	case "pne":
		if len(ws) != 2 {
			return bad, "bad-op"
		}
		ids, ok := parseIDs(ws[1])
		if !ok || len(ids) != 1 {
			return bad, "bad-op"
		}
		_, out := simple(func() string {
			w.txn.GetMemBuffer().UpdateFlags(keyOf(ids[0]), kv.SetPresumeKeyNotExists)
			return "ok"
		})
		return "pne " + ws[1], out
	case "lock":
		if len(ws) < 3 {
			return bad, "bad-op"
		}
		ids, ok := parseIDs(ws[1])
		opts := ws[2]
		if !ok || strings.Trim(opts, "rcen-") != "" {
			return bad, "bad-op"
		}
		if w.closed {
			return fmt.Sprintf("lock %s %s fu=0 exp=0 err=- ans=-", ws[1], opts), w.state("closed")
		}
		w.clearRec()
		exp := w.txn.VerifMayExpire()
		wait := int64(2)
		if strings.Contains(opts, "n") {
			wait = kv.LockNoWait
		}
		lc := kv.NewLockCtx(w.fu, wait, time.Now())
		if strings.Contains(opts, "r") {
			lc.InitReturnValues(len(ids))
		}
		if strings.Contains(opts, "c") {
			lc.InitCheckExistence(len(ids))
		}
		if strings.Contains(opts, "e") {
			lc.LockOnlyIfExists = true
		}
		keys := make([][]byte, len(ids))
		for i, id := range ids {
			keys[i] = keyOf(id)
		}
		var err error
		res := guard(func() string {
			err = w.txn.LockKeys(context.Background(), lc, keys...)
			return errRes(err)
		})
		if !w.drain() {
			return bad, "FAIL hang"
		}
		w.mu.Lock()
		errc, ans := "-", "-"
		if len(w.req) > 0 {
			errc = classify(err)
			ids2 := make([]int, 0, len(w.ans))
			for id := range w.ans {
				ids2 = append(ids2, id)
			}
			sort.Ints(ids2)
			parts := make([]string, len(ids2))
			for i, id := range ids2 {
				a := w.ans[id]
				c := "N"
				if a.acq {
					c = "A"
				}
				parts[i] = fmt.Sprintf("%d:%s%s%d", id, c, pm(a.exist), rel(a.lwc))
			}
			ans = strings.Join(parts, ",")
		}
		w.mu.Unlock()
		return fmt.Sprintf("lock %s %s fu=%d exp=%s err=%s ans=%s", ws[1], opts, rel(w.fu), b01(exp), errc, ans), w.state(res)
	// ---- environment
	case "ts":
		if !w.closed {
			w.refreshTS()
		}
		return "ts", "env"
	case "put", "del":
		if len(ws) != 2 {
			return bad, "bad-op"
		}
		ids, ok := parseIDs(ws[1])
		if !ok || len(ids) != 1 {
			return bad, "bad-op"
		}
		w.run.Count("env:" + ws[0] + ":" + w.third(ids[0], ws[0] == "del"))
		return ws[0] + " " + ws[1], "env"
	case "olock":
		if len(ws) != 2 {
			return bad, "bad-op"
		}
		ids, ok := parseIDs(ws[1])
		if !ok || len(ids) != 1 {
			return bad, "bad-op"
		}
		if w.other == nil {
			t, err := w.store.Begin()
			if err != nil {
				panic(err)
			}
			t.SetPessimistic(true)
			w.other = t
		}
		ts, _ := w.store.CurrentTimestamp("global")
		err := w.other.LockKeys(context.Background(), kv.NewLockCtx(ts, kv.LockNoWait, time.Now()), keyOf(ids[0]))
		if err != nil {
			w.run.Count("env:olock:blocked")
		} else {
			w.run.Count("env:olock:ok")
		}
		w.drain()
		return "olock " + ws[1], "env"
	case "orel":
		if w.other != nil {
			w.other.Rollback()
			w.other = nil
			w.drain()
		}
		return "orel", "env"
	case "age":
		if !w.closed {
			w.txn.VerifBackdateLastAttempt(time.Hour)
		}
		return "age", "env"
	case "chk-noleak":
		if !w.drain() {
			return "chk-noleak", "FAIL hang"
		}
		held := w.held()
		if !w.closed {
			tr := w.tracked(w.txn.VerifLockBook())
			for id := range tr {
				delete(held, id)
			}
		}
		if len(held) == 0 {
			return "chk-noleak", "ok"
		}
		return "chk-noleak", "FAIL leak " + idsStr(held)
	}
	return bad, "bad-op"
}

// ---------------------------------------------------------------------------------------------- driver

type runner struct {
	run   *vx.Run
	w     *world
	cases int
}

func (r *runner) endCase() {
	if r.w != nil {
		r.w.close()
		r.w = nil
	}
}

func (r *runner) beginCase(tag string) {
	r.endCase()
	r.cases++
	r.run.Comment(fmt.Sprintf("case %d %s", r.cases, tag))
}

// do executes one op line (generated or replayed) and emits it.
func (r *runner) do(line string) string {
	ws := strings.Fields(line)
	if len(ws) == 0 {
		return ""
	}
	if ws[0] == "reset" {
		r.endCase()
		var vals []int
		ok := len(ws) == 2 && strings.HasPrefix(ws[1], "v=")
		if ok {
			vals, ok = parseIDs(ws[1][2:])
		}
		if !ok {
			r.run.Emit(line, "bad-op")
			return "bad-op"
		}
		r.w = newWorld(r.run, vals)
		r.run.Emit("reset v="+listStr(vals), "ok")
		return "ok"
	}
	if r.w == nil {
		r.run.Emit(line, "bad-op")
		return "bad-op"
	}
	op, impl := r.w.exec(ws)
	r.run.Count("op:" + ws[0])
	r.run.Emit(op, impl)
	return impl
}

func main() {
	lg := zap.New(zapcore.NewNopCore())
	log.ReplaceGlobals(lg, &log.ZapProperties{Core: zapcore.NewNopCore(), Level: zap.NewAtomicLevelAt(zapcore.FatalLevel)})
	run := vx.Start()
	r := &runner{run: run}
	if run.Replay != "" {
		lines := run.ReplayLines()
		for _, l := range lines {
			if strings.HasPrefix(l, "#") {
				if strings.HasPrefix(l, "# case") {
					r.endCase()
					r.cases++
				}
				run.Comment(strings.TrimSpace(strings.TrimPrefix(l, "#")))
				continue
			}
			r.do(l)
		}
		r.endCase()
		run.Finish()
		return
	}
	generate(r)
	r.endCase()
	run.Stats["cases"] = r.cases
	run.Finish()
}
