//go:build verif

package main

import (
	"strings"
	"sync/atomic"
	"time"

	"github.com/tikv/client-go/v2/verifx/hub"
	"github.com/tikv/client-go/v2/verifx/vx"
)

// Directed family (profile full; C02 and C03 run it on every seed): an async-commit transaction with its primary and its
// secondaries in three different regions dies (or fails) in the middle of its prewrite phase — the primary's region and one
// secondary region are prewritten, the other secondary region never is (client crash before that request, or its prewrite is
// refused with a write conflict and the client dies before its clean-up) —; after the ttl a foreign client meets one of the
// locks and recovers the transaction: CheckTxnStatus on the primary, then one CheckSecondaryLocks request per region, sent by
// concurrent goroutines.  BOTH arrival orders of the per-region answers are forced (a Delay fault on one of the two
// requests): "lock missing" first and "locks present" first.  The transaction must end rolled back on every key.

func hasKey(list string, k []byte) bool {
	h := hub.Hx(k)
	for _, x := range strings.Split(list, ",") {
		if x == h {
			return true
		}
	}
	return false
}

// prewrite / checksecondary request naming key k
func prewriteOf(k []byte) func(kind, cmd string) bool {
	needle := ":" + hub.Hx(k) + ":"
	return func(kind, cmd string) bool { return kind == "prewrite" && strings.Contains(cmd, needle) }
}

func checkSecOf(k []byte) func(kind, cmd string) bool {
	return func(kind, cmd string) bool {
		f := strings.Fields(cmd)
		return kind == "checksecondary" && len(f) > 1 && hasKey(f[1], k)
	}
}

func asyncRecoveryScenario(missingFirst bool, conflict bool, how int, r *vx.Rand) {
	layout := pick(r, layoutsOf(3))
	regionOf := func(k []byte) int {
		n := 0
		for _, b := range layout {
			if string(k) >= string(b) {
				n++
			}
		}
		return n
	}
	byRegion := map[int][][]byte{}
	for _, k := range keyPool {
		byRegion[regionOf(k)] = append(byRegion[regionOf(k)], k)
	}
	// at least one key in each of the three regions, sometimes a second one
	var mine [][]byte
	for reg := 0; reg < 3; reg++ {
		ks := byRegion[reg]
		mine = append(mine, pick(r, ks))
		if len(ks) > 1 && r.Chance(25) {
			mine = append(mine, pick(r, ks))
		}
	}
	mine = sortedKeys(mine)
	pess := r.Chance(30)
	// the primary: the smallest key (optimistic) or the key locked first (pessimistic)
	p := mine[0]
	if pess {
		p = pick(r, mine)
	}
	// s1 / s2: secondaries in the two other regions; s2's region is the one that is never prewritten
	var others [][]byte
	for _, k := range mine {
		if regionOf(k) != regionOf(p) {
			others = append(others, k)
		}
	}
	s1 := others[0]
	var s2 []byte
	for _, k := range others {
		if regionOf(k) != regionOf(s1) {
			s2 = k
		}
	}
	if r.Bool() {
		s1, s2 = s2, s1
	}
	w := hub.NewWorld(rec, hub.Options{Full: lean, Seed: r.U64(), Splits: layout})
	defer w.Close()
	for _, k := range keyPool {
		w.TrackKey(k)
	}
	if !seed(w, subset(r, keyPool, 50)) {
		return
	}
	a := w.NewClient("a")
	g := w.Gate()
	step := func(f func()) bool { return runAll(w, scenarioTimeout, f) }
	if !step(func() {
		a.Begin(pess, "async")
		if pess {
			a.Lock([][]byte{p}, "-")
			for _, k := range mine {
				if string(k) != string(p) {
					a.Lock([][]byte{k}, "-")
				}
			}
		}
	}) {
		return
	}
	conflict = conflict && !pess
	if conflict {
		// the prewrite of s2's region will be refused: a newer version committed after the start ts
		if !thirdParty(w, "p1", [][]byte{s2}, 1) {
			return
		}
	}
	if !step(func() {
		for i, k := range mine {
			a.Set(k, val(0, 0, i))
		}
	}) {
		return
	}
	regions := map[int]bool{}
	for _, k := range mine {
		regions[regionOf(k)] = true
	}
	base := a.RPCs()
	nOther := len(regions) - 1
	// the starved region's prewrite goes last …
	g.AddFault(&hub.Fault{Kind: hub.Delay, Client: a, Label: "starved-prewrite", Match: prewriteOf(s2),
		Until: func() bool { return a.RPCs() >= base+nOther }, MaxHold: 2 * time.Second})
	if conflict {
		// … is refused, and the client dies before its clean-up goes out
		g.AddFault(&hub.Fault{Kind: hub.CrashAfter, Client: a, Match: prewriteOf(s2)})
		rec.Count("c02:async-recovery:prewrite-refused")
	} else {
		// … and is never delivered: the client dies first
		g.AddFault(&hub.Fault{Kind: hub.CrashBefore, Client: a, Match: prewriteOf(s2)})
		rec.Count("c02:async-recovery:prewrite-undelivered")
	}
	sr := &shapeRun{w: w, a: a, prepared: true}
	sr.final()
	if !a.Crashed() {
		rec.Count("c02:async-recovery:not-crashed")
		w.WaitDrained(scenarioTimeout)
	}
	// recovery after the ttl, the two CheckSecondaryLocks answers in the chosen order
	w.AdvanceClock(60000)
	rc := w.NewClient("rc")
	var firstAt atomic.Int64
	first, second := s2, s1 // missing first
	if !missingFirst {
		first, second = s1, s2
	}
	g.AddFault(&hub.Fault{Kind: hub.Topo, Client: rc, Label: "first-check", Match: checkSecOf(first),
		Do: func(*hub.World) { firstAt.Store(time.Now().UnixNano()) }})
	g.AddFault(&hub.Fault{Kind: hub.Delay, Client: rc, Label: "second-check", Match: checkSecOf(second),
		Until: func() bool {
			t := firstAt.Load()
			return t != 0 && time.Now().UnixNano()-t > int64(2*time.Millisecond)
		}, MaxHold: 2 * time.Second})
	if missingFirst {
		rec.Count("c02:async-recovery:missing-first")
	} else {
		rec.Count("c02:async-recovery:present-first")
	}
	if !step(func() {
		switch how % 4 {
		case 0:
			rc.Begin(false, "2pc")
			rc.Get(s1)
			rc.Rollback()
		case 1:
			rc.Begin(false, "2pc")
			rc.Get(p)
			rc.Rollback()
		case 2:
			rc.Begin(false, "2pc")
			rc.Set(s1, val(2, 0, 0))
			rc.Commit()
		default:
			rc.Begin(false, "2pc")
			rc.BGet(sortedKeys(mine))
			rc.Rollback()
		}
	}) {
		return
	}
	if !w.WaitDrained(scenarioTimeout) {
		w.Hang("drain")
		return
	}
	g.ClearFaults()
	who := rc
	if r.Bool() {
		who = nil
	}
	recoverWith(w, who, keyPool, r, r.Intn(8), a)
}

// asyncRecoveryFamily runs the directed family (profile full only: the mock has no async commit).
func asyncRecoveryFamily(r *vx.Rand, rounds int) {
	if lean == nil {
		return
	}
	for i := 0; i < rounds; i++ {
		for _, missingFirst := range []bool{true, false} {
			for _, conflict := range []bool{false, true} {
				asyncRecoveryScenario(missingFirst, conflict, i*2+r.Intn(2), r.Fork())
				rec.Count("c02:family:async-recovery")
			}
		}
	}
}
