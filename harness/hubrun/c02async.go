//go:build verif

package main

import (
	"strings"
	"sync/atomic"
	"time"

	"github.com/tikv/client-go/v2/verifx/hub"
	"github.com/tikv/client-go/v2/verifx/vx"
)

// Directed family (profile full; C02 and C03 run it on every seed): an async-commit transaction with its primary and its
// secondaries in three different regions dies (or fails) in the middle of its prewrite phase — the primary's region and one
// secondary region are prewritten, the other secondary region never is (client crash before that request, or its prewrite is
// refused with a write conflict and the client dies before its clean-up) —; after the ttl a foreign client meets one of the
// locks and recovers the transaction: CheckTxnStatus on the primary, then one CheckSecondaryLocks request per region, sent by
// concurrent goroutines.  BOTH arrival orders of the per-region answers are forced (a Delay fault on one of the two
// requests): "lock missing" first and "locks present" first.  The transaction must end rolled back on every key.

func hasKey(list string, k []byte) bool {
	h := hub.Hx(k)
	for _, x := range strings.Split(list, ",") {
		if x == h {
			return true
		}
	}
	return false
}

// prewrite / checksecondary request naming key k
func prewriteOf(k []byte) func(kind, cmd string) bool {
	needle := ":" + hub.Hx(k) + ":"
	return func(kind, cmd string) bool { return kind == "prewrite" && strings.Contains(cmd, needle) }
}

func checkSecOf(k []byte) func(kind, cmd string) bool {
	return func(kind, cmd string) bool {
		f := strings.Fields(cmd)
		return kind == "checksecondary" && len(f) > 1 && hasKey(f[1], k)
	}
}

func asyncRecoveryScenario(missingFirst bool, conflict bool, how int, r *vx.Rand) {
	layout := pick(r, layoutsOf(3))
	regionOf := func(k []byte) int {
		n := 0
		for _, b := range layout {
			if string(k) >= string(b) {
				n++
			}
		}
		return n
	}
	byRegion := map[int][][]byte{}
	for _, k := range keyPool {
		byRegion[regionOf(k)] = append(byRegion[regionOf(k)], k)
	}
	// at least one key in each of the three regions, sometimes a second one
	var mine [][]byte
	for reg := 0; reg < 3; reg++ {
		ks := byRegion[reg]
		mine = append(mine, pick(r, ks))
		if len(ks) > 1 && r.Chance(25) {
			mine = append(mine, pick(r, ks))
		}
	}
	mine = sortedKeys(mine)
	pess := r.Chance(30)
	// the primary: the smallest key (optimistic) or the key locked first (pessimistic)
	p := mine[0]
	if pess {
		p = pick(r, mine)
	}
	// s1 / s2: secondaries in the two other regions; s2's region is the one that is never prewritten
	var others [][]byte
	for _, k := range mine {
		if regionOf(k) != regionOf(p) {
			others = append(others, k)
		}
	}
	s1 := others[0]
	var s2 []byte
	for _, k := range others {
		if regionOf(k) != regionOf(s1) {
			s2 = k
		}
	}
	if r.Bool() {
		s1, s2 = s2, s1
	}
	w := hub.NewWorld(rec, hub.Options{Full: lean, Seed: r.U64(), Splits: layout})
	defer w.Close()
	for _, k := range keyPool {
		w.TrackKey(k)
	}
	if !seed(w, subset(r, keyPool, 50)) {
		return
	}
	a := w.NewClient("a")
	g := w.Gate()
	step := func(f func()) bool { return runAll(w, scenarioTimeout, f) }
	if !step(func() {
		a.Begin(pess, "async")
		if pess {
			a.Lock([][]byte{p}, "-")
			for _, k := range mine {
				if string(k) != string(p) {
					a.Lock([][]byte{k}, "-")
				}
			}
		}
	}) {
		return
	}
	conflict = conflict && !pess
	if conflict {
		// the prewrite of s2's region will be refused: a newer version committed after the start ts
		if !thirdParty(w, "p1", [][]byte{s2}, 1) {
			return
		}
	}
	if !step(func() {
		for i, k := range mine {
			a.Set(k, val(0, 0, i))
		}
	}) {
		return
	}
	regions := map[int]bool{}
	for _, k := range mine {
		regions[regionOf(k)] = true
	}
	base := a.RPCs()
	nOther := len(regions) - 1
	// the starved region's prewrite goes last …
	g.AddFault(&hub.Fault{Kind: hub.Delay, Client: a, Label: "starved-prewrite", Match: prewriteOf(s2),
		Until: func() bool { return a.RPCs() >= base+nOther }, MaxHold: 2 * time.Second})
	if conflict {
		// … is refused, and the client dies before its clean-up goes out
		g.AddFault(&hub.Fault{Kind: hub.CrashAfter, Client: a, Match: prewriteOf(s2)})
		rec.Count("c02:async-recovery:prewrite-refused")
	} else {
		// … and is never delivered: the client dies first
		g.AddFault(&hub.Fault{Kind: hub.CrashBefore, Client: a, Match: prewriteOf(s2)})
		rec.Count("c02:async-recovery:prewrite-undelivered")
	}
	sr := &shapeRun{w: w, a: a, prepared: true}
	sr.final()
	if !a.Crashed() {
		rec.Count("c02:async-recovery:not-crashed")
		w.WaitDrained(scenarioTimeout)
	}
	// recovery after the ttl, the two CheckSecondaryLocks answers in the chosen order
	w.AdvanceClock(60000)
	rc := w.NewClient("rc")
	var firstAt atomic.Int64
	first, second := s2, s1 // missing first
	if !missingFirst {
		first, second = s1, s2
	}
	g.AddFault(&hub.Fault{Kind: hub.Topo, Client: rc, Label: "first-check", Match: checkSecOf(first),
		Do: func(*hub.World) { firstAt.Store(time.Now().UnixNano()) }})
	g.AddFault(&hub.Fault{Kind: hub.Delay, Client: rc, Label: "second-check", Match: checkSecOf(second),
		Until: func() bool {
			t := firstAt.Load()
			return t != 0 && time.Now().UnixNano()-t > int64(2*time.Millisecond)
		}, MaxHold: 2 * time.Second})
	if missingFirst {
		rec.Count("c02:async-recovery:missing-first")
	} else {
		rec.Count("c02:async-recovery:present-first")
	}
	if !step(func() {
		switch how % 4 {
		case 0:
			rc.Begin(false, "2pc")
			rc.Get(s1)
			rc.Rollback()
		case 1:
			rc.Begin(false, "2pc")
			rc.Get(p)
			rc.Rollback()
		case 2:
			rc.Begin(false, "2pc")
			rc.Set(s1, val(2, 0, 0))
			rc.Commit()
		default:
			rc.Begin(false, "2pc")
			rc.BGet(sortedKeys(mine))
			rc.Rollback()
		}
	}) {
		return
	}
	if !w.WaitDrained(scenarioTimeout) {
		w.Hang("drain")
		return
	}
	g.ClearFaults()
	who := rc
	if r.Bool() {
		who = nil
	}
	recoverWith(w, who, keyPool, r, r.Intn(8), a)
}

// asyncRecoveryFamily runs the directed family (profile full only: the mock has no async commit).
func asyncRecoveryFamily(r *vx.Rand, rounds int) {
	if lean == nil {
		return
	}
	for i := 0; i < rounds; i++ {
		for _, missingFirst := range []bool{true, false} {
			for _, conflict := range []bool{false, true} {
				timed("async-recovery", func() { asyncRecoveryScenario(missingFirst, conflict, i*2+r.Intn(2), r.Fork()) })
				rec.Count("c02:family:async-recovery")
			}
		}
	}
}

// slowOwnerScenario: "resolver versus a slow owner around the ttl instant".  An optimistic transaction without heart-beat is
// held between its prewrites and the commit of its primary; the virtual clock stands shortly before (or after: control) the
// instant its lock ttl runs out; a foreign client meets one of its locks, and the clock steps over the ttl instant BETWEEN the
// execution of that client's CheckTxnStatus request and the delivery of the answer (the request carried a current ts from
// before the instant: the store kept the primary and answered its ttl; the resolver's oracle has moved on when it looks at the
// answer).  Then the owner goes on: its primary commit lands; it dies right after it, or completes.  A resolver may roll a
// lock back only when the store SAID the transaction is rolled back (monitor rule 4); the records of the transaction stay
// all-or-nothing (C02).
func slowOwnerScenario(r *vx.Rand) {
	s := genShape(r)
	for len(s.keys) < 2 {
		s = genShape(r)
	}
	s.pess = false
	if r.Chance(80) {
		s.mode = "2pc"
	}
	for i := range s.kinds {
		if s.kinds[i] == "insdel" || s.kinds[i] == "lock" {
			s.kinds[i] = "put"
		}
	}
	sr := startShape(s, r)
	w := sr.w
	defer w.Close()
	if !sr.ok || !sr.prepared {
		return
	}
	a := sr.a
	g := w.Gate()
	b := w.NewClient("b")
	startPhys := int64(a.StartTS() >> 18)
	before := r.Chance(75) // the foreign client arrives shortly before the ttl instant (else: well after it)
	stepOver := r.Chance(80)
	key := s.keys[0] // the optimistic primary is the smallest key
	if r.Chance(85) {
		key = pick(r, s.keys[1:])
	}
	how := pick(r, []string{"read", "read", "write", "lock"})
	stepMs := int64(150 + r.Intn(400))
	if stepOver {
		g.AddFault(&hub.Fault{Kind: hub.Topo, Client: b, Label: "status-delivery", Repeat: r.Chance(30),
			Match: func(kind, cmd string) bool { return kind == "status" },
			Deliver: func() {
				w.AdvanceClock(stepMs)
				b.CurrentTS() // any timestamp fetch of the resolver's store refreshes its oracle
			}})
		rec.Count("c02:slow-owner:clock-step-at-status-delivery")
	}
	done := make(chan struct{})
	bRPCs := 3 + r.Intn(3)
	target := startPhys + 2990 - int64(r.Intn(40))
	if !before {
		target = startPhys + 3500 + int64(r.Intn(3000))
	}
	hf := g.AddFault(&hub.Fault{Kind: hub.Hold, Client: a, N: 0, Label: "slow-owner",
		Match: func(kind, cmd string) bool { return kind == "commit" },
		Start: func() {
			defer close(done)
			defer func() { recover() }()
			if d := target - w.Now(); d > 0 {
				w.AdvanceClock(d)
			}
			switch how {
			case "read":
				b.Begin(false, "2pc")
				b.Get(key)
				b.Rollback()
			case "write":
				b.Begin(false, "2pc")
				b.Set(key, []byte{0x66})
				b.Commit()
			default:
				b.Begin(true, "2pc")
				b.Lock([][]byte{key}, "n")
				b.Rollback()
			}
		},
		Until: func() bool {
			select {
			case <-done:
				return true
			default:
			}
			return b.RPCs() >= bRPCs
		},
		MaxHold: 300 * time.Millisecond,
	})
	if r.Chance(60) {
		// the owner dies when its first commit request (the primary's) has been executed
		g.AddFault(&hub.Fault{Kind: hub.CrashAfter, Client: a, N: 0, Match: func(kind, cmd string) bool { return kind == "commit" }})
	}
	rec.Count("c02:slow-owner:" + how)
	sd := &side{f: hf, done: done}
	// once the owner goes on, time goes on for the foreign client too (its oracle is refreshed by timestamp fetches): a
	// client waiting for a lock that is 20 ms from its ttl would otherwise retry thousands of times on a frozen clock
	stop := make(chan struct{})
	defer close(stop)
	go func() {
		defer func() { recover() }()
		for {
			select {
			case <-done:
				return
			case <-stop:
				return
			default:
			}
			if hf.Fired() {
				w.AdvanceClock(25)
				b.CurrentTS()
			}
			hub.Pause(500 * time.Microsecond)
		}
	}()
	if _, ret := sr.final(); !ret && !a.Crashed() {
		return
	}
	if !sd.wait(w) {
		return
	}
	if !a.Crashed() {
		w.WaitDrained(scenarioTimeout)
	}
	g.ClearFaults()
	who := b
	if r.Bool() {
		who = nil
	}
	recoverWith(w, who, s.keys, r, r.Intn(8), a)
}

// timed runs a scenario and counts it as slow when it took more than a second (a wait that ran into its time limit).
func timed(family string, f func()) {
	t0 := time.Now()
	f()
	if time.Since(t0) > time.Second {
		rec.Count("slow-scenario:" + family)
	}
}
