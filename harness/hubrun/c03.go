//go:build verif

package main

import (
	"time"

	"github.com/tikv/client-go/v2/verifx/hub"
	"github.com/tikv/client-go/v2/verifx/vx"
)

// C03: faults at RPC indexes of Commit; the result class of Commit and the final MVCC truth go to the judge.
// blackout-before / blackout-after (extension of the fault list): from the index on EVERY request of the committer is
// dropped / every response is lost — the only way an RPC outcome stays unknown after the client's own retries.
var c03Kinds = []string{"drop-before", "drop-after", "NotLeader", "EpochNotMatch", "ServerIsBusy", "StaleCommand", "split", "expire", "push", "blackout-before", "blackout-after"}

type c03Fault struct {
	kind string
	at   int
}

// addC03Fault registers one fault on client a; returns a channel that is closed when its side client (if any) is done.
func addC03Fault(sr *shapeRun, f c03Fault, name string, r *vx.Rand) chan struct{} {
	w, a, s := sr.w, sr.a, sr.s
	g := w.Gate()
	switch f.kind {
	case "drop-before":
		g.AddFault(&hub.Fault{Kind: hub.DropBefore, Client: a, N: f.at})
	case "drop-after":
		g.AddFault(&hub.Fault{Kind: hub.DropAfter, Client: a, N: f.at})
	case "blackout-before":
		g.AddFault(&hub.Fault{Kind: hub.DropBefore, Client: a, N: f.at, Repeat: true})
	case "blackout-after":
		g.AddFault(&hub.Fault{Kind: hub.DropAfter, Client: a, N: f.at, Repeat: true})
	case "NotLeader", "EpochNotMatch", "ServerIsBusy", "StaleCommand":
		g.AddFault(&hub.Fault{Kind: hub.RegionErr, Client: a, N: f.at, Class: f.kind})
	case "split":
		x := hub.SplitFault(s.splitKey(r))
		x.Client, x.N = a, f.at
		g.AddFault(x)
	case "expire", "push":
		// another client meets the transaction's locks at that instant: either after the clock passed their TTL (it then
		// rolls the transaction back or, if the primary is committed, commits the secondaries), or with the lock alive
		// (it pushes min-commit-ts / waits)
		b := w.NewClient(name)
		done := make(chan struct{})
		key := pick(r, s.keys)
		expire := f.kind == "expire"
		g.AddFault(&hub.Fault{Kind: hub.Hold, Client: a, N: f.at, Label: f.kind,
			Start: func() {
				defer close(done)
				defer func() { recover() }()
				if expire {
					w.AdvanceClock(60000)
				}
				b.Begin(false, "2pc")
				b.Get(key)
				b.Rollback()
			},
			Until: func() bool {
				select {
				case <-done:
					return true
				default:
				}
				return !expire && b.RPCs() >= 2
			},
			MaxHold: 200 * time.Millisecond,
		})
		return done
	}
	return nil
}

func c03Scenario(s shape, faults []c03Fault, r *vx.Rand) {
	sr := startShape(s, r)
	w := sr.w
	defer w.Close()
	if !sr.ok {
		return
	}
	var sides []chan struct{}
	for i, f := range faults {
		if ch := addC03Fault(sr, f, string(rune('b'+i)), r); ch != nil {
			sides = append(sides, ch)
		}
		rec.Count("c03:" + f.kind)
	}
	if _, ret := sr.final(); !ret {
		return
	}
	for _, ch := range sides {
		ch := ch
		// a hold that never started (index beyond the last RPC) leaves its side client unused
		waitUntil(300*time.Millisecond, func() bool {
			select {
			case <-ch:
				return true
			default:
				return false
			}
		})
	}
	if !w.WaitDrained(scenarioTimeout) {
		w.Hang("drain")
		return
	}
	recoverAndAudit(w, s.keys, r, r.Intn(6))
}

func runC03() {
	nShapes := 13
	if run.Thorough() {
		nShapes = 60
	}
	for n := 0; n < nShapes; n++ {
		r := rnd.Fork()
		s := genShape(r)
		cnt := probe(s, r.Fork())
		rec.Count("c03:shapes")
		for i := 0; i < cnt; i++ {
			for _, k := range c03Kinds {
				c03Scenario(s, []c03Fault{{k, i}}, r.Fork())
			}
		}
		if run.Thorough() {
			// pairs: a sample of (kind, index) × (kind, index) with the second at or after the first
			for p := 0; p < 40 && cnt > 0; p++ {
				i := r.Intn(cnt)
				j := i + r.Intn(cnt-i+1)
				c03Scenario(s, []c03Fault{{pick(r, c03Kinds), i}, {pick(r, c03Kinds), j}}, r.Fork())
			}
		}
	}
}
