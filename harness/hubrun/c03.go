//go:build verif

package main

import (
	"os"
	"time"

	"github.com/tikv/client-go/v2/verifx/hub"
	"github.com/tikv/client-go/v2/verifx/vx"
)

// C03: faults at RPC indexes of Commit; the result class of Commit and the final MVCC truth go to the judge.
// blackout-before / blackout-after (extension of the fault list): from the index on EVERY request of the committer is
// dropped / every response is lost — the only way an RPC outcome stays unknown after the client's own retries.
var c03Kinds = []string{"drop-before", "drop-after", "NotLeader", "EpochNotMatch", "ServerIsBusy", "StaleCommand", "split", "expire", "push", "blackout-before", "blackout-after", "cancel-before", "cancel-after"}

type c03Fault struct {
	kind string
	at   int
}

// side is the second client of an expire/push fault: done is closed when it has finished.
type side struct {
	f    *hub.Fault
	done chan struct{}
}

// wait waits for the side client if its hold has started (an index beyond the last RPC never starts it).
func (s *side) wait(w *hub.World) bool {
	if s == nil || !s.f.Started() {
		return true
	}
	if !waitUntil(scenarioTimeout, func() bool {
		select {
		case <-s.done:
			return true
		default:
			return false
		}
	}) {
		w.Hang("side-client")
		return false
	}
	return true
}

// addC03Fault registers one fault on client a; returns the side client (if any).
func addC03Fault(sr *shapeRun, f c03Fault, name string, r *vx.Rand) *side {
	w, a, s := sr.w, sr.a, sr.s
	g := w.Gate()
	switch f.kind {
	case "drop-before":
		g.AddFault(&hub.Fault{Kind: hub.DropBefore, Client: a, N: f.at})
	case "drop-after":
		g.AddFault(&hub.Fault{Kind: hub.DropAfter, Client: a, N: f.at})
	case "cancel-before":
		// the caller's context of Commit ends while this request is outstanding: not executed / executed, answer not read
		g.AddFault(&hub.Fault{Kind: hub.DropBefore, Client: a, N: f.at, Cancel: sr.cancel})
	case "cancel-after":
		g.AddFault(&hub.Fault{Kind: hub.DropAfter, Client: a, N: f.at, Cancel: sr.cancel})
	case "blackout-before":
		g.AddFault(&hub.Fault{Kind: hub.DropBefore, Client: a, N: f.at, Repeat: true})
	case "blackout-after":
		g.AddFault(&hub.Fault{Kind: hub.DropAfter, Client: a, N: f.at, Repeat: true})
	case "NotLeader", "EpochNotMatch", "ServerIsBusy", "StaleCommand":
		g.AddFault(&hub.Fault{Kind: hub.RegionErr, Client: a, N: f.at, Class: f.kind})
	case "split":
		x := hub.SplitFault(s.splitKey(r))
		x.Client, x.N = a, f.at
		g.AddFault(x)
	case "expire", "push":
		// another client meets the transaction's locks at that instant: either after the clock passed their TTL (it then
		// rolls the transaction back or, if the primary is committed, commits the secondaries), or with the lock alive
		// (it pushes min-commit-ts / waits)
		b := w.NewClient(name)
		done := make(chan struct{})
		key := pick(r, s.keys)
		expire := f.kind == "expire"
		lockProbe := r.Bool()
		hf := g.AddFault(&hub.Fault{Kind: hub.Hold, Client: a, N: f.at, Label: f.kind,
			Start: func() {
				defer close(done)
				defer func() { recover() }()
				if expire {
					w.AdvanceClock(60000)
				}
				if s.pess && lockProbe {
					// a locking request is what meets (and resolves) pessimistic locks; plain reads ignore them
					b.Begin(true, "2pc")
					b.Lock([][]byte{key}, "n")
					b.Rollback()
				} else {
					b.Begin(false, "2pc")
					b.Get(key)
					b.Rollback()
				}
			},
			Until: func() bool {
				select {
				case <-done:
					return true
				default:
				}
				return !expire && b.RPCs() >= 2
			},
			MaxHold: 200 * time.Millisecond,
		})
		return &side{f: hf, done: done}
	}
	return nil
}

func c03Scenario(s shape, faults []c03Fault, r *vx.Rand) {
	sr := startShape(s, r)
	w := sr.w
	defer w.Close()
	if !sr.ok {
		return
	}
	var sides []*side
	for i, f := range faults {
		if sd := addC03Fault(sr, f, string(rune('b'+i)), r); sd != nil {
			sides = append(sides, sd)
		}
		rec.Count("c03:" + f.kind)
	}
	if _, ret := sr.final(); !ret {
		return
	}
	// twice: a hold whose index lies in the background work starts after Commit has returned
	for round := 0; round < 2; round++ {
		for _, sd := range sides {
			if !sd.wait(w) {
				return
			}
		}
		if !w.WaitDrained(scenarioTimeout) {
			w.Hang("drain")
			return
		}
	}
	recoverAndAudit(w, s.keys, r, r.Intn(6), sr.a)
}

// c03Triple (directed): plain 2PC, the primary batch holds two or more keys of one region; three faults in a row on the commit
// requests of the committer: the FIRST one (the primary batch's) is executed and its answer is lost; the region is split
// between the batch's keys just before the retry, which is therefore refused with EpochNotMatch and re-grouped into
// sub-batches; every later commit request is refused with a region error (no leader / busy / stale) until the commit
// back-off budget is used up.  The commit point was reached and never acknowledged: Commit must answer `undetermined`.
func c03Triple(r *vx.Rand) {
	s := genShape(r)
	for len(s.keys) < 2 {
		s = genShape(r)
	}
	s.mode = "2pc"
	s.stores = 1
	s.ageMs = 0 // an old transaction fails its age check before the commit point
	// the primary's region holds at least two of the keys: one region, or a boundary above the two smallest keys
	s.layout = nil
	if len(s.keys) > 2 && r.Bool() {
		s.layout = [][]byte{s.keys[len(s.keys)-1]}
	}
	if s.pess {
		s.primary = r.Intn(2)
	}
	for i := range s.kinds {
		if s.kinds[i] == "insdel" || s.kinds[i] == "lock" {
			s.kinds[i] = "put"
		}
	}
	sr := startShape(s, r)
	w := sr.w
	defer w.Close()
	if !sr.ok || !sr.prepared {
		return
	}
	g := w.Gate()
	a := sr.a
	g.AddFault(&hub.Fault{Kind: hub.DropAfter, Client: a, Match: isCommit})
	// a split between the two smallest keys (both are in the primary batch)
	sp := hub.SplitFault(s.keys[1])
	sp.Client, sp.Match = a, isCommit
	g.AddFault(sp)
	class := pick(r, []string{"NotLeader", "NotLeader", "ServerIsBusy", "RegionNotFound"})
	g.AddFault(&hub.Fault{Kind: hub.RegionErr, Client: a, Class: class, Match: isCommit, Repeat: true})
	rec.Count("c03:triple:" + class)
	res, ret := sr.final()
	if !ret {
		return
	}
	rec.Count("c03:triple:result:" + res)
	if !w.WaitDrained(scenarioTimeout) {
		w.Hang("drain")
		return
	}
	g.ClearFaults()
	recoverAndAudit(w, s.keys, r, r.Intn(6), a)
}

// agedShape: a shape whose transaction is OLD when Commit is called — more than MaxTxnTimeUse (24 h; every commit mode, the async
// modes unless HUBRUN_OLD_ASYNC=0, see genShape) or a few seconds (beyond the async-commit safe window: the store refuses
// one-phase / async commit because of max_commit_ts) — with the safe window widened or not, mostly in one region so that
// one-phase commit is really tried.
func agedShape(r *vx.Rand, i int) shape {
	s := genShape(r)
	if r.Chance(60) {
		s.layout = nil
	}
	if i%2 == 0 {
		s.ageMs = 25*3600*1000 + int64(r.Intn(3600*1000))
		s.wideWindow = r.Chance(70)
		s.mode = []string{"1pc", "2pc", "1pc"}[(i/2)%3]
		if os.Getenv("HUBRUN_OLD_ASYNC") != "0" {
			s.mode = modes[(i/2)%len(modes)]
		}
		if s.mode == "async" || s.mode == "both" {
			// the store accepts async commit for so old a transaction only inside a widened safe window (otherwise the shape
			// is a plain 2PC one); no failing existence check, so that the prewrites are all acknowledged
			s.wideWindow = true
			for k := range s.kinds {
				if s.kinds[k] == "insdel" {
					s.kinds[k] = "put"
				}
			}
		}
	} else {
		s.ageMs = 3200 + int64(r.Intn(7000)) // (not shortly below the 3 s lock ttl: a waiter would retry thousands of times on the frozen clock)
		s.wideWindow = r.Chance(25)
		s.mode = []string{"both", "1pc", "async", "both"}[(i/2)%4]
	}
	return s
}

func runC03() {
	nShapes := 60
	if run.Thorough() {
		nShapes = 600
	}
	nShapes = scaled(nShapes)
	asyncRecoveryFamily(rnd.Fork(), 4)
	for i := 0; i < 12; i++ {
		c03Triple(rnd.Fork())
		rec.Count("c03:family:triple")
	}
	for i := 0; i < 12; i++ {
		// old transactions: the answer of Commit against the store, without faults and with one fault
		r := rnd.Fork()
		s := agedShape(r, i)
		c03Scenario(s, nil, r.Fork())
		c03Scenario(s, []c03Fault{{pick(r, c03Kinds), r.Intn(4)}}, r.Fork())
		// … and with another client meeting the locks / the committer cut off at EVERY request index: what Commit decided
		// from the transaction's age must agree with what a resolver makes of the locks it left at that instant
		cnt := probe(s, r.Fork())
		for at := 0; at < cnt; at++ {
			for _, k := range []string{"expire", "blackout-before"} {
				c03Scenario(s, []c03Fault{{k, at}}, r.Fork())
			}
		}
		rec.Count("c03:family:aged")
	}
	for n := 0; n < nShapes; n++ {
		r := rnd.Fork()
		s := genShape(r)
		cnt := probe(s, r.Fork())
		rec.Count("c03:shapes")
		for i := 0; i < cnt; i++ {
			for _, k := range c03Kinds {
				c03Scenario(s, []c03Fault{{k, i}}, r.Fork())
			}
		}
		for i := 0; i < 3; i++ {
			// the crash-cut Commit of a transaction with a pre-history (c02hist.go): the answer it got against the store
			historyScenario(r.Fork())
			rec.Count("c03:family:history")
		}
		if run.Thorough() {
			// pairs: a sample of (kind, index) × (kind, index) with the second at or after the first
			for p := 0; p < 40 && cnt > 0; p++ {
				i := r.Intn(cnt)
				j := i + r.Intn(cnt-i+1)
				c03Scenario(s, []c03Fault{{pick(r, c03Kinds), i}, {pick(r, c03Kinds), j}}, r.Fork())
			}
		}
	}
}
