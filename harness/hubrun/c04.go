//go:build verif

package main

import (
	"fmt"
	"sync/atomic"
	"time"

	"github.com/pingcap/failpoint"
	tikvkv "github.com/tikv/client-go/v2/kv"
	"github.com/tikv/client-go/v2/txnkv/transaction"
	"github.com/tikv/client-go/v2/verifx/hub"
	"github.com/tikv/client-go/v2/verifx/vx"
)

// C04: the shapes without losses: plain, with batch-size limit 1, and with region errors / splits that force the
// committer to re-group its batches.  Nothing special is emitted: the judge's monitor reads the rpc stream.
func c04Scenario(s shape, batch1 bool, faults []c03Fault, r *vx.Rand) {
	if batch1 {
		must(failpoint.Enable("tikvclient/twoPCRequestBatchSizeLimit", "return"))
		defer failpoint.Disable("tikvclient/twoPCRequestBatchSizeLimit")
		rec.Count("c04:batch1")
	}
	sr := startShape(s, r)
	w := sr.w
	defer w.Close()
	if !sr.ok {
		return
	}
	for _, f := range faults {
		addC03Fault(sr, f, "b", r)
		rec.Count("c04:" + f.kind)
	}
	var rdDone chan struct{}
	if r.Chance(30) {
		// a concurrent reader: its lock resolution requests are part of the monitored stream
		b := w.NewClient("rd")
		rdDone = make(chan struct{})
		go func() {
			defer close(rdDone)
			defer func() { recover() }()
			b.Begin(false, "2pc")
			b.BGet(s.keys)
			b.Rollback()
		}()
	}
	if _, ret := sr.final(); !ret {
		return
	}
	if rdDone != nil && !waitUntil(scenarioTimeout, func() bool {
		select {
		case <-rdDone:
			return true
		default:
			return false
		}
	}) {
		w.Hang("reader")
		return
	}
	w.Quiesce(scenarioTimeout)
}

// c04Heartbeat keeps a pessimistic transaction open over a few heart-beat periods: ManagedLockTTL is shortened to 40 ms,
// so the ttlManager ticks every 20 ms of WALL clock (the one place where a scenario sleeps); the virtual clock moves in
// between, then the transaction ends; a heart-beat after the end would show in the 25 ms that follow.
func c04Heartbeat(s shape, r *vx.Rand) {
	old := atomic.SwapUint64(&transaction.ManagedLockTTL, 40)
	defer atomic.StoreUint64(&transaction.ManagedLockTTL, old)
	s.pess = true
	sr := startShape(s, r)
	w := sr.w
	defer w.Close()
	if !sr.ok {
		return
	}
	rec.Count("c04:heartbeat-scenario")
	for i := 0; i < 3; i++ {
		time.Sleep(25 * time.Millisecond)
		w.AdvanceClock(int64(5 + r.Intn(20)))
	}
	if _, ret := sr.final(); !ret {
		return
	}
	time.Sleep(25 * time.Millisecond)
	w.Quiesce(scenarioTimeout)
}

// beatCounter counts the heart-beat requests of a client from now on (a repeating no-op fault on them).
func beatCounter(w *hub.World, c *hub.Client) *atomic.Int32 {
	n := new(atomic.Int32)
	w.Gate().AddFault(&hub.Fault{Kind: hub.Topo, Client: c, Label: "beat", Repeat: true,
		Match: func(kind, cmd string) bool { return kind == "heartbeat" },
		Do:    func(*hub.World) { n.Add(1) }})
	return n
}

// waitBeat waits (wall clock) for the next heart-beat of the client; false = none within the time allowed (many periods).
func waitBeat(n *atomic.Int32, base int32, allowed time.Duration) bool {
	return waitUntil(allowed, func() bool { return n.Load() > base })
}

// insertLockedAt is Client.InsertLocked with the for-update ts under control (LockAt): staged write that presumes the key
// does not exist, lock call, and — only if it succeeded — the `insert` event.
func insertLockedAt(c *hub.Client, key, v []byte, flags, sel string) string {
	mb := c.Txn().GetMemBuffer()
	h := mb.Staging()
	if err := mb.SetWithFlags(key, v, tikvkv.SetPresumeKeyNotExists, tikvkv.SetNewlyInserted); err != nil {
		mb.Cleanup(h)
		return hub.Classify(err)
	}
	res := c.LockAt([][]byte{key}, flags, sel)
	if res != "ok" {
		mb.Cleanup(h)
		return res
	}
	mb.Release(h)
	return c.Insert(key, v)
}

// c04PessProgram: a pessimistic transaction whose individual LockKeys calls FAIL — write conflict (a third party committed
// the key after the for-update ts the call uses), key exists (an insert over an existing key) — and which carries on with
// OTHER keys: the first call (the one that picks the primary) may be the one that fails.  The transaction locks, writes,
// optionally stays open over a few heart-beat periods (then the trace must show heart-beats), and commits or rolls back.
// Monitor: every lock request names a primary that is locked or being locked (rule 8), heart-beats name it (rule 6), the
// prewrites carry exactly the buffered mutations (rule 9) and the primary is among them (rule 8).
func c04PessProgram(long bool, r *vx.Rand) {
	if long {
		old := atomic.SwapUint64(&transaction.ManagedLockTTL, 40)
		defer atomic.StoreUint64(&transaction.ManagedLockTTL, old)
		rec.Count("c04:pess-program:long")
	}
	nKeys := 3 + r.Intn(3)
	keys := keyPool[:nKeys]
	stores := 1
	if r.Chance(15) {
		stores = 3
	}
	w := hub.NewWorld(rec, hub.Options{Full: lean, Seed: r.U64(), Splits: pick(r, layoutsOf(1+r.Intn(3))), Stores: stores})
	defer w.Close()
	for _, k := range keys {
		w.TrackKey(k)
	}
	if !seed(w, subset(r, keys, 50)) {
		return
	}
	if r.Chance(30) {
		must(failpoint.Enable("tikvclient/twoPCRequestBatchSizeLimit", "return"))
		defer failpoint.Disable("tikvclient/twoPCRequestBatchSizeLimit")
	}
	a := w.NewClient("a")
	step := func(f func()) bool { return runAll(w, scenarioTimeout, f) }
	if !step(func() { a.Begin(true, pick(r, modes)) }) {
		return
	}
	var beats *atomic.Int32
	if long {
		beats = beatCounter(w, a)
	}
	held := map[string]bool{}
	np, locked := 0, 0
	nSteps := 2 + r.Intn(5)
	for i := 0; i < nSteps; i++ {
		var free [][]byte
		for _, k := range keys {
			if !held[string(k)] {
				free = append(free, k)
			}
		}
		if len(free) == 0 {
			break
		}
		ks := [][]byte{pick(r, free)}
		if r.Chance(20) {
			ks = sortedKeys(append(ks, pick(r, free)))
		}
		// the early steps fail more often: the call that picks the primary is the interesting one
		failP := 35
		if locked == 0 {
			failP = 65
		}
		conflict := r.Chance(failP)
		if conflict {
			np++
			if !thirdParty(w, fmt.Sprintf("p%d", np), [][]byte{pick(r, ks)}, np) {
				return
			}
		}
		res := ""
		kind := r.Intn(10)
		if !step(func() {
			switch {
			case kind < 2 && len(ks) == 1:
				// INSERT: fails with key exists when the key has a value
				res = insertLockedAt(a, ks[0], val(0, 0, i), pick(r, []string{"-", "n"}), "fresh")
			default:
				sel := "fresh"
				if conflict && r.Chance(80) {
					sel = "last" // the statement keeps the for-update ts it has: older than the third party's commit
				}
				res = a.LockAt(ks, pick(r, []string{"-", "-", "n", "r", "c"}), sel)
				if res == "ok" {
					w.AuditHeld(a, ks)
					for j, k := range ks {
						switch r.Intn(5) {
						case 0:
							a.Delete(k)
						case 1:
						case 2:
							// locked first, then written with the deferred-constraint-check flag: both facts hold at commit
							a.SetLazy(k, val(0, 0, 10*i+j))
						default:
							a.Set(k, val(0, 0, 10*i+j))
						}
					}
				}
			}
		}) {
			return
		}
		rec.Count("c04:pess-program:lock:" + res)
		if res == "ok" {
			locked += len(ks)
			for _, k := range ks {
				held[string(k)] = true
			}
		} else if locked == 0 {
			rec.Count("c04:pess-program:first-lock-failed")
		}
		if r.Chance(15) {
			// a lazily checked write of a key the transaction does NOT lock (checked by the prewrite itself); locking it
			// later clears the flag
			var free2 [][]byte
			for _, k := range keys {
				if !held[string(k)] {
					free2 = append(free2, k)
				}
			}
			if len(free2) > 0 {
				k := pick(r, free2)
				if !step(func() { a.SetLazy(k, val(0, 5, i)) }) {
					return
				}
				// (no lock call on it afterwards: a staged insert whose lock fails is cleaned up together with the flag)
				held[string(k)] = true
			}
		}
	}
	if long && locked > 0 {
		// keep the transaction open: a heart-beat is due every 20 ms of wall clock
		ok := true
		for i := 0; i < 2 && ok; i++ {
			base := beats.Load()
			w.AdvanceClock(int64(5 + r.Intn(30)))
			ok = waitBeat(beats, base, 2*time.Second)
		}
		w.AuditHeartbeat(a, 1)
	}
	commit := r.Chance(80)
	if !step(func() {
		if commit {
			a.Commit()
		} else {
			a.Rollback()
		}
	}) {
		return
	}
	if long {
		time.Sleep(25 * time.Millisecond)
	}
	w.Quiesce(scenarioTimeout)
}

// c04LongTxn: a pessimistic transaction that stays open over several heart-beat periods while the virtual clock moves: the
// ttl manager's heart-beats (wall-clock ticker, ManagedLockTTL 20 ms) extend the PRIMARY's ttl to "uptime + 20 ms", the other
// keys keep the pessimistic locks they got at the beginning (ttl ≈ 20 ms), later their prewrite locks (3 s + elapsed).  Then
// it commits (async commit / 1PC / 2PC; one prewrite request per key or per region) and, inside its prewrite phase, a foreign
// client meets one of its locks: a reader (prewrite locks), a pessimistic locker or an optimistic writer (also the
// pessimistic locks not prewritten yet) — on a secondary, whose own ttl has long elapsed on the foreigner's clock, or on the
// primary.  The clock has NOT passed the primary's extended ttl: a resolver may neither roll the transaction back nor start
// async-commit recovery (rule 5: only after the ttl its status check was shown has elapsed).  Small clock steps keep the
// commit inside the async-commit safe window; large ones make the store fall back to 2PC.
func c04LongTxn(s shape, r *vx.Rand) {
	old := atomic.SwapUint64(&transaction.ManagedLockTTL, 20)
	defer atomic.StoreUint64(&transaction.ManagedLockTTL, old)
	s.pess = true
	if r.Chance(65) {
		s.mode = "async"
	}
	if r.Chance(75) {
		must(failpoint.Enable("tikvclient/twoPCRequestBatchSizeLimit", "return"))
		defer failpoint.Disable("tikvclient/twoPCRequestBatchSizeLimit")
	}
	sr := startShape(s, r)
	w := sr.w
	defer w.Close()
	if !sr.ok {
		return
	}
	rec.Count("c04:long-txn")
	a := sr.a
	beats := beatCounter(w, a)
	alive := sr.prepared
	stepMs := 100 + r.Intn(400)
	if r.Chance(20) {
		stepMs = 1800 + r.Intn(1500)
		rec.Count("c04:long-txn:beyond-safe-window")
	}
	for i := 2 + r.Intn(2); i > 0 && alive; i-- {
		base := beats.Load()
		w.AdvanceClock(int64(stepMs + r.Intn(100)))
		// the heart-beat after the move carries the new uptime
		alive = waitBeat(beats, base, 2*time.Second)
	}
	var sd *side
	if sr.prepared {
		w.AuditHeartbeat(a, 1)
		// the foreign client: started when the transaction is inside its prewrite phase
		b := w.NewClient("b")
		done := make(chan struct{})
		key := s.keys[s.primary]
		if len(s.keys) > 1 && r.Chance(85) {
			for key = pick(r, s.keys); string(key) == string(s.keys[s.primary]); key = pick(r, s.keys) {
			}
		}
		how := pick(r, []string{"read", "lock-nowait", "lock-wait", "write", "write"})
		rec.Count("c04:long-txn:foreign:" + how)
		hf := w.Gate().AddFault(&hub.Fault{Kind: hub.Hold, Client: a, N: r.Intn(len(s.keys)), Label: "foreign",
			Match: func(kind, cmd string) bool { return kind == "prewrite" },
			Start: func() {
				defer close(done)
				defer func() { recover() }()
				switch how {
				case "read":
					b.Begin(false, "2pc")
					b.Get(key)
					b.Rollback()
				case "lock-nowait", "lock-wait":
					b.Begin(true, "2pc")
					b.Lock([][]byte{key}, map[string]string{"lock-nowait": "n", "lock-wait": "-"}[how])
					b.Rollback()
				default:
					b.Begin(false, "2pc")
					b.Set(key, []byte{0x66})
					b.Commit()
				}
			},
			Until: func() bool {
				select {
				case <-done:
					return true
				default:
				}
				return b.RPCs() >= 4
			},
			MaxHold: 200 * time.Millisecond,
		})
		sd = &side{f: hf, done: done}
	}
	if _, ret := sr.final(); !ret {
		return
	}
	if !sd.wait(w) {
		return
	}
	time.Sleep(15 * time.Millisecond)
	w.Quiesce(scenarioTimeout)
}

// c04BeatFaults: a pessimistic transaction stays open while every other heart-beat FAILS in a non-fatal way (the request is
// answered without a body: sendTxnHeartBeat returns an error, the ttl manager goes on) — isolated failures, never two in a
// row — until well over ten of them have happened; then it stays open for a few more periods: heart-beats must continue
// (`audit heartbeat` asks for two more executed ones after the 11th failure), a foreign locker must find the primary alive,
// and the transaction commits.
func c04BeatFaults(s shape, r *vx.Rand) {
	old := atomic.SwapUint64(&transaction.ManagedLockTTL, 20)
	defer atomic.StoreUint64(&transaction.ManagedLockTTL, old)
	s.pess = true
	sr := startShape(s, r)
	w := sr.w
	defer w.Close()
	if !sr.ok || !sr.prepared {
		return
	}
	a := sr.a
	g := w.Gate()
	var seen, fails, succ, succAt11 atomic.Int32
	failEvery := 2 + r.Intn(2) // every 2nd or 3rd heart-beat fails
	g.AddFault(&hub.Fault{Kind: hub.NoBody, Client: a, Label: "beat-fails", Repeat: true,
		Match: func(kind, cmd string) bool {
			if kind != "heartbeat" {
				return false
			}
			if int(seen.Add(1))%failEvery != 0 {
				return false
			}
			if fails.Add(1) == 11 {
				succAt11.Store(succ.Load())
			}
			return true
		}})
	g.AddFault(&hub.Fault{Kind: hub.Topo, Client: a, Label: "beat", Repeat: true,
		Match: func(kind, cmd string) bool { return kind == "heartbeat" },
		Do:    func(*hub.World) { succ.Add(1) }})
	rec.Count("c04:beat-faults")
	ok := waitUntil(5*time.Second, func() bool {
		if fails.Load() >= 11 {
			return true
		}
		if seen.Load()%4 == 0 {
			w.AdvanceClock(1)
		}
		return false
	})
	if ok {
		// a few more periods (more failures among them)
		more := int32(2 + r.Intn(3))
		waitUntil(time.Second, func() bool { return succ.Load() >= succAt11.Load()+more })
		w.AuditHeartbeat(a, int(succAt11.Load()+more))
		// a foreign locker right after a heart-beat: the primary is alive
		base := succ.Load()
		w.AdvanceClock(int64(5 + r.Intn(10)))
		if waitUntil(time.Second, func() bool { return succ.Load() > base }) {
			b := w.NewClient("b")
			pk := s.keys[s.primary]
			if !runAll(w, scenarioTimeout, func() {
				b.Begin(true, "2pc")
				b.Lock([][]byte{pk}, "n")
				b.Rollback()
			}) {
				return
			}
			w.AuditHeld(a, [][]byte{pk})
		}
	} else {
		rec.Count("c04:beat-faults:too-few-heartbeats")
	}
	if _, ret := sr.final(); !ret {
		return
	}
	time.Sleep(15 * time.Millisecond)
	w.Quiesce(scenarioTimeout)
}

// lockIfExistsFirst: a pessimistic transaction whose FIRST lock call is LockKeys(lock only if exists + return values) on one
// key WITHOUT a value (the tentative primary is un-set again, nothing is locked) — or an ordinary first call (control) —,
// followed by ordinary lock calls that pick the real primary; the transaction then stays open over several heart-beat
// periods while the clock moves past the ttl its locks were written with (ManagedLockTTL 20 ms, wall-clock heart-beats).
// Heart-beats must keep the primary alive (`audit heartbeat`, C04 rule 6); an intruder that tries to lock a held key right
// after a heart-beat must fail, and the store must still hold the transaction's locks (`audit held`, C01); then it commits.
func lockIfExistsFirst(r *vx.Rand) {
	old := atomic.SwapUint64(&transaction.ManagedLockTTL, 20)
	defer atomic.StoreUint64(&transaction.ManagedLockTTL, old)
	nKeys := 4 + r.Intn(2)
	keys := keyPool[:nKeys]
	w := hub.NewWorld(rec, hub.Options{Full: lean, Seed: r.U64(), Splits: pick(r, layoutsOf(1+r.Intn(3)))})
	defer w.Close()
	for _, k := range keys {
		w.TrackKey(k)
	}
	// one key stays without value
	missing := pick(r, keys)
	var seeded [][]byte
	for _, k := range keys {
		if string(k) != string(missing) && r.Chance(60) {
			seeded = append(seeded, k)
		}
	}
	if !seed(w, seeded) {
		return
	}
	a := w.NewClient("a")
	step := func(f func()) bool { return runAll(w, scenarioTimeout, f) }
	beats := beatCounter(w, a)
	var held [][]byte
	first := pick(r, []string{"if-exists-missing", "if-exists-missing", "if-exists-missing", "if-exists-present", "ordinary"})
	rec.Count("c04:lock-if-exists-first:" + first)
	if !step(func() {
		a.Begin(true, pick(r, modes))
		switch first {
		case "if-exists-missing":
			a.LockAt([][]byte{missing}, pick(r, []string{"re", "ren"}), "fresh")
		case "if-exists-present":
			if len(seeded) > 0 {
				k := pick(r, seeded)
				if a.LockAt([][]byte{k}, "re", "fresh") == "ok" {
					held = append(held, k)
				}
			}
		}
		// the ordinary statements
		for i := 1 + r.Intn(3); i > 0; i-- {
			k := pick(r, keys)
			dup := false
			for _, h := range held {
				dup = dup || string(h) == string(k)
			}
			if dup {
				continue
			}
			if a.LockAt([][]byte{k}, pick(r, []string{"-", "r", "c"}), "fresh") == "ok" {
				held = append(held, k)
				if r.Chance(70) {
					a.Set(k, val(0, 7, i))
				}
			}
		}
	}) {
		return
	}
	if len(held) == 0 {
		step(func() { a.Rollback() })
		w.Quiesce(scenarioTimeout)
		return
	}
	w.AuditHeld(a, held)
	// open over several periods, the clock moving past the original ttl
	alive := true
	for i := 2 + r.Intn(2); i > 0 && alive; i-- {
		base := beats.Load()
		w.AdvanceClock(int64(15 + r.Intn(30)))
		alive = waitBeat(beats, base, 400*time.Millisecond)
	}
	w.AuditHeartbeat(a, 1)
	// the intruder
	b := w.NewClient("b")
	k := pick(r, held)
	if !step(func() {
		b.Begin(true, "2pc")
		if b.Lock([][]byte{k}, "n") == "ok" {
			b.Set(k, val(1, 7, 0))
			b.Commit()
		} else {
			b.Rollback()
		}
	}) {
		return
	}
	w.AuditHeld(a, held)
	if !step(func() {
		if r.Chance(80) {
			a.Commit()
		} else {
			a.Rollback()
		}
	}) {
		return
	}
	time.Sleep(12 * time.Millisecond)
	w.Quiesce(scenarioTimeout)
}

func runC04() {
	nShapes := 1500
	if run.Thorough() {
		nShapes = 26000
	}
	nShapes = scaled(nShapes)
	kinds := []string{"split", "EpochNotMatch", "NotLeader", "ServerIsBusy", "StaleCommand"}
	// the resolver's side of the rules (rule 4: commit only when no secondary reported `rolled back / missing`): the directed
	// async-commit recovery family (profile full), both arrival orders of the per-region CheckSecondaryLocks answers
	asyncRecoveryFamily(rnd.Fork(), 4)
	for n := 0; n < nShapes; n++ {
		r := rnd.Fork()
		s := genShape(r)
		if len(s.keys) < 2 && r.Chance(70) {
			s = genShape(r)
		}
		rec.Count("c04:shapes")
		c04Scenario(s, false, nil, r.Fork())
		c04Scenario(s, true, nil, r.Fork())
		// one or two region errors that force re-splitting
		nf := 1 + r.Intn(2)
		var fs []c03Fault
		for i := 0; i < nf; i++ {
			fs = append(fs, c03Fault{pick(r, kinds), r.Intn(6)})
		}
		c04Scenario(s, r.Bool(), fs, r.Fork())
		if n%50 == 7 {
			c04Heartbeat(genShape(r), r.Fork())
		}
		// (the families that wait for wall-clock heart-beats are thinned out in the thorough tier)
		thin := 1
		if run.Thorough() {
			thin = 4
		}
		if n%3 == 1 {
			c04PessProgram(n%(30*thin) == 1, r.Fork())
			rec.Count("c04:family:pess-program")
		}
		if n%(150*thin) == 11 {
			c04BeatFaults(genShape(r), r.Fork())
			rec.Count("c04:family:beat-faults")
		}
		if n%(75*thin) == 9 {
			// lost answer of the primary commit + split inside the batch + region errors until give-up (family of c03.go):
			// no rollback may follow a primary commit that may have taken effect (rule 3)
			c03Triple(r.Fork())
			rec.Count("c04:family:triple")
		}
		if n%(20*thin) == 13 {
			lockIfExistsFirst(r.Fork())
			rec.Count("c04:family:lock-if-exists-first")
		}
		if n%(15*thin) == 5 {
			slowOwnerScenario(r.Fork())
			rec.Count("c04:family:slow-owner")
		}
		if n%(10*thin) == 3 {
			ls := genShape(r)
			for len(ls.keys) < 2 {
				ls = genShape(r)
			}
			c04LongTxn(ls, r.Fork())
			rec.Count("c04:family:long-txn")
		}
	}
}
