//go:build verif

package main

import (
	"sync/atomic"
	"time"

	"github.com/pingcap/failpoint"
	"github.com/tikv/client-go/v2/txnkv/transaction"
	"github.com/tikv/client-go/v2/verifx/vx"
)

// C04: the shapes without losses: plain, with batch-size limit 1, and with region errors / splits that force the
// committer to re-group its batches.  Nothing special is emitted: the judge's monitor reads the rpc stream.
func c04Scenario(s shape, batch1 bool, faults []c03Fault, r *vx.Rand) {
	if batch1 {
		must(failpoint.Enable("tikvclient/twoPCRequestBatchSizeLimit", "return"))
		defer failpoint.Disable("tikvclient/twoPCRequestBatchSizeLimit")
		rec.Count("c04:batch1")
	}
	sr := startShape(s, r)
	w := sr.w
	defer w.Close()
	if !sr.ok {
		return
	}
	for _, f := range faults {
		addC03Fault(sr, f, "b", r)
		rec.Count("c04:" + f.kind)
	}
	var rdDone chan struct{}
	if r.Chance(30) {
		// a concurrent reader: its lock resolution requests are part of the monitored stream
		b := w.NewClient("rd")
		rdDone = make(chan struct{})
		go func() {
			defer close(rdDone)
			defer func() { recover() }()
			b.Begin(false, "2pc")
			b.BGet(s.keys)
			b.Rollback()
		}()
	}
	if _, ret := sr.final(); !ret {
		return
	}
	if rdDone != nil && !waitUntil(scenarioTimeout, func() bool {
		select {
		case <-rdDone:
			return true
		default:
			return false
		}
	}) {
		w.Hang("reader")
		return
	}
	w.Quiesce(scenarioTimeout)
}

// c04Heartbeat keeps a pessimistic transaction open over a few heart-beat periods: ManagedLockTTL is shortened to 40 ms,
// so the ttlManager ticks every 20 ms of WALL clock (the one place where a scenario sleeps); the virtual clock moves in
// between, then the transaction ends; a heart-beat after the end would show in the 25 ms that follow.
func c04Heartbeat(s shape, r *vx.Rand) {
	old := atomic.SwapUint64(&transaction.ManagedLockTTL, 40)
	defer atomic.StoreUint64(&transaction.ManagedLockTTL, old)
	s.pess = true
	sr := startShape(s, r)
	w := sr.w
	defer w.Close()
	if !sr.ok {
		return
	}
	rec.Count("c04:heartbeat-scenario")
	for i := 0; i < 3; i++ {
		time.Sleep(25 * time.Millisecond)
		w.AdvanceClock(int64(5 + r.Intn(20)))
	}
	if _, ret := sr.final(); !ret {
		return
	}
	time.Sleep(25 * time.Millisecond)
	w.Quiesce(scenarioTimeout)
}

func runC04() {
	nShapes := 1500
	if run.Thorough() {
		nShapes = 26000
	}
	nShapes = scaled(nShapes)
	kinds := []string{"split", "EpochNotMatch", "NotLeader", "ServerIsBusy", "StaleCommand"}
	for n := 0; n < nShapes; n++ {
		r := rnd.Fork()
		s := genShape(r)
		if len(s.keys) < 2 && r.Chance(70) {
			s = genShape(r)
		}
		rec.Count("c04:shapes")
		c04Scenario(s, false, nil, r.Fork())
		c04Scenario(s, true, nil, r.Fork())
		// one or two region errors that force re-splitting
		nf := 1 + r.Intn(2)
		var fs []c03Fault
		for i := 0; i < nf; i++ {
			fs = append(fs, c03Fault{pick(r, kinds), r.Intn(6)})
		}
		c04Scenario(s, r.Bool(), fs, r.Fork())
		if n%50 == 7 {
			c04Heartbeat(genShape(r), r.Fork())
		}
	}
}
