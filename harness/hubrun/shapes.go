//go:build verif

package main

import (
	"bytes"
	"context"

	"fmt"
	"github.com/tikv/client-go/v2/config"
	"os"
	"strings"
	"time"

	"github.com/tikv/client-go/v2/verifx/hub"
	"github.com/tikv/client-go/v2/verifx/vx"
)

// shape of one small transaction (C02/C03/C04): 1–4 keys over 1–3 regions, primary position, op kinds, opt/pess, mode.
type shape struct {
	layout   [][]byte
	stores   int
	keys     [][]byte // ascending
	kinds    []string // per key: put delete insert lock insdel (insert, then delete: a non-locking existence check in an optimistic txn)
	exist    []bool   // per key: a committed value exists before the transaction
	primary  int      // pessimistic: index of the key locked first (= primary); optimistic: the client picks the smallest key
	pess     bool
	mode     string
	together bool // pessimistic: lock the non-primary keys in one LockKeys call (parallel batches) instead of one by one
	// the transaction's AGE when Commit is called: the virtual clock moves by ageMs between the last statement and Commit —
	// seconds (beyond the async-commit safe window: the store refuses 1PC / async commit for max_commit_ts) or more than a
	// day (MaxTxnTimeUse); wideWindow: the safe window is widened to 48 h so that an old transaction still commits in 1PC /
	// async mode
	ageMs      int64
	wideWindow bool
}

func (s shape) String() string {
	var ks []string
	for i, k := range s.keys {
		e := ""
		if s.exist[i] {
			e = "+"
		}
		ks = append(ks, fmt.Sprintf("%s%s:%s", hub.Hx(k), e, s.kinds[i]))
	}
	age := ""
	if s.ageMs > 0 {
		age = fmt.Sprintf(" age=%dms wide-window=%v", s.ageMs, s.wideWindow)
	}
	return fmt.Sprintf("layout=%s stores=%d keys=%s primary=%d pess=%v mode=%s together=%v%s", hub.HexList(s.layout), s.stores, strings.Join(ks, ","), s.primary, s.pess, s.mode, s.together, age)
}

func genShape(r *vx.Rand) shape {
	s := shape{pess: r.Bool(), mode: pick(r, modes), together: r.Bool(), stores: 1}
	if r.Chance(20) {
		s.stores = 3
	}
	s.layout = pick(r, layoutsOf(1+r.Intn(3)))
	n := 1 + r.Intn(4)
	perm := []int{0, 1, 2, 3, 4}
	for i := len(perm) - 1; i > 0; i-- {
		j := r.Intn(i + 1)
		perm[i], perm[j] = perm[j], perm[i]
	}
	var ks [][]byte
	for _, i := range perm[:n] {
		ks = append(ks, keyPool[i])
	}
	s.keys = sortedKeys(ks)
	for range s.keys {
		s.kinds = append(s.kinds, pick(r, []string{"put", "put", "put", "delete", "insert", "lock", "insdel"}))
		s.exist = append(s.exist, r.Chance(50))
	}
	// an insert over an existing key fails the transaction early: keep that rare so that most shapes reach Commit
	for i := range s.keys {
		if (s.kinds[i] == "insert" || s.kinds[i] == "insdel") && s.exist[i] && r.Chance(75) {
			s.exist[i] = false
		}
	}
	// An OPTIMISTIC ASYNC-COMMIT transaction whose check-only mutation (insert then delete) finds the key existing used to be a
	// defect (repaired in /repo 7622a2e: such transactions no longer use async commit): Commit answered a definite key-exists
	// error while recovery could still commit the remaining keys.  The case is generated like any other; HUBRUN_CHECKONLY_EXISTS=0
	// switches it off.
	if os.Getenv("HUBRUN_CHECKONLY_EXISTS") == "0" && !s.pess && s.mode == "async" {
		for i := range s.keys {
			if s.kinds[i] == "insdel" {
				s.exist[i] = false
			}
		}
	}
	s.primary = r.Intn(n)
	switch x := r.Intn(100); {
	case x < 10:
		s.ageMs = 3200 + int64(r.Intn(7000)) // (not shortly below the 3 s lock ttl: a waiter would retry thousands of times on the frozen clock)
		s.wideWindow = r.Chance(30)
	case x < 16:
		s.ageMs = 25*3600*1000 + int64(r.Intn(3600*1000))
		s.wideWindow = r.Chance(65)
		// A transaction older than MaxTxnTimeUse (24 h) that commits in ASYNC-COMMIT mode has all its prewrites acknowledged
		// with a min_commit_ts — it is committed — before the "txn takes too much time" check: that check used to answer a
		// definite error and roll back while readers committed the transaction (repaired in /repo, see known_findings.json
		// C03-aged-async-commit-definite-error).  HUBRUN_OLD_ASYNC=0 keeps old transactions on 2PC / 1PC.
		if os.Getenv("HUBRUN_OLD_ASYNC") == "0" && (s.mode == "async" || s.mode == "both") {
			s.mode = pick(r, []string{"2pc", "1pc"})
		}
	}
	return s
}

func (s shape) existing() [][]byte {
	var out [][]byte
	for i, k := range s.keys {
		if s.exist[i] {
			out = append(out, k)
		}
	}
	return out
}

// a key strictly inside the transaction's key span (a split there forces a batch to be re-grouped), else any boundary key
func (s shape) splitKey(r *vx.Rand) []byte {
	var cands [][]byte
	for _, k := range keyPool[1:] {
		inLayout := false
		for _, l := range s.layout {
			if bytes.Equal(l, k) {
				inLayout = true
			}
		}
		if !inLayout && bytes.Compare(k, s.keys[0]) > 0 && bytes.Compare(k, s.keys[len(s.keys)-1]) <= 0 {
			cands = append(cands, k)
		}
	}
	if len(cands) == 0 {
		for _, k := range keyPool[1:] {
			inLayout := false
			for _, l := range s.layout {
				if bytes.Equal(l, k) {
					inLayout = true
				}
			}
			if !inLayout {
				cands = append(cands, k)
			}
		}
	}
	if len(cands) == 0 {
		return []byte{0x61, 0x30}
	}
	return pick(r, cands)
}

// prepare runs the transaction up to (not including) its final call.  false = a step failed (the final call is Rollback).
func (s shape) prepare(c *hub.Client) bool {
	if _, res := c.Begin(s.pess, s.mode); res != "ok" {
		return false
	}
	write := func(i int) bool {
		k := s.keys[i]
		switch s.kinds[i] {
		case "put":
			return c.Set(k, []byte{0x22, byte(i)}) == "ok"
		case "delete":
			return c.Delete(k) == "ok"
		case "insert":
			return c.Insert(k, []byte{0x33, byte(i)}) == "ok"
		case "insdel":
			return c.Insert(k, []byte{0x33, byte(i)}) == "ok" && c.Delete(k) == "ok"
		}
		return true
	}
	if !s.pess {
		for i := range s.keys {
			if s.kinds[i] == "lock" {
				if c.Lock([][]byte{s.keys[i]}, "-") != "ok" {
					return false
				}
			} else if !write(i) {
				return false
			}
		}
		return true
	}
	order := []int{s.primary}
	for i := range s.keys {
		if i != s.primary {
			order = append(order, i)
		}
	}
	lockOne := func(i int) bool {
		if s.kinds[i] == "insert" {
			// staged insert + lock (the lock request carries the not-exist assertion)
			return c.InsertLocked(s.keys[i], []byte{0x33, byte(i)}, "-") == "ok"
		}
		if s.kinds[i] == "insdel" {
			return c.InsertLocked(s.keys[i], []byte{0x33, byte(i)}, "-") == "ok" && c.Delete(s.keys[i]) == "ok"
		}
		return c.Lock([][]byte{s.keys[i]}, "-") == "ok"
	}
	if !lockOne(s.primary) {
		return false
	}
	if s.together && len(order) > 2 {
		var rest [][]byte
		for _, i := range order[1:] {
			if s.kinds[i] != "insert" {
				rest = append(rest, s.keys[i])
			}
		}
		if len(rest) > 0 && c.Lock(sortedKeys(rest), "-") != "ok" {
			return false
		}
		for _, i := range order[1:] {
			if s.kinds[i] == "insert" && !lockOne(i) {
				return false
			}
		}
	} else {
		for _, i := range order[1:] {
			if !lockOne(i) {
				return false
			}
		}
	}
	for _, i := range order {
		if s.kinds[i] != "insert" && !write(i) {
			return false
		}
	}
	return true
}

// shapeRun is one scenario over a shape: world, seeded keys, client a prepared up to its final call.
type shapeRun struct {
	w        *hub.World
	s        shape
	a        *hub.Client
	prepared bool
	ok       bool
	ctx      context.Context // the caller's context of the final Commit (a fault may cancel it)
	cancel   context.CancelFunc
}

// the safe window of async commit is a process-wide setting: a shape that widens it puts it back when the next shape starts
var restoreSafeWindow func()

func startShape(s shape, r *vx.Rand) *shapeRun {
	if restoreSafeWindow != nil {
		restoreSafeWindow()
		restoreSafeWindow = nil
	}
	if s.ageMs > 0 && s.wideWindow {
		restoreSafeWindow = config.UpdateGlobal(func(c *config.Config) { c.TiKVClient.AsyncCommit.SafeWindow = 48 * time.Hour })
	}
	w := hub.NewWorld(rec, hub.Options{Full: lean, Seed: r.U64(), Splits: s.layout, Stores: s.stores})
	sr := &shapeRun{w: w, s: s}
	sr.ctx, sr.cancel = context.WithCancel(context.Background())
	if os.Getenv("HUBRUN_BG_CTX") != "" {
		sr.ctx = nil
	}
	w.Note("shape " + s.String())
	for _, k := range s.keys {
		w.TrackKey(k)
	}
	if !seed(w, s.existing()) {
		return sr
	}
	sr.a = w.NewClient("a")
	sr.ok = runAll(w, scenarioTimeout, func() { sr.prepared = s.prepare(sr.a) })
	return sr
}

// final runs Commit (or Rollback if the preparation failed) and waits until it returned or the client died.
func (sr *shapeRun) final() (res string, returned bool) {
	done := make(chan string, 1)
	go func() {
		defer func() {
			if e := recover(); e != nil {
				sr.w.Note(fmt.Sprintf("panic in final call: %v", e))
				rec.Count("client-panic")
				done <- "panic"
			}
		}()
		if sr.s.ageMs > 0 {
			sr.w.AdvanceClock(sr.s.ageMs)
		}
		if sr.prepared {
			if sr.ctx != nil {
				done <- sr.a.CommitCtx(sr.ctx)
			} else {
				done <- sr.a.Commit()
			}
		} else {
			done <- sr.a.Rollback()
		}
	}()
	deadline := time.After(scenarioTimeout)
	for {
		select {
		case res = <-done:
			return res, true
		case <-deadline:
			sr.w.Hang("final")
			return "hang", false
		case <-time.After(time.Millisecond):
			if sr.a.Crashed() {
				return "crashed", false
			}
		}
	}
}

// probe runs the shape without faults and returns the number of RPCs client a issues from its final call on
// (background work included).
func probe(s shape, r *vx.Rand) int {
	sr := startShape(s, r)
	defer sr.w.Close()
	if !sr.ok {
		return 0
	}
	base := sr.a.RPCs()
	if _, ret := sr.final(); !ret {
		return 0
	}
	if !sr.w.Quiesce(scenarioTimeout) {
		return 0
	}
	return sr.a.RPCs() - base
}
