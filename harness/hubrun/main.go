//go:build verif

// hubrun: scenario generators of the transactional hub (C01–C06).  Every scenario runs the real client against mocktikv
// through harness/hub and writes its trace; the Lean judge (cgv-hub) re-executes the trace.
package main

import (
	"flag"
	"fmt"
	"os"
	"runtime"
	"time"

	"github.com/pingcap/failpoint"
	"github.com/pingcap/log"
	"github.com/tikv/client-go/v2/util"
	"github.com/tikv/client-go/v2/verifx/hub"
	"github.com/tikv/client-go/v2/verifx/vx"
	"go.uber.org/zap"
)

var prop = flag.String("prop", "C01", "C01..C06")
var profile = flag.String("profile", "mock", "mock = mocktikv's MVCC store | full = the Lean store (cgv-full) with async commit / 1PC / CheckSecondaryLocks")
var scale = flag.Int("scale", 100, "percent of the tier's scenario count (the checks run both profiles at 60%)")
var exhaustive = flag.String("exhaustive", "on", "C01: on = sampled scenarios + exhaustive enumeration | off | only")
var exhLimit = flag.Int("exhlimit", 20000, "exhaustive enumeration: schedule limit of one program combination (beyond it the combination is reported incomplete)")
var fullExe = flag.String("full", "", "path of the cgv-full executable (profile full)")

// lean is the Lean store server of profile full (nil in profile mock)
var lean *hub.LeanProc

var (
	run *vx.Run
	rec *hub.Recorder
	rnd *vx.Rand
)

func main() {
	run = vx.Start()
	defer run.Finish()
	if run.Replay != "" {
		// the trace IS the replay: echo it, the judge re-judges it
		for _, l := range run.ReplayLines() {
			if len(l) > 0 && l[0] == '#' {
				run.Comment(l[2:])
				continue
			}
			run.Emit(l, "ok")
		}
		return
	}
	if os.Getenv("HUB_LOG") == "" {
		log.ReplaceGlobals(zap.NewNop(), &log.ZapProperties{})
	}
	util.EnableFailpoints()
	// back-off budgets are consumed without sleeping; a store stays "reachable" after a transport error (the liveness probe
	// would otherwise dial the mock store's address over real gRPC and keep the store blacklisted on a wall-clock timer)
	must(failpoint.Enable("tikvclient/fastBackoffBySkipSleep", "return(true)"))
	must(failpoint.Enable("tikvclient/injectLiveness", `return("reachable")`))
	if *profile == "full" {
		var err error
		lean, err = hub.StartLean(*fullExe)
		if err != nil {
			fmt.Fprintln(os.Stderr, "cannot start the Lean store:", err)
			os.Exit(2)
		}
		defer lean.Close()
	}
	rec = hub.NewRecorder(run)
	rnd = vx.NewRand(run.Seed)
	t0 := time.Now()
	switch *prop {
	case "smoke":
		smoke()
	case "C01":
		if *exhaustive != "only" {
			runC01()
		}
		if *exhaustive != "off" {
			runExhaustive(run.Thorough())
		}
	case "X02":
		runExhaustiveOne()
	case "X01":
		runExhaustive(run.Thorough())
	case "C02":
		runC02()
	case "C03":
		runC03()
	case "C04":
		runC04()
	case "C05":
		runC05()
	case "C06":
		runC06()
	default:
		fmt.Fprintln(os.Stderr, "unknown property", *prop)
		os.Exit(2)
	}
	run.Stats["wall_ms"] = int(time.Since(t0).Milliseconds())
	run.Stats["scenarios"] = rec.Cases()
	run.Stats["goroutines_at_end"] = runtime.NumGoroutine()
}

// scaled applies -scale to a scenario count (at least 1).
func scaled(n int) int {
	n = n * *scale / 100
	if n < 1 {
		n = 1
	}
	return n
}

func must(err error) {
	if err != nil {
		panic(err)
	}
}

func smoke() {
	for i := 0; i < 20; i++ {
		w := hub.NewWorld(rec, hub.Options{Full: lean, Seed: rnd.U64(), Splits: [][]byte{[]byte("k3")}})
		a, b := w.NewClient("a"), w.NewClient("b")
		done := make(chan struct{}, 2)
		go func() {
			a.Begin(false, "2pc")
			a.Set([]byte("k1"), []byte("v1"))
			a.Set([]byte("k5"), []byte("v5"))
			a.Get([]byte("k2"))
			a.Commit()
			done <- struct{}{}
		}()
		go func() {
			b.Begin(true, "2pc")
			b.Lock([][]byte{[]byte("k1")}, "r")
			b.Set([]byte("k1"), []byte("w1"))
			b.Iter([]byte("k0"), nil, 0)
			b.Commit()
			done <- struct{}{}
		}()
		<-done
		<-done
		w.Quiesce(5 * time.Second)
		w.Close()
	}
}
