//go:build verif

package main

import (
	"fmt"
	"os"
	"sync/atomic"
	"time"

	"github.com/pingcap/failpoint"
	"github.com/tikv/client-go/v2/txnkv/transaction"

	tikvkv "github.com/tikv/client-go/v2/kv"
	"github.com/tikv/client-go/v2/verifx/hub"
	"github.com/tikv/client-go/v2/verifx/vx"
)

// C06: programs of ≤ 12 calls of client a, with a contender making individual steps fail (write conflict, key exists,
// deadlock, lock-wait time-out), aggressive-locking sequences, region errors and splits in between; no request is lost.
// After the final call and the drain of the background work the audit lists every lock left in the store.
func c06Scenario(r *vx.Rand) {
	nKeys := 3 + r.Intn(2)
	keys := keyPool[:nKeys]
	stores := 1
	if r.Chance(25) {
		stores = 3
	}
	w := hub.NewWorld(rec, hub.Options{Full: lean, Seed: r.U64(), Splits: pick(r, layoutsOf(1+r.Intn(3))), Stores: stores})
	defer w.Close()
	for _, k := range keys {
		w.TrackKey(k)
	}
	if !seed(w, subset(r, keys, 50)) {
		return
	}
	a, b := w.NewClient("a"), w.NewClient("b")
	g := w.Gate()
	for i := r.Intn(3); i > 0; i-- {
		switch r.Intn(3) {
		case 0:
			g.AddFault(&hub.Fault{Kind: hub.Topo, N: r.Intn(25), Label: "split", Do: hub.SplitFault(pick(r, keyPool[1:])).Do})
		case 1:
			g.AddFault(&hub.Fault{Kind: hub.RegionErr, N: r.Intn(25), Class: pick(r, regionErrClasses)})
		default:
			if stores > 1 {
				g.AddFault(&hub.Fault{Kind: hub.Topo, N: r.Intn(25), Label: "leader", Do: hub.LeaderFault(pick(r, keys)).Do})
			}
		}
	}
	pess := r.Chance(75)
	nw := 0 // third-party writers
	step := func(f func()) bool { return runAll(w, scenarioTimeout, f) }
	if !step(func() { a.Begin(pess, pick(r, modes)) }) {
		return
	}
	bHasTxn := false
	inAgg := func() bool { return a.Txn().IsInAggressiveLockingMode() }
	n := 2 + r.Intn(10)
	touched := map[string]bool{} // keys a has written or locked: an insert presumes an untouched key
	for i := 0; i < n; i++ {
		k := pick(r, keys)
		var f func()
		x := r.Intn(100)
		if x < 25 && pess && inAgg() {
			// inside an aggressive-locking stage a statement only locks: its writes are statement-scoped in TiDB (a retried
			// or cancelled attempt takes them back), so the program writes after aggdone
			x = 30
		}
		switch {
		case x < 12:
			// a pessimistic transaction locks what it writes and gives the write up if the lock fails
			fl := pick(r, []string{"-", "n"})
			f = func() {
				if !pess || a.Lock([][]byte{k}, fl) == "ok" {
					a.Set(k, val(0, 0, i))
				}
			}
			touched[string(k)] = true
		case x < 18:
			fl := pick(r, []string{"-", "n"})
			f = func() {
				if !pess || a.Lock([][]byte{k}, fl) == "ok" {
					a.Delete(k)
				}
			}
			touched[string(k)] = true
		case x < 25:
			if touched[string(k)] {
				f = func() {
					if !pess || a.Lock([][]byte{k}, "-") == "ok" {
						a.Set(k, val(0, 0, i))
					}
				}
			} else if pess {
				fl := pick(r, []string{"-", "n"})
				f = func() { a.InsertLocked(k, val(0, 0, i), fl) }
			} else {
				f = func() { a.Insert(k, val(0, 0, i)) }
			}
			touched[string(k)] = true
		case x < 55:
			ks := [][]byte{k}
			if r.Chance(30) {
				ks = sortedKeys([][]byte{k, pick(r, keys)})
			}
			fl := "-"
			if pess {
				fl = pick(r, []string{"-", "-", "n", "r", "rn", "c", "re", "cn"})
			}
			f = func() { a.Lock(ks, fl) }
			for _, x := range ks {
				touched[string(x)] = true
			}
		case x < 63:
			if !pess || inAgg() {
				continue
			}
			f = func() { a.AggStart() }
		case x < 69:
			if !inAgg() {
				continue
			}
			f = func() { a.AggRetry() }
		case x < 73:
			if !inAgg() {
				continue
			}
			f = func() { a.AggCancel() }
		case x < 78:
			if !inAgg() {
				continue
			}
			f = func() { a.AggDone() }
		case x < 88:
			// the contender takes (or tries to take) a pessimistic lock: later lock calls of a on that key fail or time out,
			// and a failed attempt registers a wait-for edge for the deadlock detector
			f = func() {
				if !bHasTxn {
					b.Begin(true, "2pc")
					bHasTxn = true
				}
				b.Lock([][]byte{k}, "n")
			}
		case x < 93:
			if !bHasTxn {
				continue
			}
			f = func() { b.Rollback(); bHasTxn = false }
		default:
			// a third party commits a newer version: write conflict for a's later lock / commit, key exists for its inserts
			nw++
			c := w.NewClient(string(rune('c' + nw - 1)))
			f = func() {
				c.Begin(false, "2pc")
				c.Set(k, val(3, nw, i))
				c.Commit()
			}
		}
		if !step(f) {
			return
		}
	}
	if !step(func() {
		if inAgg() {
			if r.Bool() {
				a.AggDone()
			} else {
				a.AggCancel()
			}
		}
		if r.Chance(70) {
			a.Commit()
		} else {
			a.Rollback()
		}
		if bHasTxn {
			b.Rollback()
		}
	}) {
		return
	}
	w.Quiesce(scenarioTimeout)
}

// thirdParty commits a newer version of the keys through a fresh client (write conflict for a lock call with an older
// for-update ts, locked-with-conflict in force-lock mode, key exists for an insert).
func thirdParty(w *hub.World, name string, keys [][]byte, tag int) bool {
	c := w.NewClient(name)
	return runAll(w, scenarioTimeout, func() {
		c.Begin(false, "2pc")
		for i, k := range keys {
			c.Set(k, val(3, tag, i))
		}
		c.Commit()
	})
}

// c06AggRetry: aggressive (fair) locking with retried attempts.  Attempt 1 locks one or two keys, a third party may have
// committed a newer version of a key after the for-update ts in use (single-key calls run in force-lock mode and answer
// locked-with-conflict); RetryAggressiveLocking; the retried attempt locks the same keys, other keys or both with a
// for-update ts drawn from {the old one, the conflict ts, a fresh one} — an old one makes LockKeys fail on its sanity check;
// a second retry may follow; the stage ends with Done or Cancel, or (nothing pending in the current stage) directly with
// the end of the transaction; the transaction commits or rolls back.  Whatever the path, no lock may stay.
func c06AggRetry(r *vx.Rand) {
	nKeys := 3 + r.Intn(2)
	keys := keyPool[:nKeys]
	stores := 1
	if r.Chance(15) {
		stores = 3
	}
	w := hub.NewWorld(rec, hub.Options{Full: lean, Seed: r.U64(), Splits: pick(r, layoutsOf(1+r.Intn(3))), Stores: stores})
	defer w.Close()
	for _, k := range keys {
		w.TrackKey(k)
	}
	if !seed(w, subset(r, keys, 60)) {
		return
	}
	a := w.NewClient("a")
	step := func(f func()) bool { return runAll(w, scenarioTimeout, f) }
	if !step(func() { a.Begin(true, pick(r, modes)) }) {
		return
	}
	np := 0
	held := map[string]bool{} // keys a may hold a lock on: a third party writing them would wait for a
	inAgg := func() bool { return a.Txn().IsInAggressiveLockingMode() }
	if r.Chance(30) {
		// a key locked before the stage starts (the primary is then outside the stage)
		k := pick(r, keys)
		if !step(func() { a.LockAt([][]byte{k}, "-", "fresh") }) {
			return
		}
		held[string(k)] = true
	}
	if !step(func() { a.AggStart() }) {
		return
	}
	attempts := 2 + r.Intn(2)
	lastFlags := ""
	sanity := false
	var prev [][]byte
	for at := 0; at < attempts; at++ {
		if at > 0 {
			// (a LockKeys call with more than one key leaves fair locking by itself: the statement then starts a new stage)
			if !step(func() {
				if inAgg() {
					a.AggRetry()
					rec.Count("c06:agg:retry")
				} else {
					a.AggStart()
					rec.Count("c06:agg:restart")
				}
			}) {
				return
			}
		}
		// the keys of this attempt: overlapping with the previous attempt, disjoint from it, or both
		var ks [][]byte
		switch {
		case at == 0 || len(prev) == 0:
			ks = [][]byte{pick(r, keys)}
		case r.Chance(50):
			ks = [][]byte{pick(r, prev)}
		case r.Chance(50):
			ks = [][]byte{pick(r, keys)}
		default:
			ks = [][]byte{pick(r, prev), pick(r, keys)}
		}
		if r.Chance(25) {
			ks = append(ks, pick(r, keys))
		}
		var free [][]byte
		for _, k := range ks {
			if !held[string(k)] {
				free = append(free, k)
			}
		}
		if len(free) > 0 && r.Chance(75) {
			// a newer version of one of them, committed after every timestamp the transaction holds
			np++
			if !thirdParty(w, fmt.Sprintf("p%d", np), [][]byte{pick(r, free)}, np) {
				return
			}
		}
		for _, k := range ks {
			held[string(k)] = true
		}
		sel := pick(r, []string{"start", "fresh"})
		if at > 0 {
			sel = pick(r, []string{"last", "conflict", "fresh", "fresh"})
		}
		rec.Count("c06:agg:fu:" + sel)
		calls := [][][]byte{ks}
		if len(ks) > 1 && r.Bool() {
			// one call per key: every call runs in force-lock mode
			calls = nil
			for _, k := range ks {
				calls = append(calls, [][]byte{k})
			}
		}
		failed := false
		for _, c := range calls {
			c := sortedKeys(c)
			fl := pick(r, []string{"-", "-", "r", "n", "rn", "c"})
			if at > 0 && r.Bool() {
				// the retry asks for something else than the attempt before it (more often: for MORE)
				for fl == lastFlags {
					fl = pick(r, []string{"-", "r", "r", "rn", "c"})
				}
			}
			lastFlags = fl
			res := ""
			if !step(func() { res = a.LockAt(c, fl, sel) }) {
				return
			}
			if res != "ok" {
				failed = true
				if res == "other" {
					// LockKeys' own sanity error ("should be unreachable": a retry with a for-update ts below the conflict ts).
					// NOTE (reported): the call returns before un-setting the primary it has just selected; if the caller goes on
					// with the transaction, Done releases that key as unnecessary, later statements lock under a primary that is
					// not locked, and Commit answers success with nothing committed.  The scenarios END the transaction after
					// this error (stage end + commit of what there is / rollback), they do not lock or write any more.
					sanity = true
				}
				rec.Count("c06:agg:lock-failed:" + res)
				break
			}
		}
		prev = ks
		if sanity || (failed && r.Chance(50)) {
			break
		}
	}
	end := r.Intn(4)
	commit := r.Chance(55)
	if !step(func() {
		if inAgg() {
			switch {
			case end <= 1 && a.AggKeys() == 0:
				// nothing pending in the current stage: the end of the transaction leaves the stage itself
				rec.Count("c06:agg:end:direct")
			case end%2 == 0:
				a.AggDone()
				rec.Count("c06:agg:end:done")
			default:
				a.AggCancel()
				rec.Count("c06:agg:end:cancel")
			}
		}
		if commit {
			for i, k := range prev {
				// (still inside the stage = the direct end: nothing more is locked, Commit leaves the stage)
				if !sanity && !inAgg() && r.Chance(60) && a.Lock([][]byte{k}, "-") == "ok" {
					a.Set(k, val(0, 1, i))
				}
			}
			a.Commit()
		} else {
			a.Rollback()
		}
	}) {
		return
	}
	w.Quiesce(scenarioTimeout)
}

// aggExpireScenario: fair locking where the locks of the previous attempt may have EXPIRED before the retry.  The ttl manager
// is stalled (failpoint doNotKeepAlive) and ManagedLockTTL is a few tens of milliseconds; attempt 1 locks k (and returns its
// value); then more than a ttl passes on the wall clock and on the virtual clock — or not (control) —, a foreign writer
// resolves the expired lock and commits a newer value of k — or not —; RetryAggressiveLocking; attempt 2 locks k again, asking
// for the same or less information (so that the client may answer from what attempt 1 cached).  Oracles: the locking read
// returns the newest committed value at its for-update ts; the store holds the transaction's lock on every key the call
// reported as locked (`audit held`); no lock stays after the end.  (C01 / C06; the judge is the same for every hub check.)
func aggExpireScenario(r *vx.Rand) {
	ttl := uint64(20 + r.Intn(15))
	old := atomic.SwapUint64(&transaction.ManagedLockTTL, ttl)
	defer atomic.StoreUint64(&transaction.ManagedLockTTL, old)
	must(failpoint.Enable("tikvclient/doNotKeepAlive", "return"))
	defer failpoint.Disable("tikvclient/doNotKeepAlive")
	keys := keyPool[:3+r.Intn(2)]
	w := hub.NewWorld(rec, hub.Options{Full: lean, Seed: r.U64(), Splits: pick(r, layoutsOf(1+r.Intn(3)))})
	defer w.Close()
	for _, k := range keys {
		w.TrackKey(k)
	}
	if !seed(w, subset(r, keys, 75)) {
		return
	}
	a := w.NewClient("a")
	step := func(f func()) bool { return runAll(w, scenarioTimeout, f) }
	if !step(func() { a.Begin(true, pick(r, modes)) }) {
		return
	}
	k := pick(r, keys)
	if r.Chance(25) {
		// the primary is another key, locked before the stage
		var p []byte
		for p = pick(r, keys); string(p) == string(k); p = pick(r, keys) {
		}
		if !step(func() { a.LockAt([][]byte{p}, "-", "fresh") }) {
			return
		}
	}
	fl1 := pick(r, []string{"r", "r", "rn", "c", "-"})
	res := ""
	if !step(func() {
		a.AggStart()
		res = a.LockAt([][]byte{k}, fl1, "fresh")
		if res == "ok" {
			w.AuditHeld(a, [][]byte{k})
		}
	}) {
		return
	}
	expire := r.Chance(70)
	if expire {
		time.Sleep(time.Duration(ttl+5+uint64(r.Intn(10))) * time.Millisecond)
		w.AdvanceClock(int64(3*ttl) + int64(r.Intn(200)))
		rec.Count("c06:agg-expire:ttl-passed")
		if r.Chance(80) {
			// the foreign writer meets the expired lock, resolves it and commits a newer value
			b := w.NewClient("b")
			pessB := r.Bool()
			if !step(func() {
				b.Begin(pessB, "2pc")
				if !pessB || b.Lock([][]byte{k}, "-") == "ok" {
					b.Set(k, val(1, 0, 0))
					b.Commit()
				} else {
					b.Rollback()
				}
			}) {
				return
			}
			rec.Count("c06:agg-expire:foreign-writer")
		}
	}
	// the retry asks for the same or less
	fl2 := fl1
	if r.Chance(30) {
		fl2 = map[string]string{"r": "-", "rn": "n", "c": "-", "-": "-"}[fl1]
	}
	if r.Chance(15) {
		fl2 = pick(r, []string{"r", "c"})
	}
	commit := r.Chance(70)
	if !step(func() {
		a.AggRetry()
		res = a.LockAt([][]byte{k}, fl2, "fresh")
		if res == "ok" {
			w.AuditHeld(a, [][]byte{k})
		}
		if a.Txn().IsInAggressiveLockingMode() {
			if res == "ok" || r.Bool() {
				a.AggDone()
			} else {
				a.AggCancel()
			}
		}
		if res == "ok" {
			w.AuditHeld(a, [][]byte{k})
		}
		if commit {
			if res == "ok" {
				a.Set(k, val(0, 3, 0))
			}
			a.Commit()
		} else {
			a.Rollback()
		}
	}) {
		return
	}
	w.Quiesce(scenarioTimeout)
}

// relockScenario: a pessimistic transaction that already holds locks calls LockKeys again on keys it HOLDS together with
// new keys, and the call fails — write conflict on a new key (a third party committed it after the for-update ts in use), a
// new key held by an intruder (no-wait: lock failed; waiting: lock-wait time-out) — or succeeds; the transaction carries on
// (statement retry) and ends with commit or rollback.  After EVERY lock call, failed or not, and after the clean-up of a
// failed one has run, every key the client still holds must still be locked in the store (`audit held`); an intruder then
// tries to lock a held key without waiting.  (C01: nothing else locks or commits a key while its locker is open; C06.)
func relockScenario(r *vx.Rand) {
	nKeys := 4 + r.Intn(2)
	keys := keyPool[:nKeys]
	stores := 1
	if r.Chance(15) {
		stores = 3
	}
	w := hub.NewWorld(rec, hub.Options{Full: lean, Seed: r.U64(), Splits: pick(r, layoutsOf(1+r.Intn(3))), Stores: stores})
	defer w.Close()
	for _, k := range keys {
		w.TrackKey(k)
	}
	if !seed(w, subset(r, keys, 60)) {
		return
	}
	a := w.NewClient("a")
	step := func(f func()) bool { return runAll(w, scenarioTimeout, f) }
	if !step(func() { a.Begin(true, pick(r, modes)) }) {
		return
	}
	var held [][]byte
	isHeld := map[string]bool{}
	np, nb := 0, 0
	for st := 2 + r.Intn(4); st > 0; st-- {
		var free [][]byte
		for _, k := range keys {
			if !isHeld[string(k)] {
				free = append(free, k)
			}
		}
		var call, fresh [][]byte
		if len(held) > 0 && r.Chance(80) {
			call = append(call, subsetNonEmpty(r, held, 50)...)
		}
		for i := 1 + r.Intn(2); i > 0 && len(free) > 0; i-- {
			k := pick(r, free)
			fresh = append(fresh, k)
		}
		fresh = sortedKeys(fresh)
		if len(fresh) == 0 && len(call) == 0 {
			break
		}
		// the caller's order matters (the first key of the first call becomes the primary): held keys first or last
		if r.Bool() {
			call = append(call, fresh...)
		} else {
			call = append(append([][]byte{}, fresh...), call...)
		}
		mode := "ok"
		if len(fresh) > 0 {
			mode = pick(r, []string{"ok", "conflict", "conflict", "blocked-nowait", "blocked-wait"})
		}
		sel, fl := "fresh", pick(r, []string{"-", "-", "r", "c"})
		var blocker *hub.Client
		switch mode {
		case "conflict":
			np++
			if !thirdParty(w, fmt.Sprintf("p%d", np), [][]byte{pick(r, fresh)}, np) {
				return
			}
			sel = "last"
		case "blocked-nowait", "blocked-wait":
			nb++
			blocker = w.NewClient(fmt.Sprintf("b%d", nb))
			k := pick(r, fresh)
			if !step(func() {
				blocker.Begin(true, "2pc")
				blocker.Lock([][]byte{k}, "n")
			}) {
				return
			}
			if mode == "blocked-nowait" {
				fl = pick(r, []string{"n", "rn"})
			}
		}
		res := ""
		if !step(func() { res = a.LockAt(call, fl, sel) }) {
			return
		}
		rec.Count("c06:relock:" + mode + ":" + res)
		// the clean-up of a failed call runs in the background
		if !w.WaitDrained(scenarioTimeout) {
			w.Hang("drain")
			return
		}
		if res == "ok" {
			for _, k := range fresh {
				if !isHeld[string(k)] {
					isHeld[string(k)] = true
					held = append(held, k)
				}
			}
		}
		w.AuditHeld(a, held)
		if blocker != nil && !step(func() { blocker.Rollback() }) {
			return
		}
		if len(held) > 0 && r.Chance(40) {
			// the intruder
			nb++
			in := w.NewClient(fmt.Sprintf("i%d", nb))
			k := pick(r, held)
			if !step(func() {
				in.Begin(true, "2pc")
				if in.Lock([][]byte{k}, "n") == "ok" {
					in.Set(k, val(2, nb, 0))
					in.Commit()
				} else {
					in.Rollback()
				}
			}) {
				return
			}
		}
	}
	commit := r.Chance(70)
	if !step(func() {
		for i, k := range held {
			if r.Chance(70) {
				a.Set(k, val(0, 4, i))
			}
		}
		if commit {
			a.Commit()
		} else {
			a.Rollback()
		}
	}) {
		return
	}
	w.Quiesce(scenarioTimeout)
}

// failingSchema is a SchemaLeaseChecker that reports a schema change while `fail` is set.
type failingSchema struct{ fail *atomic.Bool }

func (f failingSchema) CheckBySchemaVer(txnTS uint64, startSchemaVer transaction.SchemaVer) (*transaction.RelatedSchemaChange, error) {
	if f.fail.Load() {
		return nil, fmt.Errorf("verif: schema changed")
	}
	return nil, nil
}

// c06EarlyFail: a pessimistic transaction holding locks whose Commit fails with a DEFINITE error before or around its
// prewrite phase: PD stops answering the client's timestamp requests when Commit is called (the async-commit / 1PC paths fetch
// a min commit ts first; 2PC needs the commit ts after the prewrites), or the schema-lease checker reports a change (checked
// before the prewrites in the async / 1PC paths, after them in 2PC).  Every commit mode, locks in one or several regions.
// Whatever the exit, the locks the transaction took must be gone afterwards.
func c06EarlyFail(r *vx.Rand) {
	nKeys := 3 + r.Intn(3)
	keys := keyPool[:nKeys]
	w := hub.NewWorld(rec, hub.Options{Full: lean, Seed: r.U64(), Splits: pick(r, layoutsOf(1+r.Intn(3)))})
	defer w.Close()
	for _, k := range keys {
		w.TrackKey(k)
	}
	if !seed(w, subset(r, keys, 50)) {
		return
	}
	a := w.NewClient("a")
	step := func(f func()) bool { return runAll(w, scenarioTimeout, f) }
	fail := new(atomic.Bool)
	how := pick(r, []string{"tso", "tso", "schema", "schema", "none"})
	mine := subsetNonEmpty(r, keys, 50)
	if !step(func() {
		a.Begin(true, pick(r, modes))
		if how == "schema" || r.Chance(20) {
			a.Txn().SetSchemaLeaseChecker(failingSchema{fail})
		}
		if r.Bool() {
			a.Lock(mine, "-")
		} else {
			for _, k := range mine {
				a.Lock([][]byte{k}, "-")
			}
		}
		for i, k := range mine {
			if r.Chance(75) {
				a.Set(k, val(0, 6, i))
			}
		}
	}) {
		return
	}
	rec.Count("c06:early-fail:" + how)
	res := ""
	if !step(func() {
		switch how {
		case "tso":
			a.SetTSODown(true)
		case "schema":
			fail.Store(true)
		}
		res = a.Commit()
		a.SetTSODown(false)
	}) {
		return
	}
	rec.Count("c06:early-fail:commit:" + res)
	w.Quiesce(scenarioTimeout)
}

// c06CommitSplit: a transaction over three to five keys in one or two regions (every commit mode, optimistic or pessimistic)
// whose region is SPLIT between two of its keys just before its n-th prewrite or its n-th commit request — the primary's, or
// the secondaries' request that runs in the background after Commit returned: the request is refused with EpochNotMatch and the
// batch is re-grouped into several batches.  No request is lost; after the background work has drained no lock of the
// transaction may be left and its records are all-or-nothing.
func c06CommitSplit(r *vx.Rand) {
	s := genShape(r)
	for len(s.keys) < 3 {
		s = genShape(r)
	}
	s.ageMs, s.wideWindow = 0, false
	if r.Chance(60) {
		s.mode = "2pc"
	}
	// few regions: several keys share one
	s.layout = nil
	if r.Chance(40) {
		s.layout = [][]byte{pick(r, s.keys[1:])}
	}
	sr := startShape(s, r)
	w := sr.w
	defer w.Close()
	if !sr.ok {
		return
	}
	a := sr.a
	g := w.Gate()
	what := pick(r, []string{"commit", "commit", "commit", "prewrite"})
	nth := r.Intn(3)
	for i := 1 + r.Intn(2); i > 0; i-- {
		// a boundary between two keys of the transaction (not an existing one)
		var cands [][]byte
		for _, k := range s.keys[1:] {
			in := false
			for _, l := range s.layout {
				in = in || string(l) == string(k)
			}
			if !in {
				cands = append(cands, k)
			}
		}
		if len(cands) == 0 {
			break
		}
		seen := 0
		n := nth + i - 1
		f := hub.SplitFault(pick(r, cands))
		f.Client = a
		f.Match = func(kind, cmd string) bool {
			if kind != what {
				return false
			}
			seen++
			return seen > n
		}
		g.AddFault(f)
	}
	rec.Count("c06:commit-split:" + what)
	if _, ret := sr.final(); !ret {
		return
	}
	w.Quiesce(scenarioTimeout)
}

// bigKey makes the i-th key of a family of long keys sharing a one-byte prefix (they sort by i).
func bigKey(prefix byte, i, size int) []byte {
	k := make([]byte, size)
	k[0], k[1] = prefix, byte(i)
	for j := 2; j < size; j++ {
		k[j] = byte(0x30 + (i+j)%10)
	}
	return k
}

// c06Batches: ONE pessimistic LockKeys call whose keys are split into several PessimisticLock requests inside one region
// (the key bytes add up to more than the commit batch size: ~1 KB keys at the default 16 KB, or short keys with
// kv.TxnCommitBatchSize lowered) or over two regions; a third party has committed a newer version of one or two of the keys
// (write conflict for the batch holding it) or some keys exist and the call inserts (key exists); the primary is in the
// call (its batch goes first) or was locked before.  The call fails after other batches succeeded; the transaction goes on
// with other keys or not, and commits or rolls back.  No lock of it may stay.
func c06Batches(big bool, r *vx.Rand) {
	var keys [][]byte
	n := 6 + r.Intn(8)
	if big {
		n = 18 + r.Intn(20)
		size := 600 + r.Intn(500)
		for n*size <= 17*1024 {
			n++
		}
		for i := 0; i < n; i++ {
			keys = append(keys, bigKey(0x6b, i, size))
		}
		rec.Count("c06:batches:big-keys")
	} else {
		for i := 0; i < n; i++ {
			keys = append(keys, []byte{0x6b, byte(0x30 + i), 0x2e, 0x2e, 0x2e, 0x2e, 0x2e, 0x2e})
		}
		old := tikvkv.TxnCommitBatchSize.Load()
		tikvkv.TxnCommitBatchSize.Store(uint64(16 + r.Intn(48)))
		defer tikvkv.TxnCommitBatchSize.Store(old)
		rec.Count("c06:batches:small-batch-size")
	}
	other := [][]byte{{0x61}, {0x7a}} // before and behind the family
	var splits [][]byte
	regions := 1
	if r.Chance(30) {
		regions = 2
		splits = [][]byte{keys[1+r.Intn(n-1)]}
	}
	rec.Count(fmt.Sprintf("c06:batches:regions:%d", regions))
	w := hub.NewWorld(rec, hub.Options{Full: lean, Seed: r.U64(), Splits: splits})
	defer w.Close()
	for _, k := range other {
		w.TrackKey(k)
	}
	insert := r.Chance(30)
	existing := subset(r, keys, 40)
	if insert {
		existing = subset(r, keys, 8)
	}
	if !seed(w, existing) {
		return
	}
	a := w.NewClient("a")
	step := func(f func()) bool { return runAll(w, scenarioTimeout, f) }
	if !step(func() { a.Begin(true, pick(r, modes)) }) {
		return
	}
	if r.Chance(35) {
		// the primary is locked before the big call: none of its batches is the primary batch
		if !step(func() { a.LockAt([][]byte{other[0]}, "-", "fresh") }) {
			return
		}
		rec.Count("c06:batches:primary-outside")
	}
	// the keys of the call: all of the family or a long run of it
	lo := 0
	if r.Chance(30) {
		lo = r.Intn(n / 3)
	}
	call := keys[lo:]
	sel := "fresh"
	if !insert || r.Bool() {
		// newer versions of one or two keys of the call (anywhere: first batch, a later batch, the last key)
		var cs [][]byte
		for i := 1 + r.Intn(2); i > 0; i-- {
			cs = append(cs, call[r.Intn(len(call))])
		}
		if r.Chance(70) && !thirdParty(w, "p1", sortedKeys(cs), 1) {
			return
		}
		// the for-update ts of the call: the one the transaction already has (older than the third party's commit) or a fresh one
		sel = pick(r, []string{"last", "last", "fresh"})
	}
	res := ""
	if !step(func() {
		if insert {
			// the pessimistic INSERT of many rows: staged writes that presume the keys do not exist, then one lock call
			mb := a.Txn().GetMemBuffer()
			h := mb.Staging()
			for i, k := range call {
				mb.SetWithFlags(k, []byte{0x33, byte(i)}, tikvkv.SetPresumeKeyNotExists, tikvkv.SetNewlyInserted)
			}
			res = a.LockAt(call, "-", sel)
			if res != "ok" {
				mb.Cleanup(h)
				return
			}
			mb.Release(h)
			for i, k := range call {
				a.Insert(k, []byte{0x33, byte(i)})
			}
			return
		}
		res = a.LockAt(call, pick(r, []string{"-", "-", "n", "r"}), sel)
	}) {
		return
	}
	rec.Count("c06:batches:lock:" + res)
	cont := r.Chance(40)
	commit := r.Chance(60)
	if !step(func() {
		if cont {
			// the transaction goes on with other keys
			if a.Lock([][]byte{other[1]}, "-") == "ok" {
				a.Set(other[1], val(0, 2, 0))
			}
			if res == "ok" && !insert {
				for i, k := range call {
					if i%5 == 0 {
						a.Set(k, val(0, 2, i))
					}
				}
			}
		}
		if commit {
			a.Commit()
		} else {
			a.Rollback()
		}
	}) {
		return
	}
	w.Quiesce(scenarioTimeout)
}

func runC06() {
	n := 3000
	if run.Thorough() {
		n = 46000
	}
	n = scaled(n)
	expireEvery, bigEvery := 20, 60
	if run.Thorough() {
		expireEvery = 60 // the family sleeps: thinned out in the thorough tier
		bigEvery = 240   // ~300 KB of trace per scenario
	}
	for i := 0; i < n; i++ {
		t0 := time.Now()
		fam := "programs"
		if i%6 == 4 {
			fam = "agg"
		} else if i%6 == 5 {
			fam = "batches"
		}
		switch {
		case i%expireEvery == 10:
			fam = "agg-expire"
			aggExpireScenario(rnd.Fork())
			rec.Count("c06:family:agg-expire")
		case i%12 == 7:
			fam = "commit-split"
			c06CommitSplit(rnd.Fork())
			rec.Count("c06:family:commit-split")
		case i%12 == 9:
			fam = "early-fail"
			c06EarlyFail(rnd.Fork())
			rec.Count("c06:family:early-fail")
		case i%12 == 3:
			fam = "relock"
			relockScenario(rnd.Fork())
			rec.Count("c06:family:relock")
		case i%6 == 4:
			c06AggRetry(rnd.Fork())
			rec.Count("c06:family:agg-retry")
		case i%6 == 5:
			c06Batches(i%bigEvery == 5, rnd.Fork())
			rec.Count("c06:family:batches")
		default:
			c06Scenario(rnd.Fork())
			rec.Count("c06:family:programs")
		}
		if d := time.Since(t0); d > 2*time.Second {
			rec.Count("c06:slow-scenario:" + fam)
			if os.Getenv("HUBRUN_TIMING") != "" {
				fmt.Fprintf(os.Stderr, "slow scenario %d (%s): %v\n", i, fam, d)
			}
		}
	}
}
