//go:build verif

package main

import (
	"github.com/tikv/client-go/v2/verifx/hub"
	"github.com/tikv/client-go/v2/verifx/vx"
)

// C06: programs of ≤ 12 calls of client a, with a contender making individual steps fail (write conflict, key exists,
// deadlock, lock-wait time-out), aggressive-locking sequences, region errors and splits in between; no request is lost.
// After the final call and the drain of the background work the audit lists every lock left in the store.
func c06Scenario(r *vx.Rand) {
	nKeys := 3 + r.Intn(2)
	keys := keyPool[:nKeys]
	stores := 1
	if r.Chance(25) {
		stores = 3
	}
	w := hub.NewWorld(rec, hub.Options{Full: lean, Seed: r.U64(), Splits: pick(r, layoutsOf(1+r.Intn(3))), Stores: stores})
	defer w.Close()
	for _, k := range keys {
		w.TrackKey(k)
	}
	if !seed(w, subset(r, keys, 50)) {
		return
	}
	a, b := w.NewClient("a"), w.NewClient("b")
	g := w.Gate()
	for i := r.Intn(3); i > 0; i-- {
		switch r.Intn(3) {
		case 0:
			g.AddFault(&hub.Fault{Kind: hub.Topo, N: r.Intn(25), Label: "split", Do: hub.SplitFault(pick(r, keyPool[1:])).Do})
		case 1:
			g.AddFault(&hub.Fault{Kind: hub.RegionErr, N: r.Intn(25), Class: pick(r, regionErrClasses)})
		default:
			if stores > 1 {
				g.AddFault(&hub.Fault{Kind: hub.Topo, N: r.Intn(25), Label: "leader", Do: hub.LeaderFault(pick(r, keys)).Do})
			}
		}
	}
	pess := r.Chance(75)
	nw := 0 // third-party writers
	step := func(f func()) bool { return runAll(w, scenarioTimeout, f) }
	if !step(func() { a.Begin(pess, pick(r, modes)) }) {
		return
	}
	bHasTxn := false
	inAgg := func() bool { return a.Txn().IsInAggressiveLockingMode() }
	n := 2 + r.Intn(10)
	touched := map[string]bool{} // keys a has written or locked: an insert presumes an untouched key
	for i := 0; i < n; i++ {
		k := pick(r, keys)
		var f func()
		x := r.Intn(100)
		if x < 25 && pess && inAgg() {
			// inside an aggressive-locking stage a statement only locks: its writes are statement-scoped in TiDB (a retried
			// or cancelled attempt takes them back), so the program writes after aggdone
			x = 30
		}
		switch {
		case x < 12:
			// a pessimistic transaction locks what it writes and gives the write up if the lock fails
			fl := pick(r, []string{"-", "n"})
			f = func() {
				if !pess || a.Lock([][]byte{k}, fl) == "ok" {
					a.Set(k, val(0, 0, i))
				}
			}
			touched[string(k)] = true
		case x < 18:
			fl := pick(r, []string{"-", "n"})
			f = func() {
				if !pess || a.Lock([][]byte{k}, fl) == "ok" {
					a.Delete(k)
				}
			}
			touched[string(k)] = true
		case x < 25:
			if touched[string(k)] {
				f = func() {
					if !pess || a.Lock([][]byte{k}, "-") == "ok" {
						a.Set(k, val(0, 0, i))
					}
				}
			} else if pess {
				fl := pick(r, []string{"-", "n"})
				f = func() { a.InsertLocked(k, val(0, 0, i), fl) }
			} else {
				f = func() { a.Insert(k, val(0, 0, i)) }
			}
			touched[string(k)] = true
		case x < 55:
			ks := [][]byte{k}
			if r.Chance(30) {
				ks = sortedKeys([][]byte{k, pick(r, keys)})
			}
			fl := "-"
			if pess {
				fl = pick(r, []string{"-", "-", "n", "r", "rn", "c", "re", "cn"})
			}
			f = func() { a.Lock(ks, fl) }
			for _, x := range ks {
				touched[string(x)] = true
			}
		case x < 63:
			if !pess || inAgg() {
				continue
			}
			f = func() { a.AggStart() }
		case x < 69:
			if !inAgg() {
				continue
			}
			f = func() { a.AggRetry() }
		case x < 73:
			if !inAgg() {
				continue
			}
			f = func() { a.AggCancel() }
		case x < 78:
			if !inAgg() {
				continue
			}
			f = func() { a.AggDone() }
		case x < 88:
			// the contender takes (or tries to take) a pessimistic lock: later lock calls of a on that key fail or time out,
			// and a failed attempt registers a wait-for edge for the deadlock detector
			f = func() {
				if !bHasTxn {
					b.Begin(true, "2pc")
					bHasTxn = true
				}
				b.Lock([][]byte{k}, "n")
			}
		case x < 93:
			if !bHasTxn {
				continue
			}
			f = func() { b.Rollback(); bHasTxn = false }
		default:
			// a third party commits a newer version: write conflict for a's later lock / commit, key exists for its inserts
			nw++
			c := w.NewClient(string(rune('c' + nw - 1)))
			f = func() {
				c.Begin(false, "2pc")
				c.Set(k, val(3, nw, i))
				c.Commit()
			}
		}
		if !step(f) {
			return
		}
	}
	if !step(func() {
		if inAgg() {
			if r.Bool() {
				a.AggDone()
			} else {
				a.AggCancel()
			}
		}
		if r.Chance(70) {
			a.Commit()
		} else {
			a.Rollback()
		}
		if bHasTxn {
			b.Rollback()
		}
	}) {
		return
	}
	w.Quiesce(scenarioTimeout)
}

func runC06() {
	n := 3000
	if run.Thorough() {
		n = 46000
	}
	n = scaled(n)
	for i := 0; i < n; i++ {
		c06Scenario(rnd.Fork())
	}
}
