//go:build verif

package main

import (
	"fmt"
	"os"

	"github.com/tikv/client-go/v2/verifx/hub"
	"github.com/tikv/client-go/v2/verifx/vx"
)

// Transactions with a PRE-HISTORY before the Commit that is cut by a crash (C02; also run by C03):
//   * a pessimistic transaction whose earlier statements FAILED — a LockKeys call over several regions that locked its
//     primary batch and then met a write conflict in another region, a single-key call that failed (the primary is un-set and
//     picked again later) — with the asynchronous pessimistic rollback of the failed statement delivered or LOST (stale
//     pessimistic locks that still name the abandoned primary stay in the store);
//   * recovery by a client whose resolver has ALREADY met locks of this transaction (warm status cache): client R locks or
//     writes the keys of the failed statement after their ttl passed, before the transaction goes on; after the crash the
//     same client R — or a fresh one — reads / writes / GCs all keys;
//   * the final Commit dies at a random request (undelivered, or executed and unanswered), or completes.
// Oracles: atomicity of every transaction's records (C02), the answer of Commit against the store (C03), no lock of the
// victim after recovery, rule 4 of the monitor (a resolve names an outcome the store reported).

func isPRollback(kind, cmd string) bool { return kind == "prollback" }

// perm returns a random permutation of 0..n-1.
func perm(r *vx.Rand, n int) []int {
	p := make([]int, n)
	for i := range p {
		p[i] = i
	}
	for i := n - 1; i > 0; i-- {
		j := r.Intn(i + 1)
		p[i], p[j] = p[j], p[i]
	}
	return p
}

// recoverWith is recoverAndAudit with the recovering client given (nil = a fresh one).
func recoverWith(w *hub.World, rd *hub.Client, keys [][]byte, r *vx.Rand, how int, victims ...*hub.Client) bool {
	w.AdvanceClock(recoveryAdvanceMs())
	if rd == nil {
		rd = w.NewClient("r")
	}
	ok := runAll(w, scenarioTimeout, func() {
		switch how % 4 {
		case 0:
			rd.Begin(false, "2pc")
			for _, k := range keys {
				rd.Get(k)
			}
			rd.Rollback()
		case 1:
			rd.Begin(false, "2pc")
			rd.BGet(keys)
			rd.Rollback()
		case 2:
			rd.Begin(false, "2pc")
			rd.Iter(nil, nil, 0)
			rd.Rollback()
		default:
			// a writer: its prewrite meets the leftovers
			rd.Begin(false, "2pc")
			for i, k := range keys {
				rd.Set(k, val(2, 1, i))
			}
			rd.Commit()
		}
		if (how/4)%2 == 0 {
			rd.GC(rd.CurrentTS())
		} else {
			rd.Begin(true, "2pc")
			for _, k := range keys {
				rd.Lock([][]byte{k}, "n")
			}
			rd.Rollback()
		}
	})
	if !ok {
		return false
	}
	if !w.Quiesce(scenarioTimeout) {
		return false
	}
	for _, v := range victims {
		w.AuditNoLocks(v)
	}
	return true
}

func historyScenario(r *vx.Rand) {
	nKeys := 4 + r.Intn(2)
	keys := keyPool[:nKeys]
	nRegions := 2 + r.Intn(2)
	if r.Chance(15) {
		nRegions = 1
	}
	stores := 1
	if r.Chance(15) {
		stores = 3
	}
	w := hub.NewWorld(rec, hub.Options{Full: lean, Seed: r.U64(), Splits: pick(r, layoutsOf(nRegions)), Stores: stores})
	defer w.Close()
	for _, k := range keys {
		w.TrackKey(k)
	}
	if !seed(w, subset(r, keys, 50)) {
		return
	}
	a := w.NewClient("a")
	g := w.Gate()
	step := func(f func()) bool { return runAll(w, scenarioTimeout, f) }
	pess := r.Chance(85)
	if !step(func() { a.Begin(pess, pick(r, modes)) }) {
		return
	}
	var rc *hub.Client // the recovering client with a history
	np := 0
	stale := map[string]bool{}
	if pess {
		// the failed statements
		for st := r.Intn(3); st > 0; st-- {
			n := 1 + r.Intn(3)
			pm := perm(r, nKeys)
			var ks [][]byte
			for _, i := range pm[:n] {
				ks = append(ks, keys[i])
			}
			// the statement's keys in the caller's order: the first one becomes the primary
			victim := ks[len(ks)-1]
			np++
			if !thirdParty(w, fmt.Sprintf("p%d", np), [][]byte{victim}, np) {
				return
			}
			lost := r.Chance(60)
			if lost {
				g.AddFault(&hub.Fault{Kind: hub.DropBefore, Client: a, Match: isPRollback, Repeat: true})
				rec.Count("c02:history:rollback-lost")
			}
			res := ""
			if !step(func() { res = a.LockAt(ks, pick(r, []string{"-", "n", "r"}), "last") }) {
				return
			}
			rec.Count("c02:history:failed-statement:" + res)
			// the asynchronous rollback runs (and gives up) in the background
			if !w.WaitDrained(scenarioTimeout) {
				w.Hang("drain")
				return
			}
			if lost {
				g.ClearFaults()
				for _, k := range ks {
					stale[string(k)] = true
				}
			}
		}
		// NOTE (reported as a suspect, reproduce with HUBRUN_STALE_SURVIVE=1): a stale pessimistic lock whose recorded primary is its
		// own key (the abandoned primary of a failed statement whose rollback was lost) is never removed by a client whose resolver
		// already has the transaction's final status cached: resolvePessimisticLock skips the request for key == primary ("resolved
		// by CheckTxnStatus") although the status came from the cache and no CheckTxnStatus was sent, and a pessimistic lock request
		// on that key is then retried without back-off for ever (`hang rpc-budget`).  Unless that variable is set, the stale locks
		// are therefore always met by client R before the transaction ends.
		if len(stale) > 0 && (os.Getenv("HUBRUN_STALE_SURVIVE") == "" || r.Chance(70)) {
			// client R meets the stale locks after their ttl has passed: its resolver asks about the abandoned primary
			w.AdvanceClock(25000 + int64(r.Intn(10000)))
			rc = w.NewClient("rc")
			order := perm(r, nKeys)
			asLocker := r.Bool()
			if !step(func() {
				rc.Begin(asLocker, "2pc")
				for _, i := range order {
					k := keys[i]
					if !stale[string(k)] && r.Chance(60) {
						continue
					}
					if asLocker {
						rc.Lock([][]byte{k}, "n")
					} else {
						rc.Set(k, val(2, 0, i))
					}
				}
				if asLocker {
					rc.Rollback()
				} else {
					rc.Commit()
				}
			}) {
				return
			}
			rec.Count("c02:history:resolver-met-stale-locks")
			if !w.WaitDrained(scenarioTimeout) {
				w.Hang("drain")
				return
			}
		}
	}
	// the statements that succeed
	prepared := true
	if !step(func() {
		pm := perm(r, nKeys)
		n := 2 + r.Intn(nKeys-1)
		var mine [][]byte
		for _, i := range pm[:n] {
			mine = append(mine, keys[i])
		}
		if pess {
			if r.Bool() {
				if a.LockAt(mine, "-", "fresh") != "ok" {
					prepared = false
					return
				}
			} else {
				for _, k := range mine {
					if a.LockAt([][]byte{k}, "-", "fresh") != "ok" {
						prepared = false
						return
					}
				}
			}
		}
		for i, k := range mine {
			if r.Chance(20) {
				a.Delete(k)
			} else {
				a.Set(k, val(0, 0, i))
			}
		}
	}) {
		return
	}
	// the final call, cut at a random request (or not at all)
	cut := r.Intn(nKeys + 3)
	kind := hub.CrashBefore
	if r.Bool() {
		kind = hub.CrashAfter
	}
	switch x := r.Intn(100); {
	case x < 20:
		// the client dies when its first commit request (the primary's: the commit point) was executed, unanswered
		g.AddFault(&hub.Fault{Kind: hub.CrashAfter, Client: a, N: 0, Match: isCommit})
	case x < 45:
		// the commit point was acknowledged; the client dies before its second commit request (the secondaries') goes out
		seen := 0
		g.AddFault(&hub.Fault{Kind: hub.CrashBefore, Client: a, N: 0, Match: func(kind, cmd string) bool {
			if kind != "commit" {
				return false
			}
			seen++
			return seen >= 2
		}})
	case x < 90:
		g.AddFault(&hub.Fault{Kind: kind, Client: a, N: cut})
	}
	sr := &shapeRun{w: w, a: a, prepared: prepared}
	sr.final()
	if !a.Crashed() {
		w.WaitDrained(scenarioTimeout)
	}
	if a.Crashed() {
		rec.Count("c02:history:crashed")
	} else {
		rec.Count("c02:history:completed")
	}
	who := rc
	if rc == nil || r.Chance(35) {
		who = nil
	} else {
		rec.Count("c02:history:recovery-by-warm-resolver")
	}
	recoverWith(w, who, keys, r, r.Intn(8), a)
}

// gcMergeScenario: a GC pass (KVStore.GC: ScanLock + batched ResolveLock region by region) over three or four regions that
// all hold leftover locks of dead transactions (pending, primary committed with secondaries left, pessimistic), while regions
// MERGE (or split) just before one of its requests — between a region's ScanLock and its ResolveLock, or before a ScanLock.
// A pass that reports success leaves no lock at or below its safe point (judged at the end of the `gc` call and again by the
// lock audit), and the dead transactions end all-or-nothing.
func gcMergeScenario(r *vx.Rand) {
	pool := c05WidePool
	var splits [][]byte
	for _, k := range pool[1:] {
		if len(splits) < 3 && r.Chance(45) {
			splits = append(splits, k)
		}
	}
	for len(splits) < 2 {
		splits = [][]byte{{0x63}, {0x66}}
	}
	stores := 1
	if r.Chance(15) {
		stores = 3
	}
	w := hub.NewWorld(rec, hub.Options{Full: lean, Seed: r.U64(), Splits: splits, Stores: stores})
	defer w.Close()
	for _, k := range pool {
		w.TrackKey(k)
	}
	if !seed(w, subset(r, pool, 50)) {
		return
	}
	// two or three dead writers over disjoint keys: every region gets some lock
	nw := 2 + r.Intn(2)
	parts := make([][][]byte, nw)
	for _, k := range pool {
		i := r.Intn(nw)
		parts[i] = append(parts[i], k)
	}
	var victims []string
	for i, p := range parts {
		if len(p) == 0 {
			continue
		}
		kind := pick(r, []string{"pending", "primary-only", "primary-only", "pess", "complete"})
		name := fmt.Sprintf("w%d", i+1)
		c05Writer(w, name, p, kind, i, r)
		victims = append(victims, name)
		if w.Hung() {
			return
		}
	}
	w.AdvanceClock(60000)
	rd := w.NewClient("r")
	g := w.Gate()
	isGCReq := func(kind, cmd string) bool { return kind == "resolve" || kind == "scanlock" }
	isResolve := func(kind, cmd string) bool { return kind == "resolve" }
	for i := 1 + r.Intn(2); i > 0; i-- {
		var f *hub.Fault
		if r.Chance(80) {
			f = hub.MergeFault(pick(r, pool))
			rec.Count("c02:gc-merge:merge")
		} else {
			f = hub.SplitFault(pick(r, pool[1:]))
			rec.Count("c02:gc-merge:split")
		}
		f.Client, f.N = rd, r.Intn(3)
		f.Match = isGCReq
		if r.Chance(70) {
			f.Match = isResolve
		}
		g.AddFault(f)
	}
	if !runAll(w, scenarioTimeout, func() {
		if r.Chance(30) {
			// the resolver has seen some of it before
			rd.Begin(false, "2pc")
			rd.Get(pick(r, pool))
			rd.Rollback()
		}
		rd.GC(rd.CurrentTS())
	}) {
		return
	}
	g.ClearFaults()
	w.Quiesce(scenarioTimeout)
}
