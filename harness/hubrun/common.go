//go:build verif

package main

import (
	"fmt"
	"strings"
	"time"

	"github.com/tikv/client-go/v2/verifx/hub"
	"github.com/tikv/client-go/v2/verifx/vx"
)

// the shared key pool: single-byte keys a..e; region boundaries are drawn from b..e
var keyPool = [][]byte{{0x61}, {0x62}, {0x63}, {0x64}, {0x65}}

// layouts: region boundaries for 1, 2 and 3 regions
var layouts = [][][]byte{
	nil,
	{{0x63}},
	{{0x62}, {0x64}},
	{{0x62}},
	{{0x64}},
	{{0x63}, {0x65}},
}

func layoutsOf(nRegions int) [][][]byte {
	var out [][][]byte
	for _, l := range layouts {
		if len(l)+1 == nRegions {
			out = append(out, l)
		}
	}
	return out
}

// generous: a scenario takes milliseconds; the limit only has to tell a hang from a machine that is busy with other work
const scenarioTimeout = 60 * time.Second

// runAll runs the functions concurrently and waits for all of them; false (and a `hang` event) on timeout.
func runAll(w *hub.World, timeout time.Duration, fns ...func()) bool {
	done := make(chan struct{}, len(fns))
	for _, f := range fns {
		f := f
		go func() {
			defer func() {
				if e := recover(); e != nil {
					w.Note(fmt.Sprintf("panic in client goroutine: %v", e))
					w.Count("client-panic")
				}
				done <- struct{}{}
			}()
			f()
		}()
	}
	t := time.After(timeout)
	for range fns {
		select {
		case <-done:
		case <-t:
			w.Hang("clients")
			return false
		}
	}
	return true
}

// waitUntil polls cond; false on timeout.
func waitUntil(timeout time.Duration, cond func() bool) bool {
	deadline := time.Now().Add(timeout)
	for time.Now().Before(deadline) {
		if cond() {
			return true
		}
		hub.Pause(200 * time.Microsecond)
	}
	return cond()
}

// val makes a value that identifies its writer: (client index, transaction number, op number).
func val(ci, tn, op int) []byte { return []byte{byte(0x10*(ci+1) + tn), byte(op)} }

// seed writes initial values for the given keys through a setup client (a committed transaction in the trace).
func seed(w *hub.World, keys [][]byte) bool {
	if len(keys) == 0 {
		return true
	}
	s := w.NewClient("s")
	ok := runAll(w, scenarioTimeout, func() {
		s.Begin(false, "2pc")
		for i, k := range keys {
			s.Set(k, []byte{0x01, byte(i)})
		}
		s.Commit()
	})
	return ok && w.WaitDrained(scenarioTimeout)
}

// recover expired leftovers: the clock passes every TTL, a fresh client reads all keys (lock resolution by a reader), then
// either GC-style batch resolution or a pessimistic locker pass removes what readers ignore (pessimistic locks).
func recoverAndAudit(w *hub.World, keys [][]byte, r *vx.Rand, how int, victims ...*hub.Client) bool {
	w.AdvanceClock(recoveryAdvanceMs())
	rd := w.NewClient("r")
	ok := runAll(w, scenarioTimeout, func() {
		rd.Begin(false, "2pc")
		switch how % 3 {
		case 0:
			for _, k := range keys {
				rd.Get(k)
			}
		case 1:
			rd.BGet(keys)
		default:
			rd.Iter(nil, nil, 0)
		}
		rd.Rollback()
		if (how/3)%2 == 0 {
			rd.GC(rd.CurrentTS())
		} else {
			rd.Begin(true, "2pc")
			for _, k := range keys {
				rd.Lock([][]byte{k}, "n")
			}
			rd.Rollback()
		}
	})
	if !ok {
		return false
	}
	if !w.Quiesce(scenarioTimeout) {
		return false
	}
	for _, v := range victims {
		w.AuditNoLocks(v)
	}
	return true
}

func pick[T any](r *vx.Rand, xs []T) T { return xs[r.Intn(len(xs))] }

func subset(r *vx.Rand, keys [][]byte, p int) [][]byte {
	var out [][]byte
	for _, k := range keys {
		if r.Chance(p) {
			out = append(out, k)
		}
	}
	return out
}

var modes = []string{"2pc", "async", "1pc", "both"}

var regionErrClasses = []string{"NotLeader", "EpochNotMatch", "ServerIsBusy", "StaleCommand"}

// idempotent request kinds on which a dropped request is a tolerated fault (the commit point cannot be affected)
func idempotentKind(kind, cmd string) bool {
	switch kind {
	case "prewrite":
		// an unanswered async-commit/1PC prewrite makes the result undetermined: not a tolerated fault
		return strings.Contains(cmd, " async=0 onepc=0 ")
	case "get", "bget", "scan", "rscan", "plock", "status", "resolve", "cleanup", "rollback", "prollback", "scanlock", "heartbeat":
		return true
	}
	return false
}

// recoveryAdvanceMs: how far the clock moves before a recovery pass — past every lock ttl.  A pessimistic async-commit
// transaction prewrites with a ttl that covers its max_commit_ts: with the safe window widened to 48 h that is two days.
func recoveryAdvanceMs() int64 {
	if restoreSafeWindow != nil {
		return 49 * 3600 * 1000
	}
	return 60000
}
