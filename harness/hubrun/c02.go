//go:build verif

package main

import (
	"fmt"
	"time"

	"github.com/tikv/client-go/v2/verifx/hub"
	"github.com/tikv/client-go/v2/verifx/vx"
)

// C02: the committing client dies at RPC index i of its final call (request undelivered / delivered but unanswered);
// afterwards the clock passes the TTL, a fresh client reads all keys and resolves the leftovers, then the audit.
// extra (thorough tier): 1 = a concurrent reader, 2 = a conflicting writer, 3 = a region split at that same instant.
func c02Scenario(s shape, i int, after bool, extra int, r *vx.Rand) {
	sr := startShape(s, r)
	w := sr.w
	defer w.Close()
	if !sr.ok {
		return
	}
	g := w.Gate()
	if extra == 3 {
		f := hub.SplitFault(s.splitKey(r))
		f.Client, f.N = sr.a, i
		g.AddFault(f)
	}
	kind := hub.CrashBefore
	if after {
		kind = hub.CrashAfter
	}
	if extra == 4 {
		// instead of dying, the caller's context of Commit ends at that request (not executed / executed, answer not read)
		kind = hub.DropBefore
		if after {
			kind = hub.DropAfter
		}
		g.AddFault(&hub.Fault{Kind: kind, Client: sr.a, N: i, Cancel: sr.cancel})
	} else {
		g.AddFault(&hub.Fault{Kind: kind, Client: sr.a, N: i})
	}
	var side chan struct{}
	if extra == 1 || extra == 2 {
		side = make(chan struct{})
		b := w.NewClient("b")
		go func() {
			defer close(side)
			defer func() { recover() }()
			if extra == 1 {
				b.Begin(false, "2pc")
				b.BGet(s.keys)
				b.Rollback()
			} else {
				b.Begin(false, "2pc")
				b.Set(pick(r, s.keys), []byte{0x44, 0x01})
				b.Commit()
			}
		}()
	}
	sr.final()
	if side != nil {
		// the side client may be blocked by the victim's locks until the clock moves
		if !waitUntil(2*time.Second, func() bool {
			select {
			case <-side:
				return true
			default:
				return false
			}
		}) {
			w.AdvanceClock(60000)
			if !waitUntil(scenarioTimeout, func() bool {
				select {
				case <-side:
					return true
				default:
					return false
				}
			}) {
				w.Hang("side-client")
				return
			}
		}
	}
	if !sr.a.Crashed() {
		// the crash index may lie in the background work (secondary commits, cleanup)
		w.WaitDrained(scenarioTimeout)
	}
	if !sr.a.Crashed() {
		rec.Count("c02:index-beyond-last-rpc")
	} else if after {
		rec.Count("c02:crash-after")
	} else {
		rec.Count("c02:crash-before")
	}
	recoverAndAudit(w, s.keys, r, r.Intn(6), sr.a)
}

func runC02() {
	nShapes := 330
	if run.Thorough() {
		nShapes = 2600
	}
	nShapes = scaled(nShapes)
	// the directed async-commit recovery family (profile full): both arrival orders of the CheckSecondaryLocks answers
	asyncRecoveryFamily(rnd.Fork(), 4)
	for i := 0; i < 12; i++ {
		// old transactions (family of c03.go) dying at a request of their Commit, mostly right after the acknowledgement
		r := rnd.Fork()
		s := agedShape(r, i)
		cnt := probe(s, r.Fork())
		for _, after := range []bool{false, true} {
			if cnt > 0 {
				c02Scenario(s, r.Intn(cnt), after, 0, r.Fork())
			}
		}
		rec.Count("c02:family:aged")
	}
	for n := 0; n < nShapes; n++ {
		r := rnd.Fork()
		s := genShape(r)
		cnt := probe(s, r.Fork())
		rec.Count("c02:shapes")
		for i := 0; i < cnt; i++ {
			for _, after := range []bool{false, true} {
				// the plain crash point; a region split at that same instant for ALL indexes (thorough: every shape, quick:
				// every fourth); thorough: plus a concurrent reader or a conflicting writer
				extras := []int{0}
				if run.Thorough() || n%4 == 0 {
					extras = append(extras, 3)
				}
				if run.Thorough() || n%4 == 1 {
					extras = append(extras, 4)
				}
				if run.Thorough() {
					extras = append(extras, 1+r.Intn(2))
				}
				for _, extra := range extras {
					timed(fmt.Sprintf("c02-extra-%d", extra), func() { c02Scenario(s, i, after, extra, r.Fork()) })
					if extra != 0 {
						rec.Count(fmt.Sprintf("c02:extra-%d", extra))
					}
				}
			}
		}
		// transactions with a pre-history (failed statements, lost rollbacks, a resolver that met them before): c02hist.go
		nHist := 3
		if run.Thorough() {
			nHist = 1
		}
		if !run.Thorough() || n%3 == 0 {
			timed("gc-merge", func() { gcMergeScenario(r.Fork()) })
			rec.Count("c02:family:gc-merge")
		}
		if !run.Thorough() || n%3 == 0 {
			timed("slow-owner", func() { slowOwnerScenario(r.Fork()) })
			rec.Count("c02:family:slow-owner")
		}
		for i := 0; i < nHist; i++ {
			timed("history", func() { historyScenario(r.Fork()) })
			rec.Count("c02:family:history")
		}
	}
}
