//go:build verif

package main

import (
	"bytes"
	"sort"
	"time"

	"github.com/tikv/client-go/v2/verifx/hub"
	"github.com/tikv/client-go/v2/verifx/vx"
)

// C01: 2–4 concurrent clients, each a random program over ≤ 5 shared keys on 1–3 regions, random RPC interleavings from
// the scheduler, occasional split / leader change, occasional tolerated fault, occasionally a client crash followed by the
// clock passing every TTL.

type c01op struct {
	kind   string // get bget iter riter set insert delete lock
	keys   [][]byte
	lo, hi []byte
	limit  int
	flags  string
}

type c01txn struct {
	pess   bool
	mode   string
	ops    []c01op
	commit bool
}

func sortedKeys(ks [][]byte) [][]byte {
	out := append([][]byte{}, ks...)
	sort.Slice(out, func(i, j int) bool { return bytes.Compare(out[i], out[j]) < 0 })
	var u [][]byte
	for i, k := range out {
		if i == 0 || !bytes.Equal(k, out[i-1]) {
			u = append(u, k)
		}
	}
	return u
}

func genC01Txn(r *vx.Rand, keys [][]byte) c01txn {
	t := c01txn{pess: r.Chance(45), mode: pick(r, modes), commit: r.Chance(85)}
	n := 1 + r.Intn(6)
	touched := map[string]bool{}
	for i := 0; i < n; i++ {
		var o c01op
		k := pick(r, keys)
		switch x := r.Intn(100); {
		case x < 18:
			o = c01op{kind: "get", keys: [][]byte{k}}
		case x < 26:
			o = c01op{kind: "bget", keys: sortedKeys([][]byte{k, pick(r, keys), pick(r, keys)})}
		case x < 36:
			a, b := pick(r, keys), pick(r, keys)
			if bytes.Compare(a, b) > 0 {
				a, b = b, a
			}
			o = c01op{kind: "iter", lo: a, hi: b, limit: r.Intn(4)}
			if r.Chance(40) {
				o.lo, o.hi = nil, nil
			} else if r.Chance(30) {
				o.hi = nil
			}
			if r.Bool() {
				o.kind = "riter"
			}
		case x < 62:
			o = c01op{kind: "set", keys: [][]byte{k}}
		case x < 72:
			o = c01op{kind: "insert", keys: [][]byte{k}}
		case x < 82:
			o = c01op{kind: "delete", keys: [][]byte{k}}
		default:
			ks := [][]byte{k}
			if r.Chance(35) {
				ks = sortedKeys([][]byte{k, pick(r, keys)})
			}
			fl := ""
			if t.pess {
				fl = pick(r, []string{"", "", "r", "c", "n", "rn", "cn", "re"})
			}
			if fl == "" {
				fl = "-"
			}
			o = c01op{kind: "lock", keys: ks, flags: fl}
		}
		// an insert presumes the key absent: only on keys the transaction has not touched yet (TiDB consults its buffer
		// first); in a pessimistic transaction it is always the staged insert + lock of InsertLocked
		if o.kind == "insert" && touched[string(k)] {
			o.kind = "set"
		}
		if o.kind == "insert" && t.pess {
			o.kind = "insertlocked"
			o.flags = pick(r, []string{"-", "n", "-"})
		}
		switch o.kind {
		case "set", "insert", "insertlocked", "delete", "lock", "lockedset", "lockeddelete":
			for _, x := range o.keys {
				touched[string(x)] = true
			}
		}
		// pessimistic DML locks the key it writes first and gives the write up if the lock fails (the contract under which
		// a pessimistic transaction's writes are protected: prewrite does not re-check unlocked keys of such a transaction)
		if t.pess && (o.kind == "set" || o.kind == "delete") {
			o.flags = pick(r, []string{"-", "n", "-"})
			o.kind = "locked" + o.kind
		}
		t.ops = append(t.ops, o)
	}
	return t
}

func runC01Txn(c *hub.Client, ci, tn int, t c01txn) {
	if _, res := c.Begin(t.pess, t.mode); res != "ok" {
		return
	}
	for i, o := range t.ops {
		if c.Crashed() {
			return
		}
		switch o.kind {
		case "get":
			c.Get(o.keys[0])
		case "bget":
			c.BGet(o.keys)
		case "iter":
			c.Iter(o.lo, o.hi, o.limit)
		case "riter":
			c.RIter(o.lo, o.hi, o.limit)
		case "set":
			c.Set(o.keys[0], val(ci, tn, i))
		case "insert":
			c.Insert(o.keys[0], val(ci, tn, i))
		case "insertlocked":
			c.InsertLocked(o.keys[0], val(ci, tn, i), o.flags)
		case "lockedset":
			if c.Lock(o.keys, o.flags) == "ok" {
				c.Set(o.keys[0], val(ci, tn, i))
			}
		case "lockeddelete":
			if c.Lock(o.keys, o.flags) == "ok" {
				c.Delete(o.keys[0])
			}
		case "delete":
			c.Delete(o.keys[0])
		case "lock":
			c.Lock(o.keys, o.flags)
		}
	}
	if c.Crashed() {
		return
	}
	if t.commit {
		c.Commit()
	} else {
		c.Rollback()
	}
}

func c01Scenario(r *vx.Rand) {
	t0 := time.Now()
	nKeys := 2 + r.Intn(4)
	keys := keyPool[:nKeys]
	nRegions := 1 + r.Intn(3)
	stores := 1
	if r.Chance(35) {
		stores = 3
	}
	w := hub.NewWorld(rec, hub.Options{Full: lean, Seed: r.U64(), Splits: pick(r, layoutsOf(nRegions)), Stores: stores})
	defer w.Close()
	for _, k := range keys {
		w.TrackKey(k)
	}
	if !seed(w, subset(r, keys, 50)) {
		return
	}
	nClients := 2 + r.Intn(3)
	var clients []*hub.Client
	var progs [][]c01txn
	for i := 0; i < nClients; i++ {
		clients = append(clients, w.NewClient(string(rune('a'+i))))
		var p []c01txn
		for n := 1 + r.Intn(3); n > 0; n-- {
			p = append(p, genC01Txn(r, keys))
		}
		progs = append(progs, p)
	}
	g := w.Gate()
	// faults: positions are global RPC indexes from here on
	if r.Chance(30) {
		g.AddFault(&hub.Fault{Kind: hub.Topo, N: r.Intn(30), Label: "split", Do: hub.SplitFault(pick(r, keyPool[1:])).Do})
		rec.Count("c01:split")
	}
	if stores > 1 && r.Chance(60) {
		g.AddFault(&hub.Fault{Kind: hub.Topo, N: r.Intn(30), Label: "leader", Do: hub.LeaderFault(pick(r, keys)).Do})
		rec.Count("c01:leader")
	}
	if r.Chance(25) {
		g.AddFault(&hub.Fault{Kind: hub.DropBefore, N: r.Intn(30), Match: idempotentKind})
		rec.Count("c01:drop-before")
	}
	if r.Chance(25) {
		g.AddFault(&hub.Fault{Kind: hub.RegionErr, N: r.Intn(30), Class: pick(r, regionErrClasses)})
		rec.Count("c01:regionerr")
	}
	var victim *hub.Client
	if r.Chance(12) {
		victim = pick(r, clients)
		kind := hub.CrashBefore
		if r.Bool() {
			kind = hub.CrashAfter
		}
		g.AddFault(&hub.Fault{Kind: kind, Client: victim, N: r.Intn(10)})
		rec.Count("c01:crash")
	}
	var fns []func()
	for i := range clients {
		i := i
		fns = append(fns, func() {
			for tn, t := range progs[i] {
				if clients[i].Crashed() {
					return
				}
				runC01Txn(clients[i], i, tn, t)
			}
		})
	}
	stop := make(chan struct{})
	if victim != nil {
		// once the victim is dead the clock passes every TTL, so that the others can resolve what it left behind
		go func() {
			for {
				select {
				case <-stop:
					return
				case <-time.After(time.Millisecond):
				}
				if victim.Crashed() {
					w.AdvanceClock(60000)
					return
				}
			}
		}()
		// the victim's goroutine is abandoned at the crash: do not wait for it
		vi := 0
		for i, c := range clients {
			if c == victim {
				vi = i
			}
		}
		vf := fns[vi]
		fns[vi] = func() {
			done := make(chan struct{})
			go func() { defer func() { recover(); close(done) }(); vf() }()
			for {
				select {
				case <-done:
					return
				case <-time.After(time.Millisecond):
					if victim.Crashed() {
						return
					}
				}
			}
		}
	}
	t1 := time.Now()
	ok := runAll(w, scenarioTimeout, fns...)
	close(stop)
	t2 := time.Now()
	if ok {
		w.Quiesce(scenarioTimeout)
	}
	run.Stats["t_run_ms"] += int(t2.Sub(t1).Milliseconds())
	run.Stats["t_quiesce_ms"] += int(time.Since(t2).Milliseconds())
	run.Stats["t_setup_ms"] += int(t1.Sub(t0).Milliseconds())
}

func runC01() {
	n := 900
	if run.Thorough() {
		n = 20000
	}
	n = scaled(n)
	// the directed async-commit recovery family of c02async.go (profile full): a recovered transaction is all-or-nothing
	asyncRecoveryFamily(rnd.Fork(), 2)
	thin := 1 // the families borrowed from c06.go are thinned out in the thorough tier (wall clock)
	if run.Thorough() {
		thin = 14
	}
	for i := 0; i < n; i++ {
		c01Scenario(rnd.Fork())
		// locking reads across fair-locking retries whose earlier locks expired (family of c06.go; the locking-read
		// oracle and `audit held` are C01's: a locking read returns the newest committed value and really holds the lock)
		if i%(12*thin) == 5 {
			aggExpireScenario(rnd.Fork())
		}
		// re-lock calls over keys the transaction holds that fail and are retried (family of c06.go): the held locks stay
		// fair locking retried with changed flags / for-update ts (family of c06.go; the locking-read oracle judges the values)
		if i%(8*thin) == 1 {
			c06AggRetry(rnd.Fork())
			rec.Count("c01:family:agg-retry")
		}
		// one snapshot object that learnt "W is committed" from one lock and then meets W's other locks (family of c05.go)
		if i%(10*thin) == 3 {
			c05CommittedPrimary(rnd.Fork())
			rec.Count("c01:family:committed-primary")
		}
		// a first lock call "only if exists" on a missing key, then a long-open transaction (family of c04.go): its locks hold
		if i%(10*thin) == 7 {
			lockIfExistsFirst(rnd.Fork())
			rec.Count("c01:family:lock-if-exists-first")
		}
		if i%(6*thin) == 2 {
			relockScenario(rnd.Fork())
			rec.Count("c01:family:relock")
		}
	}
}
