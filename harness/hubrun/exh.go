//go:build verif

package main

import (
	"fmt"
	"os"
	"strings"
	"time"

	"github.com/tikv/client-go/v2/verifx/hub"
)

// Exhaustive enumeration of RPC interleavings (DESIGN §4 C01).  The gate runs in controlled mode: a scheduling step is
// taken only when every client thread is blocked at the gate or finished; an event is an RPC or the start of a transaction
// (Begin = the fetch of the start timestamp); every other timestamp fetch happens inside the step that leads to it.  A DFS
// with replay-from-scratch enumerates every sequence of choices; each complete schedule is one `# case`.

var keyA, keyB = []byte{0x61}, []byte{0x62}

// xprog is one small client program of the alphabet.
type xprog struct {
	name string
	run  func(c *hub.Client, ci int, mode string)
}

func xRW(pess bool, k []byte) xprog { // get k; set k v; commit
	return xprog{fmt.Sprintf("rw(%s,%s)", po(pess), hub.Hx(k)), func(c *hub.Client, ci int, mode string) {
		c.Begin(pess, mode)
		c.Get(k)
		if pess && c.Lock([][]byte{k}, "n") != "ok" {
			c.Rollback()
			return
		}
		c.Set(k, val(ci, 0, 1))
		c.Commit()
	}}
}

func xW2(pess bool, first []byte) xprog { // set k1; set k2; commit (pessimistic: the key locked first is the primary)
	second := keyB
	if string(first) == string(keyB) {
		second = keyA
	}
	return xprog{fmt.Sprintf("w2(%s,primary=%s)", po(pess), hub.Hx(first)), func(c *hub.Client, ci int, mode string) {
		c.Begin(pess, mode)
		if pess {
			if c.Lock([][]byte{first}, "n") != "ok" || c.Lock([][]byte{second}, "n") != "ok" {
				c.Rollback()
				return
			}
		}
		c.Set(keyA, val(ci, 0, 1))
		c.Set(keyB, val(ci, 0, 2))
		c.Commit()
	}}
}

func xR2() xprog { // snapshot reader: get k1; get k2
	return xprog{"r2", func(c *hub.Client, ci int, mode string) {
		c.Begin(false, "2pc")
		c.Get(keyA)
		c.Get(keyB)
		c.Rollback()
	}}
}

func xLW(k []byte) xprog { // lock k; set k; commit
	return xprog{fmt.Sprintf("lw(%s)", hub.Hx(k)), func(c *hub.Client, ci int, mode string) {
		c.Begin(true, mode)
		if c.Lock([][]byte{k}, "n") != "ok" {
			c.Rollback()
			return
		}
		c.Set(k, val(ci, 0, 1))
		c.Commit()
	}}
}

func xSR(pess bool, k []byte) xprog { // set k; rollback
	return xprog{fmt.Sprintf("sr(%s,%s)", po(pess), hub.Hx(k)), func(c *hub.Client, ci int, mode string) {
		c.Begin(pess, mode)
		if pess && c.Lock([][]byte{k}, "n") != "ok" {
			c.Rollback()
			return
		}
		c.Set(k, val(ci, 0, 1))
		c.Rollback()
	}}
}

func po(pess bool) string {
	if pess {
		return "pess"
	}
	return "opt"
}

// the alphabet over one key (k) or two keys
func alphabet(twoKeys bool) []xprog {
	ks := [][]byte{keyA}
	if twoKeys {
		ks = append(ks, keyB)
	}
	var out []xprog
	for _, k := range ks {
		out = append(out, xRW(false, k), xRW(true, k), xLW(k), xSR(true, k))
	}
	out = append(out, xSR(false, keyA)) // no RPC at all: begin and end only
	if twoKeys {
		out = append(out, xW2(false, keyA), xW2(true, keyA), xW2(true, keyB), xR2())
	}
	return out
}

// ---- DFS over choice sequences

type xnode struct {
	enabled []string
	next    int
}

type xdfs struct {
	stack    []xnode
	depth    int
	waits    int
	diverged bool
	late     int
}

// Choose implements hub.Chooser for one run: follow the stack, extend it beyond its end with the first alternative.
func (d *xdfs) Choose(enabled []string) (string, bool) {
	if d.depth < len(d.stack) {
		n := &d.stack[d.depth]
		// alternatives seen now but not when the node was first visited (a late arrival then): keep them
		for _, l := range enabled {
			found := false
			for _, e := range n.enabled {
				if e == l {
					found = true
				}
			}
			if !found {
				n.enabled = append(n.enabled, l)
				d.late++
			}
		}
		want := n.enabled[n.next]
		for _, l := range enabled {
			if l == want {
				d.depth++
				d.waits = 0
				return want, true
			}
		}
		if d.waits < 40 {
			d.waits++
			return "", true
		}
		d.diverged = true
		if os.Getenv("HUB_DEBUG") != "" {
			fmt.Fprintf(os.Stderr, "diverged at depth %d: want %q enabled %q\n", d.depth, want, enabled)
		}
		return "", false
	}
	d.stack = append(d.stack, xnode{enabled: append([]string{}, enabled...)})
	d.depth++
	return enabled[0], true
}

// backtrack moves to the next unexplored alternative; false = the tree is exhausted.
func (d *xdfs) backtrack() bool {
	for len(d.stack) > 0 {
		top := &d.stack[len(d.stack)-1]
		if top.next+1 < len(top.enabled) {
			top.next++
			return true
		}
		d.stack = d.stack[:len(d.stack)-1]
	}
	return false
}

// exhCombo enumerates every schedule of the given programs (client i runs progs[i]) on the layout.  Key a holds a committed
// value before the programs start (written directly through a setup client whose single-choice events are part of every
// schedule), key b holds none.
func exhCombo(name string, layout [][]byte, progs []xprog, mode string, limit int) (schedules int, complete bool) {
	d := &xdfs{}
	retries := 0
	for {
		d.depth, d.waits, d.diverged = 0, 0, false
		settle := 150 * time.Microsecond
		if len(layout) > 0 {
			// several regions: one call fans out into parallel batches that reach the gate one after the other
			settle = 400 * time.Microsecond
		}
		w := hub.NewWorld(rec, hub.Options{Control: d, Full: lean, Splits: layout, Seed: 1, Settle: settle})
		w.Note("exhaustive " + name)
		w.TrackKey(keyA)
		w.TrackKey(keyB)
		ok := seed(w, [][]byte{keyA})
		var clients []*hub.Client
		for i := range progs {
			clients = append(clients, w.NewClient(string(rune('a'+i))))
		}
		if ok {
			var fns []func()
			for i := range progs {
				i := i
				clients[i].SetRunning(true)
				fns = append(fns, func() {
					defer clients[i].SetRunning(false)
					progs[i].run(clients[i], i, mode)
				})
			}
			ok = runAll(w, scenarioTimeout, fns...)
		}
		cut := w.WasCut()
		if ok && !d.diverged && !cut {
			ok = w.Quiesce(scenarioTimeout)
		}
		if cut && !d.diverged {
			ok = true
		}
		w.Close()
		if d.diverged || !ok {
			// the replay of the prefix did not meet the recorded event (or the run hung): run the same prefix again
			rec.Count("exh:divergence")
			retries++
			if retries > 3 {
				rec.Count("exh:lost-branch")
				retries = 0
				if !d.backtrack() {
					return schedules, false
				}
			}
			continue
		}
		retries = 0
		schedules++
		if !d.backtrack() {
			break
		}
		if schedules >= limit {
			rec.Count("exh:limit-reached")
			return schedules, false
		}
	}
	if d.late > 0 {
		run.Stats["exh:late-arrivals"] += d.late
	}
	return schedules, true
}

type xlayout struct {
	name   string
	splits [][]byte
}

// runExhaustive: quick = every pair of programs over ONE key on one region; thorough = every pair over two keys on one and
// two regions, and every triple over one key (one region) whose enumeration stays below the limit.  The start of a
// transaction is itself a scheduled event, so both begin orders of a pair are inside one enumeration: (p,q) and (q,p) are
// the same tree up to client names, and only multisets of programs are enumerated.
// runExhaustiveOne (prop X02, diagnostics): one combination on two regions.
func runExhaustiveOne() {
	n, complete := exhCombo("diag", [][]byte{keyB}, []xprog{xW2(false, keyA), xW2(true, keyA)}, "2pc", *exhLimit)
	run.Stats["exh:schedules"] = n
	if !complete {
		run.Stats["exh:incomplete-combos"] = 1
	}
}

func runExhaustive(thorough bool) {
	modes := []string{"2pc"}
	if lean != nil {
		modes = []string{"async", "1pc"}
	}
	total, incomplete, combos := 0, 0, 0
	do := func(name string, lay xlayout, progs []xprog, mode string, limit int) {
		if f := os.Getenv("HUB_EXH_FAMILY"); f != "" && f != name {
			return
		}
		var names []string
		for _, p := range progs {
			names = append(names, p.name)
		}
		full := fmt.Sprintf("%s %s %s [%s]", name, lay.name, mode, strings.Join(names, " | "))
		n, complete := exhCombo(full, lay.splits, progs, mode, limit)
		combos++
		total += n
		if !complete {
			incomplete++
			run.Stats["exh:incomplete:"+full] = n
		}
		run.Stats["exh:"+name+":schedules"] += n
		run.Stats["exh:"+name+":combos"]++
		if n > run.Stats["exh:"+name+":max-schedules-of-one-combo"] {
			run.Stats["exh:"+name+":max-schedules-of-one-combo"] = n
		}
	}
	one := xlayout{"1region", nil}
	two := xlayout{"2regions", [][]byte{keyB}}
	pairs := func(name string, lay xlayout, ps []xprog, mode string) {
		for i, p := range ps {
			for _, q := range ps[i:] {
				do(name, lay, []xprog{p, q}, mode, *exhLimit)
			}
		}
	}
	for mi, mode := range modes {
		a1 := alphabet(false)
		if !thorough {
			// quick: every pair over one key, one region (profile full: async commit only)
			if mi == 0 {
				pairs("pairs-1key", one, a1, mode)
			}
			continue
		}
		// thorough, A: every pair of the two-key alphabet on one region
		pairs("pairs-2keys", one, alphabet(true), mode)
		// B: on two regions (a | b): the one-key programs on key a against every two-key program (primary in the same or in
		// the other region) and the reader, and the reader against every two-key writer.  (The one-key programs on key b mirror
		// those on key a.  Two two-key writers against each other on two regions are NOT enumerated: more than 40000 schedules
		// per pair, and the optimistic writer's two parallel prewrite batches race for the client's shared lock resolver when
		// both meet locks, which is a choice inside one client that the RPC scheduler does not control.)
		if lean != nil {
			continue // profile full: family A only (async commit and 1PC)
		}
		oneKey := []xprog{xRW(false, keyA), xRW(true, keyA), xLW(keyA), xSR(true, keyA)}
		twoKey := []xprog{xW2(false, keyA), xW2(true, keyA), xW2(true, keyB), xR2()}
		for _, p := range oneKey {
			for _, q := range twoKey {
				do("pairs-2regions", two, []xprog{p, q}, mode, *exhLimit)
			}
		}
		for _, q := range twoKey {
			do("pairs-2regions", two, []xprog{xR2(), q}, mode, *exhLimit)
		}
		// C: triples over one key: {lw, sr(pess), sr(pess)} and {sr(pess)}³ — every other triple of the alphabet exceeds the
		// schedule limit of 20000 (measured: {lw,lw,lw}, {lw,lw,sr} and every triple with rw(opt) were cut at the limit)
		if mi == 0 && lean == nil {
			lw, sr := xLW(keyA), xSR(true, keyA)
			for _, t := range [][]xprog{{lw, sr, sr}, {sr, sr, sr}} {
				do("triples-1key", one, t, mode, *exhLimit)
			}
		}
	}
	run.Stats["exh:schedules"] = total
	run.Stats["exh:combos"] = combos
	run.Stats["exh:incomplete-combos"] = incomplete
}
