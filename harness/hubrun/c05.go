//go:build verif

package main

import (
	"bytes"
	"fmt"

	"github.com/tikv/client-go/v2/config"
	"github.com/tikv/client-go/v2/verifx/hub"
	"github.com/tikv/client-go/v2/verifx/vx"
)

// C05: MVCC histories with leftover locks of every kind are built by driving transactions and killing their clients at
// chosen RPCs; then one snapshot timestamp is read through Get, BatchGet, Iter and IterReverse with cold and warm snapshot
// cache, scan batch sizes 2..6, key-only on/off, both batch-get implementations, and a split between two requests.

// writer kinds: how far the transaction gets before its client dies
var c05Kinds = []string{"complete", "pending", "primary-only", "pess", "rolled-back-primary", "complete"}

func isCommit(kind, cmd string) bool { return kind == "commit" }

// c05Writer runs one writer transaction over keys and leaves it in the state named by kind.  Returns the primary key.
func c05Writer(w *hub.World, name string, keys [][]byte, kind string, gen int, r *vx.Rand) {
	c := w.NewClient(name)
	g := w.Gate()
	pess := kind == "pess" || r.Chance(30)
	switch kind {
	case "pending", "rolled-back-primary":
		g.AddFault(&hub.Fault{Kind: hub.CrashBefore, Client: c, N: 0, Match: isCommit})
	case "primary-only":
		g.AddFault(&hub.Fault{Kind: hub.CrashAfter, Client: c, N: 0, Match: isCommit})
	}
	body := func() {
		c.Begin(pess, pick(r, modes))
		if pess {
			if c.Lock(keys, "-") != "ok" {
				c.Rollback()
				return
			}
		}
		if kind == "pess" {
			w.Crash(c)
			return
		}
		for i, k := range keys {
			if r.Chance(20) {
				c.Delete(k)
			} else {
				c.Set(k, []byte{byte(0x50 + gen), byte(i)})
			}
		}
		c.Commit()
	}
	done := make(chan struct{})
	go func() { defer func() { recover(); close(done) }(); body() }()
	waitUntil(scenarioTimeout, func() bool {
		select {
		case <-done:
			return true
		default:
			return c.Crashed()
		}
	})
	if !c.Crashed() {
		w.WaitDrained(scenarioTimeout)
	}
	rec.Count("c05:writer:" + kind)
}

type c05Read struct {
	path   string // get bget iter riter
	lo, hi []byte
	limit  int
	warm   bool
	async  bool
}

func c05Scenario(r *vx.Rand) {
	nKeys := 3 + r.Intn(3)
	keys := keyPool[:nKeys]
	w := hub.NewWorld(rec, hub.Options{Full: lean, Seed: r.U64(), Splits: pick(r, layoutsOf(1+r.Intn(3)))})
	defer w.Close()
	for _, k := range keys {
		w.TrackKey(k)
	}
	if !seed(w, subset(r, keys, 60)) {
		return
	}
	// partition the keys among 1–3 writers (sequential, disjoint keys: nobody is blocked by an earlier leftover)
	nw := 1 + r.Intn(3)
	parts := make([][][]byte, nw)
	for _, k := range keys {
		i := r.Intn(nw)
		parts[i] = append(parts[i], k)
	}
	var pendingPrimaries [][]byte
	for i, p := range parts {
		if len(p) == 0 {
			continue
		}
		kind := pick(r, c05Kinds)
		c05Writer(w, fmt.Sprintf("w%d", i+1), p, kind, i, r)
		if kind == "rolled-back-primary" {
			pendingPrimaries = append(pendingPrimaries, p[0])
		}
		if w.Hung() {
			return
		}
	}
	rd := w.NewClient("r")
	snapTS := rd.CurrentTS()
	w.AdvanceClock(60000)
	// a transaction that starts after the snapshot: committed (newer version) or left pending (lock from a later transaction)
	if r.Chance(60) {
		kind := pick(r, []string{"complete", "pending", "pess", "primary-only"})
		c05Writer(w, "wl", subset(r, keys, 40), kind, 9, r)
	}
	// a resolver that only meets the primary of a dead transaction: rolled back primary, secondaries still locked
	if len(pendingPrimaries) > 0 {
		h := w.NewClient("h")
		if !runAll(w, scenarioTimeout, func() {
			h.Begin(false, "2pc")
			for _, k := range pendingPrimaries {
				h.Get(k)
			}
			h.Rollback()
		}) {
			return
		}
		w.WaitDrained(scenarioTimeout)
	}
	// the reads
	var reads []c05Read
	nReads := 6 + r.Intn(6)
	for i := 0; i < nReads; i++ {
		rd := c05Read{path: pick(r, []string{"get", "bget", "iter", "riter", "iter", "riter"}), warm: r.Chance(40), async: r.Bool()}
		a, b := pick(r, keyPool), pick(r, keyPool)
		if bytes.Compare(a, b) > 0 {
			a, b = b, a
		}
		rd.lo, rd.hi = a, b
		switch r.Intn(5) {
		case 0:
			rd.lo, rd.hi = nil, nil
		case 1:
			rd.hi = nil
		case 2:
			rd.lo = nil
		}
		if r.Chance(25) {
			rd.limit = 1 + r.Intn(4)
		}
		reads = append(reads, rd)
	}
	if r.Chance(50) {
		// a split between two requests of the reader
		f := hub.SplitFault(pick(r, keyPool[1:]))
		f.Client, f.N = rd, 1+r.Intn(8)
		w.Gate().AddFault(f)
		rec.Count("c05:split-during-read")
	}
	if r.Chance(35) {
		// a merge of two regions just before a request of the reader: the cached region is smaller than the real one
		f := hub.MergeFault(pick(r, keyPool))
		f.Client, f.N = rd, r.Intn(8)
		if r.Bool() {
			f.Match = isScan
		}
		w.Gate().AddFault(f)
		rec.Count("c05:merge-during-read")
	}
	var snap *hub.Snap
	open := func(warm bool) *hub.Snap {
		if warm && snap != nil {
			return snap
		}
		bs := 0
		if r.Chance(80) {
			bs = 2 + r.Intn(5)
		}
		snap = rd.Snapshot(snapTS, bs, r.Chance(25))
		return snap
	}
	ok := runAll(w, scenarioTimeout, func() {
		for _, x := range reads {
			s := open(x.warm)
			switch x.path {
			case "get":
				for _, k := range keys {
					s.Get(k)
				}
			case "bget":
				restore := config.UpdateGlobal(func(c *config.Config) { c.EnableAsyncBatchGet = x.async })
				s.BGet(keys, "async="+map[bool]string{false: "0", true: "1"}[x.async])
				restore()
			case "iter":
				s.Iter(x.lo, x.hi, x.limit)
			case "riter":
				s.RIter(x.lo, x.hi, x.limit)
			}
			rec.Count("c05:path:" + x.path)
		}
	})
	if ok {
		w.Quiesce(scenarioTimeout)
	}
}

func isScan(kind, cmd string) bool { return kind == "scan" || kind == "rscan" }

// c05Generation commits one transaction that sets / deletes / leaves each key (sequential, no faults).
func c05Generation(w *hub.World, name string, keys [][]byte, gen int, r *vx.Rand) bool {
	c := w.NewClient(name)
	ok := runAll(w, scenarioTimeout, func() {
		c.Begin(r.Chance(30), pick(r, modes))
		n := 0
		for i, k := range keys {
			switch x := r.Intn(100); {
			case x < 50:
				c.Set(k, []byte{byte(0x70 + gen), byte(i)})
				n++
			case x < 75:
				c.Delete(k)
				n++
			}
		}
		if n == 0 {
			c.Set(pick(r, keys), []byte{byte(0x70 + gen), 0xff})
		}
		c.Commit()
	})
	return ok && w.WaitDrained(scenarioTimeout)
}

// c05ReadOnce reads through one access path on the snapshot handle.
func c05ReadOnce(s *hub.Snap, path string, keys, pool [][]byte, r *vx.Rand) {
	switch path {
	case "get":
		for _, k := range subsetNonEmpty(r, keys, 60) {
			s.Get(k)
		}
	case "bget":
		async := r.Bool()
		restore := config.UpdateGlobal(func(c *config.Config) { c.EnableAsyncBatchGet = async })
		s.BGet(subsetNonEmpty(r, keys, 70), "async="+map[bool]string{false: "0", true: "1"}[async])
		restore()
	default:
		a, b := pick(r, pool), pick(r, pool)
		if bytes.Compare(a, b) > 0 {
			a, b = b, a
		}
		switch r.Intn(5) {
		case 0, 1:
			a, b = nil, nil
		case 2:
			b = nil
		case 3:
			a = nil
		}
		limit := 0
		if r.Chance(20) {
			limit = 1 + r.Intn(4)
		}
		if path == "iter" {
			s.Iter(a, b, limit)
		} else {
			s.RIter(a, b, limit)
		}
	}
	rec.Count("c05:path:" + path)
}

func subsetNonEmpty(r *vx.Rand, keys [][]byte, p int) [][]byte {
	out := subset(r, keys, p)
	if len(out) == 0 {
		out = [][]byte{pick(r, keys)}
	}
	return out
}

var c05Paths = []string{"get", "bget", "iter", "riter"}

// c05Repin: a long-lived KVSnapshot object whose timestamp is moved with SetSnapshotTS — to an earlier, a later or the same
// timestamp — between reads through all four access paths.  The history has one committed generation per recorded
// timestamp, so keys are created, overwritten and deleted between any two of them; some histories carry the locks of a dead
// writer.  Every snap* event carries the timestamp in force; the judge compares with the model store at that timestamp.
func c05Repin(r *vx.Rand) {
	nKeys := 3 + r.Intn(3)
	keys := keyPool[:nKeys]
	w := hub.NewWorld(rec, hub.Options{Full: lean, Seed: r.U64(), Splits: pick(r, layoutsOf(1+r.Intn(3)))})
	defer w.Close()
	for _, k := range keys {
		w.TrackKey(k)
	}
	rd := w.NewClient("r")
	var tss []uint64
	gens := 2 + r.Intn(3)
	deadAt := -1
	if r.Chance(30) {
		deadAt = r.Intn(gens)
	}
	for g := 0; g < gens; g++ {
		if !c05Generation(w, fmt.Sprintf("g%d", g), keys, g, r) {
			return
		}
		if g == deadAt {
			c05Writer(w, "wd", subsetNonEmpty(r, keys, 40), pick(r, []string{"pending", "primary-only", "pess"}), 8, r)
			if w.Hung() {
				return
			}
			w.AdvanceClock(60000)
		}
		tss = append(tss, rd.CurrentTS())
	}
	bs := 0
	if r.Chance(70) {
		bs = 2 + r.Intn(5)
	}
	snap := rd.Snapshot(pick(r, tss), bs, r.Chance(20))
	nOps := 8 + r.Intn(8)
	ok := runAll(w, scenarioTimeout, func() {
		for i := 0; i < nOps; i++ {
			if i > 0 && r.Chance(35) {
				old, ts := snap.TS(), pick(r, tss)
				snap.SetTS(ts)
				switch {
				case ts < old:
					rec.Count("c05:repin:back")
				case ts > old:
					rec.Count("c05:repin:forward")
				default:
					rec.Count("c05:repin:same")
				}
				continue
			}
			if r.Chance(10) {
				// a fresh object at the same timestamp (cold cache) for comparison
				snap = rd.Snapshot(snap.TS(), bs, r.Chance(20))
			}
			c05ReadOnce(snap, pick(r, c05Paths), keys, keyPool, r)
		}
	})
	if ok {
		w.Quiesce(scenarioTimeout)
	}
}

// the wider key pool of the merge family: eight keys, up to four regions
var c05WidePool = [][]byte{{0x61}, {0x62}, {0x63}, {0x64}, {0x65}, {0x66}, {0x67}, {0x68}}

// keys that are proper prefixes of their successors (k, k\x00, k\x00\x00, ka, kaa, kab, kb, l): the key right after k is
// k\x00, not the next key of the same length — a scan cursor or a region boundary computed the wrong way skips or repeats them
var c05PrefixPool = [][]byte{{0x6b}, {0x6b, 0x00}, {0x6b, 0x00, 0x00}, {0x6b, 0x61}, {0x6b, 0x61, 0x61}, {0x6b, 0x61, 0x62}, {0x6b, 0x62}, {0x6c}}

// c05Merge: regions are MERGED under a reader: between two calls (stale cache entries for Get / BatchGet / the first scan
// request) and just before a scan request (the first attempt is refused with EpochNotMatch / RegionNotFound and the retry
// inside the same batch fetch locates the larger region), with small scan batches so that fewer pairs than the batch size
// are left before the old boundary; both directions; a split may follow the merge.
func c05Merge(r *vx.Rand) {
	pool := c05WidePool
	if r.Bool() {
		pool = c05PrefixPool
		rec.Count("c05:merge:prefix-keys")
	}
	nKeys := 4 + r.Intn(5)
	keys := pool[:nKeys]
	// 1–4 regions: boundaries drawn from the pool (ascending)
	var splits [][]byte
	for _, k := range pool[1:] {
		if len(splits) < 3 && r.Chance(35) {
			splits = append(splits, k)
		}
	}
	if len(splits) == 0 && r.Chance(70) {
		splits = [][]byte{pick(r, pool[1:nKeys])}
	}
	stores := 1
	if r.Chance(20) {
		stores = 3
	}
	w := hub.NewWorld(rec, hub.Options{Full: lean, Seed: r.U64(), Splits: splits, Stores: stores})
	defer w.Close()
	for _, k := range keys {
		w.TrackKey(k)
	}
	if !seed(w, subsetNonEmpty(r, keys, 85)) {
		return
	}
	if r.Chance(40) && !c05Generation(w, "g1", keys, 1, r) {
		return
	}
	rd := w.NewClient("r")
	snapTS := rd.CurrentTS()
	if r.Chance(30) {
		// a later generation: newer versions the snapshot must not see
		if !c05Generation(w, "g2", keys, 2, r) {
			return
		}
	}
	bs := 2 + r.Intn(5)
	snap := rd.Snapshot(snapTS, bs, r.Chance(15))
	g := w.Gate()
	nOps := 4 + r.Intn(6)
	ok := runAll(w, scenarioTimeout, func() {
		if r.Chance(60) {
			// warm the region cache (and, for get / bget, the snapshot cache) with the layout before the merge
			c05ReadOnce(snap, pick(r, c05Paths), keys, pool, r)
		}
		merges := r.Intn(3)
		for i := 0; i < nOps; i++ {
			if merges > 0 && r.Chance(50) {
				merges--
				k := pick(r, pool)
				switch r.Intn(3) {
				case 0:
					// between two calls
					if w.Merge(k) {
						rec.Count("c05:merge:between-calls")
					}
				default:
					// just before the n-th scan request from here on (0 = the first request of the next scan)
					f := hub.MergeFault(k)
					f.Client, f.N, f.Match = rd, r.Intn(3), isScan
					g.AddFault(f)
					rec.Count("c05:merge:before-scan-rpc")
				}
				if r.Chance(20) {
					f := hub.SplitFault(pick(r, pool[1:]))
					f.Client, f.N = rd, 1+r.Intn(4)
					g.AddFault(f)
				}
			}
			if r.Chance(15) {
				snap = rd.Snapshot(snapTS, 2+r.Intn(5), r.Chance(15))
			}
			c05ReadOnce(snap, pick(r, []string{"get", "bget", "iter", "riter", "iter", "riter"}), keys, pool, r)
		}
	})
	if ok {
		w.Quiesce(scenarioTimeout)
	}
}

// c05CommittedPrimary: a writer W whose PRIMARY is committed below the snapshot ts died before committing its secondaries,
// which lie in several regions (a second writer may be complete or dead earlier).  One long-lived snapshot object first
// meets ONE of W's secondary locks (point get, single-key batch get, or a scan limited to one pair: the resolver learns that
// W is committed and resolves only what it met), then reads the other keys — batch get over all regions through both
// batch-get implementations, forward / reverse / key-only scans with small batches, point gets — and every read must show
// W's values.
func c05CommittedPrimary(r *vx.Rand) {
	pool := keyPool
	layout := pick(r, layoutsOf(3))
	if r.Chance(25) {
		layout = pick(r, layoutsOf(2))
	}
	if r.Chance(30) {
		pool = c05WidePool
		layout = [][]byte{{0x63}, {0x65}, {0x67}}
	}
	w := hub.NewWorld(rec, hub.Options{Full: lean, Seed: r.U64(), Splits: layout})
	defer w.Close()
	for _, k := range pool {
		w.TrackKey(k)
	}
	if !seed(w, subset(r, pool, 60)) {
		return
	}
	// W's keys: at least three, usually most of the pool
	wk := subset(r, pool, 75)
	for len(wk) < 3 {
		wk = subset(r, pool, 75)
	}
	c05Writer(w, "w1", wk, "primary-only", 1, r)
	if w.Hung() {
		return
	}
	if r.Chance(30) {
		var rest [][]byte
		for _, k := range pool {
			in := false
			for _, x := range wk {
				in = in || bytes.Equal(x, k)
			}
			if !in {
				rest = append(rest, k)
			}
		}
		if len(rest) > 0 {
			c05Writer(w, "w2", rest, pick(r, []string{"complete", "primary-only", "pending"}), 2, r)
			if w.Hung() {
				return
			}
		}
	}
	rd := w.NewClient("r")
	snapTS := rd.CurrentTS()
	if r.Chance(40) {
		w.AdvanceClock(60000)
	}
	snap := rd.Snapshot(snapTS, 2+r.Intn(3), r.Chance(20))
	if r.Chance(50) {
		// the store reports the locks a batch get meets at the response level
		w.Gate().AddFault(&hub.Fault{Kind: hub.Topo, Client: rd, Label: "lift", Repeat: true, LiftLockErr: true,
			Match: func(kind, cmd string) bool { return kind == "bget" }})
		rec.Count("c05:lifted-lock-errors")
	}
	first := pick(r, wk)
	ok := runAll(w, scenarioTimeout, func() {
		// the first contact: one key (sometimes none: the batch get below meets the locks first)
		switch r.Intn(4) {
		case 3:
		case 0:
			snap.Get(first)
		case 1:
			snap.BGet([][]byte{first}, "async=0")
		default:
			snap.Iter(first, nil, 1)
		}
		for i := 2 + r.Intn(4); i > 0; i-- {
			switch r.Intn(6) {
			case 0, 1:
				async := r.Chance(70)
				restore := config.UpdateGlobal(func(c *config.Config) { c.EnableAsyncBatchGet = async })
				snap.BGet(pool, "async="+map[bool]string{false: "0", true: "1"}[async])
				restore()
				rec.Count("c05:path:bget")
			case 2:
				snap.Iter(nil, nil, 0)
				rec.Count("c05:path:iter")
			case 3:
				snap.RIter(nil, nil, 0)
				rec.Count("c05:path:riter")
			case 4:
				a, b := pick(r, pool), pick(r, pool)
				if bytes.Compare(a, b) > 0 {
					a, b = b, a
				}
				if r.Bool() {
					snap.Iter(a, nil, r.Intn(4))
				} else {
					snap.RIter(nil, b, r.Intn(4))
				}
			default:
				for _, k := range pool {
					if r.Chance(70) {
						snap.Get(k)
					}
				}
				rec.Count("c05:path:get")
			}
		}
	})
	if ok {
		w.Quiesce(scenarioTimeout)
	}
}

// c05BigBatchGet: ONE BatchGet of more keys than fit one request (batchGetSize = 5120), all in one region or with more than
// that many in one of two regions; compared with Iter at the same timestamp.  A few large transactions write the keys.
func c05BigBatchGet(twoRegions bool, r *vx.Rand) {
	n := 5200 + r.Intn(100)
	keys := make([][]byte, n)
	for i := range keys {
		keys[i] = []byte{0x67, byte(i >> 8), byte(i)}
	}
	var splits [][]byte
	if twoRegions {
		splits = [][]byte{keys[20+r.Intn(40)]}
	}
	w := hub.NewWorld(rec, hub.Options{Full: lean, Seed: r.U64(), Splits: splits, MaxRPCs: 4000})
	defer w.Close()
	wr := w.NewClient("s")
	chunks := 2 + r.Intn(2)
	ok := runAll(w, 3*scenarioTimeout, func() {
		for c := 0; c < chunks; c++ {
			wr.Begin(false, "2pc")
			for i := c; i < n; i += chunks {
				if i%97 != 5 { // a few keys stay without value
					wr.Set(keys[i], []byte{0x01, byte(i)})
				}
			}
			wr.Commit()
		}
	})
	if !ok || !w.WaitDrained(scenarioTimeout) {
		return
	}
	rd := w.NewClient("r")
	snap := rd.Snapshot(rd.CurrentTS(), 0, false)
	async := r.Bool()
	ok = runAll(w, 3*scenarioTimeout, func() {
		restore := config.UpdateGlobal(func(c *config.Config) { c.EnableAsyncBatchGet = async })
		snap.BGet(keys, "async="+map[bool]string{false: "0", true: "1"}[async])
		restore()
		snap.Iter(nil, nil, 0)
	})
	rec.Count("c05:big-batch-get")
	if ok {
		w.Quiesce(scenarioTimeout)
	}
}

func runC05() {
	n := 2000
	if run.Thorough() {
		n = 26000
	}
	n = scaled(n)
	c05BigBatchGet(false, rnd.Fork())
	c05BigBatchGet(true, rnd.Fork())
	for i := 0; i < n; i++ {
		switch {
		case i%5 == 3:
			c05Repin(rnd.Fork())
			rec.Count("c05:family:repin")
		case i%10 == 1:
			c05CommittedPrimary(rnd.Fork())
			rec.Count("c05:family:committed-primary")
		case i%5 == 4:
			c05Merge(rnd.Fork())
			rec.Count("c05:family:merge")
		default:
			c05Scenario(rnd.Fork())
			rec.Count("c05:family:leftover-locks")
		}
	}
}
