//go:build verif

package main

import (
	"bytes"
	"fmt"

	"github.com/tikv/client-go/v2/config"
	"github.com/tikv/client-go/v2/verifx/hub"
	"github.com/tikv/client-go/v2/verifx/vx"
)

// C05: MVCC histories with leftover locks of every kind are built by driving transactions and killing their clients at
// chosen RPCs; then one snapshot timestamp is read through Get, BatchGet, Iter and IterReverse with cold and warm snapshot
// cache, scan batch sizes 2..6, key-only on/off, both batch-get implementations, and a split between two requests.

// writer kinds: how far the transaction gets before its client dies
var c05Kinds = []string{"complete", "pending", "primary-only", "pess", "rolled-back-primary", "complete"}

func isCommit(kind, cmd string) bool { return kind == "commit" }

// c05Writer runs one writer transaction over keys and leaves it in the state named by kind.  Returns the primary key.
func c05Writer(w *hub.World, name string, keys [][]byte, kind string, gen int, r *vx.Rand) {
	c := w.NewClient(name)
	g := w.Gate()
	pess := kind == "pess" || r.Chance(30)
	switch kind {
	case "pending", "rolled-back-primary":
		g.AddFault(&hub.Fault{Kind: hub.CrashBefore, Client: c, N: 0, Match: isCommit})
	case "primary-only":
		g.AddFault(&hub.Fault{Kind: hub.CrashAfter, Client: c, N: 0, Match: isCommit})
	}
	body := func() {
		c.Begin(pess, pick(r, modes))
		if pess {
			if c.Lock(keys, "-") != "ok" {
				c.Rollback()
				return
			}
		}
		if kind == "pess" {
			w.Crash(c)
			return
		}
		for i, k := range keys {
			if r.Chance(20) {
				c.Delete(k)
			} else {
				c.Set(k, []byte{byte(0x50 + gen), byte(i)})
			}
		}
		c.Commit()
	}
	done := make(chan struct{})
	go func() { defer func() { recover(); close(done) }(); body() }()
	waitUntil(scenarioTimeout, func() bool {
		select {
		case <-done:
			return true
		default:
			return c.Crashed()
		}
	})
	if !c.Crashed() {
		w.WaitDrained(scenarioTimeout)
	}
	rec.Count("c05:writer:" + kind)
}

type c05Read struct {
	path   string // get bget iter riter
	lo, hi []byte
	limit  int
	warm   bool
	async  bool
}

func c05Scenario(r *vx.Rand) {
	nKeys := 3 + r.Intn(3)
	keys := keyPool[:nKeys]
	w := hub.NewWorld(rec, hub.Options{Full: lean, Seed: r.U64(), Splits: pick(r, layoutsOf(1+r.Intn(3)))})
	defer w.Close()
	for _, k := range keys {
		w.TrackKey(k)
	}
	if !seed(w, subset(r, keys, 60)) {
		return
	}
	// partition the keys among 1–3 writers (sequential, disjoint keys: nobody is blocked by an earlier leftover)
	nw := 1 + r.Intn(3)
	parts := make([][][]byte, nw)
	for _, k := range keys {
		i := r.Intn(nw)
		parts[i] = append(parts[i], k)
	}
	var pendingPrimaries [][]byte
	for i, p := range parts {
		if len(p) == 0 {
			continue
		}
		kind := pick(r, c05Kinds)
		c05Writer(w, fmt.Sprintf("w%d", i+1), p, kind, i, r)
		if kind == "rolled-back-primary" {
			pendingPrimaries = append(pendingPrimaries, p[0])
		}
		if w.Hung() {
			return
		}
	}
	rd := w.NewClient("r")
	snapTS := rd.CurrentTS()
	w.AdvanceClock(60000)
	// a transaction that starts after the snapshot: committed (newer version) or left pending (lock from a later transaction)
	if r.Chance(60) {
		kind := pick(r, []string{"complete", "pending", "pess", "primary-only"})
		c05Writer(w, "wl", subset(r, keys, 40), kind, 9, r)
	}
	// a resolver that only meets the primary of a dead transaction: rolled back primary, secondaries still locked
	if len(pendingPrimaries) > 0 {
		h := w.NewClient("h")
		if !runAll(w, scenarioTimeout, func() {
			h.Begin(false, "2pc")
			for _, k := range pendingPrimaries {
				h.Get(k)
			}
			h.Rollback()
		}) {
			return
		}
		w.WaitDrained(scenarioTimeout)
	}
	// the reads
	var reads []c05Read
	nReads := 6 + r.Intn(6)
	for i := 0; i < nReads; i++ {
		rd := c05Read{path: pick(r, []string{"get", "bget", "iter", "riter", "iter", "riter"}), warm: r.Chance(40), async: r.Bool()}
		a, b := pick(r, keyPool), pick(r, keyPool)
		if bytes.Compare(a, b) > 0 {
			a, b = b, a
		}
		rd.lo, rd.hi = a, b
		switch r.Intn(5) {
		case 0:
			rd.lo, rd.hi = nil, nil
		case 1:
			rd.hi = nil
		case 2:
			rd.lo = nil
		}
		if r.Chance(25) {
			rd.limit = 1 + r.Intn(4)
		}
		reads = append(reads, rd)
	}
	if r.Chance(50) {
		// a split between two requests of the reader
		f := hub.SplitFault(pick(r, keyPool[1:]))
		f.Client, f.N = rd, 1+r.Intn(8)
		w.Gate().AddFault(f)
		rec.Count("c05:split-during-read")
	}
	var snap *hub.Snap
	open := func(warm bool) *hub.Snap {
		if warm && snap != nil {
			return snap
		}
		bs := 0
		if r.Chance(80) {
			bs = 2 + r.Intn(5)
		}
		snap = rd.Snapshot(snapTS, bs, r.Chance(25))
		return snap
	}
	ok := runAll(w, scenarioTimeout, func() {
		for _, x := range reads {
			s := open(x.warm)
			switch x.path {
			case "get":
				for _, k := range keys {
					s.Get(k)
				}
			case "bget":
				restore := config.UpdateGlobal(func(c *config.Config) { c.EnableAsyncBatchGet = x.async })
				s.BGet(keys, "async="+map[bool]string{false: "0", true: "1"}[x.async])
				restore()
			case "iter":
				s.Iter(x.lo, x.hi, x.limit)
			case "riter":
				s.RIter(x.lo, x.hi, x.limit)
			}
			rec.Count("c05:path:" + x.path)
		}
	})
	if ok {
		w.Quiesce(scenarioTimeout)
	}
}

func runC05() {
	n := 2000
	if run.Thorough() {
		n = 26000
	}
	n = scaled(n)
	for i := 0; i < n; i++ {
		c05Scenario(rnd.Fork())
	}
}
