//go:build verif

package main

import (
	"fmt"
	"os"
	"strconv"

	"github.com/tikv/client-go/v2/verifx/vx"
)

var allModes = []string{"leader", "follower", "mixed", "learner", "prefer", "stale"}
var readCmds = []string{"get", "batchget", "scan"}
var writeCmds = []string{"prewrite", "commit", "plock"}

// reduced alphabet of the exhaustive part: one representative per handling branch of onSendFail / onRegionError
var reduced = []string{"ok", "rpcerr", "down", "deadline", "nl", "nl2", "nlnext", "epoch", "rnf", "busy", "busyw", "busydl", "stale", "dnr", "maxts", "unk", "dlmsg", "flashback"}

// smaller alphabet used for the longest exhaustive length
var core = []string{"ok", "rpcerr", "nl", "nl2", "nlnext", "busy", "busydl", "stale", "dnr", "deadline"}

var budgets = []int{1, 40, 600, 2000, 40000}

type gen struct {
	run  *vx.Run
	exec func(string)
	n    int
}

func (g *gen) emit(c caseCfg, script []string) {
	g.n++
	g.run.Comment(fmt.Sprintf("case %d", g.n))
	g.exec("reset")
	g.exec(c.line())
	// the scripted stores keep returning the LAST script element forever (an empty script answers ok)
	tail := "ok"
	if len(script) > 0 {
		tail = script[len(script)-1]
		script = script[:len(script)-1]
	}
	for _, f := range script {
		g.exec("f " + f)
	}
	g.exec("go " + tail)
}

func enumScripts(alpha []string, n int, f func([]string)) {
	cur := make([]string, n)
	var rec func(i int)
	rec = func(i int) {
		if i == n {
			f(cur)
			return
		}
		for _, a := range alpha {
			cur[i] = a
			rec(i + 1)
		}
	}
	rec(0)
}

func randCfg(r *vx.Rand) caseCfg {
	c := defaultCfg()
	if r.Chance(65) {
		c.cmd = readCmds[r.Intn(len(readCmds))]
		if r.Chance(60) {
			c.cmd = "get"
		}
	} else {
		c.cmd = writeCmds[r.Intn(len(writeCmds))]
		if r.Chance(60) {
			c.cmd = "prewrite"
		}
	}
	c.mode = allModes[r.Intn(len(allModes))]
	c.budget = budgets[r.Intn(len(budgets))]
	c.fwd = r.Chance(25)
	if r.Chance(40) {
		c.label = 1 + r.Intn(3)
	}
	lv := []byte("rrr")
	sl := []byte("000")
	for i := 0; i < 3; i++ {
		if r.Chance(15) {
			lv[i] = "uk"[r.Intn(2)]
		}
		if r.Chance(20) {
			sl[i] = '1'
		}
	}
	c.live, c.slow = string(lv), string(sl)
	c.validate = r.Chance(50)
	c.ts = "valid"
	if r.Chance(15) {
		c.ts = []string{"future", "maxint", "max"}[r.Intn(3)]
	}
	c.seed = r.U64() % 1000
	c.learner = c.mode == "learner" || r.Chance(15)
	c.short = r.Chance(40)
	if r.Chance(20) {
		c.busy = 50
	}
	if r.Chance(50) {
		c.wflag = 1
	}
	c.async = r.Chance(15)
	return c
}

func randScript(r *vx.Rand, maxLen int) []string {
	n := r.Intn(maxLen + 1)
	s := make([]string, n)
	// scripts are biased: a "theme" fault repeated with others sprinkled in reaches the deep retry paths
	theme := faults[r.Intn(len(faults))]
	for i := range s {
		switch {
		case r.Chance(35):
			s[i] = theme
		case r.Chance(10):
			s[i] = "ok"
		default:
			s[i] = faults[1+r.Intn(len(faults)-1)]
		}
	}
	return s
}

// leaderRetry: answers after which the sender tries the same (leader) replica again, so that its attempts get exhausted
var leaderRetry = []string{"stale", "maxts", "busy", "busydl", "unk", "dlmsg", "diskfull", "rpcerr", "epochold", "notinit", "rinr", "merging", "grpccancel"}
var hintFaults = []string{"nl1", "nl2", "nl3", "nlnext"}

// deepScript exhausts a replica and then lets the stores send leader hints (the onUpdateLeader refill path)
func deepScript(r *vx.Rand) []string {
	var s []string
	x := leaderRetry[r.Intn(len(leaderRetry))]
	for i, k := 0, 8+r.Intn(5); i < k; i++ {
		s = append(s, x)
	}
	for i, k := 0, 1+r.Intn(6); i < k; i++ {
		switch {
		case r.Chance(60):
			s = append(s, hintFaults[r.Intn(len(hintFaults))])
		case r.Chance(50):
			s = append(s, x)
		default:
			s = append(s, faults[1+r.Intn(len(faults)-1)])
		}
	}
	// forever answer: mostly not a hint, so that the refills of the finite part are what is exercised
	if r.Chance(85) {
		s = append(s, []string{"stale", "ok", "epoch", "rpcerr", "busy", "nl", "unk", "maxts"}[r.Intn(8)])
	} else {
		s = append(s, hintFaults[r.Intn(len(hintFaults))])
	}
	return s
}

func generate(run *vx.Run, exec func(string)) {
	g := &gen{run: run, exec: exec}
	// vx.NewRand(k) and vx.NewRand(k+1) are the same splitmix stream shifted by one draw; Fork() re-keys the generator with a
	// scrambled output so that neighbouring seeds give unrelated case lists
	r := vx.NewRand(run.Seed).Fork()
	// exhaustive lengths: reduced alphabet x all (mode, cmd); core alphabet x all; core alphabet x rotating (mode, cmd)
	redLen, coreAll, coreRot, rot, nRand, nDeep := 2, 3, 4, 2, 5000, 1500
	if run.Thorough() {
		redLen, coreAll, coreRot, rot, nRand, nDeep = 3, 4, 5, 1, 30000, 8000
	}
	if v := os.Getenv("C10_NRAND"); v != "" {
		nRand, _ = strconv.Atoi(v)
	}
	type combo struct{ mode, cmd string }
	var combos []combo
	for _, mode := range allModes {
		for _, cmd := range []string{"get", "prewrite"} {
			combos = append(combos, combo{mode, cmd})
		}
	}
	one := func(s []string, cb combo) {
		c := defaultCfg()
		c.cmd, c.mode = cb.cmd, cb.mode
		c.learner = cb.mode == "learner"
		c.wflag = 1
		c.seed = uint64(g.n % 7)
		c.budget = budgets[(g.n/3)%len(budgets)]
		c.short = (g.n/5)%2 == 1
		c.async = (g.n/11)%4 == 0 // every fourth case goes through SendReqAsync
		g.emit(c, s)
	}
	// 0. read-ts validation family: every command type × ts class × validation on/off (one op per case)
	generateValidate(func(op string) {
		g.n++
		run.Comment(fmt.Sprintf("case %d", g.n))
		exec(op)
	})
	// 1. exhaustive scripts (the last element is the forever answer)
	k := 0
	for L := 0; L <= coreRot; L++ {
		alpha := reduced
		if L > redLen {
			alpha = core
		}
		enumScripts(alpha, L, func(s []string) {
			if L <= coreAll {
				for _, cb := range combos {
					one(s, cb)
				}
				return
			}
			for i := 0; i < rot; i++ {
				one(s, combos[k%len(combos)])
				k += 5 // 5 is coprime to 12: every (mode, cmd) comes round
			}
		})
	}
	// 1b. every answer of the FULL alphabet as the forever answer, for every (mode, cmd) and both time-out classes;
	// every ordered pair (first answer, forever answer) for rotating (mode, cmd)
	for _, f := range faults {
		for _, cb := range combos {
			for _, short := range []bool{false, true} {
				c := defaultCfg()
				c.cmd, c.mode, c.short = cb.cmd, cb.mode, short
				c.learner = cb.mode == "learner"
				c.wflag = 1
				c.budget = 40000
				g.emit(c, []string{f})
			}
		}
	}
	for _, f1 := range faults {
		for _, f2 := range faults {
			for i := 0; i < rot+1; i++ {
				one([]string{f1, f2}, combos[k%len(combos)])
				k += 5
			}
		}
	}
	// 2. random scripts up to length 30 over the full alphabet with random configurations
	for i := 0; i < nRand; i++ {
		g.emit(randCfg(r), randScript(r, 30))
	}
	// 3. replica exhaustion followed by leader hints
	for i := 0; i < nDeep; i++ {
		c := randCfg(r)
		if r.Chance(70) {
			c.live, c.ts, c.fwd = "rrr", "valid", false
			c.budget = 40000
			if r.Chance(70) {
				c.mode = "leader" // the leader strategy is the one that spends maxReplicaAttempt attempts on one replica
			}
		}
		g.emit(c, deepScript(r))
	}
}
