//go:build verif

// C10 validation family: for EVERY named tikvrpc.CmdType × read-timestamp class × validation on/off, hand the request to
// the real RegionRequestSender with a recording client and the real pdOracle as validator:
//
//	valcmds <value:built …>                                    the command enumeration as the binary sees it
//	chk-validate <value> <name> <pkg> <fields|-> <ts> <validate> <stale>
//	    → refused | passed | FAIL sent-with-invalid-ts …        (refused: the validator's error came back, nothing was sent)
//
// "Is a timestamped read" is derived from the SHAPE of the request struct (reflection), not from validateReadTS:
// a top-level uint64 field `Version` or `MaxVersion` without a transaction start ts next to it, or `StartTs` of a
// coprocessor request.
package main

import (
	"context"
	"fmt"
	"math"
	"reflect"
	"sort"
	"strconv"
	"strings"
	"time"

	"github.com/pingcap/kvproto/pkg/coprocessor"
	"github.com/pingcap/kvproto/pkg/debugpb"
	"github.com/pingcap/kvproto/pkg/kvrpcpb"
	"github.com/pingcap/kvproto/pkg/mpp"
	"github.com/pingcap/kvproto/pkg/tikvpb"
	"github.com/tikv/client-go/v2/config/retry"
	"github.com/tikv/client-go/v2/internal/apicodec"
	"github.com/tikv/client-go/v2/internal/client"
	"github.com/tikv/client-go/v2/internal/locate"
	"github.com/tikv/client-go/v2/internal/mockstore/mocktikv"
	"github.com/tikv/client-go/v2/kv"
	"github.com/tikv/client-go/v2/oracle"
	"github.com/tikv/client-go/v2/oracle/oracles"
	"github.com/tikv/client-go/v2/tikvrpc"
	"github.com/tikv/client-go/v2/util/async"
)

// reqBuilders: a fresh request body for every command type the sender can be handed
var reqBuilders = map[tikvrpc.CmdType]func() interface{}{
	tikvrpc.CmdGet:                       func() interface{} { return &kvrpcpb.GetRequest{Key: []byte("key")} },
	tikvrpc.CmdScan:                      func() interface{} { return &kvrpcpb.ScanRequest{StartKey: []byte("key"), Limit: 1} },
	tikvrpc.CmdPrewrite:                  func() interface{} { return &kvrpcpb.PrewriteRequest{PrimaryLock: []byte("key")} },
	tikvrpc.CmdCommit:                    func() interface{} { return &kvrpcpb.CommitRequest{Keys: [][]byte{[]byte("key")}} },
	tikvrpc.CmdCleanup:                   func() interface{} { return &kvrpcpb.CleanupRequest{Key: []byte("key")} },
	tikvrpc.CmdBatchGet:                  func() interface{} { return &kvrpcpb.BatchGetRequest{Keys: [][]byte{[]byte("key")}} },
	tikvrpc.CmdBatchRollback:             func() interface{} { return &kvrpcpb.BatchRollbackRequest{Keys: [][]byte{[]byte("key")}} },
	tikvrpc.CmdScanLock:                  func() interface{} { return &kvrpcpb.ScanLockRequest{StartKey: []byte("key"), Limit: 1} },
	tikvrpc.CmdResolveLock:               func() interface{} { return &kvrpcpb.ResolveLockRequest{} },
	tikvrpc.CmdGC:                        func() interface{} { return &kvrpcpb.GCRequest{} },
	tikvrpc.CmdDeleteRange:               func() interface{} { return &kvrpcpb.DeleteRangeRequest{StartKey: []byte("a"), EndKey: []byte("b")} },
	tikvrpc.CmdPessimisticLock:           func() interface{} { return &kvrpcpb.PessimisticLockRequest{PrimaryLock: []byte("key")} },
	tikvrpc.CmdPessimisticRollback:       func() interface{} { return &kvrpcpb.PessimisticRollbackRequest{Keys: [][]byte{[]byte("key")}} },
	tikvrpc.CmdTxnHeartBeat:              func() interface{} { return &kvrpcpb.TxnHeartBeatRequest{PrimaryLock: []byte("key")} },
	tikvrpc.CmdCheckTxnStatus:            func() interface{} { return &kvrpcpb.CheckTxnStatusRequest{PrimaryKey: []byte("key")} },
	tikvrpc.CmdCheckSecondaryLocks:       func() interface{} { return &kvrpcpb.CheckSecondaryLocksRequest{Keys: [][]byte{[]byte("key")}} },
	tikvrpc.CmdFlashbackToVersion:        func() interface{} { return &kvrpcpb.FlashbackToVersionRequest{} },
	tikvrpc.CmdPrepareFlashbackToVersion: func() interface{} { return &kvrpcpb.PrepareFlashbackToVersionRequest{} },
	tikvrpc.CmdFlush:                     func() interface{} { return &kvrpcpb.FlushRequest{PrimaryKey: []byte("key")} },
	tikvrpc.CmdBufferBatchGet:            func() interface{} { return &kvrpcpb.BufferBatchGetRequest{Keys: [][]byte{[]byte("key")}} },
	tikvrpc.CmdRawGet:                    func() interface{} { return &kvrpcpb.RawGetRequest{Key: []byte("key")} },
	tikvrpc.CmdRawBatchGet:               func() interface{} { return &kvrpcpb.RawBatchGetRequest{Keys: [][]byte{[]byte("key")}} },
	tikvrpc.CmdRawPut:                    func() interface{} { return &kvrpcpb.RawPutRequest{Key: []byte("key"), Value: []byte("v")} },
	tikvrpc.CmdRawBatchPut:               func() interface{} { return &kvrpcpb.RawBatchPutRequest{} },
	tikvrpc.CmdRawDelete:                 func() interface{} { return &kvrpcpb.RawDeleteRequest{Key: []byte("key")} },
	tikvrpc.CmdRawBatchDelete:            func() interface{} { return &kvrpcpb.RawBatchDeleteRequest{Keys: [][]byte{[]byte("key")}} },
	tikvrpc.CmdRawDeleteRange:            func() interface{} { return &kvrpcpb.RawDeleteRangeRequest{StartKey: []byte("a"), EndKey: []byte("b")} },
	tikvrpc.CmdRawScan:                   func() interface{} { return &kvrpcpb.RawScanRequest{StartKey: []byte("key"), Limit: 1} },
	tikvrpc.CmdRawGetKeyTTL:              func() interface{} { return &kvrpcpb.RawGetKeyTTLRequest{Key: []byte("key")} },
	tikvrpc.CmdRawCompareAndSwap:         func() interface{} { return &kvrpcpb.RawCASRequest{Key: []byte("key")} },
	tikvrpc.CmdRawChecksum:               func() interface{} { return &kvrpcpb.RawChecksumRequest{} },
	tikvrpc.CmdUnsafeDestroyRange: func() interface{} {
		return &kvrpcpb.UnsafeDestroyRangeRequest{StartKey: []byte("a"), EndKey: []byte("b")}
	},
	tikvrpc.CmdRegisterLockObserver:     func() interface{} { return &kvrpcpb.RegisterLockObserverRequest{} },
	tikvrpc.CmdCheckLockObserver:        func() interface{} { return &kvrpcpb.CheckLockObserverRequest{} },
	tikvrpc.CmdRemoveLockObserver:       func() interface{} { return &kvrpcpb.RemoveLockObserverRequest{} },
	tikvrpc.CmdPhysicalScanLock:         func() interface{} { return &kvrpcpb.PhysicalScanLockRequest{Limit: 1} },
	tikvrpc.CmdStoreSafeTS:              func() interface{} { return &kvrpcpb.StoreSafeTSRequest{} },
	tikvrpc.CmdLockWaitInfo:             func() interface{} { return &kvrpcpb.GetLockWaitInfoRequest{} },
	tikvrpc.CmdGetHealthFeedback:        func() interface{} { return &kvrpcpb.GetHealthFeedbackRequest{} },
	tikvrpc.CmdBroadcastTxnStatus:       func() interface{} { return &kvrpcpb.BroadcastTxnStatusRequest{} },
	tikvrpc.CmdCop:                      func() interface{} { return &coprocessor.Request{Tp: 1} },
	tikvrpc.CmdCopStream:                func() interface{} { return &coprocessor.Request{Tp: 1} },
	tikvrpc.CmdBatchCop:                 func() interface{} { return &coprocessor.BatchRequest{Tp: 1} },
	tikvrpc.CmdMPPTask:                  func() interface{} { return &mpp.DispatchTaskRequest{} },
	tikvrpc.CmdMPPConn:                  func() interface{} { return &mpp.EstablishMPPConnectionRequest{} },
	tikvrpc.CmdMPPCancel:                func() interface{} { return &mpp.CancelTaskRequest{} },
	tikvrpc.CmdMPPAlive:                 func() interface{} { return &mpp.IsAliveRequest{} },
	tikvrpc.CmdMvccGetByKey:             func() interface{} { return &kvrpcpb.MvccGetByKeyRequest{Key: []byte("key")} },
	tikvrpc.CmdMvccGetByStartTs:         func() interface{} { return &kvrpcpb.MvccGetByStartTsRequest{} },
	tikvrpc.CmdSplitRegion:              func() interface{} { return &kvrpcpb.SplitRegionRequest{} },
	tikvrpc.CmdDebugGetRegionProperties: func() interface{} { return &debugpb.GetRegionPropertiesRequest{} },
	tikvrpc.CmdCompact:                  func() interface{} { return &kvrpcpb.CompactRequest{} },
	tikvrpc.CmdGetTiFlashSystemTable:    func() interface{} { return &kvrpcpb.TiFlashSystemTableRequest{} },
	tikvrpc.CmdEmpty:                    func() interface{} { return &tikvpb.BatchCommandsEmptyRequest{} },
}

// namedCmdTypes: every command type the binary knows — by name (CmdType.String() != "Unknown") or through a request builder
// (CmdEmpty has no name)
func namedCmdTypes() []tikvrpc.CmdType {
	var out []tikvrpc.CmdType
	for v := 0; v < 8192; v++ {
		_, built := reqBuilders[tikvrpc.CmdType(v)]
		if built || tikvrpc.CmdType(v).String() != "Unknown" {
			out = append(out, tikvrpc.CmdType(v))
		}
	}
	return out
}

func isTsLike(name string) bool {
	return strings.HasSuffix(name, "Ts") || strings.HasSuffix(name, "Version") || strings.HasSuffix(name, "Timestamp") ||
		name == "SafePoint"
}

// shapeOf: Go package of the request struct and its top-level uint64 fields that look like timestamps (sorted)
func shapeOf(body interface{}) (pkg string, fields []string) {
	t := reflect.TypeOf(body).Elem()
	p := t.PkgPath()
	pkg = p[strings.LastIndex(p, "/")+1:]
	for i := 0; i < t.NumField(); i++ {
		f := t.Field(i)
		if f.PkgPath == "" && f.Type.Kind() == reflect.Uint64 && isTsLike(f.Name) {
			fields = append(fields, f.Name)
		}
	}
	sort.Strings(fields)
	return
}

// shapeMustValidate: the harness' own reading of "timestamped read": the request's timestamp is a snapshot read version —
// a `Version` / `MaxVersion` field and no transaction start ts next to it (FlashbackToVersion carries StartTs + the version to
// flash back to: a write), or the `StartTs` of a coprocessor request
func shapeMustValidate(pkg string, fields []string) bool {
	has := func(n string) bool {
		for _, f := range fields {
			if f == n {
				return true
			}
		}
		return false
	}
	if pkg == "coprocessor" {
		return has("StartTs")
	}
	return (has("Version") || has("MaxVersion")) && !has("StartTs") && !has("StartVersion")
}

func setTsFields(body interface{}, fields []string, ts uint64) {
	v := reflect.ValueOf(body).Elem()
	for _, f := range fields {
		v.FieldByName(f).SetUint(ts)
	}
}

type recordingClient struct{ sent int }

func (c *recordingClient) Close() error                                         { return nil }
func (c *recordingClient) CloseAddr(addr string) error                          { return nil }
func (c *recordingClient) SetEventListener(listener client.ClientEventListener) {}
func (c *recordingClient) SendRequest(ctx context.Context, addr string, req *tikvrpc.Request, timeout time.Duration) (*tikvrpc.Response, error) {
	c.sent++
	return &tikvrpc.Response{Resp: &kvrpcpb.GetResponse{Value: []byte("v")}}, nil
}
func (c *recordingClient) SendRequestAsync(ctx context.Context, addr string, req *tikvrpc.Request, cb async.Callback[*tikvrpc.Response]) {
	resp, err := c.SendRequest(ctx, addr, req, 0)
	go func() { cb.Schedule(resp, err) }()
}

type valRecorder struct {
	inner  oracle.ReadTSValidator
	calls  int
	failed error
}

func (v *valRecorder) ValidateReadTS(ctx context.Context, readTS uint64, isStaleRead bool, opt *oracle.Option) error {
	v.calls++
	err := v.inner.ValidateReadTS(ctx, readTS, isStaleRead, opt)
	if err != nil {
		v.failed = err
	}
	return err
}

func tsOfClass(class string) (uint64, bool) {
	switch class {
	case "valid":
		cur, _ := sharedOracle.GetTimestamp(context.Background(), &oracle.Option{TxnScope: oracle.GlobalTxnScope})
		return cur, true
	case "ahead":
		return oracle.GoTimeToTS(time.Now().Add(time.Hour)), true
	case "maxint":
		return math.MaxInt64, true
	case "maxu1":
		return math.MaxUint64 - 1, true
	case "max":
		return math.MaxUint64, true
	}
	return 0, false
}

func valcmdsLine() string {
	var parts []string
	for _, t := range namedCmdTypes() {
		_, ok := reqBuilders[t]
		parts = append(parts, fmt.Sprintf("%d:%s", int(t), b01(ok)))
	}
	return "valcmds " + strings.Join(parts, ",")
}

func chkValidateLine(t tikvrpc.CmdType, class string, validate, stale bool) string {
	pkg, fields := "-", []string(nil)
	if b, ok := reqBuilders[t]; ok {
		pkg, fields = shapeOf(b())
	}
	fl := "-"
	if len(fields) > 0 {
		fl = strings.Join(fields, ",")
	}
	return fmt.Sprintf("chk-validate %d %s %s %s %s %s %s", int(t), t.String(), pkg, fl, class, b01(validate), b01(stale))
}

// execChkValidate runs one member of the family on the real sender
func execChkValidate(w []string) string {
	if len(w) != 8 {
		return "bad-op"
	}
	v, err := strconv.Atoi(w[1])
	if err != nil {
		return "bad-op"
	}
	t := tikvrpc.CmdType(v)
	build, ok := reqBuilders[t]
	if !ok || t.String() != w[2] {
		return "bad-op"
	}
	ts, ok := tsOfClass(w[5])
	if !ok {
		return "bad-op"
	}
	validate, stale := w[6] == "1", w[7] == "1"
	body := build()
	pkg, fields := shapeOf(body)
	setTsFields(body, fields, ts)

	cluster := mocktikv.NewCluster(sharedMvcc)
	mocktikv.BootstrapWithMultiStores(cluster, 3)
	cache := locate.NewRegionCache(locate.NewCodecPDClient(apicodec.ModeTxn, mocktikv.NewPDClient(cluster)), locate.RegionCacheNoHealthTick)
	defer cache.Close()
	loc, err := cache.LocateKey(retry.NewNoopBackoff(context.Background()), []byte("key"))
	if err != nil || loc == nil {
		return "FAIL setup"
	}
	req := tikvrpc.NewRequest(t, body)
	if stale {
		req.StaleRead = true
		req.ReplicaReadType = kv.ReplicaReadMixed
		req.ReadReplicaScope, req.TxnScope = oracle.GlobalTxnScope, oracle.GlobalTxnScope
	}
	// what the oracle itself says about this timestamp (validation switched on for the question)
	oracles.EnableTSValidation.Store(true)
	oracleErr := sharedOracle.ValidateReadTS(context.Background(), ts, stale, &oracle.Option{TxnScope: req.TxnScope})
	oracles.EnableTSValidation.Store(validate)
	defer oracles.EnableTSValidation.Store(false)

	cl := &recordingClient{}
	rec := &valRecorder{inner: sharedOracle}
	sender := locate.NewRegionRequestSender(cache, cl, rec)
	bo := retry.NewBackoffer(context.Background(), 100)
	var sendErr error
	func() {
		defer func() {
			if e := recover(); e != nil {
				sendErr = fmt.Errorf("panic: %v", e)
			}
		}()
		_, _, _, sendErr = sender.SendReqCtx(bo, req, loc.Region, time.Second, tikvrpc.TiKV)
	}()
	if sendErr != nil && strings.HasPrefix(sendErr.Error(), "panic:") {
		return "panic"
	}
	if validate && shapeMustValidate(pkg, fields) && oracleErr != nil && cl.sent > 0 {
		return fmt.Sprintf("FAIL sent-with-invalid-ts cmd=%s field=%s ts=%s stale=%s rpcs=%d validator-calls=%d", t.String(),
			strings.Join(fields, ","), w[5], w[7], cl.sent, rec.calls)
	}
	if sendErr != nil && rec.failed != nil && (sendErr == rec.failed || strings.Contains(sendErr.Error(), rec.failed.Error())) && cl.sent == 0 {
		return "refused"
	}
	return "passed"
}

var tsClasses = []string{"valid", "ahead", "maxint", "maxu1", "max"}

// generateValidate emits the whole family (it is small: every command × every ts class × validation on/off × plain/stale)
func generateValidate(emitOp func(op string)) {
	emitOp(valcmdsLine())
	for _, t := range namedCmdTypes() {
		if _, ok := reqBuilders[t]; !ok {
			continue
		}
		pkg, fields := shapeOf(reqBuilders[t]())
		for _, class := range tsClasses {
			for _, validate := range []bool{true, false} {
				emitOp(chkValidateLine(t, class, validate, false))
				if shapeMustValidate(pkg, fields) || class == "max" {
					emitOp(chkValidateLine(t, class, validate, true))
				}
			}
		}
	}
}
