//go:build verif

// C10 harness: drives the REAL locate.RegionRequestSender over a mocktikv cluster (3 stores, 1 region) against a
// scripted client.Client answering from a fault script, records every RPC attempt / back-off / the final result,
// and emits (a) the observed event sequence as `ev …` op lines for the Lean accounting model (cgv-c10) and
// (b) property ops evaluated on the implementation's own observations.
//
// Op lines of one case (input lines; everything after `go` is derived and regenerated on replay):
//
//	reset
//	cfg <cmd> <mode> <budget> <fwd> <label> <live> <slow> <validate> <ts> <seed> <learner> <short> <busy> <wflag> <async>
//	f <fault>            (0..n lines: the fault script)
//	go <tail>            (run the real sender; after the script is exhausted the stores answer <tail> forever)
//	ev …                 (derived)
//	prop …               (derived)
package main

import (
	"context"
	"errors"
	"fmt"
	"math"
	"os"
	"sort"
	"strconv"
	"strings"
	"sync"
	"time"

	"github.com/pingcap/failpoint"
	"github.com/pingcap/kvproto/pkg/errorpb"
	"github.com/pingcap/kvproto/pkg/kvrpcpb"
	"github.com/pingcap/kvproto/pkg/metapb"
	pkgerrors "github.com/pkg/errors"
	"github.com/tikv/client-go/v2/config/retry"
	"github.com/tikv/client-go/v2/internal/apicodec"
	"github.com/tikv/client-go/v2/internal/client"
	"github.com/tikv/client-go/v2/internal/locate"
	"github.com/tikv/client-go/v2/internal/mockstore/mocktikv"
	"github.com/tikv/client-go/v2/kv"
	"github.com/tikv/client-go/v2/oracle"
	"github.com/tikv/client-go/v2/oracle/oracles"
	"github.com/tikv/client-go/v2/tikvrpc"
	"github.com/tikv/client-go/v2/util"
	"github.com/tikv/client-go/v2/util/async"
	"github.com/tikv/client-go/v2/verifx/vx"
	"google.golang.org/grpc/codes"
	"google.golang.org/grpc/status"
)

// ---------------------------------------------------------------------------------------------- configuration

type caseCfg struct {
	cmd      string // get batchget scan | prewrite commit plock
	mode     string // leader follower mixed learner prefer stale
	budget   int    // Backoffer maxSleep (ms)
	fwd      bool   // forwarding enabled
	label    int    // 0 none, i: match label id=<store i>
	live     string // per store r(eachable) u(nreachable) k(unknown): cached liveness + probe answer
	slow     string // per store 0/1
	validate bool   // oracles.EnableTSValidation
	ts       string // valid future maxint max
	seed     uint64
	learner  bool // third peer is a learner
	short    bool // RPC timeout below ReadTimeoutShort (configurable read timeout path)
	busy     int  // BusyThresholdMs
	// writes only: 0 caller leaves the wire flags clear; 1 caller pre-sets ReplicaRead like tikvrpc.NewReplicaReadRequest;
	// 2 (never generated, manual replays only) additionally pre-sets StaleRead on a write in stale mode
	wflag int
	async bool // go through SendReqAsync (failpoint useSendReqAsync)
}

func b01(b bool) string {
	if b {
		return "1"
	}
	return "0"
}

func (c caseCfg) line() string {
	return fmt.Sprintf("cfg %s %s %d %s %d %s %s %s %s %d %s %s %d %s %s", c.cmd, c.mode, c.budget, b01(c.fwd), c.label, c.live, c.slow,
		b01(c.validate), c.ts, c.seed, b01(c.learner), b01(c.short), c.busy, strconv.Itoa(c.wflag), b01(c.async))
}

func parseCfg(w []string) (caseCfg, bool) {
	var c caseCfg
	if len(w) != 16 {
		return c, false
	}
	c.cmd, c.mode = w[1], w[2]
	var err error
	if c.budget, err = strconv.Atoi(w[3]); err != nil {
		return c, false
	}
	c.fwd = w[4] == "1"
	if c.label, err = strconv.Atoi(w[5]); err != nil || c.label < 0 || c.label > 3 {
		return c, false
	}
	c.live, c.slow = w[6], w[7]
	if len(c.live) != 3 || len(c.slow) != 3 {
		return c, false
	}
	c.validate = w[8] == "1"
	c.ts = w[9]
	if c.seed, err = strconv.ParseUint(w[10], 10, 64); err != nil {
		return c, false
	}
	c.learner = w[11] == "1"
	c.short = w[12] == "1"
	if c.busy, err = strconv.Atoi(w[13]); err != nil {
		return c, false
	}
	if c.wflag, err = strconv.Atoi(w[14]); err != nil || c.wflag < 0 || c.wflag > 2 {
		return c, false
	}
	c.async = w[15] == "1"
	if _, ok := cmdTypes[c.cmd]; !ok {
		return c, false
	}
	if _, ok := modes[c.mode]; !ok {
		return c, false
	}
	switch c.ts {
	case "valid", "future", "maxint", "max":
	default:
		return c, false
	}
	return c, true
}

var cmdTypes = map[string]tikvrpc.CmdType{
	"get": tikvrpc.CmdGet, "batchget": tikvrpc.CmdBatchGet, "scan": tikvrpc.CmdScan,
	"prewrite": tikvrpc.CmdPrewrite, "commit": tikvrpc.CmdCommit, "plock": tikvrpc.CmdPessimisticLock,
}

func isWriteCmd(c string) bool { return c == "prewrite" || c == "commit" || c == "plock" }

var modes = map[string]kv.ReplicaReadType{
	"leader": kv.ReplicaReadLeader, "follower": kv.ReplicaReadFollower, "mixed": kv.ReplicaReadMixed,
	"learner": kv.ReplicaReadLearner, "prefer": kv.ReplicaReadPreferLeader, "stale": kv.ReplicaReadMixed,
}

// fault alphabet (what the scripted store answers)
var faults = []string{
	"ok", "rpcerr", "down", "deadline", "nl", "nl1", "nl2", "nl3", "nlnext", "nlx", "epoch", "epochr", "epochold", "rnf",
	"busy", "busyw", "busydl", "stale", "snm", "dnr", "maxts", "diskfull", "dlmsg", "unk",
	// answers the sender special-cases by field / content (onRegionError and onSendFail, branch by branch)
	"undet", "recov", "witness", "flashback", "flashbacknp", "toolarge", "badmaxts", "knir", "bucket", "notinit", "rinr",
	"merging", "mismatch", "rpccancel", "grpccancel", "grpcdeadline",
	"busyww", // ServerIsBusy with an estimated wait far above any busy threshold
}

func isRedirect(f string) bool {
	return f == "nl1" || f == "nl2" || f == "nl3" || f == "nlnext" || f == "nlx"
}

// fatalFaults: answers after which the sender gives up with an error of its own (no retry, no region error for the caller)
var fatalFaults = map[string]bool{"flashback": true, "flashbacknp": true, "toolarge": true, "badmaxts": true, "rpccancel": true}

// owedBackoff: the back-off the sender owes after an answer before it may send again —
// (kind, true): before ANY further RPC (the handler calls bo.Backoff itself);
// (kind, false): before the next RPC to the SAME store (immediate or pending back-off of onServerIsBusy).
// shortRead: read command whose time-out is below ReadTimeoutShort (deadline answers then only flag the replica).
func owedBackoff(fault string, shortRead bool) (kind string, immediate bool) {
	switch fault {
	case "rpcerr", "down", "grpccancel":
		return "tikvRPC", true
	case "deadline", "grpcdeadline":
		if shortRead {
			return "", false
		}
		return "tikvRPC", true
	case "nl", "rinr", "merging":
		return "regionScheduling", true
	case "maxts":
		return "maxTsNotSynced", true
	case "diskfull":
		return "tikvDiskFull", true
	case "epochold":
		return "regionMiss", true
	case "recov":
		return "regionRecoveryInProgress", true
	case "witness":
		return "isWitness", true
	case "notinit":
		return "regionNotInitialized", true
	case "busy", "busyw", "busyww":
		return "tikvServerBusy", false
	case "busydl":
		if shortRead {
			return "", false
		}
		return "tikvServerBusy", false
	}
	return "", false
}

func isFault(f string) bool {
	for _, x := range faults {
		if x == f {
			return true
		}
	}
	return false
}

// ---------------------------------------------------------------------------------------------- environment

var (
	sharedMvcc     mocktikv.MVCCStore
	sharedOracle   oracle.Oracle
	maxAttemptsCap = 0 // 0: per case, sendBound + capSlack
	caseTimeout    = 60 * time.Second
)

type obsCtx struct {
	context.Context
	hook func()
}

func (c *obsCtx) Done() <-chan struct{} {
	if c.hook != nil {
		c.hook()
	}
	return c.Context.Done()
}

type rpcRec struct {
	store, peer   int // 1-based store index; peer index (same numbering), 0 = unknown
	proxy         int // store index of the proxy (0: none)
	rr, sr, retry bool
	cmd           string
	fault         string // what the script answered
	resp          *tikvrpc.Response
	payload       string
}

// seqItem: the implementation's RPCs and back-offs in the order they happened
type seqItem struct {
	send  bool
	store int
	fault string
	kind  string // back-off config name
}

type runner struct {
	seq    []seqItem
	cfg    caseCfg
	script []string
	tail   string

	mu      sync.Mutex
	events  []string
	rpcs    []rpcRec
	anomaly []string

	cluster  *mocktikv.Cluster
	cache    *locate.RegionCache
	sender   *locate.RegionRequestSender
	bo       *retry.Backoffer
	storeIDs []uint64
	peerIDs  []uint64
	regionID uint64
	region   *metapb.Region
	live     map[uint64]int
	cancel   context.CancelFunc

	lastTimes                map[string]int
	lastMS                   map[string]int
	lastTotal                int
	lastErrN                 int
	nBackoff                 int
	lastAtt                  []int
	unbounded                bool
	cap                      int // hard attempt cap of this case
	req                      *tikvrpc.Request
	initRR, initSR, initBusy bool
	initType                 int
	selInit                  bool
	selOff                   bool // selector tie switched off for this case (forwarding, unexpected replica order)
	flagViolation            string
	candViolation            string
	bothFlags                int

	valCalls   int
	valFailed  bool
	valAtSends int // number of RPCs already sent when the (first) validation happened
	valErr     error
}

func (r *runner) storeIdx(id uint64) int {
	for i, s := range r.storeIDs {
		if s == id {
			return i + 1
		}
	}
	return 0
}
func (r *runner) peerIdx(id uint64) int {
	for i, p := range r.peerIDs {
		if p == id {
			return i + 1
		}
	}
	return 0
}

func (r *runner) ev(s string) { r.events = append(r.events, s) }

// observe turns the Backoffer's counters into `backoff` events. It is called at the start of every Backoff call
// (through obsCtx.Done), before every RPC and at the end, so at most one back-off lies between two observations.
func (r *runner) observe() {
	if r.bo == nil {
		return
	}
	r.mu.Lock()
	defer r.mu.Unlock()
	times := r.bo.GetBackoffTimes()
	ms := r.bo.GetBackoffSleepMS()
	kinds := make([]string, 0, len(times))
	for k := range times {
		kinds = append(kinds, k)
	}
	sort.Strings(kinds)
	n := 0
	sum := 0
	for _, k := range kinds {
		d := times[k] - r.lastTimes[k]
		dm := ms[k] - r.lastMS[k]
		if d <= 0 {
			continue
		}
		for i := 0; i < d; i++ {
			part := dm / d
			if i == d-1 {
				part = dm - (dm/d)*(d-1)
			}
			r.ev(fmt.Sprintf("ev backoff %s %d", k, part))
			r.seq = append(r.seq, seqItem{kind: k})
			r.nBackoff++
			n++
		}
		sum += dm
		r.lastTimes[k] = times[k]
		r.lastMS[k] = ms[k]
	}
	if n > 1 {
		r.anomaly = append(r.anomaly, "several-backoffs-between-observations")
	}
	tot := r.bo.GetTotalSleep()
	if tot-r.lastTotal != sum {
		r.anomaly = append(r.anomaly, "total-sleep-mismatch")
	}
	r.lastTotal = tot
	en := r.bo.ErrorsNum()
	if en-r.lastErrN != n {
		r.anomaly = append(r.anomaly, "errors-num-mismatch")
	}
	r.lastErrN = en
}

// observeAttempts emits `ev bump <peer> <attempts>` when a replica's attempt counter went DOWN since the last observation
// (replica.onUpdateLeader gives an exhausted replica one more chance). charged lists the peers whose counter was just
// incremented for the RPC being sent (the observation happens after that increment).
func (r *runner) observeAttempts(charged ...int) {
	if r.sender == nil {
		return
	}
	peers, att := r.sender.VerifReplicaAttempts()
	if peers == nil {
		return
	}
	cur := make([]int, len(r.peerIDs)+1)
	for i, p := range peers {
		if idx := r.peerIdx(p); idx > 0 {
			cur[idx] = att[i]
		}
	}
	if r.lastAtt != nil {
		for i := 1; i < len(cur); i++ {
			before := cur[i]
			for _, c := range charged {
				if c == i {
					before--
				}
			}
			if before < r.lastAtt[i] {
				r.ev(fmt.Sprintf("ev bump %d %d", i, before))
			}
		}
	}
	r.lastAtt = cur
}

// ---- selector tie: what the real selector looks like right after it chose (before the RPC leaves)

func bits(bs ...bool) string {
	var sb strings.Builder
	for _, b := range bs {
		sb.WriteString(b01(b))
	}
	return sb.String()
}

// selLine emits `selinit` (once) and `sel …` / `selend …`: target, selector-owned state after `next`, request flags,
// per replica `attempts:flags:inputs`, and the answer the store is about to give (handled by the model afterwards).
func (r *runner) selLine(req *tikvrpc.Request, fault string, end bool, ranNext bool) {
	if r.selOff || r.sender == nil {
		return
	}
	if r.cfg.fwd {
		r.selOff = true
		return
	}
	sn := r.sender.VerifSelectorSnapshot(time.Duration(r.cfg.busy) * time.Millisecond)
	if sn == nil || len(sn.Reps) != 3 || sn.Proxy >= 0 {
		if sn != nil {
			r.selOff = true
		}
		return
	}
	for i, rp := range sn.Reps {
		if r.storeIdx(rp.StoreID) != i+1 || r.peerIdx(rp.PeerID) != i+1 {
			r.selOff = true
			return
		}
	}
	if !r.selInit {
		r.selInit = true
		r.ev(fmt.Sprintf("selinit %s %d %s %s %s %s %s %s %s %s %s 3", b01(r.initType == int(kv.ReplicaReadLeader)), r.initType,
			b01(sn.IsStaleRead), b01(sn.IsReadOnly), b01(sn.LeaderOnly), b01(sn.PreferLeader), b01(sn.HasLabels),
			b01(r.initBusy), b01(r.initRR), b01(r.initSR), b01(r.initBusy)))
	}
	busyPeer := 0
	if sn.LeaderBusyPeer != 0 {
		busyPeer = r.peerIdx(sn.LeaderBusyPeer)
	}
	var reps []string
	for _, rp := range sn.Reps {
		reps = append(reps, fmt.Sprintf("%d:%s:%d%s", rp.Attempts, bits(rp.Deadline, rp.DataNotReady, rp.NotLeader, rp.ServerBusy, rp.Suspect),
			rp.Live, bits(rp.Slow, rp.EpochStale, rp.LabelMatch, rp.Learner, rp.Over)))
	}
	if !end && req.ReplicaRead && req.StaleRead {
		r.bothFlags++
	}
	if !end && sn.Target >= 0 && r.flagViolation == "" {
		r.flagViolation = readFlagRules(sn, req.ReplicaRead, req.StaleRead, r.initSR)
	}
	if !end && sn.Target >= 0 && r.candViolation == "" {
		// theorem chosen_is_candidate on the implementation's own state: the replica just charged was not exhausted,
		// is not known unreachable and its store epoch is not stale
		t := sn.Reps[sn.Target]
		switch {
		case t.Attempts > locate.VerifMaxReplicaAttempt():
			r.candViolation = fmt.Sprintf("replica %d sent to with attempts=%d", sn.Target+1, t.Attempts)
		case t.Live == 1:
			r.candViolation = fmt.Sprintf("replica %d sent to although its store is known unreachable", sn.Target+1)
		case t.EpochStale:
			r.candViolation = fmt.Sprintf("replica %d sent to although its store epoch is stale", sn.Target+1)
		}
	}
	head := "sel"
	tail := fault + " " + b01(r.cfg.short && !isWriteCmd(r.cfg.cmd))
	if end {
		head = "selend"
		tail = b01(ranNext) + " " + fault
	}
	tgt := sn.Target
	if tgt < 0 {
		tgt = 9 // none
	}
	r.ev(fmt.Sprintf("%s %d %d %s %d %d %s %s %s %d %d %s %s %s %s %s %s", head, tgt, sn.LeaderIdx,
		b01(sn.ReadType == int(kv.ReplicaReadLeader)), int(req.ReplicaReadType), sn.SelAttempts, b01(sn.BusyThreshold),
		b01(sn.InvalidatedForRetry), b01(sn.RegionValid), sn.LeaderBusyCount, busyPeer, b01(sn.LeaderBusyProbed),
		b01(req.ReplicaRead), b01(req.StaleRead), b01(req.BusyThresholdMs > 0), strings.Join(reps, " "), tail))
}

// readFlagRules: the flag discipline evaluated on the implementation's own observation of one attempt (selector snapshot
// right after the choice + the flags of the request that leaves). Returns "" or what is wrong.
//
//	R1 ReplicaRead and StaleRead are never both set
//	R2 StaleRead only on a request that entered as a stale read
//	R3 not a stale read, selector not in leader-read mode: StaleRead clear, ReplicaRead == (read command && target is not the leader)
//	R4 stale read, second attempt, target is a reachable, untouched leader tried for the first time: both flags clear
func readFlagRules(sn *locate.VerifSelSnap, rr, sr, enteredStale bool) string {
	t := sn.Reps[sn.Target]
	isLeader := sn.Target == sn.LeaderIdx
	leaderRead := sn.ReadType == int(kv.ReplicaReadLeader)
	switch {
	case sr && !enteredStale:
		return "R2 StaleRead on a request that is not a stale read"
	case !sn.IsStaleRead && !leaderRead && (sr || rr != (sn.IsReadOnly && !isLeader)):
		return fmt.Sprintf("R3 role flags: replicaRead=%v staleRead=%v targetIsLeader=%v readOnly=%v", rr, sr, isLeader, sn.IsReadOnly)
	case sn.IsStaleRead && !leaderRead && sn.SelAttempts == 2 && isLeader && t.Attempts == 1 && t.Live == 0 && !t.EpochStale &&
		!t.Deadline && !t.NotLeader && !t.Suspect && (rr || sr):
		return fmt.Sprintf("R4 stale read fell back to the leader with replicaRead=%v staleRead=%v", rr, sr)
	}
	return ""
}

// ---- scripted client

type scriptClient struct{ r *runner }

func (c *scriptClient) Close() error                                         { return nil }
func (c *scriptClient) CloseAddr(addr string) error                          { return nil }
func (c *scriptClient) SetEventListener(listener client.ClientEventListener) {}
func (c *scriptClient) SendRequestAsync(ctx context.Context, addr string, req *tikvrpc.Request, cb async.Callback[*tikvrpc.Response]) {
	resp, err := c.SendRequest(ctx, addr, req, 0)
	go func() { cb.Schedule(resp, err) }()
}

func (c *scriptClient) SendRequest(ctx context.Context, addr string, req *tikvrpc.Request, timeout time.Duration) (*tikvrpc.Response, error) {
	r := c.r
	r.observe()
	r.mu.Lock()
	defer r.mu.Unlock()
	n := len(r.rpcs)
	fault := r.tail
	if n < len(r.script) {
		fault = r.script[n]
	}
	target := addr
	proxy := 0
	if req.ForwardedHost != "" {
		target = req.ForwardedHost
		proxy = r.addrIdx(addr)
	}
	rec := rpcRec{store: r.addrIdx(target), proxy: proxy, rr: req.ReplicaRead, sr: req.StaleRead, retry: req.IsRetryRequest,
		cmd: r.cfg.cmd, fault: fault}
	if req.Peer != nil {
		rec.peer = r.peerIdx(req.Peer.GetId())
	}
	if req.Type != cmdTypes[r.cfg.cmd] {
		r.anomaly = append(r.anomaly, "cmd-type-changed")
	}
	if n >= r.cap+r.nBackoff {
		// "retries forever": stop the real loop by cancelling its context
		r.unbounded = true
		r.rpcs = append(r.rpcs, rec)
		r.cancel()
		return nil, context.Canceled
	}
	resp, err := r.answer(fault, rec, req, n)
	rec.resp = resp
	if resp != nil && fault == "ok" {
		rec.payload = fmt.Sprintf("v%d", n)
	}
	r.rpcs = append(r.rpcs, rec)
	r.selLine(req, fault, false, false)
	r.observeAttempts(rec.peer, rec.proxy)
	r.ev(fmt.Sprintf("ev send %d %d %s %s %s %d %d %s %s", rec.peer, rec.store, b01(rec.rr), b01(rec.sr), b01(rec.retry), rec.proxy,
		r.consumedAttempts(rec), r.respLabel(fault, rec), fault))
	r.seq = append(r.seq, seqItem{send: true, store: rec.store, fault: fault})
	return resp, err
}

func (r *runner) addrIdx(addr string) int {
	for i, s := range r.storeIDs {
		if addr == fmt.Sprintf("store%d", s) {
			return i + 1
		}
	}
	return 0
}

// consumedAttempts: the real replica.attempts of the replica this RPC was charged to (0 = not reported: forwarding on,
// where the leader behind a proxy is charged too and the model deliberately only charges the proxy).
func (r *runner) consumedAttempts(rec rpcRec) int {
	if r.cfg.fwd || rec.peer == 0 {
		return 0
	}
	peers, att := r.sender.VerifReplicaAttempts()
	for i, p := range peers {
		if r.peerIdx(p) == rec.peer {
			return att[i]
		}
	}
	return 0
}

// respLabel is the canonical class of an answer for the model: ok | rpcerr | nlhint:<peer> | regionerr
func (r *runner) respLabel(fault string, rec rpcRec) string {
	switch fault {
	case "ok":
		return "ok"
	case "rpcerr", "down", "deadline", "rpccancel", "grpccancel", "grpcdeadline":
		return "rpcerr"
	case "nl1", "nl2", "nl3":
		return "nlhint:" + fault[2:]
	case "nlnext":
		return fmt.Sprintf("nlhint:%d", rec.peer%3+1)
	}
	return "regionerr"
}

func (r *runner) regionErrResp(req *tikvrpc.Request, e *errorpb.Error) (*tikvrpc.Response, error) {
	return tikvrpc.GenRegionErrorResp(req, e)
}

func (r *runner) peerMeta(idx int) *metapb.Peer {
	for _, p := range r.region.Peers {
		if p.Id == r.peerIDs[idx-1] {
			return p
		}
	}
	return nil
}

func (r *runner) answer(fault string, rec rpcRec, req *tikvrpc.Request, n int) (*tikvrpc.Response, error) {
	e := &errorpb.Error{}
	switch fault {
	case "ok":
		val := []byte(fmt.Sprintf("v%d", n))
		switch req.Type {
		case tikvrpc.CmdGet:
			return &tikvrpc.Response{Resp: &kvrpcpb.GetResponse{Value: val}}, nil
		case tikvrpc.CmdBatchGet:
			return &tikvrpc.Response{Resp: &kvrpcpb.BatchGetResponse{Pairs: []*kvrpcpb.KvPair{{Key: []byte("key"), Value: val}}}}, nil
		case tikvrpc.CmdScan:
			return &tikvrpc.Response{Resp: &kvrpcpb.ScanResponse{Pairs: []*kvrpcpb.KvPair{{Key: []byte("key"), Value: val}}}}, nil
		case tikvrpc.CmdPrewrite:
			return &tikvrpc.Response{Resp: &kvrpcpb.PrewriteResponse{MinCommitTs: uint64(n) + 1}}, nil
		case tikvrpc.CmdCommit:
			return &tikvrpc.Response{Resp: &kvrpcpb.CommitResponse{CommitVersion: uint64(n) + 1}}, nil
		case tikvrpc.CmdPessimisticLock:
			return &tikvrpc.Response{Resp: &kvrpcpb.PessimisticLockResponse{Values: [][]byte{val}}}, nil
		}
		return nil, errors.New("unsupported cmd")
	case "rpcerr":
		return nil, errors.New("mock rpc error")
	case "down":
		if rec.store > 0 {
			r.live[r.storeIDs[rec.store-1]] = 1
		}
		return nil, errors.New("mock rpc error: store down")
	case "deadline":
		return nil, context.DeadlineExceeded
	case "nl":
		e.NotLeader = &errorpb.NotLeader{RegionId: r.regionID}
	case "nl1", "nl2", "nl3":
		i := int(fault[2] - '0')
		e.NotLeader = &errorpb.NotLeader{RegionId: r.regionID, Leader: r.peerMeta(i)}
	case "nlnext":
		e.NotLeader = &errorpb.NotLeader{RegionId: r.regionID, Leader: r.peerMeta(rec.peer%3 + 1)}
	case "nlx":
		e.NotLeader = &errorpb.NotLeader{RegionId: r.regionID, Leader: &metapb.Peer{Id: 9999, StoreId: 9998}}
	case "epoch":
		e.EpochNotMatch = &errorpb.EpochNotMatch{}
	case "epochr":
		m := *r.region
		ep := *r.region.RegionEpoch
		ep.Version++
		m.RegionEpoch = &ep
		e.EpochNotMatch = &errorpb.EpochNotMatch{CurrentRegions: []*metapb.Region{&m}}
	case "epochold":
		m := *r.region
		ep := *r.region.RegionEpoch
		if ep.Version > 0 {
			ep.Version--
		}
		m.RegionEpoch = &ep
		e.EpochNotMatch = &errorpb.EpochNotMatch{CurrentRegions: []*metapb.Region{&m}}
	case "rnf":
		e.RegionNotFound = &errorpb.RegionNotFound{RegionId: r.regionID}
	case "busy":
		e.ServerIsBusy = &errorpb.ServerIsBusy{}
	case "busyw":
		e.ServerIsBusy = &errorpb.ServerIsBusy{EstimatedWaitMs: 10}
	case "busydl":
		e.ServerIsBusy = &errorpb.ServerIsBusy{Reason: "deadline is exceeded"}
	case "busyww":
		e.ServerIsBusy = &errorpb.ServerIsBusy{EstimatedWaitMs: 100000}
	case "stale":
		e.StaleCommand = &errorpb.StaleCommand{}
	case "snm":
		e.StoreNotMatch = &errorpb.StoreNotMatch{}
	case "dnr":
		e.DataIsNotReady = &errorpb.DataIsNotReady{}
	case "maxts":
		e.MaxTimestampNotSynced = &errorpb.MaxTimestampNotSynced{}
	case "diskfull":
		e.DiskFull = &errorpb.DiskFull{}
	case "dlmsg":
		e.Message = "Deadline is exceeded"
	case "unk":
		e.Message = "some unknown error"
	case "rpccancel":
		return nil, pkgerrors.WithStack(context.Canceled) // the client reports a cancellation although the caller's context is alive
	case "grpccancel":
		return nil, status.Error(codes.Canceled, "grpc: the client connection is closing")
	case "grpcdeadline":
		return nil, status.Error(codes.DeadlineExceeded, "context deadline exceeded")
	case "undet":
		e.UndeterminedResult = &errorpb.UndeterminedResult{}
	case "recov":
		e.RecoveryInProgress = &errorpb.RecoveryInProgress{RegionId: r.regionID}
	case "witness":
		e.IsWitness = &errorpb.IsWitness{RegionId: r.regionID}
	case "flashback":
		e.FlashbackInProgress = &errorpb.FlashbackInProgress{RegionId: r.regionID, FlashbackStartTs: 7}
	case "flashbacknp":
		e.FlashbackNotPrepared = &errorpb.FlashbackNotPrepared{RegionId: r.regionID}
	case "toolarge":
		e.RaftEntryTooLarge = &errorpb.RaftEntryTooLarge{RegionId: r.regionID, EntrySize: 1 << 30}
	case "badmaxts":
		e.Message = "invalid max_ts update: 10 exceeds the limit 5"
	case "knir":
		e.KeyNotInRegion = &errorpb.KeyNotInRegion{Key: []byte("key"), RegionId: r.regionID}
	case "bucket":
		e.BucketVersionNotMatch = &errorpb.BucketVersionNotMatch{Version: 9, Keys: [][]byte{[]byte("a"), []byte("z")}}
	case "notinit":
		e.RegionNotInitialized = &errorpb.RegionNotInitialized{RegionId: r.regionID}
	case "rinr":
		e.ReadIndexNotReady = &errorpb.ReadIndexNotReady{RegionId: r.regionID}
	case "merging":
		e.ProposalInMergingMode = &errorpb.ProposalInMergingMode{RegionId: r.regionID}
	case "mismatch":
		e.MismatchPeerId = &errorpb.MismatchPeerId{RequestPeerId: 1, StorePeerId: 2}
	default:
		return nil, errors.New("bad fault")
	}
	return r.regionErrResp(req, e)
}

// ---- read-ts validator wrapper (records what the sender asked and what the oracle answered)

type recValidator struct {
	r     *runner
	inner oracle.ReadTSValidator
}

func (v *recValidator) ValidateReadTS(ctx context.Context, readTS uint64, isStaleRead bool, opt *oracle.Option) error {
	err := v.inner.ValidateReadTS(ctx, readTS, isStaleRead, opt)
	v.r.mu.Lock()
	defer v.r.mu.Unlock()
	if v.r.valCalls == 0 {
		v.r.valAtSends = len(v.r.rpcs)
	}
	v.r.valCalls++
	if err != nil {
		v.r.valFailed = true
		v.r.valErr = err
	}
	return err
}

// ---------------------------------------------------------------------------------------------- one case

type outcome struct {
	lines []string // derived op lines with their implementation result
	impl  []string
}

func (r *runner) buildReq(ts uint64) (*tikvrpc.Request, []locate.StoreSelectorOption, time.Duration) {
	c := r.cfg
	var inner interface{}
	switch c.cmd {
	case "get":
		inner = &kvrpcpb.GetRequest{Key: []byte("key"), Version: ts}
	case "batchget":
		inner = &kvrpcpb.BatchGetRequest{Keys: [][]byte{[]byte("key")}, Version: ts}
	case "scan":
		inner = &kvrpcpb.ScanRequest{StartKey: []byte("key"), Limit: 1, Version: ts}
	case "prewrite":
		inner = &kvrpcpb.PrewriteRequest{StartVersion: ts, PrimaryLock: []byte("key"),
			Mutations: []*kvrpcpb.Mutation{{Op: kvrpcpb.Op_Put, Key: []byte("key"), Value: []byte("v")}}}
	case "commit":
		inner = &kvrpcpb.CommitRequest{StartVersion: ts, Keys: [][]byte{[]byte("key")}, CommitVersion: ts + 1}
	case "plock":
		inner = &kvrpcpb.PessimisticLockRequest{StartVersion: ts, ForUpdateTs: ts, PrimaryLock: []byte("key"),
			Mutations: []*kvrpcpb.Mutation{{Op: kvrpcpb.Op_PessimisticLock, Key: []byte("key")}}}
	}
	req := tikvrpc.NewRequest(cmdTypes[c.cmd], inner)
	write := isWriteCmd(c.cmd)
	if c.mode == "stale" {
		if !write || c.wflag == 2 {
			// what txnkv/txnsnapshot does for the reads of a stale-read snapshot
			req.EnableStaleWithMixedReplicaRead()
			req.ReadReplicaScope = oracle.GlobalTxnScope
			req.TxnScope = oracle.GlobalTxnScope
		} else {
			// a write issued while the session reads stale: no client-go call site flags a write as stale read
			req.ReplicaReadType = kv.ReplicaReadMixed
		}
	} else {
		req.ReplicaReadType = modes[c.mode]
		if !write || c.wflag >= 1 {
			// tikvrpc.NewReplicaReadRequest
			req.ReplicaRead = modes[c.mode].IsFollowerRead()
		}
	}
	if c.busy > 0 {
		req.BusyThresholdMs = uint32(c.busy)
	}
	var opts []locate.StoreSelectorOption
	if c.label > 0 {
		opts = append(opts, locate.WithMatchLabels([]*metapb.StoreLabel{{Key: "id", Value: fmt.Sprintf("%v", r.storeIDs[c.label-1])}}))
	}
	timeout := client.ReadTimeoutShort
	if c.short {
		timeout = time.Second
	}
	return req, opts, timeout
}

func classifyErr(err error) string {
	if err == nil {
		return "-"
	}
	s := err.Error()
	switch {
	case errors.Is(err, context.Canceled) || strings.Contains(s, "context canceled"):
		return "canceled"
	}
	return "other"
}

func (r *runner) run() (out outcome) {
	c := r.cfg
	emit := func(op, impl string) {
		out.lines = append(out.lines, op)
		out.impl = append(out.impl, impl)
	}
	r.lastTimes, r.lastMS = map[string]int{}, map[string]int{}
	r.cap = maxAttemptsCap
	if r.cap <= 0 {
		r.cap = r.bound() + capSlack
	}
	r.live = map[uint64]int{}

	r.cluster = mocktikv.NewCluster(sharedMvcc)
	var leaderPeer uint64
	r.storeIDs, r.peerIDs, r.regionID, leaderPeer = mocktikv.BootstrapWithMultiStores(r.cluster, 3)
	// a region epoch above zero, so that `epochold` (an EpochNotMatch carrying an OLDER epoch) exists
	r.cluster.PutRegion(r.regionID, 3, 3, r.storeIDs, r.peerIDs, leaderPeer)
	if c.learner {
		r.cluster.RemovePeer(r.regionID, r.peerIDs[2])
		np := r.cluster.AllocID()
		r.cluster.AddLearner(r.regionID, r.storeIDs[2], np)
		r.peerIDs[2] = np
	}
	pdCli := locate.NewCodecPDClient(apicodec.ModeTxn, mocktikv.NewPDClient(r.cluster))
	r.cache = locate.NewRegionCache(pdCli, locate.RegionCacheNoHealthTick)
	defer r.cache.Close()
	locate.VerifSetEnableForwarding(r.cache, c.fwd)
	rng := vx.NewRand(c.seed*7919 + 13)
	restore := locate.VerifSetRandIntn(func(n int) int { return rng.Intn(n) })
	defer restore()
	locate.VerifInjectLiveness(r.cache, func(id uint64) int { return r.live[id] })

	loc, err := r.cache.LocateKey(retry.NewNoopBackoff(context.Background()), []byte("key"))
	if err != nil || loc == nil {
		emit("ev setup-failed", "FAIL setup")
		return
	}
	r.region, _ = r.cluster.GetRegion(r.regionID)
	for i, sid := range r.storeIDs {
		l := map[byte]int{'r': 0, 'u': 1, 'k': 2}[c.live[i]]
		r.live[sid] = l
		if l != 0 {
			locate.VerifSetStoreLiveness(r.cache, sid, l)
		}
		if c.slow[i] == '1' {
			locate.VerifMarkStoreSlow(r.cache, sid)
		}
	}

	// read timestamp
	var ts uint64
	cur, _ := sharedOracle.GetTimestamp(context.Background(), &oracle.Option{TxnScope: oracle.GlobalTxnScope})
	switch c.ts {
	case "valid":
		ts = cur
	case "future":
		ts = oracle.GoTimeToTS(time.Now().Add(24 * time.Hour))
	case "maxint":
		ts = math.MaxInt64
	case "max":
		ts = math.MaxUint64
	}
	oracles.EnableTSValidation.Store(c.validate)
	defer oracles.EnableTSValidation.Store(false)

	req, opts, timeout := r.buildReq(ts)
	r.req, r.initRR, r.initSR, r.initBusy, r.initType = req, req.ReplicaRead, req.StaleRead, req.BusyThresholdMs > 0, int(req.ReplicaReadType)
	r.sender = locate.NewRegionRequestSender(r.cache, &scriptClient{r}, &recValidator{r: r, inner: sharedOracle})
	base, cancel := context.WithCancel(context.Background())
	r.cancel = cancel
	defer cancel()
	octx := &obsCtx{Context: base}
	r.bo = retry.NewBackoffer(octx, c.budget) // no BackOffWeight scaling: maxSleep == budget
	octx.hook = r.observe

	if c.async {
		failpoint.Enable("tikvclient/useSendReqAsync", "return")
		defer failpoint.Disable("tikvclient/useSendReqAsync")
	}

	type res struct {
		resp  *tikvrpc.Response
		err   error
		panic string
	}
	done := make(chan res, 1)
	go func() {
		var rs res
		defer func() {
			if e := recover(); e != nil {
				rs.panic = fmt.Sprint(e)
			}
			done <- rs
		}()
		rs.resp, _, _, rs.err = r.sender.SendReqCtx(r.bo, req, loc.Region, timeout, tikvrpc.TiKV, opts...)
	}()
	var rs res
	hang := false
	select {
	case rs = <-done:
	case <-time.After(caseTimeout):
		hang = true
		cancel()
		select {
		case rs = <-done:
		case <-time.After(5 * time.Second):
		}
	}
	octx.hook = nil
	r.observe()

	// ---------------- result classification (from the implementation's own return values)
	result := "err"
	detail := classifyErr(rs.err)
	if rs.err != nil && r.valErr != nil && (rs.err == r.valErr || errors.Is(rs.err, r.valErr)) {
		detail = "tsinvalid" // the very error the read-ts validator returned
	}
	var regionErr *errorpb.Error
	if rs.panic != "" {
		result, detail = "panic", "-"
	} else if rs.err == nil {
		if rs.resp == nil {
			result, detail = "nil", "-"
		} else {
			re, e2 := rs.resp.GetRegionError()
			switch {
			case e2 != nil:
				result, detail = "err", "malformed"
			case re != nil:
				regionErr = re
				result = "regionerr"
				detail = "store"
				if retry.IsFakeRegionError(re) {
					detail = "pseudo"
				}
			default:
				result = "ok"
				detail = "-"
			}
		}
	}
	// identity of the payload object (the async entry point copies the outer tikvrpc.Response into a ResponseExt)
	if rs.err != nil && !r.unbounded && !hang && len(r.rpcs) > 0 && fatalFaults[r.rpcs[len(r.rpcs)-1].fault] && detail != "tsinvalid" {
		detail = "fatal" // the sender's own error for an answer it never retries
	}
	lastIsResp := len(r.rpcs) > 0 && rs.resp != nil && r.rpcs[len(r.rpcs)-1].resp != nil && r.rpcs[len(r.rpcs)-1].resp.Resp == rs.resp.Resp
	r.mu.Lock()
	if !hang && !r.unbounded && rs.panic == "" {
		r.selLine(r.req, result, true, result == "regionerr" && detail == "pseudo" && !lastIsResp)
	}
	r.ev(fmt.Sprintf("ev result %s %s %s", result, detail, b01(lastIsResp)))
	events := append([]string{}, r.events...)
	r.mu.Unlock()

	for _, e := range events {
		emit(e, "ok")
	}

	// ---------------- property ops, evaluated on the implementation's own observations
	write := isWriteCmd(c.cmd)
	nsend := len(r.rpcs)
	total := r.bo.GetTotalSleep()
	excluded := r.bo.GetBackoffSleepMS()["tikvServerBusy"]
	bound := r.bound()

	// 1. bounded attempts, no hang, no retry-forever-without-backoff
	switch {
	case rs.panic != "":
		emit("prop bounded", "panic")
	case hang:
		emit("prop bounded", fmt.Sprintf("FAIL hang sends=%d backoffs=%d", nsend, r.nBackoff))
	case r.unbounded:
		emit("prop bounded", fmt.Sprintf("FAIL unbounded sends>%d backoffs=%d totalSleep=%d", r.cap, r.nBackoff, total))
	case nsend > bound:
		emit("prop bounded", fmt.Sprintf("FAIL sends=%d exceeds bound=%d", nsend, bound))
	case len(r.anomaly) > 0:
		emit("prop bounded", "FAIL observation "+strings.Join(uniq(r.anomaly), ","))
	default:
		emit("prop bounded", "ok")
	}

	// 2. result is a genuine store response / a region error / an error once the budget is spent
	spent := (c.budget > 0 && total-excluded >= c.budget) || (c.budget > 0 && excluded >= excludedLimit && excluded >= c.budget)
	var g string
	switch result {
	case "ok":
		if nsend == 0 || !lastIsResp || r.rpcs[nsend-1].fault != "ok" {
			g = "FAIL fabricated-success"
		} else if payloadOf(rs.resp) != r.rpcs[nsend-1].payload && !write {
			g = "FAIL payload " + payloadOf(rs.resp)
		} else {
			g = "ok"
		}
	case "regionerr":
		if detail == "pseudo" {
			g = "ok" // region error for the caller to re-split / reload on (no replica left or region invalidated)
			if lastIsResp && r.rpcs[nsend-1].fault != "epoch" {
				g = "FAIL region-error-mislabelled"
			}
		} else if lastIsResp && r.rpcs[nsend-1].fault != "ok" && regionErr != nil {
			g = "ok"
		} else {
			g = "FAIL region-error-not-from-last-rpc"
		}
	case "err":
		switch {
		case detail == "tsinvalid":
			g = "ok"
			if nsend > 0 {
				g = "FAIL ts-error-after-send"
			}
		case detail == "canceled" && (r.unbounded || hang):
			g = "ok" // reported by `prop bounded`
		case spent:
			g = "ok"
		case detail == "fatal":
			g = "ok" // flashback / raft entry too large / invalid max_ts update / cancellation reported by the client
		default:
			g = fmt.Sprintf("FAIL error-before-budget-spent class=%s total=%d excluded=%d budget=%d", detail, total, excluded, c.budget)
		}
	default:
		g = "FAIL result " + result
	}
	emit("prop genuine", g)

	// 2b. every retry path switches peer or consumes back-off budget: after an answer for which the sender owes a back-off
	// no further RPC (to any store / to the same store) leaves before a back-off of that config happened
	shortRead := c.short && !isWriteCmd(c.cmd)
	d := "ok"
	redirects := 0
	for i, it := range r.seq {
		if !it.send {
			continue
		}
		kind, imm := owedBackoff(it.fault, shortRead)
		if isRedirect(it.fault) {
			// onNotLeader: the first #replicas leader hints are followed at once, every further one after a back-off
			if redirects >= 3 {
				kind, imm = "regionScheduling", true
			}
			redirects++
		}
		if kind == "" {
			continue
		}
		for _, nx := range r.seq[i+1:] {
			if !nx.send && nx.kind == kind {
				break
			}
			if nx.send && (imm || nx.store == it.store) {
				d = fmt.Sprintf("FAIL resend without backoff after=%s store=%d owed=%s", it.fault, it.store, kind)
				break
			}
		}
		if d != "ok" {
			break
		}
	}
	emit("prop backoffdiscipline", d)

	// 2c. read-mode flags follow the decision table (rules R1-R4 on the selector's own state at every attempt)
	if r.flagViolation != "" {
		emit("prop readflags", "FAIL "+r.flagViolation)
	} else {
		emit("prop readflags", "ok")
	}

	if r.candViolation != "" {
		emit("prop candidate", "FAIL "+r.candViolation)
	} else {
		emit("prop candidate", "ok")
	}

	// 3. write commands never flagged replica read / stale read
	w := "ok"
	if write {
		for i, x := range r.rpcs {
			if x.rr || x.sr {
				w = fmt.Sprintf("FAIL write flagged rpc=%d replicaRead=%s staleRead=%s", i, b01(x.rr), b01(x.sr))
				break
			}
		}
	}
	emit("prop writeflags", w)

	// 4. every re-send within one call carries the retry marker (and the first does not)
	m := "ok"
	for i, x := range r.rpcs {
		if i > 0 && !x.retry {
			m = fmt.Sprintf("FAIL resend without retry marker rpc=%d", i)
			break
		}
		if i == 0 && x.retry {
			m = "FAIL first send marked retry"
			break
		}
	}
	emit("prop retrymarked", m)

	// 5. with validation enabled no read is sent whose ts failed validation (and every read is validated before it is sent)
	t := "ok"
	isRead := !write
	if c.validate && isRead {
		expectInvalid := c.ts == "future" || c.ts == "maxint" || (c.ts == "max" && c.mode == "stale")
		switch {
		case r.valCalls == 0 && nsend > 0:
			t = "FAIL read sent without validation"
		case r.valCalls > 0 && r.valAtSends > 0:
			t = "FAIL validation after first send"
		case (r.valFailed || expectInvalid) && nsend > 0:
			t = fmt.Sprintf("FAIL invalid ts sent sends=%d", nsend)
		case expectInvalid && !r.valFailed:
			t = "FAIL oracle accepted invalid ts"
		}
	}
	emit("prop tsvalid", t)
	return
}

func uniq(a []string) []string {
	sort.Strings(a)
	var o []string
	for i, x := range a {
		if i == 0 || a[i-1] != x {
			o = append(o, x)
		}
	}
	return o
}

func payloadOf(resp *tikvrpc.Response) string {
	if resp == nil {
		return ""
	}
	switch x := resp.Resp.(type) {
	case *kvrpcpb.GetResponse:
		return string(x.Value)
	case *kvrpcpb.BatchGetResponse:
		if len(x.Pairs) == 1 {
			return string(x.Pairs[0].Value)
		}
	case *kvrpcpb.ScanResponse:
		if len(x.Pairs) == 1 {
			return string(x.Pairs[0].Value)
		}
	}
	return ""
}

// excludedLimit mirrors retry.isSleepExcluded[tikvServerBusy] (regenerated into the model by tools/facts).
const excludedLimit = 600000

// capSlack: how far beyond the explicit bound a call may go before it is stopped and reported as unbounded
const capSlack = 25

func (r *runner) bound() int {
	return sendBound(3, r.nBackoff)
}

// sendBound: the explicit bound of theorem attempts_bounded on the implementation's own constant and observation:
// #replicas * maxReplicaAttempt + #replicas free leader-hint redirects + 1 + (back-offs taken so far) — every further
// redirect costs a back-off.
func sendBound(replicas, backoffs int) int {
	return replicas*locate.VerifMaxReplicaAttempt() + replicas + 1 + backoffs
}

// ---------------------------------------------------------------------------------------------- op execution

type session struct {
	cfg    caseCfg
	hasCfg bool
	script []string
}

func defaultCfg() caseCfg {
	return caseCfg{cmd: "get", mode: "leader", budget: 2000, live: "rrr", slow: "000", ts: "valid", seed: 1}
}

func main() {
	run := vx.Start()
	defer run.Finish()
	util.EnableFailpoints()
	if err := failpoint.Enable("tikvclient/fastBackoffBySkipSleep", "return"); err != nil {
		panic(err)
	}
	failpoint.Enable("tikvclient/skipStoreCheckUntilHealth", "return")
	if v := os.Getenv("C10_CAP"); v != "" {
		maxAttemptsCap, _ = strconv.Atoi(v)
	}
	sharedMvcc = mocktikv.MustNewMVCCStore()
	defer sharedMvcc.Close()
	oc := mocktikv.NewCluster(sharedMvcc)
	mocktikv.BootstrapWithSingleStore(oc)
	var err error
	sharedOracle, err = oracles.NewPdOracle(mocktikv.NewPDClient(oc), &oracles.PDOracleOptions{UpdateInterval: time.Hour, NoUpdateTS: true})
	if err != nil {
		panic(err)
	}
	defer sharedOracle.Close()

	s := &session{cfg: defaultCfg()}
	exec := func(line string) {
		w := strings.Fields(line)
		if len(w) == 0 {
			return
		}
		switch w[0] {
		case "reset":
			s.cfg, s.hasCfg, s.script = defaultCfg(), false, nil
			run.Emit(line, "ok")
		case "cfg":
			c, ok := parseCfg(w)
			if !ok {
				run.Emit(line, "bad-op")
				return
			}
			s.cfg, s.hasCfg = c, true
			run.Emit(line, "ok")
		case "f":
			if len(w) != 2 || !isFault(w[1]) {
				run.Emit(line, "bad-op")
				return
			}
			s.script = append(s.script, w[1])
			run.Emit(line, "ok")
		case "go":
			if len(w) != 2 || !isFault(w[1]) {
				run.Emit(line, "bad-op")
				return
			}
			run.Emit(line, "ok")
			r := &runner{cfg: s.cfg, script: append([]string{}, s.script...), tail: w[1]}
			var out outcome
			func() {
				defer func() {
					if e := recover(); e != nil {
						out.lines = append(out.lines, "prop bounded")
						out.impl = append(out.impl, "panic")
					}
				}()
				out = r.run()
			}()
			for i := range out.lines {
				run.Emit(out.lines[i], out.impl[i])
			}
			run.Count("result:" + resultOf(out))
			run.Count(fmt.Sprintf("sends:%02d", min(len(r.rpcs), 40)/5*5))
			run.Count(fmt.Sprintf("backoffs:%02d", min(r.nBackoff, 40)/5*5))
			if r.bothFlags > 0 {
				run.Count("obs:both-flags")
			}
			run.Count("mode:" + s.cfg.mode)
			run.Count("cmd:" + s.cfg.cmd)
			run.Stats["rpcs"] += len(r.rpcs)
			run.Stats["cases"]++
		case "valcmds":
			run.Emit(valcmdsLine(), "ok") // always the enumeration of THIS binary
		case "chk-validate":
			run.Emit(line, vx.Guard(func() string { return execChkValidate(w) }))
			run.Count("validate-family")
		case "ev", "prop", "sel", "selinit", "selend":
			// derived lines: regenerated by `go`, ignored on input
		default:
			run.Emit(line, "bad-op")
		}
	}

	if run.Replay != "" {
		for _, l := range run.ReplayLines() {
			if strings.HasPrefix(l, "#") {
				run.Comment(strings.TrimSpace(l[1:]))
				continue
			}
			exec(l)
		}
		return
	}
	generate(run, exec)
}

func resultOf(o outcome) string {
	for _, l := range o.lines {
		if strings.HasPrefix(l, "ev result ") {
			w := strings.Fields(l)
			return w[2] + ":" + w[3]
		}
	}
	return "none"
}
