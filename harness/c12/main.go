//go:build verif

// C12 harness: drives the real mocktikv MVCCStore (method level) with the op lines shared with cgv-c12.
package main

import (
	"bytes"
	"fmt"
	"math"
	"sort"
	"strconv"
	"strings"

	"github.com/pingcap/kvproto/pkg/kvrpcpb"
	"github.com/pkg/errors"
	"github.com/tikv/client-go/v2/internal/mockstore/mocktikv"
	"github.com/tikv/client-go/v2/verifx/vx"
)

var store mocktikv.MVCCStore

func hx(b []byte) string {
	if len(b) == 0 {
		return "~"
	}
	return vx.Hex(b)
}
func unhx(s string) []byte {
	if s == "~" {
		return nil
	}
	b, ok := vx.UnHex(s)
	if !ok {
		panic("bad hex " + s)
	}
	return b
}
func num(s string) uint64 {
	v, err := strconv.ParseUint(s, 10, 64)
	if err != nil {
		panic("bad num " + s)
	}
	return v
}
func list(s string) []string {
	if s == "-" {
		return nil
	}
	return strings.Split(s, ",")
}
func showList(l []string) string {
	if len(l) == 0 {
		return "-"
	}
	return strings.Join(l, ",")
}
func b01(b bool) string {
	if b {
		return "1"
	}
	return "0"
}
func nums(s string) []uint64 {
	var out []uint64
	for _, x := range list(s) {
		out = append(out, num(x))
	}
	return out
}
func hexes(s string) [][]byte {
	var out [][]byte
	for _, x := range list(s) {
		out = append(out, unhx(x))
	}
	return out
}

func kerr(err error) string {
	switch e := errors.Cause(err).(type) {
	case *mocktikv.ErrLocked:
		return fmt.Sprintf("locked(%s,%s,%d,%d,%d,%d,%d)", hx(e.Key.Raw()), hx(e.Primary), e.StartTS, e.ForUpdateTS, e.TTL, e.TxnSize, int(e.LockType))
	case *mocktikv.ErrKeyAlreadyExist:
		return fmt.Sprintf("exist(%s)", hx(e.Key))
	case *mocktikv.ErrConflict:
		return fmt.Sprintf("conflict(%d,%d,%d,%s,%s)", e.StartTS, e.ConflictTS, e.ConflictCommitTS, hx(e.Key), b01(e.CanForceLock))
	case *mocktikv.ErrDeadlock:
		return fmt.Sprintf("deadlock(%s,%d)", hx(e.LockKey), e.LockTS)
	case mocktikv.ErrRetryable:
		return "retryable"
	case mocktikv.ErrAbort:
		return "abort"
	case mocktikv.ErrAlreadyCommitted:
		return fmt.Sprintf("committed(%d)", uint64(e))
	case *mocktikv.ErrAlreadyRollbacked:
		s := e.Error()
		_ = s
		return "rolledback" + verifRolledBack(e)
	case *mocktikv.ErrCommitTSExpired:
		return fmt.Sprintf("expired(%d,%d,%s,%d)", e.StartTs, e.AttemptedCommitTs, hx(e.Key), e.MinCommitTs)
	case *mocktikv.ErrTxnNotFound:
		return fmt.Sprintf("notfound(%d,%s)", e.StartTs, hx(e.PrimaryKey))
	case *mocktikv.ErrAssertionFailed:
		return fmt.Sprintf("assert(%d,%s,%d,%d,%d)", e.StartTS, hx(e.Key), int(e.Assertion), e.ExistingStartTS, e.ExistingCommitTS)
	}
	return "abort"
}

func verifRolledBack(e *mocktikv.ErrAlreadyRollbacked) string {
	st, k := mocktikv.VerifRolledBackFields(e)
	return fmt.Sprintf("(%d,%s)", st, hx(k))
}

func iso(s string) kvrpcpb.IsolationLevel {
	if s == "1" {
		return kvrpcpb.IsolationLevel_SI
	}
	return kvrpcpb.IsolationLevel_RC
}

func pairStr(p mocktikv.Pair, withTS bool) string {
	if p.Err != nil {
		return "E:" + kerr(p.Err)
	}
	ts := uint64(0)
	if withTS {
		ts = p.CommitTS
	}
	return fmt.Sprintf("%s=%s@%d", hx(p.Key), hx(p.Value), ts)
}

type mut struct {
	m   *kvrpcpb.Mutation
	act kvrpcpb.PrewriteRequest_PessimisticAction
}

func parseMuts(s string) []mut {
	var out []mut
	for _, x := range list(s) {
		f := strings.Split(x, ":")
		if len(f) != 5 {
			panic("bad mutation " + x)
		}
		out = append(out, mut{
			m:   &kvrpcpb.Mutation{Op: kvrpcpb.Op(num(f[0])), Key: unhx(f[1]), Value: unhx(f[2]), Assertion: kvrpcpb.Assertion(num(f[3]))},
			act: kvrpcpb.PrewriteRequest_PessimisticAction(num(f[4])),
		})
	}
	return out
}

func dumpKey(k []byte) string { return mocktikv.VerifDumpKey(store, k, hx) }

var pool [][]byte // every key ever mentioned in this case (for dumpall/audit)

func note(k []byte) {
	for _, p := range pool {
		if bytes.Equal(p, k) {
			return
		}
	}
	pool = append(pool, append([]byte{}, k...))
	sort.Slice(pool, func(i, j int) bool { return bytes.Compare(pool[i], pool[j]) < 0 })
}

func dumpAll() string {
	var out []string
	for _, k := range pool {
		d := dumpKey(k)
		if d == "L- -" {
			continue
		}
		out = append(out, hx(k)+"→"+d)
	}
	return showList(out)
}

func optBytes(v []byte, present bool) string {
	if !present {
		return "~"
	}
	return hx(v)
}

// raw executes one correspondence command
func raw(w []string) (string, bool) {
	switch {
	case w[0] == "get" && len(w) == 5:
		note(unhx(w[1]))
		p := store.GetKVPair(unhx(w[1]), num(w[2]), iso(w[3]), nums(w[4]))
		if p.Err != nil {
			return "err " + kerr(p.Err), true
		}
		if p.Value == nil {
			return "ok ~ 0", true
		}
		return fmt.Sprintf("ok %s %d", hx(p.Value), p.CommitTS), true
	case w[0] == "bget" && len(w) == 5:
		ks := hexes(w[1])
		for _, k := range ks {
			note(k)
		}
		var out []string
		for _, p := range store.BatchGet(ks, num(w[2]), iso(w[3]), nums(w[4])) {
			out = append(out, pairStr(p, true))
		}
		return showList(out), true
	case (w[0] == "scan" || w[0] == "rscan") && len(w) == 7:
		var ps []mocktikv.Pair
		if w[0] == "scan" {
			ps = store.Scan(unhx(w[1]), unhx(w[2]), int(num(w[3])), num(w[4]), iso(w[5]), nums(w[6]))
		} else {
			ps = store.ReverseScan(unhx(w[1]), unhx(w[2]), int(num(w[3])), num(w[4]), iso(w[5]), nums(w[6]))
		}
		var out []string
		for _, p := range ps {
			out = append(out, pairStr(p, false))
		}
		return showList(out), true
	case w[0] == "prewrite" && len(w) == 10:
		ms := parseMuts(w[9])
		req := &kvrpcpb.PrewriteRequest{PrimaryLock: unhx(w[1]), StartVersion: num(w[2]), ForUpdateTs: num(w[3]), LockTtl: num(w[4]),
			MinCommitTs: num(w[5]), TxnSize: num(w[6]), Context: &kvrpcpb.Context{ResolvedLocks: nums(w[8])}}
		if w[7] == "1" {
			req.AssertionLevel = kvrpcpb.AssertionLevel_Strict
		}
		allSkip := true
		for _, m := range ms {
			note(m.m.Key)
			req.Mutations = append(req.Mutations, m.m)
			if m.act != kvrpcpb.PrewriteRequest_SKIP_PESSIMISTIC_CHECK {
				allSkip = false
			}
		}
		if !allSkip {
			for _, m := range ms {
				req.PessimisticActions = append(req.PessimisticActions, m.act)
			}
		}
		var out []string
		for _, e := range store.Prewrite(req) {
			if e == nil {
				out = append(out, "nil")
			} else {
				out = append(out, kerr(e))
			}
		}
		return showList(out), true
	case w[0] == "plock" && len(w) == 8:
		ms := parseMuts(w[7])
		fl := w[6]
		req := &kvrpcpb.PessimisticLockRequest{PrimaryLock: unhx(w[1]), StartVersion: num(w[2]), ForUpdateTs: num(w[3]), LockTtl: num(w[4]),
			MinCommitTs: num(w[5]), ReturnValues: strings.Contains(fl, "r"), CheckExistence: strings.Contains(fl, "c"),
			LockOnlyIfExists: strings.Contains(fl, "e"), WaitTimeout: 1}
		if strings.Contains(fl, "f") {
			req.WakeUpMode = kvrpcpb.PessimisticLockWakeUpMode_WakeUpModeForceLock
		}
		if strings.Contains(fl, "n") {
			req.WaitTimeout = mocktikv.LockNoWait
		}
		for _, m := range ms {
			note(m.m.Key)
			req.Mutations = append(req.Mutations, m.m)
		}
		resp := store.PessimisticLock(req)
		var errs, res, vals, nf []string
		for _, e := range resp.Errors {
			errs = append(errs, keyErrStr(e))
		}
		for _, r := range resp.Results {
			switch r.Type {
			case kvrpcpb.PessimisticLockKeyResultType_LockResultNormal:
				res = append(res, fmt.Sprintf("N(%s,%s)", hx(r.Value), b01(r.Existence)))
			case kvrpcpb.PessimisticLockKeyResultType_LockResultLockedWithConflict:
				res = append(res, fmt.Sprintf("C(%s,%s,%d)", hx(r.Value), b01(r.Existence), r.LockedWithConflictTs))
			default:
				res = append(res, "F")
			}
		}
		for _, v := range resp.Values {
			vals = append(vals, hx(v))
		}
		for _, v := range resp.NotFounds {
			nf = append(nf, b01(v))
		}
		return fmt.Sprintf("errs=%s res=%s vals=%s nf=%s", showList(errs), showList(res), showList(vals), showList(nf)), true
	case w[0] == "prollback" && len(w) == 6:
		ks := hexes(w[3])
		for _, k := range ks {
			note(k)
		}
		errs := store.PessimisticRollback(unhx(w[1]), unhx(w[2]), ks, num(w[4]), num(w[5]))
		for _, e := range errs {
			if e != nil {
				return "err " + kerr(e), true
			}
		}
		return "ok", true
	case w[0] == "commit" && len(w) == 4:
		ks := hexes(w[1])
		for _, k := range ks {
			note(k)
		}
		if err := store.Commit(ks, num(w[2]), num(w[3])); err != nil {
			return "err " + kerr(err), true
		}
		return "ok", true
	case w[0] == "rollback" && len(w) == 3:
		ks := hexes(w[1])
		for _, k := range ks {
			note(k)
		}
		if err := store.Rollback(ks, num(w[2])); err != nil {
			return "err " + kerr(err), true
		}
		return "ok", true
	case w[0] == "cleanup" && len(w) == 4:
		note(unhx(w[1]))
		if err := store.Cleanup(unhx(w[1]), num(w[2]), num(w[3])); err != nil {
			return "err " + kerr(err), true
		}
		return "ok", true
	case w[0] == "status" && len(w) == 7:
		note(unhx(w[1]))
		ttl, commit, action, err := store.CheckTxnStatus(unhx(w[1]), num(w[2]), num(w[3]), num(w[4]), w[5] == "1", w[6] == "1")
		if err != nil {
			return "err " + kerr(err), true
		}
		return fmt.Sprintf("ok ttl=%d commit=%d action=%d", ttl, commit, int(action)), true
	case w[0] == "heartbeat" && len(w) == 4:
		note(unhx(w[1]))
		ttl, err := store.TxnHeartBeat(unhx(w[1]), num(w[2]), num(w[3]))
		if err != nil {
			return "err " + kerr(err), true
		}
		return fmt.Sprintf("ok %d", ttl), true
	case w[0] == "scanlock" && len(w) == 4:
		locks, err := store.ScanLock(unhx(w[1]), unhx(w[2]), num(w[3]))
		if err != nil {
			return "err " + kerr(err), true
		}
		var out []string
		for _, l := range locks {
			out = append(out, fmt.Sprintf("%s/%s/%d", hx(l.Key), hx(l.PrimaryLock), l.LockVersion))
		}
		return showList(out), true
	case w[0] == "resolve" && len(w) == 5:
		if err := store.ResolveLock(unhx(w[1]), unhx(w[2]), num(w[3]), num(w[4])); err != nil {
			return "err " + kerr(err), true
		}
		return "ok", true
	case w[0] == "bresolve" && len(w) == 4:
		infos := map[uint64]uint64{}
		for _, x := range list(w[3]) {
			f := strings.Split(x, ":")
			infos[num(f[0])] = num(f[1])
		}
		if err := store.BatchResolveLock(unhx(w[1]), unhx(w[2]), infos); err != nil {
			return "err " + kerr(err), true
		}
		return "ok", true
	case w[0] == "gc" && len(w) == 4:
		if err := store.GC(unhx(w[1]), unhx(w[2]), num(w[3])); err != nil {
			return "err locked", true
		}
		return "ok", true
	case w[0] == "delrange" && len(w) == 3:
		if err := store.DeleteRange(unhx(w[1]), unhx(w[2])); err != nil {
			return "err " + kerr(err), true
		}
		return "ok", true
	case w[0] == "dump" && len(w) == 2:
		note(unhx(w[1]))
		return dumpKey(unhx(w[1])), true
	}
	return "", false
}

func keyErrStr(e *kvrpcpb.KeyError) string {
	switch {
	case e.Locked != nil:
		l := e.Locked
		return fmt.Sprintf("locked(%s,%s,%d,%d,%d,%d,%d)", hx(l.Key), hx(l.PrimaryLock), l.LockVersion, l.LockForUpdateTs, l.LockTtl, l.TxnSize, int(l.LockType))
	case e.AlreadyExist != nil:
		return fmt.Sprintf("exist(%s)", hx(e.AlreadyExist.Key))
	case e.Conflict != nil:
		c := e.Conflict
		// CanForceLock is not carried by the wire form: a conflict that reaches the response was not forced
		return fmt.Sprintf("conflict(%d,%d,%d,%s,0)", c.StartTs, c.ConflictTs, c.ConflictCommitTs, hx(c.Key))
	case e.Deadlock != nil:
		return fmt.Sprintf("deadlock(%s,%d)", hx(e.Deadlock.LockKey), e.Deadlock.LockTs)
	case e.Retryable != "":
		return "retryable"
	case e.CommitTsExpired != nil:
		c := e.CommitTsExpired
		return fmt.Sprintf("expired(%d,%d,%s,%d)", c.StartTs, c.AttemptedCommitTs, hx(c.Key), c.MinCommitTs)
	case e.TxnNotFound != nil:
		return fmt.Sprintf("notfound(%d,%s)", e.TxnNotFound.StartTs, hx(e.TxnNotFound.PrimaryKey))
	case e.AssertionFailed != nil:
		a := e.AssertionFailed
		return fmt.Sprintf("assert(%d,%s,%d,%d,%d)", a.StartTs, hx(a.Key), int(a.Assertion), a.ExistingStartTs, a.ExistingCommitTs)
	}
	return "abort"
}

// ---- property ops: the C12 oracle evaluated on the implementation through its own API

func auditAll() string {
	for _, k := range pool {
		d := dumpKey(k)
		// W(type,startTS,commitTS,value): collect startTS of rollbacks and of data records
		rb := map[string]bool{}
		data := map[string]bool{}
		for _, f := range strings.Split(d, "W(")[1:] {
			p := strings.Split(f, ",")
			if p[0] == "2" {
				rb[p[1]] = true
			} else {
				data[p[1]] = true
			}
		}
		for s := range rb {
			if data[s] {
				return "FAIL both-committed-and-rolled-back"
			}
		}
	}
	return "ok"
}

func readsAt(keys [][]byte, tss []uint64) string {
	var out []string
	for _, ts := range tss {
		for _, k := range keys {
			p := store.GetKVPair(k, ts, kvrpcpb.IsolationLevel_RC, nil)
			switch {
			case p.Err != nil:
				out = append(out, "E")
			case p.Value == nil:
				out = append(out, "~")
			default:
				out = append(out, hx(p.Value))
			}
		}
	}
	return strings.Join(out, ",")
}

func anyLockLE(sp uint64) bool {
	locks, _ := store.ScanLock(nil, nil, sp)
	return len(locks) > 0
}

func exec(line string) (out string) {
	defer func() {
		if e := recover(); e != nil {
			out = "panic"
		}
	}()
	w := strings.Fields(line)
	if len(w) == 0 {
		return "bad-op"
	}
	switch {
	case w[0] == "reset":
		if store != nil {
			store.Close()
		}
		store = mocktikv.MustNewMVCCStore()
		pool = nil
		return "ok"
	case w[0] == "dumpall":
		return dumpAll()
	case w[0] == "audit":
		return auditAll()
	case w[0] == "idem":
		r1, ok := raw(w[1:])
		if !ok {
			return "bad-op"
		}
		d1 := dumpAll()
		d1k := map[string]string{}
		for _, k := range pool {
			d1k[string(k)] = dumpKey(k)
		}
		d1Key := func(k []byte) string {
			if v, ok := d1k[string(k)]; ok {
				return v
			}
			return "L- -"
		}
		r2, _ := raw(w[1:])
		d2 := dumpAll()
		c := func(r string) string {
			if w[1] == "status" {
				return strings.Split(r, " action=")[0]
			}
			return r
		}
		if w[1] == "commit" && len(w) == 5 {
			for _, k := range hexes(w[2]) {
				has := false
				for _, f := range strings.Split(strings.SplitN(d1Key(k), " ", 2)[1], "W(")[1:] {
					p := strings.Split(f, ",")
					if p[1] == w[3] && p[0] != "2" {
						has = true
					}
				}
				if !has {
					return "ok n/a"
				}
			}
		}
		if c(r1) != c(r2) {
			return "FAIL answers differ: " + r1 + " | " + r2
		}
		if d1 != d2 {
			return "FAIL second run changed the store"
		}
		return "ok " + r1
	case w[0] == "scaneq" && len(w) == 7:
		a, b, ts, is, rs, keys := unhx(w[1]), unhx(w[2]), num(w[3]), iso(w[4]), nums(w[5]), hexes(w[6])
		var fwd, rev, gets []string
		for _, p := range store.Scan(a, b, 1000, ts, is, rs) {
			fwd = append(fwd, pairStr(p, false))
		}
		for _, p := range store.ReverseScan(a, b, 1000, ts, is, rs) {
			rev = append(rev, pairStr(p, false))
		}
		for _, k := range keys {
			if bytes.Compare(a, k) <= 0 && (len(b) == 0 || bytes.Compare(k, b) < 0) {
				p := store.GetKVPair(k, ts, is, rs)
				if p.Err != nil {
					gets = append(gets, "E:"+kerr(p.Err))
				} else if p.Value != nil {
					gets = append(gets, pairStr(mocktikv.Pair{Key: k, Value: p.Value}, false))
				}
			}
		}
		for i, j := 0, len(rev)-1; i < j; i, j = i+1, j-1 {
			rev[i], rev[j] = rev[j], rev[i]
		}
		if strings.Join(fwd, " ") == strings.Join(gets, " ") && strings.Join(fwd, " ") == strings.Join(rev, " ") {
			return "ok"
		}
		return "FAIL scan-vs-gets"
	case w[0] == "late" && len(w) == 3:
		k, st := unhx(w[1]), w[2]
		note(k)
		d := dumpKey(k)
		found := false
		for _, f := range strings.Split(d, "W(")[1:] {
			if strings.Split(f, ",")[1] == st {
				found = true
			}
		}
		if !found {
			return "ok n/a"
		}
		errs := store.Prewrite(&kvrpcpb.PrewriteRequest{Mutations: []*kvrpcpb.Mutation{{Op: kvrpcpb.Op_Put, Key: k, Value: []byte{0x4c}}},
			PrimaryLock: k, StartVersion: num(st), LockTtl: 1, Context: &kvrpcpb.Context{}})
		for _, e := range errs {
			if e != nil {
				return "ok rejected"
			}
		}
		return "FAIL late prewrite accepted"
	case w[0] == "gcprop" && len(w) == 3:
		sp := num(w[1])
		keys := hexes(w[2])
		for _, k := range keys {
			note(k)
		}
		tss := []uint64{sp, sp + 1, sp + 1000, math.MaxUint64}
		before := readsAt(keys, tss)
		had := anyLockLE(sp)
		err := store.GC(nil, nil, sp)
		if err != nil {
			if had {
				return "ok refused"
			}
			return "FAIL gc refused without a lock at or below the safe point"
		}
		if had {
			return "FAIL gc ran over a lock at or below the safe point"
		}
		if readsAt(keys, tss) == before {
			return "ok"
		}
		return "FAIL gc changed a read at or above the safe point"
	case w[0] == "ownplock" && len(w) == 4:
		k, st, fu := unhx(w[1]), num(w[2]), num(w[3])
		note(k)
		l, ok := lockOf(k)
		if !ok || l[0] != w[2] || l[3] == "5" {
			return "ok n/a"
		}
		before := dumpKey(k)
		resp := store.PessimisticLock(&kvrpcpb.PessimisticLockRequest{Mutations: []*kvrpcpb.Mutation{{Op: kvrpcpb.Op_PessimisticLock, Key: k}},
			PrimaryLock: k, StartVersion: st, ForUpdateTs: fu, LockTtl: 5, WaitTimeout: mocktikv.LockNoWait})
		if len(resp.Errors) == 0 {
			return "FAIL pessimistic lock over own prewrite lock accepted"
		}
		if dumpKey(k) != before {
			return "FAIL refused but lock changed"
		}
		return "ok refused"
	case w[0] == "ownpessprewrite" && len(w) == 3:
		k, st := unhx(w[1]), num(w[2])
		note(k)
		l, ok := lockOf(k)
		if !ok || l[0] != w[2] || l[3] != "5" {
			return "ok n/a"
		}
		errs := store.Prewrite(&kvrpcpb.PrewriteRequest{Mutations: []*kvrpcpb.Mutation{{Op: kvrpcpb.Op_Put, Key: k, Value: []byte{0x50}}},
			PrimaryLock: unhx(l[1]), StartVersion: st, ForUpdateTs: num(l[5]), LockTtl: num(l[4]) / 2,
			PessimisticActions: []kvrpcpb.PrewriteRequest_PessimisticAction{kvrpcpb.PrewriteRequest_DO_PESSIMISTIC_CHECK}, Context: &kvrpcpb.Context{}})
		failed := false
		for _, e := range errs {
			if _, isC := errors.Cause(e).(*mocktikv.ErrConflict); e != nil && isC {
				return "FAIL write conflict re-checked over own pessimistic lock"
			}
			failed = failed || e != nil
		}
		// the prewrite lock inherits what the pessimistic lock had accumulated: the larger ttl (heart-beats) and the larger
		// min-commit-ts (pushes by readers; kept on the primary's lock only, like the store does for every prewrite) — the request asked for half the ttl and no min-commit-ts
		if n, ok2 := lockOf(k); !failed && ok2 && n[0] == w[2] && n[3] != "5" && (num(n[4]) < num(l[4]) || (l[1] == w[1] && num(n[7]) < num(l[7]))) {
			return "FAIL prewrite over own pessimistic lock lost its ttl or min-commit-ts"
		}
		return "ok"
	case w[0] == "pesscommit" && len(w) == 4:
		k, st, ct := unhx(w[1]), num(w[2]), num(w[3])
		note(k)
		l, ok := lockOf(k)
		if !ok || l[0] != w[2] || l[3] != "5" || num(l[7]) > ct {
			return "ok n/a"
		}
		before := readsAt([][]byte{k}, []uint64{math.MaxUint64})
		if err := store.Commit([][]byte{k}, st, ct); err != nil {
			return "FAIL commit of pessimistic lock failed"
		}
		if readsAt([][]byte{k}, []uint64{math.MaxUint64}) != before {
			return "FAIL committing a pessimistic lock changed data"
		}
		return "ok"
	case w[0] == "marker" && len(w) > 2:
		cmd := w[1:]
		var keys [][]byte
		var st string
		switch {
		case cmd[0] == "cleanup" && len(cmd) == 4:
			keys, st = [][]byte{unhx(cmd[1])}, cmd[2]
		case cmd[0] == "rollback" && len(cmd) == 3:
			keys, st = [][]byte{unhx(cmd[1])}, cmd[2]
		case cmd[0] == "status" && len(cmd) == 7 && cmd[5] == "1" && cmd[6] == "0":
			keys, st = [][]byte{unhx(cmd[1])}, cmd[2]
		case cmd[0] == "resolve" && len(cmd) == 5 && cmd[1] == "~" && cmd[2] == "~" && cmd[4] == "0":
			st = cmd[3]
			locks, _ := store.ScanLock(nil, nil, math.MaxUint64)
			for _, l := range locks {
				if u(l.LockVersion) == st {
					keys = append(keys, l.Key)
				}
			}
		default:
			return "bad-op"
		}
		for _, k := range keys {
			note(k)
		}
		r, ok := raw(cmd)
		if !ok {
			return "bad-op"
		}
		if !(r == "ok" || strings.HasPrefix(r, "ok ttl=0 commit=0")) {
			return "ok n/a"
		}
		type kd struct{ gone, marker bool }
		var ks []kd
		for _, k := range keys {
			d := dumpKey(k)
			x := kd{gone: true}
			if l, ok := lockOf(k); ok && l[0] == st {
				x.gone = false
			}
			for _, f := range strings.Split(d, "W(")[1:] {
				p := strings.Split(f, ",")
				if p[1] == st && p[0] != "2" {
					x.gone = false
				}
				if p[1] == st && p[0] == "2" {
					x.marker = true
				}
			}
			ks = append(ks, x)
		}
		for _, x := range ks {
			if !x.gone {
				return "ok n/a"
			}
		}
		for _, x := range ks {
			if !x.marker {
				return "FAIL rollback left no marker"
			}
		}
		return "ok marker"
	}
	r, ok := raw(w)
	if !ok {
		return "bad-op"
	}
	return r
}

// lockOf returns the fields of L(startTS,primary,value,op,ttl,forUpdateTS,txnSize,minCommitTS) of a key
func lockOf(k []byte) ([]string, bool) {
	d := dumpKey(k)
	if !strings.HasPrefix(d, "L(") {
		return nil, false
	}
	return strings.Split(d[2:strings.Index(d, ")")], ","), true
}

// ---------------------------------------------------------------- generation

var keyPool = [][]byte{{0x61}, {0x62}, {0x63}, {0x64}}

type txn struct {
	start, commit, forUpdate uint64
	primary                  []byte
	finished                 map[string]bool
	locked                   map[string]bool // keys this transaction probably holds a lock on (from successful answers)
}

// lockedKeys picks keys the transaction holds locks on most of the time (so that commit/rollback/heartbeat
// mostly meet a lock instead of "txn not found"), random keys otherwise
func (g *gen) txnKeys(t *txn, n int) [][]byte {
	var have [][]byte
	for _, k := range keyPool {
		if t.locked[string(k)] {
			have = append(have, k)
		}
	}
	if len(have) == 0 || g.r.Chance(25) {
		return g.keys(n)
	}
	var out [][]byte
	for i := 0; i < n; i++ {
		out = append(out, have[g.r.Intn(len(have))])
	}
	return out
}

type gen struct {
	r    *vx.Rand
	txns []*txn
	tsAt []uint64 // distinct timestamps in play (for "current"/read ts)
}

const phys = uint64(1) << 18

// newCase draws pairwise distinct timestamps in a random order: for every transaction a start, a commit (> start)
// and a for-update ts (> start), physical parts 10 ms apart so that ttl ∈ {0,5,15,1000} expires or not.
func (g *gen) newCase(ntx int) {
	n := ntx*3 + 4
	perm := make([]uint64, n)
	for i := range perm {
		perm[i] = uint64(i+1)*10*phys + uint64(g.r.Intn(3))
	}
	for i := n - 1; i > 0; i-- {
		j := g.r.Intn(i + 1)
		perm[i], perm[j] = perm[j], perm[i]
	}
	g.txns = nil
	for t := 0; t < ntx; t++ {
		a := []uint64{perm[3*t], perm[3*t+1], perm[3*t+2]}
		sort.Slice(a, func(i, j int) bool { return a[i] < a[j] })
		tx := &txn{start: a[0], finished: map[string]bool{}, locked: map[string]bool{}}
		if g.r.Bool() {
			tx.commit, tx.forUpdate = a[1], a[2]
		} else {
			tx.commit, tx.forUpdate = a[2], a[1]
		}
		tx.primary = keyPool[g.r.Intn(len(keyPool))]
		g.txns = append(g.txns, tx)
	}
	g.tsAt = perm
}

func (g *gen) key() []byte   { return keyPool[g.r.Intn(len(keyPool))] }
func (g *gen) anyTS() uint64 { return g.tsAt[g.r.Intn(len(g.tsAt))] }
func (g *gen) readTS() string {
	if g.r.Chance(10) {
		return strconv.FormatUint(math.MaxUint64, 10)
	}
	if g.r.Chance(30) { // later than everything in the case
		return strconv.FormatUint(uint64(len(g.tsAt)+2)*10*phys, 10)
	}
	return strconv.FormatUint(g.anyTS(), 10)
}
func (g *gen) ttl() uint64 { return []uint64{0, 5, 15, 1000}[g.r.Intn(4)] }
func (g *gen) keys(n int) [][]byte {
	var out [][]byte
	for i := 0; i < n; i++ {
		out = append(out, g.key())
	}
	return out
}
func (g *gen) resolved() string {
	if g.r.Chance(75) {
		return "-"
	}
	return strconv.FormatUint(g.txns[g.r.Intn(len(g.txns))].start, 10)
}
func (g *gen) rangeStr() (string, string) {
	switch g.r.Intn(4) {
	case 0:
		return "~", "~"
	case 1:
		return hx(g.key()), "~"
	case 2:
		return "~", hx(g.key())
	}
	a, b := g.key(), g.key()
	if bytes.Compare(a, b) > 0 {
		a, b = b, a
	}
	return hx(a), hx(b)
}
func hexList(ks [][]byte) string {
	var s []string
	for _, k := range ks {
		s = append(s, hx(k))
	}
	return showList(s)
}
func u(v uint64) string { return strconv.FormatUint(v, 10) }

// one random command line (full alphabet)
func (g *gen) cmd() string {
	t := g.txns[g.r.Intn(len(g.txns))]
	switch g.r.Intn(24) {
	case 0, 1:
		return fmt.Sprintf("get %s %s %s %s", hx(g.key()), g.readTS(), b01(g.r.Chance(85)), g.resolved())
	case 2:
		return fmt.Sprintf("bget %s %s %s %s", hexList(g.keys(1+g.r.Intn(3))), g.readTS(), b01(g.r.Chance(85)), g.resolved())
	case 3:
		a, b := g.rangeStr()
		return fmt.Sprintf("scan %s %s %d %s %s %s", a, b, g.r.Intn(5), g.readTS(), b01(g.r.Chance(85)), g.resolved())
	case 4:
		a, b := g.rangeStr()
		return fmt.Sprintf("rscan %s %s %d %s %s %s", a, b, g.r.Intn(5), g.readTS(), b01(g.r.Chance(85)), g.resolved())
	case 5, 6, 7, 8: // prewrite (optimistic or pessimistic)
		n := 1 + g.r.Intn(2)
		pess := g.r.Chance(40)
		assertOn := g.r.Chance(25)
		var ms []string
		for i := 0; i < n; i++ {
			k := g.key()
			if i == 0 && g.r.Chance(60) {
				k = t.primary
			}
			op := []int{0, 0, 1, 2, 4, 6}[g.r.Intn(6)]
			if pess && op == 6 {
				op = 0
			}
			val := "~"
			if op == 0 || op == 4 {
				val = fmt.Sprintf("%02x%02x", 0x76, byte(g.r.Intn(200)))
			}
			as := 0
			if assertOn {
				as = g.r.Intn(3)
			}
			act := 0
			if pess {
				act = []int{1, 1, 2, 0}[g.r.Intn(4)]
			}
			ms = append(ms, fmt.Sprintf("%d:%s:%s:%d:%d", op, hx(k), val, as, act))
		}
		fu := uint64(0)
		if pess {
			fu = t.forUpdate
		}
		mc := uint64(0)
		if g.r.Chance(40) {
			mc = t.start + 1
		}
		return fmt.Sprintf("prewrite %s %d %d %d %d %d %s %s %s", hx(t.primary), t.start, fu, g.ttl(), mc, g.r.Intn(3), b01(assertOn), g.resolved(), strings.Join(ms, ","))
	case 9, 10, 11: // pessimistic lock (not after the txn finished on the key)
		n := 1 + g.r.Intn(2)
		var ms []string
		for i := 0; i < n; i++ {
			k := g.key()
			if t.finished[string(k)] {
				continue
			}
			as := []int{0, 0, 0, 2}[g.r.Intn(4)]
			ms = append(ms, fmt.Sprintf("5:%s:~:%d:0", hx(k), as))
		}
		if len(ms) == 0 {
			return fmt.Sprintf("get %s %s 1 -", hx(g.key()), g.readTS())
		}
		flags := ""
		switch g.r.Intn(6) {
		case 0:
			flags = "r"
		case 1:
			flags = "c"
		case 2:
			flags = "re"
		case 3:
			flags = "rf"
		case 4:
			flags = "f"
		}
		if strings.Contains(flags, "f") && len(ms) > 1 { // force-lock mode is a single-key API (client and TiKV contract)
			ms = ms[:1]
		}
		if g.r.Chance(90) { // waiting sleeps 5 ms in the mock; keep it rare
			flags += "n"
		}
		if flags == "" {
			flags = "-"
		}
		mc := uint64(0)
		if g.r.Chance(30) {
			mc = t.forUpdate + 1
		}
		return fmt.Sprintf("plock %s %d %d %d %d %s %s", hx(t.primary), t.start, t.forUpdate, g.ttl(), mc, flags, strings.Join(ms, ","))
	case 12:
		a, b := g.rangeStr()
		ks := "-"
		if g.r.Chance(70) {
			ks = hexList(g.keys(1 + g.r.Intn(2)))
		}
		return fmt.Sprintf("prollback %s %s %s %d %d", a, b, ks, t.start, t.forUpdate)
	case 13, 14:
		ks := g.txnKeys(t, 1+g.r.Intn(2))
		for _, k := range ks {
			t.finished[string(k)] = true
		}
		return fmt.Sprintf("commit %s %d %d", hexList(ks), t.start, t.commit)
	case 15:
		ks := g.txnKeys(t, 1+g.r.Intn(2))
		for _, k := range ks {
			t.finished[string(k)] = true
		}
		return fmt.Sprintf("rollback %s %d", hexList(ks), t.start)
	case 16:
		k := g.txnKeys(t, 1)[0]
		t.finished[string(k)] = true
		cur := g.anyTS()
		if g.r.Chance(20) {
			cur = 0
		}
		return fmt.Sprintf("cleanup %s %d %d", hx(k), t.start, cur)
	case 17, 18:
		k := t.primary
		if g.r.Chance(25) {
			k = g.key()
		}
		t.finished[string(k)] = true
		caller := g.anyTS()
		if g.r.Chance(10) {
			caller = math.MaxUint64
		}
		cur := g.anyTS()
		if g.r.Chance(15) {
			cur = math.MaxUint64
		}
		return fmt.Sprintf("status %s %d %d %d %s %s", hx(k), t.start, caller, cur, b01(g.r.Bool()), b01(g.r.Chance(30)))
	case 19:
		k := t.primary
		if g.r.Chance(25) {
			k = g.key()
		}
		return fmt.Sprintf("heartbeat %s %d %d", hx(k), t.start, []uint64{1, 10, 20, 2000}[g.r.Intn(4)])
	case 20:
		a, b := g.rangeStr()
		return fmt.Sprintf("scanlock %s %s %s", a, b, g.readTS())
	case 21:
		a, b := g.rangeStr()
		c := uint64(0)
		if g.r.Bool() {
			c = t.commit
		}
		for _, k := range keyPool {
			t.finished[string(k)] = true
		}
		return fmt.Sprintf("resolve %s %s %d %d", a, b, t.start, c)
	case 22:
		a, b := g.rangeStr()
		var infos []string
		for _, x := range g.txns {
			if g.r.Bool() {
				c := uint64(0)
				if g.r.Bool() {
					c = x.commit
				}
				infos = append(infos, fmt.Sprintf("%d:%d", x.start, c))
				for _, k := range keyPool {
					x.finished[string(k)] = true
				}
			}
		}
		return fmt.Sprintf("bresolve %s %s %s", a, b, showList(infos))
	default:
		switch g.r.Intn(3) {
		case 0:
			a, b := g.rangeStr()
			return fmt.Sprintf("gc %s %s %d", a, b, g.anyTS())
		case 1:
			if g.r.Chance(20) {
				a, b := g.rangeStr()
				return fmt.Sprintf("delrange %s %s", a, b)
			}
		}
		return "dump " + hx(g.key())
	}
}

// property ops sprinkled after commands
func (g *gen) prop() string {
	t := g.txns[g.r.Intn(len(g.txns))]
	switch g.r.Intn(16) {
	case 9:
		return fmt.Sprintf("ownplock %s %d %d", hx(g.txnKeys(t, 1)[0]), t.start, t.forUpdate)
	case 10:
		return fmt.Sprintf("ownpessprewrite %s %d", hx(g.txnKeys(t, 1)[0]), t.start)
	case 11:
		k := g.txnKeys(t, 1)[0]
		t.finished[string(k)] = true
		return fmt.Sprintf("pesscommit %s %d %d", hx(k), t.start, t.commit)
	case 12:
		k := g.key()
		t.finished[string(k)] = true
		cur := g.anyTS()
		if g.r.Chance(30) {
			cur = 0
		}
		return fmt.Sprintf("marker cleanup %s %d %d", hx(k), t.start, cur)
	case 13:
		k := g.key()
		t.finished[string(k)] = true
		return fmt.Sprintf("marker rollback %s %d", hx(k), t.start)
	case 14:
		t.finished[string(t.primary)] = true
		return fmt.Sprintf("marker status %s %d %d %d 1 0", hx(t.primary), t.start, g.anyTS(), g.anyTS())
	case 15:
		for _, k := range keyPool {
			t.finished[string(k)] = true
		}
		return fmt.Sprintf("marker resolve ~ ~ %d 0", t.start)
	case 0:
		return "audit"
	case 1:
		a, b := g.rangeStr()
		return fmt.Sprintf("scaneq %s %s %s %s %s %s", a, b, g.readTS(), b01(g.r.Chance(80)), g.resolved(), hexList(keyPool))
	case 2:
		return fmt.Sprintf("late %s %d", hx(g.key()), t.start)
	case 3:
		return fmt.Sprintf("gcprop %d %s", g.anyTS(), hexList(keyPool))
	case 4: // commit of whatever is there, twice
		ks := g.txnKeys(t, 1)
		t.finished[string(ks[0])] = true
		return fmt.Sprintf("idem commit %s %d %d", hexList(ks), t.start, t.commit)
	case 5:
		ks := g.keys(1)
		t.finished[string(ks[0])] = true
		return fmt.Sprintf("idem rollback %s %d", hexList(ks), t.start)
	case 6:
		t.finished[string(t.primary)] = true
		return fmt.Sprintf("idem status %s %d %d %d %s 0", hx(t.primary), t.start, g.anyTS(), g.anyTS(), b01(g.r.Bool()))
	case 7:
		c := uint64(0)
		if g.r.Bool() {
			c = t.commit
		}
		for _, k := range keyPool {
			t.finished[string(k)] = true
		}
		return fmt.Sprintf("idem resolve ~ ~ %d %d", t.start, c)
	default:
		k := g.key()
		return fmt.Sprintf("idem prewrite %s %d 0 %d 0 0 0 - 0:%s:7677:0:0", hx(t.primary), t.start, g.ttl(), hx(k))
	}
}

var curGen *gen
var phase = "x" // x = exhaustive small-depth phase, r = random phase

// learn updates the generator's belief about which keys a transaction holds locks on
func learn(f []string, res string) {
	if curGen == nil {
		return
	}
	var st string
	var muts string
	switch {
	case f[0] == "prewrite" && len(f) == 10 && !strings.Contains(res, "("):
		st, muts = f[2], f[9]
	case f[0] == "plock" && len(f) == 8 && strings.HasPrefix(res, "errs=- "):
		st, muts = f[2], f[7]
	default:
		return
	}
	for _, t := range curGen.txns {
		if u(t.start) == st {
			for _, m := range strings.Split(muts, ",") {
				p := strings.Split(m, ":")
				if p[0] != "6" {
					t.locked[string(unhx(p[1]))] = true
				}
			}
		}
	}
}

func main() {
	run := vx.Start()
	defer run.Finish()
	do := func(op string) {
		f := strings.Fields(op)
		k := f[0]
		if k == "idem" {
			k += ":" + f[1]
		}
		run.Count(k)
		res := exec(op)
		// result class: which branches of the store the generator actually reaches
		cls := ""
		switch {
		case strings.HasPrefix(res, "err "):
			cls = "err:" + strings.SplitN(strings.Fields(res)[1], "(", 2)[0]
		case strings.HasPrefix(res, "errs="):
			cls = "errs:" + strings.SplitN(strings.Fields(res)[0][5:], "(", 2)[0] + " " + strings.SplitN(strings.Fields(res)[1], "(", 2)[0]
		case strings.HasPrefix(res, "ok ttl="):
			cls = strings.Fields(res)[3]
		case f[0] == "prewrite":
			cls = strings.SplitN(strings.SplitN(res, ",", 2)[0], "(", 2)[0]
		case strings.HasPrefix(res, "ok") || strings.HasPrefix(res, "FAIL") || res == "panic" || res == "bad-op":
			cls = strings.Join(strings.Fields(res+" - -")[:2], " ")
		default:
			cls = "data"
			if res == "-" {
				cls = "empty"
			}
		}
		run.Count("res:" + phase + ":" + k + ":" + cls)
		run.Emit(op, res)
		learn(f, res)
	}
	if run.Replay != "" {
		exec("reset")
		for _, l := range run.ReplayLines() {
			if strings.HasPrefix(l, "#") {
				run.Comment(strings.TrimSpace(l[1:]))
				continue
			}
			run.Emit(l, exec(l))
		}
		return
	}
	g := &gen{r: vx.NewRand(run.Seed)}
	curGen = g
	ncase := 0
	newCase := func(ntx int) {
		ncase++
		run.Comment(fmt.Sprintf("case %d", ncase))
		g.newCase(ntx)
		do("reset")
	}
	// 1. exhaustive small depth over a reduced alphabet: 2 transactions, 2 keys, all sequences of length `depth`
	depth := 3
	nRand, lenRand := 250, 40
	if run.Thorough() {
		depth = 4
		nRand, lenRand = 1500, 120
	}
	g.newCase(2)
	t1, t2 := g.txns[0], g.txns[1]
	ka, kb := "61", "62"
	t1.primary, t2.primary = []byte{0x61}, []byte{0x61}
	alpha := []string{
		fmt.Sprintf("prewrite 61 %d 0 5 0 0 0 - 0:61:7601:0:0,0:62:7602:0:0", t1.start),
		fmt.Sprintf("prewrite 61 %d 0 15 %d 0 0 - 1:61:~:0:0", t2.start, t2.start+1),
		fmt.Sprintf("plock 61 %d %d 5 0 rn 5:61:~:0:0", t2.start, t2.forUpdate),
		fmt.Sprintf("prewrite 61 %d %d 5 0 0 0 - 0:61:7603:0:1", t2.start, t2.forUpdate),
		fmt.Sprintf("commit %s %d %d", ka, t1.start, t1.commit),
		fmt.Sprintf("commit %s %d %d", kb, t1.start, t1.commit),
		fmt.Sprintf("commit %s %d %d", ka, t2.start, t2.commit),
		fmt.Sprintf("rollback %s,%s %d", ka, kb, t1.start),
		fmt.Sprintf("rollback %s %d", ka, t2.start),
		fmt.Sprintf("cleanup %s %d 0", ka, t1.start),
		fmt.Sprintf("status 61 %d %d %d 1 0", t1.start, t2.start, g.tsAt[len(g.tsAt)-1]),
		fmt.Sprintf("status 61 %d %d %d 0 1", t2.start, t1.start, g.tsAt[len(g.tsAt)-2]),
		fmt.Sprintf("resolve ~ ~ %d %d", t1.start, t1.commit),
		fmt.Sprintf("resolve ~ ~ %d 0", t2.start),
		fmt.Sprintf("gc ~ ~ %d", g.tsAt[0]),
	}
	tail := []string{"audit", "dumpall",
		fmt.Sprintf("scaneq ~ ~ %d 1 - 61,62", uint64(math.MaxUint64)),
		fmt.Sprintf("get 61 %d 1 -", g.tsAt[1]),
		fmt.Sprintf("late 61 %d", t1.start), fmt.Sprintf("late 61 %d", t2.start),
		fmt.Sprintf("ownplock 61 %d %d", t1.start, t1.forUpdate), fmt.Sprintf("ownpessprewrite 61 %d", t2.start),
		fmt.Sprintf("pesscommit 61 %d %d", t2.start, t2.commit), fmt.Sprintf("marker cleanup 62 %d 0", t2.start),
		fmt.Sprintf("marker rollback 62 %d", t1.start), "audit", "dumpall"}
	idx := make([]int, depth)
	for {
		ncase++
		run.Comment(fmt.Sprintf("case %d", ncase))
		do("reset")
		t2done := false
		for _, i := range idx {
			// precondition of the property (noLockAfterFinish): no pessimistic lock request of a transaction reaches a
			// key after the transaction was committed or rolled back on it
			if i == 2 && t2done {
				continue
			}
			if i == 6 || i == 8 || i == 11 || i == 13 {
				t2done = true
			}
			do(alpha[i])
		}
		for _, t := range tail {
			if ncase%2 == 0 && strings.HasPrefix(t, "ownpessprewrite") {
				continue // leave t2's pessimistic lock in place for pesscommit in every other case
			}
			do(t)
		}
		p := depth - 1
		for p >= 0 {
			idx[p]++
			if idx[p] < len(alpha) {
				break
			}
			idx[p] = 0
			p--
		}
		if p < 0 {
			break
		}
	}
	run.Stats["exhaustive_cases"] = ncase
	// 1b. directed family: commit order inverts start order on one key.  A transaction with the OLDER start ts
	// (pessimistic: it locks the key at a for-update ts above the other's commit, so its prewrite is not a conflict)
	// commits ABOVE a transaction with a newer start ts; the newer-start transaction's record is then buried under a
	// record whose start ts is smaller.  Afterwards every late / repeated recovery request for both transactions, reads
	// at timestamps between the records, and the never-both audit.
	phase = "d"
	nInv := 40
	if run.Thorough() {
		nInv = 400
	}
	for c := 0; c < nInv; c++ {
		newCase(2)
		base := uint64(10+g.r.Intn(5)) * 10 * phys
		told := &txn{start: base, forUpdate: base + 4*10*phys, commit: base + 5*10*phys, finished: map[string]bool{}, locked: map[string]bool{}}
		tnew := &txn{start: base + 10*phys, commit: base + 2*10*phys + uint64(g.r.Intn(3)), forUpdate: base + 10*phys, finished: map[string]bool{}, locked: map[string]bool{}}
		k := g.key()
		told.primary, tnew.primary = k, k
		g.txns = []*txn{told, tnew}
		g.tsAt = []uint64{told.start, tnew.start, tnew.commit, told.forUpdate, told.commit, base + 3*10*phys, base + 7*10*phys}
		if g.r.Chance(50) { // an older committed version underneath
			do(fmt.Sprintf("prewrite %s %d 0 5 0 1 0 - 0:%s:7600:0:0", hx(k), base-5*10*phys, hx(k)))
			do(fmt.Sprintf("commit %s %d %d", hx(k), base-5*10*phys, base-4*10*phys))
		}
		switch g.r.Intn(3) {
		case 0:
			do(fmt.Sprintf("prewrite %s %d 0 5 0 1 0 - 0:%s:7611:0:0", hx(k), tnew.start, hx(k)))
			do(fmt.Sprintf("commit %s %d %d", hx(k), tnew.start, tnew.commit))
		case 1: // the newer-start transaction is rolled back instead: a marker gets buried
			do(fmt.Sprintf("prewrite %s %d 0 5 0 1 0 - 0:%s:7611:0:0", hx(k), tnew.start, hx(k)))
			do(fmt.Sprintf("rollback %s %d", hx(k), tnew.start))
		default: // a lock-only record of the newer-start transaction
			do(fmt.Sprintf("prewrite %s %d 0 5 0 1 0 - 2:%s:~:0:0", hx(k), tnew.start, hx(k)))
			do(fmt.Sprintf("commit %s %d %d", hx(k), tnew.start, tnew.commit))
		}
		tnew.finished[string(k)] = true
		do(fmt.Sprintf("plock %s %d %d 5 0 r 5:%s:~:0:0", hx(k), told.start, told.forUpdate, hx(k)))
		do(fmt.Sprintf("prewrite %s %d %d 5 0 1 0 - 0:%s:7622:0:1", hx(k), told.start, told.forUpdate, hx(k)))
		do(fmt.Sprintf("commit %s %d %d", hx(k), told.start, told.commit))
		told.finished[string(k)] = true
		do("dumpall")
		for _, t := range []*txn{tnew, told, tnew} {
			switch g.r.Intn(6) {
			case 0:
				do(fmt.Sprintf("idem commit %s %d %d", hx(k), t.start, t.commit))
			case 1:
				do(fmt.Sprintf("idem rollback %s %d", hx(k), t.start))
			case 2:
				do(fmt.Sprintf("idem status %s %d %d %d %s 0", hx(k), t.start, g.anyTS(), g.anyTS(), b01(g.r.Bool())))
			case 3:
				do(fmt.Sprintf("marker cleanup %s %d 0", hx(k), t.start))
			case 4:
				do(fmt.Sprintf("late %s %d", hx(k), t.start))
			default:
				do(fmt.Sprintf("idem resolve ~ ~ %d 0", t.start))
			}
		}
		do(fmt.Sprintf("scaneq ~ ~ %s 1 - %s", g.readTS(), hexList(keyPool)))
		do(fmt.Sprintf("get %s %d 1 -", hx(k), g.anyTS()))
		do("audit")
		do("dumpall")
	}
	run.Stats["inversion_cases"] = nInv
	// 1c. directed family: what a pessimistic lock accumulated survives the prewrite over it.  The primary's pessimistic
	// lock gets its ttl raised by heart-beats and its min-commit-ts pushed by status checks of readers (or carries one from
	// the lock request); the prewrite then asks for less of both (`ownpessprewrite`: half the ttl, no min-commit-ts), and a
	// commit at or below the pushed value must be refused.
	nCarry := 40
	if run.Thorough() {
		nCarry = 400
	}
	for c := 0; c < nCarry; c++ {
		newCase(2)
		base := uint64(10+g.r.Intn(5)) * 10 * phys
		t := &txn{start: base, forUpdate: base + 10*phys, commit: base + 2*10*phys, finished: map[string]bool{}, locked: map[string]bool{}}
		k := g.key()
		k2 := g.key()
		t.primary = k
		g.txns = []*txn{t, {start: base + 9*10*phys, primary: k, finished: map[string]bool{}, locked: map[string]bool{}}}
		g.tsAt = []uint64{t.start, t.forUpdate, t.commit, base + 3*10*phys, base + 6*10*phys}
		minc := uint64(0)
		if g.r.Chance(40) {
			minc = t.forUpdate + 1 + uint64(g.r.Intn(3))
		}
		muts := fmt.Sprintf("5:%s:~:0:0", hx(k))
		if string(k2) != string(k) && g.r.Bool() {
			muts += fmt.Sprintf(",5:%s:~:0:0", hx(k2))
		}
		do(fmt.Sprintf("plock %s %d %d %d %d r %s", hx(k), t.start, t.forUpdate, []uint64{0, 5, 15, 1000}[g.r.Intn(4)], minc, muts))
		for i, n := 0, g.r.Intn(4); i < n; i++ {
			switch g.r.Intn(3) {
			case 0:
				do(fmt.Sprintf("heartbeat %s %d %d", hx(k), t.start, 10+g.r.Intn(2000)))
			default: // a reader's status check: pushes min-commit-ts above its start ts while the lock is alive
				caller := base + uint64(3+g.r.Intn(4))*10*phys + uint64(g.r.Intn(5))
				do(fmt.Sprintf("status %s %d %d %d 0 %s", hx(k), t.start, caller, t.start+uint64(g.r.Intn(3)), b01(g.r.Chance(20))))
			}
		}
		do("dumpall")
		do(fmt.Sprintf("ownpessprewrite %s %d", hx(k), t.start))
		if string(k2) != string(k) {
			do(fmt.Sprintf("ownpessprewrite %s %d", hx(k2), t.start))
		}
		do("dumpall")
		do(fmt.Sprintf("commit %s %d %d", hx(k), t.start, t.commit+uint64(g.r.Intn(6))*10*phys))
		do("audit")
		do("dumpall")
	}
	run.Stats["carry_over_cases"] = nCarry
	phase = "r"
	// 2. random sequences over the full alphabet
	for c := 0; c < nRand; c++ {
		newCase(2 + g.r.Intn(3))
		// prelude: in most cases one or two transactions run the protocol to the end first (put/delete of 1-2 keys,
		// prewrite then commit), so that the later commands meet committed versions, not an empty store
		if g.r.Chance(75) {
			for _, t := range g.txns[:1+g.r.Intn(2)] {
				ks := g.keys(1 + g.r.Intn(2))
				var ms []string
				for i, k := range ks {
					if i == 1 && bytes.Equal(ks[0], k) {
						continue
					}
					if g.r.Chance(80) {
						ms = append(ms, fmt.Sprintf("0:%s:76%02x:0:0", hx(k), byte(g.r.Intn(200))))
					} else {
						ms = append(ms, fmt.Sprintf("1:%s:~:0:0", hx(k)))
					}
				}
				do(fmt.Sprintf("prewrite %s %d 0 %d 0 %d 0 - %s", hx(ks[0]), t.start, g.ttl(), len(ms), strings.Join(ms, ",")))
				if g.r.Chance(85) {
					do(fmt.Sprintf("commit %s %d %d", hexList(ks), t.start, t.commit))
					for _, k := range ks {
						t.finished[string(k)] = true
					}
				}
			}
		}
		// … and sometimes a later transaction leaves a committed LOCK-type record (lock-only mutation) or a rollback
		// marker ABOVE such a put: reads, scans and reverse scans must look through those records
		if len(g.txns) >= 3 && g.r.Chance(50) {
			t := g.txns[2]
			k := g.key()
			if g.r.Chance(60) {
				do(fmt.Sprintf("prewrite %s %d 0 %d 0 1 0 - 2:%s:~:0:0", hx(k), t.start, g.ttl(), hx(k)))
				do(fmt.Sprintf("commit %s %d %d", hx(k), t.start, t.commit))
			} else {
				do(fmt.Sprintf("prewrite %s %d 0 %d 0 1 0 - 0:%s:7699:0:0", hx(k), t.start, g.ttl(), hx(k)))
				do(fmt.Sprintf("rollback %s %d", hx(k), t.start))
			}
			t.finished[string(k)] = true
			late := strconv.FormatUint(uint64(len(g.tsAt)+2)*10*phys, 10)
			do(fmt.Sprintf("scaneq ~ ~ %s 1 - %s", late, hexList(keyPool)))
			do(fmt.Sprintf("rscan ~ ~ 10 %s 1 -", late))
			do(fmt.Sprintf("get %s %s 1 -", hx(k), late))
		}
		n := 5 + g.r.Intn(lenRand)
		for i := 0; i < n; i++ {
			do(g.cmd())
			if g.r.Chance(25) {
				do(g.prop())
			}
			if g.r.Chance(10) {
				do("dumpall")
			}
		}
		// epilogue: late and repeated recovery requests for every transaction of the case, on every key (what confused
		// resolvers, retried RPCs and GC send long after a transaction ended), then the never-both audit.  A store
		// that loses track of a transaction's record under newer or older versions shows up here as a property failure.
		if g.r.Chance(70) {
			for _, t := range g.txns {
				for _, k := range keyPool {
					t.finished[string(k)] = true
				}
				switch g.r.Intn(5) {
				case 0:
					do(fmt.Sprintf("idem commit %s %d %d", hexList(g.txnKeys(t, 1)), t.start, t.commit))
				case 1:
					do(fmt.Sprintf("idem rollback %s %d", hexList(g.keys(1+g.r.Intn(2))), t.start))
				case 2:
					do(fmt.Sprintf("idem status %s %d %d %d 1 0", hx(t.primary), t.start, g.anyTS(), g.anyTS()))
				case 3:
					do(fmt.Sprintf("marker cleanup %s %d 0", hx(g.key()), t.start))
				default:
					do(fmt.Sprintf("idem resolve ~ ~ %d 0", t.start))
				}
			}
		}
		do("audit")
		do("dumpall")
	}
}
