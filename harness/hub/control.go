//go:build verif

package hub

import (
	"fmt"
	"os"
	"sort"
	"strings"
	"time"
)

// Chooser drives the gate in controlled mode (exhaustive enumeration): at every decision point — all clients quiescent,
// i.e. every client thread is blocked at the gate or has finished — the gate hands over the sorted labels of the enabled
// events and executes the one that is returned.  ok=false aborts the scenario (the world is closed by the caller).
type Chooser interface {
	Choose(enabled []string) (label string, ok bool)
}

// label of a pending event: client + command with the wall-clock dependent fields (lock ttl) blanked, so that the same
// event has the same label in every replay of a schedule prefix.
func (p *pendingRPC) label() string {
	t := strings.Fields(p.cmd)
	if len(t) > 4 {
		switch t[0] {
		case "prewrite", "plock":
			t[4] = "T"
		}
	}
	if len(t) > 3 && t[0] == "heartbeat" {
		t[3] = "T"
	}
	if n := len(t); n > 0 && strings.HasPrefix(t[n-1], "maxcommit=") {
		t[n-1] = "maxcommit=T" // start ts + wall-clock time since the transaction started + safe window
	}
	return p.c.name + " " + strings.Join(t, " ")
}

// pseudo registers a gated pseudo-event (no RPC, no trace line: "begin" — the moment a transaction fetches its start
// timestamp) and blocks until the scheduler releases it.  No-op outside controlled mode.
func (g *Gate) pseudo(c *Client, what string) {
	if g.w.opt.Control == nil {
		return
	}
	p := &pendingRPC{c: c, done: make(chan rpcResult, 1), kind: what, cmd: what}
	g.mu.Lock()
	if g.stopped || c.crashed.Load() {
		g.mu.Unlock()
		return
	}
	g.pending = append(g.pending, p)
	g.mu.Unlock()
	g.poke()
	<-p.done
}

// SetRunning marks the client's program as started / finished (controlled mode needs to know which clients still have
// a foreground thread).
func (c *Client) SetRunning(b bool) { c.running.Store(b) }

// quiescent: every client has a pending event, or its program is finished and its background work has drained.
// sig is a signature of the pending set (to detect that it is still changing).
func (g *Gate) quiescent() (ok bool, sig string, npend int) {
	clients := g.w.liveClients()
	g.mu.Lock()
	per := map[*Client]int{}
	labels := make([]string, 0, len(g.pending))
	for _, p := range g.pending {
		per[p.c]++
		labels = append(labels, p.label())
	}
	busy := g.busy
	g.mu.Unlock()
	sort.Strings(labels)
	sig = strings.Join(labels, "|")
	if busy {
		return false, sig, len(labels)
	}
	for _, c := range clients {
		if per[c] > 0 {
			continue
		}
		if c.running.Load() || c.inCall.Load() > 0 {
			return false, sig, len(labels)
		}
		if n := wgCount(c); n >= 0 && n != c.baseWG {
			return false, sig, len(labels)
		}
	}
	return true, sig, len(labels)
}

// controlledLoop replaces the random scheduler: wait for quiescence (stable over the settle period), compute the enabled
// events (stutter pruning below), ask the chooser, execute.
func (g *Gate) controlledLoop() {
	settle := g.w.opt.Settle
	if settle < 150*time.Microsecond {
		settle = 150 * time.Microsecond
	}
	for {
		// wait until quiescent and unchanged for the settle period
		var stableSince time.Time
		last := "\x00"
		waitStart := time.Now()
		for {
			g.mu.Lock()
			stopped := g.stopped
			g.mu.Unlock()
			if stopped {
				return
			}
			ok, sig, n := g.quiescent()
			if !ok {
				stableSince = time.Time{}
			} else if stableSince.IsZero() || sig != last {
				last = sig
				stableSince = time.Now()
			}
			if ok && !stableSince.IsZero() && time.Since(stableSince) >= settle {
				if n > 0 {
					break
				}
				// nothing to schedule: everybody is finished; idle until new work arrives or the world closes
				Pause(200 * time.Microsecond)
				waitStart = time.Now()
				continue
			}
			if time.Since(waitStart) > 5*time.Second {
				if os.Getenv("HUB_DEBUG") != "" {
					for _, c := range g.w.liveClients() {
						fmt.Fprintf(os.Stderr, "not quiescent: client %s running=%v inCall=%d wg=%d base=%d pending=%d sig=%q ok=%v\n", c.name, c.running.Load(), c.inCall.Load(), wgCount(c), c.baseWG, g.PendingOf(c), sig, ok)
					}
				}
				g.w.Hang("not-quiescent")
				return
			}
			Pause(30 * time.Microsecond)
		}
		if !g.controlledStep() {
			return
		}
	}
}

// controlledStep executes one event chosen by the chooser.  Stutter pruning: a request whose label this client has
// already executed against the same store fingerprint (the store has not changed since: a retry of a blocked read,
// prewrite or lock while nobody else moved) is not offered, unless nothing else is enabled.
func (g *Gate) controlledStep() bool {
	rec := g.w.rec
	rec.mu.Lock()
	defer rec.mu.Unlock()
	g.mu.Lock()
	if g.stopped {
		g.mu.Unlock()
		return false
	}
	fp := g.w.fingerprintLocked()
	byLabel := map[string]*pendingRPC{}
	var fresh, stale []string
	for _, p := range g.pending {
		l := p.label()
		for byLabel[l] != nil {
			l += "'"
		}
		byLabel[l] = p
		if g.seen[l+"\x00"+fp] {
			stale = append(stale, l)
		} else {
			fresh = append(fresh, l)
		}
	}
	enabled := fresh
	if len(stale) > 0 && len(fresh) > 0 {
		rec.run.Count("exh:stutter-pruned")
	}
	sort.Strings(enabled)
	sort.Strings(stale)
	g.mu.Unlock()
	label, ok := "", true
	switch {
	case len(enabled) == 0 && len(stale) == 0:
		return true
	case len(enabled) == 0:
		// every enabled request is a repeat against an unchanged store (clients blocking each other until a retry budget
		// runs out): not a decision point — the one that ran longest ago goes next (round robin), the chooser is not asked
		rec.run.Count("exh:forced-stutter")
		owners := map[string]bool{}
		for _, l := range stale {
			owners[strings.SplitN(l, " ", 2)[0]] = true
		}
		if len(owners) > 1 {
			// several clients block each other until one of their retry budgets runs out; which one gives up first depends on
			// the random jitter of the back-off, not on the schedule: the enumeration cuts the schedule here
			if !g.w.closed {
				rec.run.Comment("livelock-cut: every enabled request repeats an already answered one against an unchanged store")
				rec.run.Count("exh:livelock-cut")
			}
			g.w.cut = true
			g.w.closed = true
			go g.shutdown()
			return false
		}
		label = stale[0]
		for _, l := range stale {
			if g.lastRun[l] < g.lastRun[label] {
				label = l
			}
		}
	default:
		rec.mu.Unlock()
		label, ok = g.w.opt.Control.Choose(enabled)
		rec.mu.Lock()
	}
	if ok && label == "" {
		// the chooser wants to look again after a moment (an event it expects has not arrived yet)
		rec.mu.Unlock()
		Pause(250 * time.Microsecond)
		rec.mu.Lock()
		return true
	}
	p := byLabel[label]
	if !ok || p == nil {
		// abort: nothing of this world is recorded any more, everybody blocked at the gate is released with an error
		g.w.closed = true
		go g.shutdown()
		return false
	}
	g.mu.Lock()
	if g.stopped {
		g.mu.Unlock()
		return false
	}
	for i, q := range g.pending {
		if q == p {
			g.pending = append(g.pending[:i], g.pending[i+1:]...)
			break
		}
	}
	if g.seen == nil {
		g.seen = map[string]bool{}
	}
	g.seen[label+"\x00"+fp] = true
	if g.lastRun == nil {
		g.lastRun = map[string]int{}
	}
	g.lastRun[label] = g.steps + 1
	p.picked = true
	g.busy = true
	g.steps++
	tooDeep := g.steps > 400
	var id int
	if p.req != nil {
		g.nextID++
		id = g.nextID
		g.total++
		p.c.rpcs.Add(1)
	}
	g.mu.Unlock()
	if tooDeep {
		if !g.w.closed && !g.w.hung {
			g.w.hung = true
			rec.run.Emit("hang depth-bound", "FAIL hang")
			rec.run.Count("hang")
		}
		g.w.closed = true
		go g.shutdown()
		return false
	}
	var res rpcResult
	park := false
	if p.req != nil {
		res, park = g.execute(id, p, nil)
	}
	g.mu.Lock()
	g.busy = false
	g.last = time.Now()
	if park {
		g.parked = append(g.parked, p)
	}
	g.mu.Unlock()
	if !park {
		p.done <- res
	}
	return true
}
