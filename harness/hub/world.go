//go:build verif

package hub

import (
	"bytes"
	"context"
	"fmt"
	"math"
	"sort"
	"strings"
	"sync"
	"sync/atomic"
	"time"

	"github.com/pingcap/kvproto/pkg/metapb"
	"github.com/pkg/errors"
	"github.com/tikv/client-go/v2/internal/mockstore/mocktikv"
	"github.com/tikv/client-go/v2/tikv"
	"github.com/tikv/client-go/v2/verifx/vx"
	pd "github.com/tikv/pd/client"
	"github.com/tikv/pd/client/clients/tso"
	"github.com/tikv/pd/client/pkg/caller"
)

// Recorder writes trace events to the vx.Run.  Its mutex is THE trace lock: an RPC executes on the mock store, a timestamp is
// allocated, a topology change is applied and an api begin/end line is written only while holding it, so the order of the
// lines is the real-time order of those steps.
type Recorder struct {
	mu    sync.Mutex
	run   *vx.Run
	cases int
}

func NewRecorder(run *vx.Run) *Recorder { return &Recorder{run: run} }

// Count records a generator statistic (goroutine-safe).
func (r *Recorder) Count(k string) {
	r.mu.Lock()
	r.run.Count(k)
	r.mu.Unlock()
}

// Cases returns the number of scenarios started so far.
func (r *Recorder) Cases() int { r.mu.Lock(); defer r.mu.Unlock(); return r.cases }

// ErrDropped is what a client sees for a request (or response) the fault script swallowed: an ordinary transport error.
var ErrDropped = errors.New("verif: rpc dropped")

// errDead is returned to everything that belongs to a world that has been torn down.
var errDead = errors.New("verif: world closed")

// Options of one scenario's world.
type Options struct {
	Stores  int           // 1 (default) or more: every region has one peer on every store
	Splits  [][]byte      // initial region boundaries (raw keys)
	Seed    uint64        // scheduler seed
	Settle  time.Duration // scheduler settle delay (default 100µs)
	StartMs int64         // initial physical clock (default 1000)
	Control Chooser       // controlled (exhaustive) mode: the chooser decides every scheduling step; Begin becomes a gated event
	Full    *LeanProc     // profile `full`: KV commands are executed by this cgv-full server instead of mocktikv's MVCC store
	MaxRPCs int           // RPC budget of the scenario (default 2000): beyond it the scenario is reported as hung
}

// World = one scenario: a fresh mock cluster + MVCC store + PD with a virtual clock, a gate/scheduler, and logical clients
// (one KVStore each).
type World struct {
	rec     *Recorder
	opt     Options
	cluster *mocktikv.Cluster
	mvcc    mocktikv.MVCCStore
	rpc     *mocktikv.RPCClient
	pdc     pd.Client
	gate    *Gate
	lean    *leanStore // profile full
	closed  bool       // guarded by rec.mu

	physical int64 // guarded by rec.mu
	logical  int64

	cmu     sync.Mutex
	clients []*Client
	keys    map[string]bool // every key the scenario touched through the API (for audit mvcc)
	hung    bool
	cut     bool // controlled mode: the schedule was cut at a livelock (guarded by rec.mu)
}

// NewWorld emits `# case n` + `reset` and builds the world.
func NewWorld(rec *Recorder, opt Options) *World {
	if opt.Stores <= 0 {
		opt.Stores = 1
	}
	if opt.Settle == 0 {
		opt.Settle = 100 * time.Microsecond
	}
	if opt.MaxRPCs == 0 {
		opt.MaxRPCs = 2000
	}
	if opt.StartMs == 0 {
		opt.StartMs = 1000
	}
	rpc, cluster, pdc, err := mocktikv.NewTiKVAndPDClient("", nil)
	if err != nil {
		panic(err)
	}
	w := &World{rec: rec, opt: opt, cluster: cluster, mvcc: rpc.MvccStore, rpc: rpc, pdc: pdc, physical: opt.StartMs, keys: map[string]bool{}}
	if opt.Stores == 1 {
		mocktikv.BootstrapWithSingleStore(cluster)
	} else {
		mocktikv.BootstrapWithMultiStores(cluster, opt.Stores)
	}
	rec.mu.Lock()
	rec.cases++
	rec.run.Comment(fmt.Sprintf("case %d", rec.cases))
	if opt.Full != nil {
		// the Lean store is shared by all scenarios of the run: every use of it happens under the trace lock
		w.lean = &leanStore{w: w, rpc: rpc, proc: opt.Full}
		if a := opt.Full.Ask("reset"); a != "ok" {
			panic("cgv-full: reset answered " + a)
		}
		rec.run.Emit("reset full", "ok")
	} else {
		rec.run.Emit("reset", "ok")
	}
	rec.mu.Unlock()
	for _, k := range opt.Splits {
		w.splitLocked(k, false)
	}
	w.gate = newGate(w, vx.NewRand(opt.Seed))
	return w
}

// emit writes one event under the trace lock (dropped once the world is closed).
func (w *World) emit(line string) {
	w.rec.mu.Lock()
	w.emitLocked(line)
	w.rec.mu.Unlock()
}

func (w *World) emitLocked(line string) {
	if !w.closed {
		w.rec.run.Emit(line, "ok")
	}
}

// Note emits a comment line (ignored by the judge, kept in replays).
func (w *World) Note(s string) {
	w.rec.mu.Lock()
	if !w.closed {
		w.rec.run.Comment(s)
	}
	w.rec.mu.Unlock()
}

func (w *World) Count(k string) {
	w.rec.mu.Lock()
	w.rec.run.Count(k)
	w.rec.mu.Unlock()
}

// ---------------------------------------------------------------- topology

// regionRange returns the raw key range of a region ("", "" and false if it does not exist).
func (w *World) regionRange(id uint64) ([]byte, []byte, bool) {
	r, _ := w.cluster.GetRegion(id)
	if r == nil {
		return nil, nil, false
	}
	return mocktikv.MvccKey(r.StartKey).Raw(), mocktikv.MvccKey(r.EndKey).Raw(), true
}

// splitLocked splits the region containing key at key.  With emit it must be called with the trace lock held.
func (w *World) splitLocked(key []byte, emit bool) bool {
	if len(key) == 0 {
		return false
	}
	mk := mocktikv.NewMvccKey(key)
	r, leader, _, _ := w.cluster.GetRegionByKey(mk)
	if r == nil || bytes.Equal(r.StartKey, mk) {
		return false
	}
	newID := w.cluster.AllocID()
	peerIDs := w.cluster.AllocIDs(len(r.Peers))
	leaderPeer := peerIDs[0]
	for i, p := range r.Peers {
		if leader != nil && p.Id == leader.Id {
			leaderPeer = peerIDs[i]
		}
	}
	w.cluster.Split(r.Id, newID, key, peerIDs, leaderPeer)
	if emit {
		w.emitLocked(fmt.Sprintf("topo split %d %s", r.Id, Hx(key)))
	}
	return true
}

// Split splits at a raw key (emits `topo split`).
func (w *World) Split(key []byte) bool {
	w.rec.mu.Lock()
	defer w.rec.mu.Unlock()
	return w.splitLocked(key, true)
}

// moveLeaderLocked moves the leader of the region containing key to its next peer.
func (w *World) moveLeaderLocked(key []byte) bool {
	r, leader, _, _ := w.cluster.GetRegionByKey(mocktikv.NewMvccKey(key))
	if r == nil || len(r.Peers) < 2 {
		return false
	}
	var next *metapb.Peer
	for i, p := range r.Peers {
		if leader != nil && p.Id == leader.Id {
			next = r.Peers[(i+1)%len(r.Peers)]
		}
	}
	if next == nil {
		next = r.Peers[0]
	}
	w.cluster.ChangeLeader(r.Id, next.Id)
	w.emitLocked(fmt.Sprintf("topo leader %d %d", r.Id, next.StoreId))
	return true
}

// MoveLeader moves the leader of key's region to the next store (emits `topo leader`); no-op with one store.
func (w *World) MoveLeader(key []byte) bool {
	w.rec.mu.Lock()
	defer w.rec.mu.Unlock()
	return w.moveLeaderLocked(key)
}

// ---------------------------------------------------------------- virtual clock / PD

// AdvanceClock moves the physical clock forward (emits `clock`).
func (w *World) AdvanceClock(ms int64) {
	w.rec.mu.Lock()
	w.physical += ms
	w.logical = 0
	w.emitLocked(fmt.Sprintf("clock %d", w.physical))
	w.rec.mu.Unlock()
}

// Now returns the current virtual physical time.
func (w *World) Now() int64 {
	w.rec.mu.Lock()
	defer w.rec.mu.Unlock()
	return w.physical
}

func (w *World) nextTS(c *Client) (int64, int64, error) {
	w.rec.mu.Lock()
	defer w.rec.mu.Unlock()
	if w.closed {
		return 0, 0, errDead
	}
	if c.crashed.Load() {
		return 0, 0, ErrDropped
	}
	if c.tsoDown.Load() {
		// PD does not answer this client (`tsofail <client>`: no timestamp is handed out)
		w.emitLocked("tsofail " + c.name)
		return 0, 0, errors.New("verif: pd does not answer")
	}
	w.logical++
	if w.logical >= 1<<18 {
		w.physical++
		w.logical = 1
	}
	ts := uint64(w.physical)<<18 + uint64(w.logical)
	w.emitLocked(fmt.Sprintf("tso %s %d", c.name, ts))
	return w.physical, w.logical, nil
}

// vpd is the per-client PD client: timestamps come from the world's virtual clock, everything else from the mock PD.
type vpd struct {
	pd.Client
	w *World
	c *Client
}

type vfut struct {
	p    *vpd
	used bool
}

func (f *vfut) Wait() (int64, int64, error) {
	if f.used {
		return 0, 0, errors.New("cannot wait tso twice")
	}
	f.used = true
	return f.p.w.nextTS(f.p.c)
}

func (p *vpd) GetTS(context.Context) (int64, int64, error) { return p.w.nextTS(p.c) }
func (p *vpd) GetTSAsync(context.Context) tso.TSFuture     { return &vfut{p: p} }
func (p *vpd) GetLocalTS(context.Context, string) (int64, int64, error) {
	return p.w.nextTS(p.c)
}
func (p *vpd) GetLocalTSAsync(context.Context, string) tso.TSFuture { return &vfut{p: p} }
func (p *vpd) GetTSWithinKeyspace(context.Context, uint32) (int64, int64, error) {
	return p.w.nextTS(p.c)
}
func (p *vpd) GetTSWithinKeyspaceAsync(context.Context, uint32) tso.TSFuture { return &vfut{p: p} }
func (p *vpd) GetLocalTSWithinKeyspace(context.Context, string, uint32) (int64, int64, error) {
	return p.w.nextTS(p.c)
}
func (p *vpd) GetLocalTSWithinKeyspaceAsync(context.Context, string, uint32) tso.TSFuture {
	return &vfut{p: p}
}
func (p *vpd) WithCallerComponent(caller.Component) pd.Client { return p }
func (p *vpd) Close()                                         {}

// ---------------------------------------------------------------- clients

// Client is one logical client: its own KVStore (region cache, lock resolver, oracle) over the shared mock cluster.
type Client struct {
	w       *World
	name    string
	store   *tikv.KVStore
	baseWG  int
	crashed atomic.Bool
	inCall  atomic.Int32
	running atomic.Bool
	tsoDown atomic.Bool // every timestamp request of this client fails while set
	calls   int
	rpcs    atomic.Int64 // number of RPCs of this client released by the scheduler

	txn  *txnState
	txns []*txnState
}

// NewClient creates a logical client.  Its store start-up (one timestamp for the oracle) is part of the trace.
func (w *World) NewClient(name string) *Client {
	c := &Client{w: w, name: name}
	var inner tikv.Client = w.rpc
	if w.lean != nil {
		inner = w.lean
	}
	store, err := tikv.NewTestTiKVStore(inner, &vpd{Client: w.pdc, w: w, c: c},
		func(inner tikv.Client) tikv.Client { return &gateClient{g: w.gate, c: c, inner: inner} }, nil, 0)
	if err != nil {
		panic(err)
	}
	c.store = store
	c.baseWG = tikv.VerifWGCount(store)
	if c.baseWG < 0 {
		w.Count("wg-count-unavailable")
	}
	w.cmu.Lock()
	w.clients = append(w.clients, c)
	w.cmu.Unlock()
	return c
}

func (c *Client) Name() string              { return c.name }
func (c *Client) Store() *tikv.KVStore      { return c.store }
func (c *Client) Crashed() bool             { return c.crashed.Load() }
func (c *Client) RPCs() int                 { return int(c.rpcs.Load()) }
func (c *Client) InCall() bool              { return c.inCall.Load() > 0 }
func (w *World) Gate() *Gate                { return w.gate }
func (w *World) Cluster() *mocktikv.Cluster { return w.cluster }

// Crash marks the client dead: its pending and future RPCs are never executed (`norpc … dropped`), its goroutines are abandoned.
func (w *World) Crash(c *Client) { w.gate.crash(c) }

// TrackKey adds a key to the audit set.
func (w *World) TrackKey(k []byte) {
	w.cmu.Lock()
	w.keys[string(k)] = true
	w.cmu.Unlock()
}

// ---------------------------------------------------------------- quiescence and audit

func (w *World) liveClients() []*Client {
	w.cmu.Lock()
	defer w.cmu.Unlock()
	var out []*Client
	for _, c := range w.clients {
		if !c.crashed.Load() {
			out = append(out, c)
		}
	}
	return out
}

func (w *World) drained() bool {
	if !w.gate.idle() {
		return false
	}
	for _, c := range w.liveClients() {
		if c.inCall.Load() > 0 {
			return false
		}
		if n := tikv.VerifWGCount(c.store); n >= 0 && n != c.baseWG {
			return false
		}
	}
	return true
}

// WaitDrained lets the scheduler run until no live client is inside an API call, no RPC is pending and every live
// store's background wait group is back to its baseline, stable over a settle period.  false = timeout.
func (w *World) WaitDrained(timeout time.Duration) bool {
	deadline := time.Now().Add(timeout)
	stable := 0
	for time.Now().Before(deadline) {
		if w.drained() {
			stable++
			if stable >= 3 {
				return true
			}
		} else {
			stable = 0
		}
		Pause(150 * time.Microsecond)
	}
	return false
}

// Quiesce waits for the background work to drain, then emits `quiesce` and the audit lines.  false = hang.
func (w *World) Quiesce(timeout time.Duration) bool {
	if !w.WaitDrained(timeout) {
		w.Hang("quiesce")
		return false
	}
	w.rec.mu.Lock()
	defer w.rec.mu.Unlock()
	w.emitLocked("quiesce")
	w.auditLocked()
	return true
}

func (w *World) auditLocked() {
	w.cmu.Lock()
	keys := make([]string, 0, len(w.keys))
	for k := range w.keys {
		keys = append(keys, k)
	}
	clients := append([]*Client{}, w.clients...)
	w.cmu.Unlock()
	sort.Strings(keys)
	if w.lean != nil {
		if w.closed {
			return
		}
		for _, k := range keys {
			w.emitLocked(fmt.Sprintf("audit mvcc %s %s", Hx([]byte(k)), w.lean.proc.Ask("dump "+Hx([]byte(k)))))
		}
		w.emitLocked("audit locks " + w.lean.proc.Ask("locks"))
	} else {
		for _, k := range keys {
			w.emitLocked(fmt.Sprintf("audit mvcc %s %s", Hx([]byte(k)), mocktikv.VerifDumpKey(w.mvcc, []byte(k), Hx)))
		}
		locks, _ := w.mvcc.ScanLock(nil, nil, math.MaxUint64)
		ls := make([]string, 0, len(locks))
		for _, l := range locks {
			ls = append(ls, fmt.Sprintf("%s/%s/%d", Hx(l.Key), Hx(l.PrimaryLock), l.LockVersion))
		}
		w.emitLocked("audit locks " + ShowList(ls))
	}
	for _, c := range clients {
		for _, t := range c.txns {
			w.emitLocked(fmt.Sprintf("audit outcome %s %d %s", c.name, t.startTS, t.outcome()))
		}
	}
}

func wgCount(c *Client) int { return tikv.VerifWGCount(c.store) }

// fingerprintLocked is the store state of the tracked keys (trace lock held): dump of every tracked key.
func (w *World) fingerprintLocked() string {
	w.cmu.Lock()
	keys := make([]string, 0, len(w.keys))
	for k := range w.keys {
		keys = append(keys, k)
	}
	w.cmu.Unlock()
	sort.Strings(keys)
	var b []string
	for _, k := range keys {
		if w.lean != nil {
			b = append(b, w.lean.proc.Ask("dump "+Hx([]byte(k))))
		} else {
			b = append(b, mocktikv.VerifDumpKey(w.mvcc, []byte(k), Hx))
		}
	}
	return strings.Join(b, ";")
}

// AuditNoLocks emits `audit nolocks <startTS>` for every transaction of the client (C02/C03: after recovery no lock of the
// crashed / faulted client's transactions may remain).
func (w *World) AuditNoLocks(c *Client) {
	w.rec.mu.Lock()
	defer w.rec.mu.Unlock()
	for _, t := range c.txns {
		w.emitLocked(fmt.Sprintf("audit nolocks %d", t.startTS))
	}
}

// Hang reports a hung scenario: the event line `hang <what>` carries `FAIL hang` on the implementation side.
func (w *World) Hang(what string) {
	w.rec.mu.Lock()
	if !w.closed && !w.hung {
		w.hung = true
		w.rec.run.Emit("hang "+what, "FAIL hang")
		w.rec.run.Count("hang")
	}
	w.rec.mu.Unlock()
}

// WasCut reports whether the controlled scheduler cut the schedule at a livelock.
func (w *World) WasCut() bool { w.rec.mu.Lock(); defer w.rec.mu.Unlock(); return w.cut }

func (w *World) Hung() bool { w.rec.mu.Lock(); defer w.rec.mu.Unlock(); return w.hung }

// closeStore closes a client's KVStore once its abandoned goroutines (released with an error when the world closed) have
// run out: KVStore.Close waits on the store's WaitGroup, and a background task that spawns another one at that moment makes
// the WaitGroup panic ("reused before previous Wait has returned").  A store that does not calm down is left to the GC.
func closeStore(c *Client) {
	defer func() { recover() }()
	calm := 0
	for i := 0; i < 20000 && calm < 20; i++ {
		if n := tikv.VerifWGCount(c.store); n < 0 || n == c.baseWG {
			calm++
		} else {
			calm = 0
		}
		time.Sleep(time.Millisecond)
	}
	if calm < 20 {
		return
	}
	c.store.Close()
}

// Close tears the world down: nothing of it reaches the trace any more, parked/pending RPCs are released with an error and
// the stores are closed in the background (abandoned goroutines of crashed clients run into errors and end).
func (w *World) Close() {
	w.rec.mu.Lock()
	w.closed = true
	w.rec.mu.Unlock()
	w.gate.shutdown()
	w.cmu.Lock()
	clients := append([]*Client{}, w.clients...)
	w.cmu.Unlock()
	go func() {
		done := make(chan struct{})
		go func() {
			defer close(done)
			for _, c := range clients {
				closeStore(c)
			}
		}()
		select {
		case <-done:
		case <-time.After(60 * time.Second):
		}
		w.mvcc.Close()
	}()
}

// ---------------------------------------------------------------- additions: region merge, heart-beat audit

// mergeLocked merges the region containing key with its right neighbour: the left region survives with the right one's
// end key and a newer epoch version, the right region's id disappears (mocktikv Cluster.Merge).  With emit it must be
// called with the trace lock held (`topo merge <left id> <right id>`).
func (w *World) mergeLocked(key []byte, emit bool) bool {
	left, _, _, _ := w.cluster.GetRegionByKey(mocktikv.NewMvccKey(key))
	if left == nil || len(left.EndKey) == 0 {
		return false
	}
	right, _, _, _ := w.cluster.GetRegionByKey(left.EndKey)
	if right == nil || right.Id == left.Id {
		return false
	}
	w.cluster.Merge(left.Id, right.Id)
	if emit {
		w.emitLocked(fmt.Sprintf("topo merge %d %d", left.Id, right.Id))
	}
	return true
}

// Merge merges the region containing key with its right neighbour (emits `topo merge`); false if it is the last region.
func (w *World) Merge(key []byte) bool {
	w.rec.mu.Lock()
	defer w.rec.mu.Unlock()
	return w.mergeLocked(key, true)
}

// MergeFault merges the region containing key with its right neighbour just before the request it is attached to.
func MergeFault(key []byte) *Fault {
	return &Fault{Kind: Topo, Label: "merge", Do: func(w *World) { w.mergeLocked(key, true) }}
}

// Regions returns the number of regions of the cluster.
func (w *World) Regions() int { return len(w.cluster.GetAllRegions()) }

// AuditHeartbeat emits `audit heartbeat <startTS> <n>`: the scenario kept the client's current transaction open, with a key
// locked, until a heart-beat was due several times over; the judge wants at least n `heartbeat` requests of it in the trace.
func (w *World) AuditHeartbeat(c *Client, n int) {
	w.rec.mu.Lock()
	defer w.rec.mu.Unlock()
	if c.txn != nil && !c.crashed.Load() {
		w.emitLocked(fmt.Sprintf("audit heartbeat %d %d", c.txn.startTS, n))
	}
}

// AuditHeld emits `audit held <startTS> <keys>`: the client reports these keys as locked by its current transaction (a lock
// call on them just returned success); the judge wants the store to hold the transaction's lock on each of them.
func (w *World) AuditHeld(c *Client, keys [][]byte) {
	w.rec.mu.Lock()
	defer w.rec.mu.Unlock()
	if c.txn != nil && !c.crashed.Load() && len(keys) > 0 {
		w.emitLocked(fmt.Sprintf("audit held %d %s", c.txn.startTS, HexList(keys)))
	}
}

// SetTSODown makes every timestamp request of the client fail (true) / work again (false): a PD outage as seen by one client.
func (c *Client) SetTSODown(down bool) { c.tsoDown.Store(down) }
