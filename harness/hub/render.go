//go:build verif

// Package hub: the Go side of the transactional hub (HUB.md).  The real client (KVStore/KVTxn/KVSnapshot/lock resolver/GC)
// runs in-process against mocktikv; this package wraps the RPC client and the PD client, serialises and schedules every RPC,
// injects faults, and writes ONE totally ordered trace that the Lean judge (cgv-hub) re-executes.
package hub

import (
	"fmt"
	"sort"
	"strconv"
	"strings"

	"github.com/pingcap/kvproto/pkg/errorpb"
	"github.com/pingcap/kvproto/pkg/kvrpcpb"
	"github.com/tikv/client-go/v2/tikvrpc"
	"github.com/tikv/client-go/v2/verifx/vx"
)

// ---- tokens (C12 canonical forms: harness/c12/main.go)

// Hx renders a byte string as one token ("~" for the empty string).
func Hx(b []byte) string {
	if len(b) == 0 {
		return "~"
	}
	return vx.Hex(b)
}

// ShowList joins list elements ("-" for the empty list).
func ShowList(l []string) string {
	if len(l) == 0 {
		return "-"
	}
	return strings.Join(l, ",")
}

// HexList renders a list of byte strings.
func HexList(ks [][]byte) string {
	s := make([]string, 0, len(ks))
	for _, k := range ks {
		s = append(s, Hx(k))
	}
	return ShowList(s)
}

func b01(b bool) string {
	if b {
		return "1"
	}
	return "0"
}

func u(v uint64) string { return strconv.FormatUint(v, 10) }

func numList(v []uint64) string {
	s := make([]string, 0, len(v))
	for _, x := range v {
		s = append(s, u(x))
	}
	return ShowList(s)
}

// keyErrStr is the wire KeyError in the C12 canonical form (harness/c12/main.go keyErrStr).
func keyErrStr(e *kvrpcpb.KeyError) string {
	switch {
	case e == nil:
		return "nil"
	case e.Locked != nil:
		l := e.Locked
		return fmt.Sprintf("locked(%s,%s,%d,%d,%d,%d,%d)", Hx(l.Key), Hx(l.PrimaryLock), l.LockVersion, l.LockForUpdateTs, l.LockTtl, l.TxnSize, int(l.LockType))
	case e.AlreadyExist != nil:
		return fmt.Sprintf("exist(%s)", Hx(e.AlreadyExist.Key))
	case e.Conflict != nil:
		c := e.Conflict
		return fmt.Sprintf("conflict(%d,%d,%d,%s,0)", c.StartTs, c.ConflictTs, c.ConflictCommitTs, Hx(c.Key))
	case e.Deadlock != nil:
		return fmt.Sprintf("deadlock(%s,%d)", Hx(e.Deadlock.LockKey), e.Deadlock.LockTs)
	case e.Retryable != "":
		return "retryable"
	case e.CommitTsExpired != nil:
		c := e.CommitTsExpired
		return fmt.Sprintf("expired(%d,%d,%s,%d)", c.StartTs, c.AttemptedCommitTs, Hx(c.Key), c.MinCommitTs)
	case e.TxnNotFound != nil:
		return fmt.Sprintf("notfound(%d,%s)", e.TxnNotFound.StartTs, Hx(e.TxnNotFound.PrimaryKey))
	case e.AssertionFailed != nil:
		a := e.AssertionFailed
		return fmt.Sprintf("assert(%d,%s,%d,%d,%d)", a.StartTs, Hx(a.Key), int(a.Assertion), a.ExistingStartTs, a.ExistingCommitTs)
	}
	return "abort"
}

func keyErrList(es []*kvrpcpb.KeyError) string {
	s := make([]string, 0, len(es))
	for _, e := range es {
		s = append(s, keyErrStr(e))
	}
	return ShowList(s)
}

func okOrErr(e *kvrpcpb.KeyError) string {
	if e != nil {
		return "err " + keyErrStr(e)
	}
	return "ok"
}

func pbPairs(ps []*kvrpcpb.KvPair, withTS bool) string {
	out := make([]string, 0, len(ps))
	for _, p := range ps {
		if p.Error != nil {
			out = append(out, "E:"+keyErrStr(p.Error))
			continue
		}
		ts := uint64(0)
		if withTS {
			ts = p.CommitTs
		}
		out = append(out, fmt.Sprintf("%s=%s@%d", Hx(p.Key), Hx(p.Value), ts))
	}
	return ShowList(out)
}

func si(ctx *kvrpcpb.Context) string {
	return b01(ctx.GetIsolationLevel() == kvrpcpb.IsolationLevel_SI)
}

func mutsStr(ms []*kvrpcpb.Mutation, acts []kvrpcpb.PrewriteRequest_PessimisticAction) string {
	out := make([]string, 0, len(ms))
	for i, m := range ms {
		act := 0
		if i < len(acts) {
			act = int(acts[i])
		}
		out = append(out, fmt.Sprintf("%d:%s:%s:%d:%d", int(m.Op), Hx(m.Key), Hx(m.Value), int(m.Assertion), act))
	}
	return ShowList(out)
}

// RenderReq renders a request as the command part of an `rpc` event (HUB.md).  kind is the first token.
func RenderReq(req *tikvrpc.Request) (kind string, cmd string) {
	ctx := &req.Context
	switch req.Type {
	case tikvrpc.CmdGet:
		r := req.Get()
		return "get", fmt.Sprintf("get %s %d %s %s", Hx(r.Key), r.Version, si(ctx), numList(ctx.ResolvedLocks))
	case tikvrpc.CmdBatchGet:
		r := req.BatchGet()
		return "bget", fmt.Sprintf("bget %s %d %s %s", HexList(r.Keys), r.Version, si(ctx), numList(ctx.ResolvedLocks))
	case tikvrpc.CmdScan:
		r := req.Scan()
		if r.Reverse {
			// TiKV's reverse scan covers [EndKey, StartKey): lower bound first in the trace
			return "rscan", fmt.Sprintf("rscan %s %s %d %d %s %s", Hx(r.EndKey), Hx(r.StartKey), r.Limit, r.Version, si(ctx), numList(ctx.ResolvedLocks))
		}
		return "scan", fmt.Sprintf("scan %s %s %d %d %s %s", Hx(r.StartKey), Hx(r.EndKey), r.Limit, r.Version, si(ctx), numList(ctx.ResolvedLocks))
	case tikvrpc.CmdPrewrite:
		r := req.Prewrite()
		return "prewrite", fmt.Sprintf("prewrite %s %d %d %d %d %d %s %s %s async=%s onepc=%s secondaries=%s",
			Hx(r.PrimaryLock), r.StartVersion, r.ForUpdateTs, r.LockTtl, r.MinCommitTs, r.TxnSize,
			b01(r.AssertionLevel != kvrpcpb.AssertionLevel_Off), numList(ctx.ResolvedLocks), mutsStr(r.Mutations, r.PessimisticActions),
			b01(r.UseAsyncCommit), b01(r.TryOnePc), HexList(r.Secondaries))
	case tikvrpc.CmdPessimisticLock:
		r := req.PessimisticLock()
		fl := ""
		if r.ReturnValues {
			fl += "r"
		}
		if r.CheckExistence {
			fl += "c"
		}
		if r.LockOnlyIfExists {
			fl += "e"
		}
		if r.WakeUpMode == kvrpcpb.PessimisticLockWakeUpMode_WakeUpModeForceLock {
			fl += "f"
		}
		if r.WaitTimeout == -1 {
			fl += "n"
		}
		if fl == "" {
			fl = "-"
		}
		return "plock", fmt.Sprintf("plock %s %d %d %d %d %s %s", Hx(r.PrimaryLock), r.StartVersion, r.ForUpdateTs, r.LockTtl, r.MinCommitTs, fl, mutsStr(r.Mutations, nil))
	case tikvrpc.CmdPessimisticRollback:
		r := req.PessimisticRollback()
		return "prollback", fmt.Sprintf("prollback - - %s %d %d", HexList(r.Keys), r.StartVersion, r.ForUpdateTs)
	case tikvrpc.CmdCommit:
		r := req.Commit()
		return "commit", fmt.Sprintf("commit %s %d %d", HexList(r.Keys), r.StartVersion, r.CommitVersion)
	case tikvrpc.CmdBatchRollback:
		r := req.BatchRollback()
		return "rollback", fmt.Sprintf("rollback %s %d", HexList(r.Keys), r.StartVersion)
	case tikvrpc.CmdCleanup:
		r := req.Cleanup()
		return "cleanup", fmt.Sprintf("cleanup %s %d %d", Hx(r.Key), r.StartVersion, r.CurrentTs)
	case tikvrpc.CmdCheckTxnStatus:
		r := req.CheckTxnStatus()
		return "status", fmt.Sprintf("status %s %d %d %d %s %s", Hx(r.PrimaryKey), r.LockTs, r.CallerStartTs, r.CurrentTs, b01(r.RollbackIfNotExist), b01(r.ResolvingPessimisticLock))
	case tikvrpc.CmdTxnHeartBeat:
		r := req.TxnHeartBeat()
		return "heartbeat", fmt.Sprintf("heartbeat %s %d %d", Hx(r.PrimaryLock), r.StartVersion, r.AdviseLockTtl)
	case tikvrpc.CmdScanLock:
		r := req.ScanLock()
		return "scanlock", fmt.Sprintf("scanlock - - %d", r.MaxVersion)
	case tikvrpc.CmdResolveLock:
		r := req.ResolveLock()
		infos := make([]string, 0, len(r.TxnInfos))
		for _, ti := range r.TxnInfos {
			infos = append(infos, fmt.Sprintf("%d:%d", ti.Txn, ti.Status))
		}
		sort.Strings(infos) // the client builds the list from a Go map
		return "resolve", fmt.Sprintf("resolve - - %d %d infos=%s keys=%s", r.StartVersion, r.CommitVersion, ShowList(infos), HexList(r.Keys))
	case tikvrpc.CmdGC:
		r := req.GC()
		return "gc", fmt.Sprintf("gc - - %d", r.SafePoint)
	case tikvrpc.CmdDeleteRange:
		r := req.DeleteRange()
		return "delrange", fmt.Sprintf("delrange %s %s", Hx(r.StartKey), Hx(r.EndKey))
	}
	return "other", "other " + req.Type.String()
}

// RenderResp renders the wire answer of an executed request in the C12 canonical form.
func RenderResp(req *tikvrpc.Request, resp *tikvrpc.Response) string {
	if resp == nil || resp.Resp == nil {
		return "other"
	}
	switch r := resp.Resp.(type) {
	case *kvrpcpb.GetResponse:
		if r.Error != nil {
			return "err " + keyErrStr(r.Error)
		}
		if len(r.Value) == 0 {
			return "ok ~ 0"
		}
		return fmt.Sprintf("ok %s %d", Hx(r.Value), r.CommitTs)
	case *kvrpcpb.BatchGetResponse:
		if r.Error != nil {
			return "err " + keyErrStr(r.Error)
		}
		return pbPairs(r.Pairs, true)
	case *kvrpcpb.ScanResponse:
		if r.Error != nil {
			return "err " + keyErrStr(r.Error)
		}
		return pbPairs(r.Pairs, false)
	case *kvrpcpb.PrewriteResponse:
		return fmt.Sprintf("errs=%s mincommit=%d onepc=%d", keyErrList(r.Errors), r.MinCommitTs, r.OnePcCommitTs)
	case *kvrpcpb.PessimisticLockResponse:
		var res, vals, nf []string
		for _, x := range r.Results {
			switch x.Type {
			case kvrpcpb.PessimisticLockKeyResultType_LockResultNormal:
				res = append(res, fmt.Sprintf("N(%s,%s)", Hx(x.Value), b01(x.Existence)))
			case kvrpcpb.PessimisticLockKeyResultType_LockResultLockedWithConflict:
				res = append(res, fmt.Sprintf("C(%s,%s,%d)", Hx(x.Value), b01(x.Existence), x.LockedWithConflictTs))
			default:
				res = append(res, "F")
			}
		}
		for _, v := range r.Values {
			vals = append(vals, Hx(v))
		}
		for _, v := range r.NotFounds {
			nf = append(nf, b01(v))
		}
		return fmt.Sprintf("errs=%s res=%s vals=%s nf=%s", keyErrList(r.Errors), ShowList(res), ShowList(vals), ShowList(nf))
	case *kvrpcpb.PessimisticRollbackResponse:
		for _, e := range r.Errors {
			if e != nil {
				return "err " + keyErrStr(e)
			}
		}
		return "ok"
	case *kvrpcpb.CommitResponse:
		return okOrErr(r.Error)
	case *kvrpcpb.BatchRollbackResponse:
		return okOrErr(r.Error)
	case *kvrpcpb.CleanupResponse:
		if r.Error != nil {
			return "err " + keyErrStr(r.Error)
		}
		return fmt.Sprintf("ok commit=%d", r.CommitVersion)
	case *kvrpcpb.CheckTxnStatusResponse:
		if r.Error != nil {
			return "err " + keyErrStr(r.Error)
		}
		return fmt.Sprintf("ok ttl=%d commit=%d action=%d", r.LockTtl, r.CommitVersion, int(r.Action))
	case *kvrpcpb.TxnHeartBeatResponse:
		if r.Error != nil {
			return "err " + keyErrStr(r.Error)
		}
		return fmt.Sprintf("ok %d", r.LockTtl)
	case *kvrpcpb.ScanLockResponse:
		if r.Error != nil {
			return "err " + keyErrStr(r.Error)
		}
		out := make([]string, 0, len(r.Locks))
		for _, l := range r.Locks {
			out = append(out, fmt.Sprintf("%s/%s/%d", Hx(l.Key), Hx(l.PrimaryLock), l.LockVersion))
		}
		return ShowList(out)
	case *kvrpcpb.ResolveLockResponse:
		return okOrErr(r.Error)
	case *kvrpcpb.GCResponse:
		return okOrErr(r.Error)
	case *kvrpcpb.DeleteRangeResponse:
		if r.Error != "" {
			return "err abort"
		}
		return "ok"
	}
	return "other"
}

// RegionErrClass names the class of a region error (closed set + Other).
func RegionErrClass(e *errorpb.Error) string {
	switch {
	case e.GetNotLeader() != nil:
		return "NotLeader"
	case e.GetEpochNotMatch() != nil:
		return "EpochNotMatch"
	case e.GetServerIsBusy() != nil:
		return "ServerIsBusy"
	case e.GetStaleCommand() != nil:
		return "StaleCommand"
	case e.GetRegionNotFound() != nil:
		return "RegionNotFound"
	case e.GetStoreNotMatch() != nil:
		return "StoreNotMatch"
	case e.GetKeyNotInRegion() != nil:
		return "KeyNotInRegion"
	case e.GetRaftEntryTooLarge() != nil:
		return "RaftEntryTooLarge"
	case e.GetDiskFull() != nil:
		return "DiskFull"
	case e.GetMaxTimestampNotSynced() != nil:
		return "MaxTimestampNotSynced"
	case e.GetReadIndexNotReady() != nil:
		return "ReadIndexNotReady"
	case e.GetProposalInMergingMode() != nil:
		return "ProposalInMergingMode"
	case e.GetDataIsNotReady() != nil:
		return "DataIsNotReady"
	case e.GetRegionNotInitialized() != nil:
		return "RegionNotInitialized"
	}
	return "Other"
}

// MakeRegionErr builds an injected region error of the given class.
func MakeRegionErr(class string, regionID uint64) *errorpb.Error {
	switch class {
	case "NotLeader":
		// no leader hint: the client backs off and retries the peers
		return &errorpb.Error{Message: "verif: injected not leader", NotLeader: &errorpb.NotLeader{RegionId: regionID}}
	case "EpochNotMatch":
		// no current regions: the client invalidates the cached region and reloads it from PD
		return &errorpb.Error{Message: "verif: injected epoch not match", EpochNotMatch: &errorpb.EpochNotMatch{}}
	case "ServerIsBusy":
		return &errorpb.Error{Message: "verif: injected server is busy", ServerIsBusy: &errorpb.ServerIsBusy{Reason: "verif"}}
	case "StaleCommand":
		return &errorpb.Error{Message: "verif: injected stale command", StaleCommand: &errorpb.StaleCommand{}}
	case "RegionNotFound":
		return &errorpb.Error{Message: "verif: injected region not found", RegionNotFound: &errorpb.RegionNotFound{RegionId: regionID}}
	}
	panic("unknown region error class " + class)
}
