//go:build verif

package hub

import (
	"bufio"
	"bytes"
	"context"
	"fmt"
	"io"
	"os/exec"
	"strconv"
	"strings"
	"sync"
	"time"

	"github.com/pingcap/kvproto/pkg/kvrpcpb"
	"github.com/pkg/errors"
	"github.com/tikv/client-go/v2/internal/mockstore/mocktikv"
	"github.com/tikv/client-go/v2/tikv"
	"github.com/tikv/client-go/v2/tikvrpc"
	"github.com/tikv/client-go/v2/util/async"
)

// LeanProc is a long-lived `cgv-full` child process: the Lean MVCC store (profile `full`) served over a line protocol
// (lean/Driver/Full.lean): `<rstart> <rend> <cmd…>` → wire answer; `reset`, `dump <key>`, `locks`, `maxts`.
type LeanProc struct {
	mu   sync.Mutex
	cmd  *exec.Cmd
	in   *bufio.Writer
	out  *bufio.Reader
	dead error
	N    int // lines served
}

// StartLean starts the server.  The driver writes through a block-buffered stdout; `stdbuf -oL` (coreutils) makes it
// line-buffered when it is available, otherwise the server itself must flush after every answer.
func StartLean(path string) (*LeanProc, error) {
	var cmd *exec.Cmd
	if sb, err := exec.LookPath("stdbuf"); err == nil {
		cmd = exec.Command(sb, "-oL", path)
	} else {
		cmd = exec.Command(path)
	}
	stdin, err := cmd.StdinPipe()
	if err != nil {
		return nil, err
	}
	stdout, err := cmd.StdoutPipe()
	if err != nil {
		return nil, err
	}
	if err := cmd.Start(); err != nil {
		return nil, err
	}
	p := &LeanProc{cmd: cmd, in: bufio.NewWriter(stdin), out: bufio.NewReaderSize(stdout, 1<<16)}
	// probe: a server that does not answer within a few seconds does not flush its output
	ch := make(chan string, 1)
	go func() { ch <- p.Ask("reset") }()
	select {
	case a := <-ch:
		if a != "ok" {
			return nil, fmt.Errorf("cgv-full answered %q to reset", a)
		}
	case <-time.After(10 * time.Second):
		cmd.Process.Kill()
		return nil, errors.New("cgv-full does not answer line by line (no stdbuf and no flush in the driver)")
	}
	return p, nil
}

// Ask sends one line and returns the one-line answer.
func (p *LeanProc) Ask(line string) string {
	p.mu.Lock()
	defer p.mu.Unlock()
	if p.dead != nil {
		return "dead"
	}
	p.N++
	if _, err := p.in.WriteString(line + "\n"); err != nil {
		p.dead = err
		return "dead"
	}
	if err := p.in.Flush(); err != nil {
		p.dead = err
		return "dead"
	}
	a, err := p.out.ReadString('\n')
	if err != nil && err != io.EOF || a == "" {
		p.dead = errors.New("cgv-full closed its output")
		return "dead"
	}
	return strings.TrimRight(a, "\r\n")
}

func (p *LeanProc) Close() {
	p.mu.Lock()
	defer p.mu.Unlock()
	if p.cmd != nil && p.cmd.Process != nil {
		p.cmd.Process.Kill()
		p.cmd.Wait()
	}
}

// leanStore is the inner tikv.Client of profile `full`: the region/store/epoch/leader checks are mocktikv's own
// (VerifSessionCheck), the KV command is executed by the Lean store, the answer is decoded back into kvrpcpb.
type leanStore struct {
	w    *World
	rpc  *mocktikv.RPCClient
	proc *LeanProc
	last string // the answer line of the request being executed (trace lock held)
}

func (s *leanStore) Close() error                              { return nil }
func (s *leanStore) CloseAddr(string) error                    { return nil }
func (s *leanStore) SetEventListener(tikv.ClientEventListener) {}
func (s *leanStore) SendRequestAsync(ctx context.Context, addr string, req *tikvrpc.Request, cb async.Callback[*tikvrpc.Response]) {
	go func() { cb.Schedule(s.SendRequest(ctx, addr, req, 0)) }()
}

// fullCmd renders the command line of profile `full`: the trace command plus `maxcommit=` (prewrite), `force=` (status),
// and the command `checksecondary <keys> <startTS>`.
func fullCmd(req *tikvrpc.Request) (kind, cmd string) {
	switch req.Type {
	case tikvrpc.CmdPrewrite:
		k, c := RenderReq(req)
		return k, c + fmt.Sprintf(" maxcommit=%d", req.Prewrite().MaxCommitTs)
	case tikvrpc.CmdCheckTxnStatus:
		k, c := RenderReq(req)
		return k, c + " force=" + b01(req.CheckTxnStatus().ForceSyncCommit)
	case tikvrpc.CmdCheckSecondaryLocks:
		r := req.CheckSecondaryLocks()
		return "checksecondary", fmt.Sprintf("checksecondary %s %d", HexList(r.Keys), r.StartVersion)
	}
	return RenderReq(req)
}

// keysOf lists the keys a request addresses (the mock panics when one of them is outside the addressed region).
func keysOf(req *tikvrpc.Request) (what string, keys [][]byte) {
	switch req.Type {
	case tikvrpc.CmdGet:
		return "KvGet", [][]byte{req.Get().Key}
	case tikvrpc.CmdBatchGet:
		return "KvBatchGet", req.BatchGet().Keys
	case tikvrpc.CmdScan:
		if req.Scan().Reverse {
			return "KvScan", [][]byte{req.Scan().EndKey}
		}
		return "KvScan", [][]byte{req.Scan().StartKey}
	case tikvrpc.CmdPrewrite:
		for _, m := range req.Prewrite().Mutations {
			keys = append(keys, m.Key)
		}
		return "KvPrewrite", keys
	case tikvrpc.CmdPessimisticLock:
		for _, m := range req.PessimisticLock().Mutations {
			keys = append(keys, m.Key)
		}
		return "KvPessimisticLock", keys
	case tikvrpc.CmdPessimisticRollback:
		return "KvPessimisticRollback", req.PessimisticRollback().Keys
	case tikvrpc.CmdCommit:
		return "KvCommit", req.Commit().Keys
	case tikvrpc.CmdCleanup:
		return "KvCleanup", [][]byte{req.Cleanup().Key}
	case tikvrpc.CmdCheckTxnStatus:
		return "KvCheckTxnStatus", [][]byte{req.CheckTxnStatus().PrimaryKey}
	case tikvrpc.CmdTxnHeartBeat:
		return "KvTxnHeartBeat", [][]byte{req.TxnHeartBeat().PrimaryLock}
	case tikvrpc.CmdCheckSecondaryLocks:
		return "KvCheckSecondaryLocks", req.CheckSecondaryLocks().Keys
	}
	return "", nil
}

func inRange(start, end, k []byte) bool {
	return bytes.Compare(start, k) <= 0 && (len(end) == 0 || bytes.Compare(k, end) < 0)
}

func (s *leanStore) SendRequest(ctx context.Context, addr string, req *tikvrpc.Request, timeout time.Duration) (*tikvrpc.Response, error) {
	kind, cmd := fullCmd(req)
	if kind == "other" {
		// what the Lean server does not implement is answered by the mock (Flush, BufferBatchGet, … are unsupported there too)
		return s.rpc.SendRequest(ctx, addr, req, timeout)
	}
	regionErr, rs, re, err := mocktikv.VerifSessionCheck(s.rpc, ctx, addr, req)
	if err != nil {
		return nil, err
	}
	if regionErr != nil {
		return tikvrpc.GenRegionErrorResp(req, regionErr)
	}
	if what, keys := keysOf(req); what != "" {
		for _, k := range keys {
			if !inRange(rs, re, k) {
				panic(what + ": key not in region")
			}
		}
	}
	ans := s.proc.Ask(Hx(rs) + " " + Hx(re) + " " + cmd)
	if ans == "dead" || ans == "bad-op" {
		return nil, fmt.Errorf("verif: lean store answered %q to %q", ans, cmd)
	}
	s.last = ans
	resp, err := parseAnswer(req, ans)
	if err != nil {
		return nil, fmt.Errorf("verif: cannot decode lean store answer %q to %q: %v", ans, cmd, err)
	}
	return &tikvrpc.Response{Resp: resp}, nil
}

// ---------------------------------------------------------------- answers → kvrpcpb

// splitTop splits at the commas that are not inside parentheses.
func splitTop(s string) []string {
	if s == "-" || s == "" {
		return nil
	}
	var out []string
	depth, start := 0, 0
	for i, c := range s {
		switch c {
		case '(':
			depth++
		case ')':
			depth--
		case ',':
			if depth == 0 {
				out = append(out, s[start:i])
				start = i + 1
			}
		}
	}
	return append(out, s[start:])
}

func unhx(s string) []byte {
	if s == "~" || s == "-" {
		return nil
	}
	b, err := hexDecode(s)
	if err != nil {
		panic("bad hex " + s)
	}
	return b
}

func hexDecode(s string) ([]byte, error) {
	if len(s)%2 != 0 {
		return nil, errors.New("odd hex")
	}
	out := make([]byte, len(s)/2)
	for i := 0; i < len(out); i++ {
		v, err := strconv.ParseUint(s[2*i:2*i+2], 16, 8)
		if err != nil {
			return nil, err
		}
		out[i] = byte(v)
	}
	return out, nil
}

func pnum(s string) uint64 {
	v, err := strconv.ParseUint(s, 10, 64)
	if err != nil {
		panic("bad number " + s)
	}
	return v
}

// parseKeyErr decodes the canonical form of a KeyError (render.go keyErrStr).
func parseKeyErr(s string) *kvrpcpb.KeyError {
	name, args := s, []string(nil)
	if i := strings.IndexByte(s, '('); i >= 0 && strings.HasSuffix(s, ")") {
		name, args = s[:i], strings.Split(s[i+1:len(s)-1], ",")
	}
	switch name {
	case "locked":
		return &kvrpcpb.KeyError{Locked: &kvrpcpb.LockInfo{Key: unhx(args[0]), PrimaryLock: unhx(args[1]), LockVersion: pnum(args[2]),
			LockForUpdateTs: pnum(args[3]), LockTtl: pnum(args[4]), TxnSize: pnum(args[5]), LockType: kvrpcpb.Op(pnum(args[6]))}}
	case "exist":
		return &kvrpcpb.KeyError{AlreadyExist: &kvrpcpb.AlreadyExist{Key: unhx(args[0])}}
	case "conflict":
		return &kvrpcpb.KeyError{Conflict: &kvrpcpb.WriteConflict{StartTs: pnum(args[0]), ConflictTs: pnum(args[1]), ConflictCommitTs: pnum(args[2]), Key: unhx(args[3])}}
	case "deadlock":
		return &kvrpcpb.KeyError{Deadlock: &kvrpcpb.Deadlock{LockKey: unhx(args[0]), LockTs: pnum(args[1])}}
	case "retryable":
		return &kvrpcpb.KeyError{Retryable: "retryable"}
	case "expired":
		return &kvrpcpb.KeyError{CommitTsExpired: &kvrpcpb.CommitTsExpired{StartTs: pnum(args[0]), AttemptedCommitTs: pnum(args[1]), Key: unhx(args[2]), MinCommitTs: pnum(args[3])}}
	case "notfound":
		return &kvrpcpb.KeyError{TxnNotFound: &kvrpcpb.TxnNotFound{StartTs: pnum(args[0]), PrimaryKey: unhx(args[1])}}
	case "assert":
		return &kvrpcpb.KeyError{AssertionFailed: &kvrpcpb.AssertionFailed{StartTs: pnum(args[0]), Key: unhx(args[1]), Assertion: kvrpcpb.Assertion(pnum(args[2])),
			ExistingStartTs: pnum(args[3]), ExistingCommitTs: pnum(args[4])}}
	}
	return &kvrpcpb.KeyError{Abort: "abort: " + s}
}

func parseKeyErrs(s string) []*kvrpcpb.KeyError {
	var out []*kvrpcpb.KeyError
	for _, e := range splitTop(s) {
		out = append(out, parseKeyErr(e))
	}
	return out
}

func parsePairs(s string) []*kvrpcpb.KvPair {
	out := make([]*kvrpcpb.KvPair, 0)
	for _, p := range splitTop(s) {
		if strings.HasPrefix(p, "E:") {
			out = append(out, &kvrpcpb.KvPair{Error: parseKeyErr(p[2:])})
			continue
		}
		eq := strings.IndexByte(p, '=')
		at := strings.LastIndexByte(p, '@')
		out = append(out, &kvrpcpb.KvPair{Key: unhx(p[:eq]), Value: unhx(p[eq+1 : at]), CommitTs: pnum(p[at+1:])})
	}
	return out
}

// field returns the value of `name=value` among the tokens.
func field(toks []string, name string) string {
	for _, t := range toks {
		if strings.HasPrefix(t, name+"=") {
			return t[len(name)+1:]
		}
	}
	return ""
}

func errOf(toks []string) *kvrpcpb.KeyError {
	if len(toks) >= 2 && toks[0] == "err" {
		return parseKeyErr(toks[1])
	}
	return nil
}

// parseAnswer decodes the wire answer of the Lean store into the response type of the request.
func parseAnswer(req *tikvrpc.Request, ans string) (resp interface{}, err error) {
	defer func() {
		if e := recover(); e != nil {
			err = fmt.Errorf("%v", e)
		}
	}()
	t := strings.Fields(ans)
	if len(t) == 0 {
		return nil, errors.New("empty answer")
	}
	switch req.Type {
	case tikvrpc.CmdGet:
		if e := errOf(t); e != nil {
			return &kvrpcpb.GetResponse{Error: e}, nil
		}
		v := unhx(t[1])
		r := &kvrpcpb.GetResponse{Value: v, NotFound: v == nil}
		if req.Get().NeedCommitTs {
			r.CommitTs = pnum(t[2])
		}
		return r, nil
	case tikvrpc.CmdBatchGet:
		ps := parsePairs(t[0])
		if !req.BatchGet().NeedCommitTs {
			for _, p := range ps {
				p.CommitTs = 0
			}
		}
		return &kvrpcpb.BatchGetResponse{Pairs: ps}, nil
	case tikvrpc.CmdScan:
		return &kvrpcpb.ScanResponse{Pairs: parsePairs(t[0])}, nil
	case tikvrpc.CmdPrewrite:
		return &kvrpcpb.PrewriteResponse{Errors: parseKeyErrs(field(t, "errs")), MinCommitTs: pnum(field(t, "mincommit")), OnePcCommitTs: pnum(field(t, "onepc"))}, nil
	case tikvrpc.CmdPessimisticLock:
		r := &kvrpcpb.PessimisticLockResponse{Errors: parseKeyErrs(field(t, "errs"))}
		for _, x := range splitTop(field(t, "res")) {
			switch {
			case strings.HasPrefix(x, "N("):
				a := strings.Split(x[2:len(x)-1], ",")
				r.Results = append(r.Results, &kvrpcpb.PessimisticLockKeyResult{Type: kvrpcpb.PessimisticLockKeyResultType_LockResultNormal, Value: unhx(a[0]), Existence: a[1] == "1"})
			case strings.HasPrefix(x, "C("):
				a := strings.Split(x[2:len(x)-1], ",")
				r.Results = append(r.Results, &kvrpcpb.PessimisticLockKeyResult{Type: kvrpcpb.PessimisticLockKeyResultType_LockResultLockedWithConflict, Value: unhx(a[0]), Existence: a[1] == "1", LockedWithConflictTs: pnum(a[2])})
			default:
				r.Results = append(r.Results, &kvrpcpb.PessimisticLockKeyResult{Type: kvrpcpb.PessimisticLockKeyResultType_LockResultFailed})
			}
		}
		for _, v := range splitTop(field(t, "vals")) {
			r.Values = append(r.Values, unhx(v))
		}
		for _, v := range splitTop(field(t, "nf")) {
			r.NotFounds = append(r.NotFounds, v == "1")
		}
		return r, nil
	case tikvrpc.CmdPessimisticRollback:
		r := &kvrpcpb.PessimisticRollbackResponse{}
		if e := errOf(t); e != nil {
			r.Errors = []*kvrpcpb.KeyError{e}
		}
		return r, nil
	case tikvrpc.CmdCommit:
		return &kvrpcpb.CommitResponse{Error: errOf(t)}, nil
	case tikvrpc.CmdBatchRollback:
		return &kvrpcpb.BatchRollbackResponse{Error: errOf(t)}, nil
	case tikvrpc.CmdCleanup:
		if e := errOf(t); e != nil {
			return &kvrpcpb.CleanupResponse{Error: e}, nil
		}
		return &kvrpcpb.CleanupResponse{CommitVersion: pnum(field(t, "commit"))}, nil
	case tikvrpc.CmdCheckTxnStatus:
		if e := errOf(t); e != nil {
			return &kvrpcpb.CheckTxnStatusResponse{Error: e}, nil
		}
		r := &kvrpcpb.CheckTxnStatusResponse{LockTtl: pnum(field(t, "ttl")), CommitVersion: pnum(field(t, "commit")), Action: kvrpcpb.Action(pnum(field(t, "action")))}
		if field(t, "async") == "1" {
			q := req.CheckTxnStatus()
			li := &kvrpcpb.LockInfo{Key: q.PrimaryKey, PrimaryLock: q.PrimaryKey, LockVersion: q.LockTs, LockTtl: r.LockTtl,
				UseAsyncCommit: true, MinCommitTs: pnum(field(t, "mincommit"))}
			for _, k := range splitTop(field(t, "secondaries")) {
				li.Secondaries = append(li.Secondaries, unhx(k))
			}
			r.LockInfo = li
		}
		return r, nil
	case tikvrpc.CmdTxnHeartBeat:
		if e := errOf(t); e != nil {
			return &kvrpcpb.TxnHeartBeatResponse{Error: e}, nil
		}
		return &kvrpcpb.TxnHeartBeatResponse{LockTtl: pnum(t[1])}, nil
	case tikvrpc.CmdScanLock:
		if e := errOf(t); e != nil {
			return &kvrpcpb.ScanLockResponse{Error: e}, nil
		}
		r := &kvrpcpb.ScanLockResponse{}
		for _, x := range splitTop(t[0]) {
			a := strings.Split(x, "/")
			r.Locks = append(r.Locks, &kvrpcpb.LockInfo{Key: unhx(a[0]), PrimaryLock: unhx(a[1]), LockVersion: pnum(a[2])})
		}
		return r, nil
	case tikvrpc.CmdResolveLock:
		return &kvrpcpb.ResolveLockResponse{Error: errOf(t)}, nil
	case tikvrpc.CmdGC:
		return &kvrpcpb.GCResponse{Error: errOf(t)}, nil
	case tikvrpc.CmdDeleteRange:
		return &kvrpcpb.DeleteRangeResponse{}, nil
	case tikvrpc.CmdCheckSecondaryLocks:
		if e := errOf(t); e != nil {
			return &kvrpcpb.CheckSecondaryLocksResponse{Error: e}, nil
		}
		r := &kvrpcpb.CheckSecondaryLocksResponse{CommitTs: pnum(field(t, "commit"))}
		q := req.CheckSecondaryLocks()
		for _, x := range splitTop(field(t, "locks")) {
			a := strings.Split(x, ":")
			r.Locks = append(r.Locks, &kvrpcpb.LockInfo{Key: unhx(a[0]), LockVersion: q.StartVersion, MinCommitTs: pnum(a[1]), UseAsyncCommit: a[2] == "1"})
		}
		return r, nil
	}
	return nil, fmt.Errorf("no decoder for %v", req.Type)
}
