//go:build verif

package hub

import (
	"context"
	"fmt"
	"os"
	"sort"
	"strings"
	"time"

	"github.com/pkg/errors"
	tikverr "github.com/tikv/client-go/v2/error"
	"github.com/tikv/client-go/v2/kv"
	"github.com/tikv/client-go/v2/oracle"
	"github.com/tikv/client-go/v2/txnkv/transaction"
	"github.com/tikv/client-go/v2/txnkv/txnsnapshot"
)

// LockWaitMs is the lock wait time of `lock` calls without the n flag (wall clock: the mock makes a blocked request
// sleep 5 ms, so a waiter gives up after a few rounds).
const LockWaitMs = 12

type txnState struct {
	txn     *transaction.KVTxn
	startTS uint64
	pess    bool
	mode    string
	result  string // "" (nothing told yet) | "committed <ts>" | "rolledback" | "unknown"
	agg     bool   // inside aggressive locking
	aggKeys int    // keys locked in the current aggressive-locking stage (as far as the API told)

	lastFU      uint64 // for-update ts of the latest LockAt call
	maxConflict uint64 // largest locked-with-conflict ts a LockAt call reported
}

func (t *txnState) outcome() string {
	if t.result == "" {
		return "unknown"
	}
	return t.result
}

// markCrashLocked: whatever the API has not told yet stays unknown.
func (c *Client) markCrashLocked() {}

// Classify maps an error to the closed error classes of HUB.md.
func Classify(err error) string {
	if err == nil {
		return "ok"
	}
	cause := errors.Cause(err)
	var ke *tikverr.ErrKeyExist
	var wc *tikverr.ErrWriteConflict
	var wcl *tikverr.ErrWriteConflictInLatch
	var dl *tikverr.ErrDeadlock
	var af *tikverr.ErrAssertionFailed
	var gc *tikverr.ErrTxnAbortedByGC
	var rt *tikverr.ErrRetryable
	msg := err.Error()
	switch {
	case tikverr.IsErrorUndetermined(err) || cause == tikverr.ErrResultUndetermined:
		return "undetermined"
	case errors.As(err, &ke):
		return "keyexists"
	case errors.As(err, &wc), errors.As(err, &wcl):
		return "writeconflict"
	case errors.As(err, &dl):
		return "deadlock"
	case errors.Is(err, tikverr.ErrLockWaitTimeout):
		return "locktimeout"
	case errors.Is(err, tikverr.ErrLockAcquireFailAndNoWaitSet):
		return "lockfailed"
	case errors.As(err, &af):
		return "assertion"
	case errors.As(err, &gc):
		return "gcaborted"
	case tikverr.IsErrNotFound(err):
		return "notfound"
	case errors.As(err, &rt), strings.Contains(msg, "tikv aborts txn"), strings.Contains(msg, "not found"), errors.Is(err, tikverr.ErrInvalidTxn):
		return "txnaborted"
	case errors.Is(err, ErrDropped), errors.Is(err, errDead), errors.Is(err, tikverr.ErrTiKVServerTimeout), errors.Is(err, tikverr.ErrRegionUnavailable),
		errors.Is(err, tikverr.ErrTiKVServerBusy), errors.Is(err, tikverr.ErrTiKVStaleCommand), errors.Is(err, tikverr.ErrResolveLockTimeout),
		errors.Is(err, context.Canceled), errors.Is(err, context.DeadlineExceeded), strings.Contains(msg, "verif:"):
		return "rpc"
	}
	return "other"
}

func errRes(err error) string {
	c := Classify(err)
	if c == "undetermined" {
		return "undetermined"
	}
	return "err " + c
}

// ---- call framing

func (c *Client) callBegin(call string, args ...string) int {
	c.inCall.Add(1)
	w := c.w
	w.rec.mu.Lock()
	c.calls++
	n := c.calls
	if !c.crashed.Load() {
		line := fmt.Sprintf("api %s %d begin %s", c.name, n, call)
		if len(args) > 0 {
			line += " " + strings.Join(args, " ")
		}
		w.emitLocked(line)
		w.rec.run.Count("api:" + call)
	}
	w.rec.mu.Unlock()
	return n
}

// callEnd writes the end line (and runs onEnd under the trace lock) unless the client died in the meantime.
func (c *Client) callEnd(n int, call, result string, onEnd func()) {
	w := c.w
	w.rec.mu.Lock()
	if !c.crashed.Load() {
		w.emitLocked(fmt.Sprintf("api %s %d end %s", c.name, n, result))
		f := strings.Fields(result + " -")
		cls := f[0]
		if cls == "err" {
			cls += ":" + f[1]
		} else if cls != "ok" && cls != "undetermined" {
			cls = "ok"
		}
		w.rec.run.Count("res:" + call + ":" + cls)
		if onEnd != nil {
			onEnd()
		}
	}
	w.rec.mu.Unlock()
	c.inCall.Add(-1)
}

func pairsStr(m map[string][]byte) string {
	keys := make([]string, 0, len(m))
	for k := range m {
		keys = append(keys, k)
	}
	sort.Strings(keys)
	out := make([]string, 0, len(keys))
	for _, k := range keys {
		out = append(out, Hx([]byte(k))+"="+Hx(m[k]))
	}
	return ShowList(out)
}

func (c *Client) track(keys ...[]byte) {
	for _, k := range keys {
		c.w.TrackKey(k)
	}
}

// ---- transaction calls

// Begin starts a transaction: pess, mode ∈ {2pc, async, 1pc}.
func (c *Client) Begin(pess bool, mode string) (uint64, string) {
	c.w.gate.pseudo(c, "begin") // controlled mode: starting a transaction (its start timestamp) is a scheduled event
	n := c.callBegin("begin", b01(pess), mode)
	txn, err := c.store.Begin()
	if err != nil {
		c.callEnd(n, "begin", errRes(err), nil)
		return 0, Classify(err)
	}
	txn.SetPessimistic(pess)
	switch mode {
	case "async":
		txn.SetEnableAsyncCommit(true)
	case "1pc":
		txn.SetEnable1PC(true)
	case "both":
		// TiDB's default: one-phase commit when the transaction fits one request, else async commit
		txn.SetEnableAsyncCommit(true)
		txn.SetEnable1PC(true)
	}
	st := &txnState{txn: txn, startTS: txn.StartTS(), pess: pess, mode: mode}
	c.callEnd(n, "begin", u(st.startTS), func() {
		c.txn = st
		c.txns = append(c.txns, st)
	})
	return st.startTS, "ok"
}

// Txn returns the raw current transaction (for knobs the scenarios set directly).
func (c *Client) Txn() *transaction.KVTxn {
	if c.txn == nil {
		return nil
	}
	return c.txn.txn
}

func (c *Client) HasTxn() bool { return c.txn != nil && c.txn.result == "" }

func (c *Client) Get(key []byte) ([]byte, string) {
	c.track(key)
	n := c.callBegin("get", Hx(key))
	e, err := c.txn.txn.Get(context.Background(), key)
	if err != nil {
		// a key without a visible value answers `err notfound`
		c.callEnd(n, "get", errRes(err), nil)
		return nil, Classify(err)
	}
	c.callEnd(n, "get", "ok "+Hx(e.Value), nil)
	return e.Value, "ok"
}

func (c *Client) BGet(keys [][]byte) string {
	c.track(keys...)
	n := c.callBegin("bget", HexList(keys))
	m, err := c.txn.txn.BatchGet(context.Background(), keys)
	if err != nil {
		c.callEnd(n, "bget", errRes(err), nil)
		return Classify(err)
	}
	vals := map[string][]byte{}
	for k, e := range m {
		vals[k] = e.Value
	}
	c.callEnd(n, "bget", "ok "+pairsStr(vals), nil)
	return "ok"
}

type kvIter interface {
	Valid() bool
	Key() []byte
	Value() []byte
	Next() error
	Close()
}

func drain(it kvIter, limit int) (string, error) {
	defer it.Close()
	var out []string
	for it.Valid() && (limit == 0 || len(out) < limit) {
		out = append(out, Hx(it.Key())+"="+Hx(it.Value()))
		if err := it.Next(); err != nil {
			return "", err
		}
	}
	return ShowList(out), nil
}

// Iter scans [lower, upper) forward (upper empty = unbounded), at most limit entries (0 = all).
func (c *Client) Iter(lower, upper []byte, limit int) string {
	n := c.callBegin("iter", Hx(lower), Hx(upper), fmt.Sprint(limit))
	it, err := c.txn.txn.Iter(lower, upper)
	if err != nil {
		c.callEnd(n, "iter", errRes(err), nil)
		return Classify(err)
	}
	s, err := drain(it, limit)
	if err != nil {
		c.callEnd(n, "iter", errRes(err), nil)
		return Classify(err)
	}
	c.callEnd(n, "iter", "ok "+s, nil)
	return "ok"
}

// RIter scans [lower, upper) backward (upper empty = from the end of the key space); the result is in descending key order.
func (c *Client) RIter(lower, upper []byte, limit int) string {
	n := c.callBegin("riter", Hx(lower), Hx(upper), fmt.Sprint(limit))
	var up []byte
	if len(upper) > 0 {
		up = upper
	}
	it, err := c.txn.txn.IterReverse(up, lower)
	if err != nil {
		c.callEnd(n, "riter", errRes(err), nil)
		return Classify(err)
	}
	s, err := drain(it, limit)
	if err != nil {
		c.callEnd(n, "riter", errRes(err), nil)
		return Classify(err)
	}
	c.callEnd(n, "riter", "ok "+s, nil)
	return "ok"
}

func (c *Client) Set(key, val []byte) string {
	c.track(key)
	n := c.callBegin("set", Hx(key), Hx(val))
	err := c.txn.txn.Set(key, val)
	c.callEnd(n, "set", resOf(err), nil)
	return Classify(err)
}

// Insert = Set with the presume-key-not-exists and newly-inserted flags (how TiDB writes the row key of an INSERT).
func (c *Client) Insert(key, val []byte) string {
	c.track(key)
	n := c.callBegin("insert", Hx(key), Hx(val))
	err := c.txn.txn.GetMemBuffer().SetWithFlags(key, val, kv.SetPresumeKeyNotExists, kv.SetNewlyInserted)
	c.callEnd(n, "insert", resOf(err), nil)
	return Classify(err)
}

// InsertLocked is the pessimistic INSERT of one key as TiDB does it: the write goes to a staging buffer with the
// presume-not-exists flag, then the key is locked (the lock request carries the not-exist assertion); if the lock fails the
// statement's write is rolled back (staging clean-up) and the transaction is as before.  The trace shows the `lock` call
// and, only if it succeeded, the `insert` call right after it (both are client-local facts at that point).
func (c *Client) InsertLocked(key, val []byte, flags string) string {
	mb := c.txn.txn.GetMemBuffer()
	h := mb.Staging()
	if err := mb.SetWithFlags(key, val, kv.SetPresumeKeyNotExists, kv.SetNewlyInserted); err != nil {
		mb.Cleanup(h)
		return Classify(err)
	}
	res := c.Lock([][]byte{key}, flags)
	if res != "ok" {
		mb.Cleanup(h)
		return res
	}
	mb.Release(h)
	c.track(key)
	n := c.callBegin("insert", Hx(key), Hx(val))
	c.callEnd(n, "insert", "ok", nil)
	return "ok"
}

func (c *Client) Delete(key []byte) string {
	c.track(key)
	n := c.callBegin("delete", Hx(key))
	err := c.txn.txn.Delete(key)
	c.callEnd(n, "delete", resOf(err), nil)
	return Classify(err)
}

func resOf(err error) string {
	if err == nil {
		return "ok"
	}
	return errRes(err)
}

// Lock = LockKeys.  flags ⊆ "rnec" (return values, no wait, lock only if exists, check existence), "-" for none.
// Result values: with r `k=<val|~>`; with c alone `k=+|-`; a key this transaction had already locked `k=?`;
// a key locked with conflict (aggressive locking) gets the suffix `!<conflictTS>`.
func (c *Client) Lock(keys [][]byte, flags string) string {
	c.track(keys...)
	n := c.callBegin("lock", HexList(keys), flags)
	st := c.txn
	forUpdateTS := st.startTS
	if st.pess {
		ts, err := c.store.CurrentTimestamp(oracle.GlobalTxnScope)
		if err != nil {
			c.callEnd(n, "lock", errRes(err), nil)
			return Classify(err)
		}
		forUpdateTS = ts
	}
	wait := int64(LockWaitMs)
	if strings.Contains(flags, "n") {
		wait = kv.LockNoWait
	}
	lc := kv.NewLockCtx(forUpdateTS, wait, time.Now())
	if strings.Contains(flags, "r") {
		lc.InitReturnValues(len(keys))
	}
	if strings.Contains(flags, "c") {
		lc.InitCheckExistence(len(keys))
	}
	if strings.Contains(flags, "e") {
		lc.LockOnlyIfExists = true
	}
	err := st.txn.LockKeys(context.Background(), lc, keys...)
	if err != nil {
		c.callEnd(n, "lock", errRes(err), nil)
		return Classify(err)
	}
	var out []string
	if lc.ReturnValues || lc.CheckExistence {
		ks := make([]string, 0, len(lc.Values))
		for k := range lc.Values {
			ks = append(ks, k)
		}
		sort.Strings(ks)
		for _, k := range ks {
			rv := lc.Values[k]
			var v string
			switch {
			case rv.AlreadyLocked:
				v = "?"
			case lc.ReturnValues:
				v = Hx(rv.Value)
			case rv.Exists:
				v = "+"
			default:
				v = "-"
			}
			if rv.LockedWithConflictTS != 0 {
				v += "!" + u(rv.LockedWithConflictTS)
			}
			out = append(out, Hx([]byte(k))+"="+v)
		}
	}
	c.callEnd(n, "lock", "ok "+ShowList(out), func() {
		if st.agg {
			st.aggKeys += len(keys)
		}
	})
	return "ok"
}

func (c *Client) Commit() string { return c.CommitCtx(context.Background()) }

// CommitCtx = Commit with the caller's context (a fault may cancel it while a request is outstanding).
func (c *Client) CommitCtx(ctx context.Context) string {
	n := c.callBegin("commit")
	st := c.txn
	err := st.txn.Commit(ctx)
	if err != nil && os.Getenv("HUB_DEBUG_COMMIT") != "" {
		fmt.Fprintf(os.Stderr, "case %d commit of %d: ctxErr=%v undeterminedErr=%v err=%v\n", c.w.rec.Cases(), st.startTS, ctx.Err(), transaction.VerifUndeterminedErr(st.txn), err)
	}
	res := ""
	switch cl := Classify(err); cl {
	case "ok":
		res = "ok " + u(st.txn.CommitTS())
	case "undetermined":
		res = "undetermined"
	default:
		res = "err " + cl
	}
	c.callEnd(n, "commit", res, func() {
		switch {
		case err == nil:
			st.result = "committed " + u(st.txn.CommitTS())
		case Classify(err) == "undetermined":
			st.result = "unknown"
		default:
			st.result = "rolledback"
		}
	})
	return Classify(err)
}

func (c *Client) Rollback() string {
	n := c.callBegin("rollback")
	st := c.txn
	err := st.txn.Rollback()
	c.callEnd(n, "rollback", resOf(err), func() {
		// whatever Rollback answers, the client never committed this transaction
		st.result = "rolledback"
	})
	return Classify(err)
}

// ---- aggressive locking (grammar extension: aggstart / aggretry / aggcancel / aggdone, all `end ok`)

func (c *Client) InAgg() bool { return c.txn != nil && c.txn.agg }
func (c *Client) AggKeys() int {
	if c.txn == nil {
		return 0
	}
	return c.txn.aggKeys
}

func (c *Client) AggStart() {
	n := c.callBegin("aggstart")
	c.txn.txn.StartAggressiveLocking()
	c.callEnd(n, "aggstart", "ok", func() { c.txn.agg = true; c.txn.aggKeys = 0 })
}

func (c *Client) AggRetry() {
	n := c.callBegin("aggretry")
	c.txn.txn.RetryAggressiveLocking(context.Background())
	c.callEnd(n, "aggretry", "ok", func() { c.txn.aggKeys = 0 })
}

func (c *Client) AggCancel() {
	n := c.callBegin("aggcancel")
	c.txn.txn.CancelAggressiveLocking(context.Background())
	c.callEnd(n, "aggcancel", "ok", func() { c.txn.agg = false; c.txn.aggKeys = 0 })
}

func (c *Client) AggDone() {
	n := c.callBegin("aggdone")
	c.txn.txn.DoneAggressiveLocking(context.Background())
	c.callEnd(n, "aggdone", "ok", func() { c.txn.agg = false; c.txn.aggKeys = 0 })
}

// ---- snapshot paths (C05)

// Snap is a KVSnapshot handle; reusing it across calls is the "warm cache" case.
type Snap struct {
	c    *Client
	s    *txnsnapshot.KVSnapshot
	ts   uint64
	used bool
	bs   int
	ko   bool
}

// Snapshot opens a snapshot at ts.  bs = scan batch size (0 = default), ko = key only.
func (c *Client) Snapshot(ts uint64, bs int, ko bool) *Snap {
	s := c.store.GetSnapshot(ts)
	if bs > 0 {
		s.SetScanBatchSize(bs)
	}
	s.SetKeyOnly(ko)
	return &Snap{c: c, s: s, ts: ts, bs: bs, ko: ko}
}

// opts token: cache=cold|warm,bs=<n>,ko=<0|1>[,extra…]
func (s *Snap) opts(extra ...string) string {
	cache := "cold"
	if s.used {
		cache = "warm"
	}
	s.used = true
	o := []string{"cache=" + cache, fmt.Sprintf("bs=%d", s.bs), "ko=" + b01(s.ko)}
	return strings.Join(append(o, extra...), ",")
}

func (s *Snap) Get(key []byte) string {
	c := s.c
	c.track(key)
	n := c.callBegin("snapget", u(s.ts), Hx(key), s.opts())
	e, err := s.s.Get(context.Background(), key)
	if err != nil {
		c.callEnd(n, "snapget", errRes(err), nil)
		return Classify(err)
	}
	c.callEnd(n, "snapget", "ok "+Hx(e.Value), nil)
	return "ok"
}

func (s *Snap) BGet(keys [][]byte, extra ...string) string {
	c := s.c
	c.track(keys...)
	n := c.callBegin("snapbget", u(s.ts), HexList(keys), s.opts(extra...))
	m, err := s.s.BatchGet(context.Background(), keys)
	if err != nil {
		c.callEnd(n, "snapbget", errRes(err), nil)
		return Classify(err)
	}
	vals := map[string][]byte{}
	for k, e := range m {
		vals[k] = e.Value
	}
	c.callEnd(n, "snapbget", "ok "+pairsStr(vals), nil)
	return "ok"
}

func (s *Snap) Iter(lower, upper []byte, limit int) string {
	c := s.c
	n := c.callBegin("snapiter", u(s.ts), Hx(lower), Hx(upper), fmt.Sprint(limit), s.opts())
	it, err := s.s.Iter(lower, upper)
	if err != nil {
		c.callEnd(n, "snapiter", errRes(err), nil)
		return Classify(err)
	}
	r, err := drain(it, limit)
	if err != nil {
		c.callEnd(n, "snapiter", errRes(err), nil)
		return Classify(err)
	}
	c.callEnd(n, "snapiter", "ok "+r, nil)
	return "ok"
}

func (s *Snap) RIter(lower, upper []byte, limit int) string {
	c := s.c
	n := c.callBegin("snapriter", u(s.ts), Hx(lower), Hx(upper), fmt.Sprint(limit), s.opts())
	var up []byte
	if len(upper) > 0 {
		up = upper
	}
	it, err := s.s.IterReverse(up, lower)
	if err != nil {
		c.callEnd(n, "snapriter", errRes(err), nil)
		return Classify(err)
	}
	r, err := drain(it, limit)
	if err != nil {
		c.callEnd(n, "snapriter", errRes(err), nil)
		return Classify(err)
	}
	c.callEnd(n, "snapriter", "ok "+r, nil)
	return "ok"
}

// CurrentTS fetches a fresh timestamp for this client (a `tso` event).
func (c *Client) CurrentTS() uint64 {
	ts, err := c.store.CurrentTimestamp(oracle.GlobalTxnScope)
	if err != nil {
		return 0
	}
	return ts
}

// GC runs the store's GC entry point (lock resolution of every region up to the safe point, then the safe point update).
func (c *Client) GC(safePoint uint64) string {
	n := c.callBegin("gc", u(safePoint))
	_, err := c.store.GC(context.Background(), safePoint)
	c.callEnd(n, "gc", resOf(err), nil)
	return Classify(err)
}

// ---- additions: for-update ts under the caller's control, snapshot re-pinning

// LockAt = LockKeys with a for-update ts chosen by the scenario instead of a fresh one (TiDB takes the for-update ts of a
// statement once and re-uses it for every lock call of the statement; a retried statement may or may not refresh it):
// sel = "fresh" (a new timestamp, as Lock) | "start" (the start ts) | "last" (the for-update ts of the previous LockAt call,
// start ts if none) | "conflict" (the largest locked-with-conflict ts reported so far, start ts if none); never below the
// for-update ts of the previous LockAt call.
// The trace line is `lock <keys> <flags> fu=<sel>:<ts>`; results as Lock.
func (c *Client) LockAt(keys [][]byte, flags string, sel string) string {
	c.track(keys...)
	st := c.txn
	fu := st.startTS
	switch sel {
	case "fresh":
		ts, err := c.store.CurrentTimestamp(oracle.GlobalTxnScope)
		if err != nil {
			return Classify(err)
		}
		fu = ts
	case "last":
		if st.lastFU != 0 {
			fu = st.lastFU
		}
	case "conflict":
		if st.maxConflict != 0 {
			fu = st.maxConflict
		}
	}
	if fu < st.lastFU {
		// a for-update ts never moves backwards (the caller takes it from the oracle or keeps the one it has)
		fu = st.lastFU
	}
	n := c.callBegin("lock", HexList(keys), flags, "fu="+sel+":"+u(fu))
	st.lastFU = fu
	wait := int64(LockWaitMs)
	if strings.Contains(flags, "n") {
		wait = kv.LockNoWait
	}
	lc := kv.NewLockCtx(fu, wait, time.Now())
	if strings.Contains(flags, "r") {
		lc.InitReturnValues(len(keys))
	}
	if strings.Contains(flags, "c") {
		lc.InitCheckExistence(len(keys))
	}
	if strings.Contains(flags, "e") {
		lc.LockOnlyIfExists = true
	}
	err := st.txn.LockKeys(context.Background(), lc, keys...)
	if lc.MaxLockedWithConflictTS > st.maxConflict {
		st.maxConflict = lc.MaxLockedWithConflictTS
	}
	if err != nil {
		c.callEnd(n, "lock", errRes(err), nil)
		return Classify(err)
	}
	var out []string
	ks := make([]string, 0, len(lc.Values))
	for k := range lc.Values {
		ks = append(ks, k)
	}
	sort.Strings(ks)
	for _, k := range ks {
		rv := lc.Values[k]
		if !(lc.ReturnValues || lc.CheckExistence) && rv.LockedWithConflictTS == 0 {
			continue
		}
		var v string
		switch {
		case rv.AlreadyLocked:
			v = "?"
		case lc.ReturnValues:
			v = Hx(rv.Value)
		case rv.Exists:
			v = "+"
		default:
			v = "-"
		}
		if rv.LockedWithConflictTS != 0 {
			v += "!" + u(rv.LockedWithConflictTS)
			if rv.LockedWithConflictTS > st.maxConflict {
				st.maxConflict = rv.LockedWithConflictTS
			}
		}
		out = append(out, Hx([]byte(k))+"="+v)
	}
	c.callEnd(n, "lock", "ok "+ShowList(out), func() {
		if st.agg {
			st.aggKeys += len(keys)
		}
	})
	return "ok"
}

// MaxConflictTS returns the largest locked-with-conflict ts a LockAt call of the current transaction reported (0 = none).
func (c *Client) MaxConflictTS() uint64 {
	if c.txn == nil {
		return 0
	}
	return c.txn.maxConflict
}

// StartTS returns the start ts of the current transaction (0 = none).
func (c *Client) StartTS() uint64 {
	if c.txn == nil {
		return 0
	}
	return c.txn.startTS
}

// SetTS = KVSnapshot.SetSnapshotTS on the long-lived snapshot object (`snapsetts <old ts> <new ts>`, end ok): every later
// snap* call of this handle carries the new ts.
func (s *Snap) SetTS(ts uint64) {
	c := s.c
	n := c.callBegin("snapsetts", u(s.ts), u(ts))
	s.s.SetSnapshotTS(ts)
	s.ts = ts
	c.callEnd(n, "snapsetts", "ok", nil)
}

// TS returns the timestamp in force.
func (s *Snap) TS() uint64 { return s.ts }

// SetLazy = SetWithFlags(key, val, kv.SetNeedConstraintCheckInPrewrite): a write whose constraint check is deferred to the
// prewrite (TiDB with tidb_constraint_check_in_place_pessimistic=off).  Trace: `setlazy <key> <val>`.
func (c *Client) SetLazy(key, val []byte) string {
	c.track(key)
	n := c.callBegin("setlazy", Hx(key), Hx(val))
	err := c.txn.txn.GetMemBuffer().SetWithFlags(key, val, kv.SetNeedConstraintCheckInPrewrite)
	c.callEnd(n, "setlazy", resOf(err), nil)
	return Classify(err)
}
