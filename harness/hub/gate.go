//go:build verif

package hub

import (
	"context"
	"errors"
	"fmt"
	"github.com/pingcap/kvproto/pkg/kvrpcpb"
	"runtime"
	"strings"
	"sync"
	"time"

	"github.com/tikv/client-go/v2/tikv"
	"github.com/tikv/client-go/v2/tikvrpc"
	"github.com/tikv/client-go/v2/util/async"
	"github.com/tikv/client-go/v2/verifx/vx"
)

// FaultKind of one fault-script entry.
type FaultKind int

const (
	// DropBefore: the request is never delivered (`norpc … dropped`), the client sees a transport error.
	DropBefore FaultKind = iota
	// DropAfter: the request is executed, the response is lost (`lost …`), the client sees a transport error.
	DropAfter
	// RegionErr: the request is not executed, the client gets a region error of class Class (`norpc … regionerr:<Class>`).
	RegionErr
	// Topo: Do runs (under the trace lock) just before the request is executed normally.
	Topo
	// CrashBefore: the client dies when this request is about to be delivered (`crash c`, `norpc … dropped`).
	CrashBefore
	// CrashAfter: the request is executed, the answer never arrives and the client dies (`lost …`, `crash c`).
	CrashAfter
	// Hold: the client's RPCs are held back while Start runs in its own goroutine, until Until() or MaxHold.
	Hold
	// Delay: the matching REQUEST (not its client) is held back until Until() or MaxHold; the client's other requests go on.
	// Used to order two concurrent requests of one client, and to stall one request while heart-beats continue.
	Delay
	// NoBody: the request is not executed, the client gets a response without a body (`norpc … rpcerr`): a non-fatal
	// failure of this one request that the sender does not retry by itself.
	NoBody
)

// Fault is one entry of the fault script.  It fires at the N-th RPC (0-based, in scheduling order, counted from the moment
// the fault was added) of Client, or at the N-th RPC of the whole world when Client is nil.  With Match the index only
// counts/fires on matching requests: the fault waits for the first matching request at or after the index.
type Fault struct {
	Kind    FaultKind
	Client  *Client
	N       int
	Match   func(kind, cmd string) bool
	Class   string         // RegionErr
	Do      func(w *World) // Topo (trace lock held: use the *Locked world functions through the helpers below)
	Start   func()         // Hold
	Until   func() bool    // Hold
	MaxHold time.Duration  // Hold (default 300ms)
	Label   string
	Repeat  bool // DropBefore/DropAfter/RegionErr/NoBody/Topo: applies to every matching request from the index on
	// Cancel (DropBefore/DropAfter): called when the fault fires; the client then sees context.Canceled instead of a
	// transport error — the caller's context ended while the request was outstanding (before it was executed / after it was
	// executed, the answer not read).
	Cancel func()
	// Deliver (kinds that hand an answer to the client): runs in its own goroutine, no lock held, after the request was
	// executed and recorded and BEFORE its answer is handed to the client (e.g. a clock step at the delivery of a status check).
	Deliver func()
	// LiftLockErr (kinds that hand an answer to the client): a BatchGet answer that reports a met lock as a per-pair error is
	// handed over with that error in the response-level `Error` field and no pairs — TiKV may answer either way.  The
	// `rpc` line keeps the store's own answer; a comment line `lifted <id>` follows it.
	LiftLockErr bool

	at      int // absolute index
	fired   bool
	started bool
	since   time.Time
}

// Fired reports whether the fault has been applied (read it only after the scenario has drained).
func (f *Fault) Fired() bool { return f.fired }

// Started reports whether a Hold has begun.
func (f *Fault) Started() bool { return f.started }

type rpcResult struct {
	resp *tikvrpc.Response
	err  error
}

type pendingRPC struct {
	c       *Client
	ctx     context.Context
	addr    string
	req     *tikvrpc.Request
	timeout time.Duration
	inner   tikv.Client
	done    chan rpcResult
	kind    string
	cmd     string
	picked  bool
}

// Gate serialises RPC execution: every request registers as pending and blocks; the scheduler goroutine releases exactly
// one at a time (seeded choice), executes it on the inner client while holding the trace lock and writes its event line
// before anything else can happen.
type Gate struct {
	w        *World
	rnd      *vx.Rand
	mu       sync.Mutex
	pending  []*pendingRPC
	parked   []*pendingRPC // requests of crashed clients: never executed, released when the world closes
	faults   []*Fault
	busy     bool
	stopped  bool
	nextID   int
	total    int // RPCs released so far (global index)
	last     time.Time
	wake     chan struct{}
	filter   func(c *Client) bool // optional: only these clients are schedulable
	seen     map[string]bool      // controlled mode: (label, store fingerprint) pairs already executed
	steps    int                  // controlled mode: events executed
	lastRun  map[string]int       // controlled mode: label -> step at which it ran last
	panicked map[string]bool      // (client, command) pairs whose mock panic has been reported (retries are not re-reported)
}

func newGate(w *World, rnd *vx.Rand) *Gate {
	g := &Gate{w: w, rnd: rnd, wake: make(chan struct{}, 1), last: time.Now()}
	go g.loop()
	return g
}

func (g *Gate) poke() {
	select {
	case g.wake <- struct{}{}:
	default:
	}
}

// AddFault registers a fault; N is relative to the number of RPCs released so far (of the client, or globally).
func (g *Gate) AddFault(f *Fault) *Fault {
	g.w.rec.mu.Lock()
	g.mu.Lock()
	if f.Client != nil {
		f.at = int(f.Client.rpcs.Load()) + f.N
	} else {
		f.at = g.total + f.N
	}
	g.faults = append(g.faults, f)
	g.mu.Unlock()
	g.w.rec.mu.Unlock()
	return f
}

// ClearFaults drops every fault that has not fired.
func (g *Gate) ClearFaults() {
	g.mu.Lock()
	g.faults = nil
	g.mu.Unlock()
}

// Total returns the number of RPCs released so far.
func (g *Gate) Total() int { g.mu.Lock(); defer g.mu.Unlock(); return g.total }

// idle: nothing pending (parked requests of dead clients do not count), nothing executing, for at least 1ms.
func (g *Gate) idle() bool {
	g.mu.Lock()
	defer g.mu.Unlock()
	return len(g.pending) == 0 && !g.busy && time.Since(g.last) > 400*time.Microsecond
}

// PendingOf returns the number of pending RPCs of a client.
func (g *Gate) PendingOf(c *Client) int {
	g.mu.Lock()
	defer g.mu.Unlock()
	n := 0
	for _, p := range g.pending {
		if p.c == c {
			n++
		}
	}
	return n
}

func (g *Gate) shutdown() {
	g.mu.Lock()
	g.stopped = true
	ps := append(g.pending, g.parked...)
	g.pending, g.parked = nil, nil
	g.mu.Unlock()
	for _, p := range ps {
		p.done <- rpcResult{nil, errDead}
	}
	g.poke()
}

// crash marks a client dead and parks its pending requests.
func (g *Gate) crash(c *Client) {
	g.w.rec.mu.Lock()
	defer g.w.rec.mu.Unlock()
	g.crashLocked(c)
}

func (g *Gate) crashLocked(c *Client) {
	if c.crashed.Load() {
		return
	}
	c.crashed.Store(true)
	g.w.emitLocked("crash " + c.name)
	c.markCrashLocked()
	g.mu.Lock()
	var keep []*pendingRPC
	for _, p := range g.pending {
		if p.c == c && !p.picked {
			g.nextID++
			g.w.emitLocked(fmt.Sprintf("norpc %d %s dropped %s", g.nextID, c.name, p.cmd))
			g.parked = append(g.parked, p)
		} else {
			keep = append(keep, p)
		}
	}
	g.pending = keep
	g.mu.Unlock()
}

// the fault (if any) that applies to the next RPC of p's client / of the world
func (g *Gate) faultFor(p *pendingRPC) *Fault {
	for _, f := range g.faults {
		if f.fired || f.Kind == Delay {
			continue
		}
		if f.Client != nil && f.Client != p.c {
			continue
		}
		idx := g.total
		if f.Client != nil {
			idx = int(p.c.rpcs.Load())
		}
		if idx < f.at {
			continue
		}
		if f.Match != nil && !f.Match(p.kind, p.cmd) {
			continue
		}
		return f
	}
	return nil
}

// delayed: an unfired Delay fault applies to p and its condition does not hold yet (g.mu held).
func (g *Gate) delayed(p *pendingRPC) bool {
	for _, f := range g.faults {
		if f.Kind != Delay || f.fired {
			continue
		}
		if f.Client != nil && f.Client != p.c {
			continue
		}
		idx := g.total
		if f.Client != nil {
			idx = int(p.c.rpcs.Load())
		}
		if idx < f.at || (f.Match != nil && !f.Match(p.kind, p.cmd)) {
			continue
		}
		if !f.started {
			f.started = true
			f.since = time.Now()
			g.w.rec.run.Count("fault:" + faultName(f))
		}
		max := f.MaxHold
		if max == 0 {
			max = 300 * time.Millisecond
		}
		if (f.Until != nil && f.Until()) || time.Since(f.since) > max {
			if !f.Repeat {
				f.fired = true
			}
			continue
		}
		return true
	}
	return false
}

// Pause waits for a short duration by yielding (time.Sleep has a granularity of a millisecond or more on some hosts).
func Pause(d time.Duration) {
	if d >= 2*time.Millisecond {
		time.Sleep(d)
		return
	}
	t := time.Now()
	for time.Since(t) < d {
		runtime.Gosched()
	}
}

func (g *Gate) loop() {
	if g.w.opt.Control != nil {
		g.controlledLoop()
		return
	}
	for {
		select {
		case <-g.wake:
		case <-time.After(2 * time.Millisecond):
		}
		g.mu.Lock()
		if g.stopped {
			g.mu.Unlock()
			return
		}
		n := len(g.pending)
		g.mu.Unlock()
		if n == 0 {
			continue
		}
		// settle: let the goroutines that just got an answer (or just started) reach their next RPC
		Pause(g.w.opt.Settle)
		g.step()
		g.poke()
	}
}

// step releases at most one pending RPC.
func (g *Gate) step() {
	rec := g.w.rec
	rec.mu.Lock()
	defer rec.mu.Unlock()
	g.mu.Lock()
	if g.stopped {
		g.mu.Unlock()
		return
	}
	// holds in progress: release when their condition holds
	held := map[*Client]bool{}
	for _, f := range g.faults {
		if f.Kind == Hold && f.started && !f.fired {
			max := f.MaxHold
			if max == 0 {
				max = 300 * time.Millisecond
			}
			if (f.Until != nil && f.Until()) || time.Since(f.since) > max {
				f.fired = true
			} else {
				held[f.Client] = true
			}
		}
	}
	var cands []*pendingRPC
	for _, p := range g.pending {
		if held[p.c] || g.delayed(p) {
			continue
		}
		if g.filter != nil && !g.filter(p.c) {
			continue
		}
		cands = append(cands, p)
	}
	if len(cands) == 0 {
		g.mu.Unlock()
		return
	}
	p := cands[g.rnd.Intn(len(cands))]
	f := g.faultFor(p)
	if f != nil && f.Kind == Hold {
		// start the hold: p stays pending, its client is not schedulable until the hold ends
		f.started = true
		f.since = time.Now()
		g.w.rec.run.Count("fault:" + faultName(f))
		start := f.Start
		g.mu.Unlock()
		if start != nil {
			go start()
		}
		return
	}
	for i, q := range g.pending {
		if q == p {
			g.pending = append(g.pending[:i], g.pending[i+1:]...)
			break
		}
	}
	if g.w.opt.MaxRPCs > 0 && g.total >= g.w.opt.MaxRPCs {
		// a scenario that keeps issuing requests (a retry loop that never ends) is reported as a hang
		g.mu.Unlock()
		if !g.w.closed && !g.w.hung {
			g.w.hung = true
			g.w.rec.run.Emit("hang rpc-budget", "FAIL hang")
			g.w.rec.run.Count("hang")
		}
		g.w.closed = true
		go g.shutdown()
		return
	}
	p.picked = true
	g.busy = true
	g.nextID++
	id := g.nextID
	g.total++
	p.c.rpcs.Add(1)
	if f != nil && !f.Repeat {
		f.fired = true
	}
	g.mu.Unlock()

	res, park := g.execute(id, p, f)

	g.mu.Lock()
	g.busy = false
	g.last = time.Now()
	if park {
		g.parked = append(g.parked, p)
	}
	g.mu.Unlock()
	if !park {
		if f != nil && f.Deliver != nil {
			deliver := f.Deliver
			go func() {
				defer func() { recover() }()
				deliver()
				p.done <- res
			}()
			return
		}
		p.done <- res
	}
}

// execute runs one released RPC with the trace lock held and writes its event line(s).  park = never answer (dead client).
func (g *Gate) execute(id int, p *pendingRPC, f *Fault) (rpcResult, bool) {
	w := g.w
	c := p.c
	if c.crashed.Load() {
		w.emitLocked(fmt.Sprintf("norpc %d %s dropped %s", id, c.name, p.cmd))
		return rpcResult{}, true
	}
	if f != nil {
		w.rec.run.Count("fault:" + faultName(f))
		switch f.Kind {
		case Topo:
			if f.Do != nil {
				f.Do(w)
			}
		case DropBefore:
			w.emitLocked(fmt.Sprintf("norpc %d %s dropped %s", id, c.name, p.cmd))
			if f.Cancel != nil {
				f.Cancel()
				return rpcResult{nil, context.Canceled}, false
			}
			return rpcResult{nil, ErrDropped}, false
		case NoBody:
			w.emitLocked(fmt.Sprintf("norpc %d %s rpcerr %s", id, c.name, p.cmd))
			return rpcResult{&tikvrpc.Response{}, nil}, false
		case RegionErr:
			w.emitLocked(fmt.Sprintf("norpc %d %s regionerr:%s %s", id, c.name, f.Class, p.cmd))
			resp, err := tikvrpc.GenRegionErrorResp(p.req, MakeRegionErr(f.Class, p.req.Context.RegionId))
			return rpcResult{resp, err}, false
		case CrashBefore:
			// the request under delivery is the first thing that is dropped
			c.crashed.Store(true)
			w.emitLocked("crash " + c.name)
			c.markCrashLocked()
			w.emitLocked(fmt.Sprintf("norpc %d %s dropped %s", id, c.name, p.cmd))
			g.parkRest(c)
			return rpcResult{}, true
		}
	}
	rs, re, haveRegion := w.regionRange(p.req.Context.RegionId)
	if w.lean != nil {
		w.lean.last = ""
	}
	resp, err := g.guarded(id, p, Hx(rs)+" "+Hx(re))
	line := ""
	executed := false
	switch {
	case err != nil:
		line = fmt.Sprintf("norpc %d %s rpcerr %s", id, c.name, p.cmd)
	default:
		regionErr, e2 := resp.GetRegionError()
		switch {
		case e2 != nil:
			line = fmt.Sprintf("norpc %d %s rpcerr %s", id, c.name, p.cmd)
		case regionErr != nil:
			line = fmt.Sprintf("norpc %d %s regionerr:%s %s", id, c.name, RegionErrClass(regionErr), p.cmd)
		case !haveRegion:
			line = fmt.Sprintf("norpc %d %s rpcerr %s", id, c.name, p.cmd)
		default:
			executed = true
			ans := RenderResp(p.req, resp)
			if w.lean != nil && w.lean.last != "" {
				// profile full: the recorded answer is the Lean store's own answer line
				ans = w.lean.last
			}
			line = fmt.Sprintf("%d %s %s %s %s => %s", id, c.name, Hx(rs), Hx(re), p.cmd, ans)
		}
	}
	if executed && f != nil && (f.Kind == DropAfter || f.Kind == CrashAfter) {
		w.emitLocked("lost " + line)
		if f.Kind == CrashAfter {
			c.crashed.Store(true)
			w.emitLocked("crash " + c.name)
			c.markCrashLocked()
			g.parkRest(c)
			return rpcResult{}, true
		}
		if f.Cancel != nil {
			f.Cancel()
			return rpcResult{nil, context.Canceled}, false
		}
		return rpcResult{nil, ErrDropped}, false
	}
	if executed {
		w.emitLocked("rpc " + line)
		if f != nil && f.LiftLockErr {
			if r, ok := resp.Resp.(*kvrpcpb.BatchGetResponse); ok && r.Error == nil {
				for _, p := range r.Pairs {
					if p.Error != nil && p.Error.Locked != nil {
						resp = &tikvrpc.Response{Resp: &kvrpcpb.BatchGetResponse{Error: p.Error}}
						if !w.closed {
							w.rec.run.Comment(fmt.Sprintf("lifted %d: the lock error is handed over at the response level", id))
							w.rec.run.Count("fault:lifted-lock-error")
						}
						break
					}
				}
			}
		}
	} else {
		if f != nil && f.Kind == DropAfter {
			// the store refused the request (region error) and that answer is lost too: for the client this is a request
			// that was not executed and whose fate it does not learn
			line = fmt.Sprintf("norpc %d %s dropped %s", id, c.name, p.cmd)
		}
		w.emitLocked(line)
		if f != nil && f.Kind == CrashAfter {
			// not executed (region error/rpc error): the client still dies here
			c.crashed.Store(true)
			w.emitLocked("crash " + c.name)
			c.markCrashLocked()
			g.parkRest(c)
			return rpcResult{}, true
		}
		if f != nil && f.Kind == DropAfter {
			if f.Cancel != nil {
				f.Cancel()
				return rpcResult{nil, context.Canceled}, false
			}
			return rpcResult{nil, ErrDropped}, false
		}
	}
	return rpcResult{resp, err}, false
}

// guarded executes the request on the inner (mock) client; a panic inside the mock's handler (it panics on a request whose
// keys lie outside the addressed region) is turned into an RPC error and reported as its own event:
// `mockpanic <id> <client> <rstart> <rend> <message> | <cmd>` with `FAIL mockpanic` on the implementation side.
func (g *Gate) guarded(id int, p *pendingRPC, region string) (resp *tikvrpc.Response, err error) {
	defer func() {
		if e := recover(); e != nil {
			msg := strings.ReplaceAll(fmt.Sprint(e), " ", "_")
			key := p.c.name + " " + p.cmd
			if !g.w.closed && !g.panicked[key] {
				if g.panicked == nil {
					g.panicked = map[string]bool{}
				}
				g.panicked[key] = true
				g.w.rec.run.Emit(fmt.Sprintf("mockpanic %d %s %s %s | %s", id, p.c.name, region, msg, p.cmd), "FAIL mockpanic")
				g.w.rec.run.Count("mockpanic")
			}
			resp, err = nil, errors.New("verif: mock panicked: "+msg)
		}
	}()
	return p.inner.SendRequest(p.ctx, p.addr, p.req, p.timeout)
}

// parkRest parks the other pending requests of a client that just died (trace lock held).
func (g *Gate) parkRest(c *Client) {
	g.mu.Lock()
	var keep []*pendingRPC
	for _, p := range g.pending {
		if p.c == c {
			g.nextID++
			g.w.emitLocked(fmt.Sprintf("norpc %d %s dropped %s", g.nextID, c.name, p.cmd))
			g.parked = append(g.parked, p)
		} else {
			keep = append(keep, p)
		}
	}
	g.pending = keep
	g.mu.Unlock()
}

func faultName(f *Fault) string {
	switch f.Kind {
	case DropBefore:
		return "drop-before"
	case DropAfter:
		return "drop-after"
	case RegionErr:
		return "regionerr:" + f.Class
	case Topo:
		return "topo:" + f.Label
	case CrashBefore:
		return "crash-before"
	case CrashAfter:
		return "crash-after"
	case Hold:
		return "hold:" + f.Label
	case Delay:
		return "delay:" + f.Label
	case NoBody:
		return "no-body"
	}
	return "?"
}

// SplitFault splits the region containing key at key just before the request it is attached to.
func SplitFault(key []byte) *Fault {
	return &Fault{Kind: Topo, Label: "split", Do: func(w *World) { w.splitLocked(key, true) }}
}

// LeaderFault moves the leader of key's region to the next store just before the request it is attached to.
func LeaderFault(key []byte) *Fault {
	return &Fault{Kind: Topo, Label: "leader", Do: func(w *World) { w.moveLeaderLocked(key) }}
}

// SetFilter restricts scheduling to the clients accepted by the filter (nil = everybody).
func (g *Gate) SetFilter(f func(c *Client) bool) {
	g.mu.Lock()
	g.filter = f
	g.mu.Unlock()
	g.poke()
}

// ---------------------------------------------------------------- the tikv.Client seen by one logical client

type gateClient struct {
	g     *Gate
	c     *Client
	inner tikv.Client
}

func (gc *gateClient) Close() error                                { return nil } // the mock store is shared: the world closes it
func (gc *gateClient) CloseAddr(addr string) error                 { return nil }
func (gc *gateClient) SetEventListener(l tikv.ClientEventListener) {}

func (gc *gateClient) SendRequest(ctx context.Context, addr string, req *tikvrpc.Request, timeout time.Duration) (*tikvrpc.Response, error) {
	g := gc.g
	kind, cmd := RenderReq(req)
	if g.w.lean != nil {
		kind, cmd = fullCmd(req)
	}
	p := &pendingRPC{c: gc.c, ctx: ctx, addr: addr, req: req, timeout: timeout, inner: gc.inner, done: make(chan rpcResult, 1), kind: kind, cmd: cmd}
	g.mu.Lock()
	if g.stopped {
		g.mu.Unlock()
		return nil, errDead
	}
	if gc.c.crashed.Load() {
		// a dead client's request: recorded once, never executed, never answered
		g.parked = append(g.parked, p)
		g.mu.Unlock()
		g.w.rec.mu.Lock()
		g.mu.Lock()
		g.nextID++
		id := g.nextID
		g.mu.Unlock()
		g.w.emitLocked(fmt.Sprintf("norpc %d %s dropped %s", id, gc.c.name, cmd))
		g.w.rec.mu.Unlock()
		r := <-p.done
		return r.resp, r.err
	}
	g.pending = append(g.pending, p)
	g.mu.Unlock()
	g.poke()
	select {
	case r := <-p.done:
		return r.resp, r.err
	case <-ctx.Done():
		// cancelled while waiting for its turn: withdraw it unless the scheduler already took it
		g.mu.Lock()
		for i, q := range g.pending {
			if q == p {
				g.pending = append(g.pending[:i], g.pending[i+1:]...)
				g.mu.Unlock()
				g.w.rec.mu.Lock()
				g.mu.Lock()
				g.nextID++
				id := g.nextID
				g.mu.Unlock()
				g.w.emitLocked(fmt.Sprintf("norpc %d %s rpcerr %s", id, gc.c.name, cmd))
				g.w.rec.mu.Unlock()
				return nil, ctx.Err()
			}
		}
		g.mu.Unlock()
		r := <-p.done
		return r.resp, r.err
	}
}

func (gc *gateClient) SendRequestAsync(ctx context.Context, addr string, req *tikvrpc.Request, cb async.Callback[*tikvrpc.Response]) {
	go func() {
		cb.Schedule(gc.SendRequest(ctx, addr, req, 0))
	}()
}
