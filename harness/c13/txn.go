//go:build verif

// Commit-path family of C13: REAL transactions are committed through every mode that fetches a commit timestamp
// (ordinary 2PC, async commit, 1PC, their causal-consistency variants, pipelined, the CommitTsExpired retry, the
// async/1PC → 2PC fallback) against the scripted PD, with a commit-wait constraint. The store side is a stub that
// accepts every transactional request (and can reject the first commit / refuse async commit), because the property
// is about the timestamps the client sends, not about MVCC.
//
//	chk-commitwait <2pc|async|1pc|pipelined> <causal 0|1> <normal|expired|fallback> <startTS> <constraint> <maxSleepNs> <ts,ts,…>
//	   -> ok <commitTS> min <min_commit_ts sent with the prewrites (async/1pc) | 0>
//	    | err-zero | err-drift | err-timeout | exhausted
//	    | FAIL commit-ts-not-above-constraint …      (commit succeeded at ts <= constraint, or min_commit_ts <= constraint)
package main

import (
	"bytes"
	"context"
	"fmt"
	"strings"
	"sync"
	"time"

	"github.com/pingcap/kvproto/pkg/kvrpcpb"
	"github.com/tikv/client-go/v2/oracle/oracles"
	"github.com/tikv/client-go/v2/tikv"
	"github.com/tikv/client-go/v2/tikvrpc"
	"github.com/tikv/client-go/v2/util/async"
)

// yesStore answers the transactional commands itself; everything else goes to the mock store underneath.
type yesStore struct {
	tikv.Client
	mu         sync.Mutex
	beh        string // normal | expired | fallback (for the running op)
	primary    []byte
	rejected   bool     // expired: the first commit of the primary has been rejected
	commitVers []uint64 // commit versions sent for the primary, in order
	minSent    uint64   // largest min_commit_ts seen in a prewrite that asked for async commit / 1PC
}

func (y *yesStore) arm(beh string, primary []byte) {
	y.mu.Lock()
	defer y.mu.Unlock()
	y.beh, y.primary, y.rejected, y.commitVers, y.minSent = beh, primary, false, nil, 0
}

func (y *yesStore) SendRequestAsync(ctx context.Context, addr string, req *tikvrpc.Request, cb async.Callback[*tikvrpc.Response]) {
	go func() { cb.Schedule(y.SendRequest(ctx, addr, req, 0)) }()
}

func (y *yesStore) SendRequest(ctx context.Context, addr string, req *tikvrpc.Request, timeout time.Duration) (*tikvrpc.Response, error) {
	switch req.Type {
	case tikvrpc.CmdPrewrite:
		r := req.Prewrite()
		resp := &kvrpcpb.PrewriteResponse{}
		y.mu.Lock()
		if r.UseAsyncCommit || r.TryOnePc {
			if r.MinCommitTs > y.minSent {
				y.minSent = r.MinCommitTs
			}
			if y.beh != "fallback" {
				if r.TryOnePc {
					resp.OnePcCommitTs = r.MinCommitTs
				} else {
					resp.MinCommitTs = r.MinCommitTs
				}
			}
		}
		y.mu.Unlock()
		return &tikvrpc.Response{Resp: resp}, nil
	case tikvrpc.CmdCommit:
		r := req.Commit()
		resp := &kvrpcpb.CommitResponse{}
		y.mu.Lock()
		hasPrimary := false
		for _, k := range r.Keys {
			if bytes.Equal(k, y.primary) {
				hasPrimary = true
			}
		}
		if hasPrimary {
			y.commitVers = append(y.commitVers, r.CommitVersion)
			if y.beh == "expired" && !y.rejected {
				y.rejected = true
				resp.Error = &kvrpcpb.KeyError{CommitTsExpired: &kvrpcpb.CommitTsExpired{
					StartTs: r.StartVersion, AttemptedCommitTs: r.CommitVersion, Key: y.primary, MinCommitTs: r.CommitVersion + 1}}
			}
		}
		y.mu.Unlock()
		return &tikvrpc.Response{Resp: resp}, nil
	case tikvrpc.CmdFlush:
		return &tikvrpc.Response{Resp: &kvrpcpb.FlushResponse{}}, nil
	case tikvrpc.CmdBufferBatchGet:
		return &tikvrpc.Response{Resp: &kvrpcpb.BufferBatchGetResponse{}}, nil
	case tikvrpc.CmdBatchRollback:
		return &tikvrpc.Response{Resp: &kvrpcpb.BatchRollbackResponse{}}, nil
	case tikvrpc.CmdCleanup:
		return &tikvrpc.Response{Resp: &kvrpcpb.CleanupResponse{}}, nil
	case tikvrpc.CmdResolveLock:
		return &tikvrpc.Response{Resp: &kvrpcpb.ResolveLockResponse{}}, nil
	case tikvrpc.CmdTxnHeartBeat:
		return &tikvrpc.Response{Resp: &kvrpcpb.TxnHeartBeatResponse{LockTtl: req.TxnHeartBeat().AdviseLockTtl}}, nil
	case tikvrpc.CmdCheckTxnStatus:
		return &tikvrpc.Response{Resp: &kvrpcpb.CheckTxnStatusResponse{Action: kvrpcpb.Action_NoAction, LockTtl: 1}}, nil
	case tikvrpc.CmdCheckSecondaryLocks:
		return &tikvrpc.Response{Resp: &kvrpcpb.CheckSecondaryLocksResponse{}}, nil
	case tikvrpc.CmdPessimisticRollback:
		return &tikvrpc.Response{Resp: &kvrpcpb.PessimisticRollbackResponse{}}, nil
	}
	return y.Client.SendRequest(ctx, addr, req, timeout)
}

var (
	theYesStore *yesStore
	wgBaseline  = -1
)

// quietStore waits until the background tasks this transaction spawned (secondary commits, clean-up, resolving the
// flushed locks) are over: the store's task counter is back at `level`. A pipelined transaction leaves one task
// behind that only sleeps (broadcastGracePeriod, 5 s) before it tells the stores to forget the transaction; it is not
// waited for. Keys are unique per op, so a straggler can never be mistaken for a request of a later op.
func quietStore(level int) {
	if wgBaseline < 0 {
		time.Sleep(2 * time.Millisecond)
		return
	}
	deadline := time.Now().Add(5 * time.Second)
	for tikv.VerifWGCount(commitStore) > level && time.Now().Before(deadline) {
		time.Sleep(20 * time.Microsecond)
	}
}

var txnSeq int

func doCommitTxn(mode string, causal bool, beh string, startTS, constraint, maxSleepNs uint64, script []uint64) string {
	commitOnce.Do(commitSetup)
	if (beh == "expired" && (mode == "async" || mode == "1pc")) || (beh == "fallback" && (mode == "2pc" || mode == "pipelined")) {
		beh = "normal"
	}
	txnSeq++
	keys := [][]byte{[]byte(fmt.Sprintf("c13-%06d-a", txnSeq)), []byte(fmt.Sprintf("c13-%06d-b", txnSeq)), []byte(fmt.Sprintf("c13-%06d-c", txnSeq))}
	level := tikv.VerifWGCount(commitStore)
	if mode == "pipelined" {
		level++
	}
	theYesStore.arm(beh, keys[0])
	// a fresh oracle per transaction: the cached ts of an earlier op (other physical times) must not make this
	// transaction look older than MaxTxnTimeUse
	commitPD.mu.Lock()
	commitPD.script = nil
	commitPD.mu.Unlock()
	o, err := oracles.NewPdOracle(commitPD, &oracles.PDOracleOptions{UpdateInterval: time.Hour, NoUpdateTS: true})
	if err != nil {
		return "error-oracle"
	}
	commitStore.GetOracle().Close()
	commitStore.SetOracle(o)
	commitPD.mu.Lock()
	commitPD.script = append([]uint64{}, script...)
	commitPD.exhausted = false
	commitPD.mu.Unlock()
	opts := []tikv.TxnOption{tikv.WithStartTS(startTS)}
	if mode == "pipelined" {
		opts = append(opts, tikv.WithDefaultPipelinedTxn())
	}
	txn, err := commitStore.Begin(opts...)
	if err != nil {
		return "error-begin"
	}
	switch mode {
	case "async":
		txn.SetEnableAsyncCommit(true)
	case "1pc":
		txn.SetEnable1PC(true)
	}
	txn.SetCausalConsistency(causal)
	if constraint > 0 {
		txn.SetCommitWaitUntilTSO(constraint)
	}
	txn.SetCommitWaitUntilTSOTimeout(time.Duration(maxSleepNs))
	for _, k := range keys {
		if err := txn.Set(k, []byte("v")); err != nil {
			return "error-set"
		}
	}
	err = txn.Commit(context.Background())
	quietStore(level)
	commitPD.mu.Lock()
	ex := commitPD.exhausted
	commitPD.mu.Unlock()
	if ex {
		return "exhausted"
	}
	if err != nil {
		msg := err.Error()
		switch {
		case strings.Contains(msg, "zero max sleep time"):
			return "err-zero"
		case strings.Contains(msg, "exceeds maximum allowed timeout"):
			return "err-drift"
		case strings.Contains(msg, "retry timeout"):
			return "err-timeout"
		}
		return "error " + strings.ReplaceAll(firstLine(msg), " ", "_")
	}
	theYesStore.mu.Lock()
	vers := append([]uint64{}, theYesStore.commitVers...)
	minSent := theYesStore.minSent
	theYesStore.mu.Unlock()
	commitTS := txn.CommitTS()
	// what the store was told: the (last) commit version of the primary, when a commit request was sent for it
	// synchronously (2PC, pipelined, fallback); async commit / 1PC commit at the calculated timestamp
	if mode == "2pc" || mode == "pipelined" || beh == "fallback" {
		if len(vers) == 0 {
			return "error no-commit-request-for-the-primary"
		}
		if vers[len(vers)-1] != commitTS {
			return fmt.Sprintf("error commit-version-sent-%d-differs-from-CommitTS-%d", vers[len(vers)-1], commitTS)
		}
	}
	if mode != "async" && mode != "1pc" {
		minSent = 0
	}
	bad := commitTS <= constraint
	if (mode == "async" || mode == "1pc") && minSent <= constraint {
		bad = true
	}
	if bad {
		return fmt.Sprintf("FAIL commit-ts-not-above-constraint commit=%d min=%d constraint=%d", commitTS, minSent, constraint)
	}
	return fmt.Sprintf("ok %d min %d", commitTS, minSent)
}

func firstLine(s string) string {
	if i := strings.IndexByte(s, '\n'); i >= 0 {
		s = s[:i]
	}
	if len(s) > 80 {
		s = s[:80]
	}
	return s
}
