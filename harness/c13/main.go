//go:build verif

// C13 harness: drives the real pdOracle (oracle/oracles/pd.go) with a scripted pd.Client whose responses are
// released in a chosen order, on op lines shared with the Lean model driver (cgv-c13).
//
// op grammar (one per line):
//
//	reset <empty|seeded> <pd0> <validation 0|1> [<updater 0|1>]   new oracle; PD has issued pd0; seeded = NewPdOracle (one
//	                                              GetTimestamp); updater = the background updateTS goroutine runs (hour ticker)
//	tick                                          the updater performs one update now (its own loop, doUpdate) -> upd pending | upd idle
//	                                              its PD request is then addressed as `u`:  issue u <inc>, arrive u
//	get <t> | aget <t>                            thread t calls GetTimestamp / GetTimestampAsync+Wait      -> pending
//	val <t> <readTS> <stale 0|1>                  thread t calls ValidateReadTS   -> accept | err-range | err-latest | <outcome>
//	issue <t|f> <inc>                             PD assigns last+inc+1 to the request of thread t / of the flight -> ts
//	arrive <t|f>                                  the response reaches the caller; goroutines run to quiescence    -> <outcome>
//	   <outcome> = low <cached ts|none> done <t=result,...|-> flight <0|1: a flight request waits at PD>
//	cancel <t>                                    the context given to call t is cancelled; goroutines run to quiescence   -> <outcome>
//	                                              (a call that returns the context error shows as t=cancelled)
//	low                                           GetLowResolutionTimestamp(+Async)
//	isexp|until|p-exp <g|x> <lockTS> <ttl>        IsExpired / UntilExpired / property: expired <=> until <= 0  (x: unknown scope)
//	compose <p> <l> | phys <ts> | p-ts <p> <l>    ComposeTS / ExtractPhysical+ExtractLogical / round trip
//	interval|p-interval <state> <conf> <cur> <lastShortMs> <lastTickNs> <nowNs> <required>    nextUpdateInterval / bounds
//	setint <conf> <cur> <new>                     SetLowResolutionTimestampUpdateInterval
//	commit <waitUntil> <maxSleepNs> <ts,ts,...>   KVTxn.GetTimestampForCommit against a PD returning the script
//	stress <n> <rounds> <seed>                    n goroutines x rounds GetTimestamp, free-running; invariants on observations
//	check                                         property oracle on everything observed since reset
package main

import (
	"bytes"
	"context"
	"fmt"
	"math"
	"runtime"
	"sort"
	"strconv"
	"strings"
	"sync"
	"sync/atomic"
	"time"

	"github.com/pingcap/failpoint"
	"github.com/pingcap/log"
	"github.com/tikv/client-go/v2/config/retry"
	"github.com/tikv/client-go/v2/oracle"
	"github.com/tikv/client-go/v2/oracle/oracles"
	"github.com/tikv/client-go/v2/testutils"
	"github.com/tikv/client-go/v2/tikv"
	"github.com/tikv/client-go/v2/util"
	"github.com/tikv/client-go/v2/verifx/vx"
	pd "github.com/tikv/pd/client"
	"github.com/tikv/pd/client/clients/tso"
	"github.com/tikv/pd/client/pkg/caller"
	"go.uber.org/zap/zapcore"
)

const shift = 18

type ownerKey struct{}

// ---------------------------------------------------------------- scripted PD

type pdCall struct {
	owner    int // thread id, -1 = validation flight, -2 = background updater (updateTS)
	ch       chan uint64
	issued   bool
	released bool
	ts       uint64
}

type scriptPD struct {
	pd.Client
	mu        sync.Mutex
	last      uint64
	auto      bool     // answer at once with last+1
	script    []uint64 // auto mode: answer with these first
	exhausted bool
	calls     []*pdCall
}

func (c *scriptPD) WithCallerComponent(caller.Component) pd.Client { return c }

func split(ts uint64) (int64, int64) { return int64(ts >> shift), int64(ts & (1<<shift - 1)) }

func (c *scriptPD) register(ctx context.Context) (*pdCall, uint64, bool) {
	c.mu.Lock()
	defer c.mu.Unlock()
	if c.auto {
		if c.script != nil {
			if len(c.script) == 0 {
				c.exhausted = true
				return nil, 1 << 62, true
			}
			v := c.script[0]
			c.script = c.script[1:]
			return nil, v, true
		}
		c.last++
		return nil, c.last, true
	}
	// who asks: the validation flight and the updater are recognised by their call stack (whatever context they pass),
	// client calls by the value the harness put into their context
	owner := -1
	switch calledFrom() {
	case "flight":
	case "updater":
		owner = -2
	default:
		if v, ok := ctx.Value(ownerKey{}).(int); ok {
			owner = v
		}
	}
	call := &pdCall{owner: owner, ch: make(chan uint64, 1)}
	c.calls = append(c.calls, call)
	return call, 0, false
}

// calledFrom: "updater" if pdOracle.updateTS is on the call stack, "flight" if the single-flight fetch of
// getCurrentTSForValidation is, "" otherwise
func calledFrom() string {
	pcs := make([]uintptr, 32)
	n := runtime.Callers(2, pcs)
	frames := runtime.CallersFrames(pcs[:n])
	for {
		fr, more := frames.Next()
		if strings.Contains(fr.Function, "(*pdOracle).updateTS") {
			return "updater"
		}
		if strings.Contains(fr.Function, "(*pdOracle).getCurrentTSForValidation") || strings.Contains(fr.Function, "singleflight.") {
			return "flight"
		}
		if !more {
			return ""
		}
	}
}

// await serves one request: the response, or the error of the request's own context if that is cancelled first
// (a PD client honours the context of the request it is serving; the request is then gone).
//
//go:noinline
func (c *scriptPD) await(ctx context.Context, call *pdCall) (uint64, error) {
	select {
	case v := <-call.ch:
		return v, nil
	case <-ctx.Done():
		c.mu.Lock()
		call.released = true
		c.mu.Unlock()
		return 0, ctx.Err()
	}
}

func (c *scriptPD) GetTS(ctx context.Context) (int64, int64, error) {
	call, v, now := c.register(ctx)
	if !now {
		var err error
		if v, err = c.await(ctx, call); err != nil {
			return 0, 0, err
		}
	}
	p, l := split(v)
	return p, l, nil
}

type pdFuture struct {
	ctx  context.Context
	c    *scriptPD
	call *pdCall
	v    uint64
}

func (f *pdFuture) Wait() (int64, int64, error) {
	v := f.v
	if f.call != nil {
		var err error
		if v, err = f.c.await(f.ctx, f.call); err != nil {
			return 0, 0, err
		}
	}
	p, l := split(v)
	return p, l, nil
}

func (c *scriptPD) GetTSAsync(ctx context.Context) tso.TSFuture {
	call, v, _ := c.register(ctx)
	return &pdFuture{ctx: ctx, c: c, call: call, v: v}
}

func (c *scriptPD) find(owner int, issued bool) *pdCall {
	c.mu.Lock()
	defer c.mu.Unlock()
	for _, k := range c.calls {
		if k.owner == owner && !k.released && k.issued == issued {
			return k
		}
	}
	return nil
}

func (c *scriptPD) flightWaiting() bool { return c.find(-1, false) != nil }

// ---------------------------------------------------------------- quiescence

// quiesce returns when every goroutine started by the harness or by singleflight is either gone or parked at one
// of the two places where only the harness can wake it up: waiting for a PD response, or waiting for a flight.
// The goroutine states come from a stop-the-world stack dump, so the answer is exact (no sleeps, no timing).
var stackBuf = make([]byte, 1<<18)

func quiesce() {
	for spin := 0; ; spin++ {
		n := runtime.Stack(stackBuf, true)
		if n == len(stackBuf) {
			stackBuf = make([]byte, 2*len(stackBuf))
			continue
		}
		if allParked(stackBuf[:n]) {
			return
		}
		if spin < 50 {
			runtime.Gosched()
		} else {
			time.Sleep(20 * time.Microsecond)
		}
	}
}

var (
	sepB      = []byte("\n\n")
	byMain    = []byte("created by main.")
	byFlight  = []byte("singleflight.(*Group).DoChan")
	byUpdater = []byte("(*pdOracle).updateTS")
	byOracles = []byte("created by github.com/tikv/client-go/v2/oracle/oracles.")
	atPD      = []byte("main.(*scriptPD).await(")
	atFlight  = []byte("getCurrentTSForValidation(")
	stRecv    = []byte("chan receive")
	stSelect  = []byte("select")
)

func allParked(dump []byte) bool {
	for len(dump) > 0 {
		var g []byte
		if i := bytes.Index(dump, sepB); i >= 0 {
			g, dump = dump[:i], dump[i+2:]
		} else {
			g, dump = dump, nil
		}
		// goroutines started by the harness (workers) and by singleflight (flights); a goroutine that has not run yet
		// only shows its `go` wrapper frame, so they are recognised by their creator
		// … plus the background updater (started by NewPdOracle / VerifStartUpdater)
		updater := bytes.Contains(g, byUpdater) || bytes.Contains(g, byOracles)
		if !bytes.Contains(g, byMain) && !bytes.Contains(g, byFlight) && !updater {
			continue
		}
		nl := bytes.IndexByte(g, '\n')
		if nl < 0 {
			return false
		}
		head := g[:nl]
		lb := bytes.IndexByte(head, '[')
		if lb < 0 {
			return false
		}
		state := head[lb+1:]
		switch {
		case (bytes.HasPrefix(state, stRecv) || bytes.HasPrefix(state, stSelect)) && bytes.Contains(g, atPD):
		case bytes.HasPrefix(state, stSelect) && bytes.Contains(g, atFlight):
		case updater && bytes.HasPrefix(state, stSelect) && bytes.Contains(g, byUpdater) && !bytes.Contains(g, atPD):
			// the updater idles in the select of its loop
		default:
			return false
		}
	}
	return true
}

// ---------------------------------------------------------------- world

type result struct {
	t   int
	res string
	ts  uint64
}

type getObs struct {
	start, done int // op sequence numbers; done = 0 while running or when it failed
	ts          uint64
	res         string
}
type valObs struct {
	rd, issuedAtStart, issuedAtEnd uint64
	verdict                        string
}

type world struct {
	hasUpd  bool // the background updater runs
	ticks   int
	pd      *scriptPD
	o       oracle.Oracle
	results chan result
	seq     int
	running map[int]bool
	cancels map[int]context.CancelFunc // per client call: cancels the context it was given
	killed  map[int]bool               // the script cancelled that context
	gets    map[int]*getObs
	vals    map[int]*valObs
	lowObs  []lowObs
}
type lowObs struct {
	ok       bool
	low, max uint64
}

var w *world

func opt(scope string) *oracle.Option {
	if scope == "x" {
		return &oracle.Option{TxnScope: "verif-unknown-scope"}
	}
	return &oracle.Option{TxnScope: oracle.GlobalTxnScope}
}

func (w *world) lowStr() string {
	ts, err := w.o.GetLowResolutionTimestamp(context.Background(), opt("g"))
	ts2, err2 := w.o.GetLowResolutionTimestampAsync(context.Background(), opt("g")).Wait()
	if (err == nil) != (err2 == nil) || ts != ts2 {
		return "mismatch-sync-async"
	}
	if err != nil {
		return "none"
	}
	return strconv.FormatUint(ts, 10)
}

func (w *world) observe() {
	ts, err := w.o.GetLowResolutionTimestamp(context.Background(), opt("g"))
	w.pd.mu.Lock()
	m := w.pd.last
	w.pd.mu.Unlock()
	w.lowObs = append(w.lowObs, lowObs{ok: err == nil, low: ts, max: m})
}

//go:noinline
func workerGet(w *world, ctx context.Context, t int, async bool) {
	var ts uint64
	var err error
	if async {
		ts, err = w.o.GetTimestampAsync(ctx, opt("g")).Wait()
	} else {
		ts, err = w.o.GetTimestamp(ctx, opt("g"))
	}
	if err != nil {
		w.results <- result{t: t, res: verdict(err)}
		return
	}
	w.results <- result{t: t, res: strconv.FormatUint(ts, 10), ts: ts}
}

//go:noinline
func workerVal(w *world, ctx context.Context, t int, rd uint64, stale bool) {
	err := w.o.ValidateReadTS(ctx, rd, stale, opt("g"))
	w.results <- result{t: t, res: verdict(err)}
}

func verdict(err error) string {
	switch e := err.(type) {
	case nil:
		return "accept"
	case oracle.ErrFutureTSRead:
		return "reject"
	case oracle.ErrLatestStaleRead:
		return "err-latest"
	default:
		if strings.Contains(e.Error(), context.Canceled.Error()) {
			return "cancelled"
		}
		if strings.Contains(e.Error(), "MaxInt64 <= readTS") {
			return "err-range"
		}
		return "error"
	}
}

// settle waits for quiescence and reports what finished
func (w *world) settle() string { return w.settleWith(nil) }

// settleGet: the response of a plain GetTimestamp call was released. Nobody else can be woken up by that (validators
// wait for flights, other callers for their own response), so waiting for this one worker is exact and much cheaper
// than a stack dump; the dump remains the fallback if the worker does not come back.
func (w *world) settleGet(t int) string {
	deadline := time.Now().Add(2 * time.Second)
	for spin := 0; ; spin++ {
		select {
		case r := <-w.results:
			return w.settleWith([]result{r})
		default:
		}
		if spin < 200 {
			runtime.Gosched()
		} else if time.Now().After(deadline) {
			return w.settleWith(nil)
		} else {
			time.Sleep(5 * time.Microsecond)
		}
	}
}

func (w *world) settleWith(fin []result) string {
	if fin == nil {
		quiesce()
	}
	for {
		select {
		case r := <-w.results:
			fin = append(fin, r)
			continue
		default:
		}
		break
	}
	sort.Slice(fin, func(i, j int) bool { return fin[i].t < fin[j].t })
	w.pd.mu.Lock()
	maxIssued := w.pd.last
	w.pd.mu.Unlock()
	var items []string
	for _, r := range fin {
		delete(w.running, r.t)
		if g := w.gets[r.t]; g != nil {
			g.res = r.res
			if r.res != "cancelled" && r.res != "error" {
				g.done, g.ts = w.seq, r.ts
			}
		}
		if v := w.vals[r.t]; v != nil {
			v.verdict, v.issuedAtEnd = r.res, maxIssued
		}
		items = append(items, fmt.Sprintf("%d=%s", r.t, r.res))
	}
	d := "-"
	if len(items) > 0 {
		d = strings.Join(items, ",")
	}
	fl := 0
	if w.pd.flightWaiting() {
		fl = 1
	}
	return fmt.Sprintf("low %s done %s flight %d", w.lowStr(), d, fl)
}

func (w *world) check() string {
	var prev lowObs
	for i, o := range w.lowObs {
		if o.ok && o.low > o.max {
			return fmt.Sprintf("FAIL lowres %d exceeds issued %d", o.low, o.max)
		}
		if i > 0 && prev.ok && (!o.ok || o.low < prev.low) {
			return fmt.Sprintf("FAIL lowres went back %d -> %d", prev.low, o.low)
		}
		prev = o
	}
	for a, ga := range w.gets {
		for b, gb := range w.gets {
			if ga.done != 0 && gb.done != 0 && ga.done < gb.start && !(ga.ts < gb.ts) {
				return fmt.Sprintf("FAIL order call %d returned %d before call %d started, which returned %d", a, ga.ts, b, gb.ts)
			}
		}
	}
	// PD never fails in these scripts: a call may only fail if its OWN context was cancelled
	for t, g := range w.gets {
		if (g.res == "cancelled" || g.res == "error") && !w.killed[t] {
			return fmt.Sprintf("FAIL live-context GetTimestamp call %d failed (%s)", t, g.res)
		}
	}
	ids := make([]int, 0, len(w.vals))
	for t := range w.vals {
		ids = append(ids, t)
	}
	sort.Ints(ids)
	for _, t := range ids {
		v := w.vals[t]
		if (v.verdict == "cancelled" || v.verdict == "error") && !w.killed[t] {
			return fmt.Sprintf("FAIL live-context ValidateReadTS call %d of readTS %d (issued before the call: %d) failed (%s) although its own context is alive",
				t, v.rd, v.issuedAtStart, v.verdict)
		}
		if v.verdict == "accept" && v.rd > v.issuedAtEnd {
			return fmt.Sprintf("FAIL accept-future readTS %d issued %d", v.rd, v.issuedAtEnd)
		}
		if v.verdict == "reject" && v.rd <= v.issuedAtStart {
			return fmt.Sprintf("FAIL reject-past readTS %d issued-before-call %d", v.rd, v.issuedAtStart)
		}
	}
	return "ok"
}

func parseWho(s string) (int, bool) {
	if s == "f" {
		return -1, true
	}
	if s == "u" {
		return -2, true
	}
	t, err := strconv.Atoi(s)
	return t, err == nil && t >= 0 && t < 1000
}

func stateOK(s string) bool {
	switch s {
	case "none", "normal", "adapting", "recovering", "unadjustable":
		return true
	}
	return false
}

var (
	commitOnce  sync.Once
	commitStore *tikv.KVStore
	commitPD    *scriptPD
)

func commitSetup() {
	client, cluster, pdClient, err := testutils.NewMockTiKV("", nil)
	if err != nil {
		panic(err)
	}
	testutils.BootstrapWithSingleStore(cluster)
	commitStore, err = tikv.NewTestTiKVStore(client, pdClient, func(c tikv.Client) tikv.Client {
		theYesStore = &yesStore{Client: c}
		return theYesStore
	}, nil, 0)
	if err != nil {
		panic(err)
	}
	commitPD = &scriptPD{auto: true, script: []uint64{}}
	commitPD.script = nil // plain auto mode for the seeding call of NewPdOracle
	o, err := oracles.NewPdOracle(commitPD, &oracles.PDOracleOptions{UpdateInterval: time.Hour, NoUpdateTS: true})
	if err != nil {
		panic(err)
	}
	commitStore.GetOracle().Close()
	commitStore.SetOracle(o)
	wgBaseline = tikv.VerifWGCount(commitStore)
}

func doCommit(waitUntil, maxSleepNs uint64, script []uint64) string {
	commitOnce.Do(commitSetup)
	commitPD.mu.Lock()
	commitPD.script = append([]uint64{}, script...)
	commitPD.exhausted = false
	commitPD.mu.Unlock()
	txn, err := commitStore.Begin(tikv.WithStartTS(1))
	if err != nil {
		return "error-begin"
	}
	txn.SetCommitWaitUntilTSO(waitUntil)
	txn.SetCommitWaitUntilTSOTimeout(time.Duration(maxSleepNs))
	bo := retry.NewBackoffer(context.Background(), 20000)
	ts, err := txn.GetTimestampForCommit(bo, oracle.GlobalTxnScope)
	commitPD.mu.Lock()
	ex := commitPD.exhausted
	commitPD.mu.Unlock()
	if ex {
		return "exhausted"
	}
	if err != nil {
		msg := err.Error()
		switch {
		case strings.Contains(msg, "zero max sleep time"):
			return "err-zero"
		case strings.Contains(msg, "exceeds maximum allowed timeout"):
			return "err-drift"
		case strings.Contains(msg, "retry timeout"):
			return "err-timeout"
		}
		return "error"
	}
	if ts <= waitUntil {
		return fmt.Sprintf("FAIL commit %d", ts)
	}
	return fmt.Sprintf("ok %d", ts)
}

func parseScript(s string) ([]uint64, bool) {
	if s == "-" {
		return []uint64{}, true
	}
	var out []uint64
	for _, p := range strings.Split(s, ",") {
		v, err := strconv.ParseUint(p, 10, 64)
		if err != nil {
			return nil, false
		}
		out = append(out, v)
	}
	return out, true
}

// stress: free-running goroutines; the verdict must be "ok" whatever the interleaving
func doStress(n, rounds int) string {
	p := &scriptPD{auto: true, last: 100}
	o := oracles.VerifNewEmptyPdOracle(p, time.Hour)
	var bad atomic.Value
	var stop atomic.Bool
	var wg, rg sync.WaitGroup
	rg.Add(1)
	go func() { // reader of the cached ts
		defer rg.Done()
		var prev uint64
		seen := false
		for !stop.Load() {
			ts, err := o.GetLowResolutionTimestamp(context.Background(), opt("g"))
			if err != nil {
				if seen {
					bad.Store("FAIL stress cached ts disappeared")
				}
				runtime.Gosched()
				continue
			}
			p.mu.Lock()
			m := p.last
			p.mu.Unlock()
			if ts > m {
				bad.Store(fmt.Sprintf("FAIL stress lowres %d exceeds issued %d", ts, m))
			}
			if seen && ts < prev {
				bad.Store(fmt.Sprintf("FAIL stress lowres went back %d -> %d", prev, ts))
			}
			prev, seen = ts, true
			runtime.Gosched()
		}
	}()
	for g := 0; g < n; g++ {
		wg.Add(1)
		go func() {
			defer wg.Done()
			var prev uint64
			for r := 0; r < rounds; r++ {
				ts, err := o.GetTimestamp(context.Background(), opt("g"))
				if err != nil || ts <= prev {
					bad.Store(fmt.Sprintf("FAIL stress order %d then %d", prev, ts))
				}
				prev = ts
				low, err := o.GetLowResolutionTimestamp(context.Background(), opt("g"))
				if err != nil || low < ts {
					bad.Store(fmt.Sprintf("FAIL stress returned %d but lowres %d", ts, low))
				}
			}
		}()
	}
	wg.Wait()
	stop.Store(true)
	rg.Wait()
	low, err := o.GetLowResolutionTimestamp(context.Background(), opt("g"))
	if err != nil || low != p.last {
		bad.Store(fmt.Sprintf("FAIL stress final lowres %d issued %d", low, p.last))
	}
	if b := bad.Load(); b != nil {
		return b.(string)
	}
	return "ok"
}

// exec runs one op. After every op that lets the oracle move, the property oracle is evaluated on everything the
// implementation has shown so far: a violation turns the result line into "FAIL …" at the very step where it appears.
func exec(line string) string {
	return vx.Guard(func() string {
		out := exec1(line)
		switch strings.Fields(line + " .")[0] {
		case "get", "aget", "val", "issue", "arrive", "tick", "cancel":
			if w != nil && out != "bad-op" {
				if c := w.check(); c != "ok" {
					return c + " | " + out
				}
			}
		}
		return out
	})
}

func exec1(line string) string {
	f := strings.Fields(line)
	if len(f) == 0 {
		return "bad-op"
	}
	u := func(s string) (uint64, bool) { v, err := strconv.ParseUint(s, 10, 64); return v, err == nil }
	i := func(s string) (int64, bool) { v, err := strconv.ParseInt(s, 10, 64); return v, err == nil }
	if f[0] != "reset" && w == nil {
		switch f[0] {
		case "get", "aget", "val", "issue", "arrive", "tick", "cancel", "low", "check", "isexp", "until", "p-exp":
			return "bad-op"
		}
	}
	if w != nil {
		w.seq++
	}
	switch {
	case f[0] == "reset" && (len(f) == 4 || len(f) == 5):
		withUpd := len(f) == 5 && f[4] == "1"
		pd0, ok := u(f[2])
		if !ok || (f[1] != "empty" && f[1] != "seeded") {
			return "bad-op"
		}
		if w != nil {
			// finish the previous case: from now on its PD answers at once, everything that waits is released
			w.pd.mu.Lock()
			w.pd.auto = true
			for _, k := range w.pd.calls {
				if !k.released {
					k.released = true
					w.pd.last++
					k.ch <- w.pd.last
				}
			}
			w.pd.mu.Unlock()
			for len(w.running) > 0 {
				r := <-w.results
				delete(w.running, r.t)
			}
			for _, c := range w.cancels {
				c()
			}
			w.o.Close()
		}
		oracles.EnableTSValidation.Store(f[3] == "1")
		p := &scriptPD{last: pd0}
		nw := &world{cancels: map[int]context.CancelFunc{}, killed: map[int]bool{}, hasUpd: withUpd, pd: p, results: make(chan result, 4096), running: map[int]bool{}, gets: map[int]*getObs{}, vals: map[int]*valObs{}}
		if f[1] == "seeded" {
			p.auto = true
			// with the updater: its ticker period is an hour, so it only moves when the script makes it (op `tick`)
			o, err := oracles.NewPdOracle(p, &oracles.PDOracleOptions{UpdateInterval: time.Hour, NoUpdateTS: !withUpd})
			if err != nil {
				return "error"
			}
			p.mu.Lock()
			p.auto = false
			p.mu.Unlock()
			nw.o = o
		} else {
			nw.o = oracles.VerifNewEmptyPdOracle(p, time.Hour)
			if withUpd {
				oracles.VerifStartUpdater(nw.o)
			}
		}
		w = nw
		w.observe()
		return "ok"
	case (f[0] == "get" || f[0] == "aget") && len(f) == 2:
		t, ok := parseWho(f[1])
		if !ok || t < 0 || w.running[t] || w.gets[t] != nil || w.vals[t] != nil {
			return "bad-op"
		}
		w.running[t] = true
		w.gets[t] = &getObs{start: w.seq}
		ctx, cancel := context.WithCancel(context.WithValue(context.Background(), ownerKey{}, t))
		w.cancels[t] = cancel
		go workerGet(w, ctx, t, f[0] == "aget")
		for spin := 0; w.pd.find(t, false) == nil; spin++ {
			if spin < 200 {
				runtime.Gosched()
			} else {
				quiesce() // exact answer: parked somewhere else (or gone) without asking PD
				break
			}
		}
		w.observe()
		if w.pd.find(t, false) == nil {
			return "not-pending"
		}
		return "pending"
	case f[0] == "val" && len(f) == 4:
		t, ok := parseWho(f[1])
		rd, ok2 := u(f[2])
		if !ok || !ok2 || t < 0 || w.running[t] || w.gets[t] != nil || w.vals[t] != nil {
			return "bad-op"
		}
		stale := f[3] == "1"
		special := !oracles.EnableTSValidation.Load() || rd >= math.MaxInt64
		w.pd.mu.Lock()
		issued := w.pd.last
		w.pd.mu.Unlock()
		if special {
			// answered before the loop: no goroutine needed, not part of the accept/reject property
			r := verdict(w.o.ValidateReadTS(context.Background(), rd, stale, opt("g")))
			w.observe()
			return r
		}
		w.running[t] = true
		w.vals[t] = &valObs{rd: rd, issuedAtStart: issued}
		ctx, cancel := context.WithCancel(context.WithValue(context.Background(), ownerKey{}, t))
		w.cancels[t] = cancel
		go workerVal(w, ctx, t, rd, stale)
		out := w.settle()
		w.observe()
		return out
	case f[0] == "issue" && len(f) == 3:
		t, ok := parseWho(f[1])
		inc, ok2 := u(f[2])
		if !ok || !ok2 {
			return "bad-op"
		}
		k := w.pd.find(t, false)
		if k == nil {
			return "bad-op"
		}
		w.pd.mu.Lock()
		w.pd.last += inc + 1
		k.ts, k.issued = w.pd.last, true
		v := k.ts
		w.pd.mu.Unlock()
		w.observe()
		return strconv.FormatUint(v, 10)
	case f[0] == "arrive" && len(f) == 2:
		t, ok := parseWho(f[1])
		if !ok {
			return "bad-op"
		}
		k := w.pd.find(t, true)
		if k == nil {
			return "bad-op"
		}
		w.pd.mu.Lock()
		k.released = true
		w.pd.mu.Unlock()
		k.ch <- k.ts
		var out string
		if t >= 0 && w.gets[t] != nil {
			out = w.settleGet(t)
		} else {
			out = w.settle()
		}
		w.observe()
		return out
	case f[0] == "cancel" && len(f) == 2:
		t, ok := parseWho(f[1])
		if !ok || t < 0 || (w.gets[t] == nil && w.vals[t] == nil) {
			return "bad-op"
		}
		w.killed[t] = true
		w.cancels[t]()
		out := w.settle()
		w.observe()
		return out
	case f[0] == "tick" && len(f) == 1:
		if !w.hasUpd || w.pd.find(-2, false) != nil || w.pd.find(-2, true) != nil {
			return "bad-op"
		}
		// every trigger asks for a shorter staleness than the one before, so the loop sees a changed interval
		w.ticks++
		oracles.VerifTriggerUpdate(w.o, 3000*time.Second-time.Duration(w.ticks)*10*time.Second)
		quiesce()
		w.observe()
		if w.pd.find(-2, false) != nil {
			return "upd pending"
		}
		return "upd idle"
	case f[0] == "low" && len(f) == 1:
		return w.lowStr()
	case f[0] == "check" && len(f) == 1:
		return w.check()
	case (f[0] == "isexp" || f[0] == "until" || f[0] == "p-exp") && len(f) == 4:
		lock, ok := u(f[2])
		ttl, ok2 := u(f[3])
		if !ok || !ok2 || (f[1] != "g" && f[1] != "x") {
			return "bad-op"
		}
		switch f[0] {
		case "isexp":
			return strconv.FormatBool(w.o.IsExpired(lock, ttl, opt(f[1])))
		case "until":
			return strconv.FormatInt(w.o.UntilExpired(lock, ttl, opt(f[1])), 10)
		}
		e := w.o.IsExpired(lock, ttl, opt(f[1]))
		un := w.o.UntilExpired(lock, ttl, opt(f[1]))
		if e == (un <= 0) {
			return "ok"
		}
		return fmt.Sprintf("FAIL expired=%v until=%d", e, un)
	case f[0] == "compose" && len(f) == 3:
		p, ok := i(f[1])
		l, ok2 := i(f[2])
		if !ok || !ok2 {
			return "bad-op"
		}
		return strconv.FormatUint(oracle.ComposeTS(p, l), 10)
	case f[0] == "phys" && len(f) == 2:
		ts, ok := u(f[1])
		if !ok {
			return "bad-op"
		}
		return fmt.Sprintf("%d %d", oracle.ExtractPhysical(ts), oracle.ExtractLogical(ts))
	case f[0] == "p-ts" && len(f) == 3:
		p, ok := i(f[1])
		l, ok2 := i(f[2])
		if !ok || !ok2 {
			return "bad-op"
		}
		ts := oracle.ComposeTS(p, l)
		if oracle.ExtractPhysical(ts) == p && oracle.ExtractLogical(ts) == l {
			return "ok"
		}
		return fmt.Sprintf("FAIL %d %d", oracle.ExtractPhysical(ts), oracle.ExtractLogical(ts))
	case (f[0] == "interval" || f[0] == "p-interval") && len(f) == 8:
		var v [6]int64
		for k := 0; k < 6; k++ {
			x, ok := i(f[2+k])
			if !ok {
				return "bad-op"
			}
			v[k] = x
		}
		if !stateOK(f[1]) {
			return "bad-op"
		}
		st, r, same := oracles.VerifNextUpdateInterval(f[1], time.Duration(v[0]), time.Duration(v[1]), v[2],
			time.Unix(0, v[3]), time.Unix(0, v[4]), time.Duration(v[5]))
		if !same {
			return "FAIL returned interval differs from the stored one"
		}
		if f[0] == "interval" {
			return fmt.Sprintf("%s %d", st, int64(r))
		}
		lo := int64(500 * time.Millisecond)
		if v[0] < lo {
			lo = v[0]
		}
		if lo <= int64(r) && int64(r) <= v[0] {
			return "ok"
		}
		return fmt.Sprintf("FAIL interval %d", int64(r))
	case f[0] == "setint" && len(f) == 4:
		c, ok := i(f[1])
		a, ok2 := i(f[2])
		n, ok3 := i(f[3])
		if !ok || !ok2 || !ok3 || n <= 0 {
			return "bad-op"
		}
		c2, a2, err := oracles.VerifSetConfigured(time.Duration(c), time.Duration(a), time.Duration(n))
		if err != nil {
			return "error"
		}
		return fmt.Sprintf("%d %d", int64(c2), int64(a2))
	case f[0] == "commit" && len(f) == 4:
		wu, ok := u(f[1])
		ms, ok2 := u(f[2])
		sc, ok3 := parseScript(f[3])
		if !ok || !ok2 || !ok3 {
			return "bad-op"
		}
		return doCommit(wu, ms, sc)
	case f[0] == "chk-commitwait" && len(f) == 8:
		st, ok := u(f[4])
		c, ok2 := u(f[5])
		ms, ok3 := u(f[6])
		sc, ok4 := parseScript(f[7])
		okm := f[1] == "2pc" || f[1] == "async" || f[1] == "1pc" || f[1] == "pipelined"
		okb := f[3] == "normal" || f[3] == "expired" || f[3] == "fallback"
		if !ok || !ok2 || !ok3 || !ok4 || !okm || !okb {
			return "bad-op"
		}
		return doCommitTxn(f[1], f[2] == "1", f[3], st, c, ms, sc)
	case f[0] == "stress" && len(f) == 4:
		n, ok := u(f[1])
		r, ok2 := u(f[2])
		_, ok3 := u(f[3])
		if !ok || !ok2 || !ok3 || n == 0 || n > 64 || r > 1000 {
			return "bad-op"
		}
		return doStress(int(n), int(r))
	}
	return "bad-op"
}

// ---------------------------------------------------------------- generation

type gen struct {
	kinds  string // caller kinds of the running case
	run    *vx.Run
	r      *vx.Rand
	caseNo int
}

func (g *gen) do(op string) string {
	g.run.Count(strings.Fields(op)[0])
	out := exec(op)
	g.run.Emit(op, out)
	return out
}

func (g *gen) newCase(mode string, pd0 uint64, validation bool, kinds string) {
	g.kinds = kinds
	g.caseNo++
	g.run.Comment(fmt.Sprintf("case %d", g.caseNo))
	v := "1"
	if !validation {
		v = "0"
	}
	if strings.Contains(kinds, "U") {
		g.do(fmt.Sprintf("reset %s %d %s 1", mode, pd0, v))
	} else {
		g.do(fmt.Sprintf("reset %s %d %s", mode, pd0, v))
	}
}

type event struct {
	kind string // start | issue | arrive
	who  int    // thread id, -1 = flight
}

// enabled events in a canonical order: start of the next caller, then issue/arrive per PD call in registration order
func (g *gen) enabled(next, n int) []event {
	var ev []event
	if next < n {
		// a tick of the updater can only start when the previous one is over (one goroutine runs them all)
		if !(g.kinds[next] == 'U' && (w.pd.find(-2, false) != nil || w.pd.find(-2, true) != nil)) {
			ev = append(ev, event{"start", next})
		}
	}
	// the context of a cancellable caller (lower-case kind) may be cancelled while the call is running
	for t := 0; t < next && t < len(g.kinds); t++ {
		if g.kinds[t] >= 'a' && g.kinds[t] <= 'z' && w.running[t] && !w.killed[t] {
			ev = append(ev, event{"cancel", t})
		}
	}
	w.pd.mu.Lock()
	for _, k := range w.pd.calls {
		if k.released {
			continue
		}
		if k.issued {
			ev = append(ev, event{"arrive", k.owner})
		} else {
			ev = append(ev, event{"issue", k.owner})
		}
	}
	w.pd.mu.Unlock()
	return ev
}

func whoStr(t int) string {
	if t == -2 {
		return "u"
	}
	if t < 0 {
		return "f"
	}
	return strconv.Itoa(t)
}

// kinds: U one tick of the background updater, G get, A async get, P validate the largest issued ts, N validate issued+1, F validate issued+1000,
// S same as P but flagged stale read
func (g *gen) startCaller(t int, kind byte) {
	w.pd.mu.Lock()
	last := w.pd.last
	w.pd.mu.Unlock()
	if kind >= 'a' && kind <= 'z' {
		kind = kind - 'a' + 'A' // cancellable variant of the same call
	}
	if kind == 'S' && w.hasUpd {
		kind = 'P' // a stale read may signal the updater to shrink its interval: keep the updater under script control
	}
	switch kind {
	case 'U':
		g.do("tick")
	case 'G':
		g.do(fmt.Sprintf("get %d", t))
	case 'A':
		g.do(fmt.Sprintf("aget %d", t))
	case 'P':
		g.do(fmt.Sprintf("val %d %d 0", t, last))
	case 'S':
		g.do(fmt.Sprintf("val %d %d 1", t, last))
	case 'N':
		g.do(fmt.Sprintf("val %d %d 0", t, last+1))
	case 'F':
		g.do(fmt.Sprintf("val %d %d 0", t, last+1000))
	}
}

// runSchedule executes one case: choices[i] selects among the enabled events at decision i (0 beyond the vector);
// returns the number of alternatives seen at each decision.
func (g *gen) runSchedule(mode string, pd0 uint64, kinds string, choices []int, pick func(n int) int, incOf func() uint64) []int {
	g.newCase(mode, pd0, true, kinds)
	var widths []int
	next := 0
	for step := 0; step < 200; step++ {
		ev := g.enabled(next, len(kinds))
		if len(ev) == 0 {
			break
		}
		c := 0
		if pick != nil {
			c = pick(len(ev))
		} else if step < len(choices) {
			c = choices[step]
		}
		widths = append(widths, len(ev))
		if c >= len(ev) {
			c = 0
		}
		e := ev[c]
		switch e.kind {
		case "start":
			g.startCaller(e.who, kinds[e.who])
			next++
		case "issue":
			g.do(fmt.Sprintf("issue %s %d", whoStr(e.who), incOf()))
		case "arrive":
			g.do("arrive " + whoStr(e.who))
		case "cancel":
			g.do("cancel " + whoStr(e.who))
		}
	}
	g.do("low")
	g.do("check")
	return widths
}

// exhaustive: every schedule (all interleavings of start/issue/arrive events; callers start in index order)
func (g *gen) exhaustive(mode string, kinds string, startsFirst bool) int {
	count := 0
	var choices []int
	for {
		var widths []int
		if startsFirst {
			// all callers start before anything is issued: decisions 0..n-1 are forced to "start"
			forced := len(kinds)
			full := append(make([]int, forced), choices...)
			widths = g.runSchedule(mode, 10, kinds, full, nil, func() uint64 { return 0 })
			widths = widths[forced:]
		} else {
			widths = g.runSchedule(mode, 10, kinds, choices, nil, func() uint64 { return 0 })
		}
		count++
		g.run.Count("schedule:" + strconv.Itoa(len(kinds)))
		// odometer: next choice vector in lexicographic order
		cur := make([]int, len(widths))
		copy(cur, choices)
		i := len(widths) - 1
		for ; i >= 0; i-- {
			if cur[i]+1 < widths[i] {
				cur[i]++
				cur = cur[:i+1]
				break
			}
		}
		if i < 0 {
			return count
		}
		choices = cur
	}
}

func allKinds(alpha string, n int) []string {
	if n == 0 {
		return []string{""}
	}
	var out []string
	for _, p := range allKinds(alpha, n-1) {
		for _, a := range alpha {
			out = append(out, p+string(a))
		}
	}
	return out
}

func (g *gen) expiryOps(n int) {
	r := g.r
	lowS := exec("low")
	low, err := strconv.ParseUint(lowS, 10, 64)
	if err != nil {
		low = uint64(r.Intn(1<<30)) << shift
	}
	phys := low >> shift
	for k := 0; k < n; k++ {
		scope := "g"
		if r.Chance(15) {
			scope = "x"
		}
		var lockPhys, ttl uint64
		switch r.Intn(4) {
		case 0: // exactly at / around the boundary lock+ttl == phys(low)
			ttl = uint64(r.Intn(1000))
			if ttl > phys {
				ttl = phys
			}
			lockPhys = phys - ttl + uint64(r.Intn(3)) - 1
		case 1:
			lockPhys = uint64(r.Intn(int(phys + 2)))
			ttl = uint64(r.Intn(5000))
		case 2:
			lockPhys = phys + uint64(r.Intn(100))
			ttl = uint64(r.Intn(3))
		default:
			lockPhys = r.U64() >> 18
			ttl = r.U64() >> uint(1+r.Intn(62))
		}
		lock := lockPhys<<shift | uint64(r.Intn(1<<shift))
		if lockPhys >= 1<<46 {
			lock = uint64(r.Intn(1 << shift))
		}
		// the property op is generated inside the domain of the theorem (no int64 overflow: ttl < 2^63 - 2^46)
		if ttl >= 1<<63-1<<46 {
			ttl = 1<<63 - 1<<46 - 1
		}
		g.do(fmt.Sprintf("p-exp %s %d %d", scope, lock, ttl))
		if r.Chance(50) {
			g.do(fmt.Sprintf("isexp %s %d %d", scope, lock, ttl))
			g.do(fmt.Sprintf("until %s %d %d", scope, lock, ttl))
		}
	}
	// raw correspondence also outside the theorem's domain (wrap-around of int64(TTL))
	if r.Chance(40) {
		ttl := uint64(1)<<63 - uint64(r.Intn(1<<20)) + uint64(r.Intn(1<<21))
		if r.Chance(30) {
			ttl = math.MaxUint64 - uint64(r.Intn(1000))
		}
		lock := uint64(r.Intn(1<<20)) << shift
		g.do(fmt.Sprintf("isexp g %d %d", lock, ttl))
		g.do(fmt.Sprintf("until g %d %d", lock, ttl))
	}
}

func (g *gen) randomCase() {
	r := g.r
	n := 2 + r.Intn(7)
	alpha := "GGGAPSNF"
	if r.Chance(50) {
		alpha = "GGGAPNFUU" // a world with the background updater
	}
	kinds := make([]byte, n)
	for k := range kinds {
		kinds[k] = alpha[r.Intn(len(alpha))]
		if kinds[k] != 'U' && kinds[k] != 'A' && r.Chance(30) {
			kinds[k] = kinds[k] - 'A' + 'a' // its context may be cancelled
		}
	}
	mode := "seeded"
	if r.Chance(35) {
		mode = "empty"
	}
	pd0 := uint64(r.Intn(1000))
	if r.Chance(60) {
		pd0 = uint64(1+r.Intn(1<<30))<<shift | uint64(r.Intn(1<<shift))
	}
	incOf := func() uint64 {
		switch r.Intn(5) {
		case 0:
			return uint64(r.Intn(5))
		case 1:
			return uint64(r.Intn(1 << 20)) // crosses physical boundaries
		default:
			return 0
		}
	}
	g.run.Count("random-case")
	g.caseNo++
	g.run.Comment(fmt.Sprintf("case %d", g.caseNo))
	g.kinds = string(kinds)
	if strings.Contains(g.kinds, "U") {
		g.do(fmt.Sprintf("reset %s %d 1 1", mode, pd0))
	} else {
		g.do(fmt.Sprintf("reset %s %d 1", mode, pd0))
	}
	next := 0
	for step := 0; step < 300; step++ {
		ev := g.enabled(next, n)
		if len(ev) == 0 {
			break
		}
		e := ev[r.Intn(len(ev))]
		switch e.kind {
		case "start":
			g.startCaller(e.who, kinds[e.who])
			next++
		case "issue":
			g.do(fmt.Sprintf("issue %s %d", whoStr(e.who), incOf()))
		case "arrive":
			g.do("arrive " + whoStr(e.who))
		case "cancel":
			g.do("cancel " + whoStr(e.who))
		}
		if r.Chance(15) {
			g.do("low")
		}
		if r.Chance(10) {
			g.expiryOps(1)
		}
	}
	// the special answers of ValidateReadTS
	if r.Chance(30) {
		g.do(fmt.Sprintf("val 900 %d %d", uint64(math.MaxUint64), r.Intn(2)))
		g.do(fmt.Sprintf("val 901 %d %d", uint64(math.MaxInt64)+uint64(r.Intn(3)), r.Intn(2)))
		g.do(fmt.Sprintf("val 902 %d 0", uint64(math.MaxUint64)-1))
	}
	g.do("low")
	g.expiryOps(2)
	g.do("check")
}

func (g *gen) validationOff() {
	g.newCase("seeded", 50, false, "")
	g.do("val 1 999999 0")
	g.do("val 2 18446744073709551615 1")
	g.do("get 3")
	g.do("issue 3 0")
	g.do("arrive 3")
	g.do("check")
}

func (g *gen) pureOps(count int) {
	r := g.r
	g.run.Comment("case pure")
	edge := []int64{0, 1, -1, 1<<shift - 1, 1 << shift, 1<<45 - 1, 1 << 45, 1<<46 - 1, 1 << 46, math.MaxInt64, math.MinInt64, 1<<63 - 1<<18}
	for _, p := range edge {
		for _, l := range edge {
			g.do(fmt.Sprintf("compose %d %d", p, l))
		}
		g.do(fmt.Sprintf("phys %d", uint64(p)))
	}
	g.do(fmt.Sprintf("phys %d", uint64(math.MaxUint64)))
	for k := 0; k < count; k++ {
		p := int64(r.U64() >> uint(19+r.Intn(44)))
		l := int64(r.Intn(1 << shift))
		g.do(fmt.Sprintf("p-ts %d %d", p, l))
		g.do(fmt.Sprintf("compose %d %d", p, l))
		g.do(fmt.Sprintf("phys %d", r.U64()>>uint(r.Intn(64))))
		if r.Chance(10) {
			g.do(fmt.Sprintf("compose %d %d", int64(r.U64()), int64(r.U64())))
		}
	}
}

var stateNames = []string{"none", "normal", "adapting", "recovering", "unadjustable"}

func (g *gen) intervalOps(count int) {
	r := g.r
	g.run.Comment("case interval")
	ms := int64(time.Millisecond)
	pickDur := func() int64 {
		switch r.Intn(6) {
		case 0:
			return 500 * ms
		case 1:
			return 500*ms + int64(r.Intn(3)) - 1
		case 2:
			return int64(1+r.Intn(499)) * ms
		case 3:
			return int64(501+r.Intn(5000)) * ms
		case 4:
			return 2000 * ms
		default:
			return int64(1 + r.Intn(10_000_000_000))
		}
	}
	for k := 0; k < count; k++ {
		conf := pickDur()
		// adaptive inside the invariant [min(500ms, conf), conf]
		lo := 500 * ms
		if conf < lo {
			lo = conf
		}
		cur := conf
		if conf > lo && r.Chance(70) {
			cur = lo + int64(r.U64()%uint64(conf-lo+1))
			if r.Chance(20) {
				cur = lo
			}
		}
		now := int64(1_700_000_000)*1_000_000_000 + int64(r.Intn(1_000_000_000))
		var sinceShortMs int64
		switch r.Intn(4) {
		case 0:
			sinceShortMs = 300_000 + int64(r.Intn(3)) - 1
		case 1:
			sinceShortMs = int64(r.Intn(300_000))
		case 2:
			sinceShortMs = 300_000 + int64(r.Intn(1_000_000))
		default:
			sinceShortMs = now / 1_000_000 // never
		}
		lastShort := now/1_000_000 - sinceShortMs
		tick := int64(r.Intn(4_000_000_000))
		if r.Chance(30) {
			tick = int64(r.Intn(200_000_000_000))
		}
		var req int64
		switch r.Intn(5) {
		case 0, 1:
			req = 0
		case 2:
			req = cur + int64(r.Intn(3)) - 1
		case 3:
			req = int64(1 + r.Intn(int(cur)))
		default:
			req = pickDur()
		}
		if req < 0 {
			req = 1
		}
		st := stateNames[r.Intn(len(stateNames))]
		args := fmt.Sprintf("%s %d %d %d %d %d %d", st, conf, cur, lastShort, now-tick, now, req)
		g.do("interval " + args)
		g.do("p-interval " + args)
		if r.Chance(20) { // outside the invariant / clock going backwards: correspondence only
			g.do(fmt.Sprintf("interval %s %d %d %d %d %d %d", st, conf, pickDur(), lastShort, now+int64(r.Intn(1_000_000_000)), now, req))
		}
		g.do(fmt.Sprintf("setint %d %d %d", conf, cur, pickDur()))
	}
}

func (g *gen) commitOps(count int) {
	r := g.r
	g.run.Comment("case commit")
	for k := 0; k < count; k++ {
		basePhys := uint64(1000 + r.Intn(1<<30))
		wait := basePhys<<shift | uint64(r.Intn(1<<shift))
		var maxSleep uint64
		switch r.Intn(6) {
		case 0:
			maxSleep = 0
		case 1:
			maxSleep = uint64(time.Second)
		case 2:
			maxSleep = uint64(1+r.Intn(20)) * uint64(time.Millisecond)
		case 3:
			maxSleep = uint64(r.Intn(1_000_000)) // below one millisecond: the back-off budget becomes unlimited
		default:
			maxSleep = uint64(r.Intn(3_000_000_000))
		}
		n := 1 + r.Intn(14)
		var script []string
		// lagging attempts creep towards the constraint, then (maybe) pass it
		lagPhys := uint64(r.Intn(1200))
		if r.Chance(30) {
			lagPhys = uint64(r.Intn(3))
		}
		cur := (basePhys - min(lagPhys, basePhys)) << shift
		for j := 0; j < n; j++ {
			if r.Chance(25) {
				cur = wait + uint64(r.Intn(3)) - 1 // around the boundary: wait-1, wait, wait+1
			} else if r.Chance(20) {
				cur = wait + 1 + uint64(r.Intn(1<<20))
			} else {
				cur += uint64(r.Intn(1 << 19))
			}
			script = append(script, strconv.FormatUint(cur, 10))
		}
		g.do(fmt.Sprintf("commit %d %d %s", wait, maxSleep, strings.Join(script, ",")))
	}
}

// commitPathOps: real transactions through every commit mode × store behaviour × constraint class × wait budget
func (g *gen) commitPathOps(reps int) {
	r := g.r
	g.run.Comment("case commit-paths")
	type mv struct {
		mode   string
		causal int
	}
	modes := []mv{{"2pc", 0}, {"async", 0}, {"async", 1}, {"1pc", 0}, {"1pc", 1}, {"pipelined", 0}, {"2pc", 1}, {"pipelined", 1}}
	sleeps := []uint64{0, uint64(time.Second), 5 * uint64(time.Millisecond), 400_000}
	for _, m := range modes {
		behs := []string{"normal", "expired"}
		if m.mode == "async" || m.mode == "1pc" {
			behs = []string{"normal", "fallback"}
		}
		for _, beh := range behs {
			for class := 0; class < 4; class++ { // none, below current, slightly ahead (within the budget), far ahead
				for _, ms := range sleeps {
					for k := 0; k < reps; k++ {
						curPhys := uint64(100_000 + r.Intn(1<<30))
						cur := curPhys<<shift | uint64(r.Intn(1<<shift))
						start := cur - uint64(1+r.Intn(1<<20))
						var c uint64
						switch class {
						case 0:
							c = 0
						case 1:
							c = cur - uint64(1+r.Intn(1<<19))
							if r.Chance(25) {
								c = cur - 1
							}
						case 2:
							switch r.Intn(3) {
							case 0:
								c = cur + uint64(r.Intn(4)) // same millisecond: cur, cur+1, …
							case 1:
								c = cur + uint64(r.Intn(1<<shift))
							default:
								aheadMs := uint64(1 + r.Intn(4))
								if lim := ms / uint64(time.Millisecond); lim > 0 && aheadMs > lim {
									aheadMs = lim
								}
								c = (curPhys+aheadMs)<<shift | uint64(r.Intn(1<<shift))
							}
						default:
							c = (curPhys+ms/uint64(time.Millisecond)+2+uint64(r.Intn(5000)))<<shift | uint64(r.Intn(1<<shift))
						}
						// PD: starts at cur and creeps forward, visiting the boundary c-1, c, c+1
						var script []string
						v := cur
						n := 4 + r.Intn(12)
						for j := 0; j < n; j++ {
							script = append(script, strconv.FormatUint(v, 10))
							switch {
							case c > 0 && r.Chance(25):
								v = c + uint64(r.Intn(3)) - 1
							case c > v && r.Chance(30):
								v = c + 1 + uint64(r.Intn(1<<18))
							default:
								v += uint64(r.Intn(1 << 19))
							}
						}
						g.do(fmt.Sprintf("chk-commitwait %s %d %s %d %d %d %s", m.mode, m.causal, beh, start, c, ms, strings.Join(script, ",")))
					}
				}
			}
		}
	}
}

func main() {
	run := vx.Start()
	defer run.Finish()
	log.SetLevel(zapcore.FatalLevel)
	util.EnableFailpoints()
	if err := failpoint.Enable("tikvclient/fastBackoffBySkipSleep", "return"); err != nil {
		panic(err)
	}
	if run.Replay != "" {
		for _, l := range run.ReplayLines() {
			if strings.HasPrefix(l, "#") {
				run.Comment(strings.TrimSpace(l[1:]))
				continue
			}
			run.Emit(l, exec(l))
		}
		return
	}
	g := &gen{run: run, r: vx.NewRand(run.Seed)}
	thorough := run.Thorough()

	// 1. exhaustive schedules
	maxFull := 3
	if thorough {
		maxFull = 4
	}
	for n := 1; n <= maxFull; n++ {
		alpha := "GPNF"
		if n == 4 {
			alpha = "GN" // thorough: 4 callers, fully interleaved, plain calls and validators of the next ts
		}
		for si, kinds := range allKinds(alpha, n) {
			modes := []string{"seeded"}
			if n <= 2 || strings.Count(kinds, "G") == n || si%5 == 0 {
				modes = []string{"seeded", "empty"}
			}
			for _, m := range modes {
				g.exhaustive(m, kinds, false)
			}
		}
	}
	// the background updater among the callers: every schedule of 1..3 actors at least one of which is a tick
	for n := 1; n <= 3; n++ {
		updAlpha := "GPNFU"
		if n == 3 && !thorough {
			updAlpha = "GNU"
		}
		for si, kinds := range allKinds(updAlpha, n) {
			if !strings.Contains(kinds, "U") {
				continue
			}
			g.exhaustive("seeded", kinds, false)
			if n <= 2 || (thorough && si%4 == 0) {
				g.exhaustive("empty", kinds, false)
			}
		}
	}
	if thorough {
		for _, kinds := range allKinds("GU", 4) {
			if strings.Contains(kinds, "U") {
				g.exhaustive("seeded", kinds, false)
			}
		}
	}
	// cancellation: callers whose context may be cancelled at any point while they run (lower case)
	for n := 1; n <= 2; n++ {
		for si, kinds := range allKinds("GPNFgpnf", n) {
			if strings.ToUpper(kinds) == kinds {
				continue
			}
			g.exhaustive("seeded", kinds, false)
			if thorough || n == 1 || si%4 == 0 {
				g.exhaustive("empty", kinds, false)
			}
		}
	}
	cancel3 := []string{"nNN", "NnN", "GnN", "GnP", "gNN", "nfP", "gGN"}
	if thorough {
		cancel3 = nil
		for _, kinds := range allKinds("GNgn", 3) {
			if strings.ToUpper(kinds) != kinds {
				cancel3 = append(cancel3, kinds)
			}
		}
		cancel3 = append(cancel3, "nfP", "GfP", "fGP", "GnP", "pNG", "UnN", "nUN")
	}
	for _, kinds := range cancel3 {
		g.exhaustive("seeded", kinds, false)
	}
	if !thorough {
		// 4 concurrent callers: all issue/arrival orders once everybody has called
		for _, kinds := range []string{"GGGG", "GGNP", "NFGG", "PGFN"} {
			g.exhaustive("seeded", kinds, true)
		}
		g.exhaustive("empty", "GGGG", true)
	} else {
		for _, kinds := range allKinds("GPNF", 4) {
			if strings.Trim(kinds, "GN") == "" {
				continue // already fully interleaved above
			}
			g.exhaustive("seeded", kinds, true)
		}
		g.exhaustive("seeded", "AGAGA", true)
		g.exhaustive("seeded", "UGGN", true)
		g.exhaustive("seeded", "UNPF", true)
	}
	g.validationOff()

	// 2. random schedules with more callers, PD jumps, expiry questions
	nRand := 300
	if thorough {
		nRand = 6000
	}
	for k := 0; k < nRand; k++ {
		g.randomCase()
	}

	// 3. pure functions
	nPure := 400
	if thorough {
		nPure = 20000
	}
	g.pureOps(nPure)
	g.intervalOps(nPure)
	g.commitOps(nPure / 2)
	nPaths := 2
	if thorough {
		nPaths = 40
	}
	g.commitPathOps(nPaths)

	// 4. free-running stress (no race detector: a plain run of many goroutines)
	g.run.Comment("case stress")
	nStress := 5
	if thorough {
		nStress = 40
	}
	for k := 0; k < nStress; k++ {
		g.do(fmt.Sprintf("stress %d %d %d", 2+g.r.Intn(15), 50+g.r.Intn(200), g.r.Intn(1<<30)))
	}
}
