//go:build verif

// C15 harness: runs /repo/internal/apicodec (codec v2) on op lines shared with the Lean model driver (cgv-c15),
// writes the command/field catalogue (-catalogue), and runs the end-to-end keyspace workload (-e2e).
package main

import (
	"bytes"
	"flag"
	"fmt"
	"os"
	"reflect"
	"strconv"
	"strings"

	"github.com/pingcap/kvproto/pkg/errorpb"
	"github.com/pingcap/kvproto/pkg/keyspacepb"
	"github.com/pingcap/kvproto/pkg/kvrpcpb"
	"github.com/pingcap/kvproto/pkg/metapb"
	"github.com/pingcap/log"
	"github.com/tikv/client-go/v2/internal/apicodec"
	"github.com/tikv/client-go/v2/tikvrpc"
	"github.com/tikv/client-go/v2/verifx/vx"
	"go.uber.org/zap"
)

var codecCache = map[string]apicodec.Codec{}

func getCodec(m, id string) (apicodec.Codec, bool) {
	if c, ok := codecCache[m+id]; ok {
		return c, true
	}
	n, err := strconv.ParseUint(id, 10, 32)
	if err != nil || n > 0xFFFFFF {
		return nil, false
	}
	var mode apicodec.Mode
	switch m {
	case "r":
		mode = apicodec.ModeRaw
	case "x":
		mode = apicodec.ModeTxn
	default:
		return nil, false
	}
	c, err := apicodec.NewCodecV2(mode, &keyspacepb.KeyspaceMeta{Keyspace: &keyspacepb.KeyspaceMeta_Id{Id: uint32(n)}, Name: "verif"})
	if err != nil {
		return nil, false
	}
	codecCache[m+id] = c
	return c, true
}

func errStr(err error) string {
	if apicodec.IsDecodeError(err) {
		return "err decode"
	}
	if strings.Contains(err.Error(), "does not belong to the keyspace") {
		return "err oob"
	}
	return "err other"
}

func hexes(w []string) ([][]byte, bool) {
	var out [][]byte
	for _, s := range w {
		b, ok := vx.UnHex(s)
		if !ok {
			return nil, false
		}
		out = append(out, b)
	}
	return out, true
}

func cp(b []byte) []byte { return append([]byte{}, b...) }

// logical membership (the property's vocabulary, computed with bytes.Compare only)
func inRange(k, s, e []byte) bool    { return bytes.Compare(s, k) <= 0 && (len(e) == 0 || bytes.Compare(k, e) < 0) }
func inRangeRev(k, s, e []byte) bool { return bytes.Compare(e, k) <= 0 && (len(s) == 0 || bytes.Compare(k, s) < 0) }
func inInterval(x, lo, hi []byte) bool {
	return bytes.Compare(lo, x) <= 0 && bytes.Compare(x, hi) < 0
}
func sign(c int) int {
	if c < 0 {
		return -1
	} else if c > 0 {
		return 1
	}
	return 0
}

// request messages with a top-level (start_key, end_key) pair, found through the catalogue's identification
type rangeCmd struct {
	reqT       reflect.Type
	hasReverse bool
}

var rangeCmds = map[uint16]*rangeCmd{}
var rangeCmdList []uint16

func initRangeCmds(cmdsFile string) {
	if cmdsFile == "" {
		return
	}
	for _, ci := range identifyAll(cmdsFile) {
		if ci.reqT == nil {
			continue
		}
		s, ok1 := ci.reqT.FieldByName("StartKey")
		e, ok2 := ci.reqT.FieldByName("EndKey")
		if !ok1 || !ok2 || s.Type != bytesType || e.Type != bytesType {
			continue
		}
		rv, ok3 := ci.reqT.FieldByName("Reverse")
		rangeCmds[ci.value] = &rangeCmd{reqT: ci.reqT, hasReverse: ok3 && rv.Type.Kind() == reflect.Bool}
		rangeCmdList = append(rangeCmdList, ci.value)
	}
}

func exec(line string) string {
	return vx.Guard(func() string {
		w := strings.Fields(line)
		if len(w) < 3 {
			return "bad-op"
		}
		c, ok := getCodec(w[1], w[2])
		if w[0] == "reqrange" {
			if len(w) != 7 {
				return "bad-op"
			}
			c, ok = getCodec(w[2], w[3])
		}
		if !ok {
			return "bad-op"
		}
		switch {
		case w[0] == "bounds" && len(w) == 3:
			_, e := apicodec.VerifBounds(c)
			return vx.Hex(c.GetKeyspace()) + " " + vx.Hex(e)
		case w[0] == "enckey" && len(w) == 4:
			a, ok := hexes(w[3:])
			if !ok {
				return "bad-op"
			}
			return vx.Hex(c.EncodeKey(a[0]))
		case w[0] == "deckey" && len(w) == 4:
			a, ok := hexes(w[3:])
			if !ok {
				return "bad-op"
			}
			k, err := c.DecodeKey(cp(a[0]))
			if err != nil {
				return errStr(err)
			}
			return "ok " + vx.Hex(k)
		case w[0] == "encrange" && len(w) == 6:
			a, ok := hexes(w[4:])
			if !ok || (w[3] != "0" && w[3] != "1") {
				return "bad-op"
			}
			s, e := apicodec.VerifEncodeRange(c, a[0], a[1], w[3] == "1")
			if w[3] == "0" {
				s2, e2 := c.EncodeRange(a[0], a[1])
				if !bytes.Equal(s, s2) || !bytes.Equal(e, e2) {
					return "FAIL EncodeRange-differs-from-encodeRange"
				}
			}
			return vx.Hex(s) + " " + vx.Hex(e)
		case w[0] == "reqrange":
			a, ok := hexes(w[5:])
			v, err := strconv.ParseUint(w[1], 10, 16)
			if !ok || err != nil || (w[4] != "0" && w[4] != "1") {
				return "bad-op"
			}
			rc := rangeCmds[uint16(v)]
			if rc == nil || (w[4] == "1" && !rc.hasReverse) {
				return "bad-op"
			}
			msg := skeleton(rc.reqT)
			msg.Elem().FieldByName("StartKey").SetBytes(cp(a[0]))
			msg.Elem().FieldByName("EndKey").SetBytes(cp(a[1]))
			if rc.hasReverse {
				msg.Elem().FieldByName("Reverse").SetBool(w[4] == "1")
			}
			enc, err := c.EncodeRequest(tikvrpc.NewRequest(tikvrpc.CmdType(v), msg.Interface()))
			if err != nil {
				return "err other"
			}
			ev := reflect.ValueOf(enc.Req).Elem()
			return vx.Hex(ev.FieldByName("StartKey").Bytes()) + " " + vx.Hex(ev.FieldByName("EndKey").Bytes())
		case w[0] == "decrange" && len(w) == 5:
			a, ok := hexes(w[3:])
			if !ok {
				return "bad-op"
			}
			s, e, err := c.DecodeRange(cp(a[0]), cp(a[1]))
			if err != nil {
				return errStr(err)
			}
			return "ok " + vx.Hex(s) + " " + vx.Hex(e)
		case w[0] == "encregkey" && len(w) == 4:
			a, ok := hexes(w[3:])
			if !ok {
				return "bad-op"
			}
			return vx.Hex(c.EncodeRegionKey(a[0]))
		case w[0] == "decregkey" && len(w) == 4:
			a, ok := hexes(w[3:])
			if !ok {
				return "bad-op"
			}
			k, err := c.DecodeRegionKey(cp(a[0]))
			if err != nil {
				return errStr(err)
			}
			return "ok " + vx.Hex(k)
		case w[0] == "encregrange" && len(w) == 5:
			a, ok := hexes(w[3:])
			if !ok {
				return "bad-op"
			}
			s, e := c.EncodeRegionRange(a[0], a[1])
			return vx.Hex(s) + " " + vx.Hex(e)
		case w[0] == "decregrange" && len(w) == 5:
			a, ok := hexes(w[3:])
			if !ok {
				return "bad-op"
			}
			s, e, err := c.DecodeRegionRange(cp(a[0]), cp(a[1]))
			if err != nil {
				return errStr(err)
			}
			return "ok " + vx.Hex(s) + " " + vx.Hex(e)
		case w[0] == "buckets":
			a, ok := hexes(w[3:])
			if !ok {
				return "bad-op"
			}
			in := make([][]byte, len(a))
			for i := range a {
				in[i] = cp(a[i])
			}
			out, err := c.DecodeBucketKeys(in)
			if err != nil {
				return errStr(err)
			}
			s := "ok " + strconv.Itoa(len(out))
			for _, k := range out {
				s += " " + vx.Hex(k)
			}
			return s
		case (w[0] == "regerr" || w[0] == "regclip") && len(w)%2 == 1:
			// the EpochNotMatch region list of a region error, through the public DecodeResponse of a Get
			a, ok := hexes(w[3:])
			if !ok {
				return "bad-op"
			}
			var regions []*metapb.Region
			for i := 0; i+1 < len(a); i += 2 {
				regions = append(regions, &metapb.Region{Id: uint64(i/2 + 1), StartKey: cp(a[i]), EndKey: cp(a[i+1])})
			}
			req, err := c.EncodeRequest(tikvrpc.NewRequest(tikvrpc.CmdGet, &kvrpcpb.GetRequest{Key: []byte("k")}))
			if err != nil {
				return "err other"
			}
			resp := &tikvrpc.Response{Resp: &kvrpcpb.GetResponse{RegionError: &errorpb.Error{EpochNotMatch: &errorpb.EpochNotMatch{CurrentRegions: regions}}}}
			out, err := c.DecodeResponse(req, resp)
			if err != nil {
				return errStr(err)
			}
			cur := out.Resp.(*kvrpcpb.GetResponse).RegionError.EpochNotMatch.CurrentRegions
			if w[0] == "regclip" {
				// property: exactly the regions that DecodeRegionRange accepts survive, clipped, in order
				j := 0
				for i := 0; i+1 < len(a); i += 2 {
					ds, de, err := c.DecodeRegionRange(cp(a[i]), cp(a[i+1]))
					if err != nil {
						if errStr(err) != "err oob" {
							return "FAIL region-list-err"
						}
						continue
					}
					if j >= len(cur) || !bytes.Equal(cur[j].StartKey, ds) || !bytes.Equal(cur[j].EndKey, de) || cur[j].Id != uint64(i/2+1) {
						return "FAIL foreign-or-unclipped-region " + strconv.Itoa(i/2)
					}
					j++
				}
				if j != len(cur) {
					return "FAIL foreign-region-kept"
				}
				return "ok"
			}
			s := "ok " + strconv.Itoa(len(cur))
			for _, r := range cur {
				s += " " + vx.Hex(r.StartKey) + " " + vx.Hex(r.EndKey)
			}
			return s
		// ------------------------------------------------------------------ property ops
		case w[0] == "rt" && len(w) == 4:
			a, ok := hexes(w[3:])
			if !ok {
				return "bad-op"
			}
			k1, err1 := c.DecodeKey(c.EncodeKey(a[0]))
			k2, err2 := c.DecodeRegionKey(c.EncodeRegionKey(a[0]))
			if err1 != nil || err2 != nil {
				return "FAIL roundtrip-err"
			}
			if !bytes.Equal(k1, a[0]) || !bytes.Equal(k2, a[0]) {
				return "FAIL roundtrip"
			}
			return "ok"
		case w[0] == "rtrange" && len(w) == 5:
			a, ok := hexes(w[3:])
			if !ok {
				return "bad-op"
			}
			es, ee := c.EncodeRange(a[0], a[1])
			s1, e1, err1 := c.DecodeRange(es, ee)
			rs, re := c.EncodeRegionRange(a[0], a[1])
			s2, e2, err2 := c.DecodeRegionRange(rs, re)
			if err1 != nil || err2 != nil {
				return "FAIL range-roundtrip-err"
			}
			if !bytes.Equal(s1, a[0]) || !bytes.Equal(e1, a[1]) || !bytes.Equal(s2, a[0]) || !bytes.Equal(e2, a[1]) {
				return "FAIL range-roundtrip"
			}
			return "ok"
		case w[0] == "ord" && len(w) == 5:
			a, ok := hexes(w[3:])
			if !ok {
				return "bad-op"
			}
			want := sign(bytes.Compare(a[0], a[1]))
			if sign(bytes.Compare(c.EncodeKey(a[0]), c.EncodeKey(a[1]))) != want ||
				sign(bytes.Compare(c.EncodeRegionKey(a[0]), c.EncodeRegionKey(a[1]))) != want {
				return "FAIL order"
			}
			return "ok"
		case w[0] == "inrange" && len(w) == 7:
			a, ok := hexes(w[4:])
			if !ok || (w[3] != "0" && w[3] != "1") {
				return "bad-op"
			}
			k, s, e := a[0], a[1], a[2]
			x := c.EncodeKey(k)
			es, ee := apicodec.VerifEncodeRange(c, s, e, w[3] == "1")
			if w[3] == "1" {
				if inInterval(x, ee, es) != inRangeRev(k, s, e) {
					return "FAIL reverse-range"
				}
				return "ok"
			}
			if inInterval(x, es, ee) != inRange(k, s, e) {
				return "FAIL range"
			}
			return "ok"
		case w[0] == "disj" && len(w) == 10:
			c2, ok2 := getCodec(w[3], w[4])
			a, ok := hexes(w[5:])
			if !ok || !ok2 || (w[1] == w[3] && w[2] == w[4]) {
				return "bad-op"
			}
			p1, p2 := c.EncodeRange(a[0], a[1])
			q1, q2 := c2.EncodeRange(a[2], a[3])
			lo, hi := p1, p2
			if bytes.Compare(p1, q1) < 0 {
				lo = q1
			}
			if bytes.Compare(p2, q2) >= 0 {
				hi = q2
			}
			if bytes.Compare(lo, hi) < 0 {
				return "FAIL overlap"
			}
			if _, err := c2.DecodeKey(c.EncodeKey(a[4])); err == nil || errStr(err) != "err oob" {
				return "FAIL foreign-key-accepted"
			}
			if _, _, err := c2.DecodeRange(p1, p2); err == nil || errStr(err) != "err oob" {
				return "FAIL foreign-range-accepted"
			}
			return "ok"
		case w[0] == "clip" && len(w) == 6:
			a, ok := hexes(w[3:])
			if !ok {
				return "bad-op"
			}
			rs, re, k := a[0], a[1], a[2]
			inReg := inRange(c.EncodeKey(k), rs, re) // region membership uses the same empty-end convention
			s, e, err := c.DecodeRange(cp(rs), cp(re))
			if err != nil {
				if errStr(err) != "err oob" {
					return "FAIL clip-err"
				}
				if inReg {
					return "FAIL rejected-but-intersects"
				}
				return "ok"
			}
			if inRange(k, s, e) != inReg {
				return "FAIL clip-not-intersection"
			}
			return "ok"
		}
		return "bad-op"
	})
}

// ---------------------------------------------------------------------------------------------------------------
// generators

var alphabet = []byte{0x00, 0x01, 0x7F, 0x80, 0xFE, 0xFF, 'r', 's', 'x', 'y'}

var boundaryIDs = []uint32{0, 1, 2, 0xFE, 0xFF, 0x100, 0x101, 0xFFFE, 0xFFFF, 0x10000, 0x10001, 0x00FF00, 0x00FFFF, 0xFF0000,
	0xFF00FF, 0xFFFF00, 0xFEFFFF, 0xFFFFFE, 0xFFFFFF, 0x7FFFFF, 0x800000, 0x010203}

func randKey(r *vx.Rand) []byte {
	var n int
	switch r.Intn(5) {
	case 0:
		n = 0
	case 1:
		n = 1 + r.Intn(3)
	case 2:
		n = 7 + r.Intn(3)
	case 3:
		n = r.Intn(6)
	default:
		n = 15 + r.Intn(3)
	}
	b := make([]byte, n)
	switch r.Intn(4) {
	case 0: // 00 / FF runs
		f := byte(0x00)
		if r.Bool() {
			f = 0xFF
		}
		for i := range b {
			b[i] = f
		}
		if n > 0 && r.Chance(30) {
			b[n-1] = alphabet[r.Intn(len(alphabet))]
		}
	default:
		for i := range b {
			if r.Chance(75) {
				b[i] = alphabet[r.Intn(len(alphabet))]
			} else {
				b[i] = byte(r.U64())
			}
		}
	}
	return b
}

func randID(r *vx.Rand) uint32 {
	if r.Chance(70) {
		return boundaryIDs[r.Intn(len(boundaryIDs))]
	}
	return uint32(r.U64()) & 0xFFFFFF
}

func randMode(r *vx.Rand) string {
	if r.Bool() {
		return "r"
	}
	return "x"
}

func pfxOf(m string, id uint32) []byte {
	b := []byte{'r', byte(id >> 16), byte(id >> 8), byte(id)}
	if m == "x" {
		b[0] = 'x'
	}
	return b
}

// related key: equal, prefix, extension, last byte ±1
func related(r *vx.Rand, k []byte) []byte {
	o := cp(k)
	switch r.Intn(5) {
	case 0:
	case 1:
		if len(o) > 0 {
			o = o[:r.Intn(len(o))]
		}
	case 2:
		o = append(o, alphabet[r.Intn(len(alphabet))])
	case 3:
		if len(o) > 0 {
			o[len(o)-1]++
		}
	default:
		if len(o) > 0 {
			o[len(o)-1]--
		}
	}
	return o
}

// encoded-space byte strings around the bounds of keyspace (m,id); wellFormed: empty or ≥ 4 bytes
func boundaryEncoded(r *vx.Rand, m string, id uint32, wellFormed bool) []byte {
	p := pfxOf(m, id)
	v := uint32(p[0])<<24 | id
	u32 := func(x uint32) []byte { return []byte{byte(x >> 24), byte(x >> 16), byte(x >> 8), byte(x)} }
	var b []byte
	switch r.Intn(12) {
	case 0:
		b = nil
	case 1:
		b = cp(p)
	case 2:
		b = u32(v + 1)
	case 3:
		b = u32(v - 1)
	case 4:
		b = u32(v + 2)
	case 5:
		b = append(cp(p), randKey(r)...)
	case 6:
		b = append(u32(v+1), randKey(r)...)
	case 7:
		b = append(u32(v-1), randKey(r)...)
	case 8:
		b = append(u32(v-1), 0xFF, 0xFF)
	case 9:
		b = append(cp(p), 0x00)
	case 10: // other mode / far away
		b = append(pfxOf(randMode(r), randID(r)), randKey(r)...)
	default:
		b = randKey(r)
	}
	if !wellFormed && r.Chance(40) && len(b) > 0 {
		b = b[:1+r.Intn(min(len(b), 3))]
	}
	if wellFormed && len(b) > 0 && len(b) < 4 {
		b = append(b, bytes.Repeat([]byte{0}, 4-len(b))...)
	}
	return b
}

func main() {
	catOut := flag.String("catalogue", "", "write the command/field catalogue here and exit")
	cmdsFile := flag.String("cmds", "", "CmdType constants (name value per line) from tools/facts constsoftype")
	e2e := flag.Bool("e2e", false, "run the end-to-end keyspace workload instead of the codec differential")
	run := vx.Start()
	defer run.Finish()
	log.ReplaceGlobals(zap.NewNop(), &log.ZapProperties{}) // the codec logs every rejected key with a stack
	if *catOut != "" {
		runCatalogue(*cmdsFile, *catOut)
		return
	}
	if *e2e {
		runE2E(run)
		return
	}
	initRangeCmds(*cmdsFile)
	do := func(op string) {
		run.Count(strings.Fields(op)[0])
		run.Emit(op, exec(op))
	}
	if run.Replay != "" {
		for _, l := range run.ReplayLines() {
			if strings.HasPrefix(l, "#") {
				run.Comment(strings.TrimSpace(l[1:]))
				continue
			}
			run.Emit(l, exec(l))
		}
		return
	}
	r := vx.NewRand(run.Seed)
	nRand := 1500
	if run.Thorough() {
		nRand = 40000
	}
	H := vx.Hex
	ks := func(m string, id uint32) string { return m + " " + strconv.FormatUint(uint64(id), 10) }

	// 1. every boundary id, both modes: bounds, fixed keys
	run.Comment("boundary ids")
	fixed := [][]byte{{}, {0}, {0xFF}, {0, 0, 0, 0}, {0xFF, 0xFF, 0xFF, 0xFF}, bytes.Repeat([]byte{0xFF}, 8), bytes.Repeat([]byte{0}, 9), []byte("key")}
	for _, m := range []string{"r", "x"} {
		for _, id := range boundaryIDs {
			K := ks(m, id)
			do("bounds " + K)
			for i, k := range fixed {
				do("enckey " + K + " " + H(k))
				do("rt " + K + " " + H(k))
				do("encregkey " + K + " " + H(k))
				o := fixed[(i+3)%len(fixed)]
				do("encrange " + K + " 0 " + H(k) + " " + H(o))
				do("encrange " + K + " 1 " + H(k) + " " + H(o))
				do("encregrange " + K + " " + H(k) + " " + H(o))
				do("rtrange " + K + " " + H(k) + " " + H(o))
				do("ord " + K + " " + H(k) + " " + H(o))
				do("inrange " + K + " 0 " + H(k) + " " + H(o) + " -")
				do("inrange " + K + " 1 " + H(k) + " - " + H(o))
			}
			// the keyspace's own bounds, its neighbours' and the other mode's, as region bounds
			p := pfxOf(m, id)
			v := uint32(p[0])<<24 | id
			u32 := func(x uint32) []byte { return []byte{byte(x >> 24), byte(x >> 16), byte(x >> 8), byte(x)} }
			cands := [][]byte{{}, p, u32(v + 1), u32(v - 1), u32(v + 2), append(cp(p), 0), append(u32(v-1), 0xFF), append(u32(v+1), 0), {p[0]}, {p[0] + 1}}
			for _, a := range cands {
				do("deckey " + K + " " + H(a))
				for _, b := range cands {
					do("decrange " + K + " " + H(a) + " " + H(b))
					if len(a) == 0 || len(a) >= 4 {
						do("clip " + K + " " + H(a) + " " + H(b) + " -")
						do("clip " + K + " " + H(a) + " " + H(b) + " ff")
					}
				}
			}
		}
	}
	// 2. random
	run.Comment("random")
	for n := 0; n < nRand; n++ {
		m, id := randMode(r), randID(r)
		K := ks(m, id)
		a := randKey(r)
		b := related(r, a)
		if r.Chance(40) {
			b = randKey(r)
		}
		c := related(r, b)
		rev := strconv.Itoa(r.Intn(2))
		switch r.Intn(9) {
		case 0:
			do("enckey " + K + " " + H(a))
			do("rt " + K + " " + H(a))
			do("ord " + K + " " + H(a) + " " + H(b))
		case 1:
			do("encrange " + K + " " + rev + " " + H(a) + " " + H(b))
			do("rtrange " + K + " " + H(a) + " " + H(b))
			do("inrange " + K + " " + rev + " " + H(c) + " " + H(a) + " " + H(b))
			do("inrange " + K + " " + rev + " " + H(a) + " " + H(a) + " " + H(b))
			do("inrange " + K + " " + rev + " " + H(b) + " " + H(a) + " " + H(b))
		case 2:
			e := boundaryEncoded(r, m, id, false)
			do("deckey " + K + " " + H(e))
			do("decrange " + K + " " + H(e) + " " + H(boundaryEncoded(r, m, id, false)))
		case 3:
			rs, re := boundaryEncoded(r, m, id, true), boundaryEncoded(r, m, id, false)
			for _, k := range [][]byte{a, {}, bytes.TrimPrefix(rs, pfxOf(m, id)), bytes.TrimPrefix(re, pfxOf(m, id))} {
				do("clip " + K + " " + H(rs) + " " + H(re) + " " + H(k))
			}
		case 4:
			do("encregkey " + K + " " + H(a))
			do("encregrange " + K + " " + H(a) + " " + H(b))
			cdc, _ := getCodec(m, strconv.FormatUint(uint64(id), 10))
			e := cdc.EncodeRegionKey(a)
			switch r.Intn(5) {
			case 0:
				e = e[:r.Intn(len(e))]
			case 1:
				e[r.Intn(len(e))] ^= byte(1 << uint(r.Intn(8)))
			case 2:
				e = append(e, randKey(r)...)
			case 3:
				e = cdc.EncodeRegionKey(nil)[:0]
				e = append(e, vxEncodeBytes(boundaryEncoded(r, m, id, false))...)
			}
			do("decregkey " + K + " " + H(e))
			do("decregrange " + K + " " + H(e) + " " + H(vxEncodeBytes(boundaryEncoded(r, m, id, false))))
			do("decregrange " + K + " - " + H(e))
		case 5:
			m2, id2 := randMode(r), randID(r)
			if r.Chance(50) { // neighbours
				m2 = m
				id2 = (id + 1) & 0xFFFFFF
				if r.Bool() {
					id2 = (id - 1) & 0xFFFFFF
				}
			}
			if m2 == m && id2 == id {
				continue
			}
			do("disj " + K + " " + ks(m2, id2) + " " + H(a) + " " + H(b) + " " + H(c) + " " + H(randKey(r)) + " " + H(randKey(r)))
			do("disj " + K + " " + ks(m2, id2) + " - - - - " + H(a))
		case 6:
			// region error with a mix of inside / outside / straddling regions
			var toks []string
			for i, cnt := 0, 1+r.Intn(4); i < cnt; i++ {
				s, e := boundaryEncoded(r, m, id, true), boundaryEncoded(r, m, id, false)
				es, ee := []byte{}, []byte{}
				if len(s) > 0 {
					es = vxEncodeBytes(s)
				}
				if len(e) > 0 {
					ee = vxEncodeBytes(e)
				}
				if r.Chance(5) && len(es) > 0 {
					es = es[:len(es)-1]
				}
				toks = append(toks, H(es), H(ee))
			}
			// bucket keys of a region: sorted-ish boundary strings in region wire form, first/last possibly outside
			var bks []string
			for i, cnt := 0, r.Intn(6); i < cnt; i++ {
				b := boundaryEncoded(r, m, id, r.Bool())
				if r.Chance(40) {
					b = append(pfxOf(m, id), randKey(r)...)
				}
				eb := []byte{}
				if len(b) > 0 {
					eb = vxEncodeBytes(b)
				}
				if r.Chance(4) && len(eb) > 0 {
					eb = eb[:len(eb)-1]
				}
				bks = append(bks, H(eb))
			}
			do(strings.TrimSpace("buckets " + K + " " + strings.Join(bks, " ")))
			do("regerr " + K + " " + strings.Join(toks, " "))
			do("regclip " + K + " " + strings.Join(toks, " "))
		case 7:
			if len(rangeCmdList) == 0 {
				continue
			}
			cv := rangeCmdList[r.Intn(len(rangeCmdList))]
			rv := "0"
			if rangeCmds[cv].hasReverse && r.Bool() {
				rv = "1"
			}
			do("reqrange " + strconv.Itoa(int(cv)) + " " + K + " " + rv + " " + H(a) + " " + H(b))
		default:
			do("decrange " + K + " " + H(append(pfxOf(m, id), a...)) + " " + H(append(pfxOf(m, id), b...)))
			do("deckey " + K + " " + H(append(pfxOf(m, id), a...)))
		}
	}
	// 3. every range-bearing command, forward and (where the message has a reverse flag) reverse, empty bounds included
	run.Comment("request ranges")
	for _, cv := range rangeCmdList {
		for _, m := range []string{"r", "x"} {
			K := ks(m, 0xFFFFFF)
			for _, p := range [][2][]byte{{{}, {}}, {[]byte("a"), {}}, {{}, []byte("b")}, {[]byte("a"), []byte("b")}} {
				do("reqrange " + strconv.Itoa(int(cv)) + " " + K + " 0 " + H(p[0]) + " " + H(p[1]))
				if rangeCmds[cv].hasReverse {
					do("reqrange " + strconv.Itoa(int(cv)) + " " + K + " 1 " + H(p[0]) + " " + H(p[1]))
				}
			}
		}
	}
	_ = fmt.Sprint
	_ = os.Stdout
}
