//go:build verif

package main

import "github.com/tikv/client-go/v2/verifx/vx"

func runE2E(run *vx.Run) {}
