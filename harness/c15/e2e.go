//go:build verif

// End-to-end part of C15: the same txn and raw workload on mocktikv under codec v1, under v2 keyspace A and under
// v2 keyspace B (A and B share one store, their runs are interleaved); logical results must coincide with the
// unprefixed run, and the physical contents of the shared store must be exactly prefix(A)++data(A) ∪ prefix(B)++data(B).
package main

import (
	"bytes"
	"context"
	"fmt"
	"os"
	"runtime/debug"
	"sort"
	"strings"

	"github.com/pingcap/kvproto/pkg/keyspacepb"
	"github.com/pingcap/kvproto/pkg/kvrpcpb"
	"github.com/tikv/client-go/v2/internal/apicodec"
	"github.com/tikv/client-go/v2/internal/locate"
	"github.com/tikv/client-go/v2/internal/mockstore/mocktikv"
	"github.com/tikv/client-go/v2/rawkv"
	"github.com/tikv/client-go/v2/tikv"
	"github.com/tikv/client-go/v2/verifx/vx"
	pd "github.com/tikv/pd/client"
	pdgc "github.com/tikv/pd/client/clients/gc"
	"github.com/tikv/pd/client/constants"
	"github.com/tikv/pd/client/pkg/caller"
)

type env struct {
	rpc     *mocktikv.RPCClient
	cluster *mocktikv.Cluster
	pd      pd.Client
	store   uint64
	region  uint64
}

func newEnv() *env {
	rpc, cluster, pdc, err := mocktikv.NewTiKVAndPDClient("", nil)
	if err != nil {
		panic(err)
	}
	s, _, r := mocktikv.BootstrapWithSingleStore(cluster)
	return &env{rpc: rpc, cluster: cluster, pd: pdc, store: s, region: r}
}

// splitAt splits the region holding the physical (prefixed) key at that key
func (e *env) splitAt(physical []byte) {
	r, _, _, _ := e.cluster.GetRegionByKey(mocktikv.NewMvccKey(physical))
	if r == nil {
		return
	}
	ids := e.cluster.AllocIDs(2)
	e.cluster.Split(r.Id, ids[0], physical, []uint64{ids[1]}, ids[1])
}

type ksPD struct {
	pd.Client
	meta *keyspacepb.KeyspaceMeta
}

// the mock PD has no per-keyspace GC state (it panics "unimplemented"); the keyspace stores use the global one
func (p *ksPD) GetGCStatesClient(id uint32) pdgc.GCStatesClient {
	return p.Client.GetGCStatesClient(constants.NullKeyspaceID)
}

func (p *ksPD) WithCallerComponent(c caller.Component) pd.Client {
	return &ksPD{p.Client.WithCallerComponent(c), p.meta}
}

func (p *ksPD) LoadKeyspace(ctx context.Context, name string) (*keyspacepb.KeyspaceMeta, error) {
	return p.meta, nil
}

func meta(id uint32) keyspacepb.KeyspaceMeta {
	return keyspacepb.KeyspaceMeta{Keyspace: &keyspacepb.KeyspaceMeta_Id{Id: id}, Name: fmt.Sprintf("ks%d", id), State: keyspacepb.KeyspaceState_ENABLED}
}

func (e *env) txnStore(ks *uint32) *tikv.KVStore {
	var st *tikv.KVStore
	var err error
	if ks == nil {
		st, err = tikv.NewTestTiKVStore(e.rpc, e.pd, nil, nil, 0)
	} else {
		m := meta(*ks)
		st, err = tikv.NewTestKeyspaceTiKVStore(e.rpc, &ksPD{e.pd, &m}, nil, nil, 0, m)
	}
	if err != nil {
		panic(err)
	}
	return st
}

func (e *env) rawClient(ks *uint32) *rawkv.Client {
	if ks == nil {
		cp := locate.NewCodecPDClient(apicodec.ModeRaw, e.pd)
		return rawkv.VerifNewClient(kvrpcpb.APIVersion_V1, cp, tikv.VerifNewCodecClient(e.rpc, cp.GetCodec()))
	}
	m := meta(*ks)
	cp, err := locate.NewCodecPDClientWithKeyspace(apicodec.ModeRaw, &ksPD{e.pd, &m}, m.Name)
	if err != nil {
		panic(err)
	}
	return rawkv.VerifNewClient(kvrpcpb.APIVersion_V2, cp, tikv.VerifNewCodecClient(e.rpc, cp.GetCodec()))
}

func val(k []byte, salt string) []byte { return []byte("v" + salt + ":" + vx.Hex(k)) }

type kvp struct{ k, v []byte }

func fmtPairs(ps []kvp) string {
	var sb strings.Builder
	for _, p := range ps {
		sb.WriteString(vx.Hex(p.k) + "=" + string(p.v) + ",")
	}
	return sb.String()
}

// ---------------------------------------------------------------------------------------------------- txn workload

func txnWrite(st *tikv.KVStore, keys [][]byte, salt string) []string {
	var out []string
	ctx := context.Background()
	t, err := st.Begin()
	if err != nil {
		return []string{"begin-err"}
	}
	for _, k := range keys {
		if err := t.Set(k, val(k, salt)); err != nil {
			out = append(out, "set-err "+vx.Hex(k))
		}
	}
	out = append(out, fmt.Sprint("commit1 ", t.Commit(ctx) == nil))
	t, _ = st.Begin()
	if len(keys) > 3 {
		t.Delete(keys[1])
		t.Set(keys[2], val(keys[2], salt+"'"))
		// read-your-writes through the union store inside the keyspace
		e, err := t.Get(ctx, keys[2])
		out = append(out, fmt.Sprint("ryw ", string(e.Value), err == nil))
	}
	out = append(out, fmt.Sprint("commit2 ", t.Commit(ctx) == nil))
	return out
}

func iterAll(it interface {
	Valid() bool
	Key() []byte
	Value() []byte
	Next() error
	Close()
}, err error) string {
	if err != nil {
		return "iter-err"
	}
	defer it.Close()
	var ps []kvp
	for it.Valid() && len(ps) < 1000 {
		ps = append(ps, kvp{append([]byte{}, it.Key()...), append([]byte{}, it.Value()...)})
		if it.Next() != nil {
			return "next-err"
		}
	}
	return fmtPairs(ps)
}

func txnRead(st *tikv.KVStore, keys [][]byte) []string {
	var out []string
	ctx := context.Background()
	t, err := st.Begin()
	if err != nil {
		return []string{"begin-err"}
	}
	probe := append(append([][]byte{}, keys...), []byte("missing"), []byte{0xff, 0xff, 0xff, 0xff, 0xff})
	for _, k := range probe {
		e, err := t.Get(ctx, k)
		if err != nil {
			out = append(out, "get "+vx.Hex(k)+" -> notfound")
		} else {
			out = append(out, "get "+vx.Hex(k)+" -> "+string(e.Value))
		}
	}
	m, err := t.BatchGet(ctx, probe)
	var ps []kvp
	for k, v := range m {
		ps = append(ps, kvp{[]byte(k), v.Value})
	}
	sort.Slice(ps, func(i, j int) bool { return bytes.Compare(ps[i].k, ps[j].k) < 0 })
	out = append(out, fmt.Sprint("batchget ", err == nil, " ", fmtPairs(ps)))
	sorted := append([][]byte{}, keys...)
	sort.Slice(sorted, func(i, j int) bool { return bytes.Compare(sorted[i], sorted[j]) < 0 })
	n := len(sorted)
	out = append(out, "iter [-,-) "+iterAll(t.Iter(nil, nil)))
	out = append(out, "iter [k1,k4) "+iterAll(t.Iter(sorted[1%n], sorted[4%n])))
	out = append(out, "iter [k2,-) "+iterAll(t.Iter(sorted[2%n], nil)))
	out = append(out, "iter [-,k3) "+iterAll(t.Iter(nil, sorted[3%n])))
	out = append(out, "riter (-,-] "+iterAll(t.IterReverse(nil, nil)))
	out = append(out, "riter (-,k4) "+iterAll(t.IterReverse(sorted[4%n], nil)))
	out = append(out, "riter [k1,k4) "+iterAll(t.IterReverse(sorted[4%n], sorted[1%n])))
	t.Rollback()
	return out
}

// ---------------------------------------------------------------------------------------------------- raw workload

func rawWrite(c *rawkv.Client, keys [][]byte, salt string) []string {
	ctx := context.Background()
	var out []string
	for i, k := range keys {
		if i%2 == 0 {
			out = append(out, fmt.Sprint("put ", c.Put(ctx, k, val(k, salt)) == nil))
		}
	}
	var bk, bv [][]byte
	for i, k := range keys {
		if i%2 == 1 {
			bk, bv = append(bk, k), append(bv, val(k, salt))
		}
	}
	out = append(out, fmt.Sprint("batchput ", c.BatchPut(ctx, bk, bv) == nil))
	if len(keys) > 3 {
		out = append(out, fmt.Sprint("delete ", c.Delete(ctx, keys[1]) == nil))
	}
	return out
}

func rawRead(c *rawkv.Client, keys [][]byte, destructive bool) []string {
	ctx := context.Background()
	var out []string
	probe := append(append([][]byte{}, keys...), []byte("missing"))
	for _, k := range probe {
		v, err := c.Get(ctx, k)
		out = append(out, fmt.Sprint("get ", vx.Hex(k), " -> ", string(v), " ", err == nil))
	}
	vs, err := c.BatchGet(ctx, probe)
	var sb []string
	for _, v := range vs {
		sb = append(sb, string(v))
	}
	out = append(out, fmt.Sprint("batchget ", err == nil, " ", strings.Join(sb, ",")))
	sorted := append([][]byte{}, keys...)
	sort.Slice(sorted, func(i, j int) bool { return bytes.Compare(sorted[i], sorted[j]) < 0 })
	n := len(sorted)
	scan := func(name string, rev bool, s, e []byte) {
		var ks, vs [][]byte
		var err error
		if rev {
			ks, vs, err = c.ReverseScan(ctx, s, e, 1000)
		} else {
			ks, vs, err = c.Scan(ctx, s, e, 1000)
		}
		var ps []kvp
		for i := range ks {
			ps = append(ps, kvp{ks[i], vs[i]})
		}
		out = append(out, fmt.Sprint(name, " ", err == nil, " ", fmtPairs(ps)))
	}
	scan("scan [-,-)", false, []byte{}, nil)
	scan("scan [k1,k4)", false, sorted[1%n], sorted[4%n])
	scan("scan [k2,-)", false, sorted[2%n], nil)
	scan("rscan (-,-]", true, nil, nil)
	scan("rscan [k1,k4)", true, sorted[4%n], sorted[1%n])
	scan("rscan [-,k3)", true, sorted[3%n], nil)
	if destructive {
		out = append(out, fmt.Sprint("deleterange [k2,k4) ", c.DeleteRange(ctx, sorted[2%n], sorted[4%n]) == nil))
		scan("scan-after-deleterange", false, []byte{}, nil)
		out = append(out, fmt.Sprint("deleterange [k4,-) ", c.DeleteRange(ctx, sorted[4%n], nil) == nil))
		scan("scan-after-deleterange-unbounded", false, []byte{}, nil)
	}
	return out
}

// physical contents of a store as seen by an unprefixed (v1) client
func physicalTxn(e *env) []kvp {
	st := e.txnStore(nil)
	t, err := st.Begin()
	if err != nil {
		return nil
	}
	it, err := t.Iter(nil, nil)
	if err != nil {
		return nil
	}
	var ps []kvp
	for it.Valid() {
		ps = append(ps, kvp{append([]byte{}, it.Key()...), append([]byte{}, it.Value()...)})
		it.Next()
	}
	it.Close()
	return ps
}

func physicalRaw(e *env) []kvp {
	c := e.rawClient(nil)
	ks, vs, err := c.Scan(context.Background(), []byte{}, nil, 10000)
	if err != nil {
		return nil
	}
	var ps []kvp
	for i := range ks {
		ps = append(ps, kvp{ks[i], vs[i]})
	}
	return ps
}

func logicalOf(phys []kvp, prefix []byte) []kvp {
	var out []kvp
	for _, p := range phys {
		if bytes.HasPrefix(p.k, prefix) {
			out = append(out, kvp{p.k[len(prefix):], p.v})
		}
	}
	return out
}

func cmpLines(run *vx.Run, name string, want, got []string) {
	for i := 0; i < len(want) || i < len(got); i++ {
		w, g := "<none>", "<none>"
		if i < len(want) {
			w = want[i]
		}
		if i < len(got) {
			g = got[i]
		}
		op := fmt.Sprintf("e2e %s %d %s", name, i, strings.ReplaceAll(strings.SplitN(w, " -> ", 2)[0], " ", "_"))
		if w == g {
			run.Emit(op, "ok")
		} else {
			run.Emit(op, "FAIL v1: "+w+" | v2: "+g)
		}
		run.Count("e2e:" + strings.Fields(name)[0])
	}
}

func genKeys(r *vx.Rand, n int) [][]byte {
	seen := map[string]bool{}
	fixed := [][]byte{{0x00}, {0xff}, {0xff, 0xff, 0xff, 0xff}, []byte("a"), {'a', 0x00}, []byte("x"), {'r', 0, 0, 1}}
	var out [][]byte
	add := func(k []byte) {
		if len(k) > 0 && !seen[string(k)] {
			seen[string(k)] = true
			out = append(out, k)
		}
	}
	for _, k := range fixed {
		add(k)
	}
	for len(out) < n {
		add(randKey(r))
	}
	// deterministic but unsorted order
	for i := len(out) - 1; i > 0; i-- {
		j := r.Intn(i + 1)
		out[i], out[j] = out[j], out[i]
	}
	return out
}

func runE2E(run *vx.Run) {
	r := vx.NewRand(run.Seed)
	rounds := 2
	if run.Thorough() {
		rounds = 12
	}
	for round := 0; round < rounds; round++ {
		idA, idB := randID(r), randID(r)
		if round == 0 {
			idA, idB = 0x0000FF, 0x000100 // adjacent keyspaces, carry in the last byte
		} else if round == 1 {
			idA, idB = 0xFFFFFF, 0
		}
		if idA == idB {
			idB = (idA + 1) & 0xFFFFFF
		}
		keys := genKeys(r, 10+r.Intn(6))
		run.Comment(fmt.Sprintf("e2e round %d keyspaces %d %d keys %d", round, idA, idB, len(keys)))
		func() {
			defer func() {
				if e := recover(); e != nil {
					if os.Getenv("VERIF_DEBUG") != "" {
						debug.PrintStack()
					}
					run.Emit(fmt.Sprintf("e2e round %d", round), fmt.Sprint("panic ", e))
				}
			}()
			// ---- txn
			pA, pB := pfxOf("x", idA), pfxOf("x", idB)
			ref := newEnv()
			refB := newEnv()
			shared := newEnv()
			sorted := append([][]byte{}, keys...)
			sort.Slice(sorted, func(i, j int) bool { return bytes.Compare(sorted[i], sorted[j]) < 0 })
			// regions: v1 store split inside the data; shared store split inside A, inside B and at arbitrary places
			ref.splitAt(sorted[len(sorted)/2])
			refB.splitAt(sorted[len(sorted)/3]) // same logical split points as in the shared store below
			shared.splitAt(append(append([]byte{}, pA...), sorted[len(sorted)/2]...))
			shared.splitAt(append(append([]byte{}, pB...), sorted[len(sorted)/3]...))
			if r.Bool() {
				shared.splitAt(pA)
				shared.splitAt(pB)
			}
			s1, sB1 := ref.txnStore(nil), refB.txnStore(nil)
			sA, sB := shared.txnStore(&idA), shared.txnStore(&idB)
			want := txnWrite(s1, keys, "A")
			got := txnWrite(sA, keys, "A")
			wantB := append(txnWrite(sB1, keys, "B"), txnRead(sB1, keys)...)
			gotB := append(txnWrite(sB, keys, "B"), txnRead(sB, keys)...) // B works between A's write and A's reads
			want = append(want, txnRead(s1, keys)...)
			got = append(got, txnRead(sA, keys)...)
			cmpLines(run, fmt.Sprintf("txn-A r%d", round), want, got)
			cmpLines(run, fmt.Sprintf("txn-B r%d", round), wantB, gotB)
			phys := physicalTxn(shared)
			la, lb := logicalOf(phys, pA), logicalOf(phys, pB)
			cmpLines(run, fmt.Sprintf("txn-physical r%d", round),
				[]string{"A " + fmtPairs(physicalTxn(ref)), "B " + fmtPairs(physicalTxn(refB)), fmt.Sprint("total ", len(la)+len(lb))},
				[]string{"A " + fmtPairs(la), "B " + fmtPairs(lb), fmt.Sprint("total ", len(phys))})
			// ---- raw
			qA, qB := pfxOf("r", idA), pfxOf("r", idB)
			rref, rrefB, rshared := newEnv(), newEnv(), newEnv()
			c1, cB1 := rref.rawClient(nil), rrefB.rawClient(nil)
			cA, cB := rshared.rawClient(&idA), rshared.rawClient(&idB)
			rw := rawWrite(c1, keys, "A")
			rg := rawWrite(cA, keys, "A")
			rwB := append(rawWrite(cB1, keys, "B"), rawRead(cB1, keys, false)...)
			rgB := append(rawWrite(cB, keys, "B"), rawRead(cB, keys, false)...)
			rw = append(rw, rawRead(c1, keys, true)...)
			rg = append(rg, rawRead(cA, keys, true)...) // A's DeleteRange (bounded and unbounded) must not touch B
			cmpLines(run, fmt.Sprintf("raw-A r%d", round), rw, rg)
			cmpLines(run, fmt.Sprintf("raw-B r%d", round), rwB, rgB)
			rphys := physicalRaw(rshared)
			ra, rb := logicalOf(rphys, qA), logicalOf(rphys, qB)
			cmpLines(run, fmt.Sprintf("raw-physical r%d", round),
				[]string{"A " + fmtPairs(physicalRaw(rref)), "B " + fmtPairs(physicalRaw(rrefB)), fmt.Sprint("total ", len(ra)+len(rb))},
				[]string{"A " + fmtPairs(ra), "B " + fmtPairs(rb), fmt.Sprint("total ", len(rphys))})
		}()
	}
}
