//go:build verif

// Catalogue mode of the C15 harness: for every tikvrpc.CmdType (names/values are handed in by checks/c15.py from
// go/types over the const blocks of tikvrpc/tikvrpc.go) find the request/response messages by running the real
// CallRPC against an intercepted grpc connection, enumerate the key-bearing fields by a name/type rule over the
// generated protobuf structs, and OBSERVE what codec v2 EncodeRequest / DecodeResponse do to a marker key placed in
// each of them, plus AttachContext / GenRegionErrorResp / batch conversion behaviour.  Nothing in here is a
// hand-kept command list.
package main

import (
	"bytes"
	"context"
	"fmt"
	"os"
	"reflect"
	"regexp"
	"runtime"
	"sort"
	"strconv"
	"strings"

	"github.com/pingcap/kvproto/pkg/debugpb"
	"github.com/pingcap/kvproto/pkg/errorpb"
	"github.com/pingcap/kvproto/pkg/keyspacepb"
	"github.com/pingcap/kvproto/pkg/kvrpcpb"
	"github.com/pingcap/kvproto/pkg/tikvpb"
	"github.com/tikv/client-go/v2/internal/apicodec"
	"github.com/tikv/client-go/v2/tikvrpc"
	"github.com/tikv/client-go/v2/util/codec"
	"google.golang.org/grpc"
	"google.golang.org/grpc/credentials/insecure"
)

// ---------------------------------------------------------------------------------------------------------------
// the key-bearing rule (printed into the evidence by checks/c15.py through the "rule" lines of the output)

// a `bytes` / `repeated bytes` field is key-bearing iff its protobuf name matches keyNameRE
var keyNameRE = regexp.MustCompile(`^(key|keys|[a-z_]*_key|[a-z_]*_keys|primary|primary_lock|secondaries|start|end)$`)

// region-format rule: these fields carry region boundaries (memcomparable(prefix++key)), not plain keys
func regionFormat(msg reflect.Type, protoName string) bool {
	switch msg.String() {
	case "metapb.Region":
		return protoName == "start_key" || protoName == "end_key"
	case "errorpb.KeyNotInRegion":
		return protoName == "start_key" || protoName == "end_key"
	case "errorpb.BucketVersionNotMatch":
		return protoName == "keys"
	}
	return false
}

const ruleText = "key-bearing field := protobuf field of Go type []byte or [][]byte whose proto name matches " +
	"^(key|keys|*_key|*_keys|primary|primary_lock|secondaries|start|end)$ , reached from the command's request/response " +
	"message through singular or repeated message fields (each message type at most twice on a path; kvrpcpb.Context is not entered; " +
	"kvrpcpb.KeyError is not entered on the request side); range-end := key-bearing request field named end or end_key (left empty it must become the keyspace end); " +
	"range-start := key-bearing request field named start or start_key (left empty it must become the keyspace prefix, never stay empty); " +
	"any other request key field left empty may become the prefix or stay empty (= not set); " +
	"region-format (memcomparable over the prefixed key) := metapb.Region.{start_key,end_key}, errorpb.KeyNotInRegion.{start_key,end_key}, " +
	"errorpb.BucketVersionNotMatch.keys; every other []byte / [][]byte field is listed under non_key_bytes_fields"

// ---------------------------------------------------------------------------------------------------------------
// grpc interception: CallRPC runs for real, the connection records what it was asked to send

type probeRec struct {
	method string
	req    interface{}
	reply  interface{}
	stream bool
}

var lastProbe *probeRec

type fakeStream struct {
	grpc.ClientStream
	ctx context.Context
}

func (s *fakeStream) SendMsg(m interface{}) error {
	if lastProbe != nil {
		lastProbe.req = m
	}
	return nil
}
func (s *fakeStream) CloseSend() error { return nil }
func (s *fakeStream) RecvMsg(m interface{}) error {
	if lastProbe != nil {
		lastProbe.reply = m
	}
	return nil
}
func (s *fakeStream) Context() context.Context { return s.ctx }

func newProbeConn() *grpc.ClientConn {
	cc, err := grpc.NewClient("passthrough:///verif-c15",
		grpc.WithTransportCredentials(insecure.NewCredentials()),
		grpc.WithUnaryInterceptor(func(ctx context.Context, method string, req, reply interface{}, cc *grpc.ClientConn, invoker grpc.UnaryInvoker, opts ...grpc.CallOption) error {
			lastProbe = &probeRec{method: method, req: req, reply: reply}
			return nil
		}),
		grpc.WithStreamInterceptor(func(ctx context.Context, desc *grpc.StreamDesc, cc *grpc.ClientConn, method string, streamer grpc.Streamer, opts ...grpc.CallOption) (grpc.ClientStream, error) {
			lastProbe = &probeRec{method: method, stream: true}
			return &fakeStream{ctx: ctx}, nil
		}))
	if err != nil {
		panic(err)
	}
	return cc
}

// guard runs f; kind: "" ok, "assert" wrong dynamic type of req.Req, "panic" anything else
func guard(f func()) (kind string) {
	defer func() {
		if e := recover(); e != nil {
			if _, ok := e.(*runtime.TypeAssertionError); ok {
				kind = "assert"
			} else {
				kind = "panic"
			}
		}
	}()
	f()
	return ""
}

// ---------------------------------------------------------------------------------------------------------------
// reflection helpers

var (
	ctxType    = reflect.TypeOf((*kvrpcpb.Context)(nil))
	regErrType = reflect.TypeOf((*errorpb.Error)(nil))
	bytesType  = reflect.TypeOf([]byte(nil))
	bytes2Type = reflect.TypeOf([][]byte(nil))
)

func isMsgPtr(t reflect.Type) bool {
	if t.Kind() != reflect.Ptr || t.Elem().Kind() != reflect.Struct {
		return false
	}
	_, ok := t.MethodByName("ProtoMessage")
	return ok
}

func protoName(f reflect.StructField) string {
	for _, p := range strings.Split(f.Tag.Get("protobuf"), ",") {
		if strings.HasPrefix(p, "name=") {
			return p[5:]
		}
	}
	return ""
}

// request message candidates: the typed accessors of *tikvrpc.Request
func requestCandidates() []reflect.Type {
	rt := reflect.TypeOf(&tikvrpc.Request{})
	seen := map[reflect.Type]bool{}
	var out []reflect.Type
	for i := 0; i < rt.NumMethod(); i++ {
		m := rt.Method(i)
		if m.Type.NumIn() != 1 || m.Type.NumOut() != 1 {
			continue
		}
		o := m.Type.Out(0)
		if isMsgPtr(o) && !seen[o] && o != ctxType {
			seen[o] = true
			out = append(out, o)
		}
	}
	sort.Slice(out, func(i, j int) bool { return out[i].String() < out[j].String() })
	return out
}

type leaf struct {
	path   []string // Go field names
	ppath  []string // proto names (printed)
	multi  bool     // [][]byte
	region bool     // region-format by rule
}

func (l leaf) String() string { return strings.Join(l.ppath, ".") }

var nonKeyBytes = map[string]bool{}

// on the request side kvrpcpb.KeyError (an error description, response-only) is not entered
var skipKeyError = false
var keyErrType = reflect.TypeOf(kvrpcpb.KeyError{})

// leaves enumerates the key-bearing fields below message struct type t (t is the struct, not the pointer)
func leaves(t reflect.Type, path, ppath []string, onPath map[reflect.Type]int, out *[]leaf) {
	if onPath[t] >= 2 || (skipKeyError && t == keyErrType) {
		return
	}
	onPath[t]++
	defer func() { onPath[t]-- }()
	for i := 0; i < t.NumField(); i++ {
		f := t.Field(i)
		pn := protoName(f)
		if pn == "" {
			continue
		}
		np := append(append([]string{}, path...), f.Name)
		npp := append(append([]string{}, ppath...), pn)
		switch {
		case f.Type == bytesType || f.Type == bytes2Type:
			if keyNameRE.MatchString(pn) {
				*out = append(*out, leaf{path: np, ppath: npp, multi: f.Type == bytes2Type, region: regionFormat(t, pn)})
			} else {
				nonKeyBytes[t.String()+"."+pn] = true
			}
		case f.Type == ctxType:
		case isMsgPtr(f.Type):
			leaves(f.Type.Elem(), np, npp, onPath, out)
		case f.Type.Kind() == reflect.Slice && isMsgPtr(f.Type.Elem()):
			np[len(np)-1] = f.Name + "[]"
			npp[len(npp)-1] = pn + "[]"
			leaves(f.Type.Elem().Elem(), np, npp, onPath, out)
		}
	}
}

func hasFieldOfType(t reflect.Type, ft reflect.Type) (string, bool) {
	for i := 0; i < t.NumField(); i++ {
		if t.Field(i).Type == ft && protoName(t.Field(i)) != "" {
			return t.Field(i).Name, true
		}
	}
	return "", false
}

// skeleton: new message with every top-level singular message field allocated (except Context)
func skeleton(t reflect.Type) reflect.Value {
	v := reflect.New(t)
	for i := 0; i < t.NumField(); i++ {
		f := t.Field(i)
		if isMsgPtr(f.Type) && f.Type != ctxType && protoName(f) != "" {
			v.Elem().Field(i).Set(reflect.New(f.Type.Elem()))
		}
	}
	return v
}

const repN = 2

// setLeaf populates the leaf (all repN elements of every repeated level) with gen(i), i counting leaves
func setLeaf(v reflect.Value, path []string, gen func(i int) []byte, n *int) {
	v = v.Elem()
	name := path[0]
	rep := strings.HasSuffix(name, "[]")
	fv := v.FieldByName(strings.TrimSuffix(name, "[]"))
	if len(path) == 1 {
		if fv.Type() == bytes2Type {
			var ks [][]byte
			for i := 0; i < repN; i++ {
				ks = append(ks, gen(*n))
				*n++
			}
			fv.Set(reflect.ValueOf(ks))
		} else {
			fv.SetBytes(gen(*n))
			*n++
		}
		return
	}
	if rep {
		if fv.Len() == 0 {
			s := reflect.MakeSlice(fv.Type(), repN, repN)
			for i := 0; i < repN; i++ {
				s.Index(i).Set(reflect.New(fv.Type().Elem().Elem()))
			}
			fv.Set(s)
		}
		for i := 0; i < fv.Len(); i++ {
			setLeaf(fv.Index(i), path[1:], gen, n)
		}
		return
	}
	if fv.IsNil() {
		fv.Set(reflect.New(fv.Type().Elem()))
	}
	setLeaf(fv, path[1:], gen, n)
}

// getLeaf collects the leaf's values; ok=false if a level of the path is missing
func getLeaf(v reflect.Value, path []string, out *[][]byte) bool {
	if v.Kind() == reflect.Ptr {
		if v.IsNil() {
			return false
		}
		v = v.Elem()
	}
	name := path[0]
	rep := strings.HasSuffix(name, "[]")
	fv := v.FieldByName(strings.TrimSuffix(name, "[]"))
	if len(path) == 1 {
		if fv.Type() == bytes2Type {
			if fv.Len() != repN {
				return false
			}
			for i := 0; i < fv.Len(); i++ {
				*out = append(*out, fv.Index(i).Bytes())
			}
		} else {
			*out = append(*out, fv.Bytes())
		}
		return true
	}
	if rep {
		if fv.Len() != repN {
			return false
		}
		for i := 0; i < fv.Len(); i++ {
			if !getLeaf(fv.Index(i), path[1:], out) {
				return false
			}
		}
		return true
	}
	return getLeaf(fv, path[1:], out)
}

func marker(i int) []byte { return []byte(fmt.Sprintf("\x00mk%d\xff", i)) }

func allEq(got [][]byte, want func(i int) []byte) bool {
	if len(got) == 0 {
		return false
	}
	for i, g := range got {
		if !bytes.Equal(g, want(i)) {
			return false
		}
	}
	return true
}

// ---------------------------------------------------------------------------------------------------------------

type cmdInfo struct {
	name    string
	value   uint16
	reqT    reflect.Type // struct type
	respT   reflect.Type // struct type of the response MESSAGE (stream: what Recv yields)
	wrapT   reflect.Type // stream wrapper (pointer type) or nil
	wrapVal func() reflect.Value
	method  string
	stream  bool
	via     string
}

type oneofEntry struct {
	name string
	wrap reflect.Type // pointer to wrapper struct
	msg  reflect.Type // pointer to message
}

func oneofs(wrappers []interface{}) []oneofEntry {
	var out []oneofEntry
	for _, w := range wrappers {
		wt := reflect.TypeOf(w)
		f := wt.Elem().Field(0)
		out = append(out, oneofEntry{name: f.Name, wrap: wt, msg: f.Type})
	}
	return out
}

func tname(t reflect.Type) string {
	if t == nil {
		return "-"
	}
	return t.String()
}

func b2s(b bool) string {
	if b {
		return "1"
	}
	return "0"
}

type nv struct {
	name string
	v    uint16
}

func readCmds(cmdsFile string) (cmds []nv, aliases []string) {
	data, err := os.ReadFile(cmdsFile)
	if err != nil {
		panic(err)
	}
	seenV := map[uint16]string{}
	for _, l := range strings.Split(string(data), "\n") {
		w := strings.Fields(l)
		if len(w) != 2 {
			continue
		}
		x, err := strconv.ParseUint(w[1], 10, 16)
		if err != nil {
			panic("bad cmd value " + l)
		}
		if first, dup := seenV[uint16(x)]; dup {
			aliases = append(aliases, w[0]+"="+first)
			continue
		}
		seenV[uint16(x)] = w[0]
		cmds = append(cmds, nv{w[0], uint16(x)})
	}
	return
}

type prober struct {
	cc     *grpc.ClientConn
	client tikvpb.TikvClient
	dbg    debugpb.DebugClient
	cands  []reflect.Type
}

func newProber() *prober {
	cc := newProbeConn()
	return &prober{cc: cc, client: tikvpb.NewTikvClient(cc), dbg: debugpb.NewDebugClient(cc), cands: requestCandidates()}
}

// identify finds the request / response messages of a command by running CallRPC / CallDebugRPC /
// ToBatchCommandsRequest for real against the intercepted connection
func (p *prober) identify(c nv) cmdInfo {
	bg := context.Background()
	ci := cmdInfo{name: c.name, value: c.v}
	typ := tikvrpc.CmdType(c.v)
	for _, ct := range p.cands {
		req := tikvrpc.NewRequest(typ, reflect.New(ct.Elem()).Interface())
		var resp *tikvrpc.Response
		var err error
		lastProbe = nil
		via := ""
		k := guard(func() { resp, err = tikvrpc.CallRPC(bg, p.client, req) })
		if k == "" && err != nil {
			lastProbe = nil
			k = guard(func() { resp, err = tikvrpc.CallDebugRPC(bg, p.dbg, req) })
			via = "CallDebugRPC"
		} else {
			via = "CallRPC"
		}
		if k != "" || err != nil || lastProbe == nil {
			continue
		}
		pr := lastProbe
		ci.via = via
		ci.reqT = ct.Elem()
		ci.method = pr.method
		ci.stream = pr.stream
		if !pr.stream {
			ci.respT = reflect.TypeOf(pr.reply).Elem()
		} else {
			w := reflect.ValueOf(resp.Resp)
			ci.wrapT = w.Type()
			// the embedded stream client is field 0; Recv() tells the message type
			lastProbe = &probeRec{}
			rv := w.Elem().Field(0).MethodByName("Recv").Call(nil)
			if lastProbe.reply != nil {
				ci.respT = reflect.TypeOf(lastProbe.reply).Elem()
			} else if len(rv) > 0 {
				ci.respT = rv[0].Type().Elem()
			}
			wt := w.Type()
			ci.wrapVal = func() reflect.Value { return reflect.New(wt.Elem()) }
		}
		break
	}
	if ci.reqT == nil {
		// commands that never reach the wire (CmdEmpty): the batch conversion type-asserts the request
		for _, ct := range p.cands {
			req := tikvrpc.NewRequest(typ, reflect.New(ct.Elem()).Interface())
			var b *tikvpb.BatchCommandsRequest_Request
			if guard(func() { b = req.ToBatchCommandsRequest() }) == "" && b != nil {
				ci.reqT = ct.Elem()
				ci.via = "ToBatchCommandsRequest"
				var resp *tikvrpc.Response
				var err error
				if guard(func() { resp, err = tikvrpc.CallRPC(bg, p.client, req) }) == "" && err == nil && resp != nil && resp.Resp != nil {
					ci.respT = reflect.TypeOf(resp.Resp).Elem()
				}
				break
			}
		}
	}
	return ci
}

func identifyAll(cmdsFile string) []cmdInfo {
	cmds, _ := readCmds(cmdsFile)
	p := newProber()
	defer p.cc.Close()
	var out []cmdInfo
	for _, c := range cmds {
		out = append(out, p.identify(c))
	}
	return out
}

func vxEncodeBytes(b []byte) []byte { return codec.EncodeBytes(nil, b) }

func runCatalogue(cmdsFile, outFile string) {
	cmds, aliases := readCmds(cmdsFile)
	out, err := os.Create(outFile)
	if err != nil {
		panic(err)
	}
	defer out.Close()
	pr := func(f string, a ...interface{}) { fmt.Fprintf(out, f+"\n", a...) }

	p := newProber()
	defer p.cc.Close()
	reqOne := oneofs((&tikvpb.BatchCommandsRequest_Request{}).XXX_OneofWrappers())
	respOne := oneofs((&tikvpb.BatchCommandsResponse_Response{}).XXX_OneofWrappers())

	mkCodec := func(mode apicodec.Mode, id uint32) apicodec.Codec {
		c, err := apicodec.NewCodecV2(mode, &keyspacepb.KeyspaceMeta{Keyspace: &keyspacepb.KeyspaceMeta_Id{Id: id}, Name: "verif"})
		if err != nil {
			panic(err)
		}
		return c
	}
	codecs := []apicodec.Codec{mkCodec(apicodec.ModeTxn, 0x0102ff), mkCodec(apicodec.ModeRaw, 0xffffff)}

	pr("rule %s", ruleText)
	for _, a := range aliases {
		pr("alias %s", a)
	}
	usedReqOne := map[string]bool{}
	for _, c := range cmds {
		ci := p.identify(c)
		typ := tikvrpc.CmdType(c.v)
		if ci.reqT == nil {
			pr("cmd %s %d req=- resp=- via=- method=- stream=0 hasctx=0 attach=0 hasregerr=0 genregerr=0 batchform=0 tobatch=0 frombatch=0 reason=unidentified", c.name, c.v)
			continue
		}
		newReq := func() *tikvrpc.Request { return tikvrpc.NewRequest(typ, reflect.New(ci.reqT).Interface()) }

		// ---- AttachContext
		ctxField, hasCtx := hasFieldOfType(ci.reqT, ctxType)
		attach := false
		guard(func() {
			req := newReq()
			first := req.Req
			ok1 := tikvrpc.AttachContext(req, kvrpcpb.Context{RegionId: 4242})
			chk := func(id uint64) bool {
				if !hasCtx {
					return true
				}
				cv := reflect.ValueOf(req.Req).Elem().FieldByName(ctxField)
				return !cv.IsNil() && cv.Interface().(*kvrpcpb.Context).RegionId == id
			}
			v1 := chk(4242)
			ok2 := tikvrpc.AttachContext(req, kvrpcpb.Context{RegionId: 4343})
			v2 := chk(4343)
			// the message handed out after the first attach must not be patched by the second one (batch loop reads it)
			v3 := true
			if hasCtx && reflect.TypeOf(first) == reflect.TypeOf(req.Req) {
				cv := reflect.ValueOf(first).Elem().FieldByName(ctxField)
				v3 = !cv.IsNil() && cv.Interface().(*kvrpcpb.Context).RegionId == 4242
			}
			attach = ok1 && ok2 && v1 && v2 && v3 && req.Context.RegionId == 4343
		})

		// ---- GenRegionErrorResp
		hasRegErr := false
		regErrField := ""
		if ci.respT != nil {
			regErrField, hasRegErr = hasFieldOfType(ci.respT, regErrType)
		}
		genOK := false
		guard(func() {
			e := &errorpb.Error{Message: "verif", EpochNotMatch: &errorpb.EpochNotMatch{}}
			resp, err := tikvrpc.GenRegionErrorResp(newReq(), e)
			if err != nil || resp == nil {
				return
			}
			got, err := resp.GetRegionError()
			if err != nil || got != e {
				return
			}
			rt := reflect.TypeOf(resp.Resp)
			if ci.stream {
				genOK = rt == ci.wrapT
			} else {
				genOK = ci.respT != nil && rt == reflect.PtrTo(ci.respT)
			}
			_ = regErrField
		})

		// ---- batch form
		batchForm, toOK, fromOK := false, false, false
		var reqEntry, respEntry *oneofEntry
		for i := range reqOne {
			if reqOne[i].msg == reflect.PtrTo(ci.reqT) {
				reqEntry = &reqOne[i]
			}
		}
		if reqEntry != nil && ci.respT != nil {
			for i := range respOne {
				if respOne[i].name == reqEntry.name && respOne[i].msg == reflect.PtrTo(ci.respT) {
					respEntry = &respOne[i]
				}
			}
		}
		batchForm = !ci.stream && reqEntry != nil && respEntry != nil
		guard(func() {
			req := newReq()
			b := req.ToBatchCommandsRequest()
			if b == nil || b.Cmd == nil {
				return
			}
			w := reflect.ValueOf(b.Cmd)
			if reqEntry == nil || w.Type() != reqEntry.wrap {
				return
			}
			toOK = w.Elem().Field(0).Interface() == req.Req
		})
		if respEntry != nil {
			guard(func() {
				msg := reflect.New(ci.respT)
				w := reflect.New(respEntry.wrap.Elem())
				w.Elem().Field(0).Set(msg)
				r := &tikvpb.BatchCommandsResponse_Response{}
				reflect.ValueOf(r).Elem().FieldByName("Cmd").Set(w)
				resp, err := tikvrpc.FromBatchCommandsResponse(r)
				fromOK = err == nil && resp != nil && resp.Resp == msg.Interface()
			})
		}
		if reqEntry != nil && !ci.stream {
			usedReqOne[reqEntry.name] = true
		}
		reason := "-"
		switch {
		case ci.stream:
			reason = "stream"
		case !hasCtx:
			reason = "no-context-field"
		}
		if ci.method == "" {
			ci.method = "-"
		}
		pr("cmd %s %d req=%s resp=%s via=%s method=%s stream=%s hasctx=%s attach=%s hasregerr=%s genregerr=%s batchform=%s tobatch=%s frombatch=%s reason=%s",
			c.name, c.v, tname(ci.reqT), tname(ci.respT), ci.via, ci.method, b2s(ci.stream), b2s(hasCtx), b2s(attach), b2s(hasRegErr), b2s(genOK),
			b2s(batchForm), b2s(toOK), b2s(fromOK), reason)

		// ---- key-bearing request fields: observed effect of EncodeRequest
		var rl []leaf
		skipKeyError = true
		leaves(ci.reqT, nil, nil, map[reflect.Type]int{}, &rl)
		skipKeyError = false
		for _, lf := range rl {
			effect, intact := "", true
			last := lf.ppath[len(lf.ppath)-1]
			isEnd := !lf.multi && (last == "end" || last == "end_key")
			role := "key"
			if isEnd {
				role = "end"
			} else if !lf.multi && (last == "start" || last == "start_key") {
				role = "start"
			}
			emptyEnd := "na"
			empty := ""
			for _, cd := range codecs {
				e, in := probeEncode(cd, typ, ci, lf)
				if effect == "" || e != "prefixed" {
					effect = e
				}
				intact = intact && in
				ee := probeEmptyEnd(cd, typ, ci, lf)
				if isEnd && (emptyEnd == "na" || ee != "kend") {
					emptyEnd = ee
				}
				// what an EMPTY key in this field becomes; the two probe codecs must agree
				if empty == "" {
					empty = ee
				} else if empty != ee {
					empty = "other"
				}
			}
			pr("field %s req %s multi=%s fmt=plain effect=%s intact=%s emptyend=%s role=%s empty=%s", c.name, lf, b2s(lf.multi), effect, b2s(intact), emptyEnd, role, empty)
		}
		// ---- key-bearing response fields: observed effect of DecodeResponse
		if ci.respT != nil {
			var pl []leaf
			leaves(ci.respT, nil, nil, map[reflect.Type]int{}, &pl)
			for _, lf := range pl {
				effect := ""
				for _, cd := range codecs {
					e := probeDecode(cd, typ, ci, lf)
					if effect == "" || !strings.HasPrefix(e, "stripped") {
						effect = e
					}
				}
				f := "plain"
				if lf.region {
					f = "region"
				}
				last := lf.ppath[len(lf.ppath)-1]
				role := "key"
				if !lf.multi && (last == "end" || last == "end_key") {
					role = "end"
				} else if !lf.multi && (last == "start" || last == "start_key") {
					role = "start"
				}
				pr("field %s resp %s multi=%s fmt=%s effect=%s intact=1 emptyend=na role=%s empty=na", c.name, lf, b2s(lf.multi), f, effect, role)
			}
		}
	}
	for _, e := range reqOne {
		if !usedReqOne[e.name] {
			pr("batch-oneof-without-cmd %s %s", e.name, e.msg.Elem().String())
		}
	}
	var nk []string
	for k := range nonKeyBytes {
		nk = append(nk, k)
	}
	sort.Strings(nk)
	for _, k := range nk {
		pr("nonkey %s", k)
	}
}

// probeEncode: request with only this leaf populated (marker), through EncodeRequest
func probeEncode(cd apicodec.Codec, typ tikvrpc.CmdType, ci cmdInfo, lf leaf) (effect string, intact bool) {
	effect = "panic"
	k := guard(func() {
		msg := skeleton(ci.reqT)
		n := 0
		setLeaf(msg, lf.path, marker, &n)
		req := tikvrpc.NewRequest(typ, msg.Interface())
		enc, err := cd.EncodeRequest(req)
		if err != nil {
			effect = "error"
			return
		}
		var got, orig [][]byte
		if !getLeaf(reflect.ValueOf(enc.Req), lf.path, &got) {
			effect = "dropped"
		} else if allEq(got, func(i int) []byte { return append(append([]byte{}, cd.GetKeyspace()...), marker(i)...) }) {
			effect = "prefixed"
		} else if allEq(got, marker) {
			effect = "unchanged"
		} else {
			effect = "other"
		}
		intact = getLeaf(msg, lf.path, &orig) && allEq(orig, marker)
	})
	if k != "" {
		effect = "panic"
	}
	return
}

// probeEmptyEnd: the range-end leaf left empty (its parents exist): it must come out as the keyspace end
func probeEmptyEnd(cd apicodec.Codec, typ tikvrpc.CmdType, ci cmdInfo, lf leaf) (res string) {
	res = "panic"
	guard(func() {
		msg := skeleton(ci.reqT)
		n := 0
		setLeaf(msg, lf.path, func(int) []byte { return []byte{} }, &n)
		enc, err := cd.EncodeRequest(tikvrpc.NewRequest(typ, msg.Interface()))
		if err != nil {
			res = "error"
			return
		}
		_, kend := apicodec.VerifBounds(cd)
		var got [][]byte
		if !getLeaf(reflect.ValueOf(enc.Req), lf.path, &got) {
			res = "dropped"
		} else if allEq(got, func(int) []byte { return kend }) {
			res = "kend"
		} else if allEq(got, func(int) []byte { return cd.GetKeyspace() }) {
			res = "kstart"
		} else if allEq(got, func(int) []byte { return nil }) {
			res = "empty"
		} else {
			res = "other"
		}
	})
	return
}

// probeDecode: response with only this leaf populated (prefix++marker, or its region form), through DecodeResponse
func probeDecode(cd apicodec.Codec, typ tikvrpc.CmdType, ci cmdInfo, lf leaf) string {
	try := func(region bool) string {
		effect := "panic"
		guard(func() {
			msg := skeleton(ci.respT)
			n := 0
			gen := func(i int) []byte {
				k := append(append([]byte{}, cd.GetKeyspace()...), marker(i)...)
				if region {
					return codec.EncodeBytes(nil, k)
				}
				return k
			}
			setLeaf(msg, lf.path, gen, &n)
			var respV interface{} = msg.Interface()
			if ci.stream {
				w := ci.wrapVal()
				set := false
				for i := 0; i < w.Elem().NumField(); i++ {
					if w.Elem().Field(i).Type() == msg.Type() {
						w.Elem().Field(i).Set(msg)
						set = true
					}
				}
				if !set {
					effect = "nowrap"
					return
				}
				respV = w.Interface()
			}
			req := tikvrpc.NewRequest(typ, skeleton(ci.reqT).Interface())
			enc, err := cd.EncodeRequest(req)
			if err != nil {
				effect = "error"
				return
			}
			resp, err := cd.DecodeResponse(enc, &tikvrpc.Response{Resp: respV})
			if err != nil || resp == nil {
				effect = "error"
				return
			}
			var got [][]byte
			if !getLeaf(msg, lf.path, &got) {
				effect = "dropped"
			} else if allEq(got, marker) {
				effect = "stripped"
				if region {
					effect = "stripped-region"
				}
			} else if allEq(got, gen) {
				effect = "unchanged"
			} else {
				effect = "other"
			}
		})
		return effect
	}
	first, second := false, true
	if lf.region {
		first, second = true, false
	}
	e := try(first)
	if strings.HasPrefix(e, "stripped") {
		return e
	}
	e2 := try(second)
	if strings.HasPrefix(e2, "stripped") {
		return e2
	}
	return e
}
