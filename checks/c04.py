"""C04 — request-stream rules (DESIGN §4 C04); trace grammar and division of labour: HUB.md."""
from checks.hub_common import run_hub, replay_hub

PID = "C04"
RULE = ("the shapes without losses: plain, with batch-size limit 1 (failpoint twoPCRequestBatchSizeLimit), and with one or two region errors / splits at random RPC indexes that force the committer to re-group its batches, optionally a concurrent reader (its lock-resolution requests are monitored too); the judge's monitor reads the rpc stream")


def run(a):
    return run_hub(PID, a, RULE)


def replay(a):
    return replay_hub(PID, a, RULE)
