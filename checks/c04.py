"""C04 — request-stream rules (DESIGN §4 C04); trace grammar and division of labour: HUB.md."""
from checks.hub_common import run_hub, replay_hub

PID = "C04"
RULE = ("the shapes without losses: plain, with batch-size limit 1 (failpoint twoPCRequestBatchSizeLimit), and with one or two region errors / splits at random RPC indexes that force the committer to re-group its batches, optionally a concurrent reader (its lock-resolution requests are monitored too); the judge's monitor reads the rpc stream; pess-program family: pessimistic programs whose LockKeys calls fail with write conflict / key exists (first call favoured) and carry on with other keys, long variants wait for wall-clock heart-beats (`audit heartbeat`); long-txn family: primary ttl extended by heart-beats under a stepped virtual clock, then a foreign reader / locker / writer meets a lock inside the prewrite phase (rule 5 incl. its async-commit recovery half, rule 8 incl. pessimistic lock requests, rule 4 with action codes); slow-owner family (clock step between execution and delivery of a status check) and beat-faults family (isolated heart-beat failures with successes in between, then `audit heartbeat` / `audit held` and a foreign no-wait locker); shape kind insdel (check-only mutations; rule 8 for async-commit primaries); round 3: lazy writes (`setlazy`: constraint check deferred to prewrite) in the pess-program family, rule 9 extended to the per-mutation pessimistic action of a pessimistic prewrite (locked key 1, lazily written unlocked key 2, else 0), the C03 triple family also runs here, aged shapes / commit mode `both`; round 4: lock-if-exists-first family (every 20th scenario: rules 6 and 8 for the real primary chosen after a LockOnlyIfExists first call on a missing key); the directed async-recovery family (rule 4 on the resolver's side, profile full)")


def run(a):
    return run_hub(PID, a, RULE)


def replay(a):
    return replay_hub(PID, a, RULE)
