"""C12 — the mock TiKV against the reference MVCC model (DESIGN §4 C12, §3.1)."""
import json
import os
from vcheck import Check

PID = "C12"
EXE = "cgv-c12"
HARNESS = "c12"


def setup(c):
    c.cov["rule"] = ("method-level differential on mocktikv.MVCCStore: every op line is executed on the real store and on the Lean model; "
                     "property ops (audit, idem <cmd>, scaneq, late, gcprop) evaluate the C12 oracle on each side's own store. "
                     "Cases: all sequences of length 3 (quick) / 4 (thorough) over a 15-command reduced alphabet (2 transactions, 2 keys), "
                     "then seeded random sequences over the full alphabet (<= 4 keys, 2-4 transactions, pairwise distinct start/commit/for-update ts in random order); "
                     "a case = one `# case`; distinct = distinct op lines; directed family carry-over: a pessimistic primary lock accumulates ttl (heart-beats) and min-commit-ts (readers' status checks / the lock request), `ownpessprewrite` then prewrites over it asking for half the ttl and no min-commit-ts and the new lock must keep the larger of each (FAIL prewrite over own pessimistic lock lost its ttl or min-commit-ts), then a commit; directed family: commit order inverting start order on one key (an older-start pessimistic transaction commits above a newer-start one; a data record, a rollback marker or a lock-only record gets buried), followed by late / repeated recovery requests for both transactions; 70 % of the random cases end with a recovery epilogue (late commit / rollback / status / cleanup / resolve for every transaction) before the never-both audit")
    c.assumptions = ["leveldb itself is not modelled (ordered map with per-key version list)",
                     "deadlock key hash (farm fingerprint) is dropped from the comparison",
                     "preconditions of the property (distinctTS, noLockAfterFinish for pessimistic lock requests) are enforced by the generator"]


def run(a):
    c = Check(PID, a.tier, a.seed)
    setup(c)
    exe = c.build_driver(EXE)
    hbin = c.build_harness(HARNESS)
    if exe and hbin:
        r = c.run_harness(hbin)
        if r:
            ops, impl, st = r
            c.cov["input_distribution"] = st
            m = c.run_model(exe, ops)
            if m:
                c.diff(ops, impl, m, stateful=True, hbin=hbin, exe=exe, prefer_property=True, fail_first=True)
                c.cov["programs"] = sum(1 for l in open(ops) if l.startswith("# case"))
    c.prove("ClientGoVerif.Props.C12")
    return c.finish()


def replay(a):
    c = Check(PID, a.tier, a.seed)
    setup(c)
    rp = json.load(open(a.replay))
    exe = c.build_driver(EXE)
    hbin = c.build_harness(HARNESS)
    n = 0
    for p in rp["problems"]:
        if p["kind"] not in ("property", "correspondence") or not p["case"]:
            continue
        n += 1
        f = os.path.join(c.work, f"in{n}.replay")
        open(f, "w").write("# case %d\n" % n + "\n".join(p["case"]) + "\n")
        r = c.run_harness(hbin, replay=f, tag=f"rp{n}")
        if not r:
            continue
        ops, impl, _ = r
        m = c.run_model(exe, ops, tag=f"rp{n}")
        for o, i, mm in zip(open(ops).read().splitlines(), open(impl).read().splitlines(), open(m).read().splitlines()):
            print(f"{o}\n   impl : {i}\n   model: {mm}")
        c.diff(ops, impl, m, stateful=True, hbin=hbin, exe=exe, prefer_property=True, fail_first=True)
    return c.finish()
