"""C18 — batched RPC multiplexing returns each caller its own response, exactly once (DESIGN §4 C18)."""
import json
import os
import vcheck
from vcheck import Check, Problem

PID = "C18"
CONSTS = ["highTaskPriority"]


def facts(c):
    v = c.facts_consts("internal/client", CONSTS)
    if v is None:
        return False
    body = "namespace CGV.Gen\n" + "".join(f"def c18_{k} : Nat := {v[k]}\n" for k in CONSTS) + "end CGV.Gen\n"
    c.write_generated("BatchMuxConsts", body)
    return True


def setup(c):
    c.cov["rule"] = ("stateful cases of op lines; white-box ops (submit/fetch/breset/flush/flushwait/recv/kill/cancel/close/panicloop/…) are "
                     "correspondence ops: heap array, ids per built group, in-flight table, epoch and every caller's return value "
                     "of the REAL sendBatchRequest/fetchAllPendingRequests/getClientAndSend/send/batchRecvLoop/"
                     "recreateStreamingClient code against the Lean model; `audit` and `bb` are property ops (each side evaluates "
                     "exactly-once / own-response / ids strictly increasing and never reused on its own observations; `bb` = real "
                     "RPCClient over loopback gRPC against a faulty echo server); distinct = distinct op lines")
    c.assumptions = [
        "white-box: the gRPC stream is a scripted in-process ClientStream (grpc stream interceptor); batchSendLoop's own scheduling "
        "(timers, turbo batching) is replaced by explicit fetch/breset/flush ops; caller time-outs only at the submit stage",
        "black-box: goroutine interleavings inside batchSendLoop/batchRecvLoop and 'never blocks beyond its time-out' are runtime "
        "behaviour, only sampled (time-out + 20 s slack)",
        "SendRequestAsync (callback path) is not modelled",
    ]


def run(a):
    c = Check(PID, a.tier, a.seed)
    setup(c)
    if facts(c):
        exe = c.build_driver("cgv-c18")
        hbin = c.build_harness("c18")
        if exe and hbin:
            r = c.run_harness(hbin)
            if r:
                ops, impl, st = r
                c.cov["input_distribution"] = st
                m = c.run_model(exe, ops)
                if m:
                    c.diff(ops, impl, m, stateful=True, hbin=hbin, exe=exe, prefer_property=True)
                    c.cov["programs"] = 1
                    c.cov["exhaustive"] = False
        c.prove("ClientGoVerif.Props.C18")
    return c.finish()


def replay(a):
    """re-execute the failing cases of a replay file against the current tree and the model"""
    c = Check(PID, a.tier, a.seed)
    setup(c)
    rp = json.load(open(a.replay))
    cases = [p["case"] for p in rp["problems"] if p["kind"] in ("property", "correspondence") and p["case"]]
    facts(c)
    exe = c.build_driver("cgv-c18")
    hbin = c.build_harness("c18")
    if not (exe and hbin and cases):
        print("nothing to replay (no concrete input in the replay file)")
        return 0 if not c.problems else 1
    lines = []
    for i, cs in enumerate(cases):
        lines.append(f"# case {i + 1}")
        lines += cs
    f = os.path.join(c.work, "in.replay")
    open(f, "w").write("\n".join(lines) + "\n")
    r = c.run_harness(hbin, replay=f)
    if r:
        ops, impl, _ = r
        m = c.run_model(exe, ops)
        if m:
            for o, i, mm in zip(open(ops).read().splitlines(), open(impl).read().splitlines(), open(m).read().splitlines()):
                print(f"{o}\n   impl : {i}\n   model: {mm}")
            c.diff(ops, impl, m, stateful=True, hbin=hbin, exe=exe, prefer_property=True)
    return c.finish()
