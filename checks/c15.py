"""C15 — keyspace (API v2) codec: codec differential + regenerated command/field catalogue (DESIGN §4 C15)."""
import json
import os
import re
import vcheck
from vcheck import Check, Problem

PID = "C15"
CONSTS = {"RawModePrefix": "rawModePrefix", "TxnModePrefix": "txnModePrefix", "keyspacePrefixLen": "keyspacePrefixLen",
          "maxKeyspaceID": "maxKeyspaceID"}
C19_CONSTS = ["encGroupSize", "encMarker", "encPad", "signMask", "negativeTagEnd", "positiveTagStart"]
EFFECT = {"prefixed": "prefixed", "stripped": "stripped", "stripped-region": "strippedRegion", "unchanged": "unchanged",
          "error": "error", "dropped": "dropped", "other": "other", "panic": "panic", "nowrap": "other"}


def facts(c):
    v = c.facts_consts("internal/apicodec", list(CONSTS))
    w = c.facts_consts("util/codec", C19_CONSTS)
    if v is None or w is None:
        return None
    c.write_generated("ApiV2Consts", "namespace CGV.Gen\n" + "".join(f"def {CONSTS[k]} : Nat := {v[k]}\n" for k in CONSTS) + "end CGV.Gen\n")
    c.write_generated("CodecConsts", "namespace CGV.Gen\n" + "".join(f"def {k} : Nat := {w[k]}\n" for k in C19_CONSTS) + "end CGV.Gen\n")
    cmds = c.facts_raw(["constsoftype", os.path.join(vcheck.REPO, "tikvrpc"), "CmdType"])
    if cmds is None:
        return None
    path = os.path.join(c.work, "cmds.txt")
    open(path, "w").write(cmds)
    return path


def kv(tokens):
    return dict(t.split("=", 1) for t in tokens if "=" in t)


def lstr(s):
    return '"' + s.replace("\\", "\\\\").replace('"', '\\"') + '"'


def b(x):
    return "true" if x == "1" else "false"


def field_ok(side, f):
    if side == "req":
        want = {"end": ("kend",), "start": ("kstart",), "key": ("kstart", "empty")}[f["role"]]
        return f["effect"] == "prefixed" and f["intact"] == "1" and f["empty"] in want
    return f["effect"] == ("stripped" if f["fmt"] == "plain" else "stripped-region")


def cmd_ok(f):
    return (f["req"] != "-" and (f["hasctx"] == "0" or f["attach"] == "1") and (f["hasregerr"] == "0" or f["genregerr"] == "1")
            and (f["batchform"] == "0" or (f["tobatch"] == "1" and f["frombatch"] == "1")))


def catalogue(c, hbin, cmds):
    """run the harness in catalogue mode, turn its rows into Generated/CodecCatalogue.lean, report failing rows"""
    out = os.path.join(c.work, "catalogue.txt")
    r = c.run_harness(hbin, extra=["-catalogue", out, "-cmds", cmds], tag="cat")
    if r is None or not os.path.exists(out):
        c.problems.append(Problem("tie", "catalogue mode produced no table", ["-catalogue"]))
        return False
    known = vcheck.load_known(PID)
    lines = open(out).read().splitlines()
    cmd_rows, field_rows, per_cmd, failing, info = [], {}, [], [], {"aliases": [], "batch_oneof_without_cmd": [], "non_key_bytes_fields": []}
    for l in lines:
        w = l.split()
        if not w:
            continue
        if w[0] == "rule":
            info["rule"] = l[5:]
        elif w[0] == "alias":
            info["aliases"].append(w[1])
        elif w[0] == "batch-oneof-without-cmd":
            info["batch_oneof_without_cmd"].append(w[1] + ":" + w[2])
        elif w[0] == "nonkey":
            info["non_key_bytes_fields"].append(w[1])
        elif w[0] == "cmd":
            f = kv(w[3:])
            ok = cmd_ok(f)
            p = Problem("property", "catalogue: command row violates the rule (context attach / region-error response / batch conversion)", [l], l)
            kn = (not ok) and vcheck.match_known(p, known) is not None
            if not ok:
                failing.append(l)
                c.problems.append(p)
            cmd_rows.append(f"  ⟨{lstr(w[1])}, {w[2]}, {lstr(f['req'])}, {lstr(f['resp'])}, {b('0' if f['req'] == '-' else '1')}, {b(f['stream'])}, "
                            f"{b(f['hasctx'])}, {b(f['attach'])}, {b(f['hasregerr'])}, {b(f['genregerr'])}, {b(f['batchform'])}, "
                            f"{b(f['tobatch'])}, {b(f['frombatch'])}, {b('1' if kn else '0')}⟩")
            per_cmd.append({"cmd": w[1], "value": int(w[2]), "req": f["req"], "resp": f["resp"], "via": f["via"], "rpc": f["method"],
                            "reason": f["reason"], "ok": ok})
        elif w[0] == "field":
            f = kv(w[4:])
            ok = field_ok(w[2], f)
            p = Problem("property", "catalogue: key-bearing field is not " + ("prefixed by EncodeRequest" if w[2] == "req" else "stripped by DecodeResponse"), [l], l)
            kn = (not ok) and vcheck.match_known(p, known) is not None
            if not ok:
                failing.append(l)
                c.problems.append(p)
            field_rows.setdefault(w[1], []).append(
                f"  ⟨{lstr(w[1])}, .{w[2]}, {lstr(w[3])}, {b(f['multi'])}, .{f['fmt']}, .{EFFECT.get(f['effect'], 'other')}, {b(f['intact'])}, "
                f".{'end_' if f['role'] == 'end' else f['role']}, .{f['empty'] if f['empty'] in ('na', 'kend', 'kstart', 'empty') else 'other'}, "
                f"{b('1' if kn else '0')}⟩")
    if not cmd_rows:
        c.problems.append(Problem("tie", "catalogue has no command rows", ["-catalogue"]))
        return False
    body = ["import ClientGoVerif.Model.ApiV2Catalogue", "namespace CGV.Gen", "open CGV.ApiV2.Cat", "",
            "def cmdRows : List CmdRow := [", ",\n".join(cmd_rows), "]", ""]
    names = []
    for cmd, rows in field_rows.items():
        names.append("fieldRows_" + cmd)
        body += [f"def fieldRows_{cmd} : List FieldRow := [", ",\n".join(rows), "]", ""]
    body += ["def fieldRows : List FieldRow :=", "  " + (" ++ ".join(names) if names else "[]"), "", "end CGV.Gen", ""]
    c.write_generated("CodecCatalogue", "\n".join(body))
    nf = sum(len(v) for v in field_rows.values())
    c.cov["catalogue"] = {"commands": len(cmd_rows), "field_rows": nf, "rows_violating_rule": failing, "per_command": per_cmd, **info}
    c.cov["evaluations"] += len(cmd_rows) + nf
    c.cov["programs"] += 1
    return True


def run(a):
    c = Check(PID, a.tier, a.seed)
    c.cov["rule"] = ("(1) op lines on internal/apicodec codec v2 vs the Lean model: bounds/enckey/deckey/encrange(reverse)/decrange/"
                     "encregkey/decregkey/encregrange/decregrange/buckets (DecodeBucketKeys)/regerr (EpochNotMatch list through DecodeResponse)/reqrange (EncodeRequest on every "
                     "command with a start_key/end_key pair) are correspondence ops; rt/rtrange/ord/inrange/disj/clip are property ops whose verdict each "
                     "side computes on its own functions; all boundary ids (00/FF patterns, 0, 0xFFFFFF) x both modes x fixed keys, then seeded random keys "
                     "(empty, 00/FF runs, mode bytes, keys around prefix and prefix+1); (2) the catalogue: one row per tikvrpc.CmdType (from go/types over the "
                     "const blocks) and per key-bearing field (rule in coverage.catalogue.rule), flags observed by running the real code; "
                     "(3) end-to-end: the same raw and txn workload on mocktikv under codec v1, v2 keyspace A, v2 keyspace B sharing one store")
    c.assumptions = ["Uint32(prefix)+1 is modelled arithmetically (mod 2^32); tied by the `bounds` ops over all boundary ids",
                     "clip property ops are generated with a region start that is empty or at least keyspacePrefixLen bytes long (hypothesis of decode_range_clips); "
                     "shorter starts are only compared against the model (decrange)",
                     "which fields are key-bearing is decided by the printed name/type rule; the catalogue probes one field at a time with every "
                     "top-level singular sub-message allocated",
                     "the field walker (Model/ApiV2Fields.lean) extends a row's observed marker behaviour (prefixed / stripped / what an empty key becomes) to all keys: "
                     "the catalogue_* theorems hold for the real code only as far as each per-field arm is the uniform EncodeKey / encodeRange / DecodeKey / DecodeRegionRange call the probes suggest",
                     "mocktikv is the store of the end-to-end run (no real TiKV API-v2 behaviour)"]
    cmds = facts(c)
    if cmds:
        hbin = c.build_harness("c15")
        if hbin:
            catalogue(c, hbin, cmds)
            exe = c.build_driver("cgv-c15")
            if exe:
                r = c.run_harness(hbin, extra=["-cmds", cmds])
                if r:
                    ops, impl, st = r
                    c.cov["input_distribution"] = st
                    m = c.run_model(exe, ops)
                    if m:
                        c.diff(ops, impl, m)
                        c.cov["programs"] += 1
                        c.cov["exhaustive"] = False
            e2e(c, hbin)
        c.prove("ClientGoVerif.Props.C15")
    return c.finish()


def e2e(c, hbin):
    r = c.run_harness(hbin, extra=["-e2e"], tag="e2e")
    if not r:
        return
    ops, impl, st = r
    lines = open(impl).read().splitlines()
    olines = open(ops).read().splitlines()
    c.cov["e2e"] = {"lines": len(lines), **{k: v for k, v in st.items()}}
    c.cov["evaluations"] += len(lines)
    for o, i in zip(olines, lines):
        if i.startswith("FAIL") or i.startswith("panic"):
            c.problems.append(Problem("property", "end-to-end keyspace workload", [o], i))
    if lines:
        c.cov["programs"] += 1


def replay(a):
    """re-execute the failing inputs of a replay file against the current tree and the model; catalogue rows are re-derived"""
    c = Check(PID, a.tier, a.seed)
    rp = json.load(open(a.replay))
    lines = [l for p in rp["problems"] for l in p["case"] if p["kind"] in ("property", "correspondence")]
    oplines = [l for l in lines if not re.match(r"^(cmd|field|e2e) ", l)]
    rowlines = [l for l in lines if re.match(r"^(cmd|field) ", l)]
    cmds = facts(c)
    hbin = c.build_harness("c15") if cmds else None
    exe = c.build_driver("cgv-c15") if cmds else None
    if not (exe and hbin):
        return c.finish()
    if rowlines:
        saved = c.problems
        c.problems = []
        catalogue(c, hbin, cmds)
        now = set(l for p in c.problems for l in p.case)
        for l in rowlines:
            key = " ".join(l.split()[:4] if l.startswith("field") else l.split()[:2])
            cur = [x for x in now if x.startswith(key + " ")]
            print(f"{l}\n   now: {'STILL VIOLATING: ' + cur[0] if cur else 'row satisfies the rule (or is gone)'}")
        c.problems = saved + c.problems
    if any(l.startswith("e2e ") for l in lines):
        e2e(c, hbin)
    if oplines:
        f = os.path.join(c.work, "in.replay")
        open(f, "w").write("\n".join(oplines) + "\n")
        r = c.run_harness(hbin, extra=["-cmds", cmds], replay=f)
        if r:
            ops, impl, _ = r
            m = c.run_model(exe, ops)
            for o, i, mm in zip(open(ops).read().splitlines(), open(impl).read().splitlines(), open(m).read().splitlines()):
                print(f"{o}\n   impl : {i}\n   model: {mm}")
            c.diff(ops, impl, m)
    return c.finish()
