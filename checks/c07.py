"""C07 — read-your-writes, merge iteration, savepoints (DESIGN §4 C07)."""
import hashlib
import json
import os
import vcheck
from vcheck import Check, Problem

PID = "C07"
EXE = "cgv-c07"
HARNESS = "c07"

# the functions the model mirrors branch by branch; the fingerprint (sha256 of the normalised source, first 16 hex
# digits) the model was written against is recorded so that the evidence says when the source has moved since.
MODELLED = [
    ("internal/unionstore/union_iter.go", "NewUnionIter"),
    ("internal/unionstore/union_iter.go", "updateCur"),
    ("internal/unionstore/union_iter.go", "Next"),
    ("internal/unionstore/union_store.go", "Get"),
    ("internal/unionstore/union_store.go", "Iter"),
    ("internal/unionstore/union_store.go", "IterReverse"),
    ("txnkv/transaction/batch_getter.go", "BatchGet"),
]
PINNED = {}


class C07Check(Check):
    """line-level ddmin (vcheck) followed by token-level minimisation of the key lists of bget / pbget lines"""

    def shrink(self, case_ops, hbin, exe, exe_args, budget=150, only_prop=False, want_prop=False):
        cur = super().shrink(case_ops, hbin, exe, exe_args, budget)
        if not self._fails(cur, hbin, exe, exe_args):
            return cur
        runs = 0
        for i in range(len(cur)):
            w = cur[i].split()
            if w[0] not in ("bget", "pbget"):
                continue
            j = 1
            while j < len(w) and len(w) > 2 and runs < 60:
                cand = w[:j] + w[j + 1:]
                runs += 1
                if self._fails(cur[:i] + [" ".join(cand)] + cur[i + 1:], hbin, exe, exe_args):
                    w = cand
                else:
                    j += 1
            cur[i] = " ".join(w)
        return cur


def facts(c):
    """no constants to regenerate for C07; the modelled functions must still exist, and their fingerprints go
    into the evidence"""
    fp = {}
    ok = True
    for path, fn in MODELLED:
        out = c.facts_raw(["funcsrc", os.path.join(vcheck.REPO, path), fn])
        if out is None:
            ok = False
            continue
        fp[f"{path}:{fn}"] = hashlib.sha256(out.encode()).hexdigest()[:16]
    c.cov["modelled_functions"] = fp
    moved = sorted(k for k, v in fp.items() if PINNED.get(k) and PINNED[k] != v)
    c.cov["source_moved_since_model_was_written"] = moved
    return ok


PINNED.update({
    "internal/unionstore/union_iter.go:NewUnionIter": "c8de36564dabe12b",
    "internal/unionstore/union_iter.go:updateCur": "c9bfc421933de009",
    "internal/unionstore/union_iter.go:Next": "ac00cddfceec9998",
    "internal/unionstore/union_store.go:Get": "f5b45acff35b966c",
    "internal/unionstore/union_store.go:Iter": "08a97dc1a9233908",
    "internal/unionstore/union_store.go:IterReverse": "9bb9388980cf2662",
    # BatchGet: the model is written for the REPAIRED loop (see batchGet / batchGetAsIs); this is the fingerprint of the loop as found
    "txnkv/transaction/batch_getter.go:BatchGet": "6be51834164c2631",
})


def setup(c):
    c.cov["rule"] = (
        "stateful cases (`# case n <mode>` + `reset <mode>`), mode in {us-art, us-rbt: real KVUnionStore over the ART / RBT "
        "buffer and a fake sorted snapshot; txn: real KVTxn (ART) over a KVSnapshot of a single-region mocktikv store that "
        "was loaded by a committed transaction}; `sput` lines give the snapshot content, then a random mix of "
        "set/del/get/bget/iter/iterrev/staging/release/cleanup/cp/revert (correspondence: raw answers compared with the model) "
        "and pview/pbget/prelease/pcleanup/prevert (property oracle evaluated on each side's OWN answers: iteration strictly "
        "ordered, inside bounds, reverse = reversed forward, equal to pointwise Get over every key seen so far and to BatchGet; "
        "BatchGet = pointwise Get incl. duplicated keys; view after cleanup/revert = the view recorded at staging/cp, view after "
        "release = view before). Key pools: prefix-related keys, empty key, 00/FF bytes, keys that are prefixes of others, shared "
        "prefixes longer than 20 bytes; bounds nil / empty / on and off existing keys / inverted. distinct = distinct op lines")
    c.assumptions = [
        "the write buffer is abstract in the model (sorted map + saved copies): ART/RBT internals are C08's; they are tied here only through the differential",
        "snapshot values are non-empty (KVSnapshot never returns empty values); snapshot read errors (RPC failures, locks) are not modelled",
        "RevertToCheckpoint is exercised only for checkpoints taken since the last staging/release/cleanup, and never after a same-length "
        "overwrite of a buffered value made after the checkpoint (DESIGN §6 S10, owned by C08): the generator changes the value length or retires the checkpoint, and counts both",
        "us-rbt: an empty NON-nil forward upper bound is replaced by nil (the RBT iterator treats []byte{} as 'below every key', ART and the snapshots as unbounded; RBT is not reachable from KVTxn; reported to C08)",
        "txn mode uses one region (multi-region reverse scans are C05/C09's, DESIGN §6 S9)",
        "model of BufferBatchGetter.BatchGet = behaviour the property demands (shrink list computed against the complete buffer answer); the loop as it stands is kept as batchGetAsIs with a proved counterexample",
    ]


def run(a):
    c = C07Check(PID, a.tier, a.seed)
    setup(c)
    if facts(c):
        exe = c.build_driver(EXE)
        hbin = c.build_harness(HARNESS)
        if exe and hbin:
            r = c.run_harness(hbin)
            if r:
                ops, impl, st = r
                c.cov["input_distribution"] = st
                m = c.run_model(exe, ops)
                if m:
                    c.diff(ops, impl, m, stateful=True, hbin=hbin, exe=exe)
                    c.cov["programs"] = sum(v for k, v in st.items() if k.startswith("mode:"))
                    c.cov["exhaustive"] = False
        c.prove("ClientGoVerif.Props.C07")
    return c.finish()


def replay(a):
    """re-execute every failing case of a replay file (each from a fresh state) against the current tree and the model"""
    c = C07Check(PID, a.tier, a.seed)
    setup(c)
    rp = json.load(open(a.replay))
    cases = [p["case"] for p in rp["problems"] if p["kind"] in ("property", "correspondence") and p["case"]]
    facts(c)
    exe = c.build_driver(EXE)
    hbin = c.build_harness(HARNESS)
    if not (exe and hbin and cases):
        print("nothing to replay (no concrete input in the replay file)")
        return 0 if not c.problems else 1
    for n, lines in enumerate(cases):
        f = os.path.join(c.work, f"in{n}.replay")
        body = [l for l in lines if not l.startswith("#")]
        open(f, "w").write(f"# case {n} replay\n" + "\n".join(body) + "\n")
        r = c.run_harness(hbin, replay=f, tag=f"replay{n}")
        if not r:
            continue
        ops, impl, _ = r
        m = c.run_model(exe, ops, tag=f"replay{n}")
        if not m:
            continue
        for o, i, mm in zip(open(ops).read().splitlines(), open(impl).read().splitlines(), open(m).read().splitlines()):
            print(f"{o}\n   impl : {i}\n   model: {mm}")
        c.diff(ops, impl, m, stateful=True, hbin=hbin, exe=exe)
    return c.finish()
