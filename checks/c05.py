"""C05 — snapshot reads identical across access paths (DESIGN §4 C05); trace grammar and division of labour: HUB.md."""
from checks.hub_common import run_hub, replay_hub

PID = "C05"
RULE = ("histories with leftover locks of every kind (pending, committed primary with unresolved secondaries, rolled-back primary with secondaries left, pessimistic, from transactions later than the snapshot) are built by driving transactions and killing their clients at chosen RPCs; one snapshot timestamp is then read through Get / BatchGet (both implementations) / Iter / IterReverse with cold and warm cache, scan batch sizes 2..6, key-only on/off, bounded and unbounded ranges, a split between two requests; every call and its result is an api event; repin family: one long-lived snapshot object moved with SetSnapshotTS backwards / forwards / to the same ts between reads through all four access paths over keys created, overwritten or deleted between the timestamps; merge family: regions merged between calls and just before the n-th scan request (batch size 2..6, both directions); every snap* call is compared with the model store at the snapshot ts in force; prefix key pool (keys that are proper prefixes of their successors) in half of the merge scenarios; one BatchGet of more than 5120 keys (one region / two regions) per run compared with a scan at the same ts; round 3: committed-primary family (secondaries' locks of a transaction whose primary is committed below / above the snapshot ts, met through every access path); the oracle reads through a lock whose primary is committed at or below the snapshot ts (`visibleL` / `snapRangeL`); round 4: in half of the committed-primary scenarios the gate hands the reader's BatchGet answers over in their other legal form (per-pair lock error lifted to the response-level Error, no pairs; `# lifted <id>`), with the async batch get (two regions) as first contact with the locks in a quarter")


def run(a):
    return run_hub(PID, a, RULE)


def replay(a):
    return replay_hub(PID, a, RULE)
