"""C10 — request send: bounded retries, flag discipline (DESIGN §4 C10)."""
import json
import os
import re
import vcheck
from vcheck import Check, Problem

PID = "C10"
EXE = "cgv-c10"
HARNESS = "c10"
SENDER_FILES = ["internal/locate/region_request.go", "internal/locate/replica_selector.go",
                "internal/locate/region_cache.go", "internal/locate/store_cache.go"]


def facts(c):
    """Generated/RetryConsts.lean: maxReplicaAttempt, the back-off configs the sender code refers to (name, base, cap,
    jitter), the jitter constants and the excluded-sleep table. A missing piece is a 'tie' problem."""
    v = c.facts_consts("internal/locate", ["maxReplicaAttempt"])
    j = c.facts_consts("config/retry", ["NoJitter", "FullJitter", "EqualJitter", "DecorrJitter"])
    calls = c.facts_raw(["calls", os.path.join(vcheck.REPO, "config/retry/config.go"), "NewConfig"])
    excl = c.facts_raw(["varsrc", os.path.join(vcheck.REPO, "config/retry/config.go"), "isSleepExcluded"])
    if v is None or j is None or calls is None or excl is None:
        return False
    consts = {}
    for line in open(os.path.join(vcheck.REPO, "config/retry/config.go")).read().splitlines():
        m = re.match(r'\s*const\s+(\w+)\s*=\s*"([^"]*)"', line)
        if m:
            consts[m.group(1)] = m.group(2)
    table = {}
    for line in calls.splitlines():
        f = line.split("\t")
        if len(f) < 4:
            continue
        var, name, fn = f[0], f[1], f[3]
        name = name.strip('"') if name.startswith('"') else consts.get(name)
        m = re.match(r"NewBackoffFnCfg\((\d+), (\d+), (\w+)\)", fn)
        if name is None or not m or m.group(3) not in j:
            c.problems.append(Problem("tie", "facts extractor: cannot read back-off config row", [line]))
            return False
        table[var] = (name, int(m.group(1)), int(m.group(2)), int(j[m.group(3)]))
    used = []
    for rel in SENDER_FILES:
        try:
            src = open(os.path.join(vcheck.REPO, rel)).read()
        except OSError as e:
            c.problems.append(Problem("tie", "facts extractor: sender source file missing", [rel], str(e)))
            return False
        for m in re.finditer(r"\bretry\.(Bo[A-Za-z0-9_]+)\b", src):
            if m.group(1) in table and m.group(1) not in used:
                used.append(m.group(1))
    if not used:
        c.problems.append(Problem("tie", "facts extractor: no back-off config referenced by the sender files", SENDER_FILES))
        return False
    used.sort()
    excluded = []
    for m in re.finditer(r"(\w+)\.name: (\d+)", excl):
        if m.group(1) not in table:
            c.problems.append(Problem("tie", "facts extractor: excluded-sleep entry of unknown config", [m.group(0)]))
            return False
        excluded.append((table[m.group(1)][0], int(m.group(2))))
    if "map[string]int" not in excl:
        c.problems.append(Problem("tie", "facts extractor: isSleepExcluded is no longer a map[string]int literal", [excl]))
        return False
    body = "namespace CGV.Gen\n"
    body += f"def maxReplicaAttempt : Nat := {v['maxReplicaAttempt']}\n"
    for k in ["NoJitter", "FullJitter", "EqualJitter", "DecorrJitter"]:
        body += f"def jitter{k[:-6]} : Nat := {j[k]}\n"
    body += "/-- (name, base, cap, jitter) of every retry.BoXxx config referenced by internal/locate's sender files -/\n"
    body += "def senderBackoffs : List (String × Nat × Nat × Nat) := [\n"
    body += ",\n".join(f'  ("{table[u][0]}", {table[u][1]}, {table[u][2]}, {table[u][3]})' for u in used) + "]\n"
    body += "/-- config/retry/config.go isSleepExcluded: (name, max excluded sleep in ms) -/\n"
    body += "def sleepExcluded : List (String × Nat) := [" + ", ".join(f'("{n}", {l})' for n, l in excluded) + "]\n"
    body += "end CGV.Gen\n"
    c.write_generated("RetryConsts", body)
    # selector: score bit layout, read types, probe threshold
    sc = c.facts_consts("internal/locate", ["flagNotAttempted", "flagNormalPeer", "flagPreferLeader", "flagLabelMatches", "flagNotSlow",
                                            "leaderBusyProbeThreshold"])
    rt = c.facts_consts("kv", ["ReplicaReadLeader", "ReplicaReadFollower", "ReplicaReadMixed", "ReplicaReadLearner",
                               "ReplicaReadPreferLeader"])
    if sc is None or rt is None:
        return False
    b2 = "namespace CGV.Gen\n-- internal/locate/replica_selector.go: storeSelectionScore bits, probe threshold; kv.ReplicaReadType values\n"
    b2 += "".join(f"def {k} : Nat := {sc[k]}\n" for k in sc)
    b2 += "".join(f"def {k[0].lower() + k[1:]} : Nat := {rt[k]}\n" for k in rt)
    b2 += "end CGV.Gen\n"
    c.write_generated("SelectorConsts", b2)
    # read-ts validation: the command enumeration and the table of Request.GetStartTS (which field of which request it reads)
    tc = c.facts_raw(["typedconsts", os.path.join(vcheck.REPO, "tikvrpc"), "CmdType"])
    cb = c.facts_raw(["casebodies", os.path.join(vcheck.REPO, "tikvrpc/tikvrpc.go"), "GetStartTS"])
    if tc is None or cb is None:
        return False
    cmds = sorted(((l.split()[0], int(l.split()[1])) for l in tc.splitlines() if l.strip()), key=lambda x: (x[1], x[0]))
    rows = []
    for l in cb.splitlines():
        labels, _, body = l.partition("\t")
        if labels == "default":
            continue
        m = re.match(r"return req\.(\w+)\(\)\.(\w+)\(\)$", body.strip())
        if not m:
            c.problems.append(Problem("tie", "facts extractor: Request.GetStartTS case is not `return req.X().GetY()`", [l]))
            return False
        for lab in labels.split(","):
            rows.append((lab.strip(), m.group(1), m.group(2)))
    b3 = "namespace CGV.Gen\n/-- every constant of type tikvrpc.CmdType (name, value) -/\n"
    b3 += "def cmdTypes : List (String × Nat) := [\n" + ",\n".join(f'  ("{n}", {v})' for n, v in cmds) + "]\n"
    b3 += "/-- tikvrpc.Request.GetStartTS: (command, request accessor, getter of the timestamp field) -/\n"
    b3 += "def startTsTable : List (String × String × String) := [\n" + ",\n".join(f'  ("{a}", "{b}", "{g}")' for a, b, g in rows) + "]\n"
    b3 += "end CGV.Gen\n"
    c.write_generated("ValidateConsts", b3)
    return True


INPUT_OPS = ("reset", "cfg ", "f ", "go ")


def is_input(op):
    return op == "reset" or op.startswith(INPUT_OPS[1:]) or op.startswith("chk-validate ") or op.startswith("valcmds")


def triage(c, ops_file, impl_file, model_file, hbin, exe, max_per_sig=2, max_total=14):
    """stateful triage, streaming (the thorough streams have >10M lines): counts coverage, groups failing cases by
    (what fails, the forever-repeated answer, command) and shrinks/classifies the shortest cases of every group, so that a
    frequent known finding cannot hide a different violation"""
    groups = {}
    cov = c.cov
    n_lines = n_cases = n_bad = n_fail = 0
    distinct_cases = set()
    cur_inputs, cur_bad = [], []

    def close_case():
        nonlocal cur_inputs, cur_bad
        if cur_inputs:
            distinct_cases.add(hash(tuple(cur_inputs)))
        if cur_bad:
            tail = next((o for o in cur_inputs if o.startswith("go ")), "go ?")
            cfg = next((o.split() for o in cur_inputs if o.startswith("cfg ")), None)
            kinds = []
            for (o, i, m) in cur_bad:
                if i.startswith("FAIL") or i.startswith("panic"):
                    k = o + ":" + " ".join(i.split()[:2])
                else:
                    k = o.split()[0] + ":model " + " ".join(m.split()[:2])
                if k not in kinds:
                    kinds.append(k)
            sig = (tuple(kinds[:3]), tail, cfg[1] if cfg else "?")
            g = groups.setdefault(sig, [])
            if len(g) < 50 or len(cur_inputs) < max(len(x[0]) for x in g):
                g.append((cur_inputs, [f"{o} | impl: {i} | model: {m}" for (o, i, m) in cur_bad[:3]]))
        cur_inputs, cur_bad = [], []

    with open(ops_file) as fo, open(impl_file) as fi, open(model_file) as fm:
        for o, i, m in zip(fo, fi, fm):
            o, i, m = o.rstrip("\n"), i.rstrip("\n"), m.rstrip("\n")
            if o.startswith("# case"):
                close_case()
                n_cases += 1
                continue
            if o.startswith("#"):
                continue
            n_lines += 1
            if is_input(o):
                cur_inputs.append(o)
            if len(cov["samples"]) < 6 and n_lines % 200003 == 7:
                cov["samples"].append({"op": o, "impl": i, "model": m})
            bad = i != m
            fail = i.startswith("FAIL") or i.startswith("panic")
            n_bad += bad
            n_fail += fail
            if (bad or fail) and len(cur_bad) < 40:
                cur_bad.append((o, i, m))
        close_case()
    for f in (impl_file, model_file):
        pass
    if sum(1 for _ in open(ops_file)) != sum(1 for _ in open(model_file)) or sum(1 for _ in open(ops_file)) != sum(1 for _ in open(impl_file)):
        c.problems.append(Problem("tie", "stream lengths differ"))
    cov["evaluations"] += n_lines
    cov["traces_validated_against_impl"] += n_cases
    cov["distinct_nontrivial"] += len(distinct_cases)
    cov["disagreements_checked"] += n_bad
    cov["property_op_failures"] = cov.get("property_op_failures", 0) + n_fail
    cov["failing_case_groups"] = len(groups)
    cov["failing_cases_note"] = ("disagreements_checked counts op LINES; all lines of a case that runs into the known finding "
                                 "(endless NotLeader hint cycle) disagree from the first refused refill on; distinct_nontrivial = "
                                 "distinct input cases")
    cov.setdefault("nonreproducible_disagreements", [])
    # distinct failure kinds first, then the rest
    order = sorted(groups.items(), key=lambda kv: (min(len(x[0]) for x in kv[1]), str(kv[0])))
    seen_kind = set()
    first, rest = [], []
    for sig, cases in order:
        (first if sig[0] not in seen_kind else rest).append((sig, cases))
        seen_kind.add(sig[0])
    total = 0
    for sig, cases in first + rest:
        for case_ops, first_bad in sorted(cases, key=lambda x: len(x[0]))[:max_per_sig]:
            if total >= max_total:
                return
            total += 1
            # a disagreement that three fresh executions of the very same case do not show again has no replayable input:
            # it is recorded in the evidence (with the lines that differed), not reported as a violation
            if not any(c._fails(case_ops, hbin, exe, None) for _ in range(3)):
                cov["nonreproducible_disagreements"].append({"case": case_ops, "lines": first_bad})
                continue
            shrunk = c.shrink(case_ops, hbin, exe, None, budget=60)
            isprop, det = c.classify_case(shrunk, hbin, exe, None)
            c.problems.append(Problem("property" if isprop else "correspondence",
                                      "property oracle fails on the implementation" if isprop else
                                      "the model rejects what the implementation did",
                                      shrunk, det + " || first seen: " + " ;; ".join(first_bad[:2])))


RULE = ("validation family: `valcmds` (the binary's CmdType enumeration must equal the regenerated one and every command needs a request "
        "builder) and one `chk-validate <cmd> <pkg> <ts-like fields> <ts class> <validate> <stale>` case for EVERY command type x "
        "{valid, ahead of PD, MaxInt64, MaxUint64-1, MaxUint64} x validation on/off x plain/stale: the real sender with a recording "
        "client and the real pdOracle must answer refused/passed as the Lean spec (shape-based `mustValidate`) says, FAIL "
        "sent-with-invalid-ts when the client saw a timestamped read whose ts the oracle refuses. Retry family: per case: `reset`, `cfg` (command, read mode, back-off budget, forwarding, label, liveness, slowness, ts validation, seed, "
        "learner, timeout class, busy threshold, caller flags, sync/async entry), `f <fault>` script lines, `go <tail>` (the stores answer "
        "<tail> forever after the script) run the REAL RegionRequestSender over a 3-store mocktikv cluster with a scripted client and "
        "virtualised sleeping; derived lines: `ev send|bump|backoff|result` (observed loop events; the Lean model must accept each one "
        "and its rank must decrease), `selinit|sel|selend` (forwarding off: the real replica selector's state right after every choice - "
        "target, per-replica attempts/flag bits, cached leader, read type, request flags, region validity - plus what it reads from the "
        "store cache; the Lean selector model must have the target in its choice set and predict flags and state exactly, then applies "
        "the answer's handler) and `prop bounded|genuine|backoffdiscipline|readflags|candidate|writeflags|retrymarked|tsvalid` (property oracle on each side's own "
        "observations). Scripts: exhaustive over a reduced alphabet to length 3 (quick: 2, plus a 9-letter core to 3) / 3 plus core to 5 "
        "(thorough) for 6 read modes x {get, prewrite}, then seeded random scripts to length 30 over the full alphabet with random "
        "configurations; every answer of the full 40-letter alphabet (all field/content-dependent branches of onRegionError/onSendFail: "
        "ServerIsBusy reason 'deadline is exceeded', Flashback*, RaftEntryTooLarge, invalid max_ts, KeyNotInRegion, Bucket, Mismatch, "
        "RegionNotInitialized, ReadIndexNotReady, ProposalInMergingMode, RecoveryInProgress, IsWitness, Undetermined, client/grpc cancel "
        "and deadline) as forever answer x (mode, cmd) x short/long time-out, and every ordered pair of answers. "
        "traces_validated = cases; distinct = distinct op lines")

ASSUMPTIONS = [
    "the replica selector (candidates, score, fallbacks, flags, handlers' effect on selector state) IS modelled (Model/Selector.lean) for "
    "forwarding OFF; with forwarding on (proxy selection, ReplicaSelectLeaderWithProxyStrategy) only the accounting model is tied",
    "what the selector READS from the store cache (liveness, slowness, store-epoch staleness, label match, learner role, estimated wait "
    "over threshold) is an input refreshed from the implementation before every choice: health feedback, slow-score arithmetic, "
    "liveness probing and store re-resolution are not modelled; equal-score random choice is modelled as a choice set",
    "the theorems are about the accounting model; that the real retry loop's event sequences are accepted by the model is checked on the "
    "explored scripts only (exhaustive-small + sampled), not proved",
    "leader hints: the first #replicas redirects of a call are free, every further one owes a regionScheduling back-off "
    "(replicaSelector.leaderHintRedirects, repaired hint cycle); the termination theorem has no hint-cycle exclusion",
    "sleeping is virtualised by the failpoint fastBackoffBySkipSleep; RPCs take no wall time, so maxReplicaAttemptTime never triggers",
    "write requests enter SendReqCtx with StaleRead=false (no client-go call site flags a write as stale read); ReplicaRead may be pre-set "
    "as tikvrpc.NewReplicaReadRequest does",
    "3 TiKV stores, 1 region, no TiFlash / TiDB endpoints; store liveness changes only through the script (`down`)",
]


def run(a):
    c = Check(PID, a.tier, a.seed)
    c.cov["rule"] = RULE
    c.assumptions = list(ASSUMPTIONS)
    if facts(c):
        exe = c.build_driver(EXE)
        hbin = c.build_harness(HARNESS)
        if exe and hbin:
            r = c.run_harness(hbin)
            if r:
                ops, impl, st = r
                c.cov["input_distribution"] = st
                m = c.run_model(exe, ops)
                if m:
                    triage(c, ops, impl, m, hbin, exe)
                    c.cov["programs"] = 1
                    c.cov["exhaustive"] = False
        c.prove("ClientGoVerif.Props.C10")
    return c.finish()


def replay(a):
    """re-execute the failing inputs of a replay file against the current tree and the model"""
    c = Check(PID, a.tier, a.seed)
    rp = json.load(open(a.replay))
    cases = [p["case"] for p in rp["problems"] if p["kind"] in ("property", "correspondence") and p["case"]]
    facts(c)
    exe = c.build_driver(EXE)
    hbin = c.build_harness(HARNESS)
    if not (exe and hbin and cases):
        print("nothing to replay (no concrete input in the replay file)")
        return 0 if not c.problems else 1
    f = os.path.join(c.work, "in.replay")
    with open(f, "w") as out:
        for i, case in enumerate(cases):
            out.write(f"# case {i + 1}\nreset\n")
            out.write("\n".join(l for l in case if is_input(l) and l != "reset") + "\n")
    ops, impl, _ = c.run_harness(hbin, replay=f)
    m = c.run_model(exe, ops)
    for o, i, mm in zip(open(ops).read().splitlines(), open(impl).read().splitlines(), open(m).read().splitlines()):
        if i != mm or i.startswith("FAIL") or o.startswith("#") or is_input(o) or o.startswith("prop") or o.startswith("ev result"):
            print(f"{o}\n   impl : {i}\n   model: {mm}")
    triage(c, ops, impl, m, hbin, exe)
    return c.finish()
