"""C02 — client crash anywhere in commit (DESIGN §4 C02); trace grammar and division of labour: HUB.md."""
from checks.hub_common import run_hub, replay_hub

PID = "C02"
RULE = ("seeded sample of transaction shapes (1–4 keys × 1–3 regions × primary position × {put,delete,insert,lock-only} × {opt,pess} × {2pc,async,1pc}); a fault-free probe run counts the RPCs of the final call; then for every RPC index i × {undelivered, delivered-unanswered} the client is killed there (thorough: plus a concurrent reader / conflicting writer / split at that instant); the clock then passes every TTL, a fresh client reads all keys (get / batch get / scan) and a GC pass or a pessimistic locker pass removes the rest; `audit mvcc/locks/outcome` go to the judge; next to every plain crash point the same crash point with a region split at that instant (thorough: every shape; quick: every fourth); PRE-HISTORY family (c02hist.go): failed multi-region or single-key LockKeys statements before the Commit, asynchronous pessimistic rollback delivered or lost, a changed primary, a client that met the stale locks earlier, crash variants at the commit point, recovery by that warm client or by a fresh one; cancel of the caller's context at the crash index (every fourth shape); directed async-recovery family (profile full: a secondary region starved of its prewrite, recovery after the ttl, both arrival orders of the CheckSecondaryLocks answers); slow-owner family (owner held before the primary commit, a foreign client meets a secondary around the ttl instant, clock step between execution and delivery of its status check); shape kind insdel (insert then delete: check-only mutation); round 3: commit mode `both` (one-phase + async enabled), aged shapes (transaction seconds or more than 24 h old at Commit, widened async safe window), gc-merge family (regions merge / split under a GC pass) with the oracle `a gc call that answers ok leaves no lock with start ts ≤ its safe point`")


def run(a):
    return run_hub(PID, a, RULE)


def replay(a):
    return replay_hub(PID, a, RULE)
