"""C19 — memcomparable key and number encodings (DESIGN §4 C19)."""
import json
import os
import vcheck
from vcheck import Check, Problem

PID = "C19"
CONSTS = ["encGroupSize", "encMarker", "encPad", "signMask", "negativeTagEnd", "positiveTagStart"]


def facts(c):
    v = c.facts_consts("util/codec", CONSTS)
    if v is None:
        return False
    body = "namespace CGV.Gen\n" + "".join(f"def {k} : Nat := {v[k]}\n" for k in CONSTS) + "end CGV.Gen\n"
    c.write_generated("CodecConsts", body)
    return True


def run(a):
    c = Check(PID, a.tier, a.seed)
    c.cov["rule"] = ("op lines: enc/dec (correspondence), rt/ord/pfx/snd (property oracle evaluated on each side's own functions), apd (append contract on the implementation: every rt case is also encoded into a recycled destination buffer with a content prefix, spare capacity and stale fill bytes); "
                     "exhaustive byte strings over {00,01,7F,80,FE,FF} up to length 4 (quick) / 6 (thorough), integers around sign/byte/varint "
                     "boundaries, seeded random, and a malformed stream (truncated, bad marker/padding/tag, over-long varint); "
                     "distinct = distinct op lines")
    c.assumptions = ["bit operations of number.go are modelled by their arithmetic meaning on Nat/Int; tied by the differential",
                     "fastReverseBytes (unsafe word loop) only reached through decodeBytes(reverse)"]
    if facts(c):
        exe = c.build_driver("cgv-c19")
        hbin = c.build_harness("c19")
        if exe and hbin:
            r = c.run_harness(hbin)
            if r:
                ops, impl, st = r
                c.cov["input_distribution"] = st
                m = c.run_model(exe, ops)
                if m:
                    c.diff(ops, impl, m)
                    c.cov["programs"] = 1
                    c.cov["exhaustive"] = False
        c.prove("ClientGoVerif.Props.C19")
    return c.finish()


def replay(a):
    """re-execute the failing inputs of a replay file against the current tree and the model"""
    c = Check(PID, a.tier, a.seed)
    rp = json.load(open(a.replay))
    lines = [l for p in rp["problems"] for l in p["case"] if p["kind"] in ("property", "correspondence")]
    facts(c)
    exe = c.build_driver("cgv-c19")
    hbin = c.build_harness("c19")
    if not (exe and hbin and lines):
        print("nothing to replay (no concrete input in the replay file)")
        return 0 if not c.problems else 1
    f = os.path.join(c.work, "in.replay")
    open(f, "w").write("\n".join(lines) + "\n")
    ops, impl, _ = c.run_harness(hbin, replay=f)
    m = c.run_model(exe, ops)
    for o, i, mm in zip(open(ops).read().splitlines(), open(impl).read().splitlines(), open(m).read().splitlines()):
        print(f"{o}\n   impl : {i}\n   model: {mm}")
    c.diff(ops, impl, m)
    return c.finish()
