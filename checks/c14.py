"""C14 — GC lock resolution, range task, delete-range task, visibility check (DESIGN §4 C14)."""
import json
import os
import re
import vcheck
from vcheck import Check, Problem, REPO

PID = "C14"


def facts(c):
    a = c.facts_consts("txnkv/rangetask", ["defaultRegionsPerTask"])
    b = c.facts_consts("txnkv/txnlock", ["ResolvedCacheSize"])
    if a is None or b is None:
        return False
    # durations (time.Second * n) and the derived GC scan limit are read from the source text
    try:
        sp = open(os.path.join(REPO, "tikv/safepoint.go")).read()
        gc = open(os.path.join(REPO, "tikv/gc.go")).read()
        interval = re.search(r"GcStateCacheInterval\s*=\s*time\.Second \* (\d+)", sp).group(1)
        bound = re.search(r"gcCPUTimeInaccuracyBound\s*=\s*time\.Second \* (\d+)", sp).group(1)
        if not re.search(r"const GCScanLockLimit = txnlock\.ResolvedCacheSize / 2\b", gc):
            raise ValueError("GCScanLockLimit is no longer txnlock.ResolvedCacheSize / 2")
        if not re.search(r"diff > \(GcStateCacheInterval - gcCPUTimeInaccuracyBound\)", open(os.path.join(REPO, "tikv/kv.go")).read()):
            raise ValueError("CheckVisibility freshness test changed")
    except Exception as e:  # noqa: BLE001
        c.problems.append(Problem("tie", "facts: constants of tikv/safepoint.go / tikv/gc.go", [], str(e)))
        return False
    body = ("namespace CGV.RangeTaskGen\n"
            f"def defaultRegionsPerTask : Nat := {a['defaultRegionsPerTask']}\n"
            f"def resolvedCacheSize : Nat := {b['ResolvedCacheSize']}\n"
            f"def gcStateCacheSeconds : Nat := {interval}\n"
            f"def gcInaccuracySeconds : Nat := {bound}\n"
            "end CGV.RangeTaskGen\n")
    c.write_generated("RangeTaskConsts", body)
    return True


def prioritise(c, ops_f, impl_f, model_f):
    """cases are independent (each starts with `reset`): move the cases in which the implementation's own oracle
    failed to the front of all three streams — those whose failing op is not of a kind named by a known finding
    first — so that new concrete failing inputs are shrunk and reported before anything else"""
    import re
    ops, impl, model = (open(f).read().splitlines() for f in (ops_f, impl_f, model_f))
    if not (len(ops) == len(impl) == len(model)):
        return ops_f, impl_f, model_f
    cases = vcheck.split_cases(ops)
    head = list(range(0, cases[0][0])) if cases else []
    known_last = [k.get("match", {}).get("ops", [""])[-1] for k in vcheck.load_known(PID)]

    def rank(ab):
        bad = [i for i in range(*ab) if impl[i].startswith(("FAIL", "panic"))]
        if not bad:
            return 2
        return 1 if all(any(p and re.search(p, ops[i]) for p in known_last) for i in bad) else 0

    order = head + [i for ab in sorted(cases, key=rank) for i in range(*ab)]
    out = []
    for name, lines in (("p.ops", ops), ("p.impl", impl), ("p.model", model)):
        f = os.path.join(c.work, name)
        open(f, "w").write("\n".join(lines[i] for i in order) + "\n")
        out.append(f)
    return out


def run(a):
    c = Check(PID, a.tier, a.seed)
    c.cov["rule"] = ("stateful cases (reset; layout/split/put/txn set-up; one action): run = REAL rangetask.Runner with a recording handler "
                     "(random layouts up to 12 regions, splits at chosen PD loads, regionsPerTask 1..4|128, workers 1..8, optional failing handler call), "
                     "del = REAL DeleteRangeTask on mocktikv data vs map reference, gc = REAL tikv.ResolveLocksForRange / GCResolveLockPhase over mocktikv "
                     "(populations of committed/rolled-back/pending/pessimistic transactions, scan limit 1..5, splits after chosen scans) with scan-trace "
                     "correspondence and a store-level audit (incl. that a batched resolve acknowledged by the client was applied to every lock it named), vis = snapshot Get/BatchGet/Iter below/at/above the cached txn safe point, "
                     "runc = cancellation of the CALLER's context while the REAL Runner runs (inside the i-th handler call for every i, unnoticed by the handler, with a sub-range "
                     "provably queued behind the busy workers or all sub-ranges in handlers; before the run; between two pulls; workers 1..4) with the property op chk-complete "
                     "(nil result => the handled sub-ranges cover the whole range, else FAIL success-with-gap), gcc = the same at GC level (GCResolveLockPhase over 260..410 regions, "
                     "context cancelled right after a chosen ScanLock, nil => store-level audit); the model side runs the forced schedule through the scheduled-runner model under both producer select choices; "
                     "correspondence = canonical output equal to the Lean model, property = oracle evaluated by each side on its own output; distinct = distinct op lines")
    c.assumptions = [
        "gc shim/phase modes run over an RPC wrapper that applies ScanLock StartKey/EndKey/Limit to the mock's answer and forwards batched "
        "ResolveLock TxnInfos to the mock's own MVCCStore.BatchResolveLock (the mock's RPC handler ignores the ScanLock bounds; the batched TxnInfos form is honoured since /repo a713e36); gc pure runs the unmodified mock",
        "gc_preserves_outcomes is proved for the store half (a GC command keeps reads >= safe point, records above it and the invariant, Proofs/MvccTemporal); the cross-key protocol half is validated by the store-level audit only",
        "async-commit locks are not generated (mocktikv has no async commit); pessimistic locks are reported by the mock without lock type",
        "cancellation: schedules are forced on the real runner through handler gates and PD/RPC wrappers (polling waits, no sleeps as synchronisation); "
        "`runc before|between` are repeated 24 times because their outcome depends on Go's random choice among ready select cases (the defect found there is repaired: fixed entry "
        "C14-runonrange-nil-after-producer-abandons); `inh` ops are skipped by both sides when neither `all remaining sub-ranges are in handlers` nor "
        "`a sub-range is queued behind the busy workers` can be established from outside",
        "which worker handles which sub-range is not modelled: with a failing handler and more than one worker only `error reported` and "
        "the shape of the handled sub-ranges are checked",
    ]
    if facts(c):
        exe = c.build_driver("cgv-c14")
        hbin = c.build_harness("c14")
        if exe and hbin:
            r = c.run_harness(hbin)
            if r:
                ops, impl, st = r
                c.cov["input_distribution"] = st
                m = c.run_model(exe, ops)
                if m:
                    ops, impl, m = prioritise(c, ops, impl, m)
                    c.diff(ops, impl, m, stateful=True, hbin=hbin, exe=exe)
                    c.cov["programs"] = 4
                    c.cov["exhaustive"] = False
        c.prove("ClientGoVerif.Props.C14")
    return c.finish()


def replay(a):
    """re-execute the failing cases of a replay file against the current tree and the model"""
    c = Check(PID, a.tier, a.seed)
    rp = json.load(open(a.replay))
    cases = [p["case"] for p in rp["problems"] if p["kind"] in ("property", "correspondence") and p["case"]]
    facts(c)
    exe = c.build_driver("cgv-c14")
    hbin = c.build_harness("c14")
    if not (exe and hbin and cases):
        print("nothing to replay (no concrete input in the replay file)")
        return 0 if not c.problems else 1
    lines = []
    for i, case in enumerate(cases):
        lines.append(f"# case {i + 1} replay")
        if not case or case[0] != "reset":
            lines.append("reset")
        lines += case
    f = os.path.join(c.work, "in.replay")
    open(f, "w").write("\n".join(lines) + "\n")
    ops, impl, _ = c.run_harness(hbin, replay=f)
    m = c.run_model(exe, ops)
    for o, i, mm in zip(open(ops).read().splitlines(), open(impl).read().splitlines(), open(m).read().splitlines()):
        print(f"{o}\n   impl : {i}\n   model: {mm}")
    c.diff(ops, impl, m, stateful=True, hbin=hbin, exe=exe)
    return c.finish()
