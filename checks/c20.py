"""C20 — back-off budget and fork accounting (DESIGN §4 C20)."""
import json
import os
import re
import vcheck
from vcheck import Check, Problem, REPO

PID = "C20"
CFG_GO = "config/retry/config.go"
JITTERS = ["NoJitter", "FullJitter", "EqualJitter", "DecorrJitter"]


def lean_str(s):
    return '"' + s.replace("\\", "\\\\").replace('"', '\\"') + '"'


def facts(c):
    """regenerate Generated/BackoffTable.lean from config/retry/config.go and kv/variables.go"""
    consts = c.facts_consts("config/retry", JITTERS + ["txnLockFastName", "MaxRecordBackoffErrCount"])
    kvc = c.facts_consts("kv", ["DefBackoffLockFast", "DefBackOffWeight"])
    calls = c.facts_raw(["calls", os.path.join(REPO, CFG_GO), "NewConfig"])
    excl = c.facts_raw(["maplit", os.path.join(REPO, CFG_GO), "isSleepExcluded"])
    if consts is None or kvc is None or calls is None or excl is None:
        return False

    def bad(what, detail=""):
        c.problems.append(Problem("tie", "facts extractor: " + what, [CFG_GO], detail))
        return False

    def intval(tok):
        tok = tok.strip()
        if re.fullmatch(r"-?\d+", tok):
            return int(tok)
        if tok in consts and re.fullmatch(r"-?\d+", consts[tok]):
            return int(consts[tok])
        return None

    def strval(tok):
        tok = tok.strip()
        if re.fullmatch(r'"[^"\\]*"', tok):
            return tok[1:-1]
        if tok in consts and re.fullmatch(r'"[^"\\]*"', consts[tok]):
            return consts[tok][1:-1]
        return None

    rows = []      # (var, name, base, cap, jitter, errsrc)
    for line in calls.splitlines():
        f = line.split("\t")
        if len(f) != 5:
            return bad("NewConfig call with unexpected arity", line)
        var, name_src, _metric, fn_src, err_src = f
        name = strval(name_src)
        m = re.fullmatch(r"NewBackoffFnCfg\((.*),(.*),(.*)\)", fn_src)
        if name is None or not m:
            return bad("cannot read NewConfig literal", line)
        base, cap, jit = (intval(x) for x in m.groups())
        if base is None or cap is None or jit is None:
            return bad("cannot read NewBackoffFnCfg literal", line)
        rows.append((var, name, base, cap, jit, err_src.strip()))
    if len(set(r[1] for r in rows)) != len(rows):
        return bad("duplicate config names in the table")
    # error class of a config = name of the first config of the table with the same error expression
    first_by_err = {}
    for r in rows:
        first_by_err.setdefault(r[5], r[1])
    by_var = {r[0]: r for r in rows}
    ex = []
    for line in excl.splitlines():
        k, v = line.split("\t")
        if k == "#type":
            if v != "map[string]int":
                return bad("isSleepExcluded has unexpected type " + v)
            continue
        m = re.fullmatch(r"(\w+)\.name", k)
        name = by_var[m.group(1)][1] if m and m.group(1) in by_var else strval(k)
        lim = intval(v)
        if name is None or lim is None:
            return bad("cannot read isSleepExcluded entry", line)
        ex.append((name, lim))
    body = ["namespace CGV.Gen"]
    for j in JITTERS:
        body.append(f"def {j[0].lower() + j[1:]} : Int := {consts[j]}")
    body.append(f"def txnLockFastName : String := {lean_str(strval('txnLockFastName'))}")
    body.append(f"def maxRecordBackoffErrCount : Nat := {consts['MaxRecordBackoffErrCount']}")
    body.append(f"def defBackoffLockFast : Int := {kvc['DefBackoffLockFast']}")
    body.append(f"def defBackOffWeight : Int := {kvc['DefBackOffWeight']}")
    body.append("/-- (name, base, cap, jitter, error class) per `NewConfig(...)` of config/retry/config.go, in source order;")
    body.append("    error class = name of the first config with the same error expression -/")
    body.append("def backoffTable : List (String × Int × Int × Int × String) := [")
    body.append(",\n".join(f"  ({lean_str(n)}, {b}, {cp}, {j}, {lean_str(first_by_err[e])})" for (_, n, b, cp, j, e) in rows))
    body.append("]")
    body.append("/-- `isSleepExcluded` : name ↦ max excluded limit -/")
    body.append("def isSleepExcluded : List (String × Int) := [" + ", ".join(f"({lean_str(n)}, {l})" for n, l in ex) + "]")
    body.append("end CGV.Gen\n")
    c.write_generated("BackoffTable", "\n".join(body))
    c.cov["table"] = {"configs": len(rows), "excluded": len(ex)}
    return True


def signature(op, impl, model):
    """coarse class of the first thing that no longer checks in a case"""
    if impl.startswith("FAIL") or impl.startswith("panic"):
        return " ".join(impl.split()[:2])
    return "mismatch " + op.split()[0]


def diff_by_signature(c, ops_file, impl_file, model_file, hbin, exe, per_class=2):
    """vcheck.diff reports (and shrinks) the first few failing cases only; so that one frequent failure class cannot
    hide a different one, the cases are partitioned by the signature of their first failing line and every class
    is diffed (and its first `per_class` cases shrunk) separately.  Counters add up over the partition."""
    ops = open(ops_file).read().splitlines()
    impl = open(impl_file).read().splitlines()
    model = open(model_file).read().splitlines()
    if not (len(ops) == len(impl) == len(model)):
        c.diff(ops_file, impl_file, model_file, stateful=True, hbin=hbin, exe=exe)
        return
    groups = {}
    for (a, b) in vcheck.split_cases(ops):
        sig = "clean"
        for i in range(a, b):
            if ops[i].startswith("#"):
                continue
            if impl[i].startswith("FAIL") or impl[i].startswith("panic"):
                sig = signature(ops[i], impl[i], model[i])     # a property failure anywhere in the case wins
                break
            if impl[i] != model[i] and sig == "clean":
                sig = signature(ops[i], impl[i], model[i])
        groups.setdefault(sig, []).append((a, b))
    c.cov["failure_classes"] = {k: len(v) for k, v in groups.items() if k != "clean"}
    samples = c.cov["samples"]
    for n, (sig, spans) in enumerate(sorted(groups.items(), key=lambda kv: (kv[0] != "clean", kv[0]))):
        base = os.path.join(c.work, f"grp{n}")
        for ext, lines in ((".ops", ops), (".impl", impl), (".model", model)):
            with open(base + ext, "w") as f:
                for (a, b) in spans:
                    f.write("\n".join(lines[a:b]) + "\n")
        c.diff(base + ".ops", base + ".impl", base + ".model", stateful=True, hbin=hbin, exe=exe, max_report=per_class,
               prefer_property=True)
    c.cov["samples"] = samples[:6]


def run(a):
    c = Check(PID, a.tier, a.seed)
    c.cov["rule"] = ("stateful cases (`# case n` + `reset`) of op lines over an arena of back-offers: new (plain / nil vars / vars with weight and "
                     "lock-fast base) / newnoop / defcfg (custom configs, all four jitter kinds, aliasing names) / bo (all table configs, per-call "
                     "maxima incl. -1 and 0; the observed pre-truncation sleep and the observed error class are inputs the model checks against "
                     "its allowed sets) / clone / fork / merge / rst / rstmax / cancel / kill, correspondence ops st (full accounting state) and "
                     "table, and property ops p-last / p-budget whose verdict each side computes on its own values (the Go side judges budgets on its own "
                     "ledger of observed sleeps and cross-checks the implementation's counters against it); directed families: fork-join, excluded-limit, "
                     "excluded-then-reset-then-exhaust, clone/fork interleavings (parent and clones / forks take turns on kinds of their own until each is exhausted), long same-kind runs (80 / 130 steps per table row, budget huge or off); "
                     "case length <= 40 (quick) / <= 400 (thorough); distinct = distinct op lines")
    c.assumptions = ["Go int arithmetic is modelled by unbounded Int (sums stay far below 2^63 on the explored inputs)",
                     "expo's float64 arithmetic is modelled by min(cap, base*2^n) on integers (exact below 2^53)",
                     "sleeping is virtualised by the failpoint tikvclient/fastBackoffBySkipSleep: time.After / ctx.Done() racing inside the sleep is not exercised",
                     "the pre-truncation sleep, base and attempts of a call are read from the code's own debug log line (`backoff`), the jitter itself is not controlled",
                     "a forked back-offer is not used after UpdateUsingForked merged it (doc comment of UpdateUsingForked: the maps are shared afterwards); the model rejects such ops",
                     "strings.EqualFold(name, txnLockFastName) is modelled by ASCII lower-casing"]
    if facts(c):
        exe = c.build_driver("cgv-c20")
        hbin = c.build_harness("c20")
        if exe and hbin:
            r = c.run_harness(hbin)
            if r:
                ops, impl, st = r
                c.cov["input_distribution"] = st
                m = c.run_model(exe, ops)
                if m:
                    diff_by_signature(c, ops, impl, m, hbin, exe)
                    c.cov["programs"] = 1
                    c.cov["exhaustive"] = False
        c.prove("ClientGoVerif.Props.C20")
    return c.finish()


def replay(a):
    """re-execute the failing cases of a replay file against the current tree and the model"""
    c = Check(PID, a.tier, a.seed)
    rp = json.load(open(a.replay))
    cases = [p["case"] for p in rp["problems"] if p["kind"] in ("property", "correspondence") and p["case"]]
    facts(c)
    exe = c.build_driver("cgv-c20")
    hbin = c.build_harness("c20")
    if not (exe and hbin and cases):
        print("nothing to replay (no concrete input in the replay file)")
        return 0 if not c.problems else 1
    lines = []
    for i, cs in enumerate(cases):
        lines.append(f"# case {i}")
        if not (cs and cs[0].split()[:1] == ["reset"]):
            lines.append("reset")
        lines += cs
    f = os.path.join(c.work, "in.replay")
    open(f, "w").write("\n".join(lines) + "\n")
    r = c.run_harness(hbin, replay=f)
    if not r:
        return c.finish()
    ops, impl, _ = r
    m = c.run_model(exe, ops)
    if not m:
        return c.finish()
    for o, i, mm in zip(open(ops).read().splitlines(), open(impl).read().splitlines(), open(m).read().splitlines()):
        if o.startswith("#"):
            print(o)
        else:
            print(f"{o}\n   impl : {i}\n   model: {mm}")
    c.diff(ops, impl, m, stateful=True, hbin=hbin, exe=exe)
    return c.finish()
