"""C06 — no leftover lock on failure-free paths (DESIGN §4 C06); trace grammar and division of labour: HUB.md."""
from checks.hub_common import run_hub, replay_hub

PID = "C06"
RULE = ("programs of ≤ 12 calls (set/insert/delete/lock with options/aggressive-locking start/retry/cancel/done) of one client with a contender taking pessimistic locks, third parties committing newer versions (write conflict, key exists, deadlock, lock-wait time-out), region errors / splits / leader moves in between, no request lost; after the final call and the drain of the background work `audit locks` lists every lock left in the store; agg-retry family: fair (aggressive) locking retried after locked-with-conflict with old / conflict / fresh for-update ts, overlapping or disjoint keys, ended by done / cancel / directly × commit / rollback; batches family: one LockKeys call split into several requests inside one region (≈1 KB keys or a lowered batch size), a later batch failing with write conflict or key exists; agg-expire family: a retry after the previous attempt's locks expired (stalled ttl manager, foreign writer in between); oracles `audit locks`, `audit held`; relock family (a failing LockKeys over held + new keys, statement retry, `audit held` after every call, an intruder probing a held key); round 3: agg-retry with options changing between attempts and the transaction ended after the sanity error; early-fail family (PD outage `tsofail` / failing schema-lease checker at Commit of a pessimistic transaction, control runs without the failure)")


def run(a):
    return run_hub(PID, a, RULE)


def replay(a):
    return replay_hub(PID, a, RULE)
