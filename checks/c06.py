"""C06 — no leftover lock on failure-free paths (DESIGN §4 C06).

Two parts, one Check object: (1) the transactional hub (trace grammar and division of labour: HUB.md) — the real client
under the hub's scheduler, traces judged by cgv-hub; (2) the bookkeeping correspondence — the client-side lock bookkeeping
of KVTxn (LockKeys, aggressive locking start/retry/cancel/done, Commit/Rollback) is MODELLED in Lean (Model/AggLock.lean,
no-leak invariant proved in Proofs/AggLock.lean) and the model is run next to the real KVTxn on the same op lines
(harness/c06agg, cgv-c06agg)."""
import json
import os
import re
import time

import vcheck
from vcheck import Problem
from checks.hub_common import run_hub, replay_hub

PID = "C06"
EXE = "cgv-c06agg"
HARNESS = "c06agg"
BK = "bookkeeping: "
RULE = ("programs of ≤ 12 calls (set/insert/delete/lock with options/aggressive-locking start/retry/cancel/done) of one client with a contender taking pessimistic locks, third parties committing newer versions (write conflict, key exists, deadlock, lock-wait time-out), region errors / splits / leader moves in between, no request lost; after the final call and the drain of the background work `audit locks` lists every lock left in the store; agg-retry family: fair (aggressive) locking retried after locked-with-conflict with old / conflict / fresh for-update ts, overlapping or disjoint keys, ended by done / cancel / directly × commit / rollback; batches family: one LockKeys call split into several requests inside one region (≈1 KB keys or a lowered batch size), a later batch failing with write conflict or key exists; agg-expire family: a retry after the previous attempt's locks expired (stalled ttl manager, foreign writer in between); oracles `audit locks`, `audit held`; relock family (a failing LockKeys over held + new keys, statement retry, `audit held` after every call, an intruder probing a held key); round 3: agg-retry with options changing between attempts and the transaction ended after the sanity error; early-fail family (PD outage `tsofail` / failing schema-lease checker at Commit of a pessimistic transaction, control runs without the failure); round 4: commit-split family (3–5 keys in one or two regions, one or two splits BETWEEN two of the keys attached to the n-th commit request — incl. the background secondaries' — or prewrite, drain, `audit locks`). "
        "BOOKKEEPING CORRESPONDENCE (second part): stateful cases (`# case n`, `reset v=<keys with a committed value>`) over 2–5 keys of one pessimistic KVTxn on mocktikv: "
        "ops start / retry / cancel / done / rollback / commit / pne k (presume-key-not-exists flag of an INSERT) / lock <keys> <options r c e n> — after every op the implementation line "
        "(currentLockedKeys and lastRetryUnnecessaryLocks with HasReturnValue/HasCheckExistence/Exists/LockedWithConflictTS per key, membuffer keys flagged locked with their value-exists flag, lockedCnt, "
        "primary-key bookkeeping, keys of the PessimisticLock / PessimisticRollback / Commit requests sent, keys the store holds a lock of the transaction on) must equal the model's line; the op line carries the environment's "
        "answers (for-update ts, mayAggressiveLockingLastLockedKeysExpire, error class of the call, per requested key: lock newly placed / existence / locked-with-conflict ts); environment ops ts / put / del / olock / orel / age "
        "(third-party commits, a contender's pessimistic locks incl. wait-for edges for dead locks, passage of time); property op chk-noleak on BOTH sides: locks the store holds that the client no longer tracks "
        "(all locks once the transaction is over) → ok / FAIL leak <keys>; directed corpus first (known leak and its variants), then seeded random statements with 1–4 attempts")

ASSUMPTIONS = [
    "bookkeeping correspondence: the background work of one op (async pessimistic rollbacks, secondary commits) is drained before the next op; the rollback DoneAggressiveLocking issues inside a LockKeys call reaches the store before the call's own lock request (the other order ends in the same store state: the refreshed for_update_ts makes the late rollback a no-op)",
    "bookkeeping correspondence: one region (a LockKeys call is one PessimisticLock request), for-update ts fetched once per statement attempt and never decreasing, no lock expires (virtual PD clock), membuffer used for key flags only (no Set/Delete), ops after Commit/Rollback are not executed",
    "the theorems assume the store contract `wfLock` for every answer (a lock-only-if-exists request does not lock a key it reports as missing; locked-with-conflict ts > for-update ts; a request answered write conflict / key exists locked none of its keys): every observed answer is checked against it (store_contract_violations)",
]


def _kinds(case):
    """which re-request situations (Model/AggLock.lean `relockFallsThrough`: the two former leaks) a case seems to contain — only used to group failing
    cases so that many hits of one defect cannot hide another"""
    k = set()
    for o in case:
        w = o.split()
        if w[0] != "lock" or len(w) < 7 or "," in w[1]:
            continue
        err, ans = w[5][4:], w[6][4:]
        if err in ("wc", "ke"):
            k.add("relock-" + err)
        elif err == "-" and "e" in w[2] and re.match(r"\d+:[AN]-", ans):
            k.add("loie-notfound")
    return ",".join(sorted(k))


def still_fails(c, case, hbin, exe, want):
    """the predicate of the shrinker: the candidate fails in the SAME way as the case it comes from — `leak-agree`: chk-noleak
    fails on the implementation and the model predicts exactly that; `leak-differ`: it fails and the model does not;
    `mismatch`: some line differs — and it does not end the transaction inside an aggressive-locking stage that holds keys
    (API misuse, answered `err:pending`: a leak of its own that deleting a `done` line would otherwise shrink into)"""
    r = c._run_case(case, hbin, exe, None)
    if r is None:
        return False
    impl, model = r
    if len(impl) != len(model):
        return want == "mismatch"
    if any(a.startswith("err:pending") for a in impl):
        return False
    for a, b in zip(impl, model):
        if want == "mismatch":
            if a != b:
                return True
        elif a.startswith(("FAIL", "panic")) and (a == b) == (want == "leak-agree"):
            return True
    return False


def shrink(c, case, hbin, exe, want, budget=80):
    """ddmin over op lines with `still_fails` as the predicate"""
    cur = list(case)
    if not still_fails(c, cur, hbin, exe, want):
        return cur
    n, runs = 2, 0
    while len(cur) >= 2 and runs < budget:
        chunk = max(1, len(cur) // n)
        reduced = False
        for s in range(0, len(cur), chunk):
            cand = cur[:s] + cur[s + chunk:]
            runs += 1
            if cand and still_fails(c, cand, hbin, exe, want):
                cur, n, reduced = cand, max(n - 1, 2), True
                break
            if runs >= budget:
                break
        if not reduced:
            if chunk == 1:
                break
            n = min(len(cur), n * 2)
    return cur


def triage(c, ops_file, impl_file, model_file, hbin, exe, budget_s):
    c.diff(ops_file, impl_file, model_file, stateful=True, max_report=0)   # counters, samples
    ops = open(ops_file).read().splitlines()
    impl = open(impl_file).read().splitlines()
    model = open(model_file).read().splitlines()
    n = min(len(ops), len(impl), len(model))
    groups = {}
    for (a, b) in vcheck.split_cases(ops[:n]):
        idx = [i for i in range(a, min(b, n)) if not ops[i].startswith("#") and
               (impl[i] != model[i] or impl[i].startswith(("FAIL", "panic")))]
        if not idx:
            continue
        pf = [i for i in idx if impl[i].startswith("FAIL")]
        f = pf[0] if pf else idx[0]
        case = [o for o in ops[a:f + 1] if not o.startswith("#")]
        agree = impl[f] == model[f]
        sig = (ops[f].split()[0], " ".join(impl[f].split()[:2]) if pf else "mismatch", agree, _kinds(case) if agree else "")
        groups.setdefault(sig, []).append(case)
    c.cov["bookkeeping_failing_cases"] = sum(len(v) for v in groups.values())
    c.cov["bookkeeping_failing_signatures"] = {" / ".join(map(str, k)): len(v) for k, v in sorted(groups.items())}
    for v in groups.values():
        v.sort(key=len)
    t0 = time.time()
    rnd = 0
    while any(len(v) > rnd for v in groups.values()):
        for sig, v in sorted(groups.items()):
            if len(v) <= rnd or (rnd >= 1 and time.time() - t0 > budget_s) or rnd >= 6:
                continue
            want = "mismatch" if sig[1] == "mismatch" else ("leak-agree" if sig[2] else "leak-differ")
            case = v[rnd]
            # pre-pass: environment lines that only refresh the statement's for-update ts rarely matter
            slim = [o for o in case if o != "ts"]
            if len(slim) < len(case) and still_fails(c, slim, hbin, exe, want):
                case = slim
            shrunk = shrink(c, case, hbin, exe, want)
            isprop, det = c.classify_case(shrunk, hbin, exe, None)
            # report the op lines of the shrunk run itself (the answers observed THERE, not those of the original context)
            try:
                again = [o for o in open(os.path.join(c.work, "shrink.ops")).read().splitlines() if not o.startswith("#")]
                if len(again) == len(shrunk):
                    shrunk = again
            except OSError:
                pass
            c.problems.append(Problem("property" if isprop else "correspondence",
                                      BK + ("property op chk-noleak fails on the implementation" if isprop
                                            else "model and implementation disagree"), shrunk, det))
        rnd += 1


def bookkeeping(c, budget=None):
    t0 = time.time()
    try:
        _bookkeeping(c, budget)
    finally:
        c.cov["bookkeeping_wall_s"] = round(time.time() - t0, 2)


def _bookkeeping(c, budget=None):
    c.assumptions += ASSUMPTIONS
    exe = c.build_driver(EXE)
    hbin = c.build_harness(HARNESS)
    if not (exe and hbin):
        return
    r = c.run_harness(hbin, tag="agg")
    if not r:
        return
    ops, impl, st = r
    c.cov["input_distribution_bookkeeping"] = st
    c.cov["programs"] = c.cov.get("programs", 0) + st.get("cases", 0)
    mstats = os.path.join(c.work, "agg.mstats")
    m = c.run_model(exe, ops, tag="agg", args=["--stats", mstats])
    if not m:
        return
    try:
        ms = json.load(open(mstats))
    except Exception:
        ms = {}
    c.cov["bookkeeping_proved_fragment"] = ms
    if ms.get("store_contract_violations", 1):
        c.problems.append(Problem("correspondence", BK + "an observed answer of the store violates the contract the theorems assume (wfLock)",
                                  ms.get("store_contract_violation_lines", []), json.dumps(ms)))
    if ms.get("model_leaks_inside_fragment", 1):
        c.problems.append(Problem("proof", BK + "the model leaks inside the fragment the theorems cover", [], json.dumps(ms)))
    triage(c, ops, impl, m, hbin, exe, budget if budget is not None else (10 if c.tier == "quick" else 90))


def run(a):
    return run_hub(PID, a, RULE, extra_part=bookkeeping)


def replay(a):
    """a replay file may hold cases of both parts: hub traces are re-judged, bookkeeping cases re-executed"""
    rp = json.load(open(a.replay))
    bk = [p for p in rp["problems"] if p.get("what", "").startswith(BK) and p["kind"] in ("property", "correspondence") and p["case"]]
    rc = 0
    if len(bk) < len(rp["problems"]):
        rest = dict(rp, problems=[p for p in rp["problems"] if p not in bk])
        tmp = a.replay + ".hub.json"
        json.dump(rest, open(tmp, "w"))
        a2 = type(a)(**dict(vars(a), replay=tmp))
        rc = replay_hub(PID, a2, RULE)
        os.remove(tmp)
    if bk:
        c = vcheck.Check(PID, a.tier, a.seed)
        c.cov["rule"] = RULE
        exe = c.build_driver(EXE)
        hbin = c.build_harness(HARNESS)
        if exe and hbin:
            f = os.path.join(c.work, "in.replay")
            with open(f, "w") as fh:
                for i, p in enumerate(bk, 1):
                    fh.write(f"# case {i} replay\n" + "\n".join(p["case"]) + "\n")
            r = c.run_harness(hbin, replay=f, tag="agg")
            if r:
                ops, impl, _ = r
                m = c.run_model(exe, ops, tag="agg")
                if m:
                    for o, i, mm in zip(open(ops).read().splitlines(), open(impl).read().splitlines(), open(m).read().splitlines()):
                        print(f"{o}\n   impl : {i}\n   model: {mm}")
                    triage(c, ops, impl, m, hbin, exe, 60)
        rc = max(rc, c.finish())
    return rc
