"""C06 — no leftover lock on failure-free paths (DESIGN §4 C06); trace grammar and division of labour: HUB.md."""
from checks.hub_common import run_hub, replay_hub

PID = "C06"
RULE = ("programs of ≤ 12 calls (set/insert/delete/lock with options/aggressive-locking start/retry/cancel/done) of one client with a contender taking pessimistic locks, third parties committing newer versions (write conflict, key exists, deadlock, lock-wait time-out), region errors / splits / leader moves in between, no request lost; after the final call and the drain of the background work `audit locks` lists every lock left in the store")


def run(a):
    return run_hub(PID, a, RULE)


def replay(a):
    return replay_hub(PID, a, RULE)
