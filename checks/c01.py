"""C01 — snapshot isolation and external consistency (DESIGN §4 C01); trace grammar and division of labour: HUB.md."""
from checks.hub_common import run_hub, replay_hub

PID = "C01"
RULE = ("2–4 concurrent clients run seeded random programs (begin opt/pess × 2pc/async/1pc, get/bget/iter/riter/set/insert/delete/lock/commit/rollback) over ≤ 5 shared keys on 1–3 regions (1 or 3 stores); the scheduler picks the RPC interleaving; occasional split, leader move, dropped idempotent request, injected region error, client crash (then the clock passes every TTL). The judge replays every RPC on the Lean MVCC model (answers must agree) and evaluates the C01 history oracle on the api-level history at `quiesce`; a case = one `# case`. PLUS an exhaustive part (evidence keys `exhaustive_enumeration` (profile mock) and `exhaustive_enumeration_full`; their flag `exhaustive` is true only for that enumerated sub-space): every RPC interleaving of every pair (thorough: and some triples) of small programs, enumerated by DFS with a controlled scheduler — see `sub_space` there; each schedule is one case judged like the sampled ones; borrowed families: agg-expire (every 12th scenario), relock (LockKeys over held + new keys that fails, statement retry, `audit held` after every lock call, an intruder probing a held key), the directed async-recovery family (profile full); oracles also: locking-read, own-scan (a transaction's iter/riter = snapshot overlaid with its buffered writes), audit held; after the sampled part the RPC interleavings of small program multisets are ENUMERATED (controlled scheduler + DFS with replay, see coverage.exhaustive_enumeration*); round 3: agg-retry family with the options changing between attempts (fair locking retried after locked-with-conflict, other flags / keys) and the committed-primary family (readers and lockers meeting locks whose primary is already committed); round 4: lock-if-exists-first family (first lock call LockOnlyIfExists on a missing key, real primary chosen later, ManagedLockTTL 20 ms, clock steps + wall-clock heart-beats, `audit heartbeat`, an intruder locking a held key, `audit held`); committed-primary scenarios with the BatchGet answer handed over in its other legal form (lock error at response level, `# lifted`)")


def run(a):
    return run_hub(PID, a, RULE)


def replay(a):
    return replay_hub(PID, a, RULE)
