"""C17 — local latch scheduler (DESIGN §4 C17)."""
import json
import os
import vcheck
from vcheck import Check, Problem

PID = "C17"
EXE = "cgv-c17"
HARNESS = "c17"


def setup(c):
    c.cov["rule"] = (
        "op lines on one Latches instance per case (`reset` = fresh instance on both sides): lock/acquire/release at method "
        "granularity, astep/unlock/rstep/recycle/recycleslot at critical-section granularity (correspondence: result + canonical "
        "dump of every lock's acquiredCount/isStale and every slot's queue, count, waiting list after each op), `chk` after each op "
        "(property op: implementation side = per-key specification of the property text [one holder, greatest published commit, FIFO "
        "of requesters] + holder table built from what acquire returned; model side = exclusivity/holder/staleness oracle on the model "
        "state). Families: (a1) two transactions, 6 key-set shapes x all start/commit orders over 1..4 incl. ties x {1,2} slots, all "
        "interleavings; (a2) seeded 3-transaction (thorough: +4-transaction) configurations over a 5-key pool with 1/2/4 slots, ALL "
        "interleavings of acquire/release/wake-up re-acquire each; (a3) seeded random walks over critical-section steps with late "
        "arrivals, with and without recycling (minute-scale timestamps, 8 keys in 1-2 slots so that count >= latchListCount), and a "
        "'skew' family: one slot for 8 keys, start/commit/recycle timestamps drawn independently from a 6-minute window (commits "
        "physically ahead of later recycle timestamps and of requesters' start ts, unlocks out of commit-ts order, recycles in between); "
        "staleness oracle under recycling: every released (key, commitTS) is remembered with whether a recycle timestamp seen since could "
        "have expired it; a grant or an unflagged wake-up although an unexpirable commit ts above the start ts was published = FAIL stale-missed; "
        "(c) client level: the scheduler driven through the real KVTxn.Commit on a mock store with txn local latches (sizes 1/2/4/8096, 2-4 "
        "keys): rounds of {transaction stale on a key that is not its smallest, queued waiter handed the key as stale, queued waiter that "
        "proceeds, plain commit} followed by a follower on every key; every Commit watched (FAIL latch-leak when it stays queued although no "
        "live transaction owns the key), chk-free after all transactions finished (no owner, no waiter); model side = the Commit wrapper "
        "commitTxn (Lock; UnLock on every exit per the source fact commit_unlock_deferred_before_any_return; commit ts); "
        "(b) seeded stress through the real LatchesScheduler goroutine with a holder table (exclusivity), stale soundness and a "
        "30 s termination bound (support only). distinct = distinct op lines; a case = one reset..end sequence")
    c.assumptions = [
        "slot hash (murmur3 & mask), latchListCount, expireDuration, physicalShiftBits are parameters of the model; the harness reports "
        "the real values in every `reset` line and refuses a line that does not describe the real code (reset-mismatch)",
        "Lock.phase of the model is the program counter of the thread owning the lock; the harness only issues calls that are legal "
        "in that sense (acquire on fresh/woken locks, release on returned locks), as LatchesScheduler does",
        "tsoSub/time.Sub saturation is modelled by comparing physical parts (ts >> shift) in milliseconds",
        "Go memory-model effects below mutex granularity, wg.Wait/wg.Done and channel delivery are not modelled; the stress run is support",
    ]


def _prop_fails(c, case_ops, hbin, exe):
    r = c._run_case(case_ops, hbin, exe, None)
    if r is None:
        return None
    impl, model = r
    for i, l in enumerate(impl):
        if l.startswith("FAIL") or l.startswith("panic"):
            return f"line {i}: impl: {l} | model: {model[i] if i < len(model) else '?'}"
    return None


def property_cases(c, ops_file, impl_file, hbin, exe, limit=3, budget=60):
    """vcheck.diff cuts a case at its first differing line; a mutation often shows first as a mere difference of the
    dump and only later in the same case as a failure of the property oracle (FAIL/panic line). Find such cases,
    cut them at the first FAIL/panic line and shrink them with 'the implementation still FAILs' as the predicate."""
    ops = open(ops_file).read().splitlines()
    impl = open(impl_file).read().splitlines()
    found = 0
    for (a, b) in vcheck.split_cases(ops):
        bad = [i for i in range(a, min(b, len(impl))) if not ops[i].startswith("#") and (impl[i].startswith("FAIL") or impl[i].startswith("panic"))]
        if not bad:
            continue
        found += 1
        if found > limit:
            break
        cur = [o for o in ops[a:bad[0] + 1] if not o.startswith("#")]
        det = _prop_fails(c, cur, hbin, exe)
        if det is None:
            c.problems.append(Problem("property", "property oracle fails on the implementation (not reproduced on re-run)", cur, impl[bad[0]]))
            continue
        nochk = [o for o in cur if o != "chk"]
        d0 = _prop_fails(c, nochk, hbin, exe) if len(nochk) < len(cur) else None
        if d0:
            cur, det = nochk, d0
        n, runs = 2, 0
        while len(cur) >= 2 and runs < budget:
            chunk = max(1, len(cur) // n)
            reduced = False
            for s0 in range(0, len(cur), chunk):
                cand = cur[:s0] + cur[s0 + chunk:]
                runs += 1
                d = _prop_fails(c, cand, hbin, exe) if cand else None
                if d:
                    cur, det, n, reduced = cand, d, max(n - 1, 2), True
                    break
                if runs >= budget:
                    break
            if not reduced:
                if chunk == 1:
                    break
                n = min(len(cur), n * 2)
        c.problems.append(Problem("property", "property oracle fails on the implementation", cur, det))


def facts(c):
    """KVTxn.Commit: the `defer ...TxnLatches().UnLock(lock)` follows the `TxnLatches().Lock(` call before any `return`
    (so the unlock runs on every exit, the stale early return included). The model's Commit wrapper follows this fact."""
    src = c.facts_raw(["funcsrc", os.path.join(vcheck.REPO, "txnkv/transaction/txn.go"), "Commit"])
    if src is None:
        return False
    i = src.find("TxnLatches().Lock(")
    ok = False
    if i >= 0:
        rest = src[i:]
        d = rest.find("defer txn.store.TxnLatches().UnLock(lock)")
        r = rest.find("return")
        ok = d >= 0 and (r < 0 or d < r)
    else:
        c.problems.append(Problem("tie", "KVTxn.Commit no longer calls TxnLatches().Lock( — the C17 client-level tie does not apply", ["Commit"]))
        return False
    c.cov["commit_unlock_deferred_before_any_return"] = ok
    c.write_generated("LatchCommit", "namespace CGV.Gen\n/-- KVTxn.Commit defers TxnLatches().UnLock(lock) right after Lock, before any return -/\n"
                      f"def commitUnlockOnEveryExit : Bool := {'true' if ok else 'false'}\nend CGV.Gen\n")
    return True


def run(a):
    c = Check(PID, a.tier, a.seed)
    setup(c)
    facts(c)
    exe = c.build_driver(EXE)
    hbin = c.build_harness(HARNESS)
    if exe and hbin:
        r = c.run_harness(hbin)
        if r:
            ops, impl, st = r
            c.cov["input_distribution"] = st
            m = c.run_model(exe, ops)
            if m:
                property_cases(c, ops, impl, hbin, exe)
                # concrete failing inputs already extracted: keep the generic (first-difference) report short
                c.diff(ops, impl, m, stateful=True, hbin=hbin, exe=exe, max_report=2 if c.problems else 8)
                # the client-level family observes real goroutines (queued / returned) through wall-clock polling: a
                # difference that does not show again when the same case is re-executed is counted, not reported
                flaky = [p for p in c.problems if p.kind == "correspondence" and p.detail == "not reproducible on re-run"
                         and p.case and p.case[0].startswith("creset")]
                if flaky:
                    c.cov["client_cases_not_reproducible_on_rerun"] = len(flaky)
                    c.problems = [p for p in c.problems if p not in flaky]
                c.cov["programs"] = st.get("schedule", 0) + st.get("walk", 0) + st.get("walk-recycle", 0)
                c.cov["exhaustive"] = False
    c.prove("ClientGoVerif.Props.C17")
    return c.finish()


def replay(a):
    """re-execute the failing cases of a replay file against the current tree and the model"""
    c = Check(PID, a.tier, a.seed)
    setup(c)
    facts(c)
    rp = json.load(open(a.replay))
    cases = [p["case"] for p in rp["problems"] if p["kind"] in ("property", "correspondence") and p["case"]]
    exe = c.build_driver(EXE)
    hbin = c.build_harness(HARNESS)
    if not (exe and hbin and cases):
        print("nothing to replay (no concrete input in the replay file)")
        return 0 if not c.problems else 1
    f = os.path.join(c.work, "in.replay")
    with open(f, "w") as fh:
        for i, case in enumerate(cases):
            fh.write(f"# case {i + 1} replay\n" + "\n".join(case) + "\n")
    r = c.run_harness(hbin, replay=f)
    if not r:
        return c.finish()
    ops, impl, _ = r
    m = c.run_model(exe, ops)
    if not m:
        return c.finish()
    for o, i, mm in zip(open(ops).read().splitlines(), open(impl).read().splitlines(), open(m).read().splitlines()):
        if o.startswith("#"):
            print(o)
        else:
            print(f"{o}\n   impl : {i}\n   model: {mm}")
    c.diff(ops, impl, m, stateful=True, hbin=hbin, exe=exe)
    return c.finish()
