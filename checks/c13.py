"""C13 — timestamp oracle (DESIGN §4 C13)."""
import json
import os
import re
import vcheck
from vcheck import Check, Problem

PID = "C13"
ORACLE_CONSTS = ["physicalShiftBits"]
ADAPTIVE_CONSTS = ["minAllowedAdaptiveUpdateTSInterval", "adaptiveUpdateTSIntervalShrinkingPreserve",
                   "adaptiveUpdateTSIntervalBlockRecoverThreshold", "adaptiveUpdateTSIntervalRecoverPerSecond",
                   "adaptiveUpdateTSIntervalDelayBeforeRecovering"]


def facts(c):
    a = c.facts_consts("oracle", ORACLE_CONSTS)
    b = c.facts_consts("oracle/oracles", ADAPTIVE_CONSTS)
    j = c.facts_consts("config/retry", ["NoJitter"])
    calls = c.facts_raw(["calls", os.path.join(vcheck.REPO, "config/retry/config.go"), "NewConfig"])
    if a is None or b is None or j is None or calls is None:
        return False
    m = None
    for line in calls.splitlines():
        cols = line.split("\t")
        if cols[0] == "BoCommitTSLag":
            m = re.search(r"NewBackoffFnCfg\((\d+), (\d+), (\w+)\)", line)
    if not m:
        c.problems.append(Problem("tie", "facts extractor: BoCommitTSLag = NewConfig(…, NewBackoffFnCfg(base, cap, jitter), …) not found",
                                  ["config/retry/config.go"], calls[-1500:]))
        return False
    if m.group(3) != "NoJitter":
        c.problems.append(Problem("tie", "the model of the commit-wait loop assumes BoCommitTSLag uses NoJitter", [m.group(0)]))
        return False
    body = "namespace CGV.Gen\n"
    body += "".join(f"def {k} : Nat := {a[k]}\n" for k in ORACLE_CONSTS)
    body += "".join(f"def {k} : Nat := {b[k]}\n" for k in ADAPTIVE_CONSTS)
    body += f"def commitTSLagBase : Nat := {max(int(m.group(1)), 2)}\n"   # newBackoffFn: base < 2 is raised to 2
    body += f"def commitTSLagCap : Nat := {m.group(2)}\n"
    body += f"def commitTSLagJitter : Nat := {j['NoJitter']}\n"
    body += f"def noJitter : Nat := {j['NoJitter']}\n"
    body += "end CGV.Gen\n"
    c.write_generated("OracleConsts", body)
    return True


# every place of txnkv/transaction that asks the oracle for a timestamp, with the enclosing function (hand-written
# expectation; regenerated from the source on every run by `facts callsites`). The commit-ts fetches must go through
# KVTxn.GetTimestampForCommit; the three plain GetTimestampWithRetry users are not commit timestamps.
EXPECTED_TS_SITES = sorted([
    "2pc.go\tkeepAlive\tc.store.GetTimestampWithRetry",                                        # ttl heartbeat: current ts for the lock ttl
    "2pc.go\ttwoPhaseCommitter.checkSchemaOnAssertionFail\tc.store.GetTimestampWithRetry",      # schema re-check
    "2pc.go\ttwoPhaseCommitter.execute\tc.txn.GetTimestampForCommit",                           # async commit / 1PC: min_commit_ts
    "2pc.go\ttwoPhaseCommitter.execute\tc.txn.GetTimestampForCommit",                           # ordinary 2PC commit ts
    "commit.go\tactionCommit.handleSingleBatch\tc.txn.GetTimestampForCommit",                   # CommitTsExpired retry
    "pipelined_flush.go\ttwoPhaseCommitter.commitFlushedMutations\tc.txn.GetTimestampForCommit",  # pipelined commit ts
    "txn.go\tKVTxn.GetTimestampForCommit\ttxn.store.GetTimestampWithRetry",                     # the wait loop itself: first attempt
    "txn.go\tKVTxn.GetTimestampForCommit\ttxn.store.GetTimestampWithRetry",                     # … and the retries
    "txn.go\tKVTxn.LockKeysWithWaitTime\ttxn.store.GetTimestampWithRetry",                      # for_update_ts of a pessimistic lock
])


def ts_sites(c):
    out = c.facts_raw(["callsites", os.path.join(vcheck.REPO, "txnkv/transaction"),
                       "GetTimestampWithRetry", "getTimestampWithRetry", "GetTimestampForCommit"])
    if out is None:
        return
    got = sorted(l for l in out.splitlines() if l.strip())
    if got != EXPECTED_TS_SITES:
        extra = [l.replace("\t", " | ") for l in got if got.count(l) > EXPECTED_TS_SITES.count(l)]
        missing = [l.replace("\t", " | ") for l in EXPECTED_TS_SITES if EXPECTED_TS_SITES.count(l) > got.count(l)]
        c.problems.append(Problem("tie", "the timestamp fetch sites of txnkv/transaction differ from the list the commit-path model was written against",
                                  sorted(set(["unexpected: " + x for x in extra] + ["missing: " + x for x in missing])),
                                  "a commit timestamp (or min_commit_ts) must be obtained through KVTxn.GetTimestampForCommit; review the commit-path family and EXPECTED_TS_SITES"))
    c.cov["commit_ts_fetch_sites"] = [l.replace("\t", " | ") for l in got]


def setup(c):
    c.cov["rule"] = ("op lines against the real pdOracle behind a scripted pd.Client (responses released by the script): "
                     "every schedule of start/issue/arrive events for 1..3 actors of kinds {GetTimestamp, ValidateReadTS of the newest issued ts, of the next ts, of a far-future ts, "
                     "one tick of the REAL background updater goroutine (updateTS/doUpdate, triggered through its own loop by an add-only export; its PD response is held like any other)} "
                     "(quick; 4 callers: every issue/arrival order after all have called; thorough: 4 callers fully interleaved for kinds {get, validate-next}, every kind mix with starts first), "
                     "cancellation: callers whose context the script may cancel at any point while they run (before PD issues, while the response is pending, while waiting for a flight, after completion) — "
                     "every schedule for 1..2 such actors and selected 3-actor mixes (thorough: all 3-actor mixes over {get, validate-next} with >= 1 cancellable, plus selected mixes with the other kinds and the updater); the scripted PD honours the "
                     "context of the request it serves; property: a call may only fail if its OWN context was cancelled (a live validate call of an issued ts must be accepted); "
                     "seeded random schedules with 2..8 actors (half of the worlds with the updater), async calls, stale-read flag, PD jumps across physical boundaries; after every op the model must predict "
                     "the returned value / verdicts / cached ts; `check` evaluates the property on the implementation's own observations "
                     "(cached ts monotone and <= max issued, real-time order of returned ts, accept => readTS <= issued at end, reject => readTS > issued before the call); "
                     "p-exp: IsExpired <=> UntilExpired <= 0 on boundary lock/ttl values; compose/extract; nextUpdateInterval / SetLowResolutionTimestampUpdateInterval on "
                     "boundary durations with the bounds as property op; GetTimestampForCommit through a real KVTxn with a scripted PD and skipped back-off sleeps; "
                     "commit-path family (chk-commitwait): REAL transactions committed through ordinary 2PC, async commit, 1PC (each also with causal consistency), pipelined, "
                     "the CommitTsExpired retry and the async/1PC->2PC fallback against the scripted PD with a commit-wait constraint {none, below current, slightly ahead within the budget, far ahead} "
                     "x wait budget {0, 1s, 5ms, sub-millisecond}; the store side is a stub that accepts every transactional request; FAIL when a commit succeeds at ts <= constraint or sends min_commit_ts <= constraint; "
                     "the list of timestamp fetch sites of txnkv/transaction is regenerated and compared with the hand-written expectation on every run; "
                     "free-running stress of 2..16 goroutines; distinct = distinct op lines")
    c.assumptions = [
        "singleflight.Group obeys its contract: join-or-start is atomic; the key is deleted in the same atomic step in which the result is handed to the callers that joined (golang.org/x/sync is not modelled)",
        "atomic.Pointer CompareAndSwap compares object identity: modelled by a version number that grows with every store (no ABA: every lastTSO object is installed at most once)",
        "expired_iff_until_nonpos is proved (and p-exp generated) for TTL < 2^63 - 2^46 ms, where int64(TTL) and the addition do not wrap; outside that range the code's two answers disagree "
        "(theorem expired_overflow_corner; correspondence ops isexp/until still cover it)",
        "ValidateReadTS(MaxUint64, non-stale) returns nil by design (read-latest sentinel); it is a correspondence op, not part of validate_rejects_future",
        "PD never fails in the model; context cancellation is modelled for client calls blocked at PD or on a flight (cancel/abort actions; flights run under context.Background(), the updater under context.TODO()); "
        "GetStaleTimestamp and the arrival-time field are not modelled",
        "background updater: one tick (Range over the map, getTimestamp, setLastTS) is an actor of the model and of the schedules; the harness makes the real updateTS loop run doUpdate through its shrink-interval branch "
        "(export VerifTriggerUpdate) with an hour-long ticker period; the ticker timing itself and the interplay of stale-read signals with the ticker are not modelled (stale-flagged validations are not generated in worlds with the updater)",
        "the load/CAS window of setLastTS is covered by the theorems (all interleavings of the model's steps) and by the free-running stress op only: the harness cannot pause a goroutine inside setLastTS without a source hook",
        "validate_accepts_past is a safety statement (never ErrFutureTSRead); termination of ValidateReadTS needs fairness of PD and is not stated",
        "commit paths: the store side of chk-commitwait is a stub (accepts prewrite/commit/flush/resolve, echoes min_commit_ts, can reject the first primary commit with CommitTsExpired or refuse async commit/1PC); "
        "max_commit_ts / schema checks and pessimistic for_update_ts fetches are not part of the family",
        "commit-wait: GetTimestamp errors inside the loop (BoPDRPC back-off with jitter) are not modelled; time.Sub saturation is modelled",
        "nextUpdateInterval: the recovery increment Duration(seconds*float64(20ms)) is computed with IEEE doubles in the driver (Lean Float) and enters the theorem as an arbitrary non-negative integer",
    ]


def run(a):
    c = Check(PID, a.tier, a.seed)
    setup(c)
    ts_sites(c)
    if facts(c):
        exe = c.build_driver("cgv-c13")
        hbin = c.build_harness("c13")
        if exe and hbin:
            r = c.run_harness(hbin)
            if r:
                ops, impl, st = r
                c.cov["input_distribution"] = st
                m = c.run_model(exe, ops)
                if m:
                    c.diff(ops, impl, m, stateful=True, hbin=hbin, exe=exe, fail_first=True)
                    c.cov["programs"] = sum(v for k, v in st.items() if k.startswith("schedule:")) + st.get("random-case", 0)
                    c.cov["exhaustive"] = False  # exhaustive only over schedules of <= 3 (quick) / 4 (thorough) callers; see rule
        c.prove("ClientGoVerif.Props.C13")
    return c.finish()


def replay(a):
    """re-execute the failing cases of a replay file against the current tree and the model"""
    c = Check(PID, a.tier, a.seed)
    setup(c)
    rp = json.load(open(a.replay))
    cases = [p["case"] for p in rp["problems"] if p["kind"] in ("property", "correspondence") and p["case"]]
    facts(c)
    exe = c.build_driver("cgv-c13")
    hbin = c.build_harness("c13")
    if not (exe and hbin and cases):
        print("nothing to replay (no concrete input in the replay file)")
        return 0 if not c.problems else 1
    lines = []
    for i, case in enumerate(cases):
        lines.append(f"# case {i + 1}")
        lines += case
    f = os.path.join(c.work, "in.replay")
    open(f, "w").write("\n".join(lines) + "\n")
    r = c.run_harness(hbin, replay=f)
    if not r:
        return c.finish()
    ops, impl, _ = r
    m = c.run_model(exe, ops)
    if not m:
        return c.finish()
    for o, i, mm in zip(open(ops).read().splitlines(), open(impl).read().splitlines(), open(m).read().splitlines()):
        if o.startswith("#"):
            print(o)
        else:
            print(f"{o}\n   impl : {i}\n   model: {mm}")
    c.diff(ops, impl, m, stateful=True, hbin=hbin, exe=exe, fail_first=True)
    return c.finish()
