"""C08 — the two in-memory write buffers (DESIGN §4 C08)."""
import json
import os
import re
import vcheck
from vcheck import Check, Problem, REPO

PID = "C08"
FLAG_CONSTS = ["flagPresumeKNE", "flagKeyLocked", "flagNeedLocked", "flagKeyLockedValExist", "flagNeedCheckExists",
               "flagPrewriteOnly", "flagIgnoredIn2PC", "flagReadable", "flagNewlyInserted", "flagAssertExist",
               "flagAssertNotExist", "flagNeedConstraintCheckInPrewrite", "flagPreviousPresumeKNE",
               "flagKeyLockedInShareMode", "persistentFlags"]


def parse_apply_flags_ops(c, src, consts):
    """ApplyFlagsOps is a switch whose cases are sequences of `origin |= M` / `origin &= ^M` statements.
    Returns [(opname, [(isSet, mask)])] or None (-> tie problem) when the function has any other shape."""
    m = re.search(r"switch op \{(.*)\} \} return origin \}$", src)
    if not m:
        c.problems.append(Problem("tie", "ApplyFlagsOps no longer has the shape `for … switch op {…} return origin`", [], src[:500]))
        return None
    body = m.group(1)
    parts = re.split(r"case (\w+):", body)
    if parts[0].strip():
        c.problems.append(Problem("tie", "ApplyFlagsOps: unexpected text before first case", [], parts[0]))
        return None
    table = []
    for name, stmts in zip(parts[1::2], parts[2::2]):
        acts = []
        rest = stmts.strip()
        while rest:
            mm = re.match(r"origin (\|=|&=) (\^?\(?(?:(?!origin)[\w |])+\)?)\s*", rest)
            if not mm or (mm.group(1) == "&=") != mm.group(2).startswith("^"):
                c.problems.append(Problem("tie", f"ApplyFlagsOps case {name}: statement not of the form origin |= M / origin &= ^M", [name], rest))
                return None
            expr = mm.group(2).lstrip("^").strip("()")
            mask = 0
            for t in expr.split("|"):
                t = t.strip()
                if t not in consts:
                    c.problems.append(Problem("tie", f"ApplyFlagsOps case {name}: unknown flag {t}", [name], rest))
                    return None
                mask |= int(consts[t])
            acts.append((mm.group(1) == "|=", mask))
            rest = rest[mm.end():]
        table.append((name, acts))
    return table


def facts(c):
    fl = c.facts_consts("kv", FLAG_CONSTS)
    if fl is None:
        return False
    src = c.facts_raw(["funcsrc", os.path.join(REPO, "kv/keyflags.go"), "ApplyFlagsOps"])
    if src is None:
        return False
    table = parse_apply_flags_ops(c, src.strip(), fl)
    if table is None:
        return False
    ops = c.facts_consts("kv", [n for n, _ in table])
    if ops is None:
        return False
    body = "namespace CGV.Gen.KeyFlags\n"
    for k in FLAG_CONSTS:
        body += f"def {k} : Nat := {fl[k]}\n"
    for n, _ in table:
        body += f"def {n} : Nat := {ops[n]}\n"
    body += "/-- kv.FlagsOp value ↦ the statements of its `case` in kv.ApplyFlagsOps, in order: (true, m) is `origin |= m`, (false, m) is `origin &= ^m` -/\n"
    body += "def opTable : List (Nat × List (Bool × Nat)) := [\n"
    rows = []
    for n, acts in table:
        a = ", ".join(f"({'true' if s else 'false'}, {m})" for s, m in acts)
        rows.append(f"  ({ops[n]}, [{a}])")
    body += ",\n".join(rows)
    body += "\n]\n"
    body += "/-- op names in table order (documentation / driver) -/\n"
    body += "def opNames : List String := [" + ", ".join(f'"{n}"' for n, _ in table) + "]\n"
    body += "end CGV.Gen.KeyFlags\n"
    c.write_generated("KeyFlags", body)
    la = c.facts_consts("internal/unionstore/art", ["MaxKeyLen", "maxInNodePrefixLen"])
    lr = c.facts_consts("internal/unionstore/rbt", ["MaxKeyLen"])
    ar = c.facts_consts("internal/unionstore/arena", ["initBlockSize", "maxBlockSize", "memdbVlogHdrSize"])
    un = c.facts_consts("internal/unionstore", ["unlimitedSize"])
    if None in (la, lr, ar, un):
        return False
    if la["MaxKeyLen"] != lr["MaxKeyLen"]:
        c.problems.append(Problem("tie", "art.MaxKeyLen != rbt.MaxKeyLen: the shared model has one key limit", [], f"{la} {lr}"))
        return False
    body = "namespace CGV.Gen.MemLimits\n"
    body += f"def maxKeyLen : Nat := {la['MaxKeyLen']}\n"
    body += f"def maxInNodePrefixLen : Nat := {la['maxInNodePrefixLen']}\n"
    body += f"def initBlockSize : Nat := {ar['initBlockSize']}\n"
    body += f"def maxBlockSize : Nat := {ar['maxBlockSize']}\n"
    body += f"def vlogHdrSize : Nat := {ar['memdbVlogHdrSize']}\n"
    body += f"def unlimitedSize : Nat := {un['unlimitedSize']}\n"
    body += "end CGV.Gen.MemLimits\n"
    c.write_generated("MemLimits", body)
    return True


def reclassify(c):
    """A shrunk case whose implementation line shows the two trees disagreeing with each other (`art=… rbt=…`) or a
    per-tree oracle verdict `FAIL` is a concrete failing input of C08 (observational equivalence / undo oracle) on the
    real code alone — no model involved — so it is a 'property' problem, not a mere correspondence mismatch."""
    for p in c.problems:
        if p.kind == "correspondence" and re.search(r"impl: (art=|.*\bFAIL\b)", p.detail):
            p.kind = "property"
            p.what = "the two buffers disagree with each other / undo oracle fails on the implementation"


def run(a):
    c = Check(PID, a.tier, a.seed)
    c.cov["rule"] = ("every op line is executed on the ART buffer and on the RBT buffer (result `art=… rbt=…`, collapsed when equal) and on the Lean "
                     "VLog model; cases = op sequences from one `reset`; exhaustive short sequences over a 6-key pool + seeded random sequences over an "
                     "adversarial key pool; property ops: cleanup/revert view oracle, snapshot-ignores-staged oracle, evaluated per tree")
    c.assumptions = ["radix-tree / red-black-tree node algorithms are not modelled (tied only by the differential)",
                     "vlog addresses are modelled as log indices; arena block arithmetic is covered by the differential only (values crossing the 4 KiB block)",
                     "RevertToCheckpoint is only issued for checkpoints at or above the top staging mark and not beyond the current log end (other uses loop on garbage headers)",
                     "sequence-number invalidation (iterator after write, stale GetSnapshot) exists only in ART; those ops observe ART only"]
    if facts(c):
        exe = c.build_driver("cgv-c08")
        hbin = c.build_harness("c08")
        if exe and hbin:
            r = c.run_harness(hbin)
            if r:
                ops, impl, st = r
                c.cov["input_distribution"] = st
                m = c.run_model(exe, ops)
                if m:
                    c.diff(ops, impl, m, stateful=True, hbin=hbin, exe=exe)
                    reclassify(c)
                    c.cov["programs"] = sum(1 for l in open(ops) if l.startswith("# case"))
                    c.cov["exhaustive"] = "depth<=3 over 6-key pool (quick) / depth<=4 (thorough), see input_distribution"
        c.prove("ClientGoVerif.Props.C08")
    return c.finish()


def replay(a):
    c = Check(PID, a.tier, a.seed)
    rp = json.load(open(a.replay))
    cases = [p["case"] for p in rp["problems"] if p["kind"] in ("property", "correspondence") and p["case"]]
    facts(c)
    exe = c.build_driver("cgv-c08")
    hbin = c.build_harness("c08")
    if not (exe and hbin and cases):
        print("nothing to replay (no concrete input in the replay file)")
        return 0 if not c.problems else 1
    lines = []
    for i, cs in enumerate(cases):
        lines.append(f"# case {i}")
        if not (cs and cs[0].startswith("reset")):
            lines.append("reset")
        lines += cs
    f = os.path.join(c.work, "in.replay")
    open(f, "w").write("\n".join(lines) + "\n")
    ops, impl, _ = c.run_harness(hbin, replay=f)
    m = c.run_model(exe, ops)
    for o, i, mm in zip(open(ops).read().splitlines(), open(impl).read().splitlines(), open(m).read().splitlines()):
        print(f"{o}\n   impl : {i}\n   model: {mm}")
    c.diff(ops, impl, m, stateful=True, hbin=hbin, exe=exe)
    reclassify(c)
    return c.finish()
