"""C08 — the two in-memory write buffers (DESIGN §4 C08)."""
import json
import os
import re
import vcheck
from vcheck import Check, Problem, REPO

PID = "C08"
FLAG_CONSTS = ["flagPresumeKNE", "flagKeyLocked", "flagNeedLocked", "flagKeyLockedValExist", "flagNeedCheckExists",
               "flagPrewriteOnly", "flagIgnoredIn2PC", "flagReadable", "flagNewlyInserted", "flagAssertExist",
               "flagAssertNotExist", "flagNeedConstraintCheckInPrewrite", "flagPreviousPresumeKNE",
               "flagKeyLockedInShareMode", "persistentFlags"]


def parse_apply_flags_ops(c, src, consts):
    """ApplyFlagsOps is a switch whose cases are sequences of `origin |= M` / `origin &= ^M` statements.
    Returns [(opname, [(isSet, mask)])] or None (-> tie problem) when the function has any other shape."""
    m = re.search(r"switch op \{(.*)\} \} return origin \}$", src)
    if not m:
        c.problems.append(Problem("tie", "ApplyFlagsOps no longer has the shape `for … switch op {…} return origin`", [], src[:500]))
        return None
    body = m.group(1)
    parts = re.split(r"case (\w+):", body)
    if parts[0].strip():
        c.problems.append(Problem("tie", "ApplyFlagsOps: unexpected text before first case", [], parts[0]))
        return None
    table = []
    for name, stmts in zip(parts[1::2], parts[2::2]):
        acts = []
        rest = stmts.strip()
        while rest:
            mm = re.match(r"origin (\|=|&=) (\^?\(?(?:(?!origin)[\w |])+\)?)\s*", rest)
            if not mm or (mm.group(1) == "&=") != mm.group(2).startswith("^"):
                c.problems.append(Problem("tie", f"ApplyFlagsOps case {name}: statement not of the form origin |= M / origin &= ^M", [name], rest))
                return None
            expr = mm.group(2).lstrip("^").strip("()")
            mask = 0
            for t in expr.split("|"):
                t = t.strip()
                if t not in consts:
                    c.problems.append(Problem("tie", f"ApplyFlagsOps case {name}: unknown flag {t}", [name], rest))
                    return None
                mask |= int(consts[t])
            acts.append((mm.group(1) == "|=", mask))
            rest = rest[mm.end():]
        table.append((name, acts))
    return table


def facts(c):
    fl = c.facts_consts("kv", FLAG_CONSTS)
    if fl is None:
        return False
    src = c.facts_raw(["funcsrc", os.path.join(REPO, "kv/keyflags.go"), "ApplyFlagsOps"])
    if src is None:
        return False
    table = parse_apply_flags_ops(c, src.strip(), fl)
    if table is None:
        return False
    ops = c.facts_consts("kv", [n for n, _ in table])
    if ops is None:
        return False
    body = "namespace CGV.Gen.KeyFlags\n"
    for k in FLAG_CONSTS:
        body += f"def {k} : Nat := {fl[k]}\n"
    for n, _ in table:
        body += f"def {n} : Nat := {ops[n]}\n"
    body += "/-- kv.FlagsOp value ↦ the statements of its `case` in kv.ApplyFlagsOps, in order: (true, m) is `origin |= m`, (false, m) is `origin &= ^m` -/\n"
    body += "def opTable : List (Nat × List (Bool × Nat)) := [\n"
    rows = []
    for n, acts in table:
        a = ", ".join(f"({'true' if s else 'false'}, {m})" for s, m in acts)
        rows.append(f"  ({ops[n]}, [{a}])")
    body += ",\n".join(rows)
    body += "\n]\n"
    body += "/-- op names in table order (documentation / driver) -/\n"
    body += "def opNames : List String := [" + ", ".join(f'"{n}"' for n, _ in table) + "]\n"
    body += "end CGV.Gen.KeyFlags\n"
    c.write_generated("KeyFlags", body)
    la = c.facts_consts("internal/unionstore/art", ["MaxKeyLen", "maxInNodePrefixLen"])
    lr = c.facts_consts("internal/unionstore/rbt", ["MaxKeyLen"])
    ar = c.facts_consts("internal/unionstore/arena", ["initBlockSize", "maxBlockSize", "memdbVlogHdrSize"])
    un = c.facts_consts("internal/unionstore", ["unlimitedSize"])
    if None in (la, lr, ar, un):
        return False
    if la["MaxKeyLen"] != lr["MaxKeyLen"]:
        c.problems.append(Problem("tie", "art.MaxKeyLen != rbt.MaxKeyLen: the shared model has one key limit", [], f"{la} {lr}"))
        return False
    body = "namespace CGV.Gen.MemLimits\n"
    body += f"def maxKeyLen : Nat := {la['MaxKeyLen']}\n"
    body += f"def maxInNodePrefixLen : Nat := {la['maxInNodePrefixLen']}\n"
    body += f"def initBlockSize : Nat := {ar['initBlockSize']}\n"
    body += f"def maxBlockSize : Nat := {ar['maxBlockSize']}\n"
    body += f"def vlogHdrSize : Nat := {ar['memdbVlogHdrSize']}\n"
    body += f"def unlimitedSize : Nat := {un['unlimitedSize']}\n"
    body += "end CGV.Gen.MemLimits\n"
    c.write_generated("MemLimits", body)
    return True


class C08Check(Check):
    """same pipeline; a stronger shrinker so that a known pattern is only recognised in its 1-minimal canonical form"""

    def shrink(self, case_ops, hbin, exe, exe_args, budget=300, only_prop=False, want_prop=False):
        only_prop = only_prop or want_prop
        cur = Check.shrink(self, case_ops, hbin, exe, exe_args, budget=budget, only_prop=only_prop)
        runs = 0

        def eliminate(cur):
            nonlocal runs
            changed = True
            while changed and runs < 400:
                changed = False
                for i in range(len(cur)):
                    cand = cur[:i] + cur[i + 1:]
                    runs += 1
                    if cand and self._fails(cand, hbin, exe, exe_args, only_prop):
                        cur = cand
                        changed = True
                        break
            return cur
        cur = eliminate(cur)
        # checkpoint indices: `revert N` pins N+1 checkpoint ops; drop the j-th checkpoint and renumber the reverts after it
        progress = True
        while progress and runs < 600:
            progress = False
            cps = [i for i, op in enumerate(cur) if op == "checkpoint"]
            for j, pos in enumerate(cps):
                cand, valid = [], True
                for i, op in enumerate(cur):
                    if i == pos:
                        continue
                    m = re.match(r"revert (\d+)$", op)
                    if m:
                        n = int(m.group(1))
                        if n == j:
                            valid = False
                            break
                        cand.append(f"revert {n - 1}" if n > j else op)
                    else:
                        cand.append(op)
                if not valid:
                    continue
                runs += 1
                if self._fails(cand, hbin, exe, exe_args, only_prop):
                    cur = eliminate(cand)
                    progress = True
                    break
        # canonical observer: if the failure is also visible through a plain `len`, prefer that form
        if cur and cur[-1] != "len" and not only_prop:
            cand = cur[:-1] + ["len"]
            if self._fails(cand, hbin, exe, exe_args, only_prop):
                cur = eliminate(cand)
        return cur


def _tok_len(tok):
    if tok == "-":
        return 0
    if "*" in tok:
        h, n = tok.split("*")
        return (0 if h == "-" else len(h) // 2) * int(n)
    return len(tok) // 2


def _write_of(line):
    """(kind, key, value token or None) of a write op line, looking through the iterw / gsstale wrappers"""
    w = line.split()
    if w and w[0] == "iterw":
        w = w[2:]
    elif w and w[0] == "gsstale":
        w = w[2:]
    if len(w) >= 2 and w[0] in ("set", "del", "upd"):
        return w[0], w[1], (w[2] if w[0] == "set" and len(w) > 2 else None)
    return None


def narrow(c):
    """known_findings.json holds the op-line shapes of the three known patterns (necessary condition).  Here the exact
    side conditions are checked on the shrunk case; a case that has the shape but not the side conditions gets a marker
    line appended, which makes it longer than the entry's max_len, so it is reported as a VIOLATION."""
    for p in c.problems:
        if p.kind != "property":
            continue
        cs = p.case
        ok = True
        if len(cs) == 4 and cs[1] == "checkpoint" and cs[3].startswith("revert "):
            a, b = _write_of(cs[0]), _write_of(cs[2])
            ok = bool(a and b and a[0] == "set" and b[0] == "set" and a[1] == b[1] and a[2] and b[2]
                      and _tok_len(a[2]) == _tok_len(b[2]) and _tok_len(a[2]) > 0)
        elif len(cs) == 3 and cs[2] == "len":
            a, b = _write_of(cs[0]), _write_of(cs[1])
            m = re.search(r"impl: art=(\d+) rbt=(\d+) \|", p.detail)
            ok = bool(a and b and a[0] == "upd" and a[1] == b[1] and m and int(m.group(1)) == int(m.group(2)) + 1)
        elif len(cs) == 2 and cs[1].startswith("gsiter "):
            a = _write_of(cs[0])
            ok = bool(a and a[1] == "-")
        if not ok:
            p.case = cs + ["# side conditions of the known pattern do not hold"]


def triage_diff(c, ops_f, impl_f, model_f, hbin, exe, per_sig, total):
    """vcheck.diff shrinks only the first few failing cases; with three known findings in the unchanged tree the first
    few are all of one kind.  So: count everything with max_report=0, then group the failing cases by a signature of
    their first failing line (case kind, op word, skeleton of the implementation's result, model agrees?) and shrink
    `per_sig` cases of EVERY signature — a new kind of violation cannot hide behind the known ones."""
    c.diff(ops_f, impl_f, model_f, stateful=True, hbin=hbin, exe=exe, max_report=0)
    ops = open(ops_f).read().splitlines()
    impl = open(impl_f).read().splitlines()
    model = open(model_f).read().splitlines()
    n = min(len(ops), len(impl), len(model))
    groups = {}
    for (a, b) in vcheck.split_cases(ops[:n]):
        first = next((i for i in range(a, b) if not ops[i].startswith("#") and
                      (impl[i] != model[i] or impl[i].startswith("FAIL") or impl[i].startswith("panic"))), None)
        if first is None:
            continue
        kind = (ops[a].split() + ["", "", ""])[3] if ops[a].startswith("# case") else ""
        skel = " ".join(re.findall(r"FAIL|panic[:\w-]*|art=|rbt=|cleanup|revert|len|size|want|got|keys|lost-key|snapshot[\w-]*|handle[\w-]*"
                                   r"|iterator[\w-]*|err:[\w-]+|notfound|refused|bad-cp|bad-op|ok|valid|caught|nomatch|true|false", impl[first])[:10])
        sig = (kind.split("-")[0], ops[first].split()[0], skel, impl[first] == model[first])
        groups.setdefault(sig, []).append((a, b))
    c.cov["failing_case_signatures"] = {" | ".join(map(str, k)): len(v) for k, v in sorted(groups.items(), key=lambda kv: str(kv[0]))}
    chosen = []
    for sig in sorted(groups, key=str):
        chosen += groups[sig][:per_sig]
    chosen = sorted(chosen)[:total] if len(chosen) <= total else sorted(sorted(chosen, key=lambda ab: ab[1] - ab[0])[:total])
    if not chosen:
        return
    fo, fi, fm = (os.path.join(c.work, "triage." + x) for x in ("ops", "impl", "model"))
    with open(fo, "w") as o, open(fi, "w") as i_, open(fm, "w") as m_:
        for (a, b) in chosen:
            o.write("\n".join(ops[a:b]) + "\n")
            i_.write("\n".join(impl[a:b]) + "\n")
            m_.write("\n".join(model[a:b]) + "\n")
    saved = {k: (list(v) if isinstance(v, list) else v) for k, v in c.cov.items()}
    c.diff(fo, fi, fm, stateful=True, hbin=hbin, exe=exe, max_report=len(chosen))
    for k in ("evaluations", "traces_validated_against_impl", "distinct_nontrivial", "disagreements_checked", "property_op_failures", "samples"):
        if k in saved:
            c.cov[k] = saved[k]
    c.cov["failing_cases_shrunk"] = len(chosen)


def reclassify(c):
    """A shrunk case whose implementation line shows the two trees disagreeing with each other (`art=… rbt=…`) or a
    per-tree oracle verdict `FAIL` is a concrete failing input of C08 (observational equivalence / undo oracle) on the
    real code alone — no model involved — so it is a 'property' problem, not a mere correspondence mismatch."""
    for p in c.problems:
        if p.kind == "correspondence" and re.search(r"impl: (art=|.*\bFAIL\b)", p.detail):
            p.kind = "property"
            p.what = "the two buffers disagree with each other / undo oracle fails on the implementation"


def run(a):
    c = C08Check(PID, a.tier, a.seed)
    c.cov["rule"] = ("every op line is executed on the ART buffer and on the RBT buffer (result `art=… rbt=…`, collapsed when equal) and on the Lean "
                     "VLog model; cases = op sequences from one `reset`; exhaustive short sequences over a 6-key pool + seeded random sequences over an "
                     "adversarial key pool + a directed family that fills the value log to the arena block boundaries (4 KiB, then doubling), stages values that spill "
                     "into the next block and reads exactly those keys through every snapshot path, history and stage inspection; a direct differential of the "
                     "radix tree's node containers (n* ops: addChild/findChild/replaceChild/iteration across 4/16/48/256 in several insertion orders); a structure "
                     "differential of the whole radix tree (tdump/tsearch/tkeys; `paths` family: shared prefixes of 0..40 bytes around the 20-byte bound, keys ending "
                     "inside a prefix, all node sizes on one path) and red-black invariants checked on the real RBT (rbtchk); a batched-snapshot-iterator family (100-400 keys of mixed lengths from prefix "
                     "chains, many bounds, forward and reverse: gsiter against the model's batching, gschk against SnapshotIter / ForEachInSnapshotRange); property ops: cleanup/revert view oracle, snapshot-ignores-staged oracle, evaluated per tree")
    c.assumptions = ["the red-black tree is not modelled (its invariants are checked on the real tree by rbtchk); the radix tree is: node containers (Model/ArtNode.lean) and path logic (Model/ArtTree.lean, structure differential tdump); iterator seek with bounds is differential-only",
                     "vlog addresses are modelled as log indices; arena block arithmetic is covered by the differential only (values crossing the 4 KiB block)",
                     "RevertToCheckpoint is only issued for checkpoints at or above the top staging mark and not beyond the current log end (other uses loop on garbage headers)",
                     "sequence-number invalidation (iterator after write, stale GetSnapshot) exists only in ART; those ops observe ART only"]
    if facts(c):
        exe = c.build_driver("cgv-c08")
        hbin = c.build_harness("c08")
        if exe and hbin:
            r = c.run_harness(hbin)
            if r:
                ops, impl, st = r
                c.cov["input_distribution"] = st
                m = c.run_model(exe, ops)
                if m:
                    triage_diff(c, ops, impl, m, hbin, exe, per_sig=(1 if a.tier == "quick" else 3), total=(24 if a.tier == "quick" else 60))
                    reclassify(c)
                    narrow(c)
                    c.cov["programs"] = sum(1 for l in open(ops) if l.startswith("# case"))
                    c.cov["exhaustive"] = ("all op sequences over the 35-op alphabet of a 6-key pool: quick depth<=2 (6 keys), depth 3 (3 keys), depth 4 (2 keys); "
                                             "thorough depth<=4 (6 keys: 1.4M cases); counts in input_distribution")
        c.prove("ClientGoVerif.Props.C08")
    return c.finish()


def replay(a):
    c = C08Check(PID, a.tier, a.seed)
    rp = json.load(open(a.replay))
    cases = [p["case"] for p in rp["problems"] if p["kind"] in ("property", "correspondence") and p["case"]]
    facts(c)
    exe = c.build_driver("cgv-c08")
    hbin = c.build_harness("c08")
    if not (exe and hbin and cases):
        print("nothing to replay (no concrete input in the replay file)")
        return 0 if not c.problems else 1
    lines = []
    for i, cs in enumerate(cases):
        lines.append(f"# case {i}")
        if not (cs and cs[0].startswith("reset")):
            lines.append("reset")
        lines += cs
    f = os.path.join(c.work, "in.replay")
    open(f, "w").write("\n".join(lines) + "\n")
    ops, impl, _ = c.run_harness(hbin, replay=f)
    m = c.run_model(exe, ops)
    for o, i, mm in zip(open(ops).read().splitlines(), open(impl).read().splitlines(), open(m).read().splitlines()):
        print(f"{o}\n   impl : {i}\n   model: {mm}")
    c.diff(ops, impl, m, stateful=True, hbin=hbin, exe=exe)
    reclassify(c)
    narrow(c)
    return c.finish()
