"""Common part of the transactional-hub checks C01–C06 (HUB.md).

hubrun -prop Cxx runs the real client against mocktikv under the hub's scheduler / fault script and writes a totally
ordered trace; the Lean judge cgv-hub re-executes the trace (store replay, monitor rules, history oracles) and answers one
line per event: ok / MISMATCH … / FAIL ….  The implementation stream is `ok` for every event except the two events the
harness itself raises: `hang …` (FAIL hang: a scenario that did not finish) and `mockpanic …` (FAIL mockpanic: the mock
store's handler panicked on a request of the client).
"""
import json
import os

from vcheck import Check, Problem, LEAN, split_cases

EXE = "cgv-hub"
HARNESS = "hubrun"

COMMON_ASSUMPTIONS = [
    "the store is mocktikv (no async commit / 1PC / check-secondary-locks: the client falls back to 2PC on those modes)",
    "RPC granularity: every SendRequest is serialised by the hub's gate; interleavings inside one goroutine between RPCs are not explored",
    "virtual PD clock: TTL expiry is reached by moving the clock; heartbeats and lock-wait time-outs run on wall-clock timers and are kept out of the short scenarios",
    "failpoints fastBackoffBySkipSleep (back-off budgets are consumed without sleeping) and injectLiveness=reachable (no gRPC liveness probe of mock stores) are enabled",
    "neither store model (mocktikv, the Lean store) implements CheckTxnStatus.verify_is_primary (TiKV answers PrimaryMismatch when the key named as primary carries a lock of the transaction whose primary is another key; client-go sets the flag and re-reads the lock): a transaction for which such a request was EXECUTED is not judged by the atomicity and answer oracles (`statusOnSecondary` in Driver/Hub.lean)",
]


EXHAUSTIVE_SUBSPACE = (
    "controlled scheduler (harness/hub/control.go): a step is taken only when every client thread is blocked at the gate or finished; events = "
    "every RPC and the start of every transaction (Begin, i.e. the fetch of its start ts; so both begin orders of a pair are inside one tree and only "
    "multisets of programs are enumerated); any other timestamp fetch happens inside the step that leads to it. "
    "DFS with replay-from-scratch over ALL choice sequences, programs from the alphabet {rw(opt|pess,k) = get k; [lock k]; set k; commit, "
    "lw(k) = lock k; set k; commit, sr(opt|pess,k) = [lock k]; set k; rollback, w2(opt | pess primary a | pess primary b) = set a; set b; commit, r2 = get a; get b} "
    "(pessimistic locks are no-wait; key a holds a committed value, key b none). quick: all pairs over one key on one region (profile full: async commit); "
    "thorough, profile mock: A all pairs of the two-key alphabet (13 programs) on one region, B on two regions (a | b) the one-key programs on a against "
    "w2(opt), w2(pess,a), w2(pess,b), r2 and r2 against those four, C the triples {lw(a), sr(pess,a), sr(pess,a)} and {sr(pess,a)}^3 (every other triple of the alphabet exceeds the limit of 20000 schedules); profile full: A with async commit and with 1PC. "
    "NOT enumerated: two two-key writers against each other on two regions (> 40000 schedules per pair; and the optimistic writer's two parallel prewrite "
    "batches race for the client's shared lock resolver, a choice inside one client that the RPC scheduler does not control). "
    "Reductions, both stated: (1) stutter pruning: a request is not offered while the same client has already executed a request with the same label against "
    "the same store state (dump of both keys) — a retry of a blocked read/prewrite/lock while nobody else moved; the pruned schedules differ from an "
    "enumerated one only by such repeated requests with identical answers. If nothing else is enabled and the repeats belong to ONE client they are executed "
    "without being a decision point (forced_stutter_steps); (2) livelock cut: if the repeats belong to several clients (mutual blocking until a retry budget "
    "runs out; which budget runs out first depends on the random back-off jitter, not on the schedule) the schedule ends there (livelock_cuts; the prefix is judged, "
    "no quiesce oracles). Retry-budget exhaustion by starvation is therefore not covered. Labels blank the wall-clock dependent request fields (lock ttl, max_commit_ts). "
    "A combination over the schedule limit or with a lost branch (a replay that kept diverging) is listed and makes `exhaustive` false.")


def impl_side(c, ops_file, impl_file, max_report=6):
    """events raised by the harness itself: hang, mockpanic (implementation side FAIL …)"""
    ops = open(ops_file).read().splitlines()
    impl = open(impl_file).read().splitlines()
    n = min(len(ops), len(impl))
    seen = {}
    for (a, b) in split_cases(ops[:n]):
        for i in range(a, b):
            if impl[i].startswith("FAIL") or impl[i].startswith("panic"):
                w = ops[i].split()
                key = (impl[i], w[0], " ".join(ops[i].split("|")[-1].split()[:1]))
                seen[key] = seen.get(key, 0) + 1
                if seen[key] > 1 or len(seen) > max_report:
                    continue
                trace = [o for o in ops[a:i + 1] if not o.startswith("#")]
                c.problems.append(Problem("property", "the harness reports a failure of the implementation run (" + impl[i] + ")",
                                          trace, f"event {i - a}: {ops[i]} | impl: {impl[i]}"))
    c.cov["impl_side_failures"] = {" ".join(k): v for k, v in seen.items()}


def hang_cases(ops_file, impl_file):
    """headers (`# case …`) of the cases in which the harness raised a `hang` event"""
    ops = open(ops_file).read().splitlines()
    impl = open(impl_file).read().splitlines()
    n = min(len(ops), len(impl))
    out = []
    for (a, b) in split_cases(ops[:n]):
        if any(ops[i].startswith("hang ") and impl[i].startswith("FAIL") for i in range(a, b)):
            out.append(ops[a] if ops[a].startswith("#") else f"# at {a}")
    return out


def confirm_hangs(c, hbin, extra, prof, ops_file, impl_file):
    """A scenario that did not finish inside the time limit says nothing about C01–C06 by itself (none of them is a liveness
    statement) and may be the machine, not the client: it is reported only if it REPRODUCES — the same profile is run once
    more with the same seed (same scenarios, same fault scripts) and the same case must hang again.  A hang that does not
    come back is counted in the evidence (`hangs_not_reproduced`) and its problem entry is dropped."""
    hung = hang_cases(ops_file, impl_file)
    c.cov.setdefault("hangs_not_reproduced", [])
    c.cov.setdefault("hangs_reproduced", [])
    if not hung:
        return
    is_hang = lambda p: p.kind == "property" and "(FAIL hang" in p.what
    keep = [p for p in c.problems if not is_hang(p)]
    hangs = [p for p in c.problems if is_hang(p)]
    r = c.run_harness(hbin, extra=extra, tag=prof + "-rerun", timeout=3 * 3600)
    again = set(hang_cases(r[0], r[1])) if r else set(hung)
    reproduced = [h for h in hung if h in again]
    c.cov.setdefault("hangs_not_reproduced", []).extend([f"{prof}: {h}" for h in hung if h not in again])
    c.cov.setdefault("hangs_reproduced", []).extend([f"{prof}: {h}" for h in reproduced])
    c.problems = keep + (hangs if reproduced else [])


def profiles():
    """VERIF_HUB_PROFILE = both (default: each profile at 60 % of the tier's scenario count) | mock | full.  mock: mocktikv's MVCC store (every recorded answer is compared with the
    Lean model's); full: the real client runs against the Lean store itself (cgv-full: async commit, 1PC, CheckSecondaryLocks really
    happen), all six generators run on it."""
    p = os.environ.get("VERIF_HUB_PROFILE", "both")
    return {"mock": ["mock"], "full": ["full"], "both": ["mock", "full"]}.get(p, ["mock"])


def run_hub(pid, a, rule, assumptions=(), extra_part=None):
    """extra_part(c): a further part of the same check (same Check object, one evidence file, one exit status)"""
    c = Check(pid, a.tier, a.seed)
    c.cov["rule"] = rule
    c.assumptions = list(COMMON_ASSUMPTIONS) + list(assumptions)
    exe = c.build_driver(EXE)
    hbin = c.build_harness(HARNESS)
    profs = profiles()
    for prof in profs:
        if not (exe and hbin):
            break
        extra = ["-prop", pid]
        if len(profs) > 1:
            extra += ["-scale", "60"]
        if prof == "full":
            full = c.build_driver("cgv-full")
            if not full:
                break
            extra += ["-profile", "full", "-full", full]
            c.assumptions.append("profile full: the store is the Lean model MvccFull served by cgv-full (rules of DESIGN Appendix A are assumptions about TiKV)")
        r = c.run_harness(hbin, extra=extra, tag=prof, timeout=3 * 3600)
        if not r:
            continue
        ops, impl, st = r
        key = "" if prof == "mock" else "_full"
        c.cov["input_distribution" + key] = {k: v for k, v in st.items() if not k.startswith("api:")}
        c.cov["api_calls" + key] = {k[4:]: v for k, v in st.items() if k.startswith("api:")}
        c.cov["programs"] = c.cov.get("programs", 0) + st.get("scenarios", 0)
        exh = {k[4:]: v for k, v in st.items() if k.startswith("exh:")}
        if exh:
            # the enumerated sub-space (hubrun/exh.go): exhaustive only if no combination was cut, lost or diverged for good
            complete = exh.get("incomplete-combos", 0) == 0 and exh.get("lost-branch", 0) == 0
            c.cov["exhaustive_enumeration" + key] = {"exhaustive": bool(complete), "schedules": exh.get("schedules", 0), "combinations": exh.get("combos", 0),
                                          "incomplete_combinations": {k[len("incomplete:"):]: v for k, v in exh.items() if k.startswith("incomplete:")},
                                          "replay_divergences_retried": exh.get("divergence", 0), "late_arrivals_added": exh.get("late-arrivals", 0),
                                          "lost_branches": exh.get("lost-branch", 0), "stutter_pruned_steps": exh.get("stutter-pruned", 0),
                                          "forced_stutter_steps": exh.get("forced-stutter", 0), "livelock_cuts": exh.get("livelock-cut", 0),
                                          "by_family": {k: v for k, v in exh.items() if k.endswith(":schedules") or k.endswith(":combos")},
                                          "sub_space": EXHAUSTIVE_SUBSPACE}
        m = c.run_model(exe, ops, tag=prof)
        if m:
            c.diff_judge(ops, m)
            impl_side(c, ops, impl)
            confirm_hangs(c, hbin, extra, prof, ops, impl)
    if extra_part:
        extra_part(c)
    if os.path.exists(os.path.join(LEAN, "ClientGoVerif", "Props", pid + ".lean")):
        c.prove("ClientGoVerif.Props." + pid)
    return c.finish()


def replay_hub(pid, a, rule):
    """the trace IS the replay: hubrun -replay echoes the recorded events, the judge re-judges them"""
    c = Check(pid, a.tier, a.seed)
    c.cov["rule"] = rule
    rp = json.load(open(a.replay))
    exe = c.build_driver(EXE)
    hbin = c.build_harness(HARNESS)
    n = 0
    for p in rp["problems"]:
        if p["kind"] not in ("property", "correspondence") or not p["case"]:
            continue
        n += 1
        f = os.path.join(c.work, f"in{n}.replay")
        open(f, "w").write("# case %d\n" % n + "\n".join(p["case"]) + "\n")
        r = c.run_harness(hbin, replay=f, tag=f"rp{n}")
        if not r:
            continue
        ops, impl, _ = r
        m = c.run_model(exe, ops, tag=f"rp{n}")
        if not m:
            continue
        for o, mm in zip(open(ops).read().splitlines(), open(m).read().splitlines()):
            if mm != "ok" and not o.startswith("#"):
                print(f"{o}\n   judge: {mm}")
        c.diff_judge(ops, m)
        # harness-raised events (hang / mockpanic) are facts of the recorded run: report them again
        for o in open(ops).read().splitlines():
            if o.startswith("hang ") or o.startswith("mockpanic "):
                c.problems.append(Problem("property", "the harness reported a failure of the implementation run (FAIL " + o.split()[0] + ")",
                                          p["case"], o))
                break
    return c.finish()
